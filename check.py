#!/usr/bin/env python3
"""Orchestrator: one entry point for every registered command.

  python3 check.py <ID> [--tier quick|thorough] [--replay FILE]

Per run: rebuild implementation side from /repo's working tree, regenerate Generated/Tables.lean,
`lake build` the property's proof module, audit axioms, run the correspondence streams of the
property (impl vs model vs spec), match against KNOWN_FINDINGS.txt, write evidence/<ID>.json,
print KNOWN-FINDING / VIOLATION lines, exit 0/1.
"""
import argparse
import fcntl
import hashlib
import importlib
import json
import os
import re
import subprocess
import sys
import time

VERIF = os.path.dirname(os.path.abspath(__file__))
sys.path.insert(0, os.path.join(VERIF, "harness"))
sys.path.insert(0, VERIF)
import build as hbuild  # noqa: E402

LEAN = os.path.join(VERIF, "lean")
TABLES = os.path.join(LEAN, "Btcdeb/Generated/Tables.lean")
DRIVER = os.path.join(LEAN, ".lake/build/bin/driver")
ALLOWED_AXIOMS = {"propext", "Classical.choice", "Quot.sound"}
TRUSTED_BASE = [
    "Lean 4.33.0 kernel; axioms allowed: propext, Classical.choice, Quot.sound (audited with #print axioms on every run)",
    "Lean compiler/runtime for the driver executable (evaluates the same definitions the theorems are about)",
    "harness/dumper.cpp + the enumerator-name regular expressions in harness/build.py (table/constant tie)",
    "harness/harness.cpp, check.py canonicalisation and diff (correspondence tie); g++/libstdc++",
    "the hand-written Lean model is tested against the C++ by the correspondence check, not verified against it",
]


def log(msg):
    print(msg, flush=True)


class Ctx:
    def __init__(self, pid, tier, seed):
        self.pid = pid
        self.tier = tier
        self.seed = seed
        self.t0 = time.time()
        self.bin = None
        self.violations = []       # (replay_path, suffix)
        self.known_hits = {}       # finding id -> text
        self.stale = []
        self.samples = []
        self.evaluations = 0
        self.nontrivial = set()
        self.traces = 0
        self.streams = {}
        self.notes = []
        self.obligations = []
        self.discharged = []
        self.proof_ok = True
        self.proof_failures = []
        self.exhaustive = False
        self.findings = load_findings()

    # ------------------------------------------------------------------ implementation / model
    def harness(self, lines, variant_bin=None, timeout=3600, env=None, stderr_sink=None):
        """Runs the native harness; a crash (signal / sanitizer abort) is a result: the line that killed the process
        is answered `DIED rc=<code>` and the remaining lines are run in a fresh process.  With `stderr_sink` (a list) the
        harness keeps its stderr open and what it wrote (sanitizer reports) is appended per process run."""
        b = variant_bin or self.bin
        res = []
        todo = list(lines)
        argv = [os.path.join(b, "harness")] + (["--keep-stderr"] if stderr_sink is not None else [])
        e = dict(os.environ)
        if env:
            e.update(env)
        while todo:
            p = subprocess.run(argv, input="\n".join(todo) + "\n", stdout=subprocess.PIPE,
                               stderr=subprocess.PIPE, text=True, timeout=timeout, env=e, errors="replace")
            out = p.stdout.split("\n")
            if out and out[-1] == "":
                out.pop()
            if len(out) >= len(todo):
                res.extend(out[:len(todo)])
                if stderr_sink is not None and ("Sanitizer" in p.stderr or "runtime error" in p.stderr):
                    stderr_sink.append((None, p.stderr[-6000:]))
                break
            res.extend(out)
            res.append("DIED rc=%d" % p.returncode)
            if stderr_sink is not None:
                stderr_sink.append((todo[len(out)], p.stderr[-6000:]))
            todo = todo[len(out) + 1:]
        return res

    def harness_sharded(self, lines, shards=16):
        return sharded(lambda ls: self.harness(ls), lines, shards)

    def driver(self, lines, mode="model", timeout=3600):
        p = subprocess.run([DRIVER, mode], input="\n".join(lines) + "\n", stdout=subprocess.PIPE,
                           stderr=subprocess.PIPE, text=True, timeout=timeout)
        out = p.stdout.split("\n")
        if out and out[-1] == "":
            out.pop()
        if p.returncode != 0 or len(out) != len(lines):
            raise RuntimeError("driver failed rc=%d stderr=%s (got %d lines for %d)" % (p.returncode, p.stderr[-2000:], len(out), len(lines)))
        return out

    def driver_sharded(self, lines, mode="model", shards=16):
        return sharded(lambda ls: self.driver(ls, mode), lines, shards)

    def driver_gen(self, args, timeout=3600):
        p = subprocess.run([DRIVER, "gen"] + [str(a) for a in args], stdout=subprocess.PIPE, stderr=subprocess.PIPE,
                           text=True, timeout=timeout)
        if p.returncode != 0:
            raise RuntimeError("driver gen failed: " + p.stderr[-2000:])
        return [l for l in p.stdout.split("\n") if l]

    # ------------------------------------------------------------------ verdict plumbing
    def violation(self, case, detail, suffix=""):
        d = os.path.join(VERIF, "replays", self.pid)
        os.makedirs(d, exist_ok=True)
        blob = json.dumps({"property": self.pid, "case": case, "detail": detail, "seed": self.seed, "tier": self.tier,
                           "replay_cmd": f"python3 check.py {self.pid} --replay <this file>"}, indent=1, sort_keys=True)
        path = os.path.join(d, hashlib.sha256(blob.encode()).hexdigest()[:16] + ".json")
        with open(path, "w") as f:
            f.write(blob)
        self.violations.append((path, suffix))

    def known(self, fid, text):
        self.known_hits[fid] = text

    def count(self, stream, n, distinct_keys=()):
        self.evaluations += n
        self.streams[stream] = self.streams.get(stream, 0) + n
        for k in distinct_keys:
            self.nontrivial.add(k)

    def sample(self, s):
        if len(self.samples) < 12:
            self.samples.append(s)

    def compare(self, stream, lines, impl, model, spec=None, observable=None, region=None, nontrivial=None):
        """Generic three-way comparison.  observable(line_output) -> the part the property names.
        region(case, impl, model, spec) -> known-finding id or None."""
        obs = observable or (lambda x: x)
        bad = 0
        for i, case in enumerate(lines):
            im, mo = impl[i], model[i]
            sp = spec[i] if spec is not None else mo
            if nontrivial is None or nontrivial(case, im):
                self.nontrivial.add(hashlib.sha1(case.encode()).hexdigest()[:12])
            if i < 3:
                self.sample({"stream": stream, "case": case[:300], "impl": im[:300]})
            if obs(im) == obs(mo) and obs(im) == obs(sp):
                continue
            fid = region(case, im, mo, sp) if region else None
            if fid is not None and fid in self.findings and obs(im) == obs(mo):
                self.known(fid, self.findings[fid])
                continue
            bad += 1
            if bad <= 3:
                if obs(im) != obs(sp):
                    self.violation(case, {"stream": stream, "impl": im, "model": mo, "spec": sp,
                                          "why": "implementation differs from the specification on an observable the property names"})
                else:
                    self.violation(case, {"stream": stream, "impl": im, "model": mo, "spec": sp,
                                          "why": "correspondence:" + stream + " broken (implementation and model differ); implementation agrees with the specification on this case"},
                                   suffix="no-failing-input-found")
        self.count(stream, len(lines))
        self.traces += len(lines)
        return bad


def sharded(fn, lines, shards):
    from concurrent.futures import ThreadPoolExecutor
    if len(lines) < 64:
        return fn(lines)
    n = min(shards, max(1, len(lines) // 32))
    size = (len(lines) + n - 1) // n
    parts = [lines[i:i + size] for i in range(0, len(lines), size)]
    with ThreadPoolExecutor(max_workers=n) as ex:
        outs = list(ex.map(fn, parts))
    return [x for o in outs for x in o]


def load_findings():
    path = os.path.join(VERIF, "KNOWN_FINDINGS.txt")
    out = {}
    if os.path.exists(path):
        for l in open(path):
            l = l.strip()
            if l.startswith("finding:"):
                m = re.search(r"property=(\S+)\s+id=(\S+)\s+(.*)", l)
                if m:
                    out[m.group(2)] = (m.group(1), m.group(3))
    return out


# ---------------------------------------------------------------------------------------------
# Lean side

def write_tables(ctx):
    p = subprocess.run([os.path.join(ctx.bin, "dumper")], stdout=subprocess.PIPE, stderr=subprocess.PIPE, text=True)
    if p.returncode != 0:
        raise RuntimeError("dumper failed: " + p.stderr[-2000:])
    old = open(TABLES).read() if os.path.exists(TABLES) else ""
    if old != p.stdout:
        with open(TABLES, "w") as f:
            f.write(p.stdout)
        log("[tables] Generated/Tables.lean regenerated (differs from previous content)")
        return True
    log("[tables] Generated/Tables.lean unchanged")
    return False


def lake(targets, timeout=7200):
    p = subprocess.run(["lake", "build"] + targets, cwd=LEAN, stdout=subprocess.PIPE, stderr=subprocess.STDOUT,
                       text=True, timeout=timeout)
    return p.returncode, p.stdout


def strip_comments(src):
    # nested block comments and line comments
    out = []
    i = 0
    depth = 0
    n = len(src)
    while i < n:
        if src.startswith("/-", i):
            depth += 1
            i += 2
        elif depth and src.startswith("-/", i):
            depth -= 1
            i += 2
        elif depth:
            i += 1
        elif src.startswith("--", i):
            while i < n and src[i] != "\n":
                i += 1
        else:
            out.append(src[i])
            i += 1
    return "".join(out)


FORBIDDEN = re.compile(r"\bsorry\b|\badmit\b|^\s*axiom\s|native_decide|bv_decide|implemented_by|\bunsafe\s|maxHeartbeats\s+0|@\[extern")


def audit_sources():
    hits = []
    for dp, dn, fn in os.walk(LEAN):
        if ".lake" in dp:
            continue
        for f in fn:
            if f.endswith(".lean") and "Generated" not in dp:
                src = strip_comments(open(os.path.join(dp, f)).read())
                for ln, line in enumerate(src.split("\n"), 1):
                    if FORBIDDEN.search(line):
                        hits.append(f"{os.path.relpath(os.path.join(dp, f), LEAN)}: {line.strip()[:120]}")
    return hits


# property theorems that live in a shared module
EXTRA_PROPERTY_MODULES = {"C02": ["Sighash"], "C06": ["Sighash"]}


def theorems_of(pid):
    """Property theorems = every `theorem` declared in BtcdebProofs/Properties/<pid>.lean (+ Tables)."""
    res = []
    d = os.path.join(LEAN, "BtcdebProofs/Properties")
    mods = sorted(f[:-5] for f in os.listdir(d) if re.fullmatch(re.escape(pid) + r"[A-Za-z]*\.lean", f))
    mods += EXTRA_PROPERTY_MODULES.get(pid, [])
    for mod in mods + ["Tables"]:
        path = os.path.join(d, mod + ".lean")
        if not os.path.exists(path):
            continue
        src = strip_comments(open(path).read())
        ns = []
        for line in src.split("\n"):
            m = re.match(r"\s*namespace\s+(\S+)", line)
            if m:
                ns.append(m.group(1))
            m = re.match(r"\s*end\s+(\S+)", line)
            if m and ns and ns[-1].split(".")[-1] == m.group(1).split(".")[-1]:
                ns.pop()
            m = re.match(r"\s*(?:@\[[^\]]*\]\s*)?(?:protected\s+)?theorem\s+(\S+)", line)
            if m:
                res.append((mod, ".".join(ns + [m.group(1)])))
    return res


def audit_axioms(pid, thms):
    if not thms:
        return {}, []
    mods = sorted({m for m, _ in thms})
    src = "".join(f"import BtcdebProofs.Properties.{m}\n" for m in mods)
    src += "".join(f"#print axioms {t}\n" for _, t in thms)
    tmp = os.path.join(LEAN, f".audit_{pid}_{os.getpid()}.lean")
    with open(tmp, "w") as f:
        f.write(src)
    try:
        p = subprocess.run(["lake", "env", "lean", tmp], cwd=LEAN, stdout=subprocess.PIPE, stderr=subprocess.STDOUT, text=True)
    finally:
        os.unlink(tmp)
    axioms = {}
    bad = []
    txt = p.stdout
    # names may themselves end in primes: 'foo'' depends on ...
    for m in re.finditer(r"^'([^\n]+?)' depends on axioms: \[([^\]]*)\]", txt, flags=re.S | re.M):
        ax = {a.strip() for a in m.group(2).replace("\n", " ").split(",") if a.strip()}
        axioms[m.group(1)] = sorted(ax)
        if not ax <= ALLOWED_AXIOMS:
            bad.append(f"{m.group(1)} uses {sorted(ax - ALLOWED_AXIOMS)}")
    for m in re.finditer(r"^'([^\n]+?)' does not depend on any axioms", txt, flags=re.M):
        axioms[m.group(1)] = []
    for _, t in thms:
        if t not in axioms:
            bad.append(f"{t}: no axiom report ({txt[-300:]!r})")
    return axioms, bad


def lean_phase(ctx):
    """Build model + driver (must succeed), then the property's proofs (may fail -> obligations broken)."""
    lock = open(os.path.join(LEAN, ".verif-lock"), "w")
    fcntl.flock(lock, fcntl.LOCK_EX)
    try:
        write_tables(ctx)
        t = time.time()
        rc, out = lake(["Btcdeb", "driver"])
        if rc != 0:
            ctx.proof_ok = False
            ctx.proof_failures.append("model/driver build failed: " + out[-3000:])
            log("[lean] model/driver build FAILED\n" + out[-3000:])
            return False
        thms = theorems_of(ctx.pid)
        ctx.obligations = [t_ for _, t_ in thms]
        if not any(m.startswith(ctx.pid) for m, _ in thms):
            ctx.proof_ok = False
            ctx.proof_failures.append(f"no property theorem file BtcdebProofs/Properties/{ctx.pid}.lean")
            log(f"[lean] no property theorems for {ctx.pid}")
        mods = sorted({m for m, _ in thms}) or [ctx.pid]
        rc, out = lake([f"BtcdebProofs.Properties.{m}" for m in mods])
        if rc != 0:
            ctx.proof_ok = False
            errs = re.findall(r"error: ([^\n]*\n(?:[^\n]*\n){0,6})", out)
            ctx.proof_failures.append("lake build failed:\n" + "\n".join(errs[:6])[-3000:])
            log(f"[lean] lake build of {mods} FAILED:\n" + "\n".join(errs[:4])[-2500:])
        hits = audit_sources()
        if hits:
            ctx.proof_ok = False
            ctx.proof_failures.append("forbidden constructs: " + "; ".join(hits[:10]))
            log("[lean] audit: forbidden constructs: " + "; ".join(hits[:10]))
        if rc == 0:
            axioms, bad = audit_axioms(ctx.pid, thms)
            if bad:
                ctx.proof_ok = False
                ctx.proof_failures.append("axiom audit: " + "; ".join(bad[:10]))
                log("[lean] axiom audit FAILED: " + "; ".join(bad[:10]))
            else:
                ctx.discharged = list(ctx.obligations)
                log(f"[lean] lake build {', '.join(mods)}: ok ({len(thms)} property theorems, axioms within "
                    f"{{propext, Classical.choice, Quot.sound}}) in {time.time()-t:.1f} s")
            if ctx.tier == "thorough" and not bad:
                for m in mods:
                    p = subprocess.run(["lake", "env", "leanchecker", f"BtcdebProofs.Properties.{m}"], cwd=LEAN,
                                       stdout=subprocess.PIPE, stderr=subprocess.STDOUT, text=True)
                    if p.returncode != 0:
                        ctx.proof_ok = False
                        ctx.proof_failures.append(f"leanchecker {m}: " + p.stdout[-1500:])
                        log(f"[lean] leanchecker {m} FAILED")
                    else:
                        log(f"[lean] leanchecker {m}: ok")
        return True
    finally:
        fcntl.flock(lock, fcntl.LOCK_UN)
        lock.close()


# ---------------------------------------------------------------------------------------------

def write_evidence(ctx, level="proof"):
    evdir = os.environ.get("VERIF_EVIDENCE_DIR", os.path.join(VERIF, "evidence"))   # (seed experiments keep /verif/evidence untouched)
    os.makedirs(evdir, exist_ok=True)
    cov = {
        "obligations": max(1, len(ctx.obligations)),
        "discharged": len(ctx.discharged),
        "checker_cmd": f"cd /verif/lean && lake build BtcdebProofs.Properties.{ctx.pid} BtcdebProofs.Properties.Tables "
                       f"&& lake env lean <#print axioms of every property theorem> (python3 check.py {ctx.pid})",
        "trusted_base": TRUSTED_BASE,
        "theorems": ctx.obligations,
        "proof_failures": ctx.proof_failures,
        "evaluations": ctx.evaluations,
        "distinct_nontrivial": len(ctx.nontrivial),
        "rule": "cases are generated by the Lean driver / check modules from one splitmix64 seed or enumerated exhaustively; "
                "a case is counted non-trivial when it reaches the code under test (per-stream predicate) and distinct by the hash of its canonical input line",
        "traces_validated_against_impl": ctx.traces,
        "streams": ctx.streams,
        "samples": ctx.samples or [{"note": "no correspondence stream ran"}],
        "exhaustive": ctx.exhaustive,
        "known_findings_reproduced": sorted(ctx.known_hits),
        "stale_findings": ctx.stale,
        "notes": ctx.notes,
    }
    ev = {
        "property_id": ctx.pid, "tier": ctx.tier, "seed": ctx.seed, "level": level, "coverage": cov,
        "assumptions": TRUSTED_BASE, "wall_s": round(time.time() - ctx.t0, 2), "violations": len(ctx.violations),
    }
    with open(os.path.join(evdir, ctx.pid + ".json"), "w") as f:
        json.dump(ev, f, indent=1)


def main():
    ap = argparse.ArgumentParser()
    ap.add_argument("pid")
    ap.add_argument("--tier", default=os.environ.get("VERIF_TIER", "quick"))
    ap.add_argument("--replay")
    a = ap.parse_args()
    seed = int(os.environ.get("VERIF_SEED", "1"))
    ctx = Ctx(a.pid, a.tier if a.tier in ("quick", "thorough") else "quick", seed)
    mod = importlib.import_module("checks." + a.pid.lower())
    try:
        ctx.bin = hbuild.build(os.environ.get("VERIF_VARIANT", "plain"))
    except hbuild.BuildError as e:
        log("[build] FAILED (the tree does not compile):\n" + str(e)[-3000:])
        ctx.violation("build", {"why": "implementation does not build", "log": str(e)[-3000:]}, suffix="no-failing-input-found")
        write_evidence(ctx)
        for p, s in ctx.violations:
            log(f"VIOLATION property={ctx.pid} replay={p} {s}".rstrip())
        sys.exit(1)
    model_ok = lean_phase(ctx)
    if a.replay:
        case = json.load(open(a.replay))["case"]
        mod.replay(ctx, case)
        sys.exit(0)
    if model_ok:
        mod.run(ctx)
    if not ctx.proof_ok and not [v for v in ctx.violations if v[1] == ""]:
        # a proof obligation no longer checks and no concrete failing input was found
        ctx.violation("proof-obligation", {"why": "a proof obligation / the model build of this property no longer checks",
                                           "failures": ctx.proof_failures}, suffix="no-failing-input-found")
    # a concrete failing input supersedes no-failing-input-found reports
    concrete = [v for v in ctx.violations if v[1] == ""]
    report = concrete if concrete else ctx.violations
    write_evidence(ctx)
    for fid, (prop, text) in sorted(ctx.known_hits.items()):
        log(f"KNOWN-FINDING: property={prop} {fid} {text}")
    log(f"[evidence] evidence/{ctx.pid}.json written ({ctx.evaluations} evaluations, {len(ctx.nontrivial)} distinct non-trivial, "
        f"{len(ctx.discharged)}/{len(ctx.obligations)} theorems, {time.time()-ctx.t0:.1f} s)")
    if report:
        for p, s in report[:5]:
            log(f"VIOLATION property={ctx.pid} replay={p} {s}".rstrip())
        sys.exit(1)
    sys.exit(0)


if __name__ == "__main__":
    main()
