import Btcdeb.Basic.Bytes
import Btcdeb.Generated.Tables
import Btcdeb.Model.ScriptNum
import Btcdeb.Spec.ScriptNum
