import Driver.Run
import Driver.Gen
import Driver.Main
