import Driver.Run
import Driver.Gen
import Driver.Session
import Driver.Exec
import Driver.Value
import Driver.Tce
import Driver.Extra
import Driver.Main
