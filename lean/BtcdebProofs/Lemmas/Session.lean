/-
  Helper lemmas about the session model: a step consumes script bytes, keeps the frame, and is exactly
  undone by `instRewind`.
-/
import Btcdeb
import BtcdebProofs.Lemmas.Frame
namespace Btcdeb.Model
open Btcdeb

/-- a successful operation moves the position strictly forward -/
theorem step_pc (cx : Ctx) (e : SEE) (pc : Bytes) : Post (step cx e pc) (fun r => r.2.length < pc.length) := by
  unfold step
  simp only []
  split
  · exact post_fail _ _
  · rename_i g hg
    have hlt := getOp_rest_lt hg
    refine post_ite _ _ _ _ (post_fail _ _) ?_
    refine post_bind' ?_
    intro e1
    refine post_ite _ _ _ _ (post_fail _ _) ?_
    refine post_ite _ _ _ _ (post_fail _ _) ?_
    refine post_ite _ _ _ _ ?_ ?_
    · refine post_ite _ _ _ _ (post_fail _ _) ?_
      refine post_bind' ?_; intro e2; exact post_pure _ _ hlt
    · refine post_ite _ _ _ _ ?_ ?_
      · refine post_bind' ?_; intro e2; exact post_pure _ _ hlt
      · refine post_bind' ?_; intro e2; exact post_pure _ _ hlt

/-- well-formedness invariant of a session: the position lies inside the script, and the taproot
    commitment phase precedes every operation of the script -/
structure IEnv.Inv (e : IEnv) : Prop where
  pcLe : e.pc.length ≤ e.see.script.length
  tceStart : e.tce.isSome = true → atStart e = true

theorem atStart_iff (e : IEnv) : atStart e = true ↔ e.pc.length = e.see.script.length := by
  simp [atStart]

theorem instRewind_of_atStart {e : IEnv} (h : atStart e = true) : instRewind e = none := by
  simp [instRewind, h]

/-- what one successful `StepScript(InterpreterEnv&)` does, as far as rewinding is concerned:
    the invariant is kept, and a rewind issued right afterwards is either refused or returns exactly
    the state before the step -/
theorem stepSession_rewind (cx : Ctx) (tc : TapCtx) (ep e : IEnv) (hinv : ep.Inv) (hnd : ep.done = false)
    (hs : stepSession cx tc ep = .ok e) :
    e.Inv ∧ ((atStart e = true ∧ instRewind e = none) ∨ instRewind e = some ep) := by
  unfold stepSession at hs
  cases htce : ep.tce with
  | some t =>
    simp only [htce] at hs
    have hst : atStart ep = true := hinv.tceStart (by simp [htce])
    cases hit : t.iterate tc with
    | mk state t' =>
      rw [hit] at hs
      cases state with
      | failed => simp at hs
      | processing =>
        simp at hs; cases hs
        have hat : atStart { ep with tce := some t', currOpSeq := ep.currOpSeq + 1 } = true := by simpa [atStart] using hst
        exact ⟨⟨hinv.pcLe, fun _ => hat⟩, Or.inl ⟨hat, instRewind_of_atStart hat⟩⟩
      | done =>
        simp at hs; cases hs
        refine ⟨⟨hinv.pcLe, fun h => by simp at h⟩, Or.inl ?_⟩
        refine ⟨?_, instRewind_of_atStart ?_⟩ <;> simpa [atStart] using hst
  | none =>
    simp only [htce] at hs
    by_cases hpc : ep.pc.isEmpty = true
    · -- end of the current script
      simp only [hpc, Bool.not_true, Bool.false_eq_true, if_false] at hs
      by_cases hc : ep.see.cond.empty = true
      · simp only [hc, Bool.not_true, Bool.false_eq_true, if_false] at hs
        by_cases hp2 : ep.isP2sh = true
        · simp only [hp2, if_true] at hs
          -- P2SH hand-over: the new position is the start of the redeem script
          cases hl : ep.see.stack.getLast? with
          | none => simp [hl, fail] at hs
          | some top =>
            simp only [hl] at hs
            by_cases hcb : castToBool top = true
            · simp only [hcb, Bool.not_true, Bool.false_eq_true, if_false] at hs
              by_cases hps : isPayToScriptHash ep.see.script = true
              · simp only [hps, if_true] at hs
                by_cases hpo : (ep.sigscriptExecuted && !ep.sigscriptPushonly) = true
                · simp [hpo, fail] at hs
                · simp only [hpo, Bool.false_eq_true, if_false] at hs
                  cases hr : ep.p2shStack.getLast? with
                  | none => simp [hr, fail] at hs
                  | some redeem =>
                    simp only [hr] at hs
                    cases hs
                    refine ⟨⟨by simp, fun _ => by simp [atStart]⟩, Or.inl ?_⟩
                    refine ⟨?_, instRewind_of_atStart ?_⟩ <;> simp [atStart]
              · simp [hps, fail] at hs
            · simp [hcb, fail] at hs
        · simp only [hp2, Bool.false_eq_true, if_false] at hs
          by_cases hsu : ep.successor.isEmpty = true
          · simp only [hsu, Bool.not_true, Bool.false_eq_true, if_false] at hs
            -- the end-of-script step: only `done` changes
            cases hs
            refine ⟨⟨hinv.pcLe, fun h => by simp [htce] at h⟩, ?_⟩
            simp only [instRewind]
            by_cases hat : atStart ep = true
            · left; refine ⟨?_, instRewind_of_atStart ?_⟩ <;> simpa [atStart] using hat
            · right
              have hat' : (ep.pc.length == ep.see.script.length) = false := by simpa [atStart] using hat
              simp only [atStart, hat', Bool.false_eq_true, if_false, if_true]
              cases ep; simp_all
          · simp only [hsu, Bool.not_false, if_true] at hs
            by_cases hsz : ep.successor.length > Gen.MAX_SCRIPT_SIZE
            · simp [hsz, fail] at hs
            · simp only [hsz, if_false] at hs
              cases hs
              refine ⟨⟨by simp, fun _ => by simp [atStart]⟩, Or.inl ?_⟩
              refine ⟨?_, instRewind_of_atStart ?_⟩ <;> simp [atStart]
      · simp [hc, fail] at hs
    · -- an operation of the script
      simp only [hpc, Bool.not_false, if_true] at hs
      cases hst : step cx ep.see ep.pc with
      | error x => simp [hst, Functor.map, Except.map] at hs
      | ok r =>
        obtain ⟨see', pc'⟩ := r
        simp [hst, Functor.map, Except.map] at hs
        have hfr := step_frame cx ep.see see' ep.pc pc' hst
        have hlt := step_pc cx ep.see ep.pc (see', pc') hst
        simp only at hlt
        simp only [SEE.frame, Prod.mk.injEq] at hfr
        obtain ⟨h1, h2, h3, h4, h5, h6, h7, h8⟩ := hfr
        cases hs
        have hle := hinv.pcLe
        refine ⟨⟨by simp [h1]; omega, fun h => by simp [htce] at h⟩, Or.inr ?_⟩
        have hne : (pc'.length == see'.script.length) = false := by
          rw [h1]; simp; omega
        simp only [instRewind, atStart, hne, Bool.false_eq_true, if_false, hnd, IEnv.snapshot]
        obtain ⟨see, pc, history, currOpSeq, operational, done, isP2sh, p2shStack, successor, tce⟩ := ep
        obtain ⟨script, pbegincodehash, cond, stack, altstack, nOpCount, flags, sigversion, requireMinimal, allowDisabled, opcodePos, execdata, pretendMap, pretendKeys⟩ := see
        simp at h1 h2 h3 h4 h5 h6 h7 h8 hnd ⊢
        exact ⟨⟨h1, h2, h3, h4, h5, h6, h7⟩, hnd, by simpa using htce.symm⟩

end Btcdeb.Model
