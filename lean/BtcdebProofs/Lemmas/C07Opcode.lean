import Btcdeb
import BtcdebProofs.Properties.Tables
namespace Btcdeb.Proofs.C07Opcode
open Btcdeb Btcdeb.Model

/-! ### bytes, characters, strings -/

/-- the character a byte stands for in `strOfBytes` / `asString` -/
def chr (b : UInt8) : Char := Char.ofNat b.toNat

theorem toNat_ofNat_small (n : Nat) (h : n < 256) : (Char.ofNat n).toNat = n := by
  have hv : n.isValidChar := Or.inl (by omega)
  rw [Char.ofNat, dif_pos hv]
  rfl

theorem chr_toNat (b : UInt8) : (chr b).toNat = b.toNat := toNat_ofNat_small _ (UInt8.toNat_lt b)

theorem chr_inj {a b : UInt8} (h : chr a = chr b) : a = b := by
  have := congrArg Char.toNat h
  rw [chr_toNat, chr_toNat] at this
  exact UInt8.toNat_inj.mp this

theorem strOfBytes_eq (w : Bytes) : strOfBytes w = String.ofList (w.map chr) := rfl
theorem asString_eq (w : Bytes) : Spec.asString w = strOfBytes w := rfl

theorem strOfBytes_toList (w : Bytes) : (strOfBytes w).toList = w.map chr := by
  rw [strOfBytes_eq, String.toList_ofList]

theorem strOfBytes_OP (r : Bytes) : strOfBytes (79 :: 80 :: 95 :: r) = "OP_" ++ strOfBytes r := by
  rw [strOfBytes_eq, strOfBytes_eq]
  show String.ofList ([chr 79, chr 80, chr 95] ++ r.map chr) = _
  rw [String.ofList_append]
  rfl

theorem startsWith_OP (w : Bytes) :
    (strOfBytes w).startsWith "OP_" = true ↔ ∃ r, w = 79 :: 80 :: 95 :: r := by
  rw [String.startsWith_string_iff, strOfBytes_toList]
  show [chr 79, chr 80, chr 95] <+: w.map chr ↔ _
  constructor
  · intro h
    match w, h with
    | a :: b :: c :: r, h =>
      simp only [List.map_cons, List.cons_prefix_cons] at h
      obtain ⟨h1, h2, h3, _⟩ := h
      rw [← chr_inj h1, ← chr_inj h2, ← chr_inj h3]
      exact ⟨r, rfl⟩
    | [], h => simp at h
    | [_], h => simp at h
    | [_, _], h => simp at h
  · rintro ⟨r, rfl⟩
    simp [List.cons_prefix_cons]

/-- the word without a leading "OP_" (on bytes) -/
def bare : Bytes → Bytes
  | 79 :: 80 :: 95 :: r => r
  | r => r

theorem bare_cases (w : Bytes) :
    (w = 79 :: 80 :: 95 :: bare w) ∨ (bare w = w ∧ ∀ r, w ≠ 79 :: 80 :: 95 :: r) := by
  unfold bare
  split
  · exact Or.inl rfl
  · rename_i hn
    exact Or.inr ⟨rfl, fun r h => hn r h⟩

/-- both sides look up this string: "OP_" in front of the stripped word -/
theorem full_eq (w : Bytes) :
    (if (Spec.asString w).startsWith "OP_" then Spec.asString w else "OP_" ++ Spec.asString w)
      = "OP_" ++ strOfBytes (bare w) := by
  rw [asString_eq]
  rcases bare_cases w with h | ⟨h, hn⟩
  · have : (strOfBytes w).startsWith "OP_" = true := (startsWith_OP w).mpr ⟨_, h⟩
    rw [if_pos this]
    conv => lhs; rw [h]
    exact strOfBytes_OP _
  · have : ¬ (strOfBytes w).startsWith "OP_" = true := fun hs => by
      obtain ⟨r, hr⟩ := (startsWith_OP w).mp hs
      exact hn r hr
    rw [if_neg this, h]

/-! ### association lists -/

/-- value of the first entry with key `k` -/
def look (L : List (String × Nat)) (k : String) : Option Nat := (L.find? (fun p => p.1 == k)).map (·.2)

/-- equal keys carry equal values -/
def Functional (L : List (String × Nat)) : Prop := ∀ p ∈ L, ∀ q ∈ L, p.1 = q.1 → p.2 = q.2

theorem look_eq_some_iff (L : List (String × Nat)) (hf : Functional L) (k : String) (v : Nat) :
    look L k = some v ↔ (k, v) ∈ L := by
  unfold look
  constructor
  · intro h
    cases hfind : L.find? (fun p => p.1 == k) with
    | none => rw [hfind] at h; cases h
    | some p =>
      rw [hfind] at h
      have hv : p.2 = v := by simpa using h
      have hk : p.1 = k := by simpa using List.find?_some hfind
      have := List.mem_of_find?_eq_some hfind
      rw [← hv, ← hk]; exact this
  · intro hm
    cases hfind : L.find? (fun p => p.1 == k) with
    | none =>
      have := List.find?_eq_none.mp hfind (k, v) hm
      simp at this
    | some p =>
      have hk : p.1 = k := by simpa using List.find?_some hfind
      have hp := List.mem_of_find?_eq_some hfind
      have := hf p hp (k, v) hm hk
      simp [this]

theorem look_mem (L : List (String × Nat)) (k : String) (v : Nat) (h : look L k = some v) : (k, v) ∈ L := by
  unfold look at h
  cases hfind : L.find? (fun p => p.1 == k) with
  | none => rw [hfind] at h; cases h
  | some p =>
    rw [hfind] at h
    have hv : p.2 = v := by simpa using h
    have hk : p.1 = k := by simpa using List.find?_some hfind
    have := List.mem_of_find?_eq_some hfind
    rw [← hv, ← hk]; exact this

private theorem find?_congr' {α} (l : List α) (p q : α → Bool) (h : ∀ x ∈ l, p x = q x) : l.find? p = l.find? q := by
  induction l with
  | nil => rfl
  | cons a l ih =>
    simp only [List.find?_cons, h a (by simp)]
    rw [ih (fun x hx => h x (by simp [hx]))]

/-! ### the two name tables -/

/-- the names the specification accepts (with prefix) -/
def specTab : List (String × Nat) := (Op.table ++ Op.aliases).filter (fun p => p.1 != "OP_INVALIDOPCODE")
/-- the entries of the generated table `ParseOpCode` can reach after stripping "OP_" -/
def modelTab : List (String × Nat) := Gen.opCodeByName.filter (fun p => !p.1.startsWith "OP_")
/-- the same with the prefix put back -/
def modelTab' : List (String × Nat) := modelTab.map (fun q => ("OP_" ++ q.1, q.2))

def isAlias (p : String × Nat) : Bool :=
  p.1 == "OP_FALSE" || p.1 == "OP_TRUE" || p.1 == "OP_NOP2" || p.1 == "OP_NOP3"

/-- closed fact (linear in the table size): the prefix-free half of the generated table, with the prefix
    put back, is the specification's table (without the enumerator OP_INVALIDOPCODE, which is no opcode name) with
    the four aliases inserted after their opcodes -/
theorem modelTab'_split :
    modelTab'.filter (fun p => !isAlias p) = Op.table.filter (fun p => p.1 != "OP_INVALIDOPCODE") ∧
    modelTab'.filter isAlias = Op.aliases := by
  decide +kernel

theorem aliases_valid : Op.aliases.all (fun p => p.1 != "OP_INVALIDOPCODE") = true := by decide +kernel

theorem mem_specTab (p : String × Nat) :
    p ∈ specTab ↔ p ∈ Op.table ++ Op.aliases ∧ p.1 ≠ "OP_INVALIDOPCODE" := by
  unfold specTab; rw [List.mem_filter]; simp

/-- the rows `ParseOpCode` accepts (prefix put back) are exactly the names the specification accepts -/
theorem mem_modelTab' (p : String × Nat) : p ∈ modelTab' ↔ p ∈ specTab := by
  rw [mem_specTab, List.mem_append]
  have h1 : p ∈ modelTab' ↔ (p ∈ Op.table ∧ p.1 ≠ "OP_INVALIDOPCODE") ∨ p ∈ Op.aliases := by
    have ht : p ∈ Op.table.filter (fun p => p.1 != "OP_INVALIDOPCODE") ↔ (p ∈ Op.table ∧ p.1 ≠ "OP_INVALIDOPCODE") := by
      rw [List.mem_filter]; simp
    rw [← ht, ← modelTab'_split.1, ← modelTab'_split.2, List.mem_filter, List.mem_filter]
    cases isAlias p <;> simp
  rw [h1]
  constructor
  · rintro (⟨h, hn⟩ | h)
    · exact ⟨Or.inl h, hn⟩
    · refine ⟨Or.inr h, ?_⟩
      have := List.all_eq_true.mp aliases_valid p h
      simpa using this
  · rintro ⟨h | h, hn⟩
    · exact Or.inl ⟨h, hn⟩
    · exact Or.inr h

theorem full_functional : Functional (Op.table ++ Op.aliases) := by
  intro p hp q hq h
  have h1 := List.all_eq_true.mp Tables.opcode_enum.2 p hp
  have h2 := List.all_eq_true.mp Tables.opcode_enum.2 q hq
  simp only [beq_iff_eq] at h1 h2
  rw [h, h2] at h1
  exact (Option.some.inj h1).symm

theorem specTab_functional : Functional specTab :=
  fun p hp q hq h => full_functional p ((mem_specTab p).mp hp).1 q ((mem_specTab q).mp hq).1 h
theorem modelTab'_functional : Functional modelTab' :=
  fun p hp q hq h => specTab_functional p ((mem_modelTab' p).mp hp) q ((mem_modelTab' q).mp hq) h

theorem look_modelTab' (n : String) : look modelTab' ("OP_" ++ n) = look modelTab n := by
  unfold look modelTab'
  rw [List.find?_map, Option.map_map]
  have : ((fun p : String × Nat => p.1 == "OP_" ++ n) ∘ fun q : String × Nat => ("OP_" ++ q.1, q.2))
      = fun p => p.1 == n := by
    funext q
    simp only [Function.comp]
    rw [Bool.eq_iff_iff]
    simp [String.append_right_inj]
  rw [this]
  cases List.find? (fun p => p.1 == n) modelTab <;> rfl

/-- the specification's table is the prefix-free half of `ParseOpCode`'s -/
theorem look_specTab (k : String) : look specTab k = look modelTab' k := by
  apply Option.ext; intro v
  rw [look_eq_some_iff _ specTab_functional, look_eq_some_iff _ modelTab'_functional, mem_modelTab']

/-- the enumerator OP_INVALIDOPCODE is no name for either side -/
theorem look_invalid : look modelTab "INVALIDOPCODE" = none ∧ look specTab "OP_INVALIDOPCODE" = none := by
  decide +kernel

/-! ### the `x` escape -/

theorem hexDigitVal_eq (c : UInt8) :
    hexDigitVal c = if Spec.isHexDigit c then some (Spec.hexNibble c) else none := by
  unfold hexDigitVal Spec.isHexDigit Spec.hexNibble
  generalize c.toNat = n
  simp only [Bool.and_eq_true, Bool.or_eq_true, decide_eq_true_eq]
  by_cases h1 : 48 ≤ n ∧ n ≤ 57
  · simp [h1]
  · by_cases h2 : 97 ≤ n ∧ n ≤ 102
    · have h3 : ¬ n ≤ 57 := by omega
      have h4 : n ≥ 97 := h2.1
      simp [h2, h3]
    · by_cases h3 : 65 ≤ n ∧ n ≤ 70
      · have h4 : ¬ n ≤ 57 := by omega
        have h5 : ¬ n ≥ 97 := by omega
        simp [h3, h4, h5]
      · simp [h1, h2, h3]

theorem hexNibble_le (c : UInt8) (h : Spec.isHexDigit c = true) : Spec.hexNibble c ≤ 15 := by
  unfold Spec.isHexDigit at h
  unfold Spec.hexNibble
  generalize c.toNat = n at h ⊢
  simp only [Bool.and_eq_true, Bool.or_eq_true, decide_eq_true_eq] at h
  split
  · omega
  · split <;> omega

/-- the specification's escape -/
def xesc : Bytes → Option Nat
  | [120, a, b] =>
    if Spec.isHexDigit a && Spec.isHexDigit b then some (Spec.hexNibble a * 16 + Spec.hexNibble b) else none
  | _ => none

/-- `ParseOpCode`'s escape -/
def xescM : Bytes → Option Nat
  | [120, a, b] => match hexDigitVal a, hexDigitVal b with
    | some h, some l => some (h * 16 + l)
    | _, _ => none
  | _ => none

theorem xescM_eq (n : Bytes) : xescM n = xesc n := by
  unfold xescM xesc
  split
  · rename_i a b
    rw [hexDigitVal_eq a, hexDigitVal_eq b]
    cases Spec.isHexDigit a <;> cases Spec.isHexDigit b <;> rfl
  · rfl

theorem xesc_some (n : Bytes) (c : Nat) (h : xesc n = some c) :
    ∃ a b, n = [120, a, b] ∧ Spec.isHexDigit a = true ∧ Spec.isHexDigit b = true ∧
      c = Spec.hexNibble a * 16 + Spec.hexNibble b := by
  unfold xesc at h
  split at h
  · rename_i a b
    by_cases hh : (Spec.isHexDigit a && Spec.isHexDigit b) = true
    · rw [if_pos hh] at h
      rw [Bool.and_eq_true] at hh
      exact ⟨a, b, rfl, hh.1, hh.2, (Option.some.inj h).symm⟩
    · rw [if_neg hh] at h; cases h
  · cases h

theorem xesc_none (n : Bytes) (h : ∀ rest, n ≠ 120 :: rest) : xesc n = none := by
  cases hx : xesc n with
  | none => rfl
  | some c =>
    obtain ⟨a, b, hn, _⟩ := xesc_some n c hx
    exact absurd hn (h _)

theorem modelTab_no_x : modelTab.all (fun p => !p.1.startsWith "x") = true := by decide +kernel

/-- no table name begins with `x` -/
theorem look_modelTab_x (rest : Bytes) : look modelTab (strOfBytes (120 :: rest)) = none := by
  unfold look
  rw [Option.map_eq_none_iff, List.find?_eq_none]
  intro p hp hpe
  have hpe : p.1 = strOfBytes (120 :: rest) := by simpa using hpe
  have h1 := List.all_eq_true.mp modelTab_no_x p hp
  rw [hpe] at h1
  have : (strOfBytes (120 :: rest)).startsWith "x" = true := by
    rw [String.startsWith_string_iff, strOfBytes_toList]
    show [chr 120] <+: chr 120 :: rest.map chr
    simp [List.cons_prefix_cons]
  rw [this] at h1
  cases h1

/-! ### both functions in terms of the tables -/

theorem look_specTab_full (n : Bytes) :
    look specTab ("OP_" ++ strOfBytes n) = look modelTab (strOfBytes n) := by
  rw [look_specTab, look_modelTab']

theorem look_specTab_x (rest : Bytes) : look specTab ("OP_" ++ strOfBytes (120 :: rest)) = none := by
  rw [look_specTab_full, look_modelTab_x]

theorem readOpcode_eq (w : Bytes) : Spec.readOpcode w =
    match look specTab ("OP_" ++ strOfBytes (bare w)) with
    | some v => some v
    | none => xesc (bare w) := by
  unfold Spec.readOpcode
  simp only []
  rw [full_eq]
  have hfind : (Op.table ++ Op.aliases).find?
        (fun p => p.1 == "OP_" ++ strOfBytes (bare w) && p.1 != "OP_INVALIDOPCODE")
      = specTab.find? (fun p => p.1 == "OP_" ++ strOfBytes (bare w)) := by
    unfold specTab
    rw [List.find?_filter]
    apply find?_congr'
    intro p _
    rw [Bool.eq_iff_iff]
    simp [and_comm]
  rw [hfind]
  unfold look
  cases specTab.find? (fun p => p.1 == "OP_" ++ strOfBytes (bare w)) <;> rfl

theorem parseOpCode_eq (w : Bytes) : parseOpCode w =
    match xesc (bare w) with
    | some v => some v
    | none => look modelTab (strOfBytes (bare w)) := by
  have hfind : Gen.opCodeByName.find? (fun p => p.1 == strOfBytes (bare w) && !p.1.startsWith "OP_")
      = modelTab.find? (fun p => p.1 == strOfBytes (bare w)) := by
    unfold modelTab
    rw [List.find?_filter]
    apply find?_congr'
    intro p _
    rw [Bool.eq_iff_iff]
    simp [and_comm]
  have h0 : parseOpCode w = match xescM (bare w) with
      | some v => some v
      | none =>
        match Gen.opCodeByName.find? (fun p => p.1 == strOfBytes (bare w) && !p.1.startsWith "OP_") with
        | some p => some p.2
        | none => none := by
    rcases bare_cases w with h | ⟨h, hn⟩
    · generalize bare w = r at *
      subst h
      rfl
    · rw [h]
      unfold parseOpCode
      simp only []
      rfl
  rw [h0, hfind, xescM_eq]
  unfold look
  cases xesc (bare w) with
  | some v => rfl
  | none => cases modelTab.find? (fun p => p.1 == strOfBytes (bare w)) <;> rfl


/-! ### the theorems -/

/-- `ParseOpCode` IS the specification's reading of opcode names, on EVERY byte string: the same words are accepted
    (names of the table with or without `OP_`, the escapes `xNN` / `OP_xNN` for every byte NN — ff included, since the
    fix a4419d3 of /repo reports success apart from the value) and they denote the same opcode -/
theorem parseOpCode_eq_readOpcode (w : Bytes) : parseOpCode w = Spec.readOpcode w := by
  rw [parseOpCode_eq, readOpcode_eq]
  generalize bare w = n
  by_cases hx : ∃ rest, n = 120 :: rest
  · obtain ⟨rest, rfl⟩ := hx
    rw [look_specTab_x, look_modelTab_x]
    cases xesc (120 :: rest) <;> rfl
  · have hx' : ∀ rest, n ≠ 120 :: rest := fun rest h => hx ⟨rest, h⟩
    rw [xesc_none n hx', look_specTab_full]
    cases look modelTab (strOfBytes n) <;> rfl

/-- the wrapper `GetOpCode` (no caller of the modelled code is left) cannot tell "opcode 255" from "none" -/
theorem getOpCode_eq_readOpcode (w : Bytes) : getOpCode w = (Spec.readOpcode w).getD 255 := by
  unfold getOpCode
  rw [parseOpCode_eq_readOpcode]

theorem specTab_lt : specTab.all (fun p => decide (p.2 < 255)) = true := by decide +kernel

theorem readOpcode_cases (w : Bytes) (c : Nat) (h : Spec.readOpcode w = some c) :
    ("OP_" ++ strOfBytes (bare w), c) ∈ specTab ∨
    ∃ a b, bare w = [120, a, b] ∧ Spec.isHexDigit a = true ∧ Spec.isHexDigit b = true ∧
      c = Spec.hexNibble a * 16 + Spec.hexNibble b := by
  rw [readOpcode_eq] at h
  cases hl : look specTab ("OP_" ++ strOfBytes (bare w)) with
  | some v =>
    rw [hl] at h
    have hv : v = c := Option.some.inj h
    rw [hv] at hl
    exact Or.inl (look_mem _ _ _ hl)
  | none =>
    rw [hl] at h
    exact Or.inr (xesc_some _ _ h)

theorem readOpcode_lt (w : Bytes) (c : Nat) (h : Spec.readOpcode w = some c) : c < 256 := by
  rcases readOpcode_cases w c h with hm | ⟨a, b, _, ha, hb, hc⟩
  · have := List.all_eq_true.mp specTab_lt _ hm
    simp only [decide_eq_true_eq] at this
    omega
  · have := hexNibble_le a ha
    have := hexNibble_le b hb
    omega

/-- letters, digits, underscore -/
def nameChar (c : Char) : Bool :=
  (48 ≤ c.toNat && c.toNat ≤ 57) || (65 ≤ c.toNat && c.toNat ≤ 90) || c.toNat == 95 || (97 ≤ c.toNat && c.toNat ≤ 122)

theorem specTab_chars : specTab.all (fun p => p.1.toList.all nameChar && decide (3 < p.1.toList.length)) = true := by
  decide +kernel

/-- a word the specification reads as an opcode consists of ASCII letters, digits and '_' only -/
theorem readOpcode_chars (w : Bytes) (c : Nat) (h : Spec.readOpcode w = some c) :
    w ≠ [] ∧ ∀ b ∈ w, (48 ≤ b.toNat ∧ b.toNat ≤ 57) ∨ (65 ≤ b.toNat ∧ b.toNat ≤ 90) ∨ b.toNat = 95 ∨ (97 ≤ b.toNat ∧ b.toNat ≤ 122) := by
  have key : bare w ≠ [] ∧ ∀ b ∈ bare w,
      (48 ≤ b.toNat ∧ b.toNat ≤ 57) ∨ (65 ≤ b.toNat ∧ b.toNat ≤ 90) ∨ b.toNat = 95 ∨ (97 ≤ b.toNat ∧ b.toNat ≤ 122) := by
    rcases readOpcode_cases w c h with hm | ⟨a, b, hn, ha, hb, _⟩
    · have := List.all_eq_true.mp specTab_chars _ hm
      simp only [Bool.and_eq_true, decide_eq_true_eq, String.toList_append, strOfBytes_toList,
        List.all_append, List.length_append, List.length_map] at this
      obtain ⟨⟨_, hall⟩, hlen⟩ := this
      have h3 : "OP_".toList.length = 3 := by decide
      rw [h3] at hlen
      refine ⟨fun he => by rw [he] at hlen; simp at hlen, ?_⟩
      intro b hb
      have := List.all_eq_true.mp hall (chr b) (List.mem_map_of_mem hb)
      unfold nameChar at this
      rw [chr_toNat] at this
      simpa [Bool.or_eq_true, Bool.and_eq_true, or_assoc] using this
    · rw [hn]
      refine ⟨by simp, ?_⟩
      unfold Spec.isHexDigit at ha hb
      simp only [Bool.and_eq_true, Bool.or_eq_true, decide_eq_true_eq] at ha hb
      intro x hx
      simp only [List.mem_cons, List.not_mem_nil, or_false] at hx
      rcases hx with rfl | rfl | rfl
      · decide
      · omega
      · omega
  rcases bare_cases w with hw | ⟨hw, _⟩
  · rw [hw]
    refine ⟨by simp, ?_⟩
    intro b hb
    simp only [List.mem_cons] at hb
    rcases hb with rfl | rfl | rfl | hb
    · decide
    · decide
    · decide
    · exact key.2 b hb
  · rw [hw] at key; exact key

/-- exactly these words read as opcode 255 (the escape for byte ff, in either spelling and either letter case) -/
theorem readOpcode_255 (w : Bytes) : Spec.readOpcode w = some 255 ↔
    ∃ a b, (w = [120, a, b] ∨ w = [79, 80, 95, 120, a, b]) ∧ Spec.isHexDigit a = true ∧ Spec.isHexDigit b = true ∧ Spec.hexNibble a = 15 ∧ Spec.hexNibble b = 15 := by
  constructor
  · intro h
    rcases readOpcode_cases w 255 h with hm | ⟨a, b, hn, ha, hb, hc⟩
    · have := List.all_eq_true.mp specTab_lt _ hm
      simp at this
    · have := hexNibble_le a ha
      have := hexNibble_le b hb
      refine ⟨a, b, ?_, ha, hb, by omega, by omega⟩
      rcases bare_cases w with hw | ⟨hw, _⟩
      · right; rw [hw, hn]
      · left; rw [← hw, hn]
  · rintro ⟨a, b, hw, ha, hb, hna, hnb⟩
    have hbare : bare w = [120, a, b] := by
      rcases hw with rfl | rfl
      · rcases bare_cases [120, a, b] with h | ⟨h, _⟩
        · simp at h
        · exact h
      · rfl
    rw [readOpcode_eq, hbare, look_specTab_x]
    simp [xesc, ha, hb, hna, hnb]

/-- the escape for byte ff is an opcode name like any other `xNN` (it was not before a4419d3: finding F-C07-opxff),
    while the enumerator name `INVALIDOPCODE` is no opcode name for either side -/
example : parseOpCode [120, 102, 102] = some 255 ∧ Spec.readOpcode [120, 102, 102] = some 255 ∧
    parseOpCode [79, 80, 95, 120, 70, 102] = some 255 ∧ Spec.readOpcode [79, 80, 95, 120, 70, 102] = some 255 ∧
    parseOpCode [79, 80, 95, 120, 102] = none ∧ parseOpCode [79, 80, 95, 120, 102, 102, 102] = none ∧
    parseOpCode [73, 78, 86, 65, 76, 73, 68, 79, 80, 67, 79, 68, 69] = none ∧
    Spec.readOpcode [73, 78, 86, 65, 76, 73, 68, 79, 80, 67, 79, 68, 69] = none := by decide +kernel

end Btcdeb.Proofs.C07Opcode
