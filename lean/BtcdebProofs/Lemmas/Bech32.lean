/-
  Bech32 / Bech32m: linearity of the checksum polynomial remainder (`PolyMod`) over XOR, the checksum that
  `CreateChecksum` appends verifies, encode/decode round trip and soundness of the decoder.
-/
import Btcdeb.Model.Encodings
import Btcdeb.Spec.Encodings
namespace Btcdeb.Bech32
open Btcdeb

/-- what the five conditional XORs of `PolyMod` add for the top coefficient `c0` -/
def gen (c0 : Nat) : Nat :=
  (if c0.testBit 0 then 0x3b6a57b2 else 0) ^^^ ((if c0.testBit 1 then 0x26508e6d else 0) ^^^
  ((if c0.testBit 2 then 0x1ea119fa else 0) ^^^ ((if c0.testBit 3 then 0x3d4233dd else 0) ^^^
  (if c0.testBit 4 then 0x2a1462b3 else 0))))

/-- one round of `PolyMod` on natural numbers -/
def stepN (c v : Nat) : Nat := ((c % 2 ^ 25) <<< 5) ^^^ (v ^^^ gen ((c >>> 25) % 2 ^ 8))

theorem polyModStep_eq (c : Nat) (v : UInt8) : Model.polyModStep c v = stepN c v.toNat := by
  unfold Model.polyModStep stepN gen
  simp only []
  generalize ((c >>> 25) % 256) = c0
  have e1 : (33554432 : Nat) = 2 ^ 25 := rfl
  have e2 : (2 : Nat) ^ 8 = 256 := rfl
  rw [e1]
  generalize ((c % 2 ^ 25) <<< 5) = x
  generalize v.toNat = w
  cases c0.testBit 0 <;> cases c0.testBit 1 <;> cases c0.testBit 2 <;> cases c0.testBit 3 <;> cases c0.testBit 4 <;>
    simp [Nat.xor_assoc]

def polyFrom (c : Nat) (vs : List Nat) : Nat := vs.foldl stepN c

theorem polyMod_eq (v : Bytes) : Model.polyMod v = polyFrom 1 (v.map UInt8.toNat) := by
  unfold Model.polyMod polyFrom
  rw [List.foldl_map]
  congr 1
  funext c x
  exact polyModStep_eq c x

theorem ite_xor (p q : Bool) (k : Nat) :
    (if (p ^^ q) = true then k else 0) = (if p = true then k else 0) ^^^ (if q = true then k else 0) := by
  cases p <;> cases q <;> simp

theorem gen_xor (a b : Nat) : gen (a ^^^ b) = gen a ^^^ gen b := by
  unfold gen
  simp only [Nat.testBit_xor, ite_xor]
  ac_rfl

theorem stepN_xor (a b v w : Nat) : stepN (a ^^^ b) (v ^^^ w) = stepN a v ^^^ stepN b w := by
  unfold stepN
  rw [Nat.xor_mod_two_pow, Nat.shiftLeft_xor_distrib, Nat.shiftRight_xor_distrib, Nat.xor_mod_two_pow, gen_xor]
  ac_rfl

theorem polyFrom_xor : ∀ (vs ws : List Nat) (a b : Nat), vs.length = ws.length →
    polyFrom (a ^^^ b) (List.zipWith (· ^^^ ·) vs ws) = polyFrom a vs ^^^ polyFrom b ws := by
  intro vs
  induction vs with
  | nil => intro ws a b h; cases ws with
    | nil => rfl
    | cons _ _ => simp at h
  | cons v vs ih =>
    intro ws a b h
    cases ws with
    | nil => simp at h
    | cons w ws =>
      simp only [List.zipWith_cons_cons, polyFrom, List.foldl_cons]
      rw [stepN_xor]
      exact ih ws _ _ (by simpa using h)

-- ---------------------------------------------------------------------------------------------
-- bounds

theorem gen_lt (c0 : Nat) : gen c0 < 2 ^ 30 := by
  unfold gen
  cases c0.testBit 0 <;> cases c0.testBit 1 <;> cases c0.testBit 2 <;> cases c0.testBit 3 <;> cases c0.testBit 4 <;> simp

theorem gen_zero : gen 0 = 0 := by simp [gen]

theorem stepN_lt (c v : Nat) (hv : v < 2 ^ 30) : stepN c v < 2 ^ 30 := by
  unfold stepN
  apply Nat.xor_lt_two_pow
  · rw [Nat.shiftLeft_eq]
    have : c % 2 ^ 25 < 2 ^ 25 := Nat.mod_lt _ (by decide)
    omega
  · exact Nat.xor_lt_two_pow hv (gen_lt _)

theorem polyFrom_lt : ∀ (vs : List Nat) (c : Nat), c < 2 ^ 30 → (∀ v ∈ vs, v < 2 ^ 30) → polyFrom c vs < 2 ^ 30 := by
  intro vs
  induction vs with
  | nil => intro c hc _; exact hc
  | cons v vs ih =>
    intro c _ hv
    exact ih _ (stepN_lt c v (hv v (by simp))) (fun x hx => hv x (by simp [hx]))

/-- the checksum register stays below 2^30 (a `uint32_t` never wraps) -/
theorem polyMod_lt (v : Bytes) : Model.polyMod v < 2 ^ 30 := by
  rw [polyMod_eq]
  apply polyFrom_lt _ _ (by decide)
  intro x hx
  obtain ⟨b, _, rfl⟩ := List.mem_map.mp hx
  have := b.toNat_lt
  omega

-- ---------------------------------------------------------------------------------------------
-- six 5-bit symbols <-> one 30-bit number

theorem shift_xor_eq_add (c v : Nat) (hv : v < 32) : (c <<< 5) ^^^ v = c * 32 + v := by
  apply Nat.eq_of_testBit_eq
  intro j
  have e : c * 32 + v = 2 ^ 5 * c + v := by omega
  rw [e, Nat.testBit_two_pow_mul_add c (by omega : v < 2 ^ 5), Nat.testBit_xor, Nat.testBit_shiftLeft]
  by_cases hj : j < 5
  · have : ¬ (j ≥ 5) := by omega
    simp [hj, this]
  · have hj' : j ≥ 5 := by omega
    have : v.testBit j = false := Nat.testBit_lt_two_pow (Nat.lt_of_lt_of_le (by omega : v < 2 ^ 5) (Nat.pow_le_pow_right (by omega) hj'))
    simp [hj, hj', this]

/-- a round on a small register (below 2^25) only shifts the new symbol in -/
theorem stepN_small (c v : Nat) (hc : c < 2 ^ 25) (hv : v < 32) : stepN c v = c * 32 + v := by
  unfold stepN
  have h1 : c % 2 ^ 25 = c := Nat.mod_eq_of_lt hc
  have h2 : c >>> 25 = 0 := by rw [Nat.shiftRight_eq_div_pow]; exact Nat.div_eq_of_lt hc
  rw [h1, h2]
  simp only [Nat.zero_mod, gen_zero, Nat.xor_zero]
  exact shift_xor_eq_add c v hv

def pack6 (a0 a1 a2 a3 a4 a5 : Nat) : Nat := ((((a0 * 32 + a1) * 32 + a2) * 32 + a3) * 32 + a4) * 32 + a5

theorem polyFrom_zero_six (a0 a1 a2 a3 a4 a5 : Nat) (h0 : a0 < 32) (h1 : a1 < 32) (h2 : a2 < 32) (h3 : a3 < 32) (h4 : a4 < 32)
    (h5 : a5 < 32) : polyFrom 0 [a0, a1, a2, a3, a4, a5] = pack6 a0 a1 a2 a3 a4 a5 := by
  simp only [polyFrom, List.foldl_cons, List.foldl_nil]
  rw [stepN_small 0 a0 (by decide) h0]
  rw [stepN_small _ a1 (by omega) h1]
  rw [stepN_small _ a2 (by omega) h2]
  rw [stepN_small _ a3 (by omega) h3]
  rw [stepN_small _ a4 (by omega) h4]
  rw [stepN_small _ a5 (by omega) h5]
  simp [pack6]

/-- the last six symbols enter the remainder linearly -/
theorem polyFrom_six (c : Nat) (a0 a1 a2 a3 a4 a5 : Nat) (h0 : a0 < 32) (h1 : a1 < 32) (h2 : a2 < 32) (h3 : a3 < 32) (h4 : a4 < 32)
    (h5 : a5 < 32) :
    polyFrom c [a0, a1, a2, a3, a4, a5] = polyFrom c [0, 0, 0, 0, 0, 0] ^^^ pack6 a0 a1 a2 a3 a4 a5 := by
  have := polyFrom_xor [0, 0, 0, 0, 0, 0] [a0, a1, a2, a3, a4, a5] c 0 rfl
  simp only [Nat.xor_zero, List.zipWith_cons_cons, Nat.zero_xor, List.zipWith_nil_right] at this
  rw [this, polyFrom_zero_six a0 a1 a2 a3 a4 a5 h0 h1 h2 h3 h4 h5]

/-- the symbols `CreateChecksum` extracts from a 30-bit number pack back to it -/
theorem pack6_unpack (m : Nat) (hm : m < 2 ^ 30) :
    pack6 ((m >>> 25) % 32) ((m >>> 20) % 32) ((m >>> 15) % 32) ((m >>> 10) % 32) ((m >>> 5) % 32) ((m >>> 0) % 32) = m := by
  simp only [Nat.shiftRight_eq_div_pow, pack6]
  omega

theorem unpack_pack6 (a0 a1 a2 a3 a4 a5 : Nat) (h0 : a0 < 32) (h1 : a1 < 32) (h2 : a2 < 32) (h3 : a3 < 32) (h4 : a4 < 32)
    (h5 : a5 < 32) (m : Nat) (hm : pack6 a0 a1 a2 a3 a4 a5 = m) :
    (m >>> 25) % 32 = a0 ∧ (m >>> 20) % 32 = a1 ∧ (m >>> 15) % 32 = a2 ∧ (m >>> 10) % 32 = a3 ∧ (m >>> 5) % 32 = a4 ∧ (m >>> 0) % 32 = a5 := by
  simp only [Nat.shiftRight_eq_div_pow, pack6] at *
  omega

-- ---------------------------------------------------------------------------------------------
-- the checksum that is created verifies

theorem polyMod_append (pre rest : Bytes) :
    Model.polyMod (pre ++ rest) = polyFrom (Model.polyMod pre) (rest.map UInt8.toNat) := by
  rw [polyMod_eq, polyMod_eq, List.map_append]
  simp [polyFrom, List.foldl_append]

theorem const_lt (enc : Model.Bech32Encoding) : Model.encodingConstant enc < 2 ^ 30 := by
  cases enc <;> decide

theorem createChecksum_eq (enc : Model.Bech32Encoding) (hrp values : Bytes) :
    let m := Model.polyMod (Model.expandHRP hrp ++ values ++ List.replicate 6 0) ^^^ Model.encodingConstant enc
    Model.createChecksum enc hrp values =
      [UInt8.ofNat ((m >>> 25) % 32), UInt8.ofNat ((m >>> 20) % 32), UInt8.ofNat ((m >>> 15) % 32),
       UInt8.ofNat ((m >>> 10) % 32), UInt8.ofNat ((m >>> 5) % 32), UInt8.ofNat ((m >>> 0) % 32)] := by
  simp only [Model.createChecksum]
  rfl

theorem toNat_ofNat_mod32 (x : Nat) : (UInt8.ofNat (x % 32)).toNat = x % 32 := by
  have : x % 32 < 256 := by omega
  simp [Nat.mod_eq_of_lt this]

/-- `VerifyChecksum` of values followed by `CreateChecksum` sees exactly the encoding constant -/
theorem polyMod_create (enc : Model.Bech32Encoding) (hrp values : Bytes) :
    Model.polyMod (Model.expandHRP hrp ++ (values ++ Model.createChecksum enc hrp values)) = Model.encodingConstant enc := by
  rw [← List.append_assoc, polyMod_append, createChecksum_eq]
  rw [polyMod_append (Model.expandHRP hrp ++ values) (List.replicate 6 0)]
  have hP := polyMod_lt (Model.expandHRP hrp ++ values)
  generalize Model.polyMod (Model.expandHRP hrp ++ values) = P at hP
  have hz : (List.replicate 6 (0 : UInt8)).map UInt8.toNat = [0, 0, 0, 0, 0, 0] := rfl
  rw [hz]
  have hXlt : polyFrom P [0, 0, 0, 0, 0, 0] < 2 ^ 30 := polyFrom_lt _ _ hP (by intro v hv; simp at hv; subst hv; decide)
  generalize hX : polyFrom P [0, 0, 0, 0, 0, 0] = X at hXlt
  have hm : X ^^^ Model.encodingConstant enc < 2 ^ 30 := Nat.xor_lt_two_pow hXlt (const_lt enc)
  generalize hM : X ^^^ Model.encodingConstant enc = m at hm
  simp only [List.map_cons, List.map_nil, toNat_ofNat_mod32]
  rw [polyFrom_six P _ _ _ _ _ _ (Nat.mod_lt _ (by decide)) (Nat.mod_lt _ (by decide)) (Nat.mod_lt _ (by decide))
    (Nat.mod_lt _ (by decide)) (Nat.mod_lt _ (by decide)) (Nat.mod_lt _ (by decide)), pack6_unpack m hm, hX, ← hM,
    ← Nat.xor_assoc, Nat.xor_self, Nat.zero_xor]

/-- conversely: six symbols below 32 that make the checksum verify are the ones `CreateChecksum` computes -/
theorem checksum_unique (enc : Model.Bech32Encoding) (hrp data : Bytes) (c0 c1 c2 c3 c4 c5 : UInt8)
    (h0 : c0.toNat < 32) (h1 : c1.toNat < 32) (h2 : c2.toNat < 32) (h3 : c3.toNat < 32) (h4 : c4.toNat < 32) (h5 : c5.toNat < 32)
    (h : Model.polyMod (Model.expandHRP hrp ++ (data ++ [c0, c1, c2, c3, c4, c5])) = Model.encodingConstant enc) :
    [c0, c1, c2, c3, c4, c5] = Model.createChecksum enc hrp data := by
  rw [← List.append_assoc, polyMod_append] at h
  rw [createChecksum_eq, polyMod_append (Model.expandHRP hrp ++ data) (List.replicate 6 0)]
  have hz : (List.replicate 6 (0 : UInt8)).map UInt8.toNat = [0, 0, 0, 0, 0, 0] := rfl
  rw [hz]
  simp only [List.map_cons, List.map_nil] at h
  rw [polyFrom_six _ _ _ _ _ _ _ h0 h1 h2 h3 h4 h5] at h
  generalize polyFrom (Model.polyMod (Model.expandHRP hrp ++ data)) [0, 0, 0, 0, 0, 0] = X at h ⊢
  have hp : pack6 c0.toNat c1.toNat c2.toNat c3.toNat c4.toNat c5.toNat = X ^^^ Model.encodingConstant enc := by
    rw [← h, ← Nat.xor_assoc, Nat.xor_self, Nat.zero_xor]
  obtain ⟨e0, e1, e2, e3, e4, e5⟩ := unpack_pack6 _ _ _ _ _ _ h0 h1 h2 h3 h4 h5 _ hp
  rw [e0, e1, e2, e3, e4, e5]
  simp

-- ---------------------------------------------------------------------------------------------
-- character tables

def revRow (v : Nat) : Bool :=
  Model.bech32CharsetRev.getD (Model.bech32Charset.getD v 0).toNat (-1) == (v : Int) &&
  Model.bech32Charset.getD v 0 != 49 && decide (33 ≤ (Model.bech32Charset.getD v 0).toNat) &&
  decide ((Model.bech32Charset.getD v 0).toNat ≤ 126) && !(decide (65 ≤ (Model.bech32Charset.getD v 0).toNat) && decide ((Model.bech32Charset.getD v 0).toNat ≤ 90))
theorem revRows : (List.range 32).all revRow = true := by decide +kernel

def charRow (n : Nat) : Bool :=
  let r := Model.bech32CharsetRev.getD n (-1)
  r == -1 || (decide (0 ≤ r) && decide (r < 32) && Model.bech32Charset.getD r.toNat 0 == Model.lowerCase (UInt8.ofNat n) && n != 49)
set_option maxRecDepth 20000 in
theorem charRows : (List.range 256).all charRow = true := by decide +kernel

theorem rev_charset {v : Nat} (h : v < 32) :
    Model.bech32CharsetRev.getD (Model.bech32Charset.getD v 0).toNat (-1) = (v : Int) ∧ Model.bech32Charset.getD v 0 ≠ 49 ∧
    33 ≤ (Model.bech32Charset.getD v 0).toNat ∧ (Model.bech32Charset.getD v 0).toNat ≤ 126 ∧
    ¬ (65 ≤ (Model.bech32Charset.getD v 0).toNat ∧ (Model.bech32Charset.getD v 0).toNat ≤ 90) := by
  have := List.all_eq_true.mp revRows v (List.mem_range.mpr h)
  unfold revRow at this
  simp only [Bool.and_eq_true, beq_iff_eq, bne_iff_ne, decide_eq_true_eq, Bool.not_eq_true', Bool.and_eq_false_iff, decide_eq_false_iff_not] at this
  obtain ⟨⟨⟨⟨a, b⟩, c⟩, d⟩, e⟩ := this
  exact ⟨a, b, c, d, by omega⟩

theorem charset_rev {c : UInt8} (h : Model.bech32CharsetRev.getD c.toNat (-1) ≠ -1) :
    0 ≤ Model.bech32CharsetRev.getD c.toNat (-1) ∧ Model.bech32CharsetRev.getD c.toNat (-1) < 32 ∧
    Model.bech32Charset.getD (Model.bech32CharsetRev.getD c.toNat (-1)).toNat 0 = Model.lowerCase c ∧ c ≠ 49 := by
  have := List.all_eq_true.mp charRows c.toNat (List.mem_range.mpr c.toNat_lt)
  unfold charRow at this
  simp only [UInt8.ofNat_toNat, Bool.or_eq_true, beq_iff_eq, Bool.and_eq_true, decide_eq_true_eq, bne_iff_ne] at this
  rcases this with h' | ⟨⟨⟨a, b⟩, d⟩, e⟩
  · exact absurd h' h
  · refine ⟨a, b, d, ?_⟩
    intro e'; subst e'; exact e rfl

-- ---------------------------------------------------------------------------------------------
-- pieces of Encode / Decode

theorem idxOf_append {α} [BEq α] [LawfulBEq α] (a : α) : ∀ (pre post : List α), a ∉ pre → (pre ++ a :: post).idxOf? a = some pre.length := by
  intro pre
  induction pre with
  | nil => intro post _; simp [List.idxOf?_cons]
  | cons x xs ih =>
    intro post h
    have hx : (x == a) = false := by
      have : x ≠ a := fun e => h (by simp [e])
      simpa using this
    rw [List.cons_append, List.idxOf?_cons, hx]
    simp [ih post (fun hm => h (by simp [hm]))]

theorem idxOf_split {α} [BEq α] [LawfulBEq α] (a : α) : ∀ (l : List α) (k : Nat), l.idxOf? a = some k →
    ∃ pre post, l = pre ++ a :: post ∧ pre.length = k ∧ a ∉ pre := by
  intro l
  induction l with
  | nil => intro k h; simp at h
  | cons x xs ih =>
    intro k h
    rw [List.idxOf?_cons] at h
    by_cases hx : (x == a) = true
    · simp [hx] at h
      have : x = a := by simpa using hx
      subst this; subst h
      exact ⟨[], xs, rfl, rfl, by simp⟩
    · have hx' : (x == a) = false := by simpa using hx
      simp [hx'] at h
      obtain ⟨k', hk', rfl⟩ := h
      obtain ⟨pre, post, e1, e2, e3⟩ := ih k' hk'
      refine ⟨x :: pre, post, by rw [e1]; rfl, by simp [e2], ?_⟩
      intro hm
      rcases List.mem_cons.mp hm with e | e
      · subst e; simp at hx'
      · exact e3 e

theorem rfind_append (hrp data : Bytes) (h : (49 : UInt8) ∉ data) : Model.rfindOne (hrp ++ 49 :: data) = some hrp.length := by
  unfold Model.rfindOne
  have : (hrp ++ 49 :: data).reverse = data.reverse ++ 49 :: hrp.reverse := by simp
  rw [this, idxOf_append 49 _ _ (by simpa using h)]
  simp only [List.length_reverse, List.length_append, List.length_cons]
  congr 1
  omega

theorem rfind_split (s : Bytes) (pos : Nat) (h : Model.rfindOne s = some pos) :
    ∃ hd dt, s = hd ++ 49 :: dt ∧ hd.length = pos ∧ (49 : UInt8) ∉ dt := by
  unfold Model.rfindOne at h
  cases hi : s.reverse.idxOf? 49 with
  | none => simp [hi] at h
  | some k =>
    simp [hi] at h
    obtain ⟨pre, post, e1, e2, e3⟩ := idxOf_split 49 _ _ hi
    have hs : s = post.reverse ++ 49 :: pre.reverse := by
      have := congrArg List.reverse e1
      simpa using this
    refine ⟨post.reverse, pre.reverse, hs, ?_, by simpa using e3⟩
    have hl : s.length = post.length + 1 + pre.length := by rw [hs]; simp; omega
    simp only [List.length_reverse]
    omega

/-- characters a lower-case Bech32 string may contain -/
def PlainChar (c : UInt8) : Prop := 33 ≤ c.toNat ∧ c.toNat ≤ 126 ∧ ¬ (65 ≤ c.toNat ∧ c.toNat ≤ 90)

theorem checkCharacters_fold (s : Bytes) (h : ∀ c ∈ s, PlainChar c) : ∀ (lower : Bool),
    ∃ lower', s.foldl Model.checkCharactersStep (lower, false, true) = (lower', false, true) := by
  induction s with
  | nil => intro lower; exact ⟨lower, rfl⟩
  | cons c cs ih =>
    intro lower
    obtain ⟨h1, h2, h3⟩ := h c (by simp)
    simp only [List.foldl_cons]
    have : ∃ l', Model.checkCharactersStep (lower, false, true) c = (l', false, true) := by
      unfold Model.checkCharactersStep
      simp only []
      split
      · exact ⟨true, by simp⟩
      · split
        · rename_i hu; simp at hu; omega
        · split
          · rename_i hr; simp at hr; omega
          · exact ⟨lower, rfl⟩
    obtain ⟨l', hl'⟩ := this
    rw [hl']
    exact ih (fun x hx => h x (by simp [hx])) l'

theorem checkCharacters_plain (s : Bytes) (h : ∀ c ∈ s, PlainChar c) : Model.checkCharacters s = true := by
  unfold Model.checkCharacters
  obtain ⟨l', hl'⟩ := checkCharacters_fold s h false
  rw [hl']

theorem bech32Values_map : ∀ (vs : Bytes), (∀ v ∈ vs, v.toNat < 32) →
    Model.bech32Values (vs.map (fun c => Model.bech32Charset.getD c.toNat 0)) = some vs := by
  intro vs
  induction vs with
  | nil => intro _; rfl
  | cons v vs ih =>
    intro h
    have hv := h v (by simp)
    obtain ⟨r1, _⟩ := rev_charset hv
    simp only [List.map_cons, Model.bech32Values, r1]
    have hne : ((v.toNat : Int) == -1) = false := by
      have : (v.toNat : Int) ≠ -1 := by omega
      simp [this]
    simp only [hne, Bool.false_eq_true, ↓reduceIte, ih (fun x hx => h x (by simp [hx])), Int.toNat_natCast, UInt8.ofNat_toNat]

theorem lowerCase_plain (c : UInt8) (h : ¬ (65 ≤ c.toNat ∧ c.toNat ≤ 90)) : Model.lowerCase c = c := by
  unfold Model.lowerCase
  split
  · rename_i hu; simp at hu; omega
  · rfl

theorem createChecksum_lt (enc : Model.Bech32Encoding) (hrp values : Bytes) :
    ∀ c ∈ Model.createChecksum enc hrp values, c.toNat < 32 := by
  intro c hc
  rw [createChecksum_eq] at hc
  simp only [List.mem_cons, List.not_mem_nil, or_false] at hc
  rcases hc with e | e | e | e | e | e <;> (subst e; rw [toNat_ofNat_mod32]; exact Nat.mod_lt _ (by decide))

theorem createChecksum_length (enc : Model.Bech32Encoding) (hrp values : Bytes) : (Model.createChecksum enc hrp values).length = 6 := by
  rw [createChecksum_eq]; rfl

theorem verifyChecksum_create (enc : Model.Bech32Encoding) (henc : enc ≠ .INVALID) (hrp values : Bytes) :
    Model.verifyChecksum hrp (values ++ Model.createChecksum enc hrp values) = enc := by
  unfold Model.verifyChecksum
  simp only []
  rw [polyMod_create]
  cases enc with
  | INVALID => exact absurd rfl henc
  | BECH32 => rfl
  | BECH32M => rfl

-- ---------------------------------------------------------------------------------------------
-- round trip

theorem encode_some (enc : Model.Bech32Encoding) (hrp values : Bytes) (henc : enc ≠ .INVALID)
    (hhrp : ∀ c ∈ hrp, ¬ (65 ≤ c.toNat ∧ c.toNat ≤ 90)) (hvals : ∀ v ∈ values, v.toNat < 32) :
    Model.bech32Encode enc hrp values =
      some (hrp ++ 49 :: (values ++ Model.createChecksum enc hrp values).map (fun c => Model.bech32Charset.getD c.toNat 0)) := by
  unfold Model.bech32Encode
  have h1 : hrp.any (fun c => decide (65 ≤ c.toNat) && decide (c.toNat ≤ 90)) = false := by
    rw [List.any_eq_false]
    intro c hc
    have := hhrp c hc
    simp only [Bool.and_eq_true, decide_eq_true_eq]
    exact this
  have h2 : (enc == Model.Bech32Encoding.INVALID) = false := by
    cases enc <;> simp_all
  have h3 : (values ++ Model.createChecksum enc hrp values).any (fun c => decide (c.toNat ≥ 32)) = false := by
    rw [List.any_eq_false]
    intro c hc
    rcases List.mem_append.mp hc with h | h
    · have := hvals c h; simp; omega
    · have := createChecksum_lt enc hrp values c h; simp; omega
  simp only [h1, h2, h3, Bool.false_eq_true, ↓reduceIte]
  simp

/-- `bech32::Decode(bech32::Encode(enc, hrp, values))` gives the three arguments back -/
theorem decode_encode (enc : Model.Bech32Encoding) (hrp values : Bytes) (henc : enc ≠ .INVALID) (hne : hrp ≠ [])
    (hhrp : ∀ c ∈ hrp, PlainChar c) (hvals : ∀ v ∈ values, v.toNat < 32) (hlen : hrp.length + 1 + values.length + 6 ≤ 90) :
    (Model.bech32Encode enc hrp values).bind Model.bech32Decode = some (enc, hrp, values) := by
  rw [encode_some enc hrp values henc (fun c hc => (hhrp c hc).2.2) hvals]
  simp only [Option.bind_some]
  have hcsl := createChecksum_length enc hrp values
  have hcslt := createChecksum_lt enc hrp values
  have hver := verifyChecksum_create enc henc hrp values
  generalize Model.createChecksum enc hrp values = cs at hcsl hcslt hver
  have hall : ∀ v ∈ values ++ cs, v.toNat < 32 := by
    intro v hv
    rcases List.mem_append.mp hv with h | h
    · exact hvals v h
    · exact hcslt v h
  have hvm := bech32Values_map _ hall
  have hdc : ∀ c ∈ (values ++ cs).map (fun c => Model.bech32Charset.getD c.toNat 0), PlainChar c ∧ c ≠ 49 := by
    intro c hc
    obtain ⟨v, hv, rfl⟩ := List.mem_map.mp hc
    obtain ⟨_, r2, r3, r4, r5⟩ := rev_charset (hall v hv)
    exact ⟨⟨r3, r4, r5⟩, r2⟩
  have hdl : ((values ++ cs).map (fun c => Model.bech32Charset.getD c.toNat 0)).length = values.length + 6 := by
    simp [hcsl]
  generalize (values ++ cs).map (fun c => Model.bech32Charset.getD c.toNat 0) = dataChars at hvm hdc hdl
  have h49 : (49 : UInt8) ∉ dataChars := fun hm => (hdc 49 hm).2 rfl
  have hplain : ∀ c ∈ hrp ++ 49 :: dataChars, PlainChar c := by
    intro c hc
    rcases List.mem_append.mp hc with h | h
    · exact hhrp c h
    · rcases List.mem_cons.mp h with e | e
      · subst e; exact ⟨by decide, by decide, by decide⟩
      · exact (hdc c e).1
  unfold Model.bech32Decode
  rw [checkCharacters_plain _ hplain, rfind_append hrp dataChars h49]
  have hpos : hrp.length ≠ 0 := by
    intro e; exact hne (List.eq_nil_of_length_eq_zero e)
  have hcond : (decide ((hrp ++ 49 :: dataChars).length > 90) || hrp.length == 0 || decide (hrp.length + 7 > (hrp ++ 49 :: dataChars).length)) = false := by
    simp only [List.length_append, List.length_cons, hdl, Bool.or_eq_false_iff, decide_eq_false_iff_not, beq_eq_false_iff_ne]
    omega
  have hdrop : (hrp ++ 49 :: dataChars).drop (hrp.length + 1) = dataChars := by
    rw [List.drop_append, List.drop_eq_nil_of_le (by omega)]
    have : hrp.length + 1 - hrp.length = 1 := by omega
    rw [this]; rfl
  have htake : (hrp ++ 49 :: dataChars).take hrp.length = hrp := by simp
  have hlow : hrp.map Model.lowerCase = hrp := by
    conv => rhs; rw [← List.map_id hrp]
    apply List.map_congr_left
    intro c hc
    exact lowerCase_plain c (hhrp c hc).2.2
  have htk : (values ++ cs).take ((values ++ cs).length - 6) = values := by
    have : (values ++ cs).length - 6 = values.length := by simp [hcsl]
    rw [this]; simp
  simp only [Bool.not_true, Bool.false_eq_true, ↓reduceIte, hcond, hdrop, htake, hvm, hlow, hver]
  cases enc with
  | INVALID => exact absurd rfl henc
  | BECH32 => rw [htk]
  | BECH32M => rw [htk]

-- ---------------------------------------------------------------------------------------------
-- soundness of the decoder

theorem bech32Values_inv : ∀ (cs vs : Bytes), Model.bech32Values cs = some vs →
    vs.length = cs.length ∧ (∀ v ∈ vs, v.toNat < 32) ∧
    vs.map (fun c => Model.bech32Charset.getD c.toNat 0) = cs.map Model.lowerCase ∧ (49 : UInt8) ∉ cs := by
  intro cs
  induction cs with
  | nil => intro vs h; simp [Model.bech32Values] at h; subst h; simp
  | cons c cs ih =>
    intro vs h
    simp only [Model.bech32Values] at h
    split at h
    · simp at h
    · rename_i hne
      have hne' : Model.bech32CharsetRev.getD c.toNat (-1) ≠ -1 := by simpa using hne
      obtain ⟨t1, t2, t3, t4⟩ := charset_rev hne'
      generalize Model.bech32CharsetRev.getD c.toNat (-1) = r at h t1 t2 t3
      cases hr : Model.bech32Values cs with
      | none => simp [hr] at h
      | some vs' =>
        simp only [hr, Option.some.injEq] at h
        subst h
        obtain ⟨i1, i2, i3, i4⟩ := ih vs' hr
        have hv : (UInt8.ofNat r.toNat).toNat = r.toNat := by
          have : r.toNat < 256 := by omega
          simp [Nat.mod_eq_of_lt this]
        refine ⟨by simp [i1], ?_, ?_, ?_⟩
        · intro v hv'
          rcases List.mem_cons.mp hv' with e | e
          · subst e; rw [hv]; omega
          · exact i2 v e
        · simp only [List.map_cons, hv, t3, i3]
        · intro hm
          rcases List.mem_cons.mp hm with e | e
          · exact t4 e.symm
          · exact i4 e

theorem lowerCase_not_upper (c : UInt8) : ¬ (65 ≤ (Model.lowerCase c).toNat ∧ (Model.lowerCase c).toNat ≤ 90) := by
  unfold Model.lowerCase
  split
  · rename_i hu
    simp at hu
    have : c.toNat - 65 + 97 < 256 := by omega
    simp [Nat.mod_eq_of_lt this]
  · rename_i hu; simpa using hu

theorem length_six {α} (l : List α) (h : l.length = 6) : ∃ a b c d e f, l = [a, b, c, d, e, f] := by
  match l, h with
  | [a, b, c, d, e, f], _ => exact ⟨a, b, c, d, e, f, rfl⟩

theorem verifyChecksum_const (hrp values : Bytes) (enc : Model.Bech32Encoding) (henc : enc ≠ .INVALID)
    (h : Model.verifyChecksum hrp values = enc) : Model.polyMod (Model.expandHRP hrp ++ values) = Model.encodingConstant enc := by
  unfold Model.verifyChecksum at h
  simp only [] at h
  split at h
  · rename_i hc; subst h; simpa using hc
  · split at h
    · rename_i hc; subst h; simpa using hc
    · exact absurd h.symm henc

/-- whatever `bech32::Decode` accepts is, up to letter case, exactly what `bech32::Encode` produces from the result -/
theorem decode_sound (s hrp data : Bytes) (enc : Model.Bech32Encoding) (h : Model.bech32Decode s = some (enc, hrp, data)) :
    Model.bech32Encode enc hrp data = some (s.map Model.lowerCase) := by
  unfold Model.bech32Decode at h
  split at h
  · simp at h
  · cases hp : Model.rfindOne s with
    | none => simp [hp] at h
    | some pos =>
      rw [hp] at h
      simp only [] at h
      split at h
      · simp at h
      · rename_i hcond
        obtain ⟨hd, dt, hs, hpos, h49⟩ := rfind_split s pos hp
        have hdrop : s.drop (pos + 1) = dt := by
          rw [hs, ← hpos, List.drop_append, List.drop_eq_nil_of_le (by omega)]
          have : hd.length + 1 - hd.length = 1 := by omega
          rw [this]; rfl
        have htake : s.take pos = hd := by rw [hs, ← hpos]; simp
        rw [hdrop, htake] at h
        cases hv : Model.bech32Values dt with
        | none => simp [hv] at h
        | some values =>
          rw [hv] at h
          simp only [] at h
          obtain ⟨v1, v2, v3, _⟩ := bech32Values_inv dt values hv
          have hlen6 : 6 ≤ values.length := by
            simp only [Bool.or_eq_true, decide_eq_true_eq, beq_iff_eq, not_or, Nat.not_lt] at hcond
            have : s.length = hd.length + 1 + dt.length := by rw [hs]; simp; omega
            omega
          cases hvc : Model.verifyChecksum (hd.map Model.lowerCase) values with
          | INVALID => simp [hvc] at h
          | BECH32 | BECH32M =>
            all_goals
              rw [hvc] at h
              simp at h
              obtain ⟨e1, e2, e3⟩ := h
              subst e1; subst e2
              have hconst := verifyChecksum_const _ _ _ (by simp) hvc
              have hsplit : values = data ++ values.drop (values.length - 6) := by rw [← e3, List.take_append_drop]
              obtain ⟨c0, c1, c2, c3, c4, c5, h6⟩ := length_six (values.drop (values.length - 6)) (by simp; omega)
              rw [h6] at hsplit
              have hmem : ∀ c ∈ [c0, c1, c2, c3, c4, c5], c.toNat < 32 := by
                intro c hc; exact v2 c (by rw [hsplit]; exact List.mem_append_right _ hc)
              rw [hsplit] at hconst
              have hcs := checksum_unique _ (hd.map Model.lowerCase) data c0 c1 c2 c3 c4 c5 (hmem c0 (by simp)) (hmem c1 (by simp))
                (hmem c2 (by simp)) (hmem c3 (by simp)) (hmem c4 (by simp)) (hmem c5 (by simp)) hconst
              rw [encode_some _ _ _ (by simp) (by
                  intro c hc
                  obtain ⟨x, _, rfl⟩ := List.mem_map.mp hc
                  exact lowerCase_not_upper x)
                (fun v hv' => v2 v (by rw [hsplit]; exact List.mem_append_left _ hv'))]
              rw [← hcs, ← hsplit, v3, hs]
              simp [Model.lowerCase]

/-- the symbols `bech32::Decode` returns are 5-bit values -/
theorem decode_values_lt (s hrp data : Bytes) (enc : Model.Bech32Encoding) (h : Model.bech32Decode s = some (enc, hrp, data)) :
    ∀ v ∈ data, v.toNat < 32 := by
  unfold Model.bech32Decode at h
  split at h
  · simp at h
  · cases hp : Model.rfindOne s with
    | none => simp [hp] at h
    | some pos =>
      rw [hp] at h
      simp only [] at h
      split at h
      · simp at h
      · cases hv : Model.bech32Values (s.drop (pos + 1)) with
        | none => simp [hv] at h
        | some values =>
          rw [hv] at h
          simp only [] at h
          obtain ⟨_, v2, _, _⟩ := bech32Values_inv _ values hv
          generalize (s.take pos).map Model.lowerCase = hrp' at h
          cases hvc : Model.verifyChecksum hrp' values with
          | INVALID => simp [hvc] at h
          | BECH32 | BECH32M =>
            all_goals
              rw [hvc] at h
              simp at h
              obtain ⟨_, _, e3⟩ := h
              intro v hv'
              rw [← e3] at hv'
              exact v2 v (List.mem_of_mem_take hv')

-- ---------------------------------------------------------------------------------------------
-- a single wrong symbol is always detected

def genLowRow (c0 : Nat) : Bool := c0 == 0 || gen c0 % 32 != 0
theorem genLowRows : (List.range 32).all genLowRow = true := by decide +kernel

/-- a round with a zero symbol never turns a non-zero register into zero (the generator has a non-zero constant term) -/
theorem stepN_zero_ne (c : Nat) (hc : c < 2 ^ 30) (hne : c ≠ 0) : stepN c 0 ≠ 0 := by
  intro h
  unfold stepN at h
  have hc0 : c >>> 25 < 32 := by rw [Nat.shiftRight_eq_div_pow]; omega
  have e8 : (c >>> 25) % 2 ^ 8 = c >>> 25 := Nat.mod_eq_of_lt (by omega)
  rw [e8, Nat.zero_xor] at h
  -- equal numbers have equal residues mod 32; the shifted part is a multiple of 32
  have hx : (c % 2 ^ 25) <<< 5 = gen (c >>> 25) := by
    have := congrArg (· ^^^ gen (c >>> 25)) h
    simpa [Nat.xor_assoc] using this
  have hmod : gen (c >>> 25) % 32 = 0 := by
    rw [← hx, Nat.shiftLeft_eq]; omega
  have hrow := List.all_eq_true.mp genLowRows (c >>> 25) (List.mem_range.mpr hc0)
  unfold genLowRow at hrow
  simp only [Bool.or_eq_true, beq_iff_eq, bne_iff_ne, ne_eq] at hrow
  rcases hrow with h0 | h0
  · rw [h0, gen_zero, Nat.shiftLeft_eq] at hx
    rw [Nat.shiftRight_eq_div_pow] at h0
    omega
  · exact h0 hmod

theorem polyFrom_zeros_ne : ∀ (k : Nat) (c : Nat), c < 2 ^ 30 → c ≠ 0 → polyFrom c (List.replicate k 0) ≠ 0 := by
  intro k
  induction k with
  | zero => intro c _ h; exact h
  | succ k ih =>
    intro c hc hne
    simp only [List.replicate_succ, polyFrom, List.foldl_cons]
    exact ih _ (stepN_lt c 0 (by decide)) (stepN_zero_ne c hc hne)

theorem polyFrom_zero_zeros : ∀ (k : Nat), polyFrom 0 (List.replicate k 0) = 0 := by
  intro k
  induction k with
  | zero => rfl
  | succ k ih =>
    simp only [List.replicate_succ, polyFrom, List.foldl_cons]
    have : stepN 0 0 = 0 := by simp [stepN, gen_zero]
    rw [this]; exact ih

theorem zipWith_xor_self : ∀ (l : List Nat), List.zipWith (· ^^^ ·) l l = List.replicate l.length 0 := by
  intro l
  induction l with
  | nil => rfl
  | cons x xs ih => rw [List.zipWith_cons_cons, ih, Nat.xor_self, List.length_cons, List.replicate_succ]

/-- two symbol strings that differ in exactly one position never have the same checksum remainder -/
theorem polyMod_single_diff (l1 l2 : Bytes) (a a' : UInt8) (h : a ≠ a') :
    Model.polyMod (l1 ++ a :: l2) ≠ Model.polyMod (l1 ++ a' :: l2) := by
  intro heq
  rw [polyMod_eq, polyMod_eq] at heq
  have hx : polyFrom 1 ((l1 ++ a :: l2).map UInt8.toNat) ^^^ polyFrom 1 ((l1 ++ a' :: l2).map UInt8.toNat) = 0 := by
    rw [heq, Nat.xor_self]
  rw [← polyFrom_xor _ _ 1 1 (by simp)] at hx
  simp only [Nat.xor_self, List.map_append, List.map_cons] at hx
  rw [List.zipWith_append (by simp)] at hx
  simp only [List.zipWith_cons_cons, zipWith_xor_self] at hx
  simp only [polyFrom, List.foldl_append, List.foldl_cons] at hx
  have h0 : List.foldl stepN 0 (List.replicate (l1.map UInt8.toNat).length 0) = 0 := polyFrom_zero_zeros _
  rw [h0] at hx
  have he : a.toNat ^^^ a'.toNat ≠ 0 := by
    intro e
    have : a.toNat = a'.toNat := by
      have := congrArg (· ^^^ a'.toNat) e
      simpa [Nat.xor_assoc] using this
    exact h (UInt8.toNat_inj.mp this)
  have helt : a.toNat ^^^ a'.toNat < 2 ^ 30 := by
    apply Nat.xor_lt_two_pow <;> (have := UInt8.toNat_lt a; have := UInt8.toNat_lt a'; omega)
  have hs : stepN 0 (a.toNat ^^^ a'.toNat) = a.toNat ^^^ a'.toNat := by simp [stepN, gen_zero]
  rw [hs] at hx
  exact polyFrom_zeros_ne _ _ helt he hx

/-- if a symbol string verifies for an encoding, no string differing from it in one symbol verifies for that encoding -/
theorem single_error_detected (hrp l1 l2 : Bytes) (a a' : UInt8) (h : a ≠ a') (enc : Model.Bech32Encoding) (henc : enc ≠ .INVALID)
    (hv : Model.verifyChecksum hrp (l1 ++ a :: l2) = enc) : Model.verifyChecksum hrp (l1 ++ a' :: l2) ≠ enc := by
  intro hv'
  have c1 := verifyChecksum_const _ _ _ henc hv
  have c2 := verifyChecksum_const _ _ _ henc hv'
  rw [← List.append_assoc] at c1 c2
  exact polyMod_single_diff _ _ a a' h (c1.trans c2.symm)

-- ---------------------------------------------------------------------------------------------
-- the model's PolyMod is the BIP173 reference polymod

theorem specStep_eq (chk v : Nat) (h : chk < 2 ^ 30) : Spec.bech32PolymodStep chk v = stepN chk v := by
  unfold Spec.bech32PolymodStep stepN gen
  have hb : chk >>> 25 < 32 := by rw [Nat.shiftRight_eq_div_pow]; omega
  have e8 : (chk >>> 25) % 2 ^ 8 = chk >>> 25 := Nat.mod_eq_of_lt (by omega)
  have em : chk &&& 0x1ffffff = chk % 2 ^ 25 := by
    have : (0x1ffffff : Nat) = 2 ^ 25 - 1 := rfl
    rw [this, Nat.and_two_pow_sub_one_eq_mod]
  rw [e8, em]
  simp only []
  generalize chk >>> 25 = b
  generalize (chk % 2 ^ 25) <<< 5 = x
  have ht : ∀ i, ((b >>> i) % 2 == 1) = b.testBit i := by
    intro i
    rw [Nat.testBit_eq_decide_div_mod_eq, Nat.shiftRight_eq_div_pow]
    rfl
  have hr : List.range 5 = [0, 1, 2, 3, 4] := rfl
  simp only [hr, List.foldl_cons, List.foldl_nil, ht, Spec.bech32Generator, List.getD_cons_zero, List.getD_cons_succ]
  cases b.testBit 0 <;> cases b.testBit 1 <;> cases b.testBit 2 <;> cases b.testBit 3 <;> cases b.testBit 4 <;>
    simp [Nat.xor_assoc]

/-- `PolyMod` of bech32.cpp computes BIP173's `bech32_polymod` -/
theorem polyMod_eq_spec (v : Bytes) : Model.polyMod v = Spec.bech32Polymod (v.map UInt8.toNat) := by
  rw [polyMod_eq]
  unfold Spec.bech32Polymod polyFrom
  have : ∀ (vs : List Nat) (c : Nat), c < 2 ^ 30 → (∀ x ∈ vs, x < 2 ^ 30) →
      vs.foldl stepN c = vs.foldl Spec.bech32PolymodStep c := by
    intro vs
    induction vs with
    | nil => intros; rfl
    | cons x xs ih =>
      intro c hc hx
      simp only [List.foldl_cons]
      rw [specStep_eq c x hc]
      exact ih _ (stepN_lt c x (hx x (by simp))) (fun y hy => hx y (by simp [hy]))
  apply this _ _ (by decide)
  intro x hx
  obtain ⟨b, _, rfl⟩ := List.mem_map.mp hx
  have := b.toNat_lt
  omega

-- ---------------------------------------------------------------------------------------------
-- `bech32::Encode` is BIP173/BIP350's `bech32_encode`

def variantOf : Model.Bech32Encoding → Spec.Bech32Variant
  | .BECH32M => .bech32m
  | _ => .bech32

def charsetRow (v : Nat) : Bool := Model.bech32Charset.getD v 0 == Spec.bech32Char v
theorem charsetRows : (List.range 32).all charsetRow = true := by decide +kernel

theorem charset_spec {v : Nat} (h : v < 32) : Model.bech32Charset.getD v 0 = Spec.bech32Char v := by
  have := List.all_eq_true.mp charsetRows v (List.mem_range.mpr h)
  simpa [charsetRow] using this

theorem expandHRP_spec (hrp : Bytes) : (Model.expandHRP hrp).map UInt8.toNat = Spec.bech32HrpExpand hrp := by
  unfold Model.expandHRP Spec.bech32HrpExpand
  simp only [List.map_append, List.map_map, List.map_cons, List.map_nil]
  congr 1
  · congr 1
    apply List.map_congr_left
    intro c _
    simp [UInt8.toNat_shiftRight, Nat.shiftRight_eq_div_pow]
  · apply List.map_congr_left
    intro c _
    show (c &&& 0x1f).toNat = c.toNat % 32
    rw [UInt8.toNat_and]
    have : (0x1f : UInt8).toNat = 2 ^ 5 - 1 := rfl
    rw [this, Nat.and_two_pow_sub_one_eq_mod]

theorem const_spec (enc : Model.Bech32Encoding) (henc : enc ≠ .INVALID) :
    Model.encodingConstant enc = Spec.bech32Const (variantOf enc) := by
  cases enc <;> first | exact absurd rfl henc | rfl

theorem createChecksum_spec (enc : Model.Bech32Encoding) (henc : enc ≠ .INVALID) (hrp values : Bytes) :
    (Model.createChecksum enc hrp values).map UInt8.toNat =
      Spec.bech32CreateChecksum (variantOf enc) hrp (values.map UInt8.toNat) := by
  rw [createChecksum_eq]
  unfold Spec.bech32CreateChecksum
  simp only [List.map_cons, List.map_nil, toNat_ofNat_mod32]
  have hp : Model.polyMod (Model.expandHRP hrp ++ values ++ List.replicate 6 0) =
      Spec.bech32Polymod (Spec.bech32HrpExpand hrp ++ values.map UInt8.toNat ++ [0, 0, 0, 0, 0, 0]) := by
    rw [polyMod_eq_spec, List.map_append, List.map_append, expandHRP_spec]
    rfl
  rw [hp, const_spec enc henc]
  rfl

/-- under the conditions under which the C++ neither asserts nor reads outside `CHARSET`, `bech32::Encode` returns the
    string BIP173 / BIP350 define -/
theorem encode_spec (enc : Model.Bech32Encoding) (henc : enc ≠ .INVALID) (hrp values : Bytes)
    (hhrp : ∀ c ∈ hrp, ¬ (65 ≤ c.toNat ∧ c.toNat ≤ 90)) (hvals : ∀ v ∈ values, v.toNat < 32) :
    Model.bech32Encode enc hrp values = some (Spec.bech32Encode (variantOf enc) hrp (values.map UInt8.toNat)) := by
  rw [encode_some enc hrp values henc hhrp hvals]
  unfold Spec.bech32Encode
  congr 1
  rw [List.append_assoc]
  congr 1
  show 49 :: _ = UInt8.ofNat 49 :: _
  congr 1
  rw [← createChecksum_spec enc henc, ← List.map_append, List.map_map]
  apply List.map_congr_left
  intro c hc
  have : c.toNat < 32 := by
    rcases List.mem_append.mp hc with h | h
    · exact hvals c h
    · exact createChecksum_lt enc hrp values c h
  exact charset_spec this

end Btcdeb.Bech32
