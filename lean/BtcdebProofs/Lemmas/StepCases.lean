/-
  What one successful `StepScript(InterpreterEnv&)` does, as a case distinction over the kind of step
  (Merkle step, tweak check, instruction, P2SH hand-over, scriptPubKey hand-over, end of script) with the
  resulting values of the fields that the listing and the marker depend on.  This is the only place where
  the proofs about the listing look into `stepSession`.
-/
import Btcdeb
import BtcdebProofs.Lemmas.Listing
namespace Btcdeb.Model
open Btcdeb

/-- the part of the session the listing and the marker depend on -/
def view (e : IEnv) :=
  (e.see.script, e.see.flags, e.pc, e.tce, e.isP2sh, e.p2shStack, e.successor, e.done, e.currOpSeq, e.see.stack, e.see.cond,
   e.sigscriptExecuted, e.sigscriptPushonly)

inductive StepCase (cx : Ctx) (ep e : IEnv) : Prop
  /-- one Merkle step of the taproot commitment -/
  | merkle (t t' : Tce) : ep.tce = some t → t.i < t.pathLen → t'.control = t.control → t'.p = t.p → t'.pathLen = t.pathLen → t'.i = t.i + 1 →
      view e = (ep.see.script, ep.see.flags, ep.pc, some t', ep.isP2sh, ep.p2shStack, ep.successor, ep.done, ep.currOpSeq + 1, ep.see.stack, ep.see.cond,
              ep.sigscriptExecuted, ep.sigscriptPushonly) →
      StepCase cx ep e
  /-- the last step of the taproot commitment: the tweak check -/
  | tweak (t : Tce) : ep.tce = some t → ¬ t.i < t.pathLen →
      view e = (ep.see.script, ep.see.flags, ep.pc, none, ep.isP2sh, ep.p2shStack, ep.successor, ep.done, ep.currOpSeq + 1, ep.see.stack, ep.see.cond,
              ep.sigscriptExecuted, ep.sigscriptPushonly) →
      StepCase cx ep e
  /-- an instruction of the current script -/
  | op (g : GotOp) (see' : SEE) : ep.tce = none → ep.pc ≠ [] → getOp ep.pc = some g → step cx ep.see ep.pc = .ok (see', g.rest) →
      view e = (ep.see.script, ep.see.flags, g.rest, none, ep.isP2sh, ep.p2shStack, ep.successor, ep.done, ep.currOpSeq + 1, see'.stack, see'.cond,
              ep.sigscriptExecuted, ep.sigscriptPushonly) →
      StepCase cx ep e
  /-- hand-over to the P2SH redeem script -/
  | p2sh (redeem : Bytes) : ep.tce = none → ep.pc = [] → ep.isP2sh = true → ep.p2shStack.getLast? = some redeem →
      (ep.sigscriptExecuted && !ep.sigscriptPushonly) = false →
      view e = (redeem, ep.see.flags, redeem, none, false, ep.p2shStack, ep.successor, ep.done, ep.currOpSeq + 1, ep.p2shStack.dropLast, ep.see.cond,
              ep.sigscriptExecuted, ep.sigscriptPushonly) →
      StepCase cx ep e
  /-- hand-over to the scriptPubKey -/
  | succ : ep.tce = none → ep.pc = [] → ep.isP2sh = false → ep.successor ≠ [] →
      view e = (ep.successor, ep.see.flags, ep.successor, none, p2shPattern ep.see.flags ep.successor,
                (if p2shPattern ep.see.flags ep.successor then ep.see.stack else ep.p2shStack), [], ep.done, ep.currOpSeq + 1,
                ep.see.stack, ep.see.cond, true, isPushOnly ep.see.script) →
      StepCase cx ep e
  /-- the end-of-script step -/
  | finish : ep.tce = none → ep.pc = [] → ep.isP2sh = false → ep.successor = [] →
      view e = (ep.see.script, ep.see.flags, ep.pc, none, false, ep.p2shStack, [], true, ep.currOpSeq, ep.see.stack, ep.see.cond,
              ep.sigscriptExecuted, ep.sigscriptPushonly) →
      StepCase cx ep e

theorem stepSession_cases (cx : Ctx) (tc : TapCtx) (ep e : IEnv) (hs : stepSession cx tc ep = .ok e) : StepCase cx ep e := by
  unfold stepSession at hs
  cases htce : ep.tce with
  | some t =>
    simp only [htce] at hs
    cases hit : t.iterate tc with
    | mk state t' =>
      rw [hit] at hs
      unfold Tce.iterate at hit
      cases state with
      | failed => simp at hs
      | processing =>
        simp at hs; cases hs
        by_cases hlt : t.i < t.pathLen
        · simp only [hlt, if_true, Prod.mk.injEq, true_and] at hit
          subst hit
          refine StepCase.merkle t ?t' htce hlt ?h1 ?h2 ?h3 ?h4 ?hv
          case hv => exact rfl
          all_goals rfl
        · simp only [hlt, if_false, Prod.mk.injEq] at hit
          split at hit <;> simp at hit
      | done =>
        simp at hs; cases hs
        by_cases hlt : t.i < t.pathLen
        · simp [hlt] at hit
        · exact .tweak t htce hlt rfl
  | none =>
    simp only [htce] at hs
    by_cases hpc : ep.pc.isEmpty = true
    · have hpc' : ep.pc = [] := by simpa using hpc
      simp only [hpc, Bool.not_true, Bool.false_eq_true, if_false] at hs
      by_cases hc : ep.see.cond.empty = true
      · simp only [hc, Bool.not_true, Bool.false_eq_true, if_false] at hs
        by_cases hp2 : ep.isP2sh = true
        · simp only [hp2, if_true] at hs
          cases hl : ep.see.stack.getLast? with
          | none => simp [hl, fail] at hs
          | some top =>
            simp only [hl] at hs
            by_cases hcb : castToBool top = true
            · simp only [hcb, Bool.not_true, Bool.false_eq_true, if_false] at hs
              by_cases hps : isPayToScriptHash ep.see.script = true
              · simp only [hps, if_true] at hs
                by_cases hpo : (ep.sigscriptExecuted && !ep.sigscriptPushonly) = true
                · simp [hpo, fail] at hs
                · simp only [hpo, Bool.false_eq_true, if_false] at hs
                  cases hr : ep.p2shStack.getLast? with
                  | none => simp [hr, fail] at hs
                  | some redeem =>
                    simp only [hr] at hs
                    cases hs
                    exact .p2sh redeem htce hpc' hp2 hr (by simpa using hpo) (by simp [view, htce])
              · simp [hps, fail] at hs
            · simp [hcb, fail] at hs
        · simp only [hp2, Bool.false_eq_true, if_false] at hs
          have hp2' : ep.isP2sh = false := by simpa using hp2
          by_cases hsu : ep.successor.isEmpty = true
          · simp only [hsu, Bool.not_true, Bool.false_eq_true, if_false] at hs
            cases hs
            exact .finish htce hpc' hp2' (by simpa using hsu) (by simp [view, htce, hp2', List.isEmpty_iff.mp hsu])
          · simp only [hsu, Bool.not_false, if_true] at hs
            by_cases hsz : ep.successor.length > Gen.MAX_SCRIPT_SIZE
            · simp [hsz, fail] at hs
            · simp only [hsz, if_false] at hs
              cases hs
              have hne : ep.successor ≠ [] := by intro h; simp [h] at hsu
              exact .succ htce hpc' hp2' hne (by simp [view, htce])
      · simp [hc, fail] at hs
    · simp only [hpc, Bool.not_false, if_true] at hs
      cases hst : step cx ep.see ep.pc with
      | error x => simp [hst, Functor.map, Except.map] at hs
      | ok rr =>
        obtain ⟨see', pc'⟩ := rr
        simp [hst, Functor.map, Except.map] at hs
        have hfr := step_frame cx ep.see see' ep.pc pc' hst
        obtain ⟨g, hg, hrest⟩ := step_getOp cx ep.see ep.pc (see', pc') hst
        simp only at hrest
        subst hrest
        simp only [SEE.frame, Prod.mk.injEq] at hfr
        obtain ⟨h1, h2, _⟩ := hfr
        cases hs
        exact .op g see' htce (by intro h; simp [h] at hpc) hg hst (by simp [view, htce, h1, h2])

end Btcdeb.Model
