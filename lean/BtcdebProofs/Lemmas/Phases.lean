/-
  Phases of a debugger session (`ContinueScript` = repeated `StepScript(InterpreterEnv&)`):
  the operations of one script (`runOps`, related to the specification by `runOps_refines`), then the
  end-of-script branch.  Fuel bookkeeping for `continueScript`, the frame of a phase, and the phase
  lemma: one script phase of the session = `Spec.evalScript` of that script.
-/
import Btcdeb
import Btcdeb.Model.Verdict
import BtcdebProofs.Refine.Run
import BtcdebProofs.Lemmas.SpecCore
namespace Btcdeb.Proofs.Phases
open Btcdeb Btcdeb.Model Btcdeb.Refine Btcdeb.Proofs.SpecCore

/-! ### 1. `continueScript` and fuel -/

/-- a result `ContinueScript` can stop with: a failure, or a session that is `done` -/
def Final (r : M IEnv) : Prop :=
  match r with
  | .ok e => e.done = true
  | .error _ => True

theorem continue_done (cx : Ctx) (tc : TapCtx) (n : Nat) (e : IEnv) (h : e.done = true) :
    continueScript cx tc n e = .ok e := by
  cases n with
  | zero => rfl
  | succ n => simp [continueScript, h]; rfl

theorem continue_succ (cx : Ctx) (tc : TapCtx) (n : Nat) (e : IEnv) (h : e.done = false) :
    continueScript cx tc (n + 1) e = (stepSession cx tc e >>= continueScript cx tc n) := by
  simp [continueScript, h]

/-- once the loop has stopped, more fuel changes nothing -/
theorem continue_mono (cx : Ctx) (tc : TapCtx) : ∀ (n m : Nat) (e : IEnv) (r : M IEnv),
    continueScript cx tc n e = r → Final r → continueScript cx tc (n + m) e = r
  | 0, m, e, r, h, hf => by
    have : r = .ok e := h.symm
    subst this
    exact continue_done cx tc _ e hf
  | n + 1, m, e, r, h, hf => by
    by_cases hd : e.done = true
    · rw [continue_done cx tc _ e hd] at h ⊢; exact h
    · have hd' : e.done = false := by simpa using hd
      have : n + 1 + m = (n + m) + 1 := by omega
      rw [this, continue_succ cx tc _ e hd']
      rw [continue_succ cx tc _ e hd'] at h
      cases hs : stepSession cx tc e with
      | error x => rw [hs] at h; exact h
      | ok e' =>
        rw [hs] at h
        exact continue_mono cx tc n m e' r h hf

/-- the session started at `e` stops with `r` after at most `N` steps -/
def Ends (cx : Ctx) (tc : TapCtx) (e : IEnv) (N : Nat) (r : M IEnv) : Prop :=
  Final r ∧ ∀ n, N ≤ n → continueScript cx tc n e = r

theorem ends_of (cx : Ctx) (tc : TapCtx) (e : IEnv) (N : Nat) (r : M IEnv) (hf : Final r)
    (h : continueScript cx tc N e = r) : Ends cx tc e N r := by
  refine ⟨hf, fun n hn => ?_⟩
  obtain ⟨m, rfl⟩ : ∃ m, n = N + m := ⟨n - N, by omega⟩
  exact continue_mono cx tc N m e r h hf

theorem ends_done (cx : Ctx) (tc : TapCtx) (e : IEnv) (h : e.done = true) : Ends cx tc e 0 (.ok e) :=
  ⟨h, fun n _ => continue_done cx tc n e h⟩

theorem ends_weaken {cx : Ctx} {tc : TapCtx} {e : IEnv} {N N' : Nat} {r : M IEnv} (h : Ends cx tc e N r) (hle : N ≤ N') :
    Ends cx tc e N' r :=
  ⟨h.1, fun n hn => h.2 n (by omega)⟩

theorem ends_step_err (cx : Ctx) (tc : TapCtx) (e : IEnv) (x : StepErr) (hd : e.done = false)
    (hs : stepSession cx tc e = .error x) : Ends cx tc e 1 (.error x) := by
  apply ends_of cx tc e 1 (.error x) (by simp [Final])
  rw [continue_succ cx tc 0 e hd, hs]; rfl

theorem ends_step {cx : Ctx} {tc : TapCtx} {e e' : IEnv} {N : Nat} {r : M IEnv} (hd : e.done = false)
    (hs : stepSession cx tc e = .ok e') (h : Ends cx tc e' N r) : Ends cx tc e (N + 1) r := by
  apply ends_of _ _ _ _ _ h.1
  rw [continue_succ cx tc N e hd, hs]
  exact h.2 N (Nat.le_refl _)

theorem ends_unique {cx : Ctx} {tc : TapCtx} {e : IEnv} {N N' : Nat} {r r' : M IEnv} (h : Ends cx tc e N r)
    (h' : Ends cx tc e N' r') : r = r' := by
  rw [← h.2 (N + N') (by omega), ← h'.2 (N + N') (by omega)]

/-! ### 2. the operations of one script inside `continueScript` -/

/-- what an operation step leaves alone -/
theorem stepSession_op_ok {cx : Ctx} {tc : TapCtx} {e e' : IEnv} (ht : e.tce = none) (hp : e.pc.isEmpty = false)
    (hs : stepSession cx tc e = .ok e') :
    ∃ see' pc', step cx e.see e.pc = .ok (see', pc') ∧
      e' = { e with see := { see' with opcodePos := see'.opcodePos + 1 }, pc := pc',
                    history := e.snapshot :: e.history, currOpSeq := e.currOpSeq + 1 } := by
  rw [stepSession_op cx tc e ht hp] at hs
  cases hst : step cx e.see e.pc with
  | error x => rw [hst] at hs; cases hs
  | ok r =>
    rw [hst] at hs
    obtain ⟨see', pc'⟩ := r
    refine ⟨see', pc', rfl, ?_⟩
    cases hs; rfl

/-- the configuration part of the script environment: everything `CfgRel` looks at, plus the script -/
def conf (e : SEE) := (e.flags, e.sigversion, e.requireMinimal, e.allowDisabled, e.pretendMap, e.pretendKeys)

/-- the session fields outside the script environment that operations leave alone -/
def outer (e : IEnv) :=
  (e.done, e.isP2sh, e.p2shStack, e.successor, e.sigscriptExecuted, e.sigscriptPushonly, e.tce, e.see.script)

theorem cfgRel_of_conf {cx : Ctx} {e e' : SEE} {cfg : Spec.Cfg} (hc : CfgRel cx e cfg) (hf : conf e' = conf e) :
    CfgRel cx e' cfg := by
  simp only [conf, Prod.mk.injEq] at hf
  obtain ⟨h2, h3, h4, h5, h6, h7⟩ := hf
  exact { flags := by rw [h2]; exact hc.flags, sv := by rw [h3]; exact hc.sv, z := by rw [h5]; exact hc.z,
          rm := by rw [h4, h2]; exact hc.rm, sha256 := hc.sha256, ripemd160 := hc.ripemd160, sha1 := hc.sha1,
          checkLowS := hc.checkLowS, checkLockTime := hc.checkLockTime, checkSequence := hc.checkSequence,
          ecdsa := hc.ecdsa, schnorr := hc.schnorr, pretendKeys := by rw [h7]; exact hc.pretendKeys,
          pretendPair := by rw [h7, h6]; exact hc.pretendPair }

theorem step_conf {cx : Ctx} {e e' : SEE} {pc pc' : Bytes} (h : step cx e pc = .ok (e', pc')) :
    conf e' = conf e ∧ e'.script = e.script := by
  have hfr := step_frame cx e e' pc pc' h
  simp only [SEE.frame, Prod.mk.injEq] at hfr
  obtain ⟨h1, h2, h3, h4, h5, h6, h7, _⟩ := hfr
  simp [conf, h1, h2, h3, h4, h5, h6, h7]

/-- stepping through the operations of a script: length of the run, frame, and how it sits inside
    `continueScript` -/
theorem runOps_facts (cx : Ctx) (tc : TapCtx) : ∀ (fuel : Nat) (e : IEnv), e.tce = none → e.done = false →
    (runOps cx tc fuel e).1.length ≤ e.pc.length ∧
    (match (runOps cx tc fuel e).2 with
     | .ok e' => outer e' = outer e ∧ conf e'.see = conf e.see ∧
         ∀ n, continueScript cx tc (n + (runOps cx tc fuel e).1.length) e = continueScript cx tc n e'
     | .error x => ∀ n, continueScript cx tc (n + (runOps cx tc fuel e).1.length + 1) e = .error x) := by
  intro fuel
  induction fuel with
  | zero =>
    intro e ht hd
    simp [runOps]
  | succ fuel ih =>
    intro e ht hd
    by_cases hpc : e.pc.isEmpty = true
    · simp [runOps, hpc]
    · have hne : e.pc.isEmpty = false := by simpa using hpc
      simp only [runOps, hne, Bool.false_eq_true, if_false]
      cases hs : stepSession cx tc e with
      | error x =>
        simp only [List.length_nil, Nat.zero_le, Nat.add_zero, true_and]
        intro n
        rw [continue_succ cx tc n e hd, hs]; rfl
      | ok e1 =>
        obtain ⟨see', pc', hst, he1⟩ := stepSession_op_ok ht hne hs
        have hlt := step_pc cx e.see e.pc (see', pc') hst
        simp only at hlt
        have ht1 : e1.tce = none := by rw [he1]; exact ht
        have hd1 : e1.done = false := by rw [he1]; exact hd
        have hpc1 : e1.pc = pc' := by rw [he1]
        obtain ⟨hc1, hs1⟩ := step_conf hst
        have hout : outer e1 = outer e := by
          rw [he1]; simp [outer, hs1]
        have hcf : conf e1.see = conf e.see := by
          rw [he1]; simpa [conf] using hc1
        obtain ⟨ihl, ihr⟩ := ih e1 ht1 hd1
        simp only [List.length_cons]
        refine ⟨by rw [hpc1] at ihl; omega, ?_⟩
        cases hr : (runOps cx tc fuel e1).2 with
        | ok e' =>
          rw [hr] at ihr
          simp only
          obtain ⟨i1, i2, i3⟩ := ihr
          refine ⟨i1.trans hout, i2.trans hcf, fun n => ?_⟩
          have : n + ((runOps cx tc fuel e1).1.length + 1) = (n + (runOps cx tc fuel e1).1.length) + 1 := by omega
          rw [this, continue_succ cx tc _ e hd, hs]
          exact i3 n
        | error x =>
          rw [hr] at ihr
          simp only
          intro n
          have : n + ((runOps cx tc fuel e1).1.length + 1) + 1 = (n + (runOps cx tc fuel e1).1.length + 1) + 1 := by omega
          rw [this, continue_succ cx tc _ e hd, hs]
          exact ihr n

theorem ends_ops_err {cx : Ctx} {tc : TapCtx} {e : IEnv} {fuel : Nat} {x : StepErr} (ht : e.tce = none) (hd : e.done = false)
    (hr : (runOps cx tc fuel e).2 = .error x) : Ends cx tc e (e.pc.length + 1) (.error x) := by
  obtain ⟨hl, h2⟩ := runOps_facts cx tc fuel e ht hd
  rw [hr] at h2
  simp only at h2
  exact ends_weaken (ends_of cx tc e _ (.error x) (by simp [Final]) (by simpa using h2 0)) (by omega)

theorem ends_ops_ok {cx : Ctx} {tc : TapCtx} {e e' : IEnv} {fuel N : Nat} {r : M IEnv} (ht : e.tce = none) (hd : e.done = false)
    (hr : (runOps cx tc fuel e).2 = .ok e') (h : Ends cx tc e' N r) : Ends cx tc e (N + e.pc.length) r := by
  obtain ⟨hl, h2⟩ := runOps_facts cx tc fuel e ht hd
  rw [hr] at h2
  simp only at h2
  refine ends_weaken (ends_of cx tc e (N + (runOps cx tc fuel e).1.length) r h.1 ?_) (by omega)
  rw [h2.2.2 N]
  exact h.2 N (Nat.le_refl _)


/-! ### 3. the phase lemma -/

/-- the script phase of a session as a whole: the operations of the current script, then the
    conditional-nesting check of the end-of-script branch -/
def phaseResult (cx : Ctx) (tc : TapCtx) (e : IEnv) : M IEnv :=
  match (runOps cx tc e.pc.length e).2 with
  | .error x => .error x
  | .ok e' => if !e'.see.cond.empty then fail .UNBALANCED_CONDITIONAL else .ok e'

/-- outcomes of a phase correspond -/
def PhaseRel (m : M IEnv) (s : Spec.R Spec.St) : Prop :=
  match m, s with
  | .ok e', .ok st' => Rel e'.see st'
  | .error x, .error y => errAbs x = y ∧ isAbnormal x = false
  | _, _ => False

/-- **Phase lemma** (general position): a script phase of the session refines the specification's evaluation
    of that script from the related state -/
theorem phase_refines (cx : Ctx) (tc : TapCtx) (cfg : Spec.Cfg) (e : IEnv) (st : Spec.St)
    (ht : e.tce = none) (hc : CfgRel cx e.see cfg) (hrel : Rel e.see st)
    (hw : e.see.sigversion = .TAPSCRIPT → e.see.execdata.weightInit = true) :
    PhaseRel (phaseResult cx tc e) (evalFrom cfg e.pc e.see.opcodePos st) := by
  have h := runOps_refines cx tc cfg e.pc.length e st ht (Nat.le_refl _) hc hrel hw
  obtain ⟨_, hout⟩ := h
  unfold phaseResult evalFrom
  simp only
  cases hm : (runOps cx tc e.pc.length e).2 with
  | error x =>
    cases hs : (Spec.evalInstrs cfg (Spec.decodePrefix e.pc.length e.pc).1 e.see.opcodePos st).2 with
    | error y =>
      rw [hm, hs] at hout
      simpa [PhaseRel] using hout
    | ok st' =>
      rw [hm, hs] at hout
      obtain ⟨h1, h2⟩ := hout
      simp [PhaseRel, h1, h2, errAbs, isAbnormal]
  | ok e' =>
    cases hs : (Spec.evalInstrs cfg (Spec.decodePrefix e.pc.length e.pc).1 e.see.opcodePos st).2 with
    | error y =>
      rw [hm, hs] at hout
      exact hout.elim
    | ok st' =>
      rw [hm, hs] at hout
      obtain ⟨h1, h2, h3, h4⟩ := hout
      have hce := condRel_isEmpty h2.cond
      simp only [h1, Bool.not_true, Bool.false_eq_true, if_false]
      rw [hce]
      cases hcond : st'.cond.isEmpty
      · simp [PhaseRel, fail, errAbs, isAbnormal]
      · simpa [PhaseRel] using h2

/-- a run that succeeds stops at the end of the script -/
theorem runOps_ok_pc (cx : Ctx) (tc : TapCtx) : ∀ (fuel : Nat) (e0 : IEnv), e0.tce = none → e0.pc.length ≤ fuel →
    ∀ e2, (runOps cx tc fuel e0).2 = .ok e2 → e2.pc = [] := by
  intro fuel
  induction fuel with
  | zero => intro e0 _ hl e2 hr; simp [runOps] at hr; subst hr; exact List.length_eq_zero_iff.mp (by omega)
  | succ fuel ih =>
    intro e0 ht0 hl e2 hr
    by_cases hp : e0.pc.isEmpty = true
    · simp [runOps, hp] at hr; subst hr; simpa using hp
    · have hne : e0.pc.isEmpty = false := by simpa using hp
      simp only [runOps, hne, Bool.false_eq_true, if_false] at hr
      cases hs : stepSession cx tc e0 with
      | error x => rw [hs] at hr; cases hr
      | ok e3 =>
        rw [hs] at hr
        simp only at hr
        obtain ⟨see', pc', hst, he3⟩ := stepSession_op_ok ht0 hne hs
        have hlt := step_pc cx e0.see e0.pc (see', pc') hst
        simp only at hlt
        exact ih e3 (by rw [he3]; exact ht0) (by rw [he3]; show pc'.length ≤ fuel; omega) e2 hr

/-- what a finished phase looks like, and how it sits inside `continueScript` -/
theorem phase_ok {cx : Ctx} {tc : TapCtx} {e e' : IEnv} (ht : e.tce = none) (hd : e.done = false)
    (h : phaseResult cx tc e = .ok e') :
    outer e' = outer e ∧ conf e'.see = conf e.see ∧ e'.pc = [] ∧ e'.see.cond.empty = true ∧
    (∀ N r, Ends cx tc e' N r → Ends cx tc e (N + e.pc.length) r) := by
  unfold phaseResult at h
  cases hm : (runOps cx tc e.pc.length e).2 with
  | error x => rw [hm] at h; cases h
  | ok e1 =>
    rw [hm] at h
    simp only at h
    by_cases hce : e1.see.cond.empty = true
    · simp only [hce, Bool.not_true, Bool.false_eq_true, if_false] at h
      have he : e1 = e' := by injection h
      subst he
      obtain ⟨_, h2⟩ := runOps_facts cx tc e.pc.length e ht hd
      rw [hm] at h2
      have hpc : e1.pc = [] := runOps_ok_pc cx tc e.pc.length e ht (Nat.le_refl _) e1 hm
      exact ⟨h2.1, h2.2.1, hpc, hce, fun N r hE => ends_ops_ok ht hd hm hE⟩
    · simp [hce, fail] at h

/-- a failed phase fails the session with the same error -/
theorem phase_err {cx : Ctx} {tc : TapCtx} {e : IEnv} {x : StepErr} (ht : e.tce = none) (hd : e.done = false)
    (h : phaseResult cx tc e = .error x) : Ends cx tc e (e.pc.length + 1) (.error x) := by
  unfold phaseResult at h
  cases hm : (runOps cx tc e.pc.length e).2 with
  | error y =>
    rw [hm] at h
    cases h
    exact ends_ops_err ht hd hm
  | ok e1 =>
    rw [hm] at h
    simp only at h
    by_cases hce : e1.see.cond.empty = true
    · simp [hce] at h
    · simp only [hce, Bool.not_false, if_true, Bool.false_eq_true] at h
      have hx : x = .script .UNBALANCED_CONDITIONAL := by
        simp only [Bool.not_eq_true] at hce
        simp [hce, fail] at h; exact h.symm
      subst hx
      obtain ⟨_, h2⟩ := runOps_facts cx tc e.pc.length e ht hd
      rw [hm] at h2
      have hpc : e1.pc = [] := runOps_ok_pc cx tc e.pc.length e ht (Nat.le_refl _) e1 hm
      have ho := h2.1
      simp only [outer, Prod.mk.injEq] at ho
      have hd1 : e1.done = false := by rw [ho.1]; exact hd
      have ht1 : e1.tce = none := by rw [ho.2.2.2.2.2.2.1]; exact ht
      have hs : stepSession cx tc e1 = .error (.script .UNBALANCED_CONDITIONAL) := by
        unfold stepSession
        simp only [ht1, hpc, List.isEmpty_nil, Bool.not_true, Bool.false_eq_true, if_false]
        simp only [Bool.not_eq_true] at hce
        simp [hce, fail]
      have := ends_ops_ok ht hd hm (ends_step_err cx tc e1 _ hd1 hs)
      exact ends_weaken this (by omega)


/-- outcomes of a phase correspond, as far as the next phase can tell: the main stack -/
def PhaseRelS (m : M IEnv) (s : Spec.R Spec.St) : Prop :=
  match m, s with
  | .ok e', .ok st' => e'.see.stack = st'.stack.reverse ∧ e'.see.cond = {}
  | .error x, .error y => errAbs x = y ∧ isAbnormal x = false
  | _, _ => False

/-- **Phase lemma.** A script phase of the session that starts at the beginning of the script `e.pc` with the
    opcode counter at 0 and a state related to `st0` is `Spec.evalScript` of that script on `st0`: the same error
    (C++ exceptions being UNKNOWN_ERROR, never an abnormal termination), or related final states.  The
    unbalanced-conditional check of the end-of-script branch is the specification's. -/
theorem phase_aligned (cx : Ctx) (tc : TapCtx) (cfg : Spec.Cfg) (e : IEnv) (st0 : Spec.St)
    (ht : e.tce = none) (hc : CfgRel cx e.see cfg) (hrel : Rel e.see { st0 with codeFrom := e.pc })
    (hpos : e.see.opcodePos = 0)
    (hw : e.see.sigversion = .TAPSCRIPT → e.see.execdata.weightInit = true)
    (hlen : (cfg.sigversion = .BASE ∨ cfg.sigversion = .WITNESS_V0) → e.pc.length ≤ Spec.maxScriptSize) :
    PhaseRel (phaseResult cx tc e) (Spec.evalScript cfg e.pc st0).result := by
  have h := phase_refines cx tc cfg e _ ht hc hrel hw
  rw [hpos] at h
  rw [evalScript_result]
  by_cases hsz : ((cfg.sigversion == .BASE || cfg.sigversion == .WITNESS_V0) && decide (e.pc.length > Spec.maxScriptSize)) = true
  · exfalso
    simp only [Bool.and_eq_true, Bool.or_eq_true, beq_iff_eq, decide_eq_true_eq] at hsz
    have := hlen hsz.1
    omega
  · simp only [hsz, Bool.false_eq_true, if_false]
    exact h

theorem evalFrom_ok_cond {cfg : Spec.Cfg} {script : Bytes} {pos : Nat} {st st' : Spec.St}
    (h : evalFrom cfg script pos st = .ok st') : st'.cond = [] := by
  unfold evalFrom at h
  simp only at h
  split at h
  · cases h
  · split at h
    · cases h
    · split at h
      · cases h
      · rename_i hc
        cases h
        simpa using hc

theorem condRel_nil {c : CondStack} (h : CondRel c []) : c = {} := by
  obtain ⟨h1, h2, _⟩ := h
  cases c with
  | mk size ff =>
    simp only [List.length_nil] at h1
    simp only [firstFalseOuter, List.reverse_nil, List.findIdx?_nil] at h2
    subst h1; subst h2; rfl

/-- **Phase lemma, legacy scripts in any position of the session.**  For a BASE (or WITNESS_V0) script phase that
    starts with the given main stack, an empty alt stack, no open conditional and operation count 0 — whatever the
    opcode counter and the code-separator bookkeeping left by earlier scripts — the phase is `Spec.evalScript` of the
    script on that stack: same error, or the specification's final stack. -/
theorem phase_base (cx : Ctx) (tc : TapCtx) (cfg : Spec.Cfg) (e : IEnv) (S : List Bytes)
    (hsv : cfg.sigversion = .BASE ∨ cfg.sigversion = .WITNESS_V0)
    (ht : e.tce = none) (hc : CfgRel cx e.see cfg)
    (hstack : e.see.stack = S.reverse) (halt : e.see.altstack = []) (hcond : e.see.cond = {})
    (hops : e.see.nOpCount = 0) (hpb : e.see.pbegincodehash = e.pc)
    (hlen : e.pc.length ≤ Spec.maxScriptSize) :
    PhaseRelS (phaseResult cx tc e) (Spec.evalScript cfg e.pc { stack := S }).result := by
  let st : Spec.St := { stack := S, codeFrom := e.pc, codesepPos := e.see.execdata.codesepPos,
                        weightLeft := e.see.execdata.weightLeft, weightInit := e.see.execdata.weightInit }
  have hrel : Rel e.see st := by
    constructor <;> simp [st, hstack, halt, hcond, hops, hpb, condRel_empty]
  have hw : e.see.sigversion = .TAPSCRIPT → e.see.execdata.weightInit = true := by
    intro h
    rw [← hc.sv] at h
    rcases hsv with h' | h' <;> rw [h'] at h <;> cases h
  have h := phase_refines cx tc cfg e st ht hc hrel hw
  have hcore := resCore_evalFrom cfg hsv e.pc e.see.opcodePos 0 st { ({ stack := S } : Spec.St) with codeFrom := e.pc } rfl
  rw [evalScript_result]
  have hsz : ((cfg.sigversion == .BASE || cfg.sigversion == .WITNESS_V0) && decide (e.pc.length > Spec.maxScriptSize)) = false := by
    have : ¬ e.pc.length > Spec.maxScriptSize := by omega
    simp [this]
  simp only [hsz, Bool.false_eq_true, if_false]
  cases hm : phaseResult cx tc e with
  | error x =>
    rw [hm] at h
    cases hr1 : evalFrom cfg e.pc e.see.opcodePos st with
    | error y =>
      rw [hr1] at h hcore
      cases hr2 : evalFrom cfg e.pc 0 { ({ stack := S } : Spec.St) with codeFrom := e.pc } with
      | error z => rw [hr2] at hcore; simp only [ResCore] at hcore; subst hcore; exact h
      | ok _ => rw [hr2] at hcore; exact hcore.elim
    | ok _ => rw [hr1] at h; exact h.elim
  | ok e' =>
    rw [hm] at h
    cases hr1 : evalFrom cfg e.pc e.see.opcodePos st with
    | error y => rw [hr1] at h; exact h.elim
    | ok s1 =>
      rw [hr1] at h hcore
      cases hr2 : evalFrom cfg e.pc 0 { ({ stack := S } : Spec.St) with codeFrom := e.pc } with
      | error z => rw [hr2] at hcore; exact hcore.elim
      | ok s2 =>
        rw [hr2] at hcore
        simp only [ResCore, Core, Prod.mk.injEq] at hcore
        simp only [PhaseRel] at h
        simp only [PhaseRelS]
        refine ⟨by rw [h.stack, hcore.1], ?_⟩
        have hc1 := h.cond
        rw [evalFrom_ok_cond hr1] at hc1
        exact condRel_nil hc1

/-! ### 4. the end-of-script branch -/

/-- end of the last script: the session is done -/
theorem end_finish (cx : Ctx) (tc : TapCtx) (e : IEnv) (ht : e.tce = none) (hpc : e.pc = [])
    (hce : e.see.cond.empty = true) (hp : e.isP2sh = false) (hs : e.successor = []) :
    stepSession cx tc e = .ok { e with done := true } := by
  unfold stepSession
  simp [ht, hpc, hce, hp, hs]
  rfl

/-- end of the scriptSig: hand-over to the scriptPubKey -/
theorem end_succ (cx : Ctx) (tc : TapCtx) (e : IEnv) (ht : e.tce = none) (hpc : e.pc = [])
    (hce : e.see.cond.empty = true) (hp : e.isP2sh = false) (hs : e.successor ≠ [])
    (hsz : e.successor.length ≤ Gen.MAX_SCRIPT_SIZE) :
    stepSession cx tc e =
      .ok { e with sigscriptExecuted := true, sigscriptPushonly := isPushOnly e.see.script,
                   see := { e.see with script := e.successor, pbegincodehash := e.successor, nOpCount := 0, altstack := [] },
                   successor := [], pc := e.successor, currOpSeq := e.currOpSeq + 1,
                   isP2sh := p2shPattern e.see.flags e.successor,
                   p2shStack := if p2shPattern e.see.flags e.successor then e.see.stack else e.p2shStack } := by
  unfold stepSession
  have : e.successor.isEmpty = false := by simpa using hs
  have hsz' : ¬ e.successor.length > Gen.MAX_SCRIPT_SIZE := by omega
  simp only [ht, hpc, List.isEmpty_nil, Bool.not_true, Bool.false_eq_true, if_false, hce, hp, this, Bool.not_false,
    if_true, hsz']
  rfl

/-- end of the scriptSig, scriptPubKey above 10,000 bytes: SCRIPT_SIZE -/
theorem end_succ_size (cx : Ctx) (tc : TapCtx) (e : IEnv) (ht : e.tce = none) (hpc : e.pc = [])
    (hce : e.see.cond.empty = true) (hp : e.isP2sh = false)
    (hsz : e.successor.length > Gen.MAX_SCRIPT_SIZE) :
    stepSession cx tc e = fail .SCRIPT_SIZE := by
  unfold stepSession
  have : e.successor.isEmpty = false := by
    cases hs : e.successor with
    | nil => rw [hs] at hsz; simp at hsz
    | cons _ _ => rfl
  simp only [ht, hpc, List.isEmpty_nil, Bool.not_true, Bool.false_eq_true, if_false, hce, hp, this, Bool.not_false,
    if_true, hsz]

/-- end of a script recognised as P2SH: the checks, then hand-over to the redeem script -/
theorem end_p2sh (cx : Ctx) (tc : TapCtx) (e : IEnv) (ht : e.tce = none) (hpc : e.pc = [])
    (hce : e.see.cond.empty = true) (hp : e.isP2sh = true) :
    stepSession cx tc e =
      match e.see.stack.getLast? with
      | none => fail .EVAL_FALSE
      | some t =>
        if !castToBool t then fail .EVAL_FALSE
        else if isPayToScriptHash e.see.script then
          if e.sigscriptExecuted && !e.sigscriptPushonly then fail .SIG_PUSHONLY
          else
          match e.p2shStack.getLast? with
          | none => fail .INVALID_STACK_OPERATION
          | some redeem =>
            pure { e with isP2sh := false,
                          see := { e.see with stack := e.p2shStack.dropLast, script := redeem, pbegincodehash := redeem, nOpCount := 0,
                                              altstack := [] },
                          pc := redeem, currOpSeq := e.currOpSeq + 1 }
        else fail .BAD_OPCODE := by
  unfold stepSession
  simp only [ht, hpc, List.isEmpty_nil, Bool.not_true, Bool.false_eq_true, if_false, hce, hp, if_true]
  rfl

end Btcdeb.Proofs.Phases
