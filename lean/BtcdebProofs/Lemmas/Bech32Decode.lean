/-
  `bech32::Decode` of bech32.cpp is BIP173 / BIP350's reference `bech32_decode`.
-/
import BtcdebProofs.Lemmas.Bech32
namespace Btcdeb.Bech32
open Btcdeb

theorem lowerCase_spec (c : UInt8) : Model.lowerCase c = Spec.toLowerB c := by
  unfold Model.lowerCase Spec.toLowerB Spec.isUpperB
  split
  · rename_i h
    simp only [Bool.and_eq_true, decide_eq_true_eq] at h
    have : c.toNat - 65 + 97 = c.toNat + 32 := by omega
    rw [this]
  · rfl

/-- per character: `CHARSET_REV` against the position in the BIP's character set of the lower-cased character -/
def digitRow (n : Nat) : Bool :=
  let c := UInt8.ofNat n
  let r := Model.bech32CharsetRev.getD n (-1)
  match Spec.bech32Digit (Spec.toLowerB c) with
  | none => r == -1
  | some d => r == (d : Int) && decide (d < 32)
set_option maxRecDepth 20000 in
theorem digitRows : (List.range 256).all digitRow = true := by decide +kernel

theorem digit_spec (c : UInt8) :
    (match Spec.bech32Digit (Spec.toLowerB c) with
     | none => Model.bech32CharsetRev.getD c.toNat (-1) = -1
     | some d => Model.bech32CharsetRev.getD c.toNat (-1) = (d : Int) ∧ d < 32) := by
  have := List.all_eq_true.mp digitRows c.toNat (List.mem_range.mpr c.toNat_lt)
  unfold digitRow at this
  simp only [UInt8.ofNat_toNat] at this
  split <;> rename_i h <;> simp only [h] at this
  · simpa using this
  · simpa using this

theorem values_spec : ∀ (cs : Bytes),
    (Model.bech32Values cs).map (fun vs => vs.map UInt8.toNat) = (cs.map Spec.toLowerB).mapM Spec.bech32Digit := by
  intro cs
  induction cs with
  | nil => rfl
  | cons c cs ih =>
    have hd := digit_spec c
    rw [List.map_cons, List.mapM_cons, Model.bech32Values]
    cases hq : Spec.bech32Digit (Spec.toLowerB c) with
    | none =>
      rw [hq] at hd
      simp only [] at hd
      rw [hd]
      rfl
    | some d =>
      rw [hq] at hd
      simp only [] at hd
      obtain ⟨h1, h2⟩ := hd
      have hne : ((d : Int) == -1) = false := by
        have : (d : Int) ≠ -1 := by omega
        simp [this]
      simp only [h1, hne, Bool.false_eq_true, ↓reduceIte, Int.toNat_natCast]
      rw [← ih]
      cases Model.bech32Values cs with
      | none => rfl
      | some vs =>
        have : (UInt8.ofNat d).toNat = d := by
          have : d < 256 := by omega
          simp [Nat.mod_eq_of_lt this]
        simp [this]

def outOfRange (c : UInt8) : Bool := decide (c.toNat < 33) || decide (c.toNat > 126)

theorem fold_false (cs : Bytes) : ∀ l u, (cs.foldl Model.checkCharactersStep (l, u, false)).2.2 = false := by
  induction cs with
  | nil => intro l u; rfl
  | cons c cs ih =>
    intro l u
    simp only [List.foldl_cons]
    have : ∃ l' u', Model.checkCharactersStep (l, u, false) c = (l', u', false) := by
      unfold Model.checkCharactersStep
      simp only []
      split
      · split <;> exact ⟨_, _, rfl⟩
      · split
        · split <;> exact ⟨_, _, rfl⟩
        · split <;> exact ⟨_, _, rfl⟩
    obtain ⟨l', u', h⟩ := this
    rw [h]; exact ih l' u'

theorem step_cases (l u ok : Bool) (c : UInt8) :
    Model.checkCharactersStep (l, u, ok) c =
      if Spec.isLowerB c then (if u then (l, u, false) else (true, u, ok))
      else if Spec.isUpperB c then (if l then (l, u, false) else (l, true, ok))
      else if outOfRange c then (l, u, false) else (l, u, ok) := by
  unfold Model.checkCharactersStep Spec.isLowerB Spec.isUpperB outOfRange
  rfl

theorem class_excl (c : UInt8) :
    (Spec.isLowerB c = true → Spec.isUpperB c = false ∧ outOfRange c = false) ∧
    (Spec.isUpperB c = true → outOfRange c = false) := by
  unfold Spec.isLowerB Spec.isUpperB outOfRange
  simp only [Bool.and_eq_true, decide_eq_true_eq, Bool.and_eq_false_iff, decide_eq_false_iff_not, Bool.or_eq_false_iff]
  omega

/-- `CheckCharacters`: every character in 33..126 and not both an upper-case and a lower-case letter -/
theorem checkChars_fold (cs : Bytes) : ∀ (l u : Bool), (l && u) = false →
    (cs.foldl Model.checkCharactersStep (l, u, true)).2.2 =
      (!(cs.any outOfRange) && !((l || cs.any Spec.isLowerB) && (u || cs.any Spec.isUpperB))) := by
  induction cs with
  | nil => intro l u h; cases l <;> cases u <;> simp_all
  | cons c cs ih =>
    intro l u h
    simp only [List.foldl_cons, List.any_cons]
    rw [step_cases]
    obtain ⟨e1, e2⟩ := class_excl c
    cases hlo : Spec.isLowerB c with
    | true =>
      obtain ⟨h2, h3⟩ := e1 hlo
      simp only [↓reduceIte, h2, h3, Bool.false_or, Bool.true_or, Bool.or_true]
      cases u with
      | true => simp [fold_false]
      | false => simp only [Bool.false_eq_true, ↓reduceIte]; rw [ih true false rfl]; simp
    | false =>
      simp only [Bool.false_eq_true, ↓reduceIte, Bool.false_or]
      cases hup : Spec.isUpperB c with
      | true =>
        have h3 := e2 hup
        simp only [↓reduceIte, h3, Bool.false_or, Bool.true_or, Bool.or_true]
        cases l with
        | true => simp [fold_false]
        | false => simp only [Bool.false_eq_true, ↓reduceIte]; rw [ih false true rfl]; simp
      | false =>
        simp only [Bool.false_eq_true, ↓reduceIte, Bool.false_or]
        cases hr : outOfRange c with
        | true => simp [fold_false]
        | false => simp only [Bool.false_eq_true, ↓reduceIte, Bool.false_or]; exact ih l u h

theorem checkCharacters_spec (s : Bytes) :
    Model.checkCharacters s = (!(s.any outOfRange) && !(s.any Spec.isUpperB && s.any Spec.isLowerB)) := by
  unfold Model.checkCharacters
  rw [checkChars_fold s false false rfl]
  simp [Bool.and_comm]

theorem toLower_one (x : UInt8) : (Spec.toLowerB x == 49) = (x == 49) := by
  unfold Spec.toLowerB Spec.isUpperB
  split
  · rename_i h
    simp only [Bool.and_eq_true, decide_eq_true_eq] at h
    have h1 : x ≠ 49 := by intro e; subst e; simp at h
    have h2 : UInt8.ofNat (x.toNat + 32) ≠ 49 := by
      intro e
      have := congrArg UInt8.toNat e
      have hlt : x.toNat + 32 < 256 := by omega
      simp [Nat.mod_eq_of_lt hlt] at this
      omega
    have e1 : (UInt8.ofNat (x.toNat + 32) == 49) = false := by simpa using h2
    have e2 : (x == 49) = false := by simpa using h1
    rw [e1, e2]
  · rfl

theorem idxOf_map_lower : ∀ (l : Bytes), (l.map Spec.toLowerB).idxOf? 49 = l.idxOf? 49 := by
  intro l
  induction l with
  | nil => rfl
  | cons x xs ih => rw [List.map_cons, List.idxOf?_cons, List.idxOf?_cons, toLower_one, ih]

theorem rfind_spec (s : Bytes) : Model.rfindOne s = Spec.lastSeparator (s.map Spec.toLowerB) := by
  unfold Model.rfindOne Spec.lastSeparator
  have : UInt8.ofNat '1'.toNat = 49 := by decide
  rw [this, ← List.map_reverse, idxOf_map_lower, List.length_map]
  rfl

theorem verify_spec (hrp values : Bytes) :
    (match Model.verifyChecksum hrp values with
     | .INVALID => none
     | e => some (variantOf e)) = Spec.bech32Verify hrp (values.map UInt8.toNat) := by
  unfold Model.verifyChecksum Spec.bech32Verify
  simp only []
  rw [polyMod_eq_spec, List.map_append, expandHRP_spec]
  generalize Spec.bech32Polymod (Spec.bech32HrpExpand hrp ++ values.map UInt8.toNat) = c
  show (match (if c == 1 then Model.Bech32Encoding.BECH32 else if c == 0x2bc830a3 then .BECH32M else .INVALID) with
      | .INVALID => none | e => some (variantOf e)) =
    (if c == 1 then some Spec.Bech32Variant.bech32 else if c == 0x2bc830a3 then some .bech32m else none)
  by_cases h1 : (c == 1) = true
  · simp [h1, variantOf]
  · by_cases h2 : (c == 0x2bc830a3) = true
    · simp [h1, h2, variantOf]
    · simp [h1, h2]

/-- `bech32::Decode` is BIP173 / BIP350's `bech32_decode`: same acceptance, same variant, same human-readable part,
    same 5-bit data -/
theorem decode_spec (s : Bytes) :
    (Model.bech32Decode s).map (fun r => (variantOf r.1, r.2.1, r.2.2.map UInt8.toNat)) = Spec.bech32Decode s := by
  unfold Model.bech32Decode Spec.bech32Decode
  rw [checkCharacters_spec]
  have hoor : (s.any fun c => decide (c.toNat < 33) || decide (c.toNat > 126)) = s.any outOfRange := rfl
  rw [hoor]
  cases h1 : s.any outOfRange with
  | true => simp
  | false =>
    cases h2 : (s.any Spec.isUpperB && s.any Spec.isLowerB) with
    | true => simp
    | false =>
      simp only [Bool.not_false, Bool.and_self, Bool.not_true, Bool.false_eq_true, ↓reduceIte]
      rw [← rfind_spec]
      cases hp : Model.rfindOne s with
      | none => simp
      | some pos =>
        simp only [List.length_map]
        have hcond : (decide (s.length > 90) || pos == 0 || decide (pos + 7 > s.length)) =
            (decide (pos < 1) || decide (pos + 7 > s.length) || decide (s.length > 90)) := by
          have : (pos == 0) = decide (pos < 1) := by
            cases pos <;> simp
          rw [this]
          cases decide (s.length > 90) <;> cases decide (pos < 1) <;> cases decide (pos + 7 > s.length) <;> rfl
        rw [hcond]
        cases hc : (decide (pos < 1) || decide (pos + 7 > s.length) || decide (s.length > 90)) with
        | true => simp
        | false =>
          simp only [Bool.false_eq_true, ↓reduceIte]
          rw [← List.map_drop, ← values_spec]
          cases hv : Model.bech32Values (s.drop (pos + 1)) with
          | none => simp
          | some values =>
            simp only [Option.map_some]
            have hhrp : (s.take pos).map Model.lowerCase = (s.map Spec.toLowerB).take pos := by
              rw [← List.map_take]
              apply List.map_congr_left
              intro c _
              exact lowerCase_spec c
            rw [← hhrp, ← verify_spec]
            cases Model.verifyChecksum ((s.take pos).map Model.lowerCase) values with
            | INVALID => rfl
            | BECH32 => simp [variantOf, List.map_take]
            | BECH32M => simp [variantOf, List.map_take]

end Btcdeb.Bech32
