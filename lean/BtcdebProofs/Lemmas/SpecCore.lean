/-
  For legacy and segwit-v0 scripts the specification's execution reads and writes only the "core" of its
  state (stacks, conditional nesting, operation count, script-code start): the opcode position, the code
  separator position and the tapscript signature budget are carried along but never looked at.
  (Needed because the debugger keeps counting opcode positions across scriptSig / scriptPubKey / redeem
  script, while validation starts every script afresh.)
-/
import Btcdeb
namespace Btcdeb.Proofs.SpecCore
open Btcdeb

/-- the part of the specification state that legacy and segwit-v0 execution reads -/
def Core (st : Spec.St) := (st.stack, st.alt, st.cond, st.opCount, st.codeFrom)

/-- same error, or states with the same core -/
def ResCore (r r' : Spec.R Spec.St) : Prop :=
  match r, r' with
  | .ok s, .ok s' => Core s = Core s'
  | .error x, .error y => x = y
  | _, _ => False

theorem resCore_checkSize {s s' : Spec.St} (h : Core s = Core s') : ResCore (Spec.checkSize s) (Spec.checkSize s') := by
  simp only [Core, Prod.mk.injEq] at h
  unfold Spec.checkSize
  rw [h.1, h.2.1]
  split
  · rfl
  · simp [ResCore, Core, h]

theorem resCore_error (x : ScriptError) : ResCore (.error x) (.error x) := rfl
theorem resCore_ok {s s' : Spec.St} (h : Core s = Core s') : ResCore (.ok s) (.ok s') := h

theorem resCore_bind {α} (x : Spec.R α) (f f' : α → Spec.R Spec.St) (h : ∀ a, ResCore (f a) (f' a)) :
    ResCore (x >>= f) (x >>= f') := by
  cases x with
  | error e => rfl
  | ok a => exact h a

macro "core_step" : tactic => `(tactic| first
  | exact resCore_checkSize rfl
  | exact resCore_error _
  | exact resCore_ok rfl
  | (apply resCore_bind; intro _)
  | split)

theorem rOk_bind {α β} (a : α) (f : α → Spec.R β) : ((Except.ok a : Spec.R α) >>= f) = f a := rfl
theorem rErr_bind {α β} (x : ScriptError) (f : α → Spec.R β) : ((Except.error x : Spec.R α) >>= f) = .error x := rfl

/-- a signature check under BASE / WITNESS_V0 reads the script-code start only and returns the state it was given -/
theorem resCore_checkSig (cfg : Spec.Cfg) (hsv : cfg.sigversion = .BASE ∨ cfg.sigversion = .WITNESS_V0)
    (st st' : Spec.St) (hcf : st'.codeFrom = st.codeFrom) (sig key : Bytes) (f f' : Bool × Spec.St → Spec.R Spec.St)
    (h : ∀ ok, ResCore (f (ok, st)) (f' (ok, st'))) :
    ResCore (Spec.checkSig cfg st sig key >>= f) (Spec.checkSig cfg st' sig key >>= f') := by
  unfold Spec.checkSig
  rw [hcf]
  by_cases hm : Spec.mockHit cfg sig key = true
  · simp only [hm, if_true]
    exact h true
  · simp only [hm, Bool.false_eq_true, if_false]
    rcases hsv with h1 | h1 <;> rw [h1] <;> simp only [bind_assoc, pure_bind, rOk_bind, rErr_bind] <;>
    (repeat' first
      | exact h _
      | exact resCore_error _
      | simp only [bind_assoc, pure_bind, rOk_bind, rErr_bind]
      | split
      | (apply resCore_bind; intro _))


macro "core_loop" : tactic => `(tactic| repeat' first
  | exact resCore_checkSize rfl
  | exact resCore_error _
  | exact resCore_ok rfl
  | simp only [bind_assoc, pure_bind, rOk_bind, rErr_bind]
  | split
  | (apply resCore_bind; intro _))


theorem resCore_ite (c : Prop) [Decidable c] (a b a' b' : Spec.R Spec.St) (h1 : c → ResCore a a') (h2 : ¬c → ResCore b b') :
    ResCore (if c then a else b) (if c then a' else b') := by
  split
  · exact h1 ‹_›
  · exact h2 ‹_›

macro "core_loop" : tactic => `(tactic| repeat' first
  | exact resCore_checkSize rfl
  | exact resCore_error _
  | exact resCore_ok rfl
  | (apply resCore_ite <;> intro _)
  | (apply resCore_bind; intro _)
  | split)

theorem resCore_execMultisig (cfg : Spec.Cfg) (rm verify : Bool)
    (s al : List Bytes) (c : List Bool) (o : Nat) (cf : Bytes) (a a' : Nat) (w w' : Int) (wi wi' : Bool) :
    ResCore (Spec.execMultisig cfg rm verify ⟨s, al, c, o, cf, a, w, wi⟩)
      (Spec.execMultisig cfg rm verify ⟨s, al, c, o, cf, a', w', wi'⟩) := by
  unfold Spec.execMultisig
  simp only [rErr_bind, rOk_bind, pure_bind]
  core_loop

theorem resCore_execExtended (rm : Bool) (op : Opcode)
    (s al : List Bytes) (c : List Bool) (o : Nat) (cf : Bytes) (a a' : Nat) (w w' : Int) (wi wi' : Bool) :
    ResCore (Spec.execExtended rm op ⟨s, al, c, o, cf, a, w, wi⟩)
      (Spec.execExtended rm op ⟨s, al, c, o, cf, a', w', wi'⟩) := by
  unfold Spec.execExtended
  simp only [rErr_bind, rOk_bind, pure_bind]
  core_loop


set_option hygiene false in
macro "core_loop2" : tactic => `(tactic| repeat' first
  | exact resCore_checkSize rfl
  | exact resCore_error _
  | exact resCore_ok rfl
  | exact resCore_execMultisig _ _ _ _ _ _ _ _ _ _ _ _ _ _
  | exact resCore_execExtended _ _ _ _ _ _ _ _ _ _ _ _ _
  | (apply resCore_checkSig _ hsv _ _ ?_ <;> first | exact rfl | (intro _; dsimp only))
  | (apply resCore_ite <;> intro _)
  | (apply resCore_bind; intro _)
  | split)

set_option maxHeartbeats 1000000 in
/-- one executed opcode: the outcome depends on the core of the state only (legacy / segwit v0) -/
theorem resCore_execOp (cfg : Spec.Cfg) (hsv : cfg.sigversion = .BASE ∨ cfg.sigversion = .WITNESS_V0)
    (op : Opcode) (ex : Bool) (after : Bytes) (pos pos' : Nat)
    (s al : List Bytes) (c : List Bool) (o : Nat) (cf : Bytes) (a a' : Nat) (w w' : Int) (wi wi' : Bool) :
    ResCore (Spec.execOp cfg op ex after pos ⟨s, al, c, o, cf, a, w, wi⟩)
      (Spec.execOp cfg op ex after pos' ⟨s, al, c, o, cf, a', w', wi'⟩) := by
  cases op <;>
  simp only [Spec.execOp, Spec.disabled, Spec.smallInt, Spec.isNopN, Spec.isUnary, Spec.isBinary,
    Bool.false_eq_true, if_false, if_true, rErr_bind, rOk_bind, pure_bind] <;>
  core_loop2


theorem resCore_countOp (cfg : Spec.Cfg) (opcode : Nat) (st st' : Spec.St) (h : Core st = Core st') :
    ResCore (Spec.countOp cfg opcode st) (Spec.countOp cfg opcode st') := by
  have h' := h
  simp only [Core, Prod.mk.injEq] at h'
  unfold Spec.countOp
  rw [h'.2.2.2.1]
  split
  · split
    · exact resCore_error _
    · apply resCore_ok; simp [Core, h']
  · exact resCore_ok h

/-- relational bind: related results, related continuations -/
theorem resCore_bind2 (x x' : Spec.R Spec.St) (f f' : Spec.St → Spec.R Spec.St) (hx : ResCore x x')
    (h : ∀ s s', Core s = Core s' → ResCore (f s) (f' s')) : ResCore (x >>= f) (x' >>= f') := by
  cases x with
  | error e => cases x' with
    | error e' => exact hx
    | ok s' => exact hx.elim
  | ok s => cases x' with
    | error e' => exact hx.elim
    | ok s' => exact h s s' hx

/-- one instruction: the outcome depends on the core of the state only (legacy / segwit v0), whatever the
    opcode position -/
theorem resCore_execInstr (cfg : Spec.Cfg) (hsv : cfg.sigversion = .BASE ∨ cfg.sigversion = .WITNESS_V0)
    (i : Spec.Instr) (after : Bytes) (pos pos' : Nat) (st st' : Spec.St) (h : Core st = Core st') :
    ResCore (Spec.execInstr cfg i after pos st) (Spec.execInstr cfg i after pos' st') := by
  have h' := h
  simp only [Core, Prod.mk.injEq] at h'
  unfold Spec.execInstr
  simp only
  rw [h'.2.2.1]
  apply resCore_ite <;> intro _
  · exact resCore_error _
  · apply resCore_bind2 _ _ _ _ (resCore_countOp cfg i.opcode st st' h)
    intro s s' hs
    have hs' := hs
    simp only [Core, Prod.mk.injEq] at hs'
    apply resCore_ite <;> intro _
    · exact resCore_error _
    · apply resCore_ite <;> intro _
      · exact resCore_error _
      · apply resCore_ite <;> intro _
        · apply resCore_ite <;> intro _
          · exact resCore_error _
          · apply resCore_checkSize; simp [Core, hs']
        · apply resCore_ite <;> intro _
          · obtain ⟨s1, s2, s3, s4, s5, s6, s7, s8⟩ := s
            obtain ⟨t1, t2, t3, t4, t5, t6, t7, t8⟩ := s'
            simp only at hs'
            obtain ⟨rfl, rfl, rfl, rfl, rfl⟩ := hs'
            exact resCore_execOp cfg hsv _ _ _ _ _ _ _ _ _ _ _ _ _ _ _ _
          · exact resCore_checkSize hs

/-- a whole instruction list -/
theorem resCore_evalInstrs (cfg : Spec.Cfg) (hsv : cfg.sigversion = .BASE ∨ cfg.sigversion = .WITNESS_V0) :
    ∀ (l : List (Spec.Instr × Bytes)) (pos pos' : Nat) (st st' : Spec.St), Core st = Core st' →
      ResCore (Spec.evalInstrs cfg l pos st).2 (Spec.evalInstrs cfg l pos' st').2
  | [], _, _, _, _, h => h
  | (i, after) :: rest, pos, pos', st, st', h => by
    have h1 := resCore_execInstr cfg hsv i after pos pos' st st' h
    simp only [Spec.evalInstrs]
    cases hx : Spec.execInstr cfg i after pos st with
    | error e =>
      cases hy : Spec.execInstr cfg i after pos' st' with
      | error e' => rw [hx, hy] at h1; exact h1
      | ok s' => rw [hx, hy] at h1; exact h1.elim
    | ok s =>
      cases hy : Spec.execInstr cfg i after pos' st' with
      | error e' => rw [hx, hy] at h1; exact h1.elim
      | ok s' =>
        rw [hx, hy] at h1
        exact resCore_evalInstrs cfg hsv rest (pos + 1) (pos' + 1) s s' h1

/-- the specification's evaluation of a script from a given opcode position and state (the body of
    `Spec.evalScript` after the size check) -/
def evalFrom (cfg : Spec.Cfg) (script : Bytes) (pos : Nat) (st : Spec.St) : Spec.R Spec.St :=
  let d := Spec.decodePrefix script.length script
  match (Spec.evalInstrs cfg d.1 pos st).2 with
  | .error e => .error e
  | .ok st' =>
    if !d.2 then .error .BAD_OPCODE
    else if !st'.cond.isEmpty then .error .UNBALANCED_CONDITIONAL
    else .ok st'

theorem evalScript_result (cfg : Spec.Cfg) (script : Bytes) (st0 : Spec.St) :
    (Spec.evalScript cfg script st0).result =
      if (cfg.sigversion == .BASE || cfg.sigversion == .WITNESS_V0) && script.length > Spec.maxScriptSize then .error .SCRIPT_SIZE
      else evalFrom cfg script 0 { st0 with codeFrom := script } := by
  unfold Spec.evalScript evalFrom
  split
  · rfl
  · simp only
    cases (Spec.evalInstrs cfg (Spec.decodePrefix script.length script).1 0 { st0 with codeFrom := script }).2 with
    | error e => rfl
    | ok st' =>
      simp only
      split
      · rfl
      · split <;> rfl

/-- **position independence**: for legacy and segwit-v0 scripts the evaluation of a script depends on the core
    of the start state only -/
theorem resCore_evalFrom (cfg : Spec.Cfg) (hsv : cfg.sigversion = .BASE ∨ cfg.sigversion = .WITNESS_V0)
    (script : Bytes) (pos pos' : Nat) (st st' : Spec.St) (h : Core st = Core st') :
    ResCore (evalFrom cfg script pos st) (evalFrom cfg script pos' st') := by
  have h1 := resCore_evalInstrs cfg hsv (Spec.decodePrefix script.length script).1 pos pos' st st' h
  unfold evalFrom
  simp only
  cases hx : (Spec.evalInstrs cfg (Spec.decodePrefix script.length script).1 pos st).2 with
  | error e =>
    cases hy : (Spec.evalInstrs cfg (Spec.decodePrefix script.length script).1 pos' st').2 with
    | error e' => rw [hx, hy] at h1; exact h1
    | ok s' => rw [hx, hy] at h1; exact h1.elim
  | ok s =>
    cases hy : (Spec.evalInstrs cfg (Spec.decodePrefix script.length script).1 pos' st').2 with
    | error e' => rw [hx, hy] at h1; exact h1.elim
    | ok s' =>
      rw [hx, hy] at h1
      have h1' := h1
      simp only [ResCore, Core, Prod.mk.injEq] at h1'
      simp only
      rw [h1'.2.2.1]
      apply resCore_ite <;> intro _
      · exact resCore_error _
      · apply resCore_ite <;> intro _
        · exact resCore_error _
        · exact resCore_ok h1

end Btcdeb.Proofs.SpecCore
