/-
  The tapscript signature-budget flag `m_validation_weight_left_init` is never changed by an operation
  (so the `assert` on it in `EvalChecksigTapscript` can only fire if the session was set up without it).
-/
import Btcdeb
import BtcdebProofs.Lemmas.Frame
namespace Btcdeb.Model
open Btcdeb

/-- `m`, if it succeeds, leaves `execdata.weightInit` as it is in `e` -/
def KeepsWI (m : M SEE) (e : SEE) : Prop := ∀ e', m = .ok e' → e'.execdata.weightInit = e.execdata.weightInit

theorem kwi_bind {α} (x : M α) (f : α → M SEE) (e : SEE) (h : ∀ a, KeepsWI (f a) e) : KeepsWI (x >>= f) e := by
  intro e' he
  cases x with
  | error _ => cases he
  | ok a => exact h a e' he
theorem kwi_bind_post {α} (x : M α) (f : α → M SEE) (e : SEE) (Q : α → Prop) (hx : Post x Q)
    (h : ∀ a, Q a → KeepsWI (f a) e) : KeepsWI (x >>= f) e := by
  intro e' he
  cases hxa : x with
  | error _ => rw [hxa] at he; cases he
  | ok a => rw [hxa] at he; exact h a (hx a hxa) e' he
theorem kwi_fail (x : ScriptError) (e : SEE) : KeepsWI (fail x) e := by intro e' he; cases he
theorem kwi_error (x : StepErr) (e : SEE) : KeepsWI (.error x) e := by intro e' he; cases he
theorem kwi_ite (c : Prop) [Decidable c] (a b : M SEE) (e : SEE) (ha : KeepsWI a e) (hb : KeepsWI b e) :
    KeepsWI (if c then a else b) e := by
  split <;> assumption
theorem kwi_sizeCheck (e1 e : SEE) (h : e1.execdata.weightInit = e.execdata.weightInit) : KeepsWI (sizeCheck e1) e := by
  intro e' he
  unfold sizeCheck at he
  split at he
  · cases he
  · cases he; exact h
theorem kwi_pure (e1 e : SEE) (h : e1.execdata.weightInit = e.execdata.weightInit) : KeepsWI (pure e1) e := by
  intro e' he; cases he; exact h

set_option hygiene false in
macro "kwi" : tactic => `(tactic|
  repeat (first
    | (apply kwi_fail)
    | (apply kwi_error)
    | (apply kwi_sizeCheck; rfl)
    | (apply kwi_pure; rfl)
    | (apply kwi_ite)
    | (apply kwi_bind; intro _)
    ))

theorem evalChecksigTapscript_wi (cx : Ctx) (e : SEE) (sig key : Bytes) :
    Post (evalChecksigTapscript cx e sig key) (fun r => r.2.weightInit = e.execdata.weightInit) := by
  intro r hr
  unfold evalChecksigTapscript at hr
  simp only [bind, Except.bind, pure, Except.pure, fail] at hr
  repeat' (split at hr)
  all_goals (first | (cases hr; done) | (cases hr; rfl))

theorem evalChecksig_wi (cx : Ctx) (e : SEE) (sig key : Bytes) :
    Post (evalChecksig cx e sig key) (fun r => r.2.weightInit = e.execdata.weightInit) := by
  intro r hr
  unfold evalChecksig at hr
  simp only [bind, Except.bind, pure, Except.pure, fail] at hr
  split at hr
  · cases hr; rfl
  · split at hr
    · repeat' (split at hr)
      all_goals (first | (cases hr; done) | (cases hr; rfl))
    · repeat' (split at hr)
      all_goals (first | (cases hr; done) | (cases hr; rfl))
    · repeat' (split at hr)
      all_goals (first | (cases hr; done) | (cases hr; rfl))
    · exact evalChecksigTapscript_wi cx e sig key r hr

theorem stepExtended_kwi (e : SEE) (op : Opcode) : KeepsWI (stepExtended e op) e := by
  cases op <;> simp only [stepExtended] <;> kwi

set_option hygiene false in
macro "kwi_sig" : tactic => `(tactic|
  repeat (first
    | (apply kwi_fail)
    | (apply kwi_error)
    | (apply kwi_sizeCheck; first | rfl | assumption)
    | (apply kwi_pure; first | rfl | assumption)
    | (apply kwi_ite)
    | (apply kwi_bind_post _ _ _ _ (evalChecksig_wi _ _ _ _); intro _ _)
    | (apply kwi_bind; intro _)
    ))

theorem execOpcode_kwi (cx : Ctx) (e : SEE) (op : Opcode) (fExec : Bool) (pc : Bytes) :
    KeepsWI (execOpcode cx e op fExec pc) e := by
  cases op
  case OP_CHECKSIG => simp only [execOpcode]; kwi_sig
  case OP_CHECKSIGVERIFY => simp only [execOpcode]; kwi_sig
  case OP_CHECKSIGADD => simp only [execOpcode]; kwi_sig
  all_goals (simp only [execOpcode]; first | exact stepExtended_kwi e _ | kwi)

theorem countOp_kwi (e : SEE) (n : Nat) : KeepsWI (countOp e n) e := by
  unfold countOp; kwi

/-- a successful `StepScript` leaves the budget-initialised flag as it was -/
theorem step_weightInit (cx : Ctx) (e : SEE) (pc : Bytes) :
    Post (step cx e pc) (fun r => r.1.execdata.weightInit = e.execdata.weightInit) := by
  unfold step
  simp only []
  split
  · exact post_fail _ _
  · refine post_ite _ _ _ _ (post_fail _ _) ?_
    refine post_bind (Q := fun e1 : SEE => e1.execdata.weightInit = e.execdata.weightInit) (countOp_kwi e _) ?_
    intro e1 h1
    refine post_ite _ _ _ _ (post_fail _ _) ?_
    refine post_ite _ _ _ _ (post_fail _ _) ?_
    refine post_ite _ _ _ _ ?_ ?_
    · refine post_ite _ _ _ _ (post_fail _ _) ?_
      refine post_bind (Q := fun e2 : SEE => e2.execdata.weightInit = e.execdata.weightInit) ?_ ?_
      · rw [← h1]; exact kwi_sizeCheck _ e1 rfl
      · intro e2 h2; exact post_pure _ _ h2
    · refine post_ite _ _ _ _ ?_ ?_
      · refine post_bind (Q := fun e2 : SEE => e2.execdata.weightInit = e.execdata.weightInit) ?_ ?_
        · rw [← h1]; exact execOpcode_kwi cx e1 _ _ _
        · intro e2 h2; exact post_pure _ _ h2
      · refine post_bind (Q := fun e2 : SEE => e2.execdata.weightInit = e.execdata.weightInit) ?_ ?_
        · rw [← h1]; exact kwi_sizeCheck _ e1 rfl
        · intro e2 h2; exact post_pure _ _ h2

end Btcdeb.Model
