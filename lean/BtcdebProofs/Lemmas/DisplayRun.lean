/-
  The states `runOps` lists (Refine/Run.lean) are the states a fresh session reaches by 1, 2, 3, … steps
  (`C04.advance`), and the end-of-script step only sets the `done` flag: the link between the refinement theorem
  `C01_trace` (stated on `runOps`) and histories over {step, rewind} (`C04_rewind_exact`, stated on `advance`).
-/
import Btcdeb
import BtcdebProofs.Refine.Run
import BtcdebProofs.Properties.C01
import BtcdebProofs.Properties.C04
namespace Btcdeb.Display
open Btcdeb Btcdeb.Model Btcdeb.Refine Btcdeb.Proofs

/-- the fields an operation step leaves alone -/
def SamePhase (a b : IEnv) : Prop :=
  b.tce = a.tce ∧ b.done = a.done ∧ b.isP2sh = a.isP2sh ∧ b.successor = a.successor

theorem stepSession_op_keeps (cx : Ctx) (tc : TapCtx) (e e' : IEnv) (ht : e.tce = none) (hp : e.pc.isEmpty = false)
    (h : stepSession cx tc e = .ok e') : SamePhase e e' := by
  rw [stepSession_op cx tc e ht hp] at h
  cases hs : step cx e.see e.pc with
  | error x => rw [hs] at h; cases h
  | ok r =>
    rw [hs] at h
    simp only [ok_bind, pure, Except.pure, Except.ok.injEq] at h
    subst h
    exact ⟨rfl, rfl, rfl, rfl⟩

/-- the list `runOps` produces is a chain of successful operation steps starting at `e`, all in the phase of `e`;
    its outcome is the last state of the chain, or the error of the step tried there -/
theorem runOps_chain (cx : Ctx) (tc : TapCtx) : ∀ (fuel : Nat) (e : IEnv), e.tce = none →
    (∀ x ∈ (runOps cx tc fuel e).1, SamePhase e x) ∧
    (∀ (k : Nat) (a b : IEnv), (e :: (runOps cx tc fuel e).1)[k]? = some a → (runOps cx tc fuel e).1[k]? = some b →
       stepSession cx tc a = .ok b ∧ a.pc.isEmpty = false) ∧
    (∀ e', (runOps cx tc fuel e).2 = .ok e' → (e :: (runOps cx tc fuel e).1)[(runOps cx tc fuel e).1.length]? = some e') ∧
    (∀ x, (runOps cx tc fuel e).2 = .error x →
       ∃ a, (e :: (runOps cx tc fuel e).1)[(runOps cx tc fuel e).1.length]? = some a ∧ stepSession cx tc a = .error x) := by
  intro fuel
  induction fuel with
  | zero => intro e _; simp [runOps]
  | succ n ih =>
    intro e ht
    by_cases hpc : e.pc.isEmpty = true
    · simp [runOps, hpc]
    · have hpc' : e.pc.isEmpty = false := by simpa using hpc
      cases hs : stepSession cx tc e with
      | error x =>
        have hr : runOps cx tc (n + 1) e = ([], .error x) := by simp [runOps, hpc', hs]
        rw [hr]
        refine ⟨by simp, by simp, by simp, ?_⟩
        intro y hy
        simp only [Except.error.injEq] at hy
        subst hy
        exact ⟨e, by simp, hs⟩
      | ok e1 =>
        have hr : runOps cx tc (n + 1) e = (e1 :: (runOps cx tc n e1).1, (runOps cx tc n e1).2) := by
          simp [runOps, hpc', hs]
        have hk := stepSession_op_keeps cx tc e e1 ht hpc' hs
        obtain ⟨i1, i2, i3, i4⟩ := ih e1 (by rw [hk.1, ht])
        rw [hr]
        refine ⟨?_, ?_, ?_, ?_⟩
        · intro x hx
          simp only [List.mem_cons] at hx
          rcases hx with rfl | hx
          · exact hk
          · obtain ⟨a1, a2, a3, a4⟩ := i1 x hx
            exact ⟨a1.trans hk.1, a2.trans hk.2.1, a3.trans hk.2.2.1, a4.trans hk.2.2.2⟩
        · intro k a b ha hb
          cases k with
          | zero =>
            simp only [List.getElem?_cons_zero, Option.some.injEq] at ha hb
            subst ha; subst hb
            exact ⟨hs, hpc'⟩
          | succ k =>
            simp only [List.getElem?_cons_succ] at ha hb
            exact i2 k a b ha hb
        · intro e' he'
          simpa using i3 e' he'
        · intro x hx
          simpa using i4 x hx

theorem advance_succ_none (cx : Ctx) (tc : TapCtx) (e0 : IEnv) (k : Nat) (h : C04.advance cx tc e0 k = none) :
    C04.advance cx tc e0 (k + 1) = none := by
  simp [C04.advance, h]

/-- a session whose script phase is a plain one-script run (no commitment phase, no hand-over pending): the state
    after `k` steps is entry `k` of the chain `e0 :: runOps …` as long as that has one, the state after one more
    step is the last entry with the `done` flag set, and there is no further step -/
theorem advance_runOps (cx : Ctx) (tc : TapCtx) (fuel : Nat) (e0 : IEnv) (ht : e0.tce = none)
    (hp : e0.isP2sh = false) (hsu : e0.successor = [])
    (hfin : ∀ e', (runOps cx tc fuel e0).2 = .ok e' → e'.pc = []) :
    ∀ k e, C04.advance cx tc e0 k = some e →
      (k ≤ (runOps cx tc fuel e0).1.length ∧ (e0 :: (runOps cx tc fuel e0).1)[k]? = some e) ∨
      (k = (runOps cx tc fuel e0).1.length + 1 ∧
        ∃ e', (runOps cx tc fuel e0).2 = .ok e' ∧ e = { e' with done := true }) := by
  obtain ⟨c1, c2, c3, c4⟩ := runOps_chain cx tc fuel e0 ht
  intro k
  induction k with
  | zero =>
    intro e he
    simp only [C04.advance, Option.some.injEq] at he
    subst he
    exact Or.inl ⟨Nat.zero_le _, by simp⟩
  | succ k ih =>
    intro e he
    cases hk : C04.advance cx tc e0 k with
    | none => rw [advance_succ_none cx tc e0 k hk] at he; cases he
    | some ek =>
      simp only [C04.advance, hk] at he
      by_cases hd : ek.done = true
      · simp [hd] at he
      · simp only [hd, Bool.false_eq_true, if_false] at he
        cases hs : stepSession cx tc ek with
        | error x => simp [hs] at he
        | ok e1 =>
          simp only [hs, Option.some.injEq] at he
          subst he
          rcases ih ek hk with ⟨hle, hget⟩ | ⟨_, e', _, hek⟩
          · by_cases hlt : k < (runOps cx tc fuel e0).1.length
            · -- inside the chain
              have hb : (runOps cx tc fuel e0).1[k]? = some ((runOps cx tc fuel e0).1[k]) := List.getElem?_eq_getElem hlt
              have := (c2 k ek _ hget hb).1
              rw [hs] at this
              have he1 := Except.ok.inj this
              refine Or.inl ⟨by omega, ?_⟩
              rw [List.getElem?_cons_succ, hb, he1]
            · -- at the end of the chain
              have hkeq : k = (runOps cx tc fuel e0).1.length := by omega
              cases hr : (runOps cx tc fuel e0).2 with
              | error x =>
                obtain ⟨a, ha, hsa⟩ := c4 x hr
                rw [← hkeq, hget] at ha
                have := Option.some.inj ha
                subst this
                rw [hs] at hsa; cases hsa
              | ok e' =>
                have ha := c3 e' hr
                rw [← hkeq, hget] at ha
                have := Option.some.inj ha
                subst this
                have hpc := hfin ek hr
                -- `ek` is `e0` or one of the chain: same phase as `e0`
                have hph : ek.tce = none ∧ ek.isP2sh = false ∧ ek.successor = [] := by
                  cases k with
                  | zero =>
                    simp only [List.getElem?_cons_zero, Option.some.injEq] at hget
                    subst hget; exact ⟨ht, hp, hsu⟩
                  | succ j =>
                    simp only [List.getElem?_cons_succ] at hget
                    have hm := c1 ek (List.mem_of_getElem? hget)
                    exact ⟨hm.1.trans ht, hm.2.2.1.trans hp, hm.2.2.2.trans hsu⟩
                refine Or.inr ⟨by omega, ek, rfl, ?_⟩
                unfold stepSession at hs
                simp only [hph.1, hpc, List.isEmpty_nil, Bool.not_true, Bool.false_eq_true, if_false, hph.2.1,
                  hph.2.2] at hs
                split at hs
                · cases hs
                · rw [← Except.ok.inj hs]; cases ek; simp_all
          · -- the session had ended: no further step
            subst hek
            simp at hd


/-- the session `setup_environment` produces represents the specification's initial state -/
theorem setup_rel (stack : List Bytes) (script : Bytes) (flags : Nat) (sv : SigVersion) (z : Bool) (ed : ExecData)
    (pm : List (Bytes × Bytes)) (pk : List Bytes) (e0 : IEnv)
    (hsetup : setupEnvironment stack script flags sv [] z ed none pm pk = .ok e0) :
    Rel e0.see (C01.initSt stack script ed) ∧ e0.pc = script ∧ e0.tce = none ∧ e0.successor = [] := by
  unfold setupEnvironment IEnv.init at hsetup
  split at hsetup
  · cases hsetup
  · rename_i e hinit
    split at hinit
    · cases hinit
    · cases hinit
      simp only [List.isEmpty_nil, Bool.not_true, Bool.false_and, Bool.false_eq_true, if_false] at hsetup
      split at hsetup
      · cases hsetup
      · cases hsetup
        refine ⟨?_, rfl, rfl, rfl⟩
        constructor <;> simp [C01.initSt, condRel_empty]

theorem forall2_imp {α β} {R S : α → β → Prop} (h : ∀ a b, R a b → S a b) :
    ∀ {as : List α} {bs : List β}, Forall2 R as bs → Forall2 S as bs
  | _, _, .nil => .nil
  | _, _, .cons hab rest => .cons (h _ _ hab) (forall2_imp h rest)

theorem forall2_getElem? {α β} {R : α → β → Prop} : ∀ {as : List α} {bs : List β}, Forall2 R as bs →
    as.length = bs.length ∧ ∀ (k : Nat) (a : α), as[k]? = some a → ∃ b, bs[k]? = some b ∧ R a b
  | _, _, .nil => ⟨rfl, fun k a h => by simp at h⟩
  | _, _, .cons hab rest => by
    obtain ⟨hl, hg⟩ := forall2_getElem? rest
    refine ⟨by simp [hl], ?_⟩
    intro k a h
    cases k with
    | zero => simp only [List.getElem?_cons_zero, Option.some.injEq] at h; subst h; exact ⟨_, by simp, hab⟩
    | succ k => simp only [List.getElem?_cons_succ] at h ⊢; exact hg k a h

end Btcdeb.Display
