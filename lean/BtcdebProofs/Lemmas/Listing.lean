/-
  Helper lemmas for C12: the model's instruction listing (`decodeFrom`, `getOp`) against the
  specification's (`planFrom`, `decodeOne`); positions reached by decoding `k` instructions.
-/
import Btcdeb
import BtcdebProofs.Refine.Step
import BtcdebProofs.Lemmas.Session
namespace Btcdeb.Model
open Btcdeb

/-- a model line seen as a line of the execution plan (the section label is dropped) -/
def Line.plan (l : Line) : Spec.PlanLine := ⟨l.kind == .header, l.offset, l.text⟩

/-- the position reached from `s` by decoding `k` instructions -/
def advanceOps : Nat → Bytes → Option Bytes
  | 0, s => some s
  | k + 1, s => match getOp s with
    | some g => advanceOps k g.rest
    | none => none

theorem decodeFrom_some {pc : Bytes} {g : GotOp} (h : getOp pc = some g) :
    decodeFrom pc = (pc.length, g) :: decodeFrom g.rest := by
  rw [decodeFrom]; split
  · rename_i h'; rw [h] at h'; cases h'
  · rename_i g' h'; rw [h] at h'; cases h'; rfl

theorem decodeFrom_none {pc : Bytes} (h : getOp pc = none) : decodeFrom pc = [] := by
  rw [decodeFrom]; split
  · rfl
  · rename_i g' h'; rw [h] at h'; cases h'

theorem opText_instrText (g : GotOp) : Spec.instrText ⟨g.opcode, g.data⟩ = opText g := by
  unfold Spec.instrText opText opNameOf
  cases hd : g.data with
  | nil => simp
  | cons a b => simp

/-- the specification's plan of a script suffix is the model's decoding of it -/
theorem planFrom_eq (total : Nat) : ∀ (fuel : Nat) (s : Bytes), s.length ≤ fuel →
    Spec.planFrom total fuel s = (decodeFrom s).map (fun p => (⟨false, total - p.1, opText p.2⟩ : Spec.PlanLine)) := by
  intro fuel
  induction fuel with
  | zero =>
    intro s hs
    have : s = [] := List.length_eq_zero_iff.mp (by omega)
    subst this
    rw [decodeFrom_none (by rfl)]; rfl
  | succ fuel ih =>
    intro s hs
    have hgo := Refine.getOp_decodeOne s
    simp only [Spec.planFrom]
    cases hg : getOp s with
    | none =>
      rw [hg] at hgo; simp only [Option.map_none] at hgo
      rw [← hgo, decodeFrom_none hg]; rfl
    | some g =>
      rw [hg] at hgo; simp only [Option.map_some] at hgo
      rw [← hgo, decodeFrom_some hg]
      have hlt := getOp_rest_lt hg
      simp only [List.map_cons]
      rw [ih g.rest (by omega), opText_instrText]

theorem planOf_eq (s : Bytes) :
    Spec.planOf s = (decodeFrom s).map (fun p => (⟨false, s.length - p.1, opText p.2⟩ : Spec.PlanLine)) :=
  planFrom_eq s.length s.length s (Nat.le_refl _)

theorem opLines_plan (sect : Sect) (s : Bytes) : (opLines sect s).map Line.plan = Spec.planOf s := by
  rw [planOf_eq, opLines, List.map_map]
  apply List.map_congr_left
  intro p _
  simp [Line.plan]

/-- decoding `k` instructions splits the listing of the script -/
theorem decodeFrom_advance : ∀ (k : Nat) (s pc : Bytes), advanceOps k s = some pc →
    ∃ pre, decodeFrom s = pre ++ decodeFrom pc ∧ pre.length = k := by
  intro k
  induction k with
  | zero => intro s pc h; simp [advanceOps] at h; subst h; exact ⟨[], rfl, rfl⟩
  | succ k ih =>
    intro s pc h
    simp only [advanceOps] at h
    cases hg : getOp s with
    | none => simp [hg] at h
    | some g =>
      simp only [hg] at h
      obtain ⟨pre, h1, h2⟩ := ih g.rest pc h
      exact ⟨(s.length, g) :: pre, by rw [decodeFrom_some hg, h1]; rfl, by simp [h2]⟩

theorem advanceOps_succ {k : Nat} {s pc : Bytes} {g : GotOp} (h : advanceOps k s = some pc) (hg : getOp pc = some g) :
    advanceOps (k + 1) s = some g.rest := by
  induction k generalizing s with
  | zero => simp [advanceOps] at h; subst h; simp [advanceOps, hg]
  | succ k ih =>
    simp only [advanceOps] at h ⊢
    cases hs : getOp s with
    | none => simp [hs] at h
    | some g' => simp only [hs] at h ⊢; exact ih h

theorem advanceOps_length {k : Nat} {s pc : Bytes} (h : advanceOps k s = some pc) : pc.length + k ≤ s.length := by
  induction k generalizing s with
  | zero => simp [advanceOps] at h; subst h; omega
  | succ k ih =>
    simp only [advanceOps] at h
    cases hs : getOp s with
    | none => simp [hs] at h
    | some g => simp only [hs] at h; have := ih h; have := getOp_rest_lt hs; omega


theorem byteAt_eq (s : Bytes) (i v : Nat) (hv : 0 < v) (hv2 : v < 256) :
    (byteAt s i == v) = (s[i]? == some (UInt8.ofNat v)) := by
  unfold byteAt
  cases h : s[i]? with
  | none => simp; omega
  | some b =>
    simp only [Option.map_some, Option.getD_some]
    by_cases hb : b.toNat = v
    · have : b = UInt8.ofNat v := by apply UInt8.toNat_inj.mp; simp [hb]; omega
      subst this; simp; omega
    · have : ¬ b = UInt8.ofNat v := by intro hc; apply hb; rw [hc]; simp; omega
      have h1 : (b.toNat == v) = false := by simpa using hb
      have h2 : (some b == some (UInt8.ofNat v)) = false := by simpa using this
      rw [h1, h2]

/-- the session's P2SH test (interpreter.cpp:102-108, 221-227) is the flag and `IsPayToScriptHash`,
    which is what the listing construction tests (btcdeb.cpp:314) -/
theorem p2shPattern_eq (flags : Nat) (s : Bytes) :
    p2shPattern flags s = (hasFlag flags Flag.P2SH && isPayToScriptHash s) := by
  unfold p2shPattern isPayToScriptHash
  rw [byteAt_eq s 0 _ (by decide) (by decide), byteAt_eq s 1 20 (by decide) (by decide), byteAt_eq s 22 _ (by decide) (by decide)]
  simp [Bool.and_assoc, Op.OP_HASH160, Op.OP_EQUAL]

/-- a successful operation executed exactly the instruction decoded at the position, and the new
    position is the one behind it -/
theorem step_getOp (cx : Ctx) (e : SEE) (pc : Bytes) :
    Post (step cx e pc) (fun r => ∃ g, getOp pc = some g ∧ r.2 = g.rest) := by
  unfold step
  simp only []
  split
  · exact post_fail _ _
  · rename_i g hg
    refine post_ite _ _ _ _ (post_fail _ _) ?_
    refine post_bind' ?_
    intro e1
    refine post_ite _ _ _ _ (post_fail _ _) ?_
    refine post_ite _ _ _ _ (post_fail _ _) ?_
    refine post_ite _ _ _ _ ?_ ?_
    · refine post_ite _ _ _ _ (post_fail _ _) ?_
      refine post_bind' ?_; intro e2; exact post_pure _ _ ⟨g, hg, rfl⟩
    · refine post_ite _ _ _ _ ?_ ?_
      · refine post_bind' ?_; intro e2; exact post_pure _ _ ⟨g, hg, rfl⟩
      · refine post_bind' ?_; intro e2; exact post_pure _ _ ⟨g, hg, rfl⟩

theorem countOp_keeps_stack (e e1 : SEE) (opcode : Nat) (h : countOp e opcode = .ok e1) :
    e1.stack = e.stack ∧ e1.cond = e.cond := by
  unfold countOp at h
  split at h
  · split at h
    · split at h
      · cases h
      · cases h; exact ⟨rfl, rfl⟩
    · cases h; exact ⟨rfl, rfl⟩
  · cases h; exact ⟨rfl, rfl⟩

/-- an executed data push appends its data to the stack and leaves the conditional state alone -/
theorem step_push (cx : Ctx) (e e' : SEE) (pc pc' : Bytes) (g : GotOp) (hs : step cx e pc = .ok (e', pc'))
    (hg : getOp pc = some g) (hall : e.cond.allTrue = true) (hop : g.opcode ≤ Op.OP_PUSHDATA4) :
    e'.stack = e.stack ++ [g.data] ∧ e'.cond = e.cond := by
  unfold step at hs
  simp only [hg] at hs
  split at hs
  · cases hs
  · cases hc : countOp e g.opcode with
    | error x => simp [hc, bind, Except.bind] at hs
    | ok e1 =>
      obtain ⟨hk1, hk2⟩ := countOp_keeps_stack e e1 _ hc
      simp only [hc, bind, Except.bind] at hs
      split at hs
      · cases hs
      · split at hs
        · cases hs
        · have hcond : (e.cond.allTrue && decide (g.opcode ≤ Op.OP_PUSHDATA4)) = true := by simp [hall, hop]
          simp only [hcond, if_true] at hs
          split at hs
          · cases hs
          · unfold sizeCheck at hs
            split at hs
            · cases hs
            · rename_i v heq
              split at heq
              · cases heq
              · cases heq
                cases hs
                simp [hk1, hk2]

theorem sizeCheck_ok {e e' : SEE} (h : sizeCheck e = .ok e') : e' = e := by
  unfold sizeCheck at h
  split at h
  · cases h
  · cases h; rfl

/-- an executed push-only instruction (`opcode ≤ OP_16`) appends its payload to the stack and leaves the
    conditional state alone; `OP_RESERVED` never succeeds -/
theorem step_smallint (cx : Ctx) (e e' : SEE) (pc pc' : Bytes) (g : GotOp) (hs : step cx e pc = .ok (e', pc'))
    (hg : getOp pc = some g) (hall : e.cond.allTrue = true) (hlo : Op.OP_PUSHDATA4 < g.opcode) (hop : g.opcode ≤ Op.OP_16) :
    e'.stack = e.stack ++ [payloadOf g] ∧ e'.cond = e.cond := by
  unfold step at hs
  simp only [hg] at hs
  split at hs
  · cases hs
  · cases hc : countOp e g.opcode with
    | error x => simp [hc, bind, Except.bind] at hs
    | ok e1 =>
      obtain ⟨hk1, hk2⟩ := countOp_keeps_stack e e1 _ hc
      simp only [hc, bind, Except.bind] at hs
      split at hs
      · cases hs
      · split at hs
        · cases hs
        · have hc1 : ¬ ((e.cond.allTrue && decide (g.opcode ≤ Op.OP_PUSHDATA4)) = true) := by
            simp only [hall, Bool.true_and, decide_eq_true_eq]; omega
          rw [if_neg hc1, if_pos (by simp [hall])] at hs
          have hcases : g.opcode = 79 ∨ g.opcode = 80 ∨ g.opcode = 81 ∨ g.opcode = 82 ∨ g.opcode = 83 ∨ g.opcode = 84 ∨ g.opcode = 85 ∨
              g.opcode = 86 ∨ g.opcode = 87 ∨ g.opcode = 88 ∨ g.opcode = 89 ∨ g.opcode = 90 ∨ g.opcode = 91 ∨ g.opcode = 92 ∨
              g.opcode = 93 ∨ g.opcode = 94 ∨ g.opcode = 95 ∨ g.opcode = 96 := by
            simp only [Op.OP_PUSHDATA4, Op.OP_16] at hlo hop; omega
          rcases hcases with h | h | h | h | h | h | h | h | h | h | h | h | h | h | h | h | h | h <;>
          · simp only [h, Opcode.ofNat, execOpcode] at hs
            try simp only [bind, Except.bind] at hs
            first
            | (simp [fail] at hs; done)
            | (cases hsz : sizeCheck _ with
               | error x => rw [hsz] at hs; simp at hs
               | ok e2 =>
                 rw [hsz] at hs
                 have := sizeCheck_ok hsz
                 simp only [pure, Except.pure] at hs
                 cases hs
                 subst this
                 simp only [payloadOf, h, hk1, hk2, Op.OP_1, Op.OP_16, Op.OP_1NEGATE]
                 refine ⟨?_, trivial⟩
                 congr 2
                 simp
                 decide +kernel)

/-- an executed instruction of a push-only script appends its payload to the stack -/
theorem step_pushonly (cx : Ctx) (e e' : SEE) (pc pc' : Bytes) (g : GotOp) (hs : step cx e pc = .ok (e', pc'))
    (hg : getOp pc = some g) (hall : e.cond.allTrue = true) (hop : g.opcode ≤ Op.OP_16) :
    e'.stack = e.stack ++ [payloadOf g] ∧ e'.cond = e.cond := by
  by_cases hlo : g.opcode ≤ Op.OP_PUSHDATA4
  · have := step_push cx e e' pc pc' g hs hg hall hlo
    have hp : payloadOf g = g.data := by
      unfold payloadOf
      simp only [Op.OP_PUSHDATA4, Op.OP_1, Op.OP_16, Op.OP_1NEGATE] at hlo ⊢
      have h1 : ¬ (81 ≤ g.opcode) := by omega
      have h2 : ¬ (g.opcode = 79) := by omega
      simp [h1, h2]
    rw [hp]; exact this
  · exact step_smallint cx e e' pc pc' g hs hg hall (by omega) hop

/-- `IsPushOnly`: every instruction has an opcode up to `OP_16` -/
theorem isPushOnly_ops : ∀ (n : Nat) (s : Bytes), s.length ≤ n → isPushOnly s = true → ∀ p ∈ decodeFrom s, p.2.opcode ≤ Op.OP_16 := by
  intro n
  induction n with
  | zero =>
    intro s hs _ p hp
    have : s = [] := List.length_eq_zero_iff.mp (by omega)
    subst this
    rw [decodeFrom_none (by rfl)] at hp; cases hp
  | succ n ih =>
    intro s hs hv p hp
    rw [isPushOnly] at hv
    split at hv
    · rename_i hnone; rw [decodeFrom_none hnone] at hp; cases hp
    · rename_i g hg
      rw [decodeFrom_some hg] at hp
      split at hv
      · cases hv
      · rename_i hle
        rcases List.mem_cons.mp hp with rfl | hp'
        · simp only; omega
        · exact ih g.rest (by have := getOp_rest_lt hg; omega) hv p hp'

end Btcdeb.Model
