/-
  Helper lemmas for C12: the model's instruction listing (`decodeFrom`, `getOp`) against the
  specification's (`planFrom`, `decodeOne`); positions reached by decoding `k` instructions.
-/
import Btcdeb
import BtcdebProofs.Refine.Step
import BtcdebProofs.Lemmas.Session
namespace Btcdeb.Model
open Btcdeb

/-- a model line seen as a line of the execution plan (the section label is dropped) -/
def Line.plan (l : Line) : Spec.PlanLine := ⟨l.kind == .header, l.offset, l.text⟩

/-- the position reached from `s` by decoding `k` instructions -/
def advanceOps : Nat → Bytes → Option Bytes
  | 0, s => some s
  | k + 1, s => match getOp s with
    | some g => advanceOps k g.rest
    | none => none

theorem decodeFrom_some {pc : Bytes} {g : GotOp} (h : getOp pc = some g) :
    decodeFrom pc = (pc.length, g) :: decodeFrom g.rest := by
  rw [decodeFrom]; split
  · rename_i h'; rw [h] at h'; cases h'
  · rename_i g' h'; rw [h] at h'; cases h'; rfl

theorem decodeFrom_none {pc : Bytes} (h : getOp pc = none) : decodeFrom pc = [] := by
  rw [decodeFrom]; split
  · rfl
  · rename_i g' h'; rw [h] at h'; cases h'

theorem opText_instrText (g : GotOp) : Spec.instrText ⟨g.opcode, g.data⟩ = opText g := by
  unfold Spec.instrText opText opNameOf
  cases hd : g.data with
  | nil => simp
  | cons a b => simp

/-- the specification's plan of a script suffix is the model's decoding of it -/
theorem planFrom_eq (total : Nat) : ∀ (fuel : Nat) (s : Bytes), s.length ≤ fuel →
    Spec.planFrom total fuel s = (decodeFrom s).map (fun p => (⟨false, total - p.1, opText p.2⟩ : Spec.PlanLine)) := by
  intro fuel
  induction fuel with
  | zero =>
    intro s hs
    have : s = [] := List.length_eq_zero_iff.mp (by omega)
    subst this
    rw [decodeFrom_none (by rfl)]; rfl
  | succ fuel ih =>
    intro s hs
    have hgo := Refine.getOp_decodeOne s
    simp only [Spec.planFrom]
    cases hg : getOp s with
    | none =>
      rw [hg] at hgo; simp only [Option.map_none] at hgo
      rw [← hgo, decodeFrom_none hg]; rfl
    | some g =>
      rw [hg] at hgo; simp only [Option.map_some] at hgo
      rw [← hgo, decodeFrom_some hg]
      have hlt := getOp_rest_lt hg
      simp only [List.map_cons]
      rw [ih g.rest (by omega), opText_instrText]

theorem planOf_eq (s : Bytes) :
    Spec.planOf s = (decodeFrom s).map (fun p => (⟨false, s.length - p.1, opText p.2⟩ : Spec.PlanLine)) :=
  planFrom_eq s.length s.length s (Nat.le_refl _)

theorem opLines_plan (sect : Sect) (s : Bytes) : (opLines sect s).map Line.plan = Spec.planOf s := by
  rw [planOf_eq, opLines, List.map_map]
  apply List.map_congr_left
  intro p _
  simp [Line.plan]

/-- decoding `k` instructions splits the listing of the script -/
theorem decodeFrom_advance : ∀ (k : Nat) (s pc : Bytes), advanceOps k s = some pc →
    ∃ pre, decodeFrom s = pre ++ decodeFrom pc ∧ pre.length = k := by
  intro k
  induction k with
  | zero => intro s pc h; simp [advanceOps] at h; subst h; exact ⟨[], rfl, rfl⟩
  | succ k ih =>
    intro s pc h
    simp only [advanceOps] at h
    cases hg : getOp s with
    | none => simp [hg] at h
    | some g =>
      simp only [hg] at h
      obtain ⟨pre, h1, h2⟩ := ih g.rest pc h
      exact ⟨(s.length, g) :: pre, by rw [decodeFrom_some hg, h1]; rfl, by simp [h2]⟩

theorem advanceOps_succ {k : Nat} {s pc : Bytes} {g : GotOp} (h : advanceOps k s = some pc) (hg : getOp pc = some g) :
    advanceOps (k + 1) s = some g.rest := by
  induction k generalizing s with
  | zero => simp [advanceOps] at h; subst h; simp [advanceOps, hg]
  | succ k ih =>
    simp only [advanceOps] at h ⊢
    cases hs : getOp s with
    | none => simp [hs] at h
    | some g' => simp only [hs] at h ⊢; exact ih h

theorem advanceOps_length {k : Nat} {s pc : Bytes} (h : advanceOps k s = some pc) : pc.length + k ≤ s.length := by
  induction k generalizing s with
  | zero => simp [advanceOps] at h; subst h; omega
  | succ k ih =>
    simp only [advanceOps] at h
    cases hs : getOp s with
    | none => simp [hs] at h
    | some g => simp only [hs] at h; have := ih h; have := getOp_rest_lt hs; omega


theorem byteAt_eq (s : Bytes) (i v : Nat) (hv : 0 < v) (hv2 : v < 256) :
    (byteAt s i == v) = (s[i]? == some (UInt8.ofNat v)) := by
  unfold byteAt
  cases h : s[i]? with
  | none => simp; omega
  | some b =>
    simp only [Option.map_some, Option.getD_some]
    by_cases hb : b.toNat = v
    · have : b = UInt8.ofNat v := by apply UInt8.toNat_inj.mp; simp [hb]; omega
      subst this; simp; omega
    · have : ¬ b = UInt8.ofNat v := by intro hc; apply hb; rw [hc]; simp; omega
      have h1 : (b.toNat == v) = false := by simpa using hb
      have h2 : (some b == some (UInt8.ofNat v)) = false := by simpa using this
      rw [h1, h2]

/-- the session's P2SH test (interpreter.cpp:102-108, 221-227) is the flag and `IsPayToScriptHash`,
    which is what the listing construction tests (btcdeb.cpp:314) -/
theorem p2shPattern_eq (flags : Nat) (s : Bytes) :
    p2shPattern flags s = (hasFlag flags Flag.P2SH && isPayToScriptHash s) := by
  unfold p2shPattern isPayToScriptHash
  rw [byteAt_eq s 0 _ (by decide) (by decide), byteAt_eq s 1 20 (by decide) (by decide), byteAt_eq s 22 _ (by decide) (by decide)]
  simp [Bool.and_assoc, Op.OP_HASH160, Op.OP_EQUAL]

theorem hexChars_length (d : Bytes) : (d.flatMap hexOfByte).length = 2 * d.length := by
  induction d with
  | nil => rfl
  | cons b t ih => simp [List.flatMap_cons, hexOfByte, ih]; omega

theorem toHex_length (d : Bytes) : (toHex d).toList.length = 2 * d.length := by
  unfold toHex
  rw [String.toList_ofList, hexChars_length]

/-- every name in the implementation's opcode-name table is short -/
theorem names_short : Gen.opName.all (fun s => decide (s.toList.length ≤ 30)) = true := by decide +kernel

theorem opNameOf_short (n : Nat) : (opNameOf n).toList.length ≤ 30 := by
  unfold opNameOf
  by_cases h : n < Gen.opName.length
  · have hm : Gen.opName[n] ∈ Gen.opName := List.getElem_mem h
    have := List.all_eq_true.mp names_short _ hm
    simpa [List.getD, List.getElem?_eq_getElem h] using this
  · simp [List.getD, List.getElem?_eq_none (by omega : Gen.opName.length ≤ n)]

theorem cutLimit_ge (i : Nat) : 1029 ≤ cutLimit i := by
  unfold cutLimit numberPrefix pad4
  simp only [List.length_cons, List.length_append, List.length_replicate, List.length_nil]
  omega

theorem cutLine_id (i : Nat) (l : Line) (h : l.kind = .op → l.text.toList.length ≤ 1029) : cutLine i l = l := by
  unfold cutLine
  cases hk : l.kind with
  | op =>
    simp only
    have := h hk
    have hc := cutLimit_ge i
    unfold cutText
    rw [List.take_of_length_le (by omega), String.ofList_toList]
    cases l; simp_all
  | desc => rfl
  | header => rfl

/-- when no instruction text exceeds 1029 characters nothing is cut -/
theorem cutAll_id : ∀ (ls : List Line) (i : Nat), (∀ l ∈ ls, l.kind = .op → l.text.toList.length ≤ 1029) → cutAll i ls = ls := by
  intro ls
  induction ls with
  | nil => intro i _; rfl
  | cons l t ih =>
    intro i h
    simp only [cutAll]
    rw [cutLine_id i l (h l (by simp)), ih (i + 1) (fun x hx => h x (by simp [hx]))]

/-- a successful operation executed exactly the instruction decoded at the position, and the new
    position is the one behind it -/
theorem step_getOp (cx : Ctx) (e : SEE) (pc : Bytes) :
    Post (step cx e pc) (fun r => ∃ g, getOp pc = some g ∧ r.2 = g.rest) := by
  unfold step
  simp only []
  split
  · exact post_fail _ _
  · rename_i g hg
    refine post_ite _ _ _ _ (post_fail _ _) ?_
    refine post_bind' ?_
    intro e1
    refine post_ite _ _ _ _ (post_fail _ _) ?_
    refine post_ite _ _ _ _ (post_fail _ _) ?_
    refine post_ite _ _ _ _ ?_ ?_
    · refine post_ite _ _ _ _ (post_fail _ _) ?_
      refine post_bind' ?_; intro e2; exact post_pure _ _ ⟨g, hg, rfl⟩
    · refine post_ite _ _ _ _ ?_ ?_
      · refine post_bind' ?_; intro e2; exact post_pure _ _ ⟨g, hg, rfl⟩
      · refine post_bind' ?_; intro e2; exact post_pure _ _ ⟨g, hg, rfl⟩

theorem countOp_keeps (e e1 : SEE) (opcode : Nat) (h : countOp e opcode = .ok e1) :
    e1.stack = e.stack ∧ e1.cond = e.cond := by
  unfold countOp at h
  split at h
  · split at h
    · split at h
      · cases h
      · cases h; exact ⟨rfl, rfl⟩
    · cases h; exact ⟨rfl, rfl⟩
  · cases h; exact ⟨rfl, rfl⟩

/-- an executed data push appends its data to the stack and leaves the conditional state alone -/
theorem step_push (cx : Ctx) (e e' : SEE) (pc pc' : Bytes) (g : GotOp) (hs : step cx e pc = .ok (e', pc'))
    (hg : getOp pc = some g) (hall : e.cond.allTrue = true) (hop : g.opcode ≤ Op.OP_PUSHDATA4) :
    e'.stack = e.stack ++ [g.data] ∧ e'.cond = e.cond := by
  unfold step at hs
  simp only [hg] at hs
  split at hs
  · cases hs
  · cases hc : countOp e g.opcode with
    | error x => simp [hc, bind, Except.bind] at hs
    | ok e1 =>
      obtain ⟨hk1, hk2⟩ := countOp_keeps e e1 _ hc
      simp only [hc, bind, Except.bind] at hs
      split at hs
      · cases hs
      · split at hs
        · cases hs
        · have hcond : (e.cond.allTrue && decide (g.opcode ≤ Op.OP_PUSHDATA4)) = true := by simp [hall, hop]
          simp only [hcond, if_true] at hs
          split at hs
          · cases hs
          · unfold sizeCheck at hs
            split at hs
            · cases hs
            · rename_i v heq
              split at heq
              · cases heq
              · cases heq
                cases hs
                simp [hk1, hk2]

end Btcdeb.Model
