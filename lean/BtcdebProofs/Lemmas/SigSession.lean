/-
  Whole sessions depend on their checker only through the queries they make (continuation of Lemmas/SigOps.lean).

  `runOps_congr` is about the operations of one script.  A session (`continueScript` = repeated `StepScript(InterpreterEnv&)`)
  is a sequence of phases: [taproot commitment] → script → [hand-over to the scriptPubKey → script] → [hand-over to the
  P2SH redeem script → script] → done.  Only the operation steps consult the checker; the hand-over steps re-establish
  the invariant `RunInv` for the next script, provided the scriptPubKey decodes and the redeem script decodes.

    continueScript_congr_of   generic: an invariant under which single steps agree gives equal sessions
    SessInv                   the invariant (signature version fixed and not the key-path context, static execution data,
                              current script code / position / successor decode, the saved P2SH redeem script decodes)
    session_congr             sessions under two checkers that agree on the queries (`SameOn`) are equal, for every fuel
                              (`_single`: no successor script; `_nop2sh`: scriptPubKey not of the P2SH pattern;
                              `_reach`: the redeem script handed over to decodes, as a hypothesis on the visited states)
    keypath_congr             the key-path session `<program> OP_CHECKSIG` (TAPROOT): its only query is one Schnorr check
    OpsPath, reach_opsPath    states that still have their successor script are reached by operation steps only, so the
                              hand-over state is the end of `runOps` (used to state the redeem condition on the spec side)
    runOps_unparsed_err       a script that is not a sequence of complete instructions fails whatever the checker says
-/
import BtcdebProofs.Lemmas.SigOps
import BtcdebProofs.Lemmas.Phases
import BtcdebProofs.Lemmas.Tce
namespace Btcdeb.Proofs.SigOps
open Btcdeb Btcdeb.Model Btcdeb.Refine Btcdeb.Proofs.Sighash Btcdeb.Proofs.Phases

set_option linter.unusedSimpArgs false
set_option linter.unusedVariables false

/-- sessions from states satisfying an invariant under which single steps agree are equal, for every fuel -/
theorem continueScript_congr_of (cx cx' : Ctx) (tc : TapCtx) (I : IEnv → Prop)
    (hstep : ∀ e, I e → e.done = false → stepSession cx tc e = stepSession cx' tc e)
    (hpres : ∀ e e', I e → e.done = false → stepSession cx' tc e = .ok e' → I e') :
    ∀ (n : Nat) (e : IEnv), I e → continueScript cx tc n e = continueScript cx' tc n e := by
  intro n
  induction n with
  | zero => intro e _; rfl
  | succ n ih =>
    intro e hi
    by_cases hd : e.done = true
    · rw [continue_done cx tc _ e hd, continue_done cx' tc _ e hd]
    · have hd' : e.done = false := by simpa using hd
      rw [continue_succ cx tc n e hd', continue_succ cx' tc n e hd', hstep e hi hd']
      cases hs : stepSession cx' tc e with
      | error x => rfl
      | ok e' => exact ih e' (hpres e e' hi hd' hs)

/-- a script that may become the current script decodes and is below 2^32 bytes -/
def ScriptOk (r : Bytes) : Prop := Parses r ∧ r.length < 2 ^ 32

/-- the invariant of a session (any phase) under which its operation steps only make queries covered by `SameOn` -/
structure SessInv (e : IEnv) (sv : SigVersion) (s0 : EdStatic) : Prop where
  sigver : e.see.sigversion = sv
  notKey : sv ≠ .TAPROOT
  static : edStatic e.see.execdata = s0
  /-- during the commitment phase the leaf hash that its last step stores is the one already in the execution data -/
  tce : ∀ t, e.tce = some t → t.leaf = e.see.execdata.tapleafHash ∧ e.see.execdata.tapleafHashInit = true
  code : sv = .BASE → Spec.decode e.see.pbegincodehash ≠ none ∧ e.see.pbegincodehash.length < 2 ^ 32
  pc : Parses e.pc
  len : sv = .BASE → e.pc.length < 2 ^ 32
  succ : Parses e.successor
  /-- a saved redeem script that can still be handed over to decodes -/
  redeem : e.isP2sh = true → ∀ r, e.p2shStack.getLast? = some r →
    (e.sigscriptExecuted && !e.sigscriptPushonly) = true ∨ ScriptOk r

theorem SessInv.runInv {e : IEnv} {sv : SigVersion} {s0 : EdStatic} (h : SessInv e sv s0) : RunInv e s0 :=
  ⟨⟨by rw [h.sigver]; exact h.notKey, by rw [h.sigver]; exact h.code, h.static⟩, h.pc, by rw [h.sigver]; exact h.len⟩

/-- single steps agree -/
theorem stepSession_congr {cx cx' : Ctx} (tc : TapCtx) {e : IEnv} {sv : SigVersion} {s0 : EdStatic}
    (hsame : SameOn cx cx' sv s0) (hi : SessInv e sv s0) : stepSession cx tc e = stepSession cx' tc e := by
  cases ht : e.tce with
  | some t => unfold stepSession; simp only [ht]
  | none =>
    by_cases hp : e.pc.isEmpty = true
    · unfold stepSession
      simp only [ht, hp, Bool.not_true, Bool.false_eq_true, if_false]
    · have hne : e.pc.isEmpty = false := by simpa using hp
      rw [stepSession_op cx tc e ht hne, stepSession_op cx' tc e ht hne,
        step_congr (by rw [hi.sigver]; exact hsame) hi.runInv.sig]

theorem parses_nil : Parses [] := Parses.nil

/-- the invariant survives every step, given that at the hand-over to a P2SH-pattern scriptPubKey after a push-only
    scriptSig the top stack element (the future redeem script) decodes (`hO`, about the states satisfying `J`) -/
theorem sessInv_step {cx' : Ctx} (tc : TapCtx) {e e' : IEnv} {sv : SigVersion} {s0 : EdStatic} (hi : SessInv e sv s0)
    (hO : e.tce = none → e.pc = [] → e.successor ≠ [] → e.see.cond.empty = true → p2shPattern e.see.flags e.successor = true →
      isPushOnly e.see.script = true → ∀ r, e.see.stack.getLast? = some r → ScriptOk r)
    (hs : stepSession cx' tc e = .ok e') : SessInv e' sv s0 := by
  cases ht : e.tce with
  | some t =>
    obtain ⟨hl, hinit⟩ := hi.tce t ht
    have hleaf := (Btcdeb.Proofs.Tce.iterate_frame tc t).2.2.2.2.2.2
    unfold stepSession at hs
    simp only [ht] at hs
    cases hit : t.iterate tc with
    | mk state t1 =>
      rw [hit] at hs hleaf
      simp only at hleaf
      cases state with
      | failed => simp at hs
      | processing =>
        simp only [pure, Except.pure, Except.ok.injEq] at hs
        subst hs
        exact ⟨hi.sigver, hi.notKey, hi.static, (fun t' ht' => by
          simp only [Option.some.injEq] at ht'; subst ht'; rw [hleaf]; exact ⟨hl, hinit⟩),
          hi.code, hi.pc, hi.len, hi.succ, hi.redeem⟩
      | done =>
        simp only [pure, Except.pure, Except.ok.injEq] at hs
        subst hs
        refine ⟨hi.sigver, hi.notKey, ?_, (fun t' ht' => by simp at ht'), hi.code, hi.pc, hi.len, hi.succ, hi.redeem⟩
        rw [← hi.static]
        simp only [edStatic, hleaf, hl, hinit]
  | none =>
    by_cases hp : e.pc.isEmpty = true
    · have hpc : e.pc = [] := by simpa using hp
      unfold stepSession at hs
      simp only [ht, hp, Bool.not_true, Bool.false_eq_true, if_false] at hs
      split at hs
      · simp [fail] at hs
      · rename_i hce
        split at hs
        · -- P2SH hand-over
          rename_i hisp
          split at hs
          · simp [fail] at hs
          · rename_i top htop
            split at hs
            · simp [fail] at hs
            · split at hs
              · split at hs
                · simp [fail] at hs
                · rename_i hnpo
                  split at hs
                  · simp [fail] at hs
                  · rename_i redeem hred
                    simp only [pure, Except.pure, Except.ok.injEq] at hs
                    subst hs
                    have hok : ScriptOk redeem := by
                      rcases hi.redeem hisp redeem hred with h | h
                      · exact absurd h hnpo
                      · exact h
                    exact ⟨hi.sigver, hi.notKey, hi.static, (fun t' ht' => by first | cases ht' | (have h2 : e.tce = some t' := ht'; rw [ht] at h2; cases h2)),
                      fun _ => ⟨decode_of_parses hok.1, hok.2⟩, hok.1, fun _ => hok.2, hi.succ,
                      fun h => by cases h⟩
              · simp [fail] at hs
        · rename_i hisp
          split at hs
          · -- hand-over to the successor
            rename_i hsne
            split at hs
            · simp [fail] at hs
            · rename_i hsz
              simp only [pure, Except.pure, Except.ok.injEq] at hs
              subst hs
              have hsucc : e.successor ≠ [] := by
                intro h; rw [h] at hsne; simp at hsne
              have h10k : Gen.MAX_SCRIPT_SIZE = 10000 := by decide
              have hlen : e.successor.length < 2 ^ 32 := by
                have : ¬ e.successor.length > 10000 := by rw [← h10k]; exact hsz
                omega
              refine ⟨hi.sigver, hi.notKey, hi.static, (fun t' ht' => by first | cases ht' | (have h2 : e.tce = some t' := ht'; rw [ht] at h2; cases h2)),
                fun _ => ⟨decode_of_parses hi.succ, hlen⟩, hi.succ, fun _ => hlen, parses_nil, ?_⟩
              intro hp2 r hr
              simp only at hp2 hr
              rw [hp2] at hr
              simp only [if_true] at hr
              simp only [Bool.true_and]
              cases hpo : isPushOnly e.see.script
              · left; rfl
              · right; exact hO ht hpc hsucc (by simpa using hce) hp2 hpo r hr
          · -- done
            simp only [pure, Except.pure, Except.ok.injEq] at hs
            subst hs
            exact ⟨hi.sigver, hi.notKey, hi.static, (fun t' ht' => by cases ht'), hi.code, hi.pc, hi.len, hi.succ, hi.redeem⟩
    · have hne : e.pc.isEmpty = false := by simpa using hp
      obtain ⟨see', pc', hst, he'⟩ := stepSession_op_ok ht hne hs
      obtain ⟨h1, h2, h3, h4⟩ := step_runInv cx' e s0 hi.runInv see' pc' hst
      subst he'
      refine ⟨by show see'.sigversion = sv; rw [h4]; exact hi.sigver, hi.notKey, h1.static,
        (fun t' ht' => by first | cases ht' | (have h2 : e.tce = some t' := ht'; rw [ht] at h2; cases h2)), ?_, h2, ?_, hi.succ, hi.redeem⟩
      · intro hb
        exact h1.code (by rw [h4, hi.sigver]; exact hb)
      · intro hb
        have := hi.len hb
        show pc'.length < _
        omega

/-- **Whole session.**  Two checkers that agree on the queries of a session (`SameOn`) give the same session, step by
    step and for every fuel, from any state satisfying `SessInv` — given an invariant `J` (of the states of the session)
    that guarantees that a redeem script handed over to decodes. -/
theorem session_congr (cx cx' : Ctx) (tc : TapCtx) (sv : SigVersion) (s0 : EdStatic) (hsame : SameOn cx cx' sv s0)
    (J : IEnv → Prop)
    (hJ : ∀ e e', J e → SessInv e sv s0 → e.done = false → stepSession cx' tc e = .ok e' → J e')
    (hO : ∀ e, J e → SessInv e sv s0 → e.tce = none → e.pc = [] → e.successor ≠ [] → e.see.cond.empty = true →
      p2shPattern e.see.flags e.successor = true → isPushOnly e.see.script = true →
      ∀ r, e.see.stack.getLast? = some r → ScriptOk r) :
    ∀ (n : Nat) (e : IEnv), J e → SessInv e sv s0 → continueScript cx tc n e = continueScript cx' tc n e := by
  intro n e hj hi
  refine continueScript_congr_of cx cx' tc (fun e => J e ∧ SessInv e sv s0) ?_ ?_ n e ⟨hj, hi⟩
  · intro e ⟨_, hi⟩ _
    exact stepSession_congr tc hsame hi
  · intro e e' ⟨hj, hi⟩ hd hs
    exact ⟨hJ e e' hj hi hd hs, sessInv_step tc hi (hO e hj hi) hs⟩

/-- what a step leaves of the flags and the successor script: the flags stay, the successor stays or is consumed -/
theorem stepSession_flags_succ {cx : Ctx} (tc : TapCtx) {e e' : IEnv} (hs : stepSession cx tc e = .ok e') :
    e'.see.flags = e.see.flags ∧ (e'.successor = e.successor ∨ e'.successor = []) := by
  cases ht : e.tce with
  | some t =>
    unfold stepSession at hs
    simp only [ht] at hs
    cases hit : t.iterate tc with
    | mk state t1 =>
      rw [hit] at hs
      cases state with
      | failed => simp at hs
      | processing => simp only [pure, Except.pure, Except.ok.injEq] at hs; subst hs; exact ⟨rfl, Or.inl rfl⟩
      | done => simp only [pure, Except.pure, Except.ok.injEq] at hs; subst hs; exact ⟨rfl, Or.inl rfl⟩
  | none =>
    by_cases hp : e.pc.isEmpty = true
    · unfold stepSession at hs
      simp only [ht, hp, Bool.not_true, Bool.false_eq_true, if_false] at hs
      repeat' split at hs
      all_goals first
        | (simp [fail] at hs; done)
        | (simp only [pure, Except.pure, Except.ok.injEq] at hs; subst hs; exact ⟨rfl, Or.inl rfl⟩)
        | (simp only [pure, Except.pure, Except.ok.injEq] at hs; subst hs; exact ⟨rfl, Or.inr rfl⟩)
    · have hne : e.pc.isEmpty = false := by simpa using hp
      obtain ⟨see', pc', hst, he'⟩ := stepSession_op_ok ht hne hs
      have hc := (step_conf hst).1
      simp only [conf, Prod.mk.injEq] at hc
      subst he'
      exact ⟨hc.1, Or.inl rfl⟩

/-- the states a session visits -/
inductive Reach (cx : Ctx) (tc : TapCtx) (e0 : IEnv) : IEnv → Prop
  | start : Reach cx tc e0 e0
  | step {e e' : IEnv} : Reach cx tc e0 e → e.done = false → stepSession cx tc e = .ok e' → Reach cx tc e0 e'

/-- sessions without a successor script and without a saved redeem script (all witness sessions) -/
theorem session_congr_single (cx cx' : Ctx) (tc : TapCtx) (sv : SigVersion) (s0 : EdStatic) (hsame : SameOn cx cx' sv s0)
    (n : Nat) (e : IEnv) (hi : SessInv e sv s0) (hs : e.successor = []) :
    continueScript cx tc n e = continueScript cx' tc n e := by
  refine session_congr cx cx' tc sv s0 hsame (fun e => e.successor = []) ?_ ?_ n e hs hi
  · intro e e' hj _ _ hst
    rcases (stepSession_flags_succ tc hst).2 with h | h
    · rw [h]; exact hj
    · exact h
  · intro e hj _ _ _ hne
    exact absurd hj hne

theorem p2shPattern_nil (flags : Nat) : p2shPattern flags [] = false := by
  simp [p2shPattern]

/-- sessions whose successor script (the scriptPubKey) is not of the P2SH pattern under the session's flags -/
theorem session_congr_nop2sh (cx cx' : Ctx) (tc : TapCtx) (sv : SigVersion) (s0 : EdStatic) (hsame : SameOn cx cx' sv s0)
    (n : Nat) (e : IEnv) (hi : SessInv e sv s0) (hs : p2shPattern e.see.flags e.successor = false) :
    continueScript cx tc n e = continueScript cx' tc n e := by
  refine session_congr cx cx' tc sv s0 hsame (fun e => p2shPattern e.see.flags e.successor = false) ?_ ?_ n e hs hi
  · intro e e' hj _ _ hst
    obtain ⟨hf, h⟩ := stepSession_flags_succ tc hst
    rcases h with h | h
    · show p2shPattern e'.see.flags e'.successor = false
      rw [hf, h]; exact hj
    · show p2shPattern e'.see.flags e'.successor = false
      rw [h]; exact p2shPattern_nil _
  · intro e hj _ _ _ _ _ hp
    rw [hj] at hp; cases hp

/-- general form: the hand-over obligation is a hypothesis about the states the (second) session visits -/
theorem session_congr_reach (cx cx' : Ctx) (tc : TapCtx) (sv : SigVersion) (s0 : EdStatic) (hsame : SameOn cx cx' sv s0)
    (e0 : IEnv) (hi : SessInv e0 sv s0)
    (hO : ∀ e, Reach cx' tc e0 e → e.tce = none → e.pc = [] → e.successor ≠ [] → e.see.cond.empty = true →
      p2shPattern e.see.flags e.successor = true → isPushOnly e.see.script = true →
      ∀ r, e.see.stack.getLast? = some r → ScriptOk r) (n : Nat) :
    continueScript cx tc n e0 = continueScript cx' tc n e0 := by
  refine session_congr cx cx' tc sv s0 hsame (Reach cx' tc e0) ?_ ?_ n e0 Reach.start hi
  · intro e e' hj _ hd hst
    exact Reach.step hj hd hst
  · intro e hj _
    exact hO e hj

/-! ### the key-path session: `<program> OP_CHECKSIG` under `SigVersion::TAPROOT` -/

/-- a push instruction never reaches the checker -/
theorem step_push_congr (cx cx' : Ctx) (e : SEE) (pc : Bytes) (g : GotOp) (hg : getOp pc = some g)
    (hle : g.opcode ≤ Op.OP_PUSHDATA4) : step cx e pc = step cx' e pc := by
  unfold step
  simp only [hg]
  split
  · rfl
  · refine bind_congr_post (fun _ => True) (fun _ _ => trivial) (fun e1 _ => ?_)
    split
    · rfl
    · split
      · rfl
      · by_cases hf : e.cond.allTrue = true
        · simp only [hf, hle, decide_true, Bool.true_and, if_true]
        · have hf' : e.cond.allTrue = false := by simpa using hf
          have h1 : ¬ (Op.OP_IF ≤ g.opcode) := by
            have : Op.OP_PUSHDATA4 < Op.OP_IF := by decide
            omega
          simp only [hf', Bool.false_and, Bool.false_eq_true, if_false, h1, decide_false, Bool.false_or]

/-- OP_CHECKSIG under TAPROOT asks one Schnorr question: about the two top stack elements and the current execution data -/
theorem execOpcode_checksig_taproot_congr (cx cx' : Ctx) (e : SEE) (hsv : e.sigversion = .TAPROOT)
    (hk : ∀ sig key, top e.stack 1 = .ok key → cx.checkSchnorr sig key .TAPROOT e.execdata = cx'.checkSchnorr sig key .TAPROOT e.execdata)
    (fExec : Bool) (pc : Bytes) :
    execOpcode cx e .OP_CHECKSIG fExec pc = execOpcode cx' e .OP_CHECKSIG fExec pc := by
  simp only [execOpcode]
  split
  · rfl
  · refine bind_congr_post (fun _ => True) (fun _ _ => trivial) (fun sig _ => ?_)
    refine bind_congr_post (fun key => top e.stack 1 = .ok key) (fun key hkey => hkey) (fun key hkey => ?_)
    have : evalChecksig cx e sig key = evalChecksig cx' e sig key := by
      unfold evalChecksig
      split
      · rfl
      · simp only [hsv, hk sig key hkey]
    rw [this]

theorem step_checksig_taproot_congr (cx cx' : Ctx) (e : SEE) (rest : Bytes) (hsv : e.sigversion = .TAPROOT)
    (hk : ∀ sig key, top e.stack 1 = .ok key → cx.checkSchnorr sig key .TAPROOT e.execdata = cx'.checkSchnorr sig key .TAPROOT e.execdata) :
    step cx e (0xac :: rest) = step cx' e (0xac :: rest) := by
  have hg : getOp (0xac :: rest) = some ⟨0xac, [], rest⟩ := by
    simp [getOp, Op.OP_PUSHDATA4]
  unfold step
  simp only [hg]
  split
  · rfl
  · refine bind_congr_post (fun e1 => e1 = e ∨ e1 = { e with nOpCount := e.nOpCount + 1 }) (fun a ha => countOp_ok_cases ha) ?_
    intro e1 he1
    have h1 : execOpcode cx e1 .OP_CHECKSIG e.cond.allTrue rest = execOpcode cx' e1 .OP_CHECKSIG e.cond.allTrue rest := by
      rcases he1 with rfl | rfl
      · exact execOpcode_checksig_taproot_congr cx cx' _ hsv hk _ _
      · exact execOpcode_checksig_taproot_congr cx cx' { e with nOpCount := e.nOpCount + 1 } hsv hk _ _
    have hop : Opcode.ofNat 0xac = .OP_CHECKSIG := by decide
    simp only [hop, h1]

/-- what an executed push does -/
theorem step_push_exec {cx : Ctx} {e e' : SEE} {pc pc' : Bytes} {g : GotOp} (hg : getOp pc = some g)
    (hle : g.opcode ≤ Op.OP_PUSHDATA4) (hf : e.cond.allTrue = true) (h : step cx e pc = .ok (e', pc')) :
    pc' = g.rest ∧ e'.stack = e.stack ++ [g.data] ∧ e'.execdata = e.execdata ∧ e'.sigversion = e.sigversion := by
  unfold step at h
  simp only [hg] at h
  split at h
  · simp [fail] at h
  · cases hc : countOp e g.opcode with
    | error x => rw [hc] at h; cases h
    | ok e1 =>
      rw [hc] at h
      simp only [ok_bind] at h
      have h1 : e1.stack = e.stack ∧ e1.execdata = e.execdata ∧ e1.sigversion = e.sigversion := by
        rcases countOp_ok_cases hc with rfl | rfl <;> exact ⟨rfl, rfl, rfl⟩
      split at h
      · simp [fail] at h
      · split at h
        · simp [fail] at h
        · simp only [hf, hle, decide_true, Bool.true_and, if_true] at h
          split at h
          · simp [fail] at h
          · unfold sizeCheck at h
            split at h
            · simp [fail] at h
            · simp only [ok_bind, pure, Except.pure, Except.ok.injEq, Prod.mk.injEq] at h
              obtain ⟨h2, h3⟩ := h
              subst h2 h3
              exact ⟨rfl, by simp [h1.1], h1.2.1, h1.2.2⟩

/-- **The key-path session.**  `configure_tx_txin` turns a taproot key-path spend into the script `<program> OP_CHECKSIG`
    run under `SigVersion::TAPROOT` with the signature on the stack.  Its only question to the checker is the Schnorr
    check of a signature against the program with the execution data it was set up with; two checkers that answer that
    question alike give the same session. -/
theorem keypath_congr (cx cx' : Ctx) (tc : TapCtx) (prog : Bytes) (script : Bytes) (hscript : script = 0x20 :: (prog ++ [0xac]))
    (hg : getOp script = some ⟨0x20, prog, [0xac]⟩) (ed : ExecData)
    (hk : ∀ sig, cx.checkSchnorr sig prog .TAPROOT ed = cx'.checkSchnorr sig prog .TAPROOT ed)
    (e0 : IEnv) (h0 : e0.tce = none ∧ e0.isP2sh = false ∧ e0.successor = [] ∧ e0.pc = script ∧
      e0.see.sigversion = .TAPROOT ∧ e0.see.execdata = ed ∧ e0.see.cond.allTrue = true) (n : Nat) :
    continueScript cx tc n e0 = continueScript cx' tc n e0 := by
  let A : IEnv → Prop := fun e => e.pc = script ∧ e.see.sigversion = .TAPROOT ∧ e.see.execdata = ed ∧ e.see.cond.allTrue = true
  let B : IEnv → Prop := fun e => e.pc = [0xac] ∧ e.see.sigversion = .TAPROOT ∧ e.see.execdata = ed ∧ ∃ st, e.see.stack = st ++ [prog]
  let KP : IEnv → Prop := fun e => e.tce = none ∧ e.isP2sh = false ∧ e.successor = [] ∧ (A e ∨ B e ∨ e.pc = [])
  have hne : script.isEmpty = false := by rw [hscript]; rfl
  refine continueScript_congr_of cx cx' tc KP ?_ ?_ n e0 ⟨h0.1, h0.2.1, h0.2.2.1, Or.inl h0.2.2.2⟩
  · intro e ⟨ht, _, _, hcase⟩ _
    rcases hcase with ⟨hpc, hsv, hed, hf⟩ | ⟨hpc, hsv, hed, st, hst⟩ | hpc
    · have hp : e.pc.isEmpty = false := by rw [hpc]; exact hne
      rw [stepSession_op cx tc e ht hp, stepSession_op cx' tc e ht hp, hpc,
        step_push_congr cx cx' e.see script _ hg (by show (32 : Nat) ≤ Op.OP_PUSHDATA4; decide)]
    · have hp : e.pc.isEmpty = false := by rw [hpc]; rfl
      rw [stepSession_op cx tc e ht hp, stepSession_op cx' tc e ht hp, hpc,
        step_checksig_taproot_congr cx cx' e.see [] hsv]
      intro sig key hkey
      rw [hst, top1] at hkey
      cases hkey
      rw [hed]; exact hk sig
    · unfold stepSession
      simp only [ht, hpc, List.isEmpty_nil, Bool.not_true, Bool.false_eq_true, if_false]
  · intro e e' ⟨ht, hisp, hsucc, hcase⟩ hd hs
    rcases hcase with ⟨hpc, hsv, hed, hf⟩ | ⟨hpc, hsv, hed, st, hst⟩ | hpc
    · have hp : e.pc.isEmpty = false := by rw [hpc]; exact hne
      obtain ⟨see', pc', hstep, he'⟩ := stepSession_op_ok ht hp hs
      rw [hpc] at hstep
      obtain ⟨h1, h2, h3, h4⟩ := step_push_exec hg (by show (32 : Nat) ≤ Op.OP_PUSHDATA4; decide) hf hstep
      subst he'
      refine ⟨ht, hisp, hsucc, Or.inr (Or.inl ⟨h1, ?_, ?_, e.see.stack, h2⟩)⟩
      · show see'.sigversion = _; rw [h4]; exact hsv
      · show see'.execdata = _; rw [h3]; exact hed
    · have hp : e.pc.isEmpty = false := by rw [hpc]; rfl
      obtain ⟨see', pc', hstep, he'⟩ := stepSession_op_ok ht hp hs
      obtain ⟨⟨g, hgg, hrest⟩, _⟩ := step_kept cx' e.see e.pc _ hstep
      have hg2 : getOp e.pc = some ⟨0xac, [], []⟩ := by rw [hpc]; simp [getOp, Op.OP_PUSHDATA4]
      rw [hg2] at hgg
      cases hgg
      subst he'
      exact ⟨ht, hisp, hsucc, Or.inr (Or.inr hrest)⟩
    · unfold stepSession at hs
      simp only [ht, hpc, List.isEmpty_nil, Bool.not_true, Bool.false_eq_true, if_false, hisp, hsucc] at hs
      split at hs
      · simp [fail] at hs
      · simp only [pure, Except.pure, Except.ok.injEq] at hs
        subst hs
        exact ⟨rfl, rfl, rfl, Or.inr (Or.inr rfl)⟩

/-! ### the first phase of a session: states with a successor script are reached by operation steps only -/

/-- `b` is reached from `a` by operation steps -/
inductive OpsPath (cx : Ctx) (tc : TapCtx) : IEnv → IEnv → Prop
  | refl (e : IEnv) : OpsPath cx tc e e
  | cons {a b c : IEnv} : a.tce = none → a.pc.isEmpty = false → stepSession cx tc a = .ok b → OpsPath cx tc b c →
      OpsPath cx tc a c

theorem OpsPath.snoc {cx : Ctx} {tc : TapCtx} {a b c : IEnv} (h : OpsPath cx tc a b) (ht : b.tce = none)
    (hp : b.pc.isEmpty = false) (hs : stepSession cx tc b = .ok c) : OpsPath cx tc a c := by
  induction h with
  | refl e => exact .cons ht hp hs (.refl _)
  | cons h1 h2 h3 _ ih => exact .cons h1 h2 h3 (ih ht hp hs)

theorem OpsPath.outer {cx : Ctx} {tc : TapCtx} {a b : IEnv} (h : OpsPath cx tc a b) : outer b = outer a := by
  induction h with
  | refl e => rfl
  | @cons a b c h1 h2 h3 _ ih =>
    obtain ⟨see', pc', hst, hb⟩ := stepSession_op_ok h1 h2 h3
    have hsc := (step_conf hst).2
    rw [ih, hb]
    simp [Phases.outer, hsc]

/-- a path of operation steps that ends at the end of the script is the run of `runOps` -/
theorem OpsPath.runOps {cx : Ctx} {tc : TapCtx} {a e : IEnv} (h : OpsPath cx tc a e) (hpc : e.pc = []) :
    ∀ fuel, a.pc.length ≤ fuel → (Refine.runOps cx tc fuel a).2 = .ok e := by
  induction h with
  | refl e =>
    intro fuel _
    cases fuel with
    | zero => rfl
    | succ f => simp [Refine.runOps, hpc]
  | @cons a b c h1 h2 h3 _ ih =>
    intro fuel hf
    obtain ⟨see', pc', hst, hb⟩ := stepSession_op_ok h1 h2 h3
    have hlt := step_pc cx a.see a.pc (see', pc') hst
    simp only at hlt
    have hne : a.pc.length ≠ 0 := by
      intro h0; have := List.length_eq_zero_iff.mp h0; rw [this] at h2; cases h2
    obtain ⟨f, rfl⟩ : ∃ f, fuel = f + 1 := ⟨fuel - 1, by omega⟩
    simp only [Refine.runOps, h2, Bool.false_eq_true, if_false, h3]
    exact ih hpc f (by rw [hb]; show pc'.length ≤ f; omega)

/-- in a session that starts without commitment phase and with an empty saved stack, every visited state that still has
    its successor script is reached by operation steps only (no hand-over has happened) -/
theorem reach_opsPath {cx : Ctx} {tc : TapCtx} {e0 e : IEnv} (h : Reach cx tc e0 e) (ht0 : e0.tce = none)
    (hst0 : e0.p2shStack = []) (hsucc : e.successor ≠ []) : OpsPath cx tc e0 e := by
  induction h with
  | start => exact .refl _
  | @step a b hr hd hs ih =>
    have hsa : a.successor ≠ [] := by
      rcases (stepSession_flags_succ tc hs).2 with h | h
      · rw [← h]; exact hsucc
      · exact absurd h hsucc
    have hp := ih hsa
    have ho := hp.outer
    simp only [Phases.outer, Prod.mk.injEq] at ho
    obtain ⟨_, hisp, hps, _, _, _, htce, _⟩ := ho
    have hta : a.tce = none := by rw [htce]; exact ht0
    by_cases hpc : a.pc.isEmpty = true
    · exfalso
      have hpc' : a.pc = [] := by simpa using hpc
      have hse : a.successor.isEmpty = false := by cases h : a.successor <;> simp_all
      unfold stepSession at hs
      simp only [hta, hpc, Bool.not_true, Bool.false_eq_true, if_false] at hs
      split at hs
      · simp [fail] at hs
      · split at hs
        · -- P2SH branch: the saved stack is empty
          rw [hps, hst0] at hs
          repeat' split at hs
          all_goals first | (simp [fail] at hs; done) | (rename_i heq; simp at heq)
        · simp only [hse, Bool.not_false, if_true] at hs
          split at hs
          · simp [fail] at hs
          · simp only [pure, Except.pure, Except.ok.injEq] at hs
            subst hs
            exact hsucc rfl
    · exact hp.snoc hta (by simpa using hpc) hs

/-! ### a script that does not decode fails, whatever the checker says -/

/-- the operations of a script that is not a sequence of complete instructions end in an error: each step fails or
    moves to the next instruction, and the position where no instruction decodes is reached (`BAD_OPCODE`) -/
theorem runOps_unparsed_err (cx : Ctx) (tc : TapCtx) : ∀ (fuel : Nat) (e : IEnv), e.tce = none → ¬ Parses e.pc →
    e.pc.length ≤ fuel → ∃ x, (Refine.runOps cx tc fuel e).2 = .error x := by
  intro fuel
  induction fuel with
  | zero =>
    intro e _ hnp hl
    have h0 : e.pc = [] := List.length_eq_zero_iff.mp (by omega)
    exact absurd (by rw [h0]; exact Parses.nil) hnp
  | succ f ih =>
    intro e ht hnp hl
    have hne : e.pc.isEmpty = false := by
      cases h : e.pc with
      | nil => rw [h] at hnp; exact absurd Parses.nil hnp
      | cons _ _ => rfl
    simp only [Refine.runOps, hne, Bool.false_eq_true, if_false]
    cases hs : stepSession cx tc e with
    | error x => exact ⟨x, rfl⟩
    | ok e1 =>
      obtain ⟨see', pc', hst, he1⟩ := stepSession_op_ok ht hne hs
      obtain ⟨⟨g, hg, hrest⟩, _⟩ := step_kept cx e.see e.pc _ hst
      have hlt := step_pc cx e.see e.pc (see', pc') hst
      simp only at hlt hrest
      obtain ⟨t, hti, _, _, hdrop⟩ := getOp_some hg
      have hnp1 : ¬ Parses e1.pc := by
        intro hp1
        apply hnp
        refine Parses.step hti ?_
        rw [← hdrop, ← hrest]
        rw [he1] at hp1; exact hp1
      have := ih e1 (by rw [he1]; exact ht) hnp1 (by rw [he1]; show pc'.length ≤ f; omega)
      simpa using this

end Btcdeb.Proofs.SigOps
