/-
  The initialisation flags of `ScriptExecutionData` (`m_tapleaf_hash_init`, `m_codeseparator_pos_init`,
  `m_annex_init`, `m_validation_weight_left_init`) are never changed by an operation: a successful step only
  changes `codesepPos` and `weightLeft`.  So whatever `configure_tx_txin` / `setup_environment` initialised
  stays initialised (`EdReady` is an invariant of stepping).
-/
import Btcdeb
import BtcdebProofs.Lemmas.Frame
namespace Btcdeb.Model
open Btcdeb

/-- the initialisation flags of `ScriptExecutionData` -/
def edFlags (ed : ExecData) : Bool × Bool × Bool × Bool :=
  (ed.tapleafHashInit, ed.codesepPosInit, ed.annexInit, ed.weightInit)

/-- what the execution data of a session must satisfy, by signature version, for no assertion to fire:
    a key path session (`TAPROOT`) has the annex fields set; a tapscript session has the annex fields, the leaf
    hash, the code separator position and the signature budget set.  (`BASE` / `WITNESS_V0`: nothing.) -/
def EdReady (sv : SigVersion) (ed : ExecData) : Prop :=
  (sv = .TAPROOT → ed.annexInit = true) ∧
  (sv = .TAPSCRIPT → ed.annexInit = true ∧ ed.tapleafHashInit = true ∧ ed.codesepPosInit = true ∧ ed.weightInit = true)

theorem EdReady.of_flags {sv : SigVersion} {ed ed' : ExecData} (h : EdReady sv ed) (hf : edFlags ed' = edFlags ed) :
    EdReady sv ed' := by
  simp only [edFlags, Prod.mk.injEq] at hf
  obtain ⟨h1, h2, h3, h4⟩ := hf
  refine ⟨fun hs => by rw [h3]; exact h.1 hs, fun hs => ?_⟩
  obtain ⟨a, b, c, d⟩ := h.2 hs
  exact ⟨by rw [h3]; exact a, by rw [h1]; exact b, by rw [h2]; exact c, by rw [h4]; exact d⟩

/-! ## a successful step keeps the initialisation flags -/

/-- `m`, if it succeeds, leaves the initialisation flags of the execution data as they are in `e` -/
def KeepsEF (m : M SEE) (e : SEE) : Prop := ∀ e', m = .ok e' → edFlags e'.execdata = edFlags e.execdata

theorem kef_bind {α} (x : M α) (f : α → M SEE) (e : SEE) (h : ∀ a, KeepsEF (f a) e) : KeepsEF (x >>= f) e := by
  intro e' he
  cases x with
  | error _ => cases he
  | ok a => exact h a e' he
theorem kef_bind_post {α} (x : M α) (f : α → M SEE) (e : SEE) (Q : α → Prop) (hx : Post x Q)
    (h : ∀ a, Q a → KeepsEF (f a) e) : KeepsEF (x >>= f) e := by
  intro e' he
  cases hxa : x with
  | error _ => rw [hxa] at he; cases he
  | ok a => rw [hxa] at he; exact h a (hx a hxa) e' he
theorem kef_fail (x : ScriptError) (e : SEE) : KeepsEF (fail x) e := by intro e' he; cases he
theorem kef_error (x : StepErr) (e : SEE) : KeepsEF (.error x) e := by intro e' he; cases he
theorem kef_ite (c : Prop) [Decidable c] (a b : M SEE) (e : SEE) (ha : KeepsEF a e) (hb : KeepsEF b e) :
    KeepsEF (if c then a else b) e := by
  split <;> assumption
theorem kef_sizeCheck (e1 e : SEE) (h : edFlags e1.execdata = edFlags e.execdata) : KeepsEF (sizeCheck e1) e := by
  intro e' he
  unfold sizeCheck at he
  split at he
  · cases he
  · cases he; exact h
theorem kef_pure (e1 e : SEE) (h : edFlags e1.execdata = edFlags e.execdata) : KeepsEF (pure e1) e := by
  intro e' he; cases he; exact h

set_option hygiene false in
macro "kef" : tactic => `(tactic|
  repeat (first
    | (apply kef_fail)
    | (apply kef_error)
    | (apply kef_sizeCheck; rfl)
    | (apply kef_pure; rfl)
    | (apply kef_ite)
    | (apply kef_bind; intro _)
    ))

theorem evalChecksigTapscript_ef (cx : Ctx) (e : SEE) (sig key : Bytes) :
    Post (evalChecksigTapscript cx e sig key) (fun r => edFlags r.2 = edFlags e.execdata) := by
  intro r hr
  unfold evalChecksigTapscript at hr
  simp only [bind, Except.bind, pure, Except.pure, fail] at hr
  repeat' (split at hr)
  all_goals (first | (cases hr; done) | (cases hr; rfl))

theorem evalChecksig_ef (cx : Ctx) (e : SEE) (sig key : Bytes) :
    Post (evalChecksig cx e sig key) (fun r => edFlags r.2 = edFlags e.execdata) := by
  intro r hr
  unfold evalChecksig at hr
  simp only [bind, Except.bind, pure, Except.pure, fail] at hr
  split at hr
  · cases hr; rfl
  · split at hr
    · repeat' (split at hr)
      all_goals (first | (cases hr; done) | (cases hr; rfl))
    · repeat' (split at hr)
      all_goals (first | (cases hr; done) | (cases hr; rfl))
    · repeat' (split at hr)
      all_goals (first | (cases hr; done) | (cases hr; rfl))
    · exact evalChecksigTapscript_ef cx e sig key r hr

theorem stepExtended_kef (e : SEE) (op : Opcode) : KeepsEF (stepExtended e op) e := by
  cases op <;> simp only [stepExtended] <;> kef

set_option hygiene false in
macro "kef_sig" : tactic => `(tactic|
  repeat (first
    | (apply kef_fail)
    | (apply kef_error)
    | (apply kef_sizeCheck; first | rfl | assumption)
    | (apply kef_pure; first | rfl | assumption)
    | (apply kef_ite)
    | (apply kef_bind_post _ _ _ _ (evalChecksig_ef _ _ _ _); intro _ _)
    | (apply kef_bind; intro _)
    ))

theorem execOpcode_kef (cx : Ctx) (e : SEE) (op : Opcode) (fExec : Bool) (pc : Bytes) :
    KeepsEF (execOpcode cx e op fExec pc) e := by
  cases op
  case OP_CHECKSIG => simp only [execOpcode]; kef_sig
  case OP_CHECKSIGVERIFY => simp only [execOpcode]; kef_sig
  case OP_CHECKSIGADD => simp only [execOpcode]; kef_sig
  all_goals (simp only [execOpcode]; first | exact stepExtended_kef e _ | kef)

theorem countOp_kef (e : SEE) (n : Nat) : KeepsEF (countOp e n) e := by
  unfold countOp; kef

/-- a successful `StepScript` leaves the initialisation flags of the execution data as they were -/
theorem step_edFlags (cx : Ctx) (e : SEE) (pc : Bytes) :
    Post (step cx e pc) (fun r => edFlags r.1.execdata = edFlags e.execdata) := by
  unfold step
  simp only []
  split
  · exact post_fail _ _
  · refine post_ite _ _ _ _ (post_fail _ _) ?_
    refine post_bind (Q := fun e1 : SEE => edFlags e1.execdata = edFlags e.execdata) (countOp_kef e _) ?_
    intro e1 h1
    refine post_ite _ _ _ _ (post_fail _ _) ?_
    refine post_ite _ _ _ _ (post_fail _ _) ?_
    refine post_ite _ _ _ _ ?_ ?_
    · refine post_ite _ _ _ _ (post_fail _ _) ?_
      refine post_bind (Q := fun e2 : SEE => edFlags e2.execdata = edFlags e.execdata) ?_ ?_
      · rw [← h1]; exact kef_sizeCheck _ e1 rfl
      · intro e2 h2; exact post_pure _ _ h2
    · refine post_ite _ _ _ _ ?_ ?_
      · refine post_bind (Q := fun e2 : SEE => edFlags e2.execdata = edFlags e.execdata) ?_ ?_
        · rw [← h1]; exact execOpcode_kef cx e1 _ _ _
        · intro e2 h2; exact post_pure _ _ h2
      · refine post_bind (Q := fun e2 : SEE => edFlags e2.execdata = edFlags e.execdata) ?_ ?_
        · rw [← h1]; exact kef_sizeCheck _ e1 rfl
        · intro e2 h2; exact post_pure _ _ h2

/-- a successful step keeps `EdReady` (the signature version is part of the frame) -/
theorem step_edReady (cx : Ctx) (e e' : SEE) (pc pc' : Bytes) (h : step cx e pc = .ok (e', pc'))
    (hr : EdReady e.sigversion e.execdata) : EdReady e'.sigversion e'.execdata := by
  have hf := step_frame cx e e' pc pc' h
  have hfl := step_edFlags cx e pc (e', pc') h
  simp only [SEE.frame, Prod.mk.injEq] at hf
  rw [hf.2.2.1]
  exact hr.of_flags hfl

end Btcdeb.Model
