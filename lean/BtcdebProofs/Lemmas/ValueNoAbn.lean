/-
  Abnormal outcomes (`VErr.abnormal`) of the `Value` expression parser model (`Btcdeb/Model/Value.lean`).

  The model has four abnormal sites: `cAt` (read past the end), `dataIntValue` (uncaught scriptnum_error),
  `tokenize` (`args_string[-1]`), `valueOf` (nesting fuel).  From the entry points (`btcc`, `valueData`,
  `valueOf … full full.length` with enough fuel) only the second one is reachable, and only through the
  inline function `int(...)`; texts without `(` have no abnormal outcome at all.
-/
import Btcdeb
namespace Btcdeb.Model
open Btcdeb

/-- `m` does not end in an abnormal outcome -/
def VNoAbn {α} (m : VM α) : Prop := ∀ k, m ≠ .error (.abnormal k)
/-- the only abnormal outcome `m` can have is the uncaught scriptnum_error of `Value::int_value` -/
def VOnlyIntAbn {α} (m : VM α) : Prop :=
  ∀ k, m = .error (.abnormal k) → k = "uncaught scriptnum_error in Value::int_value"

/-- number of bytes other than the space character -/
def nonSpace (s : Bytes) : Nat := s.countP (fun c => c.toNat != 32)

/-! ## a Hoare-style predicate: every abnormal outcome of `m` has a kind in `S` -/

def VAbnIn {α} (S : String → Prop) (m : VM α) : Prop := ∀ k, m = .error (.abnormal k) → S k

theorem VAbnIn.ok {α} (S : String → Prop) (a : α) : VAbnIn S (.ok a : VM α) := by
  intro k h; cases h

theorem VAbnIn.pure {α} (S : String → Prop) (a : α) : VAbnIn S (pure a : VM α) := by
  intro k h; cases h

theorem VAbnIn.exit1 {α} (S : String → Prop) (msg : String) : VAbnIn S (.error (.exit1 msg) : VM α) := by
  intro k h; cases h

theorem VAbnIn.bind {α β} {S : String → Prop} {m : VM α} {f : α → VM β}
    (hm : VAbnIn S m) (hf : ∀ a, m = .ok a → VAbnIn S (f a)) : VAbnIn S (m >>= f) := by
  intro k h
  cases m with
  | error e => exact hm k (by simpa [Bind.bind, Except.bind] using h)
  | ok a => exact hf a rfl k (by simpa [Bind.bind, Except.bind] using h)

theorem VAbnIn.mono {α} {S T : String → Prop} {m : VM α} (h : VAbnIn S m) (hST : ∀ k, S k → T k) :
    VAbnIn T m := fun k hk => hST k (h k hk)

theorem vnoabn_iff {α} (m : VM α) : VNoAbn m ↔ VAbnIn (fun _ => False) m :=
  ⟨fun h k hk => h k hk, fun h k hk => h k hk⟩

/-! ## `nonSpace` arithmetic -/

theorem nonSpace_append (a b : Bytes) : nonSpace (a ++ b) = nonSpace a + nonSpace b := by
  simp [nonSpace, List.countP_append]

theorem nonSpace_nil : nonSpace [] = 0 := rfl

theorem nonSpace_le_length (a : Bytes) : nonSpace a ≤ a.length := List.countP_le_length

theorem nonSpace_take_mono (full : Bytes) {a b : Nat} (h : a ≤ b) :
    nonSpace (full.take a) ≤ nonSpace (full.take b) := by
  obtain ⟨d, rfl⟩ := Nat.exists_eq_add_of_le h
  rw [List.take_add, nonSpace_append]; omega

theorem nonSpace_take_le (full : Bytes) (a : Nat) : nonSpace (full.take a) ≤ nonSpace full := by
  conv => rhs; rw [← List.take_append_drop a full]
  rw [nonSpace_append]; omega

theorem nonSpace_drop_le (full : Bytes) (a : Nat) : nonSpace (full.drop a) ≤ nonSpace full := by
  conv => rhs; rw [← List.take_append_drop a full]
  rw [nonSpace_append]; omega

theorem getD_lt_of_ne_zero (full : Bytes) (i : Nat) (h : full.getD i 0 ≠ 0) : i < full.length := by
  apply Decidable.byContradiction
  intro hn
  apply h
  rw [List.getD_eq_getElem?_getD, List.getElem?_eq_none (by omega)]
  rfl

theorem getD_mem (full : Bytes) (i : Nat) (h : i < full.length) : full.getD i 0 ∈ full := by
  rw [List.getD_eq_getElem?_getD, List.getElem?_eq_getElem h]
  exact List.getElem_mem h

/-- a slice after a non-space byte at index `i` -/
theorem nonSpace_slice_lt (full : Bytes) (i n : Nat) (hi : i < full.length) (hc : (full.getD i 0).toNat ≠ 32) :
    nonSpace ((full.drop (i + 1)).take n) < nonSpace full := by
  have h1 : nonSpace ((full.drop (i + 1)).take n) ≤ nonSpace (full.drop (i + 1)) := nonSpace_take_le _ _
  have h2 : full = full.take i ++ full[i] :: full.drop (i + 1) := by
    rw [← List.drop_eq_getElem_cons hi, List.take_append_drop]
  have h3 : nonSpace full = nonSpace (full.take i) + nonSpace (full[i] :: full.drop (i + 1)) := by
    conv => lhs; rw [h2]
    rw [nonSpace_append]
  have h4 : nonSpace (full[i] :: full.drop (i + 1)) = nonSpace (full.drop (i + 1)) + 1 := by
    have : full.getD i 0 = full[i] := by simp [List.getD_eq_getElem?_getD, hi]
    rw [this] at hc
    unfold nonSpace
    rw [List.countP_cons]
    simp [hc]
  omega

/-! ## site 2: `dataIntValue` -/

theorem dataIntValue_short (d : Bytes) (h : d.length ≤ 4) : VNoAbn (dataIntValue d) := by
  intro k hk
  have : ¬ d.length > 4 := by omega
  simp [dataIntValue, scriptNum, this] at hk

theorem appendTo_noabn (v : Value) (s : Bytes) : VNoAbn (v.appendTo s) := by
  intro k hk
  unfold Value.appendTo at hk
  split at hk
  · cases hk
  · cases hk
  · split at hk
    · rename_i hlen
      have hd := dataIntValue_short v.data (by omega)
      cases hdi : dataIntValue v.data with
      | error e =>
        rw [hdi] at hk hd
        simp only [bind, Except.bind] at hk
        injection hk with hk
        exact hd k (by rw [hk])
      | ok i =>
        rw [hdi] at hk
        simp only [bind, Except.bind] at hk
        split at hk <;> cases hk
    · cases hk
  · cases hk

theorem appendAll_noabn (vs : List Value) (s : Bytes) : VNoAbn (appendAll vs s) := by
  induction vs generalizing s with
  | nil => intro k hk; cases hk
  | cons v vs ih =>
    rw [vnoabn_iff]
    unfold appendAll
    exact VAbnIn.bind ((vnoabn_iff _).1 (appendTo_noabn v s)) (fun s' _ => (vnoabn_iff _).1 (ih s'))

theorem appendAll_abnIn (S : String → Prop) (vs : List Value) (s : Bytes) : VAbnIn S (appendAll vs s) :=
  ((vnoabn_iff _).1 (appendAll_noabn vs s)).mono (fun _ h => h.elim)

/-! ## site 1: `cAt`, and the scanners that use it -/

theorem cAt_abnIn (S : String → Prop) (s : Bytes) (i : Nat) (h : i ≤ s.length) : VAbnIn S (cAt s i) := by
  intro k hk
  unfold cAt at hk
  split at hk
  · cases hk
  · split at hk
    · cases hk
    · rename_i h1 h2
      have : i = s.length := by omega
      simp [this] at h2

theorem bracketScan_abnIn (S : String → Prop) (full : Bytes) (len : Nat) (hlen : len ≤ full.length)
    (k i depth : Nat) (ch : UInt8) : VAbnIn S (bracketScan full len k i depth ch) := by
  induction k generalizing i depth ch with
  | zero => exact VAbnIn.ok _ _
  | succ k ih =>
    unfold bracketScan
    split
    · rename_i hc
      have hi : i ≤ len := by simp at hc; exact hc.1
      exact VAbnIn.bind (cAt_abnIn S full i (by omega)) (fun c _ => ih _ _ _)
    · split
      · exact VAbnIn.exit1 _ _
      · exact VAbnIn.ok _ _

theorem bracketScan_ge (full : Bytes) (len : Nat) (k i depth : Nat) (ch : UInt8) (r : Nat × UInt8)
    (h : bracketScan full len k i depth ch = .ok r) : i ≤ r.1 := by
  induction k generalizing i depth ch with
  | zero => simp [bracketScan] at h; subst h; exact Nat.le_refl _
  | succ k ih =>
    unfold bracketScan at h
    split at h
    · cases hc : cAt full i with
      | error e => rw [hc] at h; simp [bind, Except.bind] at h
      | ok c =>
        rw [hc] at h
        simp only [bind, Except.bind] at h
        have := ih _ _ _ h
        omega
    · split at h
      · cases h
      · cases h; exact Nat.le_refl _

theorem skipLine_ge (full : Bytes) (len : Nat) (k i : Nat) : i ≤ skipLine full len k i := by
  induction k generalizing i with
  | zero => exact Nat.le_refl _
  | succ k ih =>
    unfold skipLine
    split
    · have := ih (i + 1); omega
    · exact Nat.le_refl _

/-- with `p = true`: the text has no opening parenthesis; with `p = false`: no constraint -/
def NoParen (p : Bool) (s : Bytes) : Prop := p = true → ∀ c ∈ s, c.toNat ≠ 40

theorem NoParen.slice {p : Bool} {s : Bytes} (h : NoParen p s) (a n : Nat) : NoParen p ((s.drop a).take n) :=
  fun hp c hc => h hp c (List.mem_of_mem_drop (List.mem_of_mem_take hc))

theorem NoParen.join {p : Bool} {a b : Bytes} (ha : NoParen p a) (hb : NoParen p b) :
    NoParen p (a ++ [32] ++ b) := by
  intro hp c hc
  simp only [List.mem_append, List.mem_singleton] at hc
  rcases hc with (hc | hc) | hc
  · exact ha hp c hc
  · subst hc; decide
  · exact hb hp c hc

theorem NoParen.nil (p : Bool) : NoParen p [] := fun _ c hc => by cases hc

/-! ## sites 1 and 3: `tokenize` -/

theorem tokenize_abnIn (S : String → Prop) (full : Bytes) (len : Nat) (h1 : 1 ≤ len) (hlen : len ≤ full.length)
    (k i start : Nat) (acc : List Bytes) : VAbnIn S (tokenize full len k i start acc) := by
  induction k generalizing i start acc with
  | zero => exact VAbnIn.ok _ _
  | succ k ih =>
    unfold tokenize
    split
    · exact VAbnIn.ok _ _
    · rename_i hi
      split
      · rename_i h0; simp at h0; omega
      · refine VAbnIn.bind (cAt_abnIn S _ _ (by split <;> omega)) (fun ch0 _ => ?_)
        have hjp : ∀ r : Nat × UInt8, VAbnIn S (match r with
            | (i, ch) =>
              if (i == len || isSepChar ch) = true then
                match
                  if (start == i) = true then (acc, start + 1)
                  else (List.take (i - start) (List.drop start full) :: acc, i + 1) with
                | (acc, start) =>
                  if (ch.toNat == 35) = true then
                    have j := skipLine full len (len + 1) i;
                    tokenize full len k (j + 1) (j + 1) acc
                  else tokenize full len k (i + 1) start acc
              else tokenize full len k (i + 1) start acc) := by
          rintro ⟨i', ch⟩
          dsimp only
          split
          · split <;> exact ih _ _ _
          · exact ih _ _ _
        dsimp only
        split
        · exact VAbnIn.bind (bracketScan_abnIn S full len hlen _ _ _ _) (fun r _ => hjp r)
        · exact VAbnIn.bind (VAbnIn.pure _ _) (fun r _ => hjp r)

/-- the tokens collected so far are disjoint slices of `full.take start` -/
def TokInv (p : Bool) (full : Bytes) (start : Nat) (acc : List Bytes) : Prop :=
  (acc.map nonSpace).sum ≤ nonSpace (full.take start) ∧ ∀ t ∈ acc, NoParen p t

theorem TokInv.mono {p : Bool} {full : Bytes} {start s' : Nat} {acc : List Bytes}
    (h : TokInv p full start acc) (hs : start ≤ s') : TokInv p full s' acc :=
  ⟨Nat.le_trans h.1 (nonSpace_take_mono full hs), h.2⟩

theorem TokInv.push {p : Bool} {full : Bytes} {start i : Nat} {acc : List Bytes}
    (h : TokInv p full start acc) (hs : start ≤ i) (hnp : NoParen p full) :
    TokInv p full i ((full.drop start).take (i - start) :: acc) := by
  refine ⟨?_, ?_⟩
  · have : full.take i = full.take start ++ (full.drop start).take (i - start) := by
      rw [← List.take_add]; congr 1; omega
    rw [this, nonSpace_append, List.map_cons, List.sum_cons]
    have := h.1; omega
  · intro t ht
    rcases List.mem_cons.1 ht with rfl | ht
    · exact hnp.slice _ _
    · exact h.2 t ht

theorem TokInv.final {p : Bool} {full : Bytes} {start : Nat} {acc : List Bytes} (h : TokInv p full start acc) :
    (acc.reverse.map nonSpace).sum ≤ nonSpace full ∧ ∀ t ∈ acc.reverse, NoParen p t := by
  refine ⟨?_, fun t ht => h.2 t (List.mem_reverse.1 ht)⟩
  rw [List.map_reverse, List.sum_reverse]
  exact Nat.le_trans h.1 (nonSpace_take_le _ _)

theorem tokenize_post (p : Bool) (full : Bytes) (len : Nat) (hnp : NoParen p full)
    (k i start : Nat) (acc : List Bytes) (hsi : start ≤ i) (hinv : TokInv p full start acc)
    (toks : List Bytes) (h : tokenize full len k i start acc = .ok toks) :
    (toks.map nonSpace).sum ≤ nonSpace full ∧ ∀ t ∈ toks, NoParen p t := by
  induction k generalizing i start acc with
  | zero => simp only [tokenize] at h; cases h; exact hinv.final
  | succ k ih =>
    unfold tokenize at h
    split at h
    · cases h; exact hinv.final
    · split at h
      · cases h
      · cases hc : cAt full (if i == len then i - 1 else i) with
        | error e => rw [hc] at h; simp [bind, Except.bind] at h
        | ok ch0 =>
          rw [hc] at h
          simp only [bind, Except.bind] at h
          have hjp : ∀ r : Nat × UInt8, i ≤ r.1 → (match r with
              | (i, ch) =>
                if (i == len || isSepChar ch) = true then
                  match
                    if (start == i) = true then (acc, start + 1)
                    else (List.take (i - start) (List.drop start full) :: acc, i + 1) with
                  | (acc, start) =>
                    if (ch.toNat == 35) = true then
                      have j := skipLine full len (len + 1) i;
                      tokenize full len k (j + 1) (j + 1) acc
                    else tokenize full len k (i + 1) start acc
                else tokenize full len k (i + 1) start acc) = .ok toks →
              (toks.map nonSpace).sum ≤ nonSpace full ∧ ∀ t ∈ toks, NoParen p t := by
            rintro ⟨i', ch⟩ hii h
            dsimp only at hii h
            have hj := skipLine_ge full len (len + 1) i'
            split at h
            · by_cases hs : start = i'
              · simp only [hs, beq_self_eq_true, if_true] at h
                split at h
                · exact ih _ _ _ (Nat.le_refl _) (hinv.mono (by omega)) h
                · exact ih _ _ _ (Nat.le_refl _) (hinv.mono (by omega)) h
              · have hs' : (start == i') = false := by simp [hs]
                simp only [hs'] at h
                split at h
                · exact ih _ _ _ (Nat.le_refl _) ((hinv.push (by omega) hnp).mono (by omega)) h
                · exact ih _ _ _ (Nat.le_refl _) ((hinv.push (by omega) hnp).mono (by omega)) h
            · exact ih _ _ _ (by omega) hinv h
          split at h
          · cases hb : bracketScan full len (len + 2) (i + 1) 1 ch0 with
            | error e => rw [hb] at h; simp at h
            | ok r =>
              rw [hb] at h
              have := bracketScan_ge _ _ _ _ _ _ _ hb
              exact hjp r (by omega) h
          · exact hjp (i, ch0) (Nat.le_refl _) h

/-! ## `parseArgsListWith`: the texts handed to the constructor -/

theorem nonSpace_join (a b : Bytes) : nonSpace (a ++ [32] ++ b) = nonSpace a + nonSpace b := by
  rw [nonSpace_append, nonSpace_append]; rfl

theorem parseArgsListWith_abnIn (S : String → Prop) (p : Bool) (mk : Bytes → Nat → VM Value) (N : Nat)
    (hmk : ∀ text, nonSpace text ≤ N → NoParen p text → VAbnIn S (mk text text.length))
    (toks : List Bytes) (accum : Bytes) (depth : Int) (acc : List Value)
    (hN : nonSpace accum + (toks.map nonSpace).sum ≤ N) (ha : NoParen p accum)
    (ht : ∀ t ∈ toks, NoParen p t) : VAbnIn S (parseArgsListWith mk toks accum depth acc) := by
  induction toks generalizing accum depth acc with
  | nil => exact VAbnIn.ok _ _
  | cons v rest ih =>
    have hv : NoParen p v := ht v (List.mem_cons_self)
    have hr : ∀ t ∈ rest, NoParen p t := fun t h => ht t (List.mem_cons_of_mem _ h)
    rw [List.map_cons, List.sum_cons] at hN
    unfold parseArgsListWith
    split
    · dsimp only
      split
      · refine VAbnIn.bind (hmk _ (by rw [nonSpace_join]; omega) (ha.join hv)) (fun x _ => ?_)
        exact ih _ _ _ (by rw [nonSpace_nil]; omega) (NoParen.nil p) hr
      · exact ih _ _ _ (by rw [nonSpace_join]; omega) (ha.join hv) hr
    · split
      · exact ih _ _ _ (by omega) ha hr
      · split
        · exact ih _ _ _ (by omega) hv hr
        · refine VAbnIn.bind (hmk _ (by omega) hv) (fun x _ => ?_)
          exact ih _ _ _ (by omega) ha hr

/-! ## `parseArgsStringWith` -/

theorem parseArgsStringWith_abnIn (S : String → Prop) (p : Bool) (mk : Bytes → Nat → VM Value)
    (full : Bytes) (len : Nat) (hne : 1 ≤ full.length) (hlen : len ≤ full.length) (hnp : NoParen p full)
    (hmk : ∀ text, nonSpace text ≤ nonSpace full → NoParen p text → VAbnIn S (mk text text.length)) :
    VAbnIn S (parseArgsStringWith mk full len) := by
  unfold parseArgsStringWith
  have h1 : 1 ≤ (if len == 0 then full.length else len) := by
    split
    · exact hne
    · rename_i h; simp at h; omega
  have h2 : (if len == 0 then full.length else len) ≤ full.length := by
    split <;> omega
  refine VAbnIn.bind (tokenize_abnIn S full _ h1 h2 _ _ _ _) (fun toks htoks => ?_)
  have hpost := tokenize_post p full _ hnp _ 0 0 [] (Nat.le_refl _)
    ⟨by simp, fun t ht => by cases ht⟩ toks htoks
  exact parseArgsListWith_abnIn S p mk _ hmk toks [] 0 [] (by rw [nonSpace_nil]; omega) (NoParen.nil p) hpost.2

/-! ## the constructor -/

theorem classifyPlain_abnIn (S : String → Prop) (cur : Value) (full : Bytes) (vlen : Nat) :
    VAbnIn S (classifyPlain cur full vlen) := by
  unfold classifyPlain
  dsimp only
  repeat' split
  all_goals exact VAbnIn.ok _ _

def intKind : String := "uncaught scriptnum_error in Value::int_value"

/-- allowed abnormal kinds: with `p = true` none, with `p = false` the one of `int_value` -/
def AbnSet (p : Bool) (k : String) : Prop := p = false ∧ k = intKind

theorem intValue_abnIn (v : Value) : VAbnIn (AbnSet false) v.intValue := by
  intro k hk
  unfold Value.intValue at hk
  split at hk
  · cases hk
  · cases hk
  · unfold dataIntValue at hk
    split at hk
    · cases hk
    · cases hk; exact ⟨rfl, rfl⟩
  · cases hk

theorem doExec_abnIn (cx : VCtx) (v : Value) (fn : Bytes) (r : VM Value) (h : v.doExec cx fn = some r) :
    VAbnIn (AbnSet false) r := by
  unfold Value.doExec at h
  dsimp only at h
  repeat' split at h
  all_goals try (cases h; exact VAbnIn.ok _ _)
  · cases h
    exact VAbnIn.bind (intValue_abnIn v) (fun i _ => VAbnIn.pure _ _)
  · cases h; exact VAbnIn.exit1 _ _
  · cases h

theorem valueBody_abnIn (cx : VCtx) (p : Bool) (mk : Bytes → Nat → VM Value) (full : Bytes) (vlen : Nat)
    (hnp : NoParen p full)
    (hmk : ∀ text l, nonSpace text < nonSpace full → NoParen p text → VAbnIn (AbnSet p) (mk text l)) :
    VAbnIn (AbnSet p) (valueBody cx mk full vlen) := by
  unfold valueBody
  generalize (if vlen == 0 then full.length else vlen) = vl
  dsimp only
  split
  · exact VAbnIn.ok _ _
  · split
    · -- bracket
      rename_i _ hb
      simp only [Bool.and_eq_true, decide_eq_true_eq, beq_iff_eq] at hb
      obtain ⟨⟨hb1, hb2⟩, hb3⟩ := hb
      have hvl : vl - 1 < full.length := getD_lt_of_ne_zero full _ (by rw [hb3]; decide)
      have h0 : 0 < full.length := by omega
      have hlt : ∀ n, nonSpace ((full.drop 1).take n) < nonSpace full :=
        fun n => nonSpace_slice_lt full 0 n h0 (by rw [hb2]; decide)
      have hlt' : nonSpace (full.drop 1) < nonSpace full := by
        have := hlt (full.drop 1).length
        rwa [List.take_length] at this
      refine VAbnIn.bind ?_ (fun vs _ => VAbnIn.bind (appendAll_abnIn _ _ _) (fun s _ => VAbnIn.pure _ _))
      refine parseArgsStringWith_abnIn _ p mk _ _ (by rw [List.length_drop]; omega)
        (by rw [List.length_drop]; omega) (fun hp c hc => hnp hp c (List.mem_of_mem_drop hc)) ?_
      intro text ht hnpt
      exact hmk text _ (by omega) hnpt
    · generalize hfc : ((full.take 29).takeWhile (fun c => c.toNat != 40 && c.toNat != 0)) = fnChars
      split
      · rename_i _ hb
        simp only [Bool.and_eq_true, decide_eq_true_eq, beq_iff_eq] at hb
        obtain ⟨⟨hb1, hb2⟩, hb3⟩ := hb
        have hi : fnChars.length < full.length := getD_lt_of_ne_zero full _ (by rw [hb3]; decide)
        cases p with
        | true =>
          exfalso
          exact hnp rfl _ (getD_mem full _ hi) (by rw [hb3]; decide)
        | false =>
          refine VAbnIn.bind (hmk _ _ (nonSpace_slice_lt full _ _ hi (by rw [hb3]; decide)) (hnp.slice _ _))
            (fun inner _ => ?_)
          split
          · rename_i r hr
            exact doExec_abnIn cx inner fnChars r hr
          · split
            · exact VAbnIn.exit1 _ _
            · exact classifyPlain_abnIn _ _ _ _
      · exact classifyPlain_abnIn _ _ _ _

/-- with enough fuel the abnormal outcomes of the constructor are in `AbnSet p` (whatever the length argument:
    a `vlen` beyond the NUL never passes the `v[vlen-1] == ']'` / `')'` tests, a shorter one only shortens the slices) -/
theorem valueOf_abnIn (cx : VCtx) (p : Bool) (fuel : Nat) (full : Bytes) (vlen : Nat)
    (hf : nonSpace full + 1 ≤ fuel) (hnp : NoParen p full) :
    VAbnIn (AbnSet p) (valueOf cx fuel full vlen) := by
  induction fuel generalizing full vlen with
  | zero => omega
  | succ fuel ih =>
    show VAbnIn (AbnSet p) (valueBody cx (valueOf cx fuel) full vlen)
    exact valueBody_abnIn cx p _ full vlen hnp (fun text l hlt hnpt => ih text l (by omega) hnpt)

theorem abnSet_false_iff {α} (m : VM α) : VAbnIn (AbnSet false) m ↔ VOnlyIntAbn m :=
  ⟨fun h k hk => (h k hk).2, fun h k hk => ⟨rfl, h k hk⟩⟩

theorem abnSet_true_iff {α} (m : VM α) : VAbnIn (AbnSet true) m ↔ VNoAbn m :=
  ⟨fun h k hk => Bool.noConfusion (h k hk).1, fun h k hk => (h k hk).elim⟩

theorem noParen_false (s : Bytes) : NoParen false s := fun h => by cases h

theorem noParen_true_iff (s : Bytes) : NoParen true s ↔ ∀ c ∈ s, c.toNat ≠ 40 :=
  ⟨fun h => h rfl, fun h _ => h⟩

/-! ## the entry points, for both families at once -/

theorem foldl_length_eq (argv : List Bytes) (n : Nat) :
    argv.foldl (fun n a => n + a.length) n = n + (argv.map List.length).sum := by
  induction argv generalizing n with
  | nil => simp
  | cons a r ih => rw [List.foldl_cons, ih, List.map_cons, List.sum_cons]; omega

theorem sum_nonSpace_le (argv : List Bytes) : (argv.map nonSpace).sum ≤ (argv.map List.length).sum := by
  induction argv with
  | nil => simp
  | cons a r ih =>
    rw [List.map_cons, List.sum_cons, List.map_cons, List.sum_cons]
    have := nonSpace_le_length a; omega

theorem parseArgsList_abnIn (cx : VCtx) (p : Bool) (fuel : Nat) (args : List Bytes)
    (hf : (args.map nonSpace).sum + 1 ≤ fuel) (hnp : ∀ a ∈ args, NoParen p a) :
    VAbnIn (AbnSet p) (parseArgsList cx fuel args) := by
  unfold parseArgsList
  refine parseArgsListWith_abnIn _ p _ (fuel - 1) ?_ args [] 0 [] (by rw [nonSpace_nil]; omega) (NoParen.nil p) hnp
  intro text ht hnpt
  exact valueOf_abnIn cx p fuel text _ (by omega) hnpt

theorem btcc_abnIn (cx : VCtx) (p : Bool) (argv : List Bytes) (hnp : ∀ a ∈ argv, NoParen p a) :
    VAbnIn (AbnSet p) (btcc cx argv) := by
  unfold btcc
  dsimp only
  refine VAbnIn.bind (parseArgsList_abnIn cx p _ argv ?_ hnp) (fun vs _ => appendAll_abnIn _ _ _)
  rw [foldl_length_eq]
  have := sum_nonSpace_le argv; omega

theorem valueData_abnIn (cx : VCtx) (p : Bool) (text : Bytes) (hnp : NoParen p text) :
    VAbnIn (AbnSet p) (valueData cx text) := by
  unfold valueData
  refine VAbnIn.bind (valueOf_abnIn cx p _ text _ ?_ hnp) (fun v _ => VAbnIn.pure _ _)
  have := nonSpace_le_length text; omega

/-! ## the theorems -/

/-- stronger form: the length argument does not matter -/
theorem valueOf_only_int' (cx : VCtx) (fuel : Nat) (full : Bytes) (vlen : Nat)
    (hf : nonSpace full + 1 ≤ fuel) : VOnlyIntAbn (valueOf cx fuel full vlen) :=
  (abnSet_false_iff _).1 (valueOf_abnIn cx false fuel full vlen hf (noParen_false _))

theorem valueOf_noabn_of_no_paren' (cx : VCtx) (fuel : Nat) (full : Bytes) (vlen : Nat)
    (hf : nonSpace full + 1 ≤ fuel) (hp : ∀ c ∈ full, c.toNat ≠ 40) : VNoAbn (valueOf cx fuel full vlen) :=
  (abnSet_true_iff _).1 (valueOf_abnIn cx true fuel full vlen hf (fun _ => hp))

/-- general: with enough fuel and a length argument that is the real length, the constructor can only die in int() -/
theorem valueOf_only_int (cx : VCtx) (fuel : Nat) (full : Bytes) (vlen : Nat)
    (hv : vlen = 0 ∨ vlen = full.length) (hf : nonSpace full + 1 ≤ fuel) : VOnlyIntAbn (valueOf cx fuel full vlen) :=
  have _ := hv
  valueOf_only_int' cx fuel full vlen hf

theorem parseArgsList_only_int (cx : VCtx) (fuel : Nat) (args : List Bytes)
    (hf : (args.map nonSpace).sum + 1 ≤ fuel) : VOnlyIntAbn (parseArgsList cx fuel args) :=
  (abnSet_false_iff _).1 (parseArgsList_abnIn cx false fuel args hf (fun a _ => noParen_false a))

theorem valueData_only_int (cx : VCtx) (text : Bytes) : VOnlyIntAbn (valueData cx text) :=
  (abnSet_false_iff _).1 (valueData_abnIn cx false text (noParen_false _))

theorem btcc_only_int (cx : VCtx) (argv : List Bytes) : VOnlyIntAbn (btcc cx argv) :=
  (abnSet_false_iff _).1 (btcc_abnIn cx false argv (fun a _ => noParen_false a))

/-- without an opening parenthesis there is no inline function call, hence no abnormal outcome at all -/
theorem valueOf_noabn_of_no_paren (cx : VCtx) (fuel : Nat) (full : Bytes) (vlen : Nat)
    (hv : vlen = 0 ∨ vlen = full.length) (hf : nonSpace full + 1 ≤ fuel) (hp : ∀ c ∈ full, c.toNat ≠ 40) :
    VNoAbn (valueOf cx fuel full vlen) :=
  have _ := hv
  valueOf_noabn_of_no_paren' cx fuel full vlen hf hp

theorem parseArgsList_noabn_of_no_paren (cx : VCtx) (fuel : Nat) (args : List Bytes)
    (hf : (args.map nonSpace).sum + 1 ≤ fuel) (hp : ∀ a ∈ args, ∀ c ∈ a, c.toNat ≠ 40) :
    VNoAbn (parseArgsList cx fuel args) :=
  (abnSet_true_iff _).1 (parseArgsList_abnIn cx true fuel args hf (fun a ha _ => hp a ha))

theorem valueData_noabn_of_no_paren (cx : VCtx) (text : Bytes) (hp : ∀ c ∈ text, c.toNat ≠ 40) :
    VNoAbn (valueData cx text) :=
  (abnSet_true_iff _).1 (valueData_abnIn cx true text (fun _ => hp))

theorem btcc_noabn_of_no_paren (cx : VCtx) (argv : List Bytes) (hp : ∀ a ∈ argv, ∀ c ∈ a, c.toNat ≠ 40) :
    VNoAbn (btcc cx argv) :=
  (abnSet_true_iff _).1 (btcc_abnIn cx true argv (fun a ha _ => hp a ha))

/-! ## reachability / non-vacuity (byte lists are written out: `String.toUTF8` does not reduce in the kernel) -/

/-- the literal used below is the text `int(0x0102030405)` -/
example : "int(0x0102030405)".toList.map (fun c => UInt8.ofNat c.toNat)
    = [105, 110, 116, 40, 48, 120, 48, 49, 48, 50, 48, 51, 48, 52, 48, 53, 41] := by decide

/-- the reachable abnormal outcome: `btcdeb`'s `Value("int(0x0102030405)")` (for any hash functions) -/
example (cx : VCtx) : valueData cx [105, 110, 116, 40, 48, 120, 48, 49, 48, 50, 48, 51, 48, 52, 48, 53, 41]
    = .error (.abnormal "uncaught scriptnum_error in Value::int_value") := by rfl

/-- `btcc 'int(0x0102030405)'` (confirmed on the ASan build: uncaught scriptnum_error, SIGABRT) -/
example (cx : VCtx) : btcc cx [[105, 110, 116, 40, 48, 120, 48, 49, 48, 50, 48, 51, 48, 52, 48, 53, 41]]
    = .error (.abnormal "uncaught scriptnum_error in Value::int_value") := by rfl

/-- the same inside a bracket spread over three argv words: `btcc [ 'int(0x0102030405)' ]` -/
example (cx : VCtx) :
    btcc cx [[91], [105, 110, 116, 40, 48, 120, 48, 49, 48, 50, 48, 51, 48, 52, 48, 53, 41], [93]]
    = .error (.abnormal "uncaught scriptnum_error in Value::int_value") := by rfl

/-- the fuel hypothesis is needed: `[ [ [ 5 ] ] ]` has 7 non-space bytes and nests three levels; fuel 3 is not enough
    (fuel 4 is; the entry points give `length + 4`) -/
example (cx : VCtx) : valueOf cx 3 [91, 32, 91, 32, 91, 32, 53, 32, 93, 32, 93, 32, 93] 13
    = .error (.abnormal "nesting fuel exhausted") := by rfl

/-- a normal outcome with nested brackets across argv words, a comment-free tokenizer run, an opcode, hex data and a
    string: `btcc '[OP_1' '[ 0x0102030405 ]' ']' abc` -/
example (cx : VCtx) :
    btcc cx [[91, 79, 80, 95, 49], [91, 32, 48, 120, 48, 49, 48, 50, 48, 51, 48, 52, 48, 53, 32, 93], [93], [97, 98, 99]]
    = .ok [8, 81, 6, 5, 1, 2, 3, 4, 5, 3, 97, 98, 99] := by rfl

/-- the hypothesis of the `no_paren` family is satisfiable on that input -/
example (cx : VCtx) :
    VNoAbn (btcc cx [[91, 79, 80, 95, 49], [91, 32, 48, 120, 48, 49, 48, 50, 48, 51, 48, 52, 48, 53, 32, 93], [93],
      [97, 98, 99]]) :=
  btcc_noabn_of_no_paren cx _ (by decide)

/-
#print axioms dataIntValue_short            -- propext
#print axioms appendTo_noabn
#print axioms appendAll_noabn
#print axioms valueOf_only_int
#print axioms valueData_only_int
#print axioms btcc_only_int
#print axioms valueOf_noabn_of_no_paren
#print axioms valueData_noabn_of_no_paren
#print axioms btcc_noabn_of_no_paren
-/

end Btcdeb.Model
