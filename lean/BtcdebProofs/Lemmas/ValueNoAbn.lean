/-
  Abnormal outcomes (`VErr.abnormal`) of the `Value` expression parser model (`Btcdeb/Model/Value.lean`).

  The model has two abnormal sites: `cAt` (read past the end) and `tokenize` (`args_string[-1]`); the script
  number overflow of `Value::int_value` is a C++ exception (`VErr.exc`, caught by every tool's `main`), and running
  out of nesting levels is the parse error of `Value::DepthGuard` (`exit(1)`).  Neither site is reachable: no
  entry point (`btcc`, `valueData`, `valueOf` with any fuel and any length argument) has an abnormal outcome.
-/
import Btcdeb
namespace Btcdeb.Model
open Btcdeb

/-- `m` does not end in an abnormal outcome -/
def VNoAbn {α} (m : VM α) : Prop := ∀ k, m ≠ .error (.abnormal k)
/-! ## a Hoare-style predicate: every abnormal outcome of `m` has a kind in `S` -/

def VAbnIn {α} (S : String → Prop) (m : VM α) : Prop := ∀ k, m = .error (.abnormal k) → S k

theorem VAbnIn.ok {α} (S : String → Prop) (a : α) : VAbnIn S (.ok a : VM α) := by
  intro k h; cases h

theorem VAbnIn.pure {α} (S : String → Prop) (a : α) : VAbnIn S (pure a : VM α) := by
  intro k h; cases h

theorem VAbnIn.exit1 {α} (S : String → Prop) (msg : String) : VAbnIn S (.error (.exit1 msg) : VM α) := by
  intro k h; cases h

theorem VAbnIn.bind {α β} {S : String → Prop} {m : VM α} {f : α → VM β}
    (hm : VAbnIn S m) (hf : ∀ a, m = .ok a → VAbnIn S (f a)) : VAbnIn S (m >>= f) := by
  intro k h
  cases m with
  | error e => exact hm k (by simpa [Bind.bind, Except.bind] using h)
  | ok a => exact hf a rfl k (by simpa [Bind.bind, Except.bind] using h)

theorem VAbnIn.mono {α} {S T : String → Prop} {m : VM α} (h : VAbnIn S m) (hST : ∀ k, S k → T k) :
    VAbnIn T m := fun k hk => hST k (h k hk)

theorem vnoabn_iff {α} (m : VM α) : VNoAbn m ↔ VAbnIn (fun _ => False) m :=
  ⟨fun h k hk => h k hk, fun h k hk => h k hk⟩

theorem getD_lt_of_ne_zero (full : Bytes) (i : Nat) (h : full.getD i 0 ≠ 0) : i < full.length := by
  apply Decidable.byContradiction
  intro hn
  apply h
  rw [List.getD_eq_getElem?_getD, List.getElem?_eq_none (by omega)]
  rfl

theorem getD_mem (full : Bytes) (i : Nat) (h : i < full.length) : full.getD i 0 ∈ full := by
  rw [List.getD_eq_getElem?_getD, List.getElem?_eq_getElem h]
  exact List.getElem_mem h

/-- a slice after a non-space byte at index `i` -/

theorem VAbnIn.exc {α} (S : String → Prop) (w : String) : VAbnIn S (.error (.exc w) : VM α) := by
  intro k h; cases h

/-! ## `dataIntValue` (an exception, not a crash) and `operator>>` -/

theorem dataIntValue_abnIn (S : String → Prop) (d : Bytes) : VAbnIn S (dataIntValue d) := by
  intro k hk
  unfold dataIntValue at hk
  split at hk <;> cases hk

theorem appendTo_abnIn (S : String → Prop) (v : Value) (s : Bytes) : VAbnIn S (v.appendTo s) := by
  unfold Value.appendTo
  split
  · exact VAbnIn.ok _ _
  · exact VAbnIn.ok _ _
  · split
    · refine VAbnIn.bind (dataIntValue_abnIn S _) (fun i _ => ?_)
      split <;> exact VAbnIn.ok _ _
    · exact VAbnIn.ok _ _
  · exact VAbnIn.ok _ _

theorem appendAll_abnIn (S : String → Prop) (vs : List Value) (s : Bytes) : VAbnIn S (appendAll vs s) := by
  induction vs generalizing s with
  | nil => exact VAbnIn.ok _ _
  | cons v vs ih =>
    unfold appendAll
    exact VAbnIn.bind (appendTo_abnIn S v s) (fun s' _ => ih s')

theorem appendTo_noabn (v : Value) (s : Bytes) : VNoAbn (v.appendTo s) := (vnoabn_iff _).2 (appendTo_abnIn _ v s)
theorem appendAll_noabn (vs : List Value) (s : Bytes) : VNoAbn (appendAll vs s) := (vnoabn_iff _).2 (appendAll_abnIn _ vs s)

/-! ## site 1: `cAt`, and the scanners that use it -/

theorem cAt_abnIn (S : String → Prop) (s : Bytes) (i : Nat) (h : i ≤ s.length) : VAbnIn S (cAt s i) := by
  intro k hk
  unfold cAt at hk
  split at hk
  · cases hk
  · split at hk
    · cases hk
    · rename_i h1 h2
      have : i = s.length := by omega
      simp [this] at h2

theorem bracketScan_abnIn (S : String → Prop) (full : Bytes) (len : Nat) (hlen : len ≤ full.length)
    (k i depth : Nat) (ch : UInt8) : VAbnIn S (bracketScan full len k i depth ch) := by
  induction k generalizing i depth ch with
  | zero => exact VAbnIn.ok _ _
  | succ k ih =>
    unfold bracketScan
    split
    · rename_i hc
      have hi : i ≤ len := by simp at hc; exact hc.1
      exact VAbnIn.bind (cAt_abnIn S full i (by omega)) (fun c _ => ih _ _ _)
    · split
      · exact VAbnIn.exit1 _ _
      · exact VAbnIn.ok _ _

/-! ## sites 1 and 2: `tokenize` -/

theorem tokenize_abnIn (S : String → Prop) (full : Bytes) (len : Nat) (h1 : 1 ≤ len) (hlen : len ≤ full.length)
    (k i start : Nat) (acc : List Bytes) : VAbnIn S (tokenize full len k i start acc) := by
  induction k generalizing i start acc with
  | zero => exact VAbnIn.ok _ _
  | succ k ih =>
    unfold tokenize
    split
    · exact VAbnIn.ok _ _
    · rename_i hi
      split
      · rename_i h0; simp at h0; omega
      · refine VAbnIn.bind (cAt_abnIn S _ _ (by split <;> omega)) (fun ch _ => ?_)
        split
        · refine VAbnIn.bind (bracketScan_abnIn S full len hlen _ _ _ _) (fun r _ => ?_)
          obtain ⟨i2, c2⟩ := r
          exact ih _ _ _
        · split
          · dsimp only
            split <;> split <;> exact ih _ _ _
          · exact ih _ _ _

/-! ## `parse_args` -/

theorem parseArgsListWith_abnIn (S : String → Prop) (mk : Bytes → Nat → VM Value)
    (hmk : ∀ text l, VAbnIn S (mk text l))
    (toks : List Bytes) (accum : Bytes) (depth : Int) (acc : List Value) :
    VAbnIn S (parseArgsListWith mk toks accum depth acc) := by
  induction toks generalizing accum depth acc with
  | nil => exact VAbnIn.ok _ _
  | cons v rest ih =>
    unfold parseArgsListWith
    split
    · dsimp only
      split
      · exact VAbnIn.bind (hmk _ _) (fun x _ => ih _ _ _)
      · exact ih _ _ _
    · split
      · exact ih _ _ _
      · split
        · exact ih _ _ _
        · exact VAbnIn.bind (hmk _ _) (fun x _ => ih _ _ _)

theorem parseArgsStringWith_abnIn (S : String → Prop) (mk : Bytes → Nat → VM Value)
    (full : Bytes) (len : Nat) (hne : 1 ≤ full.length) (hlen : len ≤ full.length)
    (hmk : ∀ text l, VAbnIn S (mk text l)) :
    VAbnIn S (parseArgsStringWith mk full len) := by
  unfold parseArgsStringWith
  have h1 : 1 ≤ (if len == 0 then full.length else len) := by
    split
    · exact hne
    · rename_i h; simp at h; omega
  have h2 : (if len == 0 then full.length else len) ≤ full.length := by
    split <;> omega
  exact VAbnIn.bind (tokenize_abnIn S full _ h1 h2 _ _ _ _)
    (fun toks _ => parseArgsListWith_abnIn S mk hmk toks [] 0 [])

/-! ## the constructor -/

theorem classifyPlain_abnIn (S : String → Prop) (cur : Value) (full : Bytes) (vlen : Nat) :
    VAbnIn S (classifyPlain cur full vlen) := by
  unfold classifyPlain
  dsimp only
  repeat' split
  all_goals exact VAbnIn.ok _ _

theorem intValue_abnIn (S : String → Prop) (v : Value) : VAbnIn S v.intValue := by
  unfold Value.intValue
  split
  · exact VAbnIn.ok _ _
  · exact VAbnIn.ok _ _
  · exact dataIntValue_abnIn S _
  · exact VAbnIn.ok _ _

theorem doExec_abnIn (S : String → Prop) (cx : VCtx) (v : Value) (fn : Bytes) (r : VM Value) (h : v.doExec cx fn = some r) :
    VAbnIn S r := by
  unfold Value.doExec at h
  dsimp only at h
  repeat' split at h
  all_goals try (cases h; exact VAbnIn.ok _ _)
  · cases h
    exact VAbnIn.bind (intValue_abnIn S v) (fun i _ => VAbnIn.pure _ _)
  · cases h; exact VAbnIn.exit1 _ _
  · cases h

/-- whatever the length argument: a `vlen` beyond the NUL never passes the `v[vlen-1] == ']'` / `')'` tests,
    a shorter one only shortens the slices -/
theorem valueBody_abnIn (S : String → Prop) (cx : VCtx) (mk : Bytes → Nat → VM Value) (full : Bytes) (vlen : Nat)
    (hmk : ∀ text l, VAbnIn S (mk text l)) :
    VAbnIn S (valueBody cx mk full vlen) := by
  unfold valueBody
  generalize (if vlen == 0 then full.length else vlen) = vl
  dsimp only
  split
  · exact VAbnIn.ok _ _
  · split
    · -- bracket
      rename_i _ hb
      simp only [Bool.and_eq_true, decide_eq_true_eq, beq_iff_eq] at hb
      obtain ⟨⟨hb1, hb2⟩, hb3⟩ := hb
      have hvl : vl - 1 < full.length := getD_lt_of_ne_zero full _ (by rw [hb3]; decide)
      refine VAbnIn.bind ?_ (fun vs _ => VAbnIn.bind (appendAll_abnIn _ _ _) (fun s _ => VAbnIn.pure _ _))
      exact parseArgsStringWith_abnIn _ mk _ _ (by rw [List.length_drop]; omega)
        (by rw [List.length_drop]; omega) hmk
    · generalize hfc : ((full.take 29).takeWhile (fun c => c.toNat != 40 && c.toNat != 0)) = fnChars
      split
      · refine VAbnIn.bind (hmk _ _) (fun inner _ => ?_)
        split
        · rename_i r hr
          exact doExec_abnIn S cx inner fnChars r hr
        · split
          · exact VAbnIn.exit1 _ _
          · exact classifyPlain_abnIn _ _ _ _
      · exact classifyPlain_abnIn _ _ _ _

theorem valueOf_abnIn (S : String → Prop) (cx : VCtx) (fuel : Nat) (full : Bytes) (vlen : Nat) :
    VAbnIn S (valueOf cx fuel full vlen) := by
  induction fuel generalizing full vlen with
  | zero => exact VAbnIn.exit1 _ _
  | succ fuel ih =>
    show VAbnIn S (valueBody cx (valueOf cx fuel) full vlen)
    exact valueBody_abnIn S cx _ full vlen (fun text l => ih text l)

theorem catchExc_abnIn {α} (S : String → Prop) (pfx : String) (m : VM α) (h : VAbnIn S m) : VAbnIn S (catchExc pfx m) := by
  unfold catchExc
  split
  · exact VAbnIn.exit1 _ _
  · exact h

/-! ## the theorems: no entry point of the value parser has an abnormal outcome -/

theorem valueOf_noabn (cx : VCtx) (fuel : Nat) (full : Bytes) (vlen : Nat) : VNoAbn (valueOf cx fuel full vlen) :=
  (vnoabn_iff _).2 (valueOf_abnIn _ cx fuel full vlen)

theorem parseArgsList_noabn (cx : VCtx) (fuel : Nat) (args : List Bytes) : VNoAbn (parseArgsList cx fuel args) :=
  (vnoabn_iff _).2 (parseArgsListWith_abnIn _ _ (fun text l => valueOf_abnIn _ cx fuel text l) args [] 0 [])

theorem valueData_noabn (cx : VCtx) (text : Bytes) : VNoAbn (valueData cx text) := by
  rw [vnoabn_iff]
  unfold valueData
  exact VAbnIn.bind (valueOf_abnIn _ cx _ _ _) (fun v _ => VAbnIn.pure _ _)

theorem btcc_noabn (cx : VCtx) (argv : List Bytes) : VNoAbn (btcc cx argv) := by
  rw [vnoabn_iff]
  unfold btcc
  refine catchExc_abnIn _ _ _ ?_
  exact VAbnIn.bind ((vnoabn_iff _).1 (parseArgsList_noabn cx _ argv)) (fun vs _ => appendAll_abnIn _ vs [])

/-! ## non-vacuity: what used to end in std::terminate is now an exception that `main` reports (exit status 1),
    and deep nesting is the parse error of the depth guard (byte lists are written out) -/

example : "int(0x0102030405)".toList.map (fun c => UInt8.ofNat c.toNat)
    = [105, 110, 116, 40, 48, 120, 48, 49, 48, 50, 48, 51, 48, 52, 48, 53, 41] := by decide

example (cx : VCtx) : valueData cx [105, 110, 116, 40, 48, 120, 48, 49, 48, 50, 48, 51, 48, 52, 48, 53, 41]
    = .error (.exc "script number overflow") := by rfl

example (cx : VCtx) : btcc cx [[105, 110, 116, 40, 48, 120, 48, 49, 48, 50, 48, 51, 48, 52, 48, 53, 41]]
    = .error (.exit1 "error: script number overflow") := by rfl

example (cx : VCtx) : valueOf cx 3 [91, 32, 91, 32, 91, 32, 53, 32, 93, 32, 93, 32, 93] 13
    = .error (.exit1 depthMsg) := by rfl

end Btcdeb.Model
