import Btcdeb

namespace Btcdeb.Proofs.C07Int
open Btcdeb Btcdeb.Model

/-- the integer test of Value's constructor (value.h), as the model's classifyPlain writes it -/
def isIntWord (w : Bytes) : Bool := (cAtoi 64 w != 0 || w == [48]) && intDecimal (cAtoi 64 w) == w

-- ---------------------------------------------------------------------------------------------
-- ByteArray.toList

theorem byteArray_toList_loop (bs : ByteArray) (i : Nat) (r : List UInt8) :
    ByteArray.toList.loop bs i r = r.reverse ++ bs.data.toList.drop i := by
  induction h : bs.size - i generalizing i r with
  | zero =>
    unfold ByteArray.toList.loop
    have : ¬ i < bs.size := by omega
    rw [if_neg this]
    have : bs.data.toList.length ≤ i := by
      have : bs.size = bs.data.toList.length := by simp [← ByteArray.size_data]
      omega
    rw [List.drop_of_length_le this]; simp
  | succ k ih =>
    unfold ByteArray.toList.loop
    have hlt : i < bs.size := by omega
    rw [if_pos hlt, ih (i + 1) _ (by omega)]
    have hlen : i < bs.data.toList.length := by simpa [← ByteArray.size_data] using hlt
    have hget : bs.get! i = bs.data.toList[i] := by
      cases bs with
      | mk d =>
        have : i < d.size := by simpa [← ByteArray.size_data] using hlt
        simp [ByteArray.get!, this]
    rw [List.reverse_cons, List.append_assoc, hget]
    congr 1
    rw [List.singleton_append, List.getElem_cons_drop]

theorem byteArray_toList (bs : ByteArray) : bs.toList = bs.data.toList := by
  unfold ByteArray.toList
  rw [byteArray_toList_loop]; simp

theorem toUTF8_ofList_ascii (l : List Char) (h : ∀ c ∈ l, c.utf8Size = 1) :
    (String.ofList l).toUTF8.toList = l.map (fun c => c.val.toUInt8) := by
  rw [byteArray_toList]
  simp only [String.toUTF8_eq_toByteArray]
  rw [← String.utf8Encode_toList, String.toList_ofList]
  unfold List.utf8Encode
  rw [List.toList_data_toByteArray]
  induction l with
  | nil => rfl
  | cons c t ih =>
    rw [List.flatMap_cons, ih (fun c hc => h c (List.mem_cons_of_mem _ hc)),
      String.utf8EncodeChar_eq_singleton (h c List.mem_cons_self)]
    rfl


-- ---------------------------------------------------------------------------------------------
-- natDigits

theorem natDigits_eq (n : Nat) :
    natDigits n = (Nat.toDigits 10 n).map (fun c => UInt8.ofNat c.toNat) := by
  unfold natDigits
  rw [Nat.toString_eq_ofList_toDigits, toUTF8_ofList_ascii]
  · rfl
  · intro c hc
    have hd := Nat.isDigit_of_mem_toDigits (by decide) (by decide) hc
    simp only [Char.isDigit, Bool.and_eq_true, decide_eq_true_eq] at hd
    unfold Char.utf8Size
    have : c.val ≤ 127 := by
      have := hd.2
      exact UInt32.le_trans this (by decide)
    simp [this]

theorem digitChar_byte : ∀ d : Fin 10, UInt8.ofNat (Nat.digitChar d.val).toNat = UInt8.ofNat (48 + d.val) := by
  decide

theorem natDigits_lt (n : Nat) (h : n < 10) : natDigits n = [UInt8.ofNat (48 + n)] := by
  rw [natDigits_eq, Nat.toDigits_of_lt_base h]
  simp only [List.map_cons, List.map_nil]
  rw [digitChar_byte ⟨n, h⟩]

theorem natDigits_ge (n : Nat) (h : 10 ≤ n) :
    natDigits n = natDigits (n / 10) ++ [UInt8.ofNat (48 + n % 10)] := by
  rw [natDigits_eq, natDigits_eq, Nat.toDigits_of_base_le (by decide) h]
  simp only [List.map_append, List.map_cons, List.map_nil]
  rw [digitChar_byte ⟨n % 10, Nat.mod_lt _ (by decide)⟩]


-- ---------------------------------------------------------------------------------------------
-- decimal digit strings

/-- the fold step of `Spec.decValue` -/
def decStep (a : Nat) (c : UInt8) : Nat := a * 10 + (c.toNat - 48)

theorem decValue_eq (ds : Bytes) : Spec.decValue ds = ds.foldl decStep 0 := rfl

theorem isDec_eq_isDigit : Spec.isDec = isDigit := rfl

theorem isDigit_iff (c : UInt8) : isDigit c = true ↔ 48 ≤ c.toNat ∧ c.toNat ≤ 57 := by
  simp [isDigit]

theorem ofNat_digit (c : UInt8) (h : isDigit c = true) : UInt8.ofNat (48 + (c.toNat - 48)) = c := by
  rw [isDigit_iff] at h
  have : 48 + (c.toNat - 48) = c.toNat := by omega
  rw [this]; simp

theorem isDigit_ofNat (d : Nat) (h : d < 10) : isDigit (UInt8.ofNat (48 + d)) = true := by
  rw [isDigit_iff, UInt8.toNat_ofNat']
  omega

theorem toNat_ofNat_digit (d : Nat) (h : d < 10) : (UInt8.ofNat (48 + d)).toNat = 48 + d := by
  rw [UInt8.toNat_ofNat']
  omega

theorem natDigits_all_isDigit (n : Nat) : (natDigits n).all isDigit = true := by
  induction n using Nat.strongRecOn with
  | _ n ih =>
    by_cases h : n < 10
    · rw [natDigits_lt n h, List.all_cons, isDigit_ofNat n h]; rfl
    · rw [natDigits_ge n (by omega), List.all_append, ih (n / 10) (by omega)]
      rw [List.all_cons, isDigit_ofNat (n % 10) (Nat.mod_lt _ (by decide))]; rfl

theorem natDigits_ne_nil (n : Nat) : natDigits n ≠ [] := by
  by_cases h : n < 10
  · rw [natDigits_lt n h]; simp
  · rw [natDigits_ge n (by omega)]; simp

theorem decValue_natDigits (n : Nat) : Spec.decValue (natDigits n) = n := by
  induction n using Nat.strongRecOn with
  | _ n ih =>
    by_cases h : n < 10
    · rw [natDigits_lt n h, decValue_eq]
      simp only [List.foldl_cons, List.foldl_nil, decStep, toNat_ofNat_digit n h]
      omega
    · have := ih (n / 10) (by omega)
      rw [decValue_eq] at this
      rw [natDigits_ge n (by omega), decValue_eq, List.foldl_append, this]
      simp only [List.foldl_cons, List.foldl_nil, decStep,
        toNat_ofNat_digit (n % 10) (Nat.mod_lt _ (by decide))]
      omega

theorem natDigits_foldl (ds : Bytes) (acc : Nat) (hacc : 1 ≤ acc) (hall : ds.all isDigit = true) :
    natDigits (ds.foldl decStep acc) = natDigits acc ++ ds := by
  induction ds generalizing acc with
  | nil => simp
  | cons c t ih =>
    simp only [List.all_cons, Bool.and_eq_true] at hall
    have hc := (isDigit_iff c).1 hall.1
    rw [List.foldl_cons, ih (decStep acc c) (by unfold decStep; omega) hall.2]
    have h10 : 10 ≤ decStep acc c := by unfold decStep; omega
    have hdiv : decStep acc c / 10 = acc := by unfold decStep; omega
    have hmod : decStep acc c % 10 = c.toNat - 48 := by unfold decStep; omega
    rw [natDigits_ge _ h10, hdiv, hmod, ofNat_digit c hall.1]
    simp

/-- canonical digit strings are printed back unchanged -/
theorem natDigits_decValue (d : UInt8) (rest : Bytes) (hall : (d :: rest).all isDigit = true)
    (hd : d.toNat ≠ 48) : natDigits (Spec.decValue (d :: rest)) = d :: rest := by
  simp only [List.all_cons, Bool.and_eq_true] at hall
  have hc := (isDigit_iff d).1 hall.1
  rw [decValue_eq, List.foldl_cons]
  have h0 : decStep 0 d = d.toNat - 48 := by unfold decStep; omega
  rw [h0, natDigits_foldl rest _ (by omega) hall.2, natDigits_lt _ (by omega), ofNat_digit d hall.1]
  rfl

theorem decValue_pos (d : UInt8) (rest : Bytes) (hall : (d :: rest).all isDigit = true)
    (hd : d.toNat ≠ 48) : 1 ≤ Spec.decValue (d :: rest) := by
  apply Nat.pos_of_ne_zero
  intro h0
  have := natDigits_decValue d rest hall hd
  rw [h0, natDigits_lt 0 (by decide)] at this
  injection this with h1 _
  apply hd
  rw [← h1]; rfl

theorem digitsValue_eq (ds : Bytes) (acc : Nat) (hall : ds.all isDigit = true) :
    digitsValue ds acc = ds.foldl decStep acc := by
  induction ds generalizing acc with
  | nil => rfl
  | cons c t ih =>
    simp only [List.all_cons, Bool.and_eq_true] at hall
    rw [digitsValue, if_pos hall.1, ih _ hall.2]
    rfl

theorem digitsValue_decValue (ds : Bytes) (hall : ds.all isDigit = true) :
    digitsValue ds 0 = Spec.decValue ds := by
  rw [digitsValue_eq ds 0 hall, decValue_eq]


-- ---------------------------------------------------------------------------------------------
-- cAtoi 64

/-- the narrowing step is the identity on int64 values -/
theorem narrow64 (long : Int) (hlo : -(2 ^ 63 : Int) ≤ long) (hhi : long ≤ 2 ^ 63 - 1) :
    (let m : Int := (2 : Int) ^ 64
     let r := long % m
     if r ≥ m / 2 then r - m else r) = long := by
  simp only [Int.reducePow] at *
  split <;> omega

theorem narrow64_range (long : Int) :
    -(2 ^ 63 : Int) ≤ (let m : Int := (2 : Int) ^ 64
     let r := long % m
     if r ≥ m / 2 then r - m else r) ∧
    (let m : Int := (2 : Int) ^ 64
     let r := long % m
     if r ≥ m / 2 then r - m else r) ≤ 2 ^ 63 - 1 := by
  simp only [Int.reducePow] at *
  split <;> omega

theorem cAtoi64_range (w : Bytes) : -(2 ^ 63 : Int) ≤ cAtoi 64 w ∧ cAtoi 64 w ≤ 2 ^ 63 - 1 := by
  unfold cAtoi
  exact narrow64_range _

theorem cAtoi64_neg (ds : Bytes) :
    cAtoi 64 (45 :: ds) =
      if digitsValue ds 0 > 2 ^ 63 then -(2 ^ 63 : Int) else -(digitsValue ds 0 : Int) := by
  unfold cAtoi
  have h : List.dropWhile isSpaceC (45 :: ds) = 45 :: ds := by
    rw [List.dropWhile_cons]; rfl
  simp only [h]
  generalize digitsValue ds 0 = v
  rw [narrow64] <;> simp only [if_true] <;> split <;>
    (simp only [Int.reducePow, Nat.reducePow, Int.reduceNeg] at *; omega)


theorem cAtoi64_digit (c : UInt8) (t : Bytes) (hc : isDigit c = true) :
    cAtoi 64 (c :: t) =
      if digitsValue (c :: t) 0 > 2 ^ 63 - 1 then (2 ^ 63 - 1 : Int)
      else (digitsValue (c :: t) 0 : Int) := by
  have hc' := (isDigit_iff c).1 hc
  unfold cAtoi
  have h : List.dropWhile isSpaceC (c :: t) = c :: t := by
    rw [List.dropWhile_cons]
    have : isSpaceC c = false := by
      simp only [isSpaceC, Bool.or_eq_false_iff, beq_eq_false_iff_ne, Bool.and_eq_false_iff,
        decide_eq_false_iff_not]
      omega
    rw [this]; rfl
  have h45 : c ≠ 45 := by intro h; rw [h] at hc'; simp at hc'
  have h43 : c ≠ 43 := by intro h; rw [h] at hc'; simp at hc'
  simp only [h]
  split
  · rename_i heq
    exact absurd (List.cons.inj heq).1 h45
  · rename_i heq
    exact absurd (List.cons.inj heq).1 h43
  · generalize digitsValue (c :: t) 0 = v
    rw [narrow64] <;> simp only [Bool.false_eq_true, if_false] <;> split <;>
      (simp only [Int.reducePow, Nat.reducePow, Int.reduceNeg] at *; omega)


-- ---------------------------------------------------------------------------------------------
-- Spec.readInt

theorem readInt_neg (ds : Bytes) :
    Spec.readInt (45 :: ds) =
      match ds with
      | [] => none
      | d :: _ =>
        if !(ds.all isDigit) then none
        else if d.toNat == 48 then none
        else if -9223372036854775808 ≤ -(Spec.decValue ds : Int) then some (-(Spec.decValue ds : Int))
        else none := by
  unfold Spec.readInt
  cases ds with
  | nil => rfl
  | cons d _ =>
    simp only [isDec_eq_isDigit]
    generalize Spec.decValue (d :: _) = v
    have hv : (-(v : Int) ≤ 9223372036854775807) := by omega
    simp [hv]

theorem readInt_nonneg (c : UInt8) (t : Bytes) (hc : c ≠ 45) :
    Spec.readInt (c :: t) =
        if !((c :: t).all isDigit) then none
        else if c.toNat == 48 then (if t.isEmpty then some 0 else none)
        else if (Spec.decValue (c :: t) : Int) ≤ 9223372036854775807 then some (Spec.decValue (c :: t) : Int)
        else none := by
  unfold Spec.readInt
  split
  rename_i neg ds heq
  split at heq
  · rename_i heq'
    exact absurd (List.cons.inj heq').1 hc
  · obtain ⟨rfl, rfl⟩ := Prod.mk.inj heq
    simp only [isDec_eq_isDigit]
    generalize Spec.decValue (c :: t) = v
    have hv : (-9223372036854775808 ≤ (v : Int)) := by omega
    simp [hv]


theorem toNat_eq_48 (c : UInt8) (h : c.toNat = 48) : c = 48 := by
  apply UInt8.toNat_inj.1
  rw [h]; rfl

/-- the three shapes of a word that `Spec.readInt` accepts -/
theorem readInt_some (w : Bytes) (n : Int) (h : Spec.readInt w = some n) :
    (w = [48] ∧ n = 0) ∨
    (∃ d rest, w = d :: rest ∧ (d :: rest).all isDigit = true ∧ d.toNat ≠ 48 ∧
      n = (Spec.decValue (d :: rest) : Int) ∧ Spec.decValue (d :: rest) ≤ 2 ^ 63 - 1) ∨
    (∃ d rest, w = 45 :: d :: rest ∧ (d :: rest).all isDigit = true ∧ d.toNat ≠ 48 ∧
      n = -(Spec.decValue (d :: rest) : Int) ∧ Spec.decValue (d :: rest) ≤ 2 ^ 63) := by
  cases w with
  | nil => exact absurd h (by simp [Spec.readInt])
  | cons c t =>
    by_cases hc : c = 45
    · subst hc
      rw [readInt_neg] at h
      cases t with
      | nil => exact absurd h (by simp)
      | cons d rest =>
        simp only at h
        split at h
        · exact absurd h (by simp)
        · rename_i hall
          split at h
          · exact absurd h (by simp)
          · rename_i hd
            split at h
            · rename_i hr
              refine Or.inr (Or.inr ⟨d, rest, rfl, by simpa using hall, by simpa using hd, ?_, ?_⟩)
              · exact (Option.some.inj h).symm
              · simp only [Nat.reducePow]; omega
            · exact absurd h (by simp)
    · rw [readInt_nonneg c t hc] at h
      split at h
      · exact absurd h (by simp)
      · rename_i hall
        split at h
        · rename_i hd
          split at h
          · rename_i ht
            left
            have : t = [] := by simpa using ht
            subst this
            have hd' : c.toNat = 48 := by simpa using hd
            exact ⟨by rw [toNat_eq_48 c hd'], (Option.some.inj h).symm⟩
          · exact absurd h (by simp)
        · rename_i hd
          split at h
          · rename_i hr
            refine Or.inr (Or.inl ⟨c, t, rfl, by simpa using hall, by simpa using hd, ?_, ?_⟩)
            · exact (Option.some.inj h).symm
            · simp only [Nat.reducePow]; omega
          · exact absurd h (by simp)

theorem readInt_zero : Spec.readInt [48] = some 0 := by decide

theorem readInt_pos (d : UInt8) (rest : Bytes) (hall : (d :: rest).all isDigit = true)
    (hd : d.toNat ≠ 48) (hr : Spec.decValue (d :: rest) ≤ 2 ^ 63 - 1) :
    Spec.readInt (d :: rest) = some (Spec.decValue (d :: rest) : Int) := by
  have hc := (isDigit_iff d).1 (by simp only [List.all_cons, Bool.and_eq_true] at hall; exact hall.1)
  have h45 : d ≠ 45 := by intro h; rw [h] at hc; simp at hc
  rw [readInt_nonneg d rest h45, hall]
  simp only [Nat.reducePow] at hr
  have : (Spec.decValue (d :: rest) : Int) ≤ 9223372036854775807 := by omega
  simp [hd, this]

theorem readInt_negative (d : UInt8) (rest : Bytes) (hall : (d :: rest).all isDigit = true)
    (hd : d.toNat ≠ 48) (hr : Spec.decValue (d :: rest) ≤ 2 ^ 63) :
    Spec.readInt (45 :: d :: rest) = some (-(Spec.decValue (d :: rest) : Int)) := by
  rw [readInt_neg]
  simp only [hall]
  simp only [Nat.reducePow] at hr
  have : -9223372036854775808 ≤ -(Spec.decValue (d :: rest) : Int) := by omega
  simp [hd, this]


-- ---------------------------------------------------------------------------------------------
-- main statements about integers

theorem readInt_eq_cAtoi (w : Bytes) (n : Int) (h : Spec.readInt w = some n) : cAtoi 64 w = n := by
  rcases readInt_some w n h with ⟨rfl, rfl⟩ | ⟨d, rest, rfl, hall, hd, rfl, hr⟩ |
    ⟨d, rest, rfl, hall, hd, rfl, hr⟩
  · decide
  · have hdg : isDigit d = true := by
      simp only [List.all_cons, Bool.and_eq_true] at hall; exact hall.1
    rw [cAtoi64_digit d rest hdg, digitsValue_decValue _ hall, if_neg (by omega)]
  · rw [cAtoi64_neg, digitsValue_decValue _ hall, if_neg (by omega)]

theorem intDecimal_readInt (w : Bytes) (n : Int) (h : Spec.readInt w = some n) :
    intDecimal n = w ∧ (n ≠ 0 ∨ w = [48]) := by
  rcases readInt_some w n h with ⟨rfl, rfl⟩ | ⟨d, rest, rfl, hall, hd, rfl, hr⟩ |
    ⟨d, rest, rfl, hall, hd, rfl, hr⟩
  · refine ⟨?_, Or.inr rfl⟩
    unfold intDecimal
    rw [if_neg (by decide)]
    exact natDigits_lt 0 (by decide)
  · have hpos := decValue_pos d rest hall hd
    refine ⟨?_, Or.inl (by omega)⟩
    unfold intDecimal
    rw [if_neg (by omega), Int.toNat_natCast, natDigits_decValue d rest hall hd]
  · have hpos := decValue_pos d rest hall hd
    refine ⟨?_, Or.inl (by omega)⟩
    unfold intDecimal
    rw [if_pos (by omega), Int.natAbs_neg, Int.natAbs_natCast, natDigits_decValue d rest hall hd]

theorem natDigits_head_ne_45 (n : Nat) (r : Bytes) : natDigits n ≠ 45 :: r := by
  intro h
  have := natDigits_all_isDigit n
  rw [h] at this
  simp [isDigit] at this

theorem natDigits_head (n : Nat) (hn : 1 ≤ n) :
    ∃ d rest, natDigits n = d :: rest ∧ d.toNat ≠ 48 := by
  induction n using Nat.strongRecOn with
  | _ n ih =>
    by_cases h : n < 10
    · refine ⟨_, [], natDigits_lt n h, ?_⟩
      rw [toNat_ofNat_digit n h]; omega
    · obtain ⟨d, rest, he, hd⟩ := ih (n / 10) (by omega) (by omega)
      refine ⟨d, rest ++ [UInt8.ofNat (48 + n % 10)], ?_, hd⟩
      rw [natDigits_ge n (by omega), he]; rfl

/-- a printed natural number is read back -/
theorem readInt_natDigits (n : Nat) (hr : n ≤ 2 ^ 63 - 1) :
    Spec.readInt (natDigits n) = some (n : Int) := by
  by_cases h0 : n = 0
  · subst h0; rw [natDigits_lt 0 (by decide)]; decide
  · have hall := natDigits_all_isDigit n
    have hdv := decValue_natDigits n
    cases hnd : natDigits n with
    | nil => exact absurd hnd (natDigits_ne_nil n)
    | cons d rest =>
      rw [hnd] at hall hdv
      have hd : d.toNat ≠ 48 := by
        obtain ⟨d', rest', he, hd'⟩ := natDigits_head n (by omega)
        rw [hnd] at he
        rw [(List.cons.inj he).1]; exact hd'
      rw [readInt_pos d rest hall hd (by rw [hdv]; exact hr), hdv]


theorem int_word_iff (w : Bytes) : isIntWord w = true ↔ ∃ n, Spec.readInt w = some n := by
  constructor
  · intro h
    unfold isIntWord at h
    simp only [Bool.and_eq_true, Bool.or_eq_true, bne_iff_ne, ne_eq, beq_iff_eq] at h
    obtain ⟨hnz, hdec⟩ := h
    obtain ⟨hlo, hhi⟩ := cAtoi64_range w
    generalize cAtoi 64 w = v at *
    unfold intDecimal at hdec
    split at hdec
    · rename_i hneg
      have hna : v.natAbs ≤ 2 ^ 63 := by simp only [Int.reducePow, Nat.reducePow] at *; omega
      obtain ⟨d, rest, he, hd⟩ := natDigits_head v.natAbs (by omega)
      have hall := natDigits_all_isDigit v.natAbs
      have hdv := decValue_natDigits v.natAbs
      rw [he] at hall hdv
      rw [← hdec, he]
      exact ⟨_, readInt_negative d rest hall hd (by rw [hdv]; exact hna)⟩
    · rename_i hnn
      by_cases hw : w = [48]
      · subst hw; exact ⟨0, readInt_zero⟩
      · rw [← hdec]
        refine ⟨_, readInt_natDigits v.toNat ?_⟩
        simp only [Int.reducePow, Nat.reducePow] at *; omega
  · rintro ⟨n, h⟩
    unfold isIntWord
    rw [readInt_eq_cAtoi w n h]
    obtain ⟨h1, h2⟩ := intDecimal_readInt w n h
    simp only [Bool.and_eq_true, Bool.or_eq_true, bne_iff_ne, ne_eq, beq_iff_eq]
    exact ⟨h2, h1⟩


-- ---------------------------------------------------------------------------------------------
-- tryHex

theorem hexDigitVal_of_isHexDigit (c : UInt8) (h : Spec.isHexDigit c = true) :
    hexDigitVal c = some (Spec.hexNibble c) ∧ isSpaceC c = false := by
  simp only [Spec.isHexDigit, Bool.or_eq_true, Bool.and_eq_true, decide_eq_true_eq] at h
  refine ⟨?_, ?_⟩
  · unfold hexDigitVal Spec.hexNibble
    simp only [Bool.and_eq_true, decide_eq_true_eq, ge_iff_le]
    split
    · rw [if_pos (by omega)]
    · split
      · rw [if_neg (by omega), if_pos (by omega)]
      · rw [if_pos (by omega), if_neg (by omega), if_neg (by omega)]
  · simp only [isSpaceC, Bool.or_eq_false_iff, beq_eq_false_iff_ne, Bool.and_eq_false_iff,
      decide_eq_false_iff_not]
    omega

theorem isHexDigit_of_hexDigitVal (c : UInt8) (v : Nat) (h : hexDigitVal c = some v) :
    Spec.isHexDigit c = true := by
  unfold hexDigitVal at h
  simp only [Spec.isHexDigit, Bool.or_eq_true, Bool.and_eq_true, decide_eq_true_eq]
  simp only [Bool.and_eq_true, decide_eq_true_eq] at h
  split at h
  · omega
  · split at h
    · omega
    · split at h
      · omega
      · exact absurd h (by simp)

theorem tryHex_one (a : UInt8) (h : isSpaceC a = false) : tryHex [a] = none := by
  unfold tryHex
  rw [h]
  simp only [Bool.false_eq_true, if_false]
  split <;> simp_all

theorem tryHex_two (a b : UInt8) (rest : Bytes) (h : isSpaceC a = false) :
    tryHex (a :: b :: rest) =
      match hexDigitVal a, hexDigitVal b, tryHex rest with
      | some h, some l, some r => some (UInt8.ofNat (h * 16 + l) :: r)
      | _, _, _ => none := by
  conv => lhs; unfold tryHex
  rw [h]
  simp only [Bool.false_eq_true, if_false]
  cases hexDigitVal a with
  | none => rfl
  | some va =>
    dsimp only
    cases hexDigitVal b <;> cases tryHex rest <;> rfl

theorem tryHex_of_allHex : (h : Bytes) → (hall : h.all Spec.isHexDigit = true) →
    (heven : h.length % 2 = 0) → tryHex h = some (Spec.unhexPairs h)
  | [], _, _ => rfl
  | [_], _, heven => by simp at heven
  | a :: b :: rest, hall, heven => by
    simp only [List.all_cons, Bool.and_eq_true] at hall
    obtain ⟨ha, hb, hrest⟩ := hall
    have hev : rest.length % 2 = 0 := by simp only [List.length_cons] at heven; omega
    have ih := tryHex_of_allHex rest hrest hev
    obtain ⟨ha1, ha2⟩ := hexDigitVal_of_isHexDigit a ha
    obtain ⟨hb1, _⟩ := hexDigitVal_of_isHexDigit b hb
    rw [tryHex_two a b rest ha2, ha1, hb1, ih]
    rfl

theorem tryHex_some_allHex : (h d : Bytes) → (hns : ∀ c ∈ h, isSpaceC c = false) →
    (ht : tryHex h = some d) → h.all Spec.isHexDigit = true ∧ h.length % 2 = 0
  | [], _, _, _ => ⟨rfl, rfl⟩
  | [a], d, hns, ht => by
    rw [tryHex_one a (hns a List.mem_cons_self)] at ht
    exact absurd ht (by simp)
  | a :: b :: rest, d, hns, ht => by
    have hnsr : ∀ c ∈ rest, isSpaceC c = false := fun c hc =>
      hns c (List.mem_cons_of_mem _ (List.mem_cons_of_mem _ hc))
    rw [tryHex_two a b rest (hns a List.mem_cons_self)] at ht
    cases hA : hexDigitVal a with
    | none =>
      simp only [hA] at ht
      exact absurd ht (by simp)
    | some va =>
      cases hB : hexDigitVal b with
      | none =>
        simp only [hA, hB] at ht
        exact absurd ht (by simp)
      | some vb =>
        cases hR : tryHex rest with
        | none =>
          simp only [hA, hB, hR] at ht
          exact absurd ht (by simp)
        | some r =>
          obtain ⟨ih1, ih2⟩ := tryHex_some_allHex rest r hnsr hR
          refine ⟨?_, ?_⟩
          · simp only [List.all_cons, Bool.and_eq_true]
            exact ⟨isHexDigit_of_hexDigitVal a va hA, isHexDigit_of_hexDigitVal b vb hB, ih1⟩
          · simp only [List.length_cons]; omega

end Btcdeb.Proofs.C07Int
