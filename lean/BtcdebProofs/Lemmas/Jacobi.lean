/-
  The loop of `Value::do_jacobi_symbol` computes the Jacobi symbol as given by the recursive law.
-/
import Btcdeb.Model.Transforms
import Btcdeb.Spec.Transforms
namespace Btcdeb.Jacobi
open Btcdeb

/-- what `do_jacobi_symbol` reads off the final `(k, t)` -/
def readOff (r : Nat × Bool) : Int := if r.1 == 1 then (if r.2 then -1 else 1) else 0

def sign (t : Bool) : Int := if t then -1 else 1

theorem sign_xor (a b : Bool) : sign (a ^^ b) = sign a * sign b := by
  cases a <;> cases b <;> rfl

theorem readOff_flip (k : Nat) (t : Bool) : readOff (k, t) = sign t * readOff (k, false) := by
  unfold readOff sign
  cases t <;> simp
  split <;> simp

theorem strip_even (k n : Nat) (t : Bool) (h : n % 2 = 0) (h0 : n ≠ 0) :
    Model.jacobiStrip k n t = Model.jacobiStrip k (n / 2) (t ^^ (k % 8 == 3 || k % 8 == 5)) := by
  rw [Model.jacobiStrip]
  simp [h, h0]

theorem strip_odd (k n : Nat) (t : Bool) (h : n % 2 = 1) : Model.jacobiStrip k n t = (n, t) := by
  rw [Model.jacobiStrip]
  have : ¬ (n % 2 = 0 ∧ n ≠ 0) := by omega
  simp [this]

theorem loop_step (n k : Nat) (t : Bool) (h0 : n ≠ 0) :
    Model.jacobiLoop n k t =
      Model.jacobiLoop (k % (Model.jacobiStrip k n t).1) (Model.jacobiStrip k n t).1
        ((Model.jacobiStrip k n t).2 ^^ (k % 4 == 3 && (Model.jacobiStrip k n t).1 % 4 == 3)) := by
  rw [Model.jacobiLoop]
  simp [h0]

theorem loop_eq : ∀ (n k : Nat) (t : Bool),
    readOff (Model.jacobiLoop n k t) = sign t * Spec.jacobiRec n k := by
  intro n
  induction n using Nat.strongRecOn with
  | _ n ih =>
    intro k t
    by_cases h0 : n = 0
    · subst h0
      rw [Model.jacobiLoop, Spec.jacobiRec]
      simp only [↓reduceDIte]
      rw [readOff_flip]
      unfold readOff
      by_cases hk : k = 1 <;> simp [hk]
    · by_cases he : n % 2 = 0
      · have hstep : Model.jacobiLoop n k t = Model.jacobiLoop (n / 2) k (t ^^ (k % 8 == 3 || k % 8 == 5)) := by
          rw [loop_step n k t h0, loop_step (n / 2) k _ (by omega), strip_even k n t he h0]
        rw [hstep, ih (n / 2) (by omega), sign_xor]
        conv => rhs; rw [Spec.jacobiRec]
        simp only [h0, ↓reduceDIte, he]
        rw [Int.mul_assoc]
        congr 1
        congr 1
        unfold sign
        by_cases h3 : k % 8 = 3 <;> by_cases h5 : k % 8 = 5 <;> simp [h3, h5]
      · have ho : n % 2 = 1 := by omega
        have hstep : Model.jacobiLoop n k t = Model.jacobiLoop (k % n) n (t ^^ (k % 4 == 3 && n % 4 == 3)) := by
          rw [loop_step n k t h0, strip_odd k n t ho]
        rw [hstep, ih (k % n) (Nat.mod_lt _ (Nat.pos_of_ne_zero h0)), sign_xor]
        conv => rhs; rw [Spec.jacobiRec]
        simp only [h0, ↓reduceDIte, he]
        rw [Int.mul_assoc]
        congr 1
        congr 1
        unfold sign
        by_cases h3 : k % 4 = 3 <;> by_cases h5 : n % 4 = 3 <;> simp [h3, h5]

end Btcdeb.Jacobi
