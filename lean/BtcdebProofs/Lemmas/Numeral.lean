/-
  Positional numerals: value of a digit list (least significant first), the multiply-and-add carry loop of
  base58.cpp, canonical numerals and their uniqueness.
-/
import Btcdeb.Model.Encodings
import Btcdeb.Spec.Encodings
namespace Btcdeb.Numeral
open Btcdeb

/-- value of a numeral, least significant digit first -/
def leVal (B : Nat) : List Nat → Nat
  | [] => 0
  | d :: ds => d + B * leVal B ds

theorem numeralValue_append (B : Nat) (ds : List Nat) (d : Nat) :
    Spec.numeralValue B (ds ++ [d]) = Spec.numeralValue B ds * B + d := by
  simp [Spec.numeralValue, List.foldl_append]

theorem numeralValue_reverse (B : Nat) (ds : List Nat) : Spec.numeralValue B ds.reverse = leVal B ds := by
  induction ds with
  | nil => rfl
  | cons d ds ih =>
    rw [List.reverse_cons, numeralValue_append, ih, leVal]
    rw [Nat.mul_comm]; omega

theorem numeralValue_eq (B : Nat) (ds : List Nat) : Spec.numeralValue B ds = leVal B ds.reverse := by
  rw [← numeralValue_reverse, List.reverse_reverse]

/-- every digit is below the base -/
def AllLt (B : Nat) (ds : List Nat) : Prop := ∀ d ∈ ds, d < B

/-- no most significant zero digit -/
def NoTopZero (ds : List Nat) : Prop := ds.getLast? ≠ some 0

theorem extendDigits_eq_numeralLE (B n : Nat) : Model.extendDigits B n = Spec.numeralLE B n := by
  induction n using Nat.strongRecOn with
  | _ n ih =>
    unfold Model.extendDigits Spec.numeralLE
    split
    · rfl
    · rename_i h
      have h1 : n ≠ 0 := fun e => h (Or.inl e)
      have h2 : 2 ≤ B := Nat.le_of_not_lt (fun e => h (Or.inr e))
      rw [ih (n / B) (Nat.div_lt_self (Nat.pos_of_ne_zero h1) h2)]

theorem numeralLE_val (B n : Nat) (hB : 2 ≤ B) : leVal B (Spec.numeralLE B n) = n := by
  induction n using Nat.strongRecOn with
  | _ n ih =>
    unfold Spec.numeralLE
    split
    · rename_i h
      cases h with
      | inl h => simp [leVal, h]
      | inr h => omega
    · rename_i h
      have h1 : n ≠ 0 := fun e => h (Or.inl e)
      rw [leVal, ih (n / B) (Nat.div_lt_self (Nat.pos_of_ne_zero h1) hB)]
      exact Nat.mod_add_div n B

theorem numeralLE_allLt (B n : Nat) (hB : 2 ≤ B) : AllLt B (Spec.numeralLE B n) := by
  induction n using Nat.strongRecOn with
  | _ n ih =>
    unfold Spec.numeralLE
    split
    · intro d hd; simp at hd
    · rename_i h
      have h1 : n ≠ 0 := fun e => h (Or.inl e)
      intro d hd
      simp only [List.mem_cons] at hd
      cases hd with
      | inl e => subst e; exact Nat.mod_lt _ (by omega)
      | inr e => exact ih (n / B) (Nat.div_lt_self (Nat.pos_of_ne_zero h1) hB) d e

theorem numeralLE_noTopZero (B n : Nat) (hB : 2 ≤ B) : NoTopZero (Spec.numeralLE B n) := by
  induction n using Nat.strongRecOn with
  | _ n ih =>
    unfold Spec.numeralLE
    split
    · simp [NoTopZero]
    · rename_i h
      have h1 : n ≠ 0 := fun e => h (Or.inl e)
      have ih' := ih (n / B) (Nat.div_lt_self (Nat.pos_of_ne_zero h1) hB)
      unfold NoTopZero at *
      rw [List.getLast?_cons]
      cases hq : (Spec.numeralLE B (n / B)).getLast? with
      | some x => simp [hq] at ih' ⊢; exact ih'
      | none =>
        simp
        -- the quotient has no digits: it is zero, so n < B and n % B = n ≠ 0
        have hz : n / B = 0 := by
          have := numeralLE_val B (n / B) hB
          rw [List.getLast?_eq_none_iff.mp hq] at this
          simpa [leVal] using this.symm
        have : n < B := by
          rcases Nat.div_eq_zero_iff.mp hz with h | h
          · omega
          · exact h
        rw [Nat.mod_eq_of_lt this]; exact h1

theorem noTopZero_tail {x : Nat} {l : List Nat} (hn : NoTopZero (x :: l)) : NoTopZero l := by
  unfold NoTopZero at *
  rw [List.getLast?_cons] at hn
  cases hq : l.getLast? with
  | none => simp
  | some y => simp [hq] at hn ⊢; exact hn

theorem val_zero_nil (B : Nat) (hB : 1 ≤ B) : ∀ (l : List Nat), NoTopZero l → leVal B l = 0 → l = [] := by
  intro l
  induction l with
  | nil => intros; rfl
  | cons x xs ih =>
    intro hn hv
    simp only [leVal] at hv
    have hx : x = 0 := by omega
    have hxs : leVal B xs = 0 := by
      have : B * leVal B xs = 0 := by omega
      rcases Nat.mul_eq_zero.mp this with h | h
      · omega
      · exact h
    have : xs = [] := ih (noTopZero_tail hn) hxs
    subst this; subst hx
    simp [NoTopZero] at hn

/-- two numerals with digits below the base and no top zero that denote the same number are equal -/
theorem canonical_unique (B : Nat) (hB : 2 ≤ B) :
    ∀ (ds es : List Nat), AllLt B ds → AllLt B es → NoTopZero ds → NoTopZero es → leVal B ds = leVal B es → ds = es := by
  intro ds
  induction ds with
  | nil =>
    intro es _ _ _ hte h
    exact (val_zero_nil B (by omega) es hte (by simpa [leVal] using h.symm)).symm
  | cons d ds ih =>
    intro es hds hes htd hte h
    cases es with
    | nil => exact val_zero_nil B (by omega) (d :: ds) htd (by simpa [leVal] using h)
    | cons e es =>
      simp only [leVal] at h
      have hd : d < B := hds d (by simp)
      have he : e < B := hes e (by simp)
      have h1 : d = e := by
        have := congrArg (· % B) h
        simp only [Nat.add_mul_mod_self_left] at this
        rwa [Nat.mod_eq_of_lt hd, Nat.mod_eq_of_lt he] at this
      subst h1
      have h2 : leVal B ds = leVal B es := by
        have : B * leVal B ds = B * leVal B es := by omega
        exact Nat.eq_of_mul_eq_mul_left (by omega) this
      rw [ih es (fun x hx => hds x (by simp [hx])) (fun x hx => hes x (by simp [hx])) (noTopZero_tail htd) (noTopZero_tail hte) h2]

/-- THE numeral: digits below the base, no top zero, value n -/
theorem eq_numeralLE (B : Nat) (hB : 2 ≤ B) (ds : List Nat) (n : Nat) (h1 : AllLt B ds) (h2 : NoTopZero ds)
    (h3 : leVal B ds = n) : ds = Spec.numeralLE B n :=
  canonical_unique B hB ds _ h1 (numeralLE_allLt B n hB) h2 (numeralLE_noTopZero B n hB) (by rw [h3, numeralLE_val B n hB])

-- ---------------------------------------------------------------------------------------------
-- the carry loop

theorem mulAdd_val (base mul : Nat) (hB : 2 ≤ base) : ∀ (ds : List Nat) (carry : Nat),
    leVal base (Model.mulAdd base mul ds carry) = carry + mul * leVal base ds := by
  intro ds
  induction ds with
  | nil => intro carry; simp [Model.mulAdd, extendDigits_eq_numeralLE, numeralLE_val base carry hB, leVal]
  | cons d ds ih =>
    intro carry
    simp only [Model.mulAdd, leVal, ih]
    have h := Nat.mod_add_div (carry + mul * d) base
    generalize (carry + mul * d) % base = r at h
    generalize (carry + mul * d) / base = q at h
    generalize leVal base ds = v
    rw [Nat.mul_add, Nat.mul_add, Nat.mul_left_comm mul base v]
    omega

theorem mulAdd_allLt (base mul : Nat) (hB : 2 ≤ base) : ∀ (ds : List Nat) (carry : Nat),
    AllLt base (Model.mulAdd base mul ds carry) := by
  intro ds
  induction ds with
  | nil => intro carry; simp only [Model.mulAdd, extendDigits_eq_numeralLE]; exact numeralLE_allLt base carry hB
  | cons d ds ih =>
    intro carry x hx
    simp only [Model.mulAdd, List.mem_cons] at hx
    cases hx with
    | inl e => subst e; exact Nat.mod_lt _ (by omega)
    | inr e => exact ih _ x e

theorem mulAdd_length_ge (base mul : Nat) : ∀ (ds : List Nat) (carry : Nat),
    ds.length ≤ (Model.mulAdd base mul ds carry).length := by
  intro ds
  induction ds with
  | nil => intro carry; simp
  | cons d ds ih => intro carry; simp only [Model.mulAdd, List.length_cons]; have := ih ((carry + mul * d) / base); omega

theorem noTopZero_cons {x : Nat} {l : List Nat} (h : (l ≠ [] ∧ NoTopZero l) ∨ (l = [] ∧ x ≠ 0)) : NoTopZero (x :: l) := by
  unfold NoTopZero at *
  rw [List.getLast?_cons]
  rcases h with ⟨hne, hn⟩ | ⟨he, hx⟩
  · cases hq : l.getLast? with
    | none => exact absurd (List.getLast?_eq_none_iff.mp hq) hne
    | some y => simp [hq] at hn ⊢; exact hn
  · subst he; simpa using hx

theorem noTopZero_singleton {x : Nat} (h : NoTopZero [x]) : x ≠ 0 := by
  simpa [NoTopZero] using h

theorem mulAdd_noTopZero (base mul : Nat) (hB : 2 ≤ base) (hm : 1 ≤ mul) : ∀ (ds : List Nat) (carry : Nat),
    NoTopZero ds → NoTopZero (Model.mulAdd base mul ds carry) := by
  intro ds
  induction ds with
  | nil => intro carry _; simp only [Model.mulAdd, extendDigits_eq_numeralLE]; exact numeralLE_noTopZero base carry hB
  | cons d ds ih =>
    intro carry hn
    simp only [Model.mulAdd]
    apply noTopZero_cons
    by_cases hr : Model.mulAdd base mul ds ((carry + mul * d) / base) = []
    · right
      refine ⟨hr, ?_⟩
      have hds : ds = [] := by
        have := mulAdd_length_ge base mul ds ((carry + mul * d) / base)
        rw [hr] at this
        exact List.eq_nil_of_length_eq_zero (by simpa using this)
      subst hds
      have hd : d ≠ 0 := noTopZero_singleton hn
      -- the quotient has no digits: it is zero
      have hq : (carry + mul * d) / base = 0 := by
        have := mulAdd_val base mul hB [] ((carry + mul * d) / base)
        rw [hr] at this
        simpa [leVal] using this.symm
      have hlt : carry + mul * d < base := by
        rcases Nat.div_eq_zero_iff.mp hq with h | h
        · omega
        · exact h
      rw [Nat.mod_eq_of_lt hlt]
      have : 1 ≤ mul * d := Nat.mul_pos hm (Nat.pos_of_ne_zero hd)
      omega
    · left
      exact ⟨hr, ih _ (noTopZero_tail hn)⟩

/-- folding the carry loop over a digit string (most significant first) in base `mul` gives THE numeral in base `base` -/
theorem foldl_mulAdd (base mul : Nat) (hB : 2 ≤ base) (hm : 1 ≤ mul) (xs : List Nat) :
    ∀ (acc : List Nat), AllLt base acc → NoTopZero acc →
      let r := xs.foldl (fun ds x => Model.mulAdd base mul ds x) acc
      AllLt base r ∧ NoTopZero r ∧ leVal base r = xs.foldl (fun a x => a * mul + x) (leVal base acc) := by
  induction xs with
  | nil => intro acc h1 h2; exact ⟨h1, h2, rfl⟩
  | cons x xs ih =>
    intro acc h1 h2
    simp only [List.foldl_cons]
    have := ih (Model.mulAdd base mul acc x) (mulAdd_allLt base mul hB acc x) (mulAdd_noTopZero base mul hB hm acc x h2)
    rw [mulAdd_val base mul hB] at this
    rw [Nat.mul_comm (leVal base acc) mul, Nat.add_comm (mul * leVal base acc) x]
    exact this

end Btcdeb.Numeral
