/-
  Small facts about the shapes `configure_tx_txin` / `setup_environment` / `VerifyScript` look at:
  push-only scripts, the P2SH pattern, what `setup_environment` builds.
-/
import Btcdeb
import Btcdeb.Model.Verdict
import BtcdebProofs.Lemmas.Phases
import BtcdebProofs.Properties.C01
import BtcdebProofs.Properties.Tables
namespace Btcdeb.Proofs.Shapes
open Btcdeb Btcdeb.Model Btcdeb.Refine Btcdeb.Proofs.Phases Btcdeb.Proofs.SpecCore

/-! ### push-only -/

theorem decodePrefix_succ (fuel : Nat) (s : Bytes) (hs : s ≠ []) :
    Spec.decodePrefix (fuel + 1) s =
      match Spec.decodeOne s with
      | none => ([], false)
      | some (i, after) => ((i, after) :: (Spec.decodePrefix fuel after).1, (Spec.decodePrefix fuel after).2) := by
  cases s with
  | nil => exact absurd rfl hs
  | cons b rest =>
    simp only [Spec.decodePrefix]
    cases Spec.decodeOne (b :: rest) with
    | none => rfl
    | some p => rfl

theorem isPushOnly_aux : ∀ (fuel : Nat) (s : Bytes), s.length ≤ fuel →
    Model.isPushOnly s = ((Spec.decodePrefix fuel s).2 &&
      (Spec.decodePrefix fuel s).1.all (fun p => decide (p.1.opcode ≤ 0x60))) := by
  intro fuel
  induction fuel with
  | zero =>
    intro s hs
    have : s = [] := List.length_eq_zero_iff.mp (by omega)
    subst this
    rw [Model.isPushOnly]; simp [getOp, Spec.decodePrefix]
  | succ fuel ih =>
    intro s hs
    by_cases hnil : s = []
    · subst hnil; rw [Model.isPushOnly]; simp [getOp, Spec.decodePrefix]
    · have hgo := getOp_decodeOne s
      rw [Model.isPushOnly, decodePrefix_succ fuel s hnil]
      cases hg : getOp s with
      | none =>
        rw [hg] at hgo
        simp only [Option.map_none] at hgo
        rw [← hgo]
        simp [hnil]
      | some g =>
        rw [hg] at hgo
        simp only [Option.map_some] at hgo
        rw [← hgo]
        have hlt := getOp_rest_lt hg
        simp only [List.all_cons]
        rw [ih g.rest (by omega)]
        by_cases h1 : g.opcode > Op.OP_16
        · have : ¬ g.opcode ≤ 0x60 := by simp [Op.OP_16] at h1; omega
          simp [h1, this]
        · have : g.opcode ≤ 0x60 := by simp [Op.OP_16] at h1; omega
          simp [h1, this]

/-- `CScript::IsPushOnly` is the specification's push-only predicate -/
theorem isPushOnly_eq (s : Bytes) : Model.isPushOnly s = Spec.isPushOnly s := by
  rw [isPushOnly_aux s.length s (Nat.le_refl _)]
  unfold Spec.isPushOnly Spec.decode Spec.decodeWithRest
  cases hd : (Spec.decodePrefix s.length s).2
  · simp [hd]
  · simp [hd, List.all_map]; rfl

/-! ### the P2SH pattern -/

theorem isPayToScriptHash_eq (s : Bytes) : isPayToScriptHash s = Spec.isP2SH s := rfl

theorem byteAt_eq (s : Bytes) (i : Nat) (b : UInt8) (h : s[i]? = some b) : byteAt s i = b.toNat := by
  simp [byteAt, h]

theorem p2shPattern_eq (flags : Nat) (s : Bytes) :
    p2shPattern flags s = (hasFlag flags Flag.P2SH && Spec.isP2SH s) := by
  unfold p2shPattern Spec.isP2SH
  by_cases hl : s.length = 23
  · have h0 : 0 < s.length := by omega
    have h1 : 1 < s.length := by omega
    have h22 : 22 < s.length := by omega
    simp only [byteAt, List.getElem?_eq_getElem h0, List.getElem?_eq_getElem h1, List.getElem?_eq_getElem h22,
      Option.map_some, Option.getD_some, Option.some_beq_some]
    have e0 : (s[0].toNat == Op.OP_HASH160) = (s[0] == 0xa9) := by
      rw [Bool.eq_iff_iff]; simp [← UInt8.toNat_inj, Op.OP_HASH160]
    have e1 : (s[1].toNat == 20) = (s[1] == 0x14) := by
      rw [Bool.eq_iff_iff]; simp [← UInt8.toNat_inj]
    have e2 : (s[22].toNat == Op.OP_EQUAL) = (s[22] == 0x87) := by
      rw [Bool.eq_iff_iff]; simp [← UInt8.toNat_inj, Op.OP_EQUAL]
    rw [e0, e1, e2]
    cases hasFlag flags Flag.P2SH <;> cases (s.length == 23) <;> cases (s[0] == 169) <;> cases (s[1] == 20) <;> cases (s[22] == 135) <;> rfl
  · have hf : (s.length == 23) = false := by simpa using hl
    rw [hf]
    simp


/-! ### `setup_environment` -/

/-- what `setup_environment` builds for a session without mock signatures and without re-enabled opcodes -/
def setupEnv (stack : List Bytes) (script : Bytes) (flags : Nat) (sv : SigVersion) (succ : Bytes) (ed : ExecData)
    (tce : Option Tce) : IEnv :=
  { see := { script := script, pbegincodehash := script, stack := stack, flags := flags, sigversion := sv,
             requireMinimal := hasFlag flags Flag.MINIMALDATA, allowDisabled := false, execdata := ed,
             pretendMap := [], pretendKeys := [] },
    pc := script, done := script.isEmpty && succ.isEmpty && tce.isNone,
    isP2sh := sv == .BASE && p2shPattern flags script,
    p2shStack := if (sv == .BASE && p2shPattern flags script) = true then stack else [],
    successor := succ, tce := tce }

theorem setup_eq (stack : List Bytes) (script : Bytes) (flags : Nat) (sv : SigVersion) (succ : Bytes) (ed : ExecData)
    (tce : Option Tce) :
    setupEnvironment stack script flags sv succ false ed tce [] [] =
      if (sv != .TAPSCRIPT && decide (script.length > Gen.MAX_SCRIPT_SIZE)) = true then .error .SCRIPT_SIZE
      else if (!succ.isEmpty && hasFlag flags Flag.SIGPUSHONLY && !isPushOnly script) = true then .error .SIG_PUSHONLY
      else if (sv == .TAPSCRIPT && scanOpSuccess false script) = true then .error .DISCOURAGE_OP_SUCCESS
      else .ok (setupEnv stack script flags sv succ ed tce) := by
  unfold setupEnvironment IEnv.init
  split
  · rename_i h; split at h
    · rename_i h1; cases h; simp only [h1, if_true]
    · cases h
  · rename_i e h
    split at h
    · cases h
    · rename_i h1
      cases h
      simp only [h1, Bool.false_eq_true, if_false]
      split
      · rfl
      · split
        · rfl
        · rfl

/-! ### a script that starts with OP_HASH160 fails on the empty stack -/

theorem hash160_first_fails (cfg : Spec.Cfg) (rest : Bytes) (st' : Spec.St) :
    (Spec.evalScript cfg (0xa9 :: rest) { stack := [] }).result ≠ .ok st' := by
  rw [evalScript_result]
  split
  · intro h; cases h
  · unfold evalFrom
    simp only [List.length_cons]
    have hd : Spec.decodeOne (0xa9 :: rest) = some (⟨0xa9, []⟩, rest) := by
      simp [Spec.decodeOne]
    have h1 : (Spec.decodePrefix (rest.length + 1) (0xa9 :: rest)).1 =
        (⟨0xa9, []⟩, rest) :: (Spec.decodePrefix rest.length rest).1 := by
      rw [decodePrefix_succ _ _ (by simp), hd]
    rw [h1]
    simp only [Spec.evalInstrs]
    have hx : ∃ e, Spec.execInstr cfg ⟨0xa9, []⟩ rest 0
        { ({ stack := [] } : Spec.St) with codeFrom := 0xa9 :: rest } = .error e := by
      unfold Spec.execInstr
      simp only [List.length_nil, List.all_nil]
      have h0 : ¬ (0 > Spec.maxElementSize) := by decide
      simp only [h0, if_false]
      unfold Spec.countOp
      split
      · split
        · exact ⟨_, rfl⟩
        · simp only [rOk_bind]
          have hop : Opcode.ofNat 0xa9 = .OP_HASH160 := by decide
          rw [hop]
          by_cases hz : cfg.allowDisabled = true
          · simp [hz, Spec.disabled, Spec.execOp, Spec.smallInt, Spec.isNopN, Spec.isUnary, Spec.isBinary]
          · simp [hz, Spec.disabled, Spec.execOp, Spec.smallInt, Spec.isNopN, Spec.isUnary, Spec.isBinary]
      · simp only [rOk_bind]
        have hop : Opcode.ofNat 0xa9 = .OP_HASH160 := by decide
        rw [hop]
        by_cases hz : cfg.allowDisabled = true
        · simp [hz, Spec.disabled, Spec.execOp, Spec.smallInt, Spec.isNopN, Spec.isUnary, Spec.isBinary]
        · simp [hz, Spec.disabled, Spec.execOp, Spec.smallInt, Spec.isNopN, Spec.isUnary, Spec.isBinary]
    obtain ⟨e, he⟩ := hx
    rw [he]
    intro h; cases h

/-- a script of the P2SH form starts with OP_HASH160 -/
theorem isP2SH_head (s : Bytes) (h : Spec.isP2SH s = true) : ∃ rest, s = 0xa9 :: rest := by
  unfold Spec.isP2SH at h
  simp only [Bool.and_eq_true] at h
  cases s with
  | nil => simp at h
  | cons b rest =>
    have := h.1.1.2
    simp at this
    exact ⟨rest, by rw [this]⟩


/-! ### OP_SUCCESSx scan -/

theorem opSuccess_eq (i : Nat) : Gen.opSuccess.getD i false = Spec.isOpSuccess i := by
  obtain ⟨hlen, hall⟩ := Tables.op_success_table
  by_cases hi : i < 256
  · have := List.all_eq_true.mp hall i (List.mem_range.mpr hi)
    simpa using this
  · have h1 : Gen.opSuccess.getD i false = false := by
      rw [List.getD_eq_getElem?_getD, List.getElem?_eq_none (by omega)]; rfl
    rw [h1]
    unfold Spec.isOpSuccess
    have a : ¬ i = 80 := by omega
    have b : ¬ i = 98 := by omega
    simp [a, b]
    omega

theorem scanOpSuccess_aux : ∀ (fuel : Nat) (s : Bytes), s.length ≤ fuel →
    scanOpSuccess false s = (Spec.decodePrefix fuel s).1.any (fun p => Spec.isOpSuccess p.1.opcode) := by
  intro fuel
  induction fuel with
  | zero =>
    intro s hs
    have : s = [] := List.length_eq_zero_iff.mp (by omega)
    subst this
    rw [scanOpSuccess]; simp [getOp, Spec.decodePrefix]
  | succ fuel ih =>
    intro s hs
    by_cases hnil : s = []
    · subst hnil; rw [scanOpSuccess]; simp [getOp, Spec.decodePrefix]
    · have hgo := getOp_decodeOne s
      rw [scanOpSuccess, decodePrefix_succ fuel s hnil]
      cases hg : getOp s with
      | none =>
        rw [hg] at hgo
        simp only [Option.map_none] at hgo
        rw [← hgo]
        simp
      | some g =>
        rw [hg] at hgo
        simp only [Option.map_some] at hgo
        rw [← hgo]
        have hlt := getOp_rest_lt hg
        simp only [List.any_cons, opSuccess_eq, Bool.false_and, Bool.not_false, Bool.and_true]
        rw [ih g.rest (by omega)]
        cases Spec.isOpSuccess g.opcode <;> simp

/-- the OP_SUCCESSx scan of `setup_environment` is the specification's predicate -/
theorem scanOpSuccess_eq (s : Bytes) : scanOpSuccess false s = Spec.hasOpSuccess false s := by
  rw [scanOpSuccess_aux s.length s (Nat.le_refl _)]
  unfold Spec.hasOpSuccess
  simp

end Btcdeb.Proofs.Shapes
