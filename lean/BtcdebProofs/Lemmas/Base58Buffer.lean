/-
  The scratch buffers of base58.cpp are large enough: `size = len * 138 / 100 + 1` base-58 digits hold every number of
  `len` bytes (256^100 < 58^138), `size = len * 733 / 1000 + 1` bytes hold every number of `len` base-58 digits
  (58^1000 < 256^733).  Hence the carry loops never reach `rend()` with a carry left: `assert(carry == 0)` cannot fail.
-/
import BtcdebProofs.Lemmas.Base58
import BtcdebProofs.Lemmas.ConvertBits
namespace Btcdeb.Base58
open Btcdeb Numeral

/-- a numeral with L ≥ 1 digits denotes at least B^(L-1) -/
theorem pow_le_of_numeralLE (B : Nat) (hB : 2 ≤ B) : ∀ n, n ≠ 0 → B ^ ((Spec.numeralLE B n).length - 1) ≤ n := by
  intro n
  induction n using Nat.strongRecOn with
  | _ n ih =>
    intro hn
    rw [Spec.numeralLE]
    have hc : ¬ (n = 0 ∨ B < 2) := by omega
    simp only [hc, ↓reduceDIte, List.length_cons, Nat.add_sub_cancel]
    by_cases hq : n / B = 0
    · rw [hq, Spec.numeralLE]; simp; omega
    · have ih' := ih (n / B) (Nat.div_lt_self (Nat.pos_of_ne_zero hn) hB) hq
      have hlen : 1 ≤ (Spec.numeralLE B (n / B)).length := by
        have : ¬ (n / B = 0 ∨ B < 2) := by omega
        rw [Spec.numeralLE, dif_neg this]
        simp
      have e : (Spec.numeralLE B (n / B)).length = ((Spec.numeralLE B (n / B)).length - 1) + 1 := by omega
      rw [e, Nat.pow_succ]
      calc B ^ ((Spec.numeralLE B (n / B)).length - 1) * B ≤ (n / B) * B := Nat.mul_le_mul_right _ ih'
        _ ≤ n := Nat.div_mul_le_self n B

/-- if C^q < B^p, a number below C^n has at most n·p/q + 1 digits in base B -/
theorem digits_bound (B C p q : Nat) (hB : 2 ≤ B) (hq : 0 < q) (hpow : C ^ q < B ^ p) (n V : Nat) (hV : V < C ^ n) :
    (Spec.numeralLE B V).length ≤ n * p / q + 1 := by
  by_cases hV0 : V = 0
  · subst hV0; rw [Spec.numeralLE]; simp
  · apply Nat.le_of_not_lt
    intro hL
    have h1 := pow_le_of_numeralLE B hB V hV0
    have hm : B ^ (n * p / q + 1) ≤ B ^ ((Spec.numeralLE B V).length - 1) :=
      Nat.pow_le_pow_right (by omega) (by omega)
    have h2 : B ^ (n * p / q + 1) < C ^ n := Nat.lt_of_le_of_lt (Nat.le_trans hm h1) hV
    have h3 : (B ^ (n * p / q + 1)) ^ q < (C ^ n) ^ q := Nat.pow_lt_pow_left h2 (by omega)
    have h4 : (C ^ n) ^ q = (C ^ q) ^ n := by rw [← Nat.pow_mul, ← Nat.pow_mul, Nat.mul_comm]
    have h5 : (C ^ q) ^ n ≤ (B ^ p) ^ n := Nat.pow_le_pow_left (Nat.le_of_lt hpow) n
    have h6 : (B ^ p) ^ n = B ^ (n * p) := by rw [← Nat.pow_mul, Nat.mul_comm]
    have h7 : n * p ≤ (n * p / q + 1) * q := by
      have := Nat.div_add_mod (n * p) q
      have hr := Nat.mod_lt (n * p) hq
      rw [Nat.add_mul, Nat.one_mul, Nat.mul_comm (n * p / q) q]
      omega
    have h8 : B ^ (n * p) ≤ (B ^ (n * p / q + 1)) ^ q := by
      rw [← Nat.pow_mul]; exact Nat.pow_le_pow_right (by omega) h7
    rw [h4] at h3
    rw [h6] at h5
    exact Nat.lt_irrefl _ (Nat.lt_of_lt_of_le h3 (Nat.le_trans h5 h8))

theorem pow_256_58 : (256 : Nat) ^ 100 < 58 ^ 138 := by decide +kernel
theorem pow_58_256 : (58 : Nat) ^ 1000 < 256 ^ 733 := by decide +kernel

theorem beValue_lt (b : Bytes) : Spec.beValue b < 256 ^ b.length := by
  have := ConvertBits.numeralValue_lt 256 (by decide) (b.map UInt8.toNat) (bytes_allLt b)
  simpa [Spec.beValue] using this

/-- `EncodeBase58`: the digits of any `len`-byte number fit into `len * 138 / 100 + 1` places -/
theorem encode_digits_fit (b : Bytes) : (Spec.numeralLE 58 (Spec.beValue b)).length ≤ b.length * 138 / 100 + 1 :=
  digits_bound 58 256 138 100 (by decide) (by decide) pow_256_58 b.length _ (beValue_lt b)

/-- `DecodeBase58`: the bytes of any number of `len` base-58 digits fit into `len * 733 / 1000 + 1` places -/
theorem decode_bytes_fit (ds : List Nat) (h : AllLt 58 ds) :
    (Spec.numeralLE 256 (Spec.numeralValue 58 ds)).length ≤ ds.length * 733 / 1000 + 1 :=
  digits_bound 256 58 733 1000 (by decide) (by decide) pow_58_256 ds.length _ (ConvertBits.numeralValue_lt 58 (by decide) ds h)

/-- at every round of the encoder's loop (after any prefix `p` of the bytes `rest` that follow the leading zeros) the digits in
    use fit the buffer `b58` of `rest.length * 138 / 100 + 1` places: the loop never stops at `rend()` with a carry -/
theorem encode_loop_fits (p q : Bytes) :
    (p.foldl (fun ds ch => Model.mulAdd 58 256 ds ch.toNat) []).length ≤ (p ++ q).length * 138 / 100 + 1 := by
  rw [encode_loop]
  refine Nat.le_trans (encode_digits_fit p) ?_
  have : p.length * 138 / 100 ≤ (p ++ q).length * 138 / 100 := by
    apply Nat.div_le_div_right
    simp only [List.length_append]
    omega
  omega

/-- the same for the decoder's loop over the base-58 digits `p ++ q` of the body: `b256` has `(p ++ q).length * 733 / 1000 + 1` places -/
theorem decode_loop_fits (p q : List Nat) (h : AllLt 58 p) :
    (p.foldl (fun a d => Model.mulAdd 256 58 a d) []).length ≤ (p ++ q).length * 733 / 1000 + 1 := by
  have hfold := foldl_mulAdd 256 58 (by omega) (by omega) p [] (by intro d hd; simp at hd) (by simp [NoTopZero])
  obtain ⟨f1, f2, f3⟩ := hfold
  have hr : p.foldl (fun a d => Model.mulAdd 256 58 a d) [] = Spec.numeralLE 256 (Spec.numeralValue 58 p) := by
    apply eq_numeralLE 256 (by omega) _ _ f1 f2
    rw [f3]; simp [leVal, Spec.numeralValue]
  rw [hr]
  refine Nat.le_trans (decode_bytes_fit p h) ?_
  have : p.length * 733 / 1000 ≤ (p ++ q).length * 733 / 1000 := by
    apply Nat.div_le_div_right
    simp only [List.length_append]
    omega
  omega

end Btcdeb.Base58
