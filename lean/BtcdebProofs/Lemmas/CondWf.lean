/-
  Well-formedness of the compressed condition stack (`m_first_false_pos < m_stack_size` whenever there is a
  false entry) is kept by every operation.  Consequence used for C15: an EMPTY condition stack means "executing"
  (`allTrue`), so the first operation of a script that starts right after a hand-over is really executed.
-/
import Btcdeb
import BtcdebProofs.Lemmas.Frame
namespace Btcdeb.Model
open Btcdeb

/-- the first false position, if any, lies inside the stack -/
def CondStack.Wf (c : CondStack) : Prop := ∀ p, c.firstFalse = some p → p < c.size

theorem CondStack.wf_default : ({} : CondStack).Wf := by intro p h; cases h

theorem CondStack.allTrue_of_empty {c : CondStack} (hw : c.Wf) (he : c.empty = true) : c.allTrue = true := by
  cases hf : c.firstFalse with
  | none => simp [CondStack.allTrue, hf]
  | some p =>
    have := hw p hf
    simp [CondStack.empty] at he
    omega

theorem CondStack.pushBack_wf (c : CondStack) (f : Bool) (hw : c.Wf) : (c.pushBack f).Wf := by
  intro p hp
  simp only [CondStack.pushBack] at hp ⊢
  split at hp
  · cases hp; omega
  · have := hw p hp; omega

theorem CondStack.popBack_wf (c : CondStack) (hw : c.Wf) : c.popBack.Wf := by
  intro p hp
  simp only [CondStack.popBack] at hp ⊢
  split at hp
  · cases hp
  · rename_i hne
    have := hw p hp
    have : p ≠ c.size - 1 := by
      intro h; apply hne; rw [hp, h]; simp
    omega

theorem CondStack.toggleTop_wf (c : CondStack) (hw : c.Wf) (hne : c.empty = false) : c.toggleTop.Wf := by
  have hpos : 0 < c.size := by
    simp [CondStack.empty] at hne; omega
  intro p hp
  unfold CondStack.toggleTop at hp ⊢
  split at hp
  · simp only at hp ⊢; cases hp; omega
  · rename_i q hq
    split at hp
    · simp only at hp; cases hp
    · rename_i hne2
      split
      · rename_i h; exact absurd h hne2
      · exact hw p hp

/-- `m`, if it succeeds, leaves the condition stack well-formed -/
def KeepsCW (m : M SEE) (e : SEE) : Prop := ∀ e', m = .ok e' → e.cond.Wf → e'.cond.Wf

theorem kcw_bind {α} (x : M α) (f : α → M SEE) (e : SEE) (h : ∀ a, KeepsCW (f a) e) : KeepsCW (x >>= f) e := by
  intro e' he
  cases x with
  | error _ => cases he
  | ok a => exact h a e' he
theorem kcw_fail (x : ScriptError) (e : SEE) : KeepsCW (fail x) e := by intro e' he; cases he
theorem kcw_error (x : StepErr) (e : SEE) : KeepsCW (.error x) e := by intro e' he; cases he
theorem kcw_ite (c : Prop) [Decidable c] (a b : M SEE) (e : SEE) (ha : KeepsCW a e) (hb : KeepsCW b e) :
    KeepsCW (if c then a else b) e := by
  split <;> assumption
theorem kcw_ite' (c : Prop) [Decidable c] (a b : M SEE) (e : SEE) (ha : c → KeepsCW a e) (hb : ¬ c → KeepsCW b e) :
    KeepsCW (if c then a else b) e := by
  split
  · exact ha ‹_›
  · exact hb ‹_›
theorem kcw_sizeCheck (e1 e : SEE) (h : e.cond.Wf → e1.cond.Wf) : KeepsCW (sizeCheck e1) e := by
  intro e' he
  unfold sizeCheck at he
  split at he
  · cases he
  · cases he; exact h
theorem kcw_pure (e1 e : SEE) (h : e.cond.Wf → e1.cond.Wf) : KeepsCW (pure e1) e := by
  intro e' he; cases he; exact h

set_option hygiene false in
macro "kcw" : tactic => `(tactic|
  repeat (first
    | (apply kcw_fail)
    | (apply kcw_error)
    | (apply kcw_sizeCheck; first | exact fun h => h | exact CondStack.pushBack_wf _ _ | exact CondStack.popBack_wf _)
    | (apply kcw_pure; exact fun h => h)
    | (apply kcw_ite)
    | (apply kcw_bind; intro _)
    ))

theorem stepExtended_kcw (e : SEE) (op : Opcode) : KeepsCW (stepExtended e op) e := by
  cases op <;> simp only [stepExtended] <;> kcw

theorem execOpcode_kcw (cx : Ctx) (e : SEE) (op : Opcode) (fExec : Bool) (pc : Bytes) :
    KeepsCW (execOpcode cx e op fExec pc) e := by
  cases op
  case OP_ELSE =>
    simp only [execOpcode]
    apply kcw_ite'
    · intro _; exact kcw_fail _ _
    · intro hne; apply kcw_sizeCheck; intro hw
      exact CondStack.toggleTop_wf _ hw (by simpa using hne)
  all_goals (simp only [execOpcode]; first | exact stepExtended_kcw e _ | kcw)

theorem countOp_kcw (e : SEE) (n : Nat) : KeepsCW (countOp e n) e := by
  unfold countOp; kcw

/-- a successful `StepScript` keeps the condition stack well-formed -/
theorem step_condWf (cx : Ctx) (e : SEE) (pc : Bytes) :
    Post (step cx e pc) (fun r => e.cond.Wf → r.1.cond.Wf) := by
  unfold step
  simp only []
  split
  · exact post_fail _ _
  · refine post_ite _ _ _ _ (post_fail _ _) ?_
    refine post_bind (Q := fun e1 : SEE => e.cond.Wf → e1.cond.Wf) (countOp_kcw e _) ?_
    intro e1 h1
    refine post_ite _ _ _ _ (post_fail _ _) ?_
    refine post_ite _ _ _ _ (post_fail _ _) ?_
    refine post_ite _ _ _ _ ?_ ?_
    · refine post_ite _ _ _ _ (post_fail _ _) ?_
      refine post_bind (Q := fun e2 : SEE => e.cond.Wf → e2.cond.Wf) ?_ ?_
      · intro e2 h2 hw; exact kcw_sizeCheck { e1 with stack := e1.stack ++ [_] } e1 (fun h => h) e2 h2 (h1 hw)
      · intro e2 h2; exact post_pure _ _ h2
    · refine post_ite _ _ _ _ ?_ ?_
      · refine post_bind (Q := fun e2 : SEE => e.cond.Wf → e2.cond.Wf) ?_ ?_
        · intro e2 h2 hw; exact execOpcode_kcw cx e1 _ _ _ e2 h2 (h1 hw)
        · intro e2 h2; exact post_pure _ _ h2
      · refine post_bind (Q := fun e2 : SEE => e.cond.Wf → e2.cond.Wf) ?_ ?_
        · intro e2 h2 hw; exact kcw_sizeCheck _ e1 (fun h => h) e2 h2 (h1 hw)
        · intro e2 h2; exact post_pure _ _ h2

end Btcdeb.Model
