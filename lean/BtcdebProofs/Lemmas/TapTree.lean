/-
  Lemmas for C06: lexicographic order on byte strings, symmetry of the BIP341 branch hash, Merkle chains,
  splitting the path part of a control block.
-/
import Btcdeb.Spec.TapTree
import Btcdeb.Model.Tap
import Btcdeb.Crypto.Hash
namespace Btcdeb.Proofs.TapTree
open Btcdeb Btcdeb.Spec

theorem lexLt_eq_bytesLt (a b : Bytes) : Model.lexLt a b = bytesLt a b := by
  induction a generalizing b with
  | nil => cases b <;> rfl
  | cons x xs ih =>
    cases b with
    | nil => rfl
    | cons y ys =>
      simp only [Model.lexLt, bytesLt, ih]
      by_cases h1 : x.toNat < y.toNat
      · simp [h1]
      · by_cases h2 : y.toNat < x.toNat
        · have : ¬ x.toNat = y.toNat := by omega
          simp [h1, h2, this]
        · have : x.toNat = y.toNat := by omega
          simp [this]

theorem bytesLt_asymm {a b : Bytes} (h : bytesLt a b = true) : bytesLt b a = false := by
  induction a generalizing b with
  | nil => cases b <;> simp_all [bytesLt]
  | cons x xs ih =>
    cases b with
    | nil => simp_all [bytesLt]
    | cons y ys =>
      simp only [bytesLt, Bool.or_eq_true, decide_eq_true_eq, Bool.and_eq_true, beq_iff_eq] at h
      simp only [bytesLt, Bool.or_eq_false_iff, decide_eq_false_iff_not, Bool.and_eq_false_iff, beq_eq_false_iff_ne]
      rcases h with h | ⟨h1, h2⟩
      · exact ⟨by omega, Or.inl (by omega)⟩
      · exact ⟨by omega, Or.inr (ih h2)⟩

theorem bytesLt_total {a b : Bytes} (h1 : bytesLt a b = false) (h2 : bytesLt b a = false) : a = b := by
  induction a generalizing b with
  | nil => cases b <;> simp_all [bytesLt]
  | cons x xs ih =>
    cases b with
    | nil => simp_all [bytesLt]
    | cons y ys =>
      simp only [bytesLt, Bool.or_eq_false_iff, decide_eq_false_iff_not, Bool.and_eq_false_iff, beq_eq_false_iff_ne] at h1 h2
      have hxy : x.toNat = y.toNat := by omega
      have : x = y := UInt8.toNat_inj.mp hxy
      subst this
      have := ih (b := ys) (by rcases h1.2 with h | h; exact absurd rfl h; exact h)
        (by rcases h2.2 with h | h; exact absurd rfl h; exact h)
      rw [this]

theorem tapBranchHash_comm (o : TapOracle) (a b : Bytes) : tapBranchHash o a b = tapBranchHash o b a := by
  unfold tapBranchHash
  by_cases h1 : bytesLt a b = true
  · simp [h1, bytesLt_asymm h1]
  · by_cases h2 : bytesLt b a = true
    · simp [h1, h2]
    · have := bytesLt_total (by simpa using h1) (by simpa using h2)
      subst this; simp

/-- the last entry of a Merkle chain: fold of the branch hash over the path -/
theorem merkleChain_ne_nil (o : TapOracle) (x : Bytes) (p : List Bytes) : merkleChain o x p ≠ [] := by
  cases p <;> simp [merkleChain]

theorem merkleChain_last_nil (o : TapOracle) (x : Bytes) : (merkleChain o x []).getLastD [] = x := by
  simp [merkleChain]

theorem merkleChain_last_cons (o : TapOracle) (x n : Bytes) (p : List Bytes) :
    (merkleChain o x (n :: p)).getLastD [] = (merkleChain o (tapBranchHash o x n) p).getLastD [] := by
  have := merkleChain_ne_nil o (tapBranchHash o x n) p
  cases h : merkleChain o (tapBranchHash o x n) p with
  | nil => exact absurd h this
  | cons a as => simp [merkleChain, h]

theorem merkleChain_last_snoc (o : TapOracle) (x s : Bytes) (p : List Bytes) :
    (merkleChain o x (p ++ [s])).getLastD [] = tapBranchHash o ((merkleChain o x p).getLastD []) s := by
  induction p generalizing x with
  | nil => simp [merkleChain]
  | cons n p ih => simp only [List.cons_append, merkleChain_last_cons, ih]

theorem pathNodes_flatten (p : List Bytes) (h : ∀ x ∈ p, x.length = 32) : pathNodes p.length p.flatten = p := by
  induction p with
  | nil => simp [pathNodes]
  | cons a p ih =>
    have ha : a.length = 32 := h a (by simp)
    have ih' := ih (fun x hx => h x (by simp [hx]))
    simp only [List.length_cons, List.flatten_cons, pathNodes, List.length_append, ha]
    rw [if_neg (by omega)]
    rw [List.take_append_of_le_length (by omega), List.drop_append_of_le_length (by omega)]
    have t : a.take 32 = a := by rw [← ha]; exact List.take_length
    have d : a.drop 32 = [] := by rw [← ha]; exact List.drop_length
    rw [t, d, List.nil_append, ih']

theorem flatten_length32 (p : List Bytes) (h : ∀ x ∈ p, x.length = 32) : p.flatten.length = 32 * p.length := by
  induction p with
  | nil => simp
  | cons a p ih =>
    have ha : a.length = 32 := h a (by simp)
    have ih' := ih (fun x hx => h x (by simp [hx]))
    simp only [List.flatten_cons, List.length_append, List.length_cons, ha, ih']; omega

/-! ## SHA-256 returns 32 bytes -/
open Btcdeb.Crypto in
theorem compress_size (H M : Array UInt32) (off : Nat) : (Sha256.compress H M off).size = 8 := by
  unfold Sha256.compress
  simp only [Id.run, bind, pure]
  rfl

open Btcdeb.Crypto in
theorem mdIterate_size (f : Array UInt32 → Array UInt32 → Nat → Array UInt32) (iv M : Array UInt32) (n : Nat)
    (h0 : iv.size = n) (hf : ∀ H M off, (f H M off).size = n) : (mdIterate f iv M).size = n := by
  unfold mdIterate
  generalize List.range (M.size / 16) = l
  induction l generalizing iv with
  | nil => simpa using h0
  | cons a l ih => simp only [List.foldl_cons]; exact ih _ (hf _ _ _)

open Btcdeb.Crypto in
theorem sha256_length (msg : Bytes) : (sha256 msg).length = 32 := by
  unfold sha256
  simp only
  generalize hH : mdIterate Sha256.compress Sha256.H0 _ = H
  have hs : H.size = 8 := by rw [← hH]; exact mdIterate_size _ _ _ 8 rfl compress_size
  have : ∀ l : List UInt32, (l.flatMap bytesOfWordBE).length = 4 * l.length := by
    intro l; induction l with
    | nil => rfl
    | cons a l ih => simp [List.flatMap_cons, ih, bytesOfWordBE]; omega
  rw [this, Array.length_toList, hs]

theorem taggedHash_length (tag msg : Bytes) : (Crypto.taggedHash tag msg).length = 32 := sha256_length _

end Btcdeb.Proofs.TapTree
