/-
  Helper lemmas for the state displays (Btcdeb/Model/Display.lean): characters of the pieces of a line, the hex round
  trip, lines of a text, the loops of `print_stack` / `print_bool_stack` in functional form, reading a line back.
-/
import Btcdeb
import BtcdebProofs.Refine.Basic
import BtcdebProofs.Lemmas.CondWf
namespace Btcdeb.Display
open Btcdeb Btcdeb.Model

-- characters -----------------------------------------------------------------------------------------------------

/-- a character that is none of the separators the read-back functions look for -/
def Plain (c : Char) : Prop := c ≠ '\t' ∧ c ≠ '\n' ∧ c ≠ '>'

theorem plain_of_isDigit {c : Char} (h : c.isDigit = true) : Plain c := by
  refine ⟨?_, ?_, ?_⟩ <;> (intro he; subst he; revert h; decide)

theorem hexDigit_plain : ∀ n, n < 16 → Plain (hexDigit n) := by
  unfold Plain; decide

theorem hexVal_hexDigit : ∀ n, n < 16 → hexVal (hexDigit n) = some n := by decide

theorem plain_hexStr (b : Bytes) : ∀ c ∈ hexStr b, Plain c := by
  intro c hc
  simp only [hexStr, List.mem_flatMap, hexOfByte, List.mem_cons, List.not_mem_nil, or_false] at hc
  obtain ⟨x, _, h | h⟩ := hc
  · subst h; exact hexDigit_plain _ (Nat.div_lt_of_lt_mul (by have := x.toNat_lt; omega))
  · subst h; exact hexDigit_plain _ (Nat.mod_lt _ (by decide))

theorem plain_dec02 (n : Nat) : ∀ c ∈ dec02 n, Plain c := by
  intro c hc
  simp only [dec02, List.mem_append, List.mem_replicate] at hc
  rcases hc with ⟨_, h⟩ | h
  · subst h; exact plain_of_isDigit (by decide)
  · exact plain_of_isDigit (Nat.isDigit_of_mem_toDigits (by decide) (by decide) h)

-- hex round trip ---------------------------------------------------------------------------------------------------

theorem ofHexChars_hexOfByte (x : UInt8) (rest : List Char) :
    ofHexChars (hexOfByte x ++ rest) = (ofHexChars rest).map (x :: ·) := by
  have h1 : x.toNat / 16 < 16 := Nat.div_lt_of_lt_mul (by have := x.toNat_lt; omega)
  have h2 : x.toNat % 16 < 16 := Nat.mod_lt _ (by decide)
  have hx : UInt8.ofNat (x.toNat / 16 * 16 + x.toNat % 16) = x := by
    rw [Nat.div_add_mod' x.toNat 16]; exact UInt8.ofNat_toNat
  simp only [hexOfByte, List.cons_append, List.nil_append, ofHexChars, hexVal_hexDigit _ h1, hexVal_hexDigit _ h2]
  cases ofHexChars rest <;> simp [hx]

theorem ofHexChars_hexStr (b : Bytes) : ofHexChars (hexStr b) = some b := by
  induction b with
  | nil => rfl
  | cons x xs ih =>
    have : hexStr (x :: xs) = hexOfByte x ++ hexStr xs := by simp [hexStr]
    rw [this, ofHexChars_hexOfByte, ih]; rfl

-- lines ------------------------------------------------------------------------------------------------------------

theorem splitLinesAux_line (l : List Char) (hl : ∀ c ∈ l, c ≠ '\n') (rest cur : List Char) :
    splitLinesAux (l ++ '\n' :: rest) cur = (cur.reverse ++ l) :: splitLinesAux rest [] := by
  induction l generalizing cur with
  | nil => simp [splitLinesAux]
  | cons c cs ih =>
    have hc : (c == '\n') = false := by simpa using hl c (by simp)
    simp only [List.cons_append, splitLinesAux, hc, Bool.false_eq_true, if_false]
    rw [ih (fun d hd => hl d (by simp [hd]))]
    simp

/-- a text made of lines is split into exactly these lines -/
theorem splitLines_unlines (ls : List (List Char)) (h : ∀ l ∈ ls, ∀ c ∈ l, c ≠ '\n') :
    splitLines (unlines ls) = ls := by
  induction ls with
  | nil => rfl
  | cons l rest ih =>
    have : unlines (l :: rest) = l ++ '\n' :: unlines rest := by simp [unlines]
    unfold splitLines at ih ⊢
    rw [this, splitLinesAux_line l (h l (by simp)), ih (fun l' hl' => h l' (by simp [hl']))]
    simp

theorem dropWhile_append_all {p : Char → Bool} (a b : List Char) (h : ∀ c ∈ a, p c = true) :
    (a ++ b).dropWhile p = b.dropWhile p := by
  induction a with
  | nil => rfl
  | cons c cs ih =>
    simp only [List.cons_append, List.dropWhile_cons, h c (by simp), if_true]
    exact ih (fun d hd => h d (by simp [hd]))

theorem flatMap_congr' {α β} {l : List α} {f g : α → List β} (h : ∀ a ∈ l, f a = g a) : l.flatMap f = l.flatMap g := by
  rw [List.flatMap_def, List.flatMap_def, List.map_congr_left h]

theorem takeWhile_append_all {p : Char → Bool} (a b : List Char) (h : ∀ c ∈ a, p c = true) :
    (a ++ b).takeWhile p = a ++ b.takeWhile p := by
  induction a with
  | nil => rfl
  | cons c cs ih =>
    simp only [List.cons_append, List.takeWhile_cons, h c (by simp), if_true]
    rw [ih (fun d hd => h d (by simp [hd]))]


-- the loops in functional form --------------------------------------------------------------------------------------

/-- the numbered lines of the items `items` (TOP FIRST), the first of them carrying the number `i + 1` -/
def linesFrom : Nat → List Bytes → List (List Char)
  | _, [] => []
  | i, it :: rest => stackLine (i + 1) it :: linesFrom (i + 1) rest

theorem stackLoop_eq (stack : List Bytes) : ∀ (n i : Nat), n ≤ stack.length →
    stackLoop stack n i = linesFrom i (stack.take n).reverse := by
  intro n
  induction n with
  | zero => intro i _; simp [stackLoop, linesFrom]
  | succ n ih =>
    intro i hn
    have hlt : n < stack.length := by omega
    have htake : (stack.take (n + 1)).reverse = stack[n] :: (stack.take n).reverse := by
      rw [List.take_succ_eq_append_getElem hlt]; simp
    have hget : stack.getD n [] = stack[n] := by simp [List.getD, hlt]
    rw [htake, stackLoop, linesFrom, ih (i + 1) (by omega), hget]

/-- `print_stack` in numbered mode, by cases -/
theorem printStack_numbered (stack : List Bytes) :
    printStack stack false =
      if stack = [] then unlines [emptyStackLine] else unlines (linesFrom 0 stack.reverse) := by
  unfold printStack
  simp only [Bool.false_eq_true, if_false]
  rw [stackLoop_eq stack stack.length 0 (Nat.le_refl _), List.take_length]
  cases stack with
  | nil => simp [linesFrom]
  | cons a as => simp

/-- the lines of the levels `bs` (INNERMOST FIRST), the first of them carrying the number `i + 1` -/
def boolLinesFrom : Nat → List Bool → List (List Char)
  | _, [] => []
  | i, b :: rest => boolLine (i + 1) b :: boolLinesFrom (i + 1) rest

theorem boolLoop_eq (c : CondStack) : ∀ (n i : Nat),
    boolLoop c n i = boolLinesFrom i ((List.range n).map c.atIdx).reverse := by
  intro n
  induction n with
  | zero => intro i; simp [boolLoop, boolLinesFrom]
  | succ n ih =>
    intro i
    rw [List.range_succ, List.map_append, List.reverse_append]
    simp only [List.map_cons, List.map_nil, List.reverse_cons, List.reverse_nil, List.nil_append, List.cons_append]
    rw [boolLoop, boolLinesFrom, ih (i + 1)]

theorem printBoolStack_eq (c : CondStack) :
    printBoolStack c =
      if c.size = 0 then unlines [emptyStackLine] else unlines (boolLinesFrom 0 c.toList.reverse) := by
  unfold printBoolStack CondStack.toList
  rw [boolLoop_eq c c.size 0]
  by_cases h : c.size = 0
  · simp [h, boolLinesFrom]
  · simp [h]

-- reading lines back -------------------------------------------------------------------------------------------------

theorem plain_ne_tab {c : Char} (h : Plain c) : (c != '\t') = true := by simpa using h.1
theorem plain_ne_gt {c : Char} (h : Plain c) : (c != '>') = true := by simpa using h.2.2

theorem stackLine_no_newline (i : Nat) (it : Bytes) : ∀ c ∈ stackLine i it, c ≠ '\n' := by
  intro c hc
  simp only [stackLine, List.mem_append, List.mem_cons, List.not_mem_nil, or_false] at hc
  rcases hc with (((h | h) | h | h) | h) | h
  · subst h; decide
  · exact (plain_dec02 i c h).2.1
  · subst h; decide
  · subst h; decide
  · exact (plain_hexStr it c h).2.1
  · split at h
    · simp only [topMark, List.mem_cons, List.not_mem_nil, or_false] at h
      rcases h with h | h | h | h | h | h <;> (subst h; decide)
    · cases h

theorem boolLine_no_newline (i : Nat) (b : Bool) : ∀ c ∈ boolLine i b, c ≠ '\n' := by
  intro c hc
  simp only [boolLine, List.mem_append, List.mem_cons, List.not_mem_nil, or_false] at hc
  rcases hc with ((h | h) | h | h) | h
  · subst h; decide
  · exact (plain_dec02 i c h).2.1
  · subst h; decide
  · subst h; decide
  · have : c = '0' ∨ c = '1' := by cases b <;> simp [hex02Bool] at h <;> simp [h]
    rcases this with h | h <;> (subst h; decide)

/-- the part of a line after its first TAB -/
theorem after_tab (i : Nat) (rest : List Char) :
    ((['<'] ++ dec02 i ++ ['>', '\t'] ++ rest).dropWhile (· != '\t')).drop 1 = rest := by
  have : ['<'] ++ dec02 i ++ ['>', '\t'] ++ rest = (['<'] ++ dec02 i ++ ['>']) ++ ('\t' :: rest) := by simp
  rw [this, dropWhile_append_all]
  · simp
  · intro c hc
    simp only [List.mem_append, List.mem_cons, List.not_mem_nil, or_false] at hc
    rcases hc with (h | h) | h
    · subst h; decide
    · exact plain_ne_tab (plain_dec02 i c h)
    · subst h; decide

/-- the item is read back from its line -/
theorem readItem_stackLine (i : Nat) (it : Bytes) : readItem (stackLine i it) = some it := by
  unfold readItem stackLine
  rw [List.append_assoc (['<'] ++ dec02 i ++ ['>', '\t']), after_tab]
  have hall : ∀ c ∈ hexStr it, (c != '\t') = true := fun c hc => plain_ne_tab (plain_hexStr it c hc)
  rw [takeWhile_append_all _ _ hall]
  have : (if (i == 1) = true then topMark else []).takeWhile (· != '\t') = [] := by
    split <;> simp [topMark]
  rw [this, List.append_nil, ofHexChars_hexStr]

/-- the number is read back from its line: line `i` carries `i` -/
theorem readNumber_stackLine (i : Nat) (it : Bytes) : readNumber (stackLine i it) = i := by
  unfold readNumber stackLine
  have : ['<'] ++ dec02 i ++ ['>', '\t'] ++ hexStr it ++ (if (i == 1) = true then topMark else []) =
      '<' :: (dec02 i ++ ('>' :: ('\t' :: hexStr it ++ (if (i == 1) = true then topMark else [])))) := by simp
  rw [this, List.drop_one, List.tail_cons,
    takeWhile_append_all _ _ (fun c hc => plain_ne_gt (plain_dec02 i c hc))]
  simp only [List.takeWhile_cons, bne_self_eq_false, Bool.false_eq_true, if_false, List.append_nil]
  unfold dec02
  rw [Nat.ofDigitChars_append, Nat.ofDigitChars_replicate_zero, Nat.mul_zero]
  exact Nat.ofDigitChars_ten_toDigits

theorem mapM_readItem_linesFrom : ∀ (items : List Bytes) (i : Nat), (linesFrom i items).mapM readItem = some items := by
  intro items
  induction items with
  | nil => intro i; rfl
  | cons it rest ih =>
    intro i
    simp [linesFrom, List.mapM_cons, readItem_stackLine, ih (i + 1)]

theorem linesFrom_no_newline : ∀ (items : List Bytes) (i : Nat), ∀ l ∈ linesFrom i items, ∀ c ∈ l, c ≠ '\n' := by
  intro items
  induction items with
  | nil => intro i l hl; cases hl
  | cons it rest ih =>
    intro i l hl
    simp only [linesFrom, List.mem_cons] at hl
    rcases hl with h | h
    · subst h; exact stackLine_no_newline _ _
    · exact ih (i + 1) l h

theorem emptyStackLine_no_newline : ∀ c ∈ emptyStackLine, c ≠ '\n' := by decide

theorem readBool_boolLine (i : Nat) (b : Bool) : readBool (boolLine i b) = some b := by
  unfold readBool boolLine
  rw [after_tab]
  cases b <;> simp [hex02Bool]

theorem mapM_readBool_boolLinesFrom : ∀ (bs : List Bool) (i : Nat), (boolLinesFrom i bs).mapM readBool = some bs := by
  intro bs
  induction bs with
  | nil => intro i; rfl
  | cons b rest ih =>
    intro i
    simp [boolLinesFrom, List.mapM_cons, readBool_boolLine, ih (i + 1)]

theorem boolLinesFrom_no_newline : ∀ (bs : List Bool) (i : Nat), ∀ l ∈ boolLinesFrom i bs, ∀ c ∈ l, c ≠ '\n' := by
  intro bs
  induction bs with
  | nil => intro i l hl; cases hl
  | cons b rest ih =>
    intro i l hl
    simp only [boolLinesFrom, List.mem_cons] at hl
    rcases hl with h | h
    · subst h; exact boolLine_no_newline _ _
    · exact ih (i + 1) l h

/-- the first false position of the displayed levels (outermost first) is the stored one when that lies inside the stack -/
theorem findIdx_atIdx (p : Nat) : ∀ n, ((List.range n).map (fun j => decide (p > j))).findIdx? (fun b => !b) =
    if p < n then some p else none := by
  intro n
  induction n with
  | zero => simp
  | succ n ih =>
    rw [List.range_succ, List.map_append, List.findIdx?_append, ih]
    by_cases h : p < n
    · have : p < n + 1 := by omega
      simp [h, this]
    · by_cases h2 : p = n
      · subst h2; simp
      · have h3 : ¬ p < n + 1 := by omega
        have h4 : p > n := by omega
        simp [h, h3, h4]

theorem findIdx_toList (c : CondStack) :
    c.toList.findIdx? (fun b => !b) = match c.firstFalse with
      | none => none
      | some p => if p < c.size then some p else none := by
  unfold CondStack.toList
  cases hf : c.firstFalse with
  | none =>
    have : (List.range c.size).map c.atIdx = (List.range c.size).map (fun _ => true) := by
      apply List.map_congr_left; intro j _; simp [CondStack.atIdx, hf]
    rw [this]
    simp [List.findIdx?_eq_none_iff]
  | some p =>
    have : (List.range c.size).map c.atIdx = (List.range c.size).map (fun j => decide (p > j)) := by
      apply List.map_congr_left; intro j _; simp [CondStack.atIdx, hf]
    rw [this, findIdx_atIdx]


-- model text = specification text -------------------------------------------------------------------------------------

/-- `%02d` is "decimal, at least two digits" -/
theorem dec02_eq_lineNumber (n : Nat) : dec02 n = Spec.lineNumber n := by
  unfold dec02 Spec.lineNumber
  by_cases h : n < 10
  · simp [h, Nat.toDigits_of_lt_base h]
  · have hlen : ¬ (Nat.toDigits 10 n).length ≤ 1 := by
      rw [Nat.length_toDigits_le_iff (by decide) (by decide)]; simpa using h
    have : 2 - (Nat.toDigits 10 n).length = 0 := by omega
    simp [h, this]

theorem stackLine_eq_itemLine (i : Nat) (it : Bytes) : stackLine i it ++ ['\n'] = Spec.itemLine it i := by
  unfold stackLine Spec.itemLine
  rw [dec02_eq_lineNumber]
  by_cases h : i = 1 <;> simp [h, hexStr, Spec.showHex, topMark]

theorem unlines_linesFrom : ∀ (items : List Bytes) (i : Nat),
    unlines (linesFrom i items) = (items.zipIdx (i + 1)).flatMap (fun p => Spec.itemLine p.1 p.2) := by
  intro items
  induction items with
  | nil => intro i; rfl
  | cons it rest ih =>
    intro i
    have := ih (i + 1)
    simp only [unlines] at this ⊢
    simp only [linesFrom, List.flatMap_cons, List.zipIdx_cons, this, stackLine_eq_itemLine]

/-- numbered mode: the text is the specification's rendering of the stack read top first -/
theorem printStack_eq_showStack (stack : List Bytes) : printStack stack false = Spec.showStack stack.reverse := by
  rw [printStack_numbered]
  unfold Spec.showStack
  by_cases h : stack = []
  · subst h; rfl
  · have : stack.reverse.isEmpty = false := by simpa using h
    rw [if_neg h, this, unlines_linesFrom]; rfl

/-- raw mode: one hex line per item, bottom first -/
theorem printStack_raw_eq_showRaw (stack : List Bytes) : printStack stack true = Spec.showRaw stack.reverse := by
  simp [printStack, Spec.showRaw, unlines, List.flatMap_map, hexStr, Spec.showHex]

theorem boolLine_eq_levelLine (i : Nat) (b : Bool) : boolLine i b ++ ['\n'] = Spec.levelLine b i := by
  unfold boolLine Spec.levelLine hex02Bool
  rw [dec02_eq_lineNumber]

theorem unlines_boolLinesFrom : ∀ (bs : List Bool) (i : Nat),
    unlines (boolLinesFrom i bs) = (List.range bs.length).flatMap (fun k => Spec.levelLine (bs.getD k true) (i + k + 1)) := by
  intro bs
  induction bs with
  | nil => intro i; rfl
  | cons b rest ih =>
    intro i
    have := ih (i + 1)
    simp only [unlines] at this ⊢
    rw [List.length_cons, List.range_succ_eq_map, List.flatMap_cons, List.flatMap_map]
    simp only [boolLinesFrom, List.flatMap_cons, this, boolLine_eq_levelLine]
    congr 1
    apply flatMap_congr'
    intro k _
    have : i + 1 + k + 1 = i + (k + 1) + 1 := by omega
    simp [this]

theorem all_take_findIdx : ∀ (xs : List Bool) (m : Nat),
    (xs.take m).all id = match xs.findIdx? (fun b => !b) with
      | none => true
      | some p => decide (m ≤ p) := by
  intro xs
  induction xs with
  | nil => intro m; simp
  | cons x rest ih =>
    intro m
    cases m with
    | zero => cases x <;> simp [List.findIdx?_cons] <;> (cases rest.findIdx? (fun b => !b) <;> simp)
    | succ m =>
      cases x
      · simp [List.findIdx?_cons]
      · simp only [List.take_succ_cons, List.all_cons, id, Bool.true_and, List.findIdx?_cons, Bool.not_true,
          Bool.false_eq_true, if_false, ih m]
        cases rest.findIdx? (fun b => !b) <;> simp

/-- level `k` from the inside executes exactly when the first false level (from the outside) lies further in -/
theorem all_drop_firstFalse (l : List Bool) (k : Nat) (hk : k < l.length) :
    (l.drop k).all id = match Refine.firstFalseOuter l with
      | none => true
      | some p => decide (p > l.length - 1 - k) := by
  rw [← List.all_reverse, List.reverse_drop, all_take_findIdx]
  unfold Refine.firstFalseOuter
  cases l.reverse.findIdx? (fun b => !b) with
  | none => rfl
  | some p => simp only [decide_eq_decide]; omega

/-- what `vfexec` lists, innermost level first, for a condition stack representing `l` -/
theorem toList_reverse_of_condRel {c : CondStack} {l : List Bool} (h : Refine.CondRel c l) :
    c.toList.reverse = (List.range l.length).map (fun k => (l.drop k).all id) := by
  obtain ⟨h1, h2, _⟩ := h
  apply List.ext_getElem
  · simp [CondStack.toList, h1]
  · intro k hk1 hk2
    have hk : k < l.length := by simpa using hk2
    simp only [CondStack.toList, List.getElem_reverse, List.getElem_map, List.getElem_range, List.length_map,
      List.length_range]
    rw [all_drop_firstFalse l k hk, ← h2, h1]
    cases hf : c.firstFalse <;> simp [CondStack.atIdx, hf]

/-- `vfexec`: the text is the specification's rendering of the nesting the condition stack represents -/
theorem printBoolStack_eq_showCond {c : CondStack} {l : List Bool} (h : Refine.CondRel c l) :
    printBoolStack c = Spec.showCond l := by
  rw [printBoolStack_eq, toList_reverse_of_condRel h]
  unfold Spec.showCond
  have h1 := h.1
  by_cases hz : c.size = 0
  · have : l = [] := List.length_eq_zero_iff.mp (by omega)
    subst this; simp [hz, unlines, emptyStackLine, Spec.emptyStackText]
  · have : l.isEmpty = false := by
      cases l with
      | nil => simp at h1; omega
      | cons _ _ => rfl
    rw [if_neg hz, this, unlines_boolLinesFrom]
    simp only [List.length_map, List.length_range, Bool.false_eq_true, if_false]
    apply flatMap_congr'
    intro k hk
    have hk' : k < l.length := by simpa using hk
    simp [List.getD, hk']

end Btcdeb.Display
