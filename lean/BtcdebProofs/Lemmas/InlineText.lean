/-
  The `Value` constructor on the text `name(arg)` (value.h:178-195): parse the inner text, assign it into the value under
  construction (`operator=`: type and active field only), run `do_exec(name)`.
-/
import Btcdeb.Model.Transforms
namespace Btcdeb.InlineText
open Btcdeb Model

theorem takeWhile_append_stop {α} (p : α → Bool) (l : List α) (x : α) (r : List α) (hl : ∀ y ∈ l, p y = true) (hx : p x = false) :
    (l ++ x :: r).takeWhile p = l := by
  induction l with
  | nil => simp [List.takeWhile, hx]
  | cons y ys ih =>
    simp [hl y (by simp)]
    exact ih (fun z hz => hl z (by simp [hz]))

theorem takeWhile_all' {α} (q : α → Bool) : ∀ (l : List α), (∀ x ∈ l, q x = true) → l.takeWhile q = l := by
  intro l
  induction l with
  | nil => intro _; rfl
  | cons x xs ih => intro h; simp [List.takeWhile, h x (by simp), ih (fun y hy => h y (by simp [hy]))]

/-- the constructor on the text `name(arg)`: the inner text is parsed, assigned (type and active field only) into the value
    under construction, and `do_exec(name)` runs on that -/
theorem inline_text (cx : VCtx) (mk : Bytes → Nat → TM Value) (nm arg : Bytes) (hlen : nm.length ≤ 29)
    (hnm : ∀ c ∈ nm, c.toNat ≠ 40 ∧ c.toNat ≠ 0) (hpos : nm.length + arg.length > 1) :
    valueBodyF cx mk (nm ++ [40] ++ arg ++ [41]) (nm.length + arg.length + 2) = (do
      let inner ← mk arg arg.length
      let this := ({ type := .T_STRING, str := nm ++ [40] ++ arg ++ [41] } : Value).assign inner
      match this.doExecF cx nm with
      | some r => r
      | none => do
        sayErr (asc "unknown function " ++ cstrOf nm ++ asc ": expression left as is\n")
        pure (classifyPlainF this (nm ++ [40] ++ arg ++ [41]) (nm.length + arg.length + 2))) := by
  have hfull : (nm ++ [40] ++ arg ++ [41] : Bytes) = nm ++ (40 :: (arg ++ [41])) := by simp
  have hl : (nm ++ (40 :: (arg ++ [41])) : Bytes).length = nm.length + arg.length + 2 := by simp; omega
  have hlast : (nm ++ (40 :: (arg ++ [41])) : Bytes).getD (nm.length + arg.length + 2 - 1) 0 = 41 := by
    have e : nm ++ (40 :: (arg ++ [41])) = (nm ++ 40 :: arg) ++ [41] := by simp
    rw [e, List.getD_eq_getElem?_getD, List.getElem?_append_right (by simp; omega)]
    have : nm.length + arg.length + 2 - 1 - (nm ++ 40 :: arg).length = 0 := by simp; omega
    rw [this]; rfl
  have hparen : (nm ++ (40 :: (arg ++ [41])) : Bytes).getD nm.length 0 = 40 := by
    rw [List.getD_eq_getElem?_getD, List.getElem?_append_right (Nat.le_refl _), Nat.sub_self]; rfl
  have hfn : ((nm ++ (40 :: (arg ++ [41])) : Bytes).take 29).takeWhile (fun c => c.toNat != 40 && c.toNat != 0) = nm := by
    have hp : ∀ y ∈ nm, (y.toNat != 40 && y.toNat != 0) = true := by
      intro y hy; obtain ⟨a, b⟩ := hnm y hy; simp [a, b]
    rw [List.take_append]
    rw [List.take_of_length_le hlen]
    cases hk : 29 - nm.length with
    | zero => simp only [List.take_zero, List.append_nil]; exact takeWhile_all' _ nm hp
    | succ m =>
      rw [List.take_succ_cons]
      exact takeWhile_append_stop _ nm 40 _ hp (by decide)
  have hval : ((nm ++ (40 :: (arg ++ [41])) : Bytes).drop (nm.length + 1)).take arg.length = arg := by
    rw [List.drop_append, List.drop_eq_nil_of_le (by omega), List.nil_append]
    have : nm.length + 1 - nm.length = 1 := by omega
    rw [this, List.drop_succ_cons, List.drop_zero]
    exact List.take_left' rfl
  have hvl : nm.length + arg.length + 2 - (nm.length + 1) - 1 = arg.length := by omega
  rw [hfull]
  unfold valueBodyF
  have h0 : (nm.length + arg.length + 2 == 0) = false := beq_eq_false_iff_ne.mpr (by omega)
  have h2 : (nm.length + arg.length + 2 == 2) = false := beq_eq_false_iff_ne.mpr (by omega)
  have h93 : ((41 : UInt8) == 93) = false := by decide
  simp only [h0, Bool.false_eq_true, ↓reduceIte, h2, Bool.false_and, hlast, h93, Bool.and_false, hfn, hparen, hval, hvl]
  have hc : (decide (nm.length + arg.length + 2 > 3) && (41 : UInt8) == 41 && (40 : UInt8) == 40) = true := by
    simp; omega
  simp only [hc, ↓reduceIte]
  rfl

end Btcdeb.InlineText
