/-
  The output of the executable SHA-256 has 32 bytes (needed to split a Base58Check string into payload and checksum).
-/
import Btcdeb.Crypto.Hash
namespace Btcdeb.Crypto
theorem compress_size (H M : Array UInt32) (off : Nat) : (Sha256.compress H M off).size = 8 := by
  unfold Sha256.compress
  simp only [Id.run, bind, pure, forIn]
  generalize (Sha256.schedule M off) = W
  rfl

theorem mdIterate_size (iv words : Array UInt32) (h : iv.size = 8) : (mdIterate Sha256.compress iv words).size = 8 := by
  unfold mdIterate
  generalize List.range (words.size / 16) = l
  induction l generalizing iv with
  | nil => exact h
  | cons x xs ih => simp only [List.foldl_cons]; exact ih _ (compress_size _ _ _)

theorem sha256_length (m : Bytes) : (sha256 m).length = 32 := by
  unfold sha256
  simp only []
  have := mdIterate_size Sha256.H0 (wordsOfBytes be32 (mdPad (beFixed 8) m) (Array.mkEmpty ((mdPad (beFixed 8) m).length / 4))) rfl
  generalize mdIterate Sha256.compress Sha256.H0 _ = H at this
  obtain ⟨l⟩ := H
  simp only [List.size_toArray] at this
  match l, this with
  | [a, b, c, d, e, f, g, h], _ => rfl

end Btcdeb.Crypto
