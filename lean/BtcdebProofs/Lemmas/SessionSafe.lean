/-
  Invariants of a debugging session that exclude every abnormal outcome of `StepScript(InterpreterEnv&)`:

  * `IEnv.Ready`: the execution data is initialised as the signature version requires (now and in every history
    entry, since `rewind` restores it from there), and the condition stack is well-formed;
  * `IEnv.P2shOk`: while a P2SH-pattern script is being run with an EMPTY saved stack, the session sits at the
    start of that script with an empty stack — where the first operation, `OP_HASH160`, fails.  So the end of
    that script, where `assert(!stack.empty())` would fire, is never reached.

  Both are established by `setupEnvironment` and kept by steps and rewinds; `exec` keeps the first only.
-/
import Btcdeb
import BtcdebProofs.Lemmas.NoAbnormalOn
import BtcdebProofs.Lemmas.CondWf
namespace Btcdeb.Model
open Btcdeb

/-! ## `OP_HASH160` on an empty stack -/

theorem getOp_hash160 (rest : Bytes) : getOp (0xa9 :: rest) = some { opcode := 0xa9, data := [], rest := rest } := by
  simp [getOp, Op.OP_PUSHDATA4]

theorem countOp_keeps_stack {e e1 : SEE} {n : Nat} (h : countOp e n = .ok e1) :
    e1.stack = e.stack ∧ e1.cond = e.cond := by
  unfold countOp at h
  split at h
  · split at h
    · split at h
      · cases h
      · cases h; exact ⟨rfl, rfl⟩
    · cases h; exact ⟨rfl, rfl⟩
  · cases h; exact ⟨rfl, rfl⟩

/-- an executed `OP_HASH160` never succeeds on an empty stack -/
theorem step_hash160_on_empty (cx : Ctx) (e : SEE) (rest : Bytes) (hst : e.stack = []) (hc : e.cond.allTrue = true)
    (r : SEE × Bytes) : step cx e (0xa9 :: rest) ≠ .ok r := by
  intro h
  unfold step at h
  simp only [getOp_hash160] at h
  split at h
  · cases h
  · cases hco : countOp e 169 with
    | error x => simp [hco, bind, Except.bind] at h
    | ok e1 =>
      obtain ⟨hs1, hc1⟩ := countOp_keeps_stack hco
      simp only [hco, bind, Except.bind] at h
      have hop : Opcode.ofNat 169 = .OP_HASH160 := by decide
      simp only [hop, hc] at h
      simp [isDisabledOpcode, Op.OP_PUSHDATA4, execOpcode, hs1, hst, fail, bind, Except.bind] at h

/-- a script of the P2SH shape starts with the byte `OP_HASH160` -/
theorem p2shPattern_head {flags : Nat} {s : Bytes} (h : p2shPattern flags s = true) : ∃ rest, s = 0xa9 :: rest := by
  simp only [p2shPattern, Bool.and_eq_true, beq_iff_eq] at h
  obtain ⟨⟨⟨⟨_, hl⟩, h0⟩, _⟩, _⟩ := h
  cases s with
  | nil => simp at hl
  | cons b rest =>
    refine ⟨rest, ?_⟩
    simp only [byteAt, List.getElem?_cons_zero, Option.map_some, Option.getD_some, Op.OP_HASH160] at h0
    have : b = 0xa9 := by
      apply UInt8.toNat_inj.mp
      simpa using h0
    rw [this]

/-! ## the invariants -/

/-- execution data initialised, condition stack well-formed -/
structure SEE.Ready (e : SEE) : Prop where
  ed : EdReady e.sigversion e.execdata
  cw : e.cond.Wf

structure IEnv.Ready (e : IEnv) : Prop where
  see : e.see.Ready
  hist : ∀ s ∈ e.history, EdReady e.see.sigversion s.execdata ∧ s.cond.Wf

/-- a P2SH-pattern script whose saved stack is empty has not been started, and cannot be -/
def IEnv.P2shOk (e : IEnv) : Prop :=
  e.isP2sh = true → e.p2shStack = [] →
    atStart e = true ∧ e.see.stack = [] ∧ e.see.cond.empty = true ∧ ∃ rest, e.pc = 0xa9 :: rest

structure IEnv.Safe (e : IEnv) : Prop where
  ready : e.Ready
  p2sh : e.P2shOk

theorem SEE.Ready.step {cx : Ctx} {e e' : SEE} {pc pc' : Bytes} (hr : e.Ready) (h : step cx e pc = .ok (e', pc')) :
    e'.Ready :=
  ⟨step_edReady cx e e' pc pc' h hr.ed, step_condWf cx e pc (e', pc') h hr.cw⟩

/-! ## what `setup_environment` establishes -/

theorem setupEnvironment_safe {stack : List Bytes} {script : Bytes} {flags : Nat} {sv : SigVersion} {successor : Bytes}
    {allowDisabled : Bool} {execdata : ExecData} {tce : Option Tce} {pm : List (Bytes × Bytes)} {pk : List Bytes} {e0 : IEnv}
    (h : setupEnvironment stack script flags sv successor allowDisabled execdata tce pm pk = .ok e0)
    (hed : EdReady sv execdata) : e0.Safe := by
  unfold setupEnvironment at h
  cases hi : IEnv.init stack script flags sv with
  | error x => simp [hi] at h
  | ok e =>
    simp only [hi] at h
    unfold IEnv.init at hi
    split at hi
    · cases hi
    · cases hi
      split at h
      · cases h
      · split at h
        · cases h
        · cases h
          refine ⟨⟨⟨hed, CondStack.wf_default⟩, by intro s hs; cases hs⟩, ?_⟩
          intro hp hst
          simp only at hp hst
          simp only [hp, if_true] at hst
          simp only [Bool.and_eq_true] at hp
          obtain ⟨rest, hrest⟩ := p2shPattern_head hp.2
          exact ⟨by simp [atStart], hst, rfl, rest, hrest⟩

/-! ## no abnormal outcome from a safe state -/

/-- NO ABNORMAL OUTCOME of a session step: with the execution data initialised as the signature version requires,
    `StepScript(InterpreterEnv&)` returns true, returns a script error, or throws a C++ exception that the callers catch.
    (Since 614eed0 the P2SH hand-over answers an empty saved stack with `SCRIPT_ERR_INVALID_STACK_OPERATION`
    instead of `assert(!stack.empty())`, so the interpreter step is the only possible source.) -/
theorem stepSession_noabn (cx : Ctx) (hcx : CheckerNoAbnOn cx) (tc : TapCtx) (e : IEnv)
    (hed : EdReady e.see.sigversion e.see.execdata) : NoAbn (stepSession cx tc e) := by
  intro k h
  unfold stepSession at h
  cases htce : e.tce with
  | some t =>
    simp only [htce] at h
    cases hit : t.iterate tc with
    | mk state t' =>
      rw [hit] at h
      cases state <;> simp [pure, Except.pure] at h
  | none =>
    simp only [htce] at h
    by_cases hpc : e.pc.isEmpty = true
    · simp only [hpc, Bool.not_true, Bool.false_eq_true, if_false] at h
      split at h
      · cases h
      · by_cases hp2 : e.isP2sh = true
        · simp only [hp2, if_true] at h
          split at h
          · cases h
          · split at h
            · cases h
            · split at h
              · split at h
                · cases h
                · split at h <;> cases h
              · cases h
        · simp only [hp2, Bool.false_eq_true, if_false] at h
          split at h
          · split at h <;> cases h
          · cases h
    · simp only [hpc, Bool.not_false, if_true] at h
      cases hs : step cx e.see e.pc with
      | error x =>
        rw [hs] at h
        cases x with
        | abnormal k' => exact step_noabn_on cx hcx e.see e.pc hed k' hs
        | script _ => cases h
        | exc _ => cases h
      | ok r => rw [hs] at h; cases h

/-- in a safe state the saved stack is not empty when the P2SH hand-over takes place: the guard that replaced
    `assert(!stack.empty())` never fires in a session driven by `step` / `rewind` alone -/
theorem IEnv.Safe.saved_nonempty {e : IEnv} (hs : e.Safe) (hpc : e.pc = []) (hp : e.isP2sh = true) : e.p2shStack ≠ [] := by
  intro hst
  obtain ⟨_, _, _, rest, hrest⟩ := hs.p2sh hp hst
  rw [hpc] at hrest; cases hrest

/-! ## the invariants are kept -/

/-- a successful session step keeps `Ready` -/
theorem stepSession_ready (cx : Ctx) (tc : TapCtx) (ep e : IEnv) (hr : ep.Ready) (hs : stepSession cx tc ep = .ok e) :
    e.Ready := by
  unfold stepSession at hs
  cases htce : ep.tce with
  | some t =>
    simp only [htce] at hs
    cases hit : t.iterate tc with
    | mk state t' =>
      rw [hit] at hs
      cases state with
      | failed => simp at hs
      | processing => simp [pure, Except.pure] at hs; cases hs; exact ⟨hr.see, hr.hist⟩
      | done =>
        simp [pure, Except.pure] at hs; cases hs
        refine ⟨⟨?_, hr.see.cw⟩, hr.hist⟩
        obtain ⟨h1, h2⟩ := hr.see.ed
        exact ⟨h1, fun hsv => by obtain ⟨a, _, c, d⟩ := h2 hsv; exact ⟨a, rfl, c, d⟩⟩
  | none =>
    simp only [htce] at hs
    by_cases hpc : ep.pc.isEmpty = true
    · simp only [hpc, Bool.not_true, Bool.false_eq_true, if_false] at hs
      split at hs
      · cases hs
      · split at hs
        · split at hs
          · cases hs
          · split at hs
            · cases hs
            · split at hs
              · split at hs
                · cases hs
                · split at hs
                  · cases hs
                  · cases hs; exact ⟨⟨hr.see.ed, hr.see.cw⟩, hr.hist⟩
              · cases hs
        · split at hs
          · split at hs
            · cases hs
            · cases hs; exact ⟨⟨hr.see.ed, hr.see.cw⟩, hr.hist⟩
          · cases hs; exact ⟨hr.see, hr.hist⟩
    · simp only [hpc, Bool.not_false, if_true] at hs
      cases hst : step cx ep.see ep.pc with
      | error x => simp [hst, bind, Except.bind] at hs
      | ok r =>
        obtain ⟨see', pc'⟩ := r
        simp [hst, bind, Except.bind, pure, Except.pure] at hs
        cases hs
        have hr' := hr.see.step hst
        have hf := step_frame cx ep.see see' ep.pc pc' hst
        simp only [SEE.frame, Prod.mk.injEq] at hf
        have hsv : see'.sigversion = ep.see.sigversion := hf.2.2.1
        refine ⟨⟨hr'.ed, hr'.cw⟩, ?_⟩
        intro s hs
        simp only [List.mem_cons] at hs
        rcases hs with rfl | hs
        · simp only [IEnv.snapshot, hsv]; exact ⟨hr.see.ed, hr.see.cw⟩
        · simp only [hsv]; exact hr.hist s hs

/-- a successful session step keeps the P2SH invariant -/
theorem stepSession_p2shOk (cx : Ctx) (tc : TapCtx) (ep e : IEnv) (hr : ep.Ready) (hp : ep.P2shOk)
    (hs : stepSession cx tc ep = .ok e) : e.P2shOk := by
  unfold stepSession at hs
  cases htce : ep.tce with
  | some t =>
    simp only [htce] at hs
    cases hit : t.iterate tc with
    | mk state t' =>
      rw [hit] at hs
      cases state with
      | failed => simp at hs
      | processing =>
        simp [pure, Except.pure] at hs; cases hs
        intro h1 h2; exact hp h1 h2
      | done =>
        simp [pure, Except.pure] at hs; cases hs
        intro h1 h2; exact hp h1 h2
  | none =>
    simp only [htce] at hs
    by_cases hpc : ep.pc.isEmpty = true
    · simp only [hpc, Bool.not_true, Bool.false_eq_true, if_false] at hs
      split at hs
      · cases hs
      · rename_i hcond
        split at hs
        · split at hs
          · cases hs
          · split at hs
            · cases hs
            · split at hs
              · split at hs
                · cases hs
                · split at hs
                  · cases hs
                  · cases hs; intro h1; simp at h1
              · cases hs
        · split at hs
          · -- hand-over to the scriptPubKey
            split at hs
            · cases hs
            cases hs
            intro h1 h2
            simp only at h1 h2
            simp only [h1, if_true] at h2
            obtain ⟨rest, hrest⟩ := p2shPattern_head h1
            refine ⟨by simp [atStart], h2, by simpa using hcond, rest, hrest⟩
          · rename_i hp2 _
            cases hs
            intro h1; simp only at h1; exact absurd h1 hp2
    · -- an operation: impossible while a P2SH script with an empty saved stack is pending
      simp only [hpc, Bool.not_false, if_true] at hs
      cases hst : step cx ep.see ep.pc with
      | error x => simp [hst, bind, Except.bind] at hs
      | ok r =>
        obtain ⟨see', pc'⟩ := r
        simp [hst, bind, Except.bind, pure, Except.pure] at hs
        cases hs
        intro h1 h2
        simp only at h1 h2
        obtain ⟨_, hstk, hce, rest, hrest⟩ := hp h1 h2
        rw [hrest] at hst
        exact absurd hst (step_hash160_on_empty cx ep.see rest hstk (CondStack.allTrue_of_empty hr.see.cw hce) _)

theorem stepSession_safe (cx : Ctx) (tc : TapCtx) (ep e : IEnv) (hsafe : ep.Safe) (hs : stepSession cx tc ep = .ok e) :
    e.Safe :=
  ⟨stepSession_ready cx tc ep e hsafe.ready hs, stepSession_p2shOk cx tc ep e hsafe.ready hsafe.p2sh hs⟩

/-- an accepted rewind keeps `Ready` -/
theorem instRewind_ready (ep e : IEnv) (hr : ep.Ready) (h : instRewind ep = some e) : e.Ready := by
  unfold instRewind at h
  split at h
  · cases h
  · split at h
    · cases h; exact ⟨hr.see, hr.hist⟩
    · split at h
      · cases h
      · rename_i s rest hh
        cases h
        have hs := hr.hist s (by rw [hh]; simp)
        refine ⟨⟨hs.1, hs.2⟩, ?_⟩
        intro s' hs'
        exact hr.hist s' (by rw [hh]; simp [hs'])

/-- an accepted rewind keeps the P2SH invariant (it is refused at the start of a script) -/
theorem instRewind_p2shOk (ep e : IEnv) (hp : ep.P2shOk) (h : instRewind ep = some e) : e.P2shOk := by
  unfold instRewind at h
  split at h
  · cases h
  · rename_i hat
    split at h
    · cases h; intro h1 h2; exact hp h1 h2
    · split at h
      · cases h
      · cases h
        intro h1 h2
        exact absurd (hp h1 h2).1 hat

theorem instRewind_safe (ep e : IEnv) (hsafe : ep.Safe) (h : instRewind ep = some e) : e.Safe :=
  ⟨instRewind_ready ep e hsafe.ready h, instRewind_p2shOk ep e hsafe.p2sh h⟩

/-! ## `exec` -/

/-- `exec` never reports an abnormal outcome and keeps `SEE.Ready` -/
theorem evalRun_ready (cx : Ctx) (hcx : CheckerNoAbnOn cx) (mainPc : Bytes) :
    ∀ (n : Nat) (e : SEE) (it : Bytes), e.Ready →
      (evalRun cx mainPc n e it).1.Ready ∧ (evalRun cx mainPc n e it).1.sigversion = e.sigversion ∧
        ∀ k, (evalRun cx mainPc n e it).2 ≠ some (.abnormal k) := by
  intro n
  induction n with
  | zero => intro e it hr; simp only [evalRun]; exact ⟨hr, by trivial, by intro k h; cases h⟩
  | succ n ih =>
    intro e it hr
    simp only [evalRun]
    split
    · exact ⟨hr, by trivial, by intro k h; cases h⟩
    · cases hst : step cx e it with
      | error err =>
        simp only
        refine ⟨hr, by trivial, ?_⟩
        intro k h
        cases h
        exact step_noabn_on cx hcx e it hr.ed k hst
      | ok r =>
        obtain ⟨e', it'⟩ := r
        simp only
        have hr' := hr.step hst
        have hf := step_frame cx e e' it it' hst
        simp only [SEE.frame, Prod.mk.injEq] at hf
        have hsv : e'.sigversion = e.sigversion := hf.2.2.1
        split
        all_goals
          split
          · have := ih { e' with pbegincodehash := mainPc } it' ⟨hr'.ed, hr'.cw⟩
            exact ⟨this.1, by rw [this.2.1]; exact hsv, this.2.2⟩
          · have := ih e' it' hr'
            exact ⟨this.1, by rw [this.2.1]; exact hsv, this.2.2⟩

theorem instEval_ready (cx : Ctx) (hcx : CheckerNoAbnOn cx) (e e' : IEnv) (args : List Bytes) (err : Option StepErr)
    (hr : e.Ready) (h : instEval cx e args = some (e', err)) :
    e'.Ready ∧ ∀ k, err ≠ some (.abnormal k) := by
  unfold instEval at h
  split at h
  · cases h
  · split at h
    · cases h
    · rename_i s hs
      simp only [Option.some.injEq, Prod.mk.injEq] at h
      obtain ⟨h1, h2⟩ := h
      have := evalRun_ready cx hcx e.pc (s.length + 1) e.see s hr.see
      subst h1 h2
      refine ⟨⟨this.1, ?_⟩, this.2.2⟩
      intro s' hs'
      simp only at hs' ⊢
      rw [this.2.1]
      exact hr.hist s' hs'

end Btcdeb.Model
