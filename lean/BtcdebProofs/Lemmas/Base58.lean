/-
  Base58: the model of base58.cpp computes the specification's numerals; round trip and soundness.
-/
import BtcdebProofs.Lemmas.Numeral
namespace Btcdeb.Base58
open Btcdeb Numeral

-- ---------------------------------------------------------------------------------------------
-- the tables

def tableRow (n : Nat) : Bool :=
  match Spec.base58Digit (UInt8.ofNat n) with
  | some d => Model.mapBase58.getD n (-1) == (d : Int) && decide (d < 58) && Spec.base58Char d == UInt8.ofNat n
  | none => Model.mapBase58.getD n (-1) == -1

def charRow (d : Nat) : Bool :=
  Model.pszBase58.getD d 0 == Spec.base58Char d && Spec.base58Digit (Spec.base58Char d) == some d

set_option maxRecDepth 20000 in
theorem tableRows : (List.range 256).all tableRow = true := by decide +kernel
theorem charRows : (List.range 58).all charRow = true := by decide +kernel

theorem tableRow_of (c : UInt8) : tableRow c.toNat = true := by
  have := List.all_eq_true.mp tableRows c.toNat (List.mem_range.mpr c.toNat_lt)
  exact this

theorem ofNat_toNat (c : UInt8) : UInt8.ofNat c.toNat = c := by simp

/-- `mapBase58` is the inverse of the alphabet -/
theorem mapBase58_spec (c : UInt8) :
    Model.mapBase58.getD c.toNat (-1) = (match Spec.base58Digit c with | some d => (d : Int) | none => -1) := by
  have h := tableRow_of c
  unfold tableRow at h
  rw [ofNat_toNat] at h
  split at h <;> simp at h ⊢
  · exact h.1.1
  · exact h

theorem digit_lt {c : UInt8} {d : Nat} (h : Spec.base58Digit c = some d) : d < 58 := by
  have h' := tableRow_of c
  unfold tableRow at h'
  rw [ofNat_toNat, h] at h'
  simp at h'
  exact h'.1.2

theorem char_digit {c : UInt8} {d : Nat} (h : Spec.base58Digit c = some d) : Spec.base58Char d = c := by
  have h' := tableRow_of c
  unfold tableRow at h'
  rw [ofNat_toNat, h] at h'
  simp at h'
  exact h'.2

theorem digit_char {d : Nat} (h : d < 58) : Spec.base58Digit (Spec.base58Char d) = some d := by
  have := List.all_eq_true.mp charRows d (List.mem_range.mpr h)
  unfold charRow at this
  simp at this
  exact this.2

theorem psz_char {d : Nat} (h : d < 58) : Model.pszBase58.getD d 0 = Spec.base58Char d := by
  have := List.all_eq_true.mp charRows d (List.mem_range.mpr h)
  unfold charRow at this
  simp at this
  exact this.1

-- ---------------------------------------------------------------------------------------------
-- list helpers

theorem dropWhile_zero_of_noTopZero (l : List Nat) (h : NoTopZero l) : l.reverse.dropWhile (· == 0) = l.reverse := by
  cases hl : l.reverse with
  | nil => rfl
  | cons x xs =>
    have : l.getLast? = some x := by
      rw [← List.head?_reverse, hl]; rfl
    have hx : x ≠ 0 := by
      intro e; subst e; exact h this
    have hb : (x == 0) = false := by simpa using hx
    simp [List.dropWhile, hb]

theorem takeWhile_zero_eq_replicate (b : Bytes) : b.takeWhile (· == 0) = List.replicate (b.takeWhile (· == 0)).length 0 := by
  induction b with
  | nil => rfl
  | cons x xs ih =>
    by_cases hx : x = 0
    · subst hx; simp [List.takeWhile, List.replicate]; exact ih
    · have hb : (x == 0) = false := by simpa using hx
      simp [List.takeWhile, hb]

theorem numeralValue_replicate_zero (B k : Nat) (ds : List Nat) :
    Spec.numeralValue B (List.replicate k 0 ++ ds) = Spec.numeralValue B ds := by
  induction k with
  | zero => rfl
  | succ k ih =>
    rw [List.replicate_succ, List.cons_append]
    unfold Spec.numeralValue at *
    simp only [List.foldl_cons, Nat.zero_mul, Nat.add_zero]
    exact ih

/-- leading zero bytes do not change the number -/
theorem beValue_dropZeros (b : Bytes) : Spec.beValue b = Spec.beValue (b.dropWhile (· == 0)) := by
  unfold Spec.beValue
  conv => lhs; rw [← List.takeWhile_append_dropWhile (p := (· == 0)) (l := b)]
  rw [List.map_append, takeWhile_zero_eq_replicate, List.map_replicate]
  exact numeralValue_replicate_zero 256 _ _

theorem bytes_allLt (b : Bytes) : AllLt 256 (b.map UInt8.toNat) := by
  intro d hd
  simp only [List.mem_map] at hd
  obtain ⟨x, _, rfl⟩ := hd
  exact x.toNat_lt

/-- the digit list the encoder's loop builds is THE base-58 numeral of the number the bytes denote -/
theorem encode_loop (rest : Bytes) :
    rest.foldl (fun ds ch => Model.mulAdd 58 256 ds ch.toNat) [] = Spec.numeralLE 58 (Spec.beValue rest) := by
  have h := foldl_mulAdd 58 256 (by omega) (by omega) (rest.map UInt8.toNat) [] (by intro d hd; simp at hd) (by simp [NoTopZero])
  simp only [List.foldl_map] at h
  obtain ⟨h1, h2, h3⟩ := h
  apply eq_numeralLE 58 (by omega) _ _ h1 h2
  rw [h3]
  simp [Spec.beValue, Spec.numeralValue, leVal, List.foldl_map]

/-- `EncodeBase58` computes the specified Base58 string -/
theorem encode_eq_spec (b : Bytes) : Model.encodeBase58 b = Spec.base58Encode b := by
  unfold Model.encodeBase58 Spec.base58Encode Spec.leadingZeros Spec.numeral
  simp only []
  rw [encode_loop, dropWhile_zero_of_noTopZero _ (numeralLE_noTopZero 58 _ (by omega)), ← beValue_dropZeros]
  congr 1
  apply List.map_congr_left
  intro d hd
  have : d < 58 := numeralLE_allLt 58 _ (by omega) d (by simpa using hd)
  exact psz_char this

-- ---------------------------------------------------------------------------------------------
-- specification level: round trip and soundness

/-- a numeral (most significant first) without leading zero is THE numeral of its value -/
theorem numeral_numeralValue (B : Nat) (hB : 2 ≤ B) (ds : List Nat) (h1 : AllLt B ds) (h2 : ds.head? ≠ some 0) :
    Spec.numeral B (Spec.numeralValue B ds) = ds := by
  unfold Spec.numeral
  have := eq_numeralLE B hB ds.reverse (Spec.numeralValue B ds) (by intro d hd; exact h1 d (by simpa using hd))
    (by unfold NoTopZero; rw [List.getLast?_reverse]; exact h2) (by rw [numeralValue_eq])
  rw [← this, List.reverse_reverse]

theorem numeralValue_numeral (B : Nat) (hB : 2 ≤ B) (n : Nat) : Spec.numeralValue B (Spec.numeral B n) = n := by
  unfold Spec.numeral
  rw [numeralValue_reverse, numeralLE_val B n hB]

theorem numeral_allLt (B : Nat) (hB : 2 ≤ B) (n : Nat) : AllLt B (Spec.numeral B n) := by
  intro d hd
  exact numeralLE_allLt B n hB d (by simpa [Spec.numeral] using hd)

theorem numeral_head (B : Nat) (hB : 2 ≤ B) (n : Nat) : (Spec.numeral B n).head? ≠ some 0 := by
  unfold Spec.numeral
  rw [List.head?_reverse]
  exact numeralLE_noTopZero B n hB

theorem mapM_digit_char : ∀ (ds : List Nat), AllLt 58 ds → (ds.map Spec.base58Char).mapM Spec.base58Digit = some ds := by
  intro ds
  induction ds with
  | nil => intro _; rfl
  | cons d ds ih =>
    intro h
    rw [List.map_cons, List.mapM_cons, digit_char (h d (by simp)), ih (fun x hx => h x (by simp [hx]))]
    rfl

theorem mapM_digit_inv : ∀ (s : Bytes) (ds : List Nat), s.mapM Spec.base58Digit = some ds → s = ds.map Spec.base58Char ∧ AllLt 58 ds := by
  intro s
  induction s with
  | nil => intro ds h; simp [List.mapM_nil] at h; subst h; exact ⟨rfl, by intro d hd; simp at hd⟩
  | cons c s ih =>
    intro ds h
    rw [List.mapM_cons] at h
    cases hc : Spec.base58Digit c with
    | none => simp [hc] at h
    | some d =>
      cases hs : s.mapM Spec.base58Digit with
      | none => simp [hc, hs] at h
      | some ds' =>
        simp [hc, hs] at h
        subst h
        obtain ⟨e1, e2⟩ := ih ds' hs
        refine ⟨by rw [List.map_cons, char_digit hc, ← e1], ?_⟩
        intro x hx
        simp only [List.mem_cons] at hx
        cases hx with
        | inl e => subst e; exact digit_lt hc
        | inr e => exact e2 x e

theorem takeWhile_replicate_append (k : Nat) (ds : List Nat) (h : ds.head? ≠ some 0) :
    (List.replicate k 0 ++ ds).takeWhile (· == 0) = List.replicate k 0 := by
  induction k with
  | zero =>
    cases ds with
    | nil => rfl
    | cons d ds =>
      have : (d == 0) = false := by simpa using h
      simp [this]
  | succ k ih => simp [List.replicate_succ, ih]

theorem map_ofNat_toNat (b : Bytes) : (b.map UInt8.toNat).map UInt8.ofNat = b := by
  induction b with
  | nil => rfl
  | cons x xs ih => simp only [List.map_cons, UInt8.ofNat_toNat, ih]

theorem map_toNat_ofNat (ds : List Nat) (h : AllLt 256 ds) : (ds.map UInt8.ofNat).map UInt8.toNat = ds := by
  induction ds with
  | nil => rfl
  | cons d ds ih =>
    have hd : d < 256 := h d (by simp)
    simp only [List.map_cons]
    rw [ih (fun x hx => h x (by simp [hx]))]
    congr 1
    simp [Nat.mod_eq_of_lt hd]

theorem dropWhile_head (b : Bytes) : (b.dropWhile (· == 0)).head? ≠ some 0 := by
  induction b with
  | nil => simp
  | cons x xs ih =>
    by_cases hx : x = 0
    · subst hx; simpa [List.dropWhile] using ih
    · have : (x == 0) = false := by simpa using hx
      simp [List.dropWhile, this, hx]

/-- the base-256 numeral of the value of a byte string without leading zero bytes is that byte string -/
theorem numeral256_beValue (rest : Bytes) (h : rest.head? ≠ some 0) :
    (Spec.numeral 256 (Spec.beValue rest)).map UInt8.ofNat = rest := by
  unfold Spec.beValue
  rw [numeral_numeralValue 256 (by omega) _ (bytes_allLt rest), map_ofNat_toNat]
  cases rest with
  | nil => simp
  | cons x xs =>
    simp only [List.map_cons, List.head?_cons, ne_eq, Option.some.injEq] at h ⊢
    intro e; apply h; exact UInt8.toNat_inj.mp (by simpa using e)

theorem spec_decode_encode (b : Bytes) : Spec.base58Decode (Spec.base58Encode b) = some b := by
  have hs : Spec.base58Encode b =
      (List.replicate (Spec.leadingZeros b) 0 ++ Spec.numeral 58 (Spec.beValue b)).map Spec.base58Char := by
    simp [Spec.base58Encode, List.map_replicate]
  have hall : AllLt 58 (List.replicate (Spec.leadingZeros b) 0 ++ Spec.numeral 58 (Spec.beValue b)) := by
    intro d hd
    rcases List.mem_append.mp hd with h | h
    · rw [(List.mem_replicate.mp h).2]; omega
    · exact numeral_allLt 58 (by omega) _ d h
  unfold Spec.base58Decode
  rw [hs, mapM_digit_char _ hall]
  simp only []
  rw [takeWhile_replicate_append _ _ (numeral_head 58 (by omega) _), List.length_replicate,
    numeralValue_replicate_zero, numeralValue_numeral 58 (by omega), beValue_dropZeros,
    numeral256_beValue _ (dropWhile_head b)]
  congr 1
  unfold Spec.leadingZeros
  conv => rhs; rw [← List.takeWhile_append_dropWhile (p := (· == 0)) (l := b)]
  rw [← takeWhile_zero_eq_replicate]

theorem takeWhile_zero_nat (ds : List Nat) : ds.takeWhile (· == 0) = List.replicate (ds.takeWhile (· == 0)).length 0 := by
  induction ds with
  | nil => rfl
  | cons x xs ih =>
    by_cases hx : x = 0
    · subst hx; simp [List.takeWhile, List.replicate]; exact ih
    · have hb : (x == 0) = false := by simpa using hx
      simp [List.takeWhile, hb]

theorem dropWhile_head_nat (ds : List Nat) : (ds.dropWhile (· == 0)).head? ≠ some 0 := by
  induction ds with
  | nil => simp
  | cons x xs ih =>
    by_cases hx : x = 0
    · subst hx; simpa [List.dropWhile] using ih
    · have : (x == 0) = false := by simpa using hx
      simp [List.dropWhile, this, hx]

theorem takeWhile_bytes_replicate_append (k : Nat) (bs : Bytes) (h : bs.head? ≠ some 0) :
    (List.replicate k (0 : UInt8) ++ bs).takeWhile (· == 0) = List.replicate k 0 := by
  induction k with
  | zero =>
    cases bs with
    | nil => rfl
    | cons d ds =>
      have : (d == 0) = false := by simpa using h
      simp [this]
  | succ k ih => simp [List.replicate_succ, ih]

/-- whatever the specification decodes re-encodes to the same string: decoding is injective -/
theorem spec_decode_sound (s b : Bytes) (h : Spec.base58Decode s = some b) : Spec.base58Encode b = s := by
  unfold Spec.base58Decode at h
  cases hm : s.mapM Spec.base58Digit with
  | none => simp [hm] at h
  | some ds =>
    simp [hm] at h
    obtain ⟨hs, hall⟩ := mapM_digit_inv s ds hm
    subst h
    let z := (ds.takeWhile (· == 0)).length
    let W := Spec.numeralValue 58 ds
    have hnum : AllLt 256 (Spec.numeral 256 W) := numeral_allLt 256 (by omega) W
    have hhead : ((Spec.numeral 256 W).map UInt8.ofNat).head? ≠ some 0 := by
      have h0 := numeral_head 256 (by omega) W
      cases hq : Spec.numeral 256 W with
      | nil => simp
      | cons d rest =>
        rw [hq] at h0 hnum
        have hd : d < 256 := hnum d (by simp)
        simp only [List.map_cons, List.head?_cons, ne_eq, Option.some.injEq] at h0 ⊢
        intro e
        apply h0
        have := congrArg UInt8.toNat e
        simpa [Nat.mod_eq_of_lt hd] using this
    unfold Spec.base58Encode Spec.leadingZeros
    rw [takeWhile_bytes_replicate_append _ _ hhead, List.length_replicate]
    have hval : Spec.beValue (List.replicate (List.takeWhile (fun x => x == 0) ds).length 0 ++ List.map UInt8.ofNat (Spec.numeral 256 W)) = W := by
      unfold Spec.beValue
      rw [List.map_append, List.map_replicate, map_toNat_ofNat _ hnum]
      show Spec.numeralValue 256 (List.replicate _ 0 ++ _) = W
      rw [numeralValue_replicate_zero, numeralValue_numeral 256 (by omega)]
    rw [hval]
    have hW : W = Spec.numeralValue 58 (ds.dropWhile (· == 0)) := by
      show Spec.numeralValue 58 ds = _
      conv => lhs; rw [← List.takeWhile_append_dropWhile (p := (· == 0)) (l := ds), takeWhile_zero_nat]
      rw [numeralValue_replicate_zero]
    rw [hW, numeral_numeralValue 58 (by omega) _ (fun d hd => hall d (List.dropWhile_subset _ hd)) (dropWhile_head_nat ds)]
    rw [hs]
    conv => rhs; rw [← List.takeWhile_append_dropWhile (p := (· == 0)) (l := ds), List.map_append, takeWhile_zero_nat, List.map_replicate]

-- ---------------------------------------------------------------------------------------------
-- the decoder of base58.cpp

theorem foldl_mulAdd_length_ge (base mul : Nat) (xs : List Nat) : ∀ (acc : List Nat),
    acc.length ≤ (xs.foldl (fun ds x => Model.mulAdd base mul ds x) acc).length := by
  induction xs with
  | nil => intro acc; exact Nat.le_refl _
  | cons x xs ih =>
    intro acc
    exact Nat.le_trans (mulAdd_length_ge base mul acc x) (ih _)

/-- the character loop: all characters must be digits; the length test inside the loop amounts to a test of the
    final length because the digit count never shrinks -/
theorem decodeLoop_eq (max z : Nat) : ∀ (cs : Bytes) (acc : List Nat), acc.length + z ≤ max →
    Model.decodeBase58Loop max z cs acc =
      match cs.mapM Spec.base58Digit with
      | none => none
      | some ds =>
        if (ds.foldl (fun a d => Model.mulAdd 256 58 a d) acc).length + z ≤ max
        then some (ds.foldl (fun a d => Model.mulAdd 256 58 a d) acc) else none := by
  intro cs
  induction cs with
  | nil => intro acc hacc; simp [Model.decodeBase58Loop, List.mapM_nil, hacc]
  | cons c cs ih =>
    intro acc hacc
    rw [Model.decodeBase58Loop, List.mapM_cons, mapBase58_spec]
    cases hc : Spec.base58Digit c with
    | none => simp
    | some d =>
      simp only []
      have hne : ((d : Int) == -1) = false := by
        have : (d : Int) ≠ -1 := by omega
        simp [this]
      simp only [hne, Bool.false_eq_true, ↓reduceIte, Int.toNat_natCast]
      by_cases hlen : (Model.mulAdd 256 58 acc d).length + z > max
      · simp only [hlen, ↓reduceIte]
        cases hm : cs.mapM Spec.base58Digit with
        | none => simp
        | some ds =>
          have := foldl_mulAdd_length_ge 256 58 ds (Model.mulAdd 256 58 acc d)
          have h2 : ¬ ((ds.foldl (fun a d => Model.mulAdd 256 58 a d) (Model.mulAdd 256 58 acc d)).length + z ≤ max) := by omega
          simp [h2]
      · simp only [hlen, ↓reduceIte]
        rw [ih _ (by omega)]
        cases hm : cs.mapM Spec.base58Digit with
        | none => simp
        | some ds => simp only [Option.bind_some, Option.pure_def, Option.bind_eq_bind]; rfl

theorem takeWhile_split {α} (p q : α → Bool) (hpq : ∀ x, p x = true → q x = true) : ∀ (l : List α),
    l.takeWhile q = l.takeWhile p ++ (l.dropWhile p).takeWhile q := by
  intro l
  induction l with
  | nil => rfl
  | cons x xs ih =>
    by_cases hp : p x = true
    · simp [List.takeWhile, List.dropWhile, hp, hpq x hp, ih]
    · have hp' : p x = false := by simpa using hp
      simp [List.takeWhile, List.dropWhile, hp']

theorem dropWhile_split {α} (p q : α → Bool) (hpq : ∀ x, p x = true → q x = true) : ∀ (l : List α),
    l.dropWhile q = (l.dropWhile p).dropWhile q := by
  intro l
  induction l with
  | nil => rfl
  | cons x xs ih =>
    by_cases hp : p x = true
    · simp [List.dropWhile, hp, hpq x hp, ih]
    · have hp' : p x = false := by simpa using hp
      simp [List.dropWhile, hp']

theorem takeWhile_49_replicate (l : Bytes) : l.takeWhile (· == 49) = List.replicate (l.takeWhile (· == 49)).length 49 := by
  induction l with
  | nil => rfl
  | cons x xs ih =>
    by_cases hx : x = 49
    · subst hx; simp [List.takeWhile, List.replicate]; exact ih
    · have hb : (x == 49) = false := by simpa using hx
      simp [List.takeWhile, hb]

theorem dropWhile_head_ne {α} (p : α → Bool) : ∀ (l : List α) (x : α), (l.dropWhile p).head? = some x → p x = false := by
  intro l
  induction l with
  | nil => intro x h; simp at h
  | cons y ys ih =>
    intro x h
    by_cases hp : p y = true
    · simp [List.dropWhile, hp] at h; exact ih x h
    · have hp' : p y = false := by simpa using hp
      simp [List.dropWhile, hp'] at h; subst h; exact hp'

theorem takeWhile_head {α} (q : α → Bool) (l : List α) (x : α) (h : (l.takeWhile q).head? = some x) : l.head? = some x := by
  cases l with
  | nil => simp at h
  | cons y ys =>
    by_cases hq : q y = true
    · simpa [List.takeWhile, hq] using h
    · have hq' : q y = false := by simpa using hq
      simp [List.takeWhile, hq'] at h

theorem mapM_replicate_one (z : Nat) (cs : Bytes) :
    (List.replicate z (49 : UInt8) ++ cs).mapM Spec.base58Digit = (cs.mapM Spec.base58Digit).map (List.replicate z 0 ++ ·) := by
  induction z with
  | zero => cases h : cs.mapM Spec.base58Digit <;> simp [h]
  | succ z ih =>
    rw [List.replicate_succ, List.cons_append, List.mapM_cons, ih]
    have : Spec.base58Digit 49 = some 0 := by decide
    rw [this]
    cases h : cs.mapM Spec.base58Digit <;> simp [List.replicate_succ]

theorem takeWhile_replicate_le (z : Nat) (ds : List Nat) :
    z ≤ (List.takeWhile (fun x => x == 0) (List.replicate z 0 ++ ds)).length := by
  induction z with
  | zero => omega
  | succ z ih => simp [List.replicate_succ]

/-- the run of non-blank characters after the leading blanks -/
def core (s : Bytes) : Bytes := (s.dropWhile Model.isSpaceB).takeWhile (fun c => !Model.isSpaceB c)
/-- nothing but blanks after that run -/
def blankTail (s : Bytes) : Bool := (((s.dropWhile Model.isSpaceB).dropWhile (fun c => !Model.isSpaceB c)).dropWhile Model.isSpaceB).isEmpty

/-- `DecodeBase58(psz, vch, max_ret_len)` decodes the run of non-blank characters as the specification does,
    refuses anything but blanks around it, and refuses results longer than `max_ret_len` -/
theorem decodePsz_eq (s : Bytes) (max : Nat) :
    Model.decodeBase58Psz s max =
      if blankTail s then (Spec.base58Decode (core s)).filter (fun b => decide (b.length ≤ max)) else none := by
  have hpq : ∀ x : UInt8, (x == 49) = true → (!Model.isSpaceB x) = true := by
    intro x hx
    have : x = 49 := by simpa using hx
    subst this; decide
  unfold Model.decodeBase58Psz blankTail core
  simp only []
  generalize s.dropWhile Model.isSpaceB = p1
  rw [dropWhile_split _ _ hpq p1, takeWhile_split _ _ hpq p1]
  generalize hz : (p1.takeWhile (· == 49)).length = z
  rw [takeWhile_49_replicate p1, hz]
  have hbody : ∀ c, ((p1.dropWhile (· == 49)).takeWhile (fun c => !Model.isSpaceB c)).head? = some c → c ≠ 49 := by
    intro c hc
    have := dropWhile_head_ne (· == 49) p1 c (takeWhile_head _ _ c hc)
    simpa using this
  generalize (p1.dropWhile (· == 49)).takeWhile (fun c => !Model.isSpaceB c) = body at hbody
  generalize ((p1.dropWhile (· == 49)).dropWhile (fun c => !Model.isSpaceB c)).dropWhile Model.isSpaceB = tail
  unfold Spec.base58Decode
  rw [mapM_replicate_one]
  by_cases hzm : z > max
  · simp only [hzm, ↓reduceIte]
    cases hm : body.mapM Spec.base58Digit with
    | none => simp
    | some ds =>
      simp only [Option.map_some]
      have hk := takeWhile_replicate_le z ds
      split
      · rw [Option.filter_some]
        simp only [List.length_append, List.length_replicate, List.length_map, decide_eq_true_eq]
        rw [if_neg (by omega)]
      · rfl
  · simp only [hzm, ↓reduceIte]
    rw [decodeLoop_eq max z body [] (by simp; omega)]
    cases hm : body.mapM Spec.base58Digit with
    | none => simp
    | some ds =>
      simp only [Option.map_some]
      obtain ⟨hbs, hall⟩ := mapM_digit_inv body ds hm
      have hhead : ds.head? ≠ some 0 := by
        cases ds with
        | nil => simp
        | cons d ds' =>
          simp only [List.head?_cons, ne_eq, Option.some.injEq]
          intro e
          subst e
          have := hbody (Spec.base58Char 0) (by rw [hbs]; rfl)
          exact this (by decide)
      have hfold := foldl_mulAdd 256 58 (by omega) (by omega) ds [] (by intro d hd; simp at hd) (by simp [NoTopZero])
      obtain ⟨f1, f2, f3⟩ := hfold
      have hr : ds.foldl (fun a d => Model.mulAdd 256 58 a d) [] = Spec.numeralLE 256 (Spec.numeralValue 58 ds) := by
        apply eq_numeralLE 256 (by omega) _ _ f1 f2
        rw [f3]; simp [leVal, Spec.numeralValue]
      rw [hr, takeWhile_replicate_append z ds hhead, List.length_replicate, numeralValue_replicate_zero]
      cases htail : tail.isEmpty
      · by_cases hl : (Spec.numeralLE 256 (Spec.numeralValue 58 ds)).length + z ≤ max <;> simp [hl]
      · simp only [Bool.not_true, Bool.false_eq_true, ↓reduceIte, Option.filter_some, decide_eq_true_eq]
        simp only [Spec.numeral, List.length_append, List.length_replicate, List.length_map, List.length_reverse]
        by_cases hl : (Spec.numeralLE 256 (Spec.numeralValue 58 ds)).length + z ≤ max
        · have hl' : z + (Spec.numeralLE 256 (Spec.numeralValue 58 ds)).length ≤ max := by omega
          simp [hl, hl']
        · have hl' : ¬ (z + (Spec.numeralLE 256 (Spec.numeralValue 58 ds)).length ≤ max) := by omega
          simp [hl, hl']

-- ---------------------------------------------------------------------------------------------
-- model level: round trip and soundness

def digitCharRow (n : Nat) : Bool :=
  (Spec.base58Digit (UInt8.ofNat n)).isNone || (!Model.isSpaceB (UInt8.ofNat n) && n != 0)
set_option maxRecDepth 20000 in
theorem digitCharRows : (List.range 256).all digitCharRow = true := by decide +kernel

theorem digit_not_blank {c : UInt8} {d : Nat} (h : Spec.base58Digit c = some d) : Model.isSpaceB c = false ∧ c ≠ 0 := by
  have := List.all_eq_true.mp digitCharRows c.toNat (List.mem_range.mpr c.toNat_lt)
  unfold digitCharRow at this
  rw [ofNat_toNat, h] at this
  simp at this
  refine ⟨this.1, ?_⟩
  intro e; subst e; exact this.2 rfl

theorem takeWhile_all {α} (q : α → Bool) : ∀ (l : List α), (∀ x ∈ l, q x = true) → l.takeWhile q = l := by
  intro l
  induction l with
  | nil => intro _; rfl
  | cons x xs ih => intro h; simp [List.takeWhile, h x (by simp), ih (fun y hy => h y (by simp [hy]))]

theorem dropWhile_all {α} (q : α → Bool) : ∀ (l : List α), (∀ x ∈ l, q x = true) → l.dropWhile q = [] := by
  intro l
  induction l with
  | nil => intro _; rfl
  | cons x xs ih => intro h; simp [List.dropWhile, h x (by simp), ih (fun y hy => h y (by simp [hy]))]

theorem dropWhile_none {α} (q : α → Bool) : ∀ (l : List α), (∀ x ∈ l, q x = false) → l.dropWhile q = l := by
  intro l
  cases l with
  | nil => intro _; rfl
  | cons x xs => intro h; simp [List.dropWhile, h x (by simp)]

/-- characters of a string of Base58 digits -/
theorem digits_string_props (s : Bytes) (ds : List Nat) (h : s.mapM Spec.base58Digit = some ds) :
    (∀ c ∈ s, Model.isSpaceB c = false) ∧ s.any (· == 0) = false := by
  obtain ⟨hs, hall⟩ := mapM_digit_inv s ds h
  have key : ∀ c ∈ s, Model.isSpaceB c = false ∧ c ≠ 0 := by
    intro c hc
    rw [hs] at hc
    obtain ⟨d, hd, rfl⟩ := List.mem_map.mp hc
    exact digit_not_blank (digit_char (hall d hd))
  refine ⟨fun c hc => (key c hc).1, ?_⟩
  rw [List.any_eq_false]
  intro c hc
  simpa using (key c hc).2

theorem core_of_digits (s : Bytes) (h : ∀ c ∈ s, Model.isSpaceB c = false) : core s = s ∧ blankTail s = true := by
  unfold core blankTail
  rw [dropWhile_none _ s h]
  have hq : ∀ c ∈ s, (!Model.isSpaceB c) = true := by intro c hc; simp [h c hc]
  rw [takeWhile_all _ s hq, dropWhile_all _ s hq]
  exact ⟨rfl, rfl⟩

theorem spec_encode_digits (b : Bytes) : ∃ ds, (Spec.base58Encode b).mapM Spec.base58Digit = some ds := by
  have hs : Spec.base58Encode b =
      (List.replicate (Spec.leadingZeros b) 0 ++ Spec.numeral 58 (Spec.beValue b)).map Spec.base58Char := by
    simp [Spec.base58Encode, List.map_replicate]
  have hall : AllLt 58 (List.replicate (Spec.leadingZeros b) 0 ++ Spec.numeral 58 (Spec.beValue b)) := by
    intro d hd
    rcases List.mem_append.mp hd with h | h
    · rw [(List.mem_replicate.mp h).2]; omega
    · exact numeral_allLt 58 (by omega) _ d h
  exact ⟨_, by rw [hs]; exact mapM_digit_char _ hall⟩

theorem spec_decode_length (b : Bytes) : ∀ s, Spec.base58Decode s = some b → True := fun _ _ => trivial

/-- decoding what the encoder produced gives the bytes back (within the length the caller allows) -/
theorem decode_encode (b : Bytes) (max : Nat) (h : b.length ≤ max) :
    Model.decodeBase58 (Model.encodeBase58 b) max = some b := by
  rw [encode_eq_spec]
  obtain ⟨ds, hds⟩ := spec_encode_digits b
  obtain ⟨h1, h2⟩ := digits_string_props _ ds hds
  obtain ⟨h3, h4⟩ := core_of_digits _ h1
  unfold Model.decodeBase58
  rw [h2]
  simp only [Bool.false_eq_true, ↓reduceIte]
  rw [decodePsz_eq, h4, h3, spec_decode_encode]
  simp [h]

/-- whatever the decoder accepts is the encoding of its result (up to surrounding blanks) and fits the limit -/
theorem decode_sound (s b : Bytes) (max : Nat) (h : Model.decodeBase58 s max = some b) :
    Model.encodeBase58 b = core s ∧ b.length ≤ max := by
  unfold Model.decodeBase58 at h
  split at h
  · simp at h
  · rw [decodePsz_eq] at h
    split at h
    · cases hd : Spec.base58Decode (core s) with
      | none => simp [hd] at h
      | some b' =>
        rw [hd, Option.filter_some] at h
        split at h
        · simp at h; subst h
          rename_i hl
          exact ⟨by rw [encode_eq_spec]; exact spec_decode_sound _ _ hd, by simpa using hl⟩
        · simp at h
    · simp at h

theorem check_decode_encode (hash : Bytes → Bytes) (hlen : ∀ m, 4 ≤ (hash m).length) (p : Bytes) (max : Nat)
    (h : p.length ≤ max) (hint : p.length + 4 ≤ 2147483647) :
    Model.decodeBase58Check hash (Model.encodeBase58Check hash p) max = some p := by
  unfold Model.decodeBase58Check Model.encodeBase58Check
  have hck : ((hash p).take 4).length = 4 := by simp [List.length_take]; have := hlen p; omega
  rw [decode_encode _ _ (by simp only [List.length_append, hck]; split <;> omega)]
  simp only [List.length_append, hck]
  have e1 : p.length + 4 - 4 = p.length := by omega
  rw [e1, List.take_left', List.drop_left']
  · simp
  · rfl
  · rfl

theorem check_decode_sound (hash : Bytes → Bytes) (s p : Bytes) (max : Nat)
    (h : Model.decodeBase58Check hash s max = some p) :
    Model.encodeBase58Check hash p = core s ∧ p.length ≤ max := by
  unfold Model.decodeBase58Check at h
  generalize hin : (if max > 2147483647 - 4 then 2147483647 else max + 4) = inner at h
  cases hd : Model.decodeBase58 s inner with
  | none => simp [hd] at h
  | some vch =>
    rw [hd] at h
    simp only [] at h
    split at h
    · simp at h
    · rename_i hl
      split at h
      · simp at h
      · rename_i hck
        simp at h
        subst h
        obtain ⟨e1, e2⟩ := decode_sound s vch inner hd
        have hv : vch = vch.take (vch.length - 4) ++ (hash (vch.take (vch.length - 4))).take 4 := by
          have : (hash (vch.take (vch.length - 4))).take 4 = vch.drop (vch.length - 4) := by simpa using hck
          rw [this, List.take_append_drop]
        unfold Model.encodeBase58Check
        rw [← hv]
        refine ⟨e1, ?_⟩
        simp only [List.length_take]
        split at hin <;> omega

end Btcdeb.Base58
