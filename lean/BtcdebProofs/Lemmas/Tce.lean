/-
  Lemmas about the model of `TaprootCommitmentEnv` (`Tce`) and the BIP341 specification functions,
  used by `Properties/C05.lean`.
-/
import Btcdeb
namespace Btcdeb.Model
open Btcdeb

/-- the commitment environment after `n` calls of `Iterate()` (whatever they returned) -/
def Tce.iterN (tc : TapCtx) : Nat → Tce → Tce
  | 0, t => t
  | n + 1, t => Tce.iterN tc n (t.iterate tc).2

/-- call `Iterate()` until it no longer answers `processing` (at most `fuel` calls); the answer of the last
    call and the environment it left. With no fuel left the answer is `processing`. -/
def Tce.run (tc : TapCtx) : Nat → Tce → TceState × Tce
  | 0, t => (.processing, t)
  | n + 1, t =>
    match t.iterate tc with
    | (.processing, t') => Tce.run tc n t'
    | r => r

end Btcdeb.Model

namespace Btcdeb.Proofs.Tce
open Btcdeb Btcdeb.Model

/-! ### the two byte-string orders and the two length encodings coincide -/

theorem lexLt_eq_bytesLt : ∀ (a b : Bytes), lexLt a b = Spec.bytesLt a b
  | [], [] => rfl
  | [], _ :: _ => rfl
  | _ :: _, [] => rfl
  | a :: as, b :: bs => by
    simp only [lexLt, Spec.bytesLt, lexLt_eq_bytesLt as bs]
    by_cases h1 : a.toNat < b.toNat
    · simp [h1]
    · by_cases h2 : b.toNat < a.toNat
      · have : ¬ a.toNat = b.toNat := by omega
        simp [h1, h2, this]
      · have : a.toNat = b.toNat := by omega
        simp [this]

theorem compactSize_eq_varint (n : Nat) : compactSize n = Spec.varint n := rfl

set_option maxRecDepth 8000 in
theorem land254_lt256 : ∀ b : Nat, b < 256 → b &&& 254 = b - b % 2 := by
  decide

theorem byteAt_zero (c : Bytes) : byteAt c 0 = (c.headD 0).toNat := by
  cases c <;> rfl

theorem byteAt_zero_lt (c : Bytes) : byteAt c 0 < 256 := by
  rw [byteAt_zero]; exact UInt8.toNat_lt _

theorem leafVersion_eq (c : Bytes) :
    byteAt c 0 &&& Gen.TAPROOT_LEAF_MASK = (c.headD 0).toNat - (c.headD 0).toNat % 2 := by
  have h := land254_lt256 (byteAt c 0) (byteAt_zero_lt c)
  rw [byteAt_zero] at h
  rw [byteAt_zero]
  exact h

/-! ### `pathNodes` and `merkleChain` by index -/

theorem pathNodes_length : ∀ (m : Nat) (b : Bytes), 32 * m ≤ b.length → (Spec.pathNodes m b).length = m
  | 0, _, _ => rfl
  | m + 1, b, h => by
    have hb : ¬ b.length < 32 := by omega
    simp only [Spec.pathNodes, hb, if_false, List.length_cons]
    rw [pathNodes_length m (b.drop 32) (by simp only [List.length_drop]; omega)]

theorem pathNodes_getElem? : ∀ (m : Nat) (b : Bytes) (i : Nat), 32 * m ≤ b.length → i < m →
    (Spec.pathNodes m b)[i]? = some ((b.drop (32 * i)).take 32)
  | 0, _, _, _, hi => by omega
  | m + 1, b, i, h, hi => by
    have hb : ¬ b.length < 32 := by omega
    simp only [Spec.pathNodes, hb, if_false]
    cases i with
    | zero => simp
    | succ i =>
      simp only [List.getElem?_cons_succ]
      rw [pathNodes_getElem? m (b.drop 32) i (by simp only [List.length_drop]; omega) (by omega)]
      simp only [List.drop_drop]
      have : 32 + 32 * i = 32 * (i + 1) := by omega
      rw [this]

theorem merkleChain_length (o : Spec.TapOracle) : ∀ (ns : List Bytes) (l : Bytes),
    (Spec.merkleChain o l ns).length = ns.length + 1
  | [], _ => rfl
  | n :: rest, l => by
    simp only [Spec.merkleChain, List.length_cons, merkleChain_length o rest]

theorem merkleChain_zero (o : Spec.TapOracle) (ns : List Bytes) (l : Bytes) :
    (Spec.merkleChain o l ns)[0]? = some l := by
  cases ns <;> simp [Spec.merkleChain]

/-- each element of the chain is the TapBranch of the previous element and the next path node -/
theorem merkleChain_succ (o : Spec.TapOracle) : ∀ (ns : List Bytes) (l : Bytes) (i : Nat) (x n : Bytes),
    (Spec.merkleChain o l ns)[i]? = some x → ns[i]? = some n →
    (Spec.merkleChain o l ns)[i + 1]? = some (Spec.tapBranchHash o x n)
  | [], _, _, _, _, _, hn => by simp at hn
  | n0 :: rest, l, 0, x, n, hx, hn => by
    simp only [Spec.merkleChain, List.getElem?_cons_zero, Option.some.injEq] at hx hn
    subst hx; subst hn
    simp only [Spec.merkleChain, List.getElem?_cons_succ]
    exact merkleChain_zero o rest _
  | n0 :: rest, l, i + 1, x, n, hx, hn => by
    simp only [Spec.merkleChain, List.getElem?_cons_succ] at hx hn ⊢
    exact merkleChain_succ o rest _ i x n hx hn

theorem merkleChain_getLastD (o : Spec.TapOracle) (ns : List Bytes) (l x : Bytes)
    (h : (Spec.merkleChain o l ns)[ns.length]? = some x) :
    (Spec.merkleChain o l ns).getLastD [] = x := by
  rw [List.getLastD_eq_getLast?, List.getLast?_eq_getElem?, merkleChain_length]
  simp only [Nat.add_sub_cancel, h, Option.getD_some]

/-! ### what `Iterate()` leaves alone -/

theorem iterate_frame (tc : TapCtx) (t : Tce) :
    (t.iterate tc).2.control = t.control ∧ (t.iterate tc).2.program = t.program ∧
    (t.iterate tc).2.script = t.script ∧ (t.iterate tc).2.pathLen = t.pathLen ∧
    (t.iterate tc).2.p = t.p ∧ (t.iterate tc).2.q = t.q ∧ (t.iterate tc).2.leaf = t.leaf := by
  unfold Tce.iterate
  split <;> simp

theorem iterN_frame (tc : TapCtx) : ∀ (n : Nat) (t : Tce),
    (Tce.iterN tc n t).control = t.control ∧ (Tce.iterN tc n t).program = t.program ∧
    (Tce.iterN tc n t).script = t.script ∧ (Tce.iterN tc n t).pathLen = t.pathLen ∧
    (Tce.iterN tc n t).p = t.p ∧ (Tce.iterN tc n t).q = t.q ∧ (Tce.iterN tc n t).leaf = t.leaf
  | 0, _ => by simp [Tce.iterN]
  | n + 1, t => by
    have h1 := iterN_frame tc n (t.iterate tc).2
    have h2 := iterate_frame tc t
    simp only [Tce.iterN]
    obtain ⟨a1, a2, a3, a4, a5, a6, a7⟩ := h1
    obtain ⟨b1, b2, b3, b4, b5, b6, b7⟩ := h2
    exact ⟨a1.trans b1, a2.trans b2, a3.trans b3, a4.trans b4, a5.trans b5, a6.trans b6, a7.trans b7⟩

theorem iterN_succ (tc : TapCtx) : ∀ (n : Nat) (t : Tce),
    Tce.iterN tc (n + 1) t = ((Tce.iterN tc n t).iterate tc).2
  | 0, _ => rfl
  | n + 1, t => by
    have := iterN_succ tc n (t.iterate tc).2
    simp only [Tce.iterN] at this ⊢
    exact this

/-- below the path length a call answers `processing` and advances the index -/
theorem iterate_processing (tc : TapCtx) (t : Tce) (h : t.i < t.pathLen) :
    (t.iterate tc).1 = .processing ∧ (t.iterate tc).2.i = t.i + 1 ∧
    (t.iterate tc).2.k =
      (let node := (t.control.drop (33 + 32 * t.i)).take 32
       if lexLt t.k node then tc.taggedHash "TapBranch" (t.k ++ node)
       else tc.taggedHash "TapBranch" (node ++ t.k)) := by
  unfold Tce.iterate
  simp only [h, if_true, Gen.TAPROOT_CONTROL_BASE_SIZE, Gen.TAPROOT_CONTROL_NODE_SIZE]
  exact ⟨trivial, trivial, rfl⟩

/-- at the end of the path a call answers `done` or `failed`, by the tweak check, and changes nothing -/
theorem iterate_final (tc : TapCtx) (t : Tce) (h : ¬ t.i < t.pathLen) :
    t.iterate tc =
      (if tc.checkTapTweak t.q t.p t.k (byteAt t.control 0 % 2 == 1) then .done else .failed, t) := by
  unfold Tce.iterate
  simp [h]

/-! ### `run` -/

theorem run_processing_prefix (tc : TapCtx) : ∀ (n f : Nat) (t : Tce),
    (∀ j, j < n → ((Tce.iterN tc j t).iterate tc).1 = .processing) →
    Tce.run tc (n + f) t = Tce.run tc f (Tce.iterN tc n t)
  | 0, f, t, _ => by simp [Tce.iterN]
  | n + 1, f, t, h => by
    have h0 : (t.iterate tc).1 = .processing := h 0 (by omega)
    have hrest : ∀ j, j < n → ((Tce.iterN tc j (t.iterate tc).2).iterate tc).1 = .processing := by
      intro j hj
      have := h (j + 1) (by omega)
      simpa [Tce.iterN] using this
    have ih := run_processing_prefix tc n f (t.iterate tc).2 hrest
    have : n + 1 + f = (n + f) + 1 := by omega
    rw [this]
    simp only [Tce.run, Tce.iterN]
    generalize hit : t.iterate tc = r at h0 ih ⊢
    obtain ⟨s, t'⟩ := r
    simp only at h0
    subst h0
    simpa using ih

theorem run_one_final (tc : TapCtx) (t : Tce) (h : ¬ t.i < t.pathLen) :
    Tce.run tc 1 t =
      (if tc.checkTapTweak t.q t.p t.k (byteAt t.control 0 % 2 == 1) then .done else .failed, t) := by
  simp only [Tce.run, iterate_final tc t h]
  cases tc.checkTapTweak t.q t.p t.k (byteAt t.control 0 % 2 == 1) <;> rfl

end Btcdeb.Proofs.Tce
