/-
  No operation of the model ends abnormally — relative to a signature checker that is only required to
  behave on the calls the interpreter can actually make.

  `Lemmas/NoAbnormal.lean` assumes `CheckerNoAbn cx`: `cx.checkSchnorr` never ends abnormally, whatever the
  signature version and execution data.  The transaction checker of a `--tx` session
  (`GenericTransactionSignatureChecker::CheckSchnorrSignature`) does NOT satisfy that: it asserts
  `sigversion == TAPROOT || TAPSCRIPT`, `m_annex_init`, and for tapscript `m_tapleaf_hash_init` and
  `m_codeseparator_pos_init`.  Here the whole chain (`evalChecksig` … `step`) is redone with the weaker
  `CheckerNoAbnOn cx` (no abnormal outcome on calls that satisfy `SchnorrReady`), under the execution-data
  facts `EdReady` that `configure_tx_txin` / `setup_environment` establish; and it is shown that a successful
  step keeps those facts (steps only change `codesepPos`, `weightLeft`).
-/
import Btcdeb
import BtcdebProofs.Lemmas.NoAbnormal
import BtcdebProofs.Lemmas.Frame
import BtcdebProofs.Lemmas.EdFlags
namespace Btcdeb.Model
open Btcdeb

/-- what `SignatureHashSchnorr` / `CheckSchnorrSignature` assert about their arguments -/
def SchnorrReady (sv : SigVersion) (ed : ExecData) : Prop :=
  (sv = .TAPROOT ∨ sv = .TAPSCRIPT) ∧ ed.annexInit = true ∧
  (sv = .TAPSCRIPT → ed.tapleafHashInit = true ∧ ed.codesepPosInit = true)

/-- the signature checker does not end abnormally on the calls that satisfy its assertions -/
def CheckerNoAbnOn (cx : Ctx) : Prop :=
  ∀ sig key sv ed, SchnorrReady sv ed → NoAbn (cx.checkSchnorr sig key sv ed)

theorem CheckerNoAbn.on {cx : Ctx} (h : CheckerNoAbn cx) : CheckerNoAbnOn cx :=
  fun sig key sv ed _ => h sig key sv ed

theorem evalChecksigTapscript_noabn_on (cx : Ctx) (hcx : CheckerNoAbnOn cx) (e : SEE) (sig key : Bytes)
    (hsv : e.sigversion = .TAPSCRIPT) (hr : EdReady e.sigversion e.execdata) :
    NoAbn (evalChecksigTapscript cx e sig key) := by
  obtain ⟨ha, ht, hc, hw⟩ := hr.2 hsv
  have hS : ∀ ed : ExecData, edFlags ed = edFlags e.execdata → NoAbn (cx.checkSchnorr sig key e.sigversion ed) := by
    intro ed hfl
    have hed' : SchnorrReady e.sigversion ed := by
      simp only [edFlags, Prod.mk.injEq] at hfl
      obtain ⟨h1, h2, h3, _⟩ := hfl
      exact ⟨Or.inr hsv, by rw [h3]; exact ha, fun _ => ⟨by rw [h1]; exact ht, by rw [h2]; exact hc⟩⟩
    exact hcx sig key e.sigversion ed hed'
  unfold evalChecksigTapscript
  dsimp only
  split
  · split
    · rename_i h; simp [hw] at h
    · split
      · apply noabn_bind' _ _ (noabn_fail _); intro ed hed; cases hed
      · apply noabn_bind' _ _ (noabn_pure _); intro ed hed; cases hed
        repeat' (first | (apply noabn_fail) | (apply noabn_pure) | (apply noabn_ite) | (apply hS; rfl) | (refine noabn_bind _ _ ?_ (fun _ => ?_)))
  · apply noabn_bind' _ _ (noabn_pure _); intro ed hed; cases hed
    repeat' (first | (apply noabn_fail) | (apply noabn_pure) | (apply noabn_ite) | (apply hS; rfl) | (refine noabn_bind _ _ ?_ (fun _ => ?_)))

theorem evalChecksig_noabn_on (cx : Ctx) (hcx : CheckerNoAbnOn cx) (e : SEE) (sig key : Bytes)
    (hr : EdReady e.sigversion e.execdata) : NoAbn (evalChecksig cx e sig key) := by
  unfold evalChecksig
  apply noabn_ite; · noabn
  cases hsv : e.sigversion with
  | TAPROOT =>
    dsimp only
    intro k h
    have hrdy : SchnorrReady .TAPROOT e.execdata := ⟨Or.inl rfl, hr.1 hsv, fun h => by cases h⟩
    have := hcx sig key .TAPROOT e.execdata hrdy
    cases hres : cx.checkSchnorr sig key SigVersion.TAPROOT e.execdata with
    | ok u => rw [hres] at h; cases h
    | error x =>
      rw [hres] at h
      cases x with
      | abnormal k' => exact this k' hres
      | script _ => cases h
      | exc _ => cases h
  | BASE => dsimp only; apply noabn_bind (hx := evalChecksigPreTapscript_noabn cx e sig key); intro _; noabn
  | WITNESS_V0 => dsimp only; apply noabn_bind (hx := evalChecksigPreTapscript_noabn cx e sig key); intro _; noabn
  | TAPSCRIPT => exact evalChecksigTapscript_noabn_on cx hcx e sig key hsv hr

set_option hygiene false in
macro "noabn4" : tactic => `(tactic|
  repeat' (first
    | (with_reducible apply noabn_fail)
    | (with_reducible apply noabn_pure)
    | (with_reducible apply noabn_ok)
    | (with_reducible apply noabn_top)
    | (with_reducible apply noabn_pop)
    | (with_reducible apply noabn_num)
    | (with_reducible apply noabn_sizeCheck)
    | (with_reducible apply noabn_exc)
    | (with_reducible apply evalChecksig_noabn_on _ hcx _ _ _ hr)
    | (with_reducible apply multisigLoop_noabn)
    | (with_reducible apply noabn_ite)
    | (refine noabn_bind _ _ ?_ (fun _ => ?_))
    | assumption
    ))

/-- `cx` with a Schnorr check that always answers "false" (used to reuse `execOpcode_noabn` for the opcodes that never
    consult the Schnorr checker) -/
def muteSchnorr (cx : Ctx) : Ctx := { cx with checkSchnorr := fun _ _ _ _ => .error (.script .UNKNOWN_ERROR) }

theorem muteSchnorr_noabn (cx : Ctx) : CheckerNoAbn (muteSchnorr cx) := by
  intro a b c d k h; cases h

theorem checkSignatureEncoding_muteSchnorr (cx : Ctx) (sig : Bytes) (flags : Nat) :
    checkSignatureEncoding (muteSchnorr cx) sig flags = checkSignatureEncoding cx sig flags := rfl

theorem multisigLoop_muteSchnorr (cx : Ctx) (e : SEE) (code : Bytes) (st : List Bytes) :
    ∀ (nKeys nSigs isig ikey : Nat),
      multisigLoop (muteSchnorr cx) e code st nSigs nKeys isig ikey = multisigLoop cx e code st nSigs nKeys isig ikey := by
  intro nKeys
  induction nKeys with
  | zero => intro nSigs isig ikey; cases nSigs <;> simp only [multisigLoop]
  | succ n ih =>
    intro nSigs isig ikey
    cases nSigs with
    | zero => simp only [multisigLoop]
    | succ m =>
      simp only [multisigLoop, ih, checkSignatureEncoding_muteSchnorr]
      rfl

set_option maxHeartbeats 1000000 in
/-- only the three signature opcodes consult the Schnorr checker -/
theorem execOpcode_muteSchnorr (cx : Ctx) (e : SEE) (op : Opcode) (fExec : Bool) (pc : Bytes)
    (h1 : op ≠ .OP_CHECKSIG) (h2 : op ≠ .OP_CHECKSIGVERIFY) (h3 : op ≠ .OP_CHECKSIGADD) :
    execOpcode (muteSchnorr cx) e op fExec pc = execOpcode cx e op fExec pc := by
  cases op
  case OP_CHECKMULTISIG => simp only [execOpcode, multisigLoop_muteSchnorr]
  case OP_CHECKMULTISIGVERIFY => simp only [execOpcode, multisigLoop_muteSchnorr]
  all_goals first | (exact absurd rfl h1) | (exact absurd rfl h2) | (exact absurd rfl h3) | rfl

/-- no opcode of the `switch` ends abnormally -/
theorem execOpcode_noabn_on (cx : Ctx) (hcx : CheckerNoAbnOn cx) (e : SEE) (op : Opcode) (fExec : Bool) (pc : Bytes)
    (hr : EdReady e.sigversion e.execdata) : NoAbn (execOpcode cx e op fExec pc) := by
  by_cases h1 : op = .OP_CHECKSIG
  · subst h1; simp only [execOpcode]; noabn4
  by_cases h2 : op = .OP_CHECKSIGVERIFY
  · subst h2; simp only [execOpcode]; noabn4
  by_cases h3 : op = .OP_CHECKSIGADD
  · subst h3; simp only [execOpcode]; noabn4
  rw [← execOpcode_muteSchnorr cx e op fExec pc h1 h2 h3]
  exact execOpcode_noabn (muteSchnorr cx) (muteSchnorr_noabn cx) e op fExec pc
    (fun hs => (hr.2 hs).2.2.2)

/-- NO STEP ENDS ABNORMALLY (relative version): provided the execution data is initialised as the signature version
    requires, and the checker keeps its side of the bargain on such calls -/
theorem step_noabn_on (cx : Ctx) (hcx : CheckerNoAbnOn cx) (e : SEE) (pc : Bytes)
    (hr : EdReady e.sigversion e.execdata) : NoAbn (step cx e pc) := by
  unfold step
  simp only []
  split
  · exact noabn_fail _
  · apply noabn_ite; · exact noabn_fail _
    apply noabn_bind' _ _ (countOp_noabn e _)
    intro e1 hc
    have hk := countOp_keeps hc
    have hr1 : EdReady e1.sigversion e1.execdata := by rw [hk.1, hk.2]; exact hr
    apply noabn_ite; · exact noabn_fail _
    apply noabn_ite; · exact noabn_fail _
    apply noabn_ite
    · apply noabn_ite; · exact noabn_fail _
      exact noabn_bind _ _ (noabn_sizeCheck _) (fun _ => noabn_pure _)
    · apply noabn_ite
      · exact noabn_bind _ _ (execOpcode_noabn_on cx hcx e1 _ _ _ hr1) (fun _ => noabn_pure _)
      · exact noabn_bind _ _ (noabn_sizeCheck _) (fun _ => noabn_pure _)

end Btcdeb.Model
