/-
  Invariants behind property C12: the listing is "what has been executed, followed by the plan of the
  rest", an instruction that does not decode can only be met in the last script, and (for data-push-only
  scriptSigs) the top of the stack is the data of the last instruction executed.
  All three are preserved by every kind of successful step (`stepSession_cases`).
-/
import Btcdeb
import BtcdebProofs.Lemmas.StepCases
import BtcdebProofs.Properties.C04
namespace Btcdeb.Proofs.C12
open Btcdeb Btcdeb.Model

/-- the redeem script the listing announces for a P2SH scriptPubKey is the one the hand-over will load:
    when the scriptPubKey is about to be entered after a push-only scriptSig (any other scriptSig makes
    the P2SH hand-over fail, BIP16), the item on top of the stack is `r` -/
def PredOk (r : Bytes) (e : IEnv) : Prop :=
  e.tce = none → e.pc = [] → e.isP2sh = false → e.successor ≠ [] → p2shPattern e.see.flags e.successor = true →
    isPushOnly e.see.script = true → e.see.stack.getLast?.getD [] = r

/-- the hand-over to the redeem script cannot succeed any more: the scriptSig was not push-only -/
def doomed (e : IEnv) : Bool := e.isP2sh && e.sigscriptExecuted && !e.sigscriptPushonly

/-- what follows the current script in the listing: the plan of the rest (`Spec.tailFuture`), except that
    in a session whose P2SH hand-over is bound to fail the section announced for the redeem script stays
    listed (it is never entered) -/
def tailOf (r : Bytes) (e : IEnv) : List Spec.PlanLine :=
  if doomed e then Spec.handOverP2sh :: Spec.planOf r else Spec.tailFuture r e

/-- structural invariant: the listing is what has been executed followed by the plan of the rest -/
def Inv (r : Bytes) (L : List Spec.PlanLine) (e : IEnv) : Prop :=
  ∃ (pre : List Spec.PlanLine) (k : Nat),
    L = pre ++ (Spec.commitFuture e.tce ++ Spec.planOf e.see.script ++ tailOf r e) ∧
    e.currOpSeq = ((pre.length + k : Nat) : Int) ∧
    advanceOps k e.see.script = some e.pc ∧
    (e.tce.isSome = true → k = 0) ∧
    (e.done = true → e.tce = none ∧ e.pc = [] ∧ e.isP2sh = false ∧ e.successor = [])

theorem commitmentPlan_lt (c p : Bytes) (m i : Nat) (h : i < m) :
    Spec.commitmentPlan c p m i = Spec.merkleStep c i :: Spec.commitmentPlan c p m (i + 1) := by
  unfold Spec.commitmentPlan
  have : m - i = (m - (i + 1)) + 1 := by omega
  rw [this, List.range'_succ]
  simp

theorem commitmentPlan_ge (c p : Bytes) (m i : Nat) (h : ¬ i < m) :
    Spec.commitmentPlan c p m i = [Spec.tweakCheck p] := by
  unfold Spec.commitmentPlan
  have : m - i = 0 := by omega
  rw [this]; simp

theorem planOf_length_of_end {k : Nat} {s : Bytes} (h : advanceOps k s = some []) : (Spec.planOf s).length = k := by
  obtain ⟨pre, h1, h2⟩ := decodeFrom_advance k s [] h
  rw [planOf_eq, h1, decodeFrom_none (by rfl)]
  simpa using h2

/-- the tail depends on the fields of `view` only -/
theorem tailOf_eq (r : Bytes) (e : IEnv) :
    tailOf r e =
      if (e.isP2sh && e.sigscriptExecuted && !e.sigscriptPushonly) = true then Spec.handOverP2sh :: Spec.planOf r
      else ((if e.isP2sh then Spec.handOverP2sh :: Spec.planOf (e.p2shStack.getLast?.getD []) else []) ++
       (if e.successor.isEmpty then []
        else Spec.handOverSpk :: Spec.planOf e.successor ++
          (if p2shPattern e.see.flags e.successor then Spec.handOverP2sh :: Spec.planOf r else []))) := rfl

theorem inv_step (cx : Ctx) (tc : TapCtx) (r : Bytes) (L : List Spec.PlanLine) (ep e : IEnv)
    (hinv : Inv r L ep) (hnd : ep.done = false) (hpred : PredOk r ep) (hs : stepSession cx tc ep = .ok e) :
    Inv r L e := by
  obtain ⟨pre, k, hL, hseq, hadv, htk, hdone⟩ := hinv
  rw [tailOf_eq] at hL
  unfold Inv
  simp only [tailOf_eq]
  cases stepSession_cases cx tc ep e hs with
  | merkle t t' htce hlt hc hp hm hi hv =>
    simp only [view, Prod.mk.injEq] at hv
    obtain ⟨hscr, hfl, hpc, htce', hisp, hps, hsu, hdn, hsq, _, _, hsx, hsp⟩ := hv
    have hk0 : k = 0 := htk (by simp [htce])
    subst hk0
    refine ⟨pre ++ [Spec.merkleStep t.control t.i], 0, ?_, ?_, ?_, fun _ => rfl, ?_⟩
    · rw [hL, hscr, hfl, htce', hisp, hps, hsu, hsx, hsp, htce]
      simp only [Spec.commitFuture, hc, hp, hm, hi]
      rw [commitmentPlan_lt _ _ _ _ hlt]; simp
    · rw [hsq, hseq]; simp
    · rw [hscr, hpc]; exact hadv
    · rw [hdn, hnd]; intro h; cases h
  | tweak t htce hlt hv =>
    simp only [view, Prod.mk.injEq] at hv
    obtain ⟨hscr, hfl, hpc, htce', hisp, hps, hsu, hdn, hsq, _, _, hsx, hsp⟩ := hv
    have hk0 : k = 0 := htk (by simp [htce])
    subst hk0
    refine ⟨pre ++ [Spec.tweakCheck t.p], 0, ?_, ?_, ?_, fun _ => rfl, ?_⟩
    · rw [hL, hscr, hfl, htce', hisp, hps, hsu, hsx, hsp, htce]
      simp only [Spec.commitFuture]
      rw [commitmentPlan_ge _ _ _ _ hlt]; simp
    · rw [hsq, hseq]; simp
    · rw [hscr, hpc]; exact hadv
    · rw [hdn, hnd]; intro h; cases h
  | op g see' htce hne hg hst hv =>
    simp only [view, Prod.mk.injEq] at hv
    obtain ⟨hscr, hfl, hpc, htce', hisp, hps, hsu, hdn, hsq, _, _, hsx, hsp⟩ := hv
    refine ⟨pre, k + 1, ?_, ?_, ?_, ?_, ?_⟩
    · rw [hL, hscr, hfl, htce', hisp, hps, hsu, hsx, hsp, htce]
    · rw [hsq, hseq]; simp; omega
    · rw [hscr, hpc]; exact advanceOps_succ hadv hg
    · rw [htce']; intro h; simp at h
    · rw [hdn, hnd]; intro h; cases h
  | p2sh redeem htce hpc0 hp2 hr hpo hv =>
    simp only [view, Prod.mk.injEq] at hv
    obtain ⟨hscr, hfl, hpc, htce', hisp, hps, hsu, hdn, hsq, _, _, hsx, hsp⟩ := hv
    have hlen : (Spec.planOf ep.see.script).length = k := planOf_length_of_end (by rw [← hpc0]; exact hadv)
    have hnd' : (ep.isP2sh && ep.sigscriptExecuted && !ep.sigscriptPushonly) = false := by
      rw [hp2, Bool.true_and]; exact hpo
    simp only [hnd', Bool.false_eq_true, if_false] at hL
    refine ⟨pre ++ Spec.planOf ep.see.script ++ [Spec.handOverP2sh], 0, ?_, ?_, ?_, fun _ => rfl, ?_⟩
    · rw [hL, hscr, hfl, htce', hisp, hps, hsu, hsx, hsp, htce]
      simp [Spec.commitFuture, hp2, hr]
    · rw [hsq, hseq]; simp [hlen]; omega
    · rw [hscr, hpc]; rfl
    · rw [hdn, hnd]; intro h; cases h
  | succ htce hpc0 hp2 hne hv =>
    simp only [view, Prod.mk.injEq] at hv
    obtain ⟨hscr, hfl, hpc, htce', hisp, hps, hsu, hdn, hsq, _, _, hsx, hsp⟩ := hv
    have hlen : (Spec.planOf ep.see.script).length = k := planOf_length_of_end (by rw [← hpc0]; exact hadv)
    have hsue : ep.successor.isEmpty = false := by
      cases h : ep.successor with | nil => exact absurd h hne | cons a b => rfl
    refine ⟨pre ++ Spec.planOf ep.see.script ++ [Spec.handOverSpk], 0, ?_, ?_, ?_, fun _ => rfl, ?_⟩
    · rw [hL, hscr, hfl, htce', hisp, hps, hsu, hsx, hsp, htce]
      simp only [Spec.commitFuture, hp2, hsue, List.nil_append, Bool.false_eq_true, if_false, List.isEmpty_nil, if_true,
        List.append_nil, Bool.false_and, Bool.true_and, Bool.and_true]
      by_cases hpat : p2shPattern ep.see.flags ep.successor = true
      · by_cases hpo : isPushOnly ep.see.script = true
        · have := hpred htce hpc0 hp2 hne hpat hpo
          simp [hpat, hpo, this]
        · simp [hpat, hpo]
      · simp [hpat]
    · rw [hsq, hseq]; simp [hlen]; omega
    · rw [hscr, hpc]; rfl
    · rw [hdn, hnd]; intro h; cases h
  | finish htce hpc0 hp2 hsu0 hv =>
    simp only [view, Prod.mk.injEq] at hv
    obtain ⟨hscr, hfl, hpc, htce', hisp, hps, hsu, hdn, hsq, _, _, hsx, hsp⟩ := hv
    refine ⟨pre, k, ?_, ?_, ?_, ?_, ?_⟩
    · rw [hL, hscr, hfl, htce', hisp, hps, hsu, hsx, hsp, htce, hp2, hsu0]
    · rw [hsq, hseq]
    · rw [hscr, hpc]; exact hadv
    · rw [htce']; intro h; simp at h
    · intro _; exact ⟨htce', by rw [hpc]; exact hpc0, hisp, hsu⟩

theorem planOf_split {k : Nat} {s pc : Bytes} (h : advanceOps k s = some pc) :
    ∃ pre, Spec.planOf s = pre ++ Spec.planFrom s.length pc.length pc ∧ pre.length = k := by
  obtain ⟨pre, h1, h2⟩ := decodeFrom_advance k s pc h
  refine ⟨pre.map (fun p => (⟨false, s.length - p.1, opText p.2⟩ : Spec.PlanLine)), ?_, by simpa using h2⟩
  rw [planOf_eq, h1, planFrom_eq s.length pc.length pc (Nat.le_refl _), List.map_append]

/-- from the structural invariant: the line with the number `curr_op_seq` is the operation the next
    step performs (no line when nothing is pending) -/
theorem inv_marker (r : Bytes) (L : List Spec.PlanLine) (e : IEnv) (hinv : Inv r L e)
    (hdec : e.tce = none → e.pc ≠ [] → Spec.decodeOne e.pc = none → tailOf r e = []) :
    0 ≤ e.currOpSeq ∧ L[e.currOpSeq.toNat]? = Spec.pending e := by
  obtain ⟨pre, k, hL, hseq, hadv, htk, hdone⟩ := hinv
  refine ⟨by omega, ?_⟩
  have hidx : e.currOpSeq.toNat = pre.length + k := by omega
  rw [hidx, hL, List.getElem?_append_right (by omega)]
  have hsub : pre.length + k - pre.length = k := by omega
  rw [hsub]
  unfold Spec.pending
  by_cases hd : e.done = true
  · obtain ⟨h1, h2, h3, h4⟩ := hdone hd
    have hlen : (Spec.planOf e.see.script).length = k := planOf_length_of_end (by rw [← h2]; exact hadv)
    simp only [hd, if_true, h1, Spec.commitFuture, tailOf, doomed, Spec.tailFuture, h3, h4, List.nil_append, List.append_nil]
    simp [hlen]
  · simp only [hd, Bool.false_eq_true, if_false]
    cases htce : e.tce with
    | some t =>
      have hk0 : k = 0 := htk (by simp [htce])
      subst hk0
      simp only [Spec.commitFuture]
      by_cases hlt : t.i < t.pathLen
      · rw [commitmentPlan_lt _ _ _ _ hlt]; simp [hlt]
      · rw [commitmentPlan_ge _ _ _ _ hlt]; simp [hlt]
    | none =>
      simp only [Spec.commitFuture, List.nil_append]
      obtain ⟨pre2, hp1, hp2⟩ := planOf_split hadv
      rw [hp1, List.append_assoc, List.getElem?_append_right (by omega)]
      have : k - pre2.length = 0 := by omega
      rw [this]
      cases hpc : e.pc with
      | nil =>
        simp only [List.length_nil, Spec.planFrom, List.nil_append, List.isEmpty_nil, Bool.not_true, Bool.false_eq_true, if_false]
        unfold tailOf doomed Spec.tailFuture
        by_cases hp2sh : e.isP2sh = true
        · by_cases hdm : (e.sigscriptExecuted && !e.sigscriptPushonly) = true
          · simp [hp2sh, hdm]
          · simp [hp2sh, hdm]
        · have : e.isP2sh = false := by simpa using hp2sh
          simp only [this, Bool.false_eq_true, if_false, List.nil_append, Bool.false_and]
          by_cases hsu : e.successor.isEmpty = true
          · simp [hsu]
          · simp [hsu]
      | cons b rest =>
        simp only [List.length_cons, Spec.planFrom, List.isEmpty_cons, Bool.not_false, if_true]
        cases hdo : Spec.decodeOne (b :: rest) with
        | none =>
          have := hdec htce (by simp [hpc]) (by rw [hpc]; exact hdo)
          simp [this]
        | some p =>
          obtain ⟨i, after⟩ := p
          simp

/-- every instruction position of `s` that is not the end decodes -/
def Decodable (s : Bytes) : Prop := ∀ k pc, advanceOps k s = some pc → pc ≠ [] → (getOp pc).isSome = true

theorem decodable_rest {s : Bytes} {g : GotOp} (hg : getOp s = some g) (h : Decodable s) : Decodable g.rest := by
  intro k pc hk hne
  exact h (k + 1) pc (by simp [advanceOps, hg, hk]) hne

/-- scripts accepted by `HasValidOps` (the gate of `parse_script`) decode completely -/
theorem hasValidOps_decodable : ∀ (n : Nat) (s : Bytes), s.length ≤ n → hasValidOps s = true → Decodable s := by
  intro n
  induction n with
  | zero =>
    intro s hs _ k pc hk hne
    have : s = [] := List.length_eq_zero_iff.mp (by omega)
    subst this
    cases k with
    | zero => simp [advanceOps] at hk; exact absurd hk hne
    | succ k => simp [advanceOps, getOp] at hk
  | succ n ih =>
    intro s hs hv k pc hk hne
    rw [hasValidOps] at hv
    split at hv
    · rename_i hnone
      have hs0 : s = [] := by simpa using hv
      subst hs0
      cases k with
      | zero => simp [advanceOps] at hk; exact absurd hk hne
      | succ k => simp [advanceOps, getOp] at hk
    · rename_i g hg
      split at hv
      · cases hv
      · cases k with
        | zero => simp [advanceOps] at hk; subst hk; simp [hg]
        | succ k =>
          simp only [advanceOps, hg] at hk
          have hlt := getOp_rest_lt hg
          exact ih g.rest (by omega) hv k pc hk hne

/-- the P2SH scriptPubKey pattern `OP_HASH160 <20 bytes> OP_EQUAL` decodes completely -/
theorem p2shPattern_decodable (flags : Nat) (s : Bytes) (h : p2shPattern flags s = true) : Decodable s := by
  simp only [p2shPattern, Bool.and_eq_true, beq_iff_eq] at h
  obtain ⟨⟨⟨⟨_, hlen⟩, h0⟩, h1⟩, h22⟩ := h
  match s, hlen, h0, h1, h22 with
  | b0 :: b1 :: t, hlen, h0, h1, h22 =>
    have ht : t.length = 21 := by simpa using hlen
    have hb0 : b0.toNat = 169 := by simpa [byteAt, Op.OP_HASH160] using h0
    have hb1 : b1.toNat = 20 := by simpa [byteAt] using h1
    have hg0 : getOp (b0 :: b1 :: t) = some { opcode := 169, data := [], rest := b1 :: t } := by
      simp [getOp, hb0, Op.OP_PUSHDATA4]
    have hg1 : getOp (b1 :: t) = some { opcode := 20, data := t.take 20, rest := t.drop 20 } := by
      simp [getOp, hb1, Op.OP_PUSHDATA4, Op.OP_PUSHDATA1, ht]
    obtain ⟨x, hx⟩ : ∃ x, t.drop 20 = [x] := by
      have : (t.drop 20).length = 1 := by simp [ht]
      match t.drop 20, this with
      | [x], _ => exact ⟨x, rfl⟩
    have hxv : x.toNat = 135 := by
      have h22' : (b0 :: b1 :: t)[22]? = t[20]? := by simp
      have : t[20]? = some x := by
        have := congrArg (fun l => l[0]?) hx
        simpa using this
      simpa [byteAt, h22', this, Op.OP_EQUAL] using h22
    have hg2 : getOp [x] = some { opcode := 135, data := [], rest := [] } := by
      simp [getOp, hxv, Op.OP_PUSHDATA4]
    intro k pc hk hne
    match k with
    | 0 => simp [advanceOps] at hk; subst hk; simp [hg0]
    | 1 => simp [advanceOps, hg0] at hk; subst hk; simp [hg1]
    | 2 => simp [advanceOps, hg0, hg1, hx] at hk; subst hk; simp [hg2]
    | 3 => simp [advanceOps, hg0, hg1, hx, hg2] at hk; exact absurd hk hne
    | k + 4 =>
      have hnil : getOp ([] : Bytes) = none := rfl
      simp only [advanceOps, hg0, hg1, hx, hg2, hnil] at hk
      cases hk

/-- side invariant: a script that is followed by another one decodes completely (so an instruction
    that does not decode can only be met in the last script of a session), and the scriptPubKey is
    either still pending or gone -/
def J (s0 : Bytes) (e : IEnv) : Prop :=
  (e.isP2sh = true → p2shPattern e.see.flags e.see.script = true) ∧
  (e.successor ≠ [] → Decodable e.see.script ∧ e.isP2sh = false) ∧
  (e.successor = [] ∨ e.successor = s0)

/-- while the scriptPubKey is pending the current script is the scriptSig the session started with, and
    there is no commitment phase -/
def K (sc0 : Bytes) (e : IEnv) : Prop := e.successor ≠ [] → e.see.script = sc0 ∧ e.tce = none

theorem j_step (cx : Ctx) (tc : TapCtx) (s0 : Bytes) (ep e : IEnv) (hj : J s0 ep) (hs : stepSession cx tc ep = .ok e) : J s0 e := by
  obtain ⟨hj1, hj2, hj3⟩ := hj
  unfold J
  cases stepSession_cases cx tc ep e hs with
  | merkle t t' htce hlt hc hp hm hi hv =>
    simp only [view, Prod.mk.injEq] at hv
    obtain ⟨hscr, hfl, hpc, htce', hisp, hps, hsu, hdn, hsq, _, _, hsx, hsp⟩ := hv
    rw [hscr, hfl, hisp, hsu]; exact ⟨hj1, hj2, hj3⟩
  | tweak t htce hlt hv =>
    simp only [view, Prod.mk.injEq] at hv
    obtain ⟨hscr, hfl, hpc, htce', hisp, hps, hsu, hdn, hsq, _, _, hsx, hsp⟩ := hv
    rw [hscr, hfl, hisp, hsu]; exact ⟨hj1, hj2, hj3⟩
  | op g see' htce hne hg hst hv =>
    simp only [view, Prod.mk.injEq] at hv
    obtain ⟨hscr, hfl, hpc, htce', hisp, hps, hsu, hdn, hsq, _, _, hsx, hsp⟩ := hv
    rw [hscr, hfl, hisp, hsu]; exact ⟨hj1, hj2, hj3⟩
  | p2sh redeem htce hpc0 hp2 hr hpo hv =>
    simp only [view, Prod.mk.injEq] at hv
    obtain ⟨hscr, hfl, hpc, htce', hisp, hps, hsu, hdn, hsq, _, _, hsx, hsp⟩ := hv
    rw [hisp, hsu]
    refine ⟨fun h => (by cases h), ?_, hj3⟩
    intro hne
    have := (hj2 hne).2
    rw [hp2] at this; cases this
  | succ htce hpc0 hp2 hne hv =>
    simp only [view, Prod.mk.injEq] at hv
    obtain ⟨hscr, hfl, hpc, htce', hisp, hps, hsu, hdn, hsq, _, _, hsx, hsp⟩ := hv
    rw [hscr, hfl, hisp, hsu]
    exact ⟨fun h => h, fun h => absurd rfl h, Or.inl rfl⟩
  | finish htce hpc0 hp2 hsu0 hv =>
    simp only [view, Prod.mk.injEq] at hv
    obtain ⟨hscr, hfl, hpc, htce', hisp, hps, hsu, hdn, hsq, _, _, hsx, hsp⟩ := hv
    rw [hisp, hsu]
    exact ⟨fun h => (by cases h), fun h => absurd rfl h, Or.inl rfl⟩

/-- a session as `setup_environment` leaves it -/
structure Fresh (e0 : IEnv) : Prop where
  pcStart : e0.pc = e0.see.script
  seq0 : e0.currOpSeq = 0
  /-- a session that starts in the ended state has nothing left to do -/
  done0 : e0.done = true → e0.tce = none ∧ e0.pc = [] ∧ e0.isP2sh = false ∧ e0.successor = []
  p2sh0 : e0.isP2sh = true → p2shPattern e0.see.flags e0.see.script = true
  sig0 : e0.sigscriptExecuted = false
  /-- a scriptSig (a script that is followed by a scriptPubKey) decodes completely (`configure_tx_txin`
      refuses others), starts on an empty stack with no open conditional, and the session does not at the
      same time treat the scriptSig itself as a P2SH scriptPubKey -/
  succ0 : e0.successor ≠ [] → Decodable e0.see.script ∧ e0.isP2sh = false ∧ e0.see.stack = [] ∧ e0.see.cond.allTrue = true ∧ e0.tce = none

theorem fresh_inv (e0 : IEnv) (h : Fresh e0) : e0.Inv ∧ atStart e0 = true :=
  ⟨⟨by rw [h.pcStart]; exact Nat.le_refl _, fun _ => by simp [atStart, h.pcStart]⟩, by simp [atStart, h.pcStart]⟩

/-- induction principle: a property that holds for the fresh session and is preserved by every
    successful step holds after any number of steps -/
theorem advance_induction (cx : Ctx) (tc : TapCtx) (e0 : IEnv) (P : IEnv → Prop) (h0 : P e0)
    (hstep : ∀ j ep e, C04.advance cx tc e0 j = some ep → ep.done = false → P ep → stepSession cx tc ep = .ok e → P e) :
    ∀ k e, C04.advance cx tc e0 k = some e → P e := by
  intro k
  induction k with
  | zero => intro e h; simp [C04.advance] at h; subst h; exact h0
  | succ k ih =>
    intro e h
    simp only [C04.advance] at h
    cases hk : C04.advance cx tc e0 k with
    | none => simp [hk] at h
    | some ep =>
      simp only [hk] at h
      by_cases hd : ep.done = true
      · simp [hd] at h
      · simp only [hd, Bool.false_eq_true, if_false] at h
        cases hs : stepSession cx tc ep with
        | error x => simp [hs] at h
        | ok e' =>
          simp [hs] at h; subst h
          exact hstep k ep e' hk (by simpa using hd) (ih ep hk) hs

/-- the side invariant holds after any number of successful steps of a fresh session -/
theorem j_advance (cx : Ctx) (tc : TapCtx) (e0 : IEnv) (hf : Fresh e0) :
    ∀ k e, C04.advance cx tc e0 k = some e → J e0.successor e :=
  advance_induction cx tc e0 _ ⟨hf.p2sh0, fun h => ⟨(hf.succ0 h).1, (hf.succ0 h).2.1⟩, Or.inr rfl⟩ (fun _ ep e _ _ hp hs => j_step cx tc _ ep e hp hs)

/-- the structural invariant holds after any number of successful steps of a fresh session -/
theorem inv_advance (cx : Ctx) (tc : TapCtx) (r : Bytes) (e0 : IEnv) (hf : Fresh e0)
    (hpred : ∀ j e, C04.advance cx tc e0 j = some e → PredOk r e) :
    ∀ k e, C04.advance cx tc e0 k = some e → Inv r (Spec.idealListing r e0) e :=
  advance_induction cx tc e0 _
    ⟨[], 0, by simp [Spec.idealListing, Spec.sessionPlan, tailOf, doomed, hf.sig0], by simp [hf.seq0], by simp [advanceOps, hf.pcStart], fun _ => rfl, hf.done0⟩
    (fun j ep e hk hd hp hs => inv_step cx tc r _ ep e hp hd (hpred j ep hk) hs)

/-- the marker property in the form the statement of C12 gives it: the line whose number is the marker
    index is the operation the next step performs (no such line when nothing is pending) -/
def MarkerInv (L : List Spec.PlanLine) (e : IEnv) : Prop :=
  0 ≤ markerIndex e ∧ L[(markerIndex e).toNat]? = Spec.pending e

theorem marker_of_inv (r s0 : Bytes) (L : List Spec.PlanLine) (e : IEnv) (hi : Inv r L e) (hj : J s0 e) : MarkerInv L e := by
  refine inv_marker r L e hi ?_
  intro htce hne hdo
  obtain ⟨pre, k, _, _, hadv, _, _⟩ := hi
  have hgo : getOp e.pc = none := by
    have := Refine.getOp_decodeOne e.pc
    rw [hdo] at this
    cases hg : getOp e.pc with
    | none => rfl
    | some g => rw [hg] at this; cases this
  have hnd : ¬ Decodable e.see.script := by
    intro hd
    have := hd k e.pc hadv hne
    rw [hgo] at this; cases this
  unfold tailOf doomed Spec.tailFuture
  have h1 : e.isP2sh = false := by
    cases hp : e.isP2sh with
    | false => rfl
    | true => exact absurd (p2shPattern_decodable _ _ (hj.1 hp)) hnd
  have h2 : e.successor = [] := by
    cases hsu : e.successor with
    | nil => rfl
    | cons a b => exact absurd (hj.2.1 (by simp [hsu])).1 hnd
  simp [h1, h2]

theorem execHist_append (cx : Ctx) (tc : TapCtx) (a b : List C04.Cmd) (s : IEnv × Int) :
    C04.execHist cx tc (a ++ b) s = (C04.execHist cx tc a s).bind (C04.execHist cx tc b) := by
  induction a generalizing s with
  | nil => simp [C04.execHist]
  | cons c cs ih =>
    obtain ⟨e, n⟩ := s
    simp only [List.cons_append, C04.execHist]
    cases C04.execCmd cx tc e c with
    | none => rfl
    | some p => obtain ⟨e', d⟩ := p; exact ih _

-- ---------------------------------------------------------------------------------------------
-- the listing: commitment lines

theorem branchLine_plan (t : Tce) (i : Nat) : (branchLine t i).plan = Spec.merkleStep t.control i := rfl

theorem checkLine_plan (t : Tce) : (checkLine t).plan = Spec.tweakCheck t.p := rfl

-- ---------------------------------------------------------------------------------------------
-- push-only scriptSigs

/-- every instruction of the script has an opcode up to `OP_16` (`IsPushOnly`, see `isPushOnly_ops`) -/
def PushOnly (s : Bytes) : Prop := ∀ p ∈ decodeFrom s, p.2.opcode ≤ Op.OP_16

/-- what the last of the first `k` instructions leaves on top of the stack -/
def topAfter (s : Bytes) (k : Nat) : Bytes := ((((decodeFrom s).take k).getLast?).map (fun p => payloadOf p.2)).getD []

theorem k_step (cx : Ctx) (tc : TapCtx) (sc0 s0 : Bytes) (ep e : IEnv) (hk : K sc0 ep) (hj : J s0 ep)
    (hs : stepSession cx tc ep = .ok e) : K sc0 e := by
  unfold K
  cases stepSession_cases cx tc ep e hs with
  | merkle t t' htce hlt hc hp hm hi hv =>
    simp only [view, Prod.mk.injEq] at hv
    obtain ⟨hscr, hfl, hpc, htce', hisp, hps, hsu, hdn, hsq, _, _, hsx, hsp⟩ := hv
    rw [hsu]; intro hne; have := (hk hne).2; rw [htce] at this; cases this
  | tweak t htce hlt hv =>
    simp only [view, Prod.mk.injEq] at hv
    obtain ⟨hscr, hfl, hpc, htce', hisp, hps, hsu, hdn, hsq, _, _, hsx, hsp⟩ := hv
    rw [hsu]; intro hne; have := (hk hne).2; rw [htce] at this; cases this
  | op g see' htce hne hg hst hv =>
    simp only [view, Prod.mk.injEq] at hv
    obtain ⟨hscr, hfl, hpc, htce', hisp, hps, hsu, hdn, hsq, _, _, hsx, hsp⟩ := hv
    rw [hsu, hscr, htce']; intro hne'; exact ⟨(hk hne').1, rfl⟩
  | p2sh redeem htce hpc0 hp2 hr hpo hv =>
    simp only [view, Prod.mk.injEq] at hv
    obtain ⟨hscr, hfl, hpc, htce', hisp, hps, hsu, hdn, hsq, _, _, hsx, hsp⟩ := hv
    rw [hsu]; intro hne'
    have := (hj.2.1 hne').2
    rw [hp2] at this; cases this
  | succ htce hpc0 hp2 hne hv =>
    simp only [view, Prod.mk.injEq] at hv
    obtain ⟨hscr, hfl, hpc, htce', hisp, hps, hsu, hdn, hsq, _, _, hsx, hsp⟩ := hv
    rw [hsu]; intro h; exact absurd rfl h
  | finish htce hpc0 hp2 hsu0 hv =>
    simp only [view, Prod.mk.injEq] at hv
    obtain ⟨hscr, hfl, hpc, htce', hisp, hps, hsu, hdn, hsq, _, _, hsx, hsp⟩ := hv
    rw [hsu]; intro h; exact absurd rfl h

/-- while a push-only scriptSig runs, the top of the stack is what the last instruction executed left there -/
def Q (e : IEnv) : Prop :=
  e.successor ≠ [] → e.see.cond.allTrue = true ∧
    ∃ k, advanceOps k e.see.script = some e.pc ∧ e.see.stack.getLast?.getD [] = topAfter e.see.script k

theorem q_step (cx : Ctx) (tc : TapCtx) (sc0 s0 : Bytes) (hdp : PushOnly sc0) (ep e : IEnv) (hq : Q ep) (hk : K sc0 ep) (hj : J s0 ep)
    (hs : stepSession cx tc ep = .ok e) : Q e := by
  unfold Q
  cases stepSession_cases cx tc ep e hs with
  | merkle t t' htce hlt hc hp hm hi hv =>
    simp only [view, Prod.mk.injEq] at hv
    obtain ⟨hscr, hfl, hpc, htce', hisp, hps, hsu, hdn, hsq, hstk, hcnd, hsx, hsp⟩ := hv
    rw [hsu]; intro hne; have := (hk hne).2; rw [htce] at this; cases this
  | tweak t htce hlt hv =>
    simp only [view, Prod.mk.injEq] at hv
    obtain ⟨hscr, hfl, hpc, htce', hisp, hps, hsu, hdn, hsq, hstk, hcnd, hsx, hsp⟩ := hv
    rw [hsu]; intro hne; have := (hk hne).2; rw [htce] at this; cases this
  | op g see' htce hne hg hst hv =>
    simp only [view, Prod.mk.injEq] at hv
    obtain ⟨hscr, hfl, hpc, htce', hisp, hps, hsu, hdn, hsq, hstk, hcnd, hsx, hsp⟩ := hv
    rw [hsu, hscr, hpc, hstk, hcnd]
    intro hne'
    obtain ⟨hall, k, hadv, htop⟩ := hq hne'
    have hs0 := (hk hne').1
    obtain ⟨pre, hdec, hlen⟩ := decodeFrom_advance k _ _ hadv
    have hdec' : decodeFrom ep.see.script = pre ++ (ep.pc.length, g) :: decodeFrom g.rest := by
      rw [hdec, decodeFrom_some hg]
    have hmem : (ep.pc.length, g) ∈ decodeFrom ep.see.script := by rw [hdec']; simp
    have hop := hdp _ (by rw [← hs0]; exact hmem)
    obtain ⟨hst1, hst2⟩ := step_pushonly cx ep.see see' ep.pc g.rest g hst hg hall hop
    refine ⟨by rw [hst2]; exact hall, k + 1, advanceOps_succ hadv hg, ?_⟩
    simp only [hst1, topAfter]
    rw [hdec']
    have : (pre ++ (ep.pc.length, g) :: decodeFrom g.rest).take (k + 1) = pre ++ [(ep.pc.length, g)] := by
      rw [List.take_append, List.take_of_length_le (by omega)]
      simp [hlen]
    rw [this]; simp
  | p2sh redeem htce hpc0 hp2 hr hpo hv =>
    simp only [view, Prod.mk.injEq] at hv
    obtain ⟨hscr, hfl, hpc, htce', hisp, hps, hsu, hdn, hsq, hstk, hcnd, hsx, hsp⟩ := hv
    rw [hsu]
    intro hne
    have := (hj.2.1 hne).2
    rw [hp2] at this; cases this
  | succ htce hpc0 hp2 hne hv =>
    simp only [view, Prod.mk.injEq] at hv
    obtain ⟨hscr, hfl, hpc, htce', hisp, hps, hsu, hdn, hsq, hstk, hcnd, hsx, hsp⟩ := hv
    rw [hsu]; intro h; exact absurd rfl h
  | finish htce hpc0 hp2 hsu0 hv =>
    simp only [view, Prod.mk.injEq] at hv
    obtain ⟨hscr, hfl, hpc, htce', hisp, hps, hsu, hdn, hsq, hstk, hcnd, hsx, hsp⟩ := hv
    rw [hsu]; intro h; exact absurd rfl h

end Btcdeb.Proofs.C12
