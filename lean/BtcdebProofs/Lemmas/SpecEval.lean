/-
  Symbolic evaluation of the specification's script interpreter on the fixed scripts validation builds or
  meets around a spend: a witness program as scriptPubKey, the P2SH wrapper, the implied P2PKH script of P2WPKH,
  the key-path script the debugger generates.
-/
import Btcdeb
import BtcdebProofs.Lemmas.SpecCore
import BtcdebProofs.Lemmas.SpendShapes
import BtcdebProofs.Lemmas.LE
namespace Btcdeb.Proofs.SpecEval
open Btcdeb Btcdeb.Proofs.SpecCore Btcdeb.Proofs.Shapes

/-! ### decoding does not depend on surplus fuel -/

theorem decodeOne_lt {s : Bytes} {i : Spec.Instr} {after : Bytes} (h : Spec.decodeOne s = some (i, after)) :
    after.length < s.length := Refine.decodeOne_rest_lt h

theorem decodePrefix_nil (fuel : Nat) : Spec.decodePrefix fuel [] = ([], true) := by
  cases fuel <;> rfl

theorem decodePrefix_fuel : ∀ (fuel : Nat) (s : Bytes), s.length ≤ fuel →
    Spec.decodePrefix fuel s = Spec.decodePrefix s.length s := by
  intro fuel
  induction fuel using Nat.strongRecOn with
  | _ fuel ih =>
    intro s hs
    cases fuel with
    | zero =>
      have : s = [] := List.length_eq_zero_iff.mp (by omega)
      subst this; rfl
    | succ fuel =>
      cases s with
      | nil => rfl
      | cons b r =>
        rw [decodePrefix_succ fuel (b :: r) (by simp)]
        simp only [List.length_cons]
        rw [decodePrefix_succ r.length (b :: r) (by simp)]
        cases hd : Spec.decodeOne (b :: r) with
        | none => rfl
        | some p =>
          obtain ⟨i, after⟩ := p
          have hlt := decodeOne_lt hd
          simp only [List.length_cons] at hlt hs
          have e1 : Spec.decodePrefix fuel after = Spec.decodePrefix after.length after :=
            ih fuel (by omega) after (by omega)
          have e2 : Spec.decodePrefix r.length after = Spec.decodePrefix after.length after := by
            by_cases hr : r.length = fuel + 1
            · omega
            · exact ih r.length (by omega) after (by omega)
          simp only [e1, e2]

/-! ### stepping `evalFrom` -/

theorem evalFrom_nil (cfg : Spec.Cfg) (pos : Nat) (st : Spec.St) :
    evalFrom cfg [] pos st = if (!st.cond.isEmpty) = true then .error .UNBALANCED_CONDITIONAL else .ok st := by
  simp [evalFrom, Spec.decodePrefix, Spec.evalInstrs]

theorem decodePrefix_step {s : Bytes} {i : Spec.Instr} {after : Bytes} (h : Spec.decodeOne s = some (i, after)) :
    Spec.decodePrefix s.length s =
      ((i, after) :: (Spec.decodePrefix after.length after).1, (Spec.decodePrefix after.length after).2) := by
  have hlt := decodeOne_lt h
  cases s with
  | nil => simp at hlt
  | cons b r =>
    simp only [List.length_cons] at hlt ⊢
    rw [decodePrefix_succ r.length (b :: r) (by simp), h]
    simp only
    rw [decodePrefix_fuel r.length after (by omega)]

theorem evalFrom_step_err {cfg : Spec.Cfg} {s : Bytes} {i : Spec.Instr} {after : Bytes} {pos : Nat} {st : Spec.St}
    {e : ScriptError} (hd : Spec.decodeOne s = some (i, after)) (hx : Spec.execInstr cfg i after pos st = .error e) :
    evalFrom cfg s pos st = .error e := by
  unfold evalFrom
  simp only [decodePrefix_step hd, Spec.evalInstrs, hx]

theorem evalFrom_step_ok {cfg : Spec.Cfg} {s : Bytes} {i : Spec.Instr} {after : Bytes} {pos : Nat} {st st1 : Spec.St}
    (hd : Spec.decodeOne s = some (i, after)) (hx : Spec.execInstr cfg i after pos st = .ok st1) :
    evalFrom cfg s pos st = evalFrom cfg after (pos + 1) st1 := by
  unfold evalFrom
  simp only [decodePrefix_step hd, Spec.evalInstrs, hx]

/-- one step, whatever its outcome -/
theorem evalFrom_step {cfg : Spec.Cfg} {s : Bytes} {i : Spec.Instr} {after : Bytes} {pos : Nat} {st : Spec.St}
    (hd : Spec.decodeOne s = some (i, after)) :
    evalFrom cfg s pos st = Spec.execInstr cfg i after pos st >>= fun st1 => evalFrom cfg after (pos + 1) st1 := by
  cases hx : Spec.execInstr cfg i after pos st with
  | error e => rw [evalFrom_step_err hd hx]; rfl
  | ok st1 => rw [evalFrom_step_ok hd hx]; rfl

/-! ### decoding the instructions that occur -/

theorem decodeOne_op (b : UInt8) (rest : Bytes) (h : 0x4e < b.toNat) :
    Spec.decodeOne (b :: rest) = some (⟨b.toNat, []⟩, rest) := by
  have : ¬ b.toNat ≤ 0x4e := by omega
  simp [Spec.decodeOne, this]

theorem decodeOne_push (b : UInt8) (data rest : Bytes) (h : b.toNat < 0x4c) (hl : data.length = b.toNat) :
    Spec.decodeOne (b :: (data ++ rest)) = some (⟨b.toNat, data⟩, rest) := by
  have h1 : b.toNat ≤ 0x4e := by omega
  have h2 : Spec.pushLenBytes b.toNat = 0 := by simp [Spec.pushLenBytes, h]
  simp only [Spec.decodeOne, h1, if_true, h2, Nat.not_lt_zero, if_false, List.drop_zero]
  simp only [← hl, List.take_left', List.drop_left']
  have h3 : ¬ (data ++ rest).length < data.length := by simp
  simp only [h3, if_false]


/-! ### single instructions -/

theorem bind_ok {α β} {x : Spec.R α} {f : α → Spec.R β} {r : β} (h : (x >>= f) = .ok r) :
    ∃ a, x = .ok a ∧ f a = .ok r := by
  cases x with
  | error e => cases h
  | ok a => exact ⟨a, rfl, h⟩

theorem checkSize_ok {st st1 : Spec.St} (h : Spec.checkSize st = .ok st1) : st1 = st := by
  unfold Spec.checkSize at h
  split at h
  · cases h
  · cases h; rfl

theorem countOp_ok {cfg : Spec.Cfg} {opc : Nat} {st st1 : Spec.St} (h : Spec.countOp cfg opc st = .ok st1) :
    st1.stack = st.stack ∧ st1.cond = st.cond ∧ st1.alt = st.alt ∧ st1.codeFrom = st.codeFrom ∧
    st1.codesepPos = st.codesepPos ∧ st1.weightLeft = st.weightLeft ∧ st1.weightInit = st.weightInit := by
  unfold Spec.countOp at h
  split at h
  · split at h
    · cases h
    · cases h; simp
  · cases h; simp

theorem small_not_disabled : ∀ n, n < 79 →
    Spec.disabled (Opcode.ofNat n) = false ∧ (Opcode.ofNat n == Opcode.OP_CODESEPARATOR) = false := by
  decide

/-- an executed push that succeeds puts its data on the stack and changes nothing else -/
theorem execInstr_push_ok {cfg : Spec.Cfg} {opc : Nat} {data after : Bytes} {pos : Nat} {st st1 : Spec.St}
    (hop : opc ≤ 0x4e) (hcond : st.cond = [])
    (h : Spec.execInstr cfg ⟨opc, data⟩ after pos st = .ok st1) :
    st1 = { st with stack := data :: st.stack } := by
  unfold Spec.execInstr at h
  simp only at h
  split at h
  · cases h
  · obtain ⟨stc, hc, h⟩ := bind_ok h
    have hcnt : stc = st := by
      unfold Spec.countOp at hc
      have : ¬ opc > 0x60 := by omega
      simp [this] at hc
      exact hc.symm
    subst hcnt
    obtain ⟨hd, hcs⟩ := small_not_disabled opc (by omega)
    simp only [hd, hcs, Bool.and_false, Bool.false_eq_true, if_false, Bool.false_and, hcond, List.all_nil,
      Bool.true_and, decide_eq_true hop, if_true] at h
    split at h
    · cases h
    · rw [checkSize_ok h, hcond]

/-- an executed push: forward -/
theorem execInstr_push {cfg : Spec.Cfg} {opc : Nat} {data after : Bytes} {pos : Nat} {st : Spec.St}
    (hop : opc ≤ 0x4e) (hlen : data.length ≤ Spec.maxElementSize) (hcond : st.cond = [])
    (hmin : Spec.minimalPush opc data = true) (hsz : st.stack.length + 1 + st.alt.length ≤ Spec.maxStackSize) :
    Spec.execInstr cfg ⟨opc, data⟩ after pos st = .ok { st with stack := data :: st.stack } := by
  unfold Spec.execInstr
  simp only
  have h1 : ¬ data.length > Spec.maxElementSize := by omega
  simp only [h1, if_false]
  have hcnt : Spec.countOp cfg opc st = .ok st := by
    unfold Spec.countOp
    have : ¬ opc > 0x60 := by omega
    simp [this]
  rw [hcnt]
  obtain ⟨hd, hcs⟩ := small_not_disabled opc (by omega)
  simp only [rOk_bind, hd, hcs, Bool.and_false, Bool.false_eq_true, if_false, Bool.false_and, hcond, List.all_nil,
    Bool.true_and, decide_eq_true hop, if_true, hmin, Bool.not_true]
  unfold Spec.checkSize
  have : ¬ (data :: st.stack).length + st.alt.length > Spec.maxStackSize := by simp only [List.length_cons]; omega
  simp only [this, if_false]

/-- an executed non-push opcode that succeeds went through the operation count and the opcode's own rule -/
theorem execInstr_op_ok' {cfg : Spec.Cfg} {i : Spec.Instr} {after : Bytes} {pos : Nat} {st st1 : Spec.St}
    (hop : 0x4e < i.opcode) (hcond : st.cond = [])
    (h : Spec.execInstr cfg i after pos st = .ok st1) :
    ∃ stc, Spec.countOp cfg i.opcode st = .ok stc ∧ Spec.execOp cfg (Opcode.ofNat i.opcode) true after pos stc = .ok st1 := by
  unfold Spec.execInstr at h
  simp only at h
  split at h
  · cases h
  · obtain ⟨stc, hc, h⟩ := bind_ok h
    refine ⟨stc, hc, ?_⟩
    have hno : ¬ i.opcode ≤ 0x4e := by omega
    simp only [hcond, List.all_nil, Bool.true_and, decide_eq_false hno, Bool.false_eq_true, if_false,
      Bool.true_or, if_true] at h
    split at h
    · cases h
    · split at h
      · cases h
      · exact h

theorem execInstr_op_ok {cfg : Spec.Cfg} {opc : Nat} {after : Bytes} {pos : Nat} {st st1 : Spec.St}
    (hop : 0x4e < opc) (hcond : st.cond = [])
    (h : Spec.execInstr cfg ⟨opc, []⟩ after pos st = .ok st1) :
    ∃ stc, Spec.countOp cfg opc st = .ok stc ∧ Spec.execOp cfg (Opcode.ofNat opc) true after pos stc = .ok st1 :=
  execInstr_op_ok' (i := ⟨opc, []⟩) hop hcond h

/-- forward form, for an opcode that is neither disabled nor OP_CODESEPARATOR -/
theorem execInstr_op {cfg : Spec.Cfg} {opc : Nat} {after : Bytes} {pos : Nat} {st : Spec.St}
    (hop : 0x4e < opc) (hcond : st.cond = [])
    (hd : Spec.disabled (Opcode.ofNat opc) = false) (hcs : (Opcode.ofNat opc == Opcode.OP_CODESEPARATOR) = false) :
    Spec.execInstr cfg ⟨opc, []⟩ after pos st =
      Spec.countOp cfg opc st >>= fun stc => Spec.execOp cfg (Opcode.ofNat opc) true after pos stc := by
  unfold Spec.execInstr
  simp only [List.length_nil]
  have h0 : ¬ 0 > Spec.maxElementSize := by decide
  simp only [h0, if_false]
  cases hc : Spec.countOp cfg opc st with
  | error e => rfl
  | ok stc =>
    have hcc := (countOp_ok hc).2.1
    have hno : ¬ opc ≤ 0x4e := by omega
    simp only [rOk_bind, hd, hcs, Bool.and_false, Bool.false_eq_true, if_false, Bool.false_and, hcond, List.all_nil,
      Bool.true_and, decide_eq_false hno, Bool.true_or, if_true]


/-! ### a witness program as scriptPubKey / redeem script: two pushes -/

theorem minimalPush_direct (prog : Bytes) (h2 : 2 ≤ prog.length) (h75 : prog.length ≤ 75) :
    Spec.minimalPush prog.length prog = true := by
  unfold Spec.minimalPush
  have a : ¬ prog.length = 0 := by omega
  have b : ¬ prog.length = 1 := by omega
  simp [a, b, h75]

/-- evaluating `OP_0 <prog>` (legacy rules) on a stack `S` (with room for two more items) leaves `prog`, then the
    empty vector, on top -/
theorem eval_witprog_v0 (cfg : Spec.Cfg) (prog : Bytes) (S : List Bytes) (h2 : 2 ≤ prog.length) (h75 : prog.length ≤ 75)
    (hS : S.length + 2 ≤ Spec.maxStackSize) :
    ∃ st, (Spec.evalScript cfg (0x00 :: UInt8.ofNat prog.length :: prog) { stack := S }).result = .ok st ∧
      st.stack = prog :: [] :: S := by
  rw [evalScript_result]
  have hlen : ¬ (0x00 :: UInt8.ofNat prog.length :: prog).length > Spec.maxScriptSize := by
    simp only [List.length_cons]; unfold Spec.maxScriptSize; omega
  simp only [hlen, decide_false, Bool.and_false, Bool.false_eq_true, if_false]
  have hb : (UInt8.ofNat prog.length).toNat = prog.length := by
    simp [UInt8.toNat_ofNat']; omega
  have d1 : Spec.decodeOne (0x00 :: UInt8.ofNat prog.length :: prog) =
      some (⟨0, []⟩, UInt8.ofNat prog.length :: prog) :=
    decodeOne_push 0 [] (UInt8.ofNat prog.length :: prog) (by decide) rfl
  have d2 : Spec.decodeOne (UInt8.ofNat prog.length :: prog) = some (⟨prog.length, prog⟩, []) := by
    have := decodeOne_push (UInt8.ofNat prog.length) prog [] (by rw [hb]; omega) hb.symm
    rw [List.append_nil, hb] at this
    exact this
  rw [evalFrom_step d1, execInstr_push (by decide) (by decide) rfl (by decide) (by simp only [List.length_nil]; omega)]
  simp only [rOk_bind]
  rw [evalFrom_step d2, execInstr_push (by omega) (by unfold Spec.maxElementSize; omega) rfl (minimalPush_direct prog h2 h75)
    (by simp only [List.length_cons, List.length_nil]; omega)]
  simp only [rOk_bind, evalFrom_nil]
  exact ⟨_, rfl, rfl⟩

theorem encodeNum_one : Spec.encodeNum 1 = [1] := by
  have h : leBytes 1 = [1] := by
    rw [leBytes]; simp; rw [leBytes]; simp
  simp [Spec.encodeNum, Model.serialize, h, hi]

/-- evaluating `OP_1 <prog>` (legacy rules) on a stack `S` leaves `prog`, then the number 1, on top -/
theorem eval_witprog_v1 (cfg : Spec.Cfg) (prog : Bytes) (S : List Bytes)
    (h2 : 2 ≤ prog.length) (h75 : prog.length ≤ 75) (hS : S.length + 2 ≤ Spec.maxStackSize) :
    ∃ st, (Spec.evalScript cfg (0x51 :: UInt8.ofNat prog.length :: prog) { stack := S }).result = .ok st ∧
      st.stack = prog :: [1] :: S := by
  rw [evalScript_result]
  have hlen : ¬ (0x51 :: UInt8.ofNat prog.length :: prog).length > Spec.maxScriptSize := by
    simp only [List.length_cons]; unfold Spec.maxScriptSize; omega
  simp only [hlen, decide_false, Bool.and_false, Bool.false_eq_true, if_false]
  have hb : (UInt8.ofNat prog.length).toNat = prog.length := by
    simp [UInt8.toNat_ofNat']; omega
  have d1 : Spec.decodeOne (0x51 :: UInt8.ofNat prog.length :: prog) =
      some (⟨0x51, []⟩, UInt8.ofNat prog.length :: prog) :=
    decodeOne_op 0x51 _ (by decide)
  have d2 : Spec.decodeOne (UInt8.ofNat prog.length :: prog) = some (⟨prog.length, prog⟩, []) := by
    have := decodeOne_push (UInt8.ofNat prog.length) prog [] (by rw [hb]; omega) hb.symm
    rw [List.append_nil, hb] at this
    exact this
  have hop1 : Opcode.ofNat 0x51 = .OP_1 := by decide
  have x1 : Spec.execInstr cfg ⟨0x51, []⟩ (UInt8.ofNat prog.length :: prog) 0
      { ({ stack := S } : Spec.St) with codeFrom := 0x51 :: UInt8.ofNat prog.length :: prog } =
      .ok { ({ stack := [1] :: S } : Spec.St) with codeFrom := 0x51 :: UInt8.ofNat prog.length :: prog } := by
    rw [execInstr_op (by decide) rfl (by decide) (by decide), hop1]
    have hc : Spec.countOp cfg 0x51 { ({ stack := S } : Spec.St) with codeFrom := 0x51 :: UInt8.ofNat prog.length :: prog } =
        .ok { ({ stack := S } : Spec.St) with codeFrom := 0x51 :: UInt8.ofNat prog.length :: prog } := by
      simp [Spec.countOp]
    rw [hc]
    simp only [rOk_bind, Spec.execOp, Spec.disabled, Spec.smallInt, Bool.false_eq_true, if_false, encodeNum_one]
    unfold Spec.checkSize
    have : ¬ ([1] :: S).length + ([] : List Bytes).length > Spec.maxStackSize := by
      simp only [List.length_cons, List.length_nil]; omega
    simp only [this, if_false]
  rw [evalFrom_step d1, x1]
  simp only [rOk_bind]
  rw [evalFrom_step d2, execInstr_push (by omega) (by unfold Spec.maxElementSize; omega) rfl (minimalPush_direct prog h2 h75)
    (by simp only [List.length_cons, List.length_nil]; omega)]
  simp only [rOk_bind, evalFrom_nil]
  exact ⟨_, rfl, rfl⟩


/-! ### the implied P2PKH script of P2WPKH: what a successful evaluation entails -/

theorem execOp_DUP_ok {cfg : Spec.Cfg} {ex : Bool} {after : Bytes} {pos : Nat} {st st1 : Spec.St}
    (h : Spec.execOp cfg .OP_DUP ex after pos st = .ok st1) :
    ∃ x s, st.stack = x :: s ∧ st1.stack = x :: x :: s ∧ st1.cond = st.cond := by
  simp only [Spec.execOp, Spec.disabled, Spec.smallInt, Spec.isNopN, Spec.isUnary, Spec.isBinary,
    Bool.false_eq_true, if_false] at h
  split at h
  · rename_i x s hs
    rw [checkSize_ok h]
    exact ⟨x, s, hs, rfl, rfl⟩
  · cases h

theorem execOp_HASH160_ok {cfg : Spec.Cfg} {ex : Bool} {after : Bytes} {pos : Nat} {st st1 : Spec.St}
    (h : Spec.execOp cfg .OP_HASH160 ex after pos st = .ok st1) :
    ∃ x s, st.stack = x :: s ∧ st1.stack = cfg.oracle.ripemd160 (cfg.oracle.sha256 x) :: s ∧ st1.cond = st.cond := by
  simp only [Spec.execOp, Spec.disabled, Spec.smallInt, Spec.isNopN, Spec.isUnary, Spec.isBinary,
    Bool.false_eq_true, if_false] at h
  split at h
  · rename_i x s hs
    rw [checkSize_ok h]
    exact ⟨x, s, hs, rfl, rfl⟩
  · cases h

theorem execOp_EQUALVERIFY_ok {cfg : Spec.Cfg} {ex : Bool} {after : Bytes} {pos : Nat} {st st1 : Spec.St}
    (h : Spec.execOp cfg .OP_EQUALVERIFY ex after pos st = .ok st1) :
    ∃ x2 x1 s, st.stack = x2 :: x1 :: s ∧ x1 = x2 ∧ st1.stack = s ∧ st1.cond = st.cond := by
  simp only [Spec.execOp, Spec.disabled, Spec.smallInt, Spec.isNopN, Spec.isUnary, Spec.isBinary,
    Bool.false_eq_true, if_false] at h
  split at h
  · rename_i x2 x1 s hs
    split at h
    · rename_i heq
      rw [checkSize_ok h]
      exact ⟨x2, x1, s, hs, by simpa using heq, rfl, rfl⟩
    · cases h
  · cases h

theorem execOp_CHECKSIG_ok {cfg : Spec.Cfg} {ex : Bool} {after : Bytes} {pos : Nat} {st st1 : Spec.St}
    (h : Spec.execOp cfg .OP_CHECKSIG ex after pos st = .ok st1) :
    ∃ key sig s b, st.stack = key :: sig :: s ∧ st1.stack = Spec.ofBool b :: s := by
  simp only [Spec.execOp, Spec.disabled, Spec.smallInt, Spec.isNopN, Spec.isUnary, Spec.isBinary,
    Bool.false_eq_true, if_false] at h
  split at h
  · rename_i key sig s hs
    obtain ⟨p, _, h⟩ := bind_ok h
    simp only [show (Opcode.OP_CHECKSIG == Opcode.OP_CHECKSIGVERIFY) = false from rfl, Bool.false_eq_true, if_false] at h
    rw [checkSize_ok h]
    exact ⟨key, sig, s, p.1, hs, rfl⟩
  · cases h

/-- a successful evaluation of `DUP HASH160 <prog> EQUALVERIFY CHECKSIG`: the stack held a key whose HASH160 is the
    program, above a signature; the two are replaced by one boolean -/
theorem p2pkh_eval_ok (cfg : Spec.Cfg) (prog : Bytes) (hp : prog.length = 20) (st0 st' : Spec.St) (hc : st0.cond = [])
    (h : (Spec.evalScript cfg (Spec.p2pkhScript prog) st0).result = .ok st') :
    ∃ key sig rest, st0.stack = key :: sig :: rest ∧ cfg.oracle.ripemd160 (cfg.oracle.sha256 key) = prog ∧
      st'.stack.length = rest.length + 1 := by
  rw [evalScript_result] at h
  split at h
  · cases h
  · have hs : Spec.p2pkhScript prog = 0x76 :: 0xa9 :: 0x14 :: (prog ++ [0x88, 0xac]) := rfl
    rw [hs] at h
    -- DUP
    rw [evalFrom_step (decodeOne_op 0x76 _ (by decide))] at h
    obtain ⟨s1, hx1, h⟩ := bind_ok h
    obtain ⟨c1, hc1, hx1⟩ := execInstr_op_ok (opc := (0x76 : UInt8).toNat) (by decide) (by exact hc) hx1
    have k1 := countOp_ok hc1
    rw [show Opcode.ofNat (0x76 : UInt8).toNat = .OP_DUP by decide] at hx1
    obtain ⟨key, r1, e1, f1, g1⟩ := execOp_DUP_ok hx1
    -- HASH160
    rw [evalFrom_step (decodeOne_op 0xa9 _ (by decide))] at h
    obtain ⟨s2, hx2, h⟩ := bind_ok h
    obtain ⟨c2, hc2, hx2⟩ := execInstr_op_ok (opc := (0xa9 : UInt8).toNat) (by decide) (by rw [g1, k1.2.1]; exact hc) hx2
    have k2 := countOp_ok hc2
    rw [show Opcode.ofNat (0xa9 : UInt8).toNat = .OP_HASH160 by decide] at hx2
    obtain ⟨x2, r2, e2, f2, g2⟩ := execOp_HASH160_ok hx2
    -- <prog>
    rw [evalFrom_step (decodeOne_push 0x14 prog [0x88, 0xac] (by decide) (by rw [hp]; rfl))] at h
    obtain ⟨s3, hx3, h⟩ := bind_ok h
    have hc3 : s2.cond = [] := by rw [g2, k2.2.1, g1, k1.2.1]; exact hc
    have e3 := execInstr_push_ok (opc := (0x14 : UInt8).toNat) (by decide) hc3 hx3
    -- EQUALVERIFY
    rw [evalFrom_step (decodeOne_op 0x88 _ (by decide))] at h
    obtain ⟨s4, hx4, h⟩ := bind_ok h
    obtain ⟨c4, hc4, hx4⟩ := execInstr_op_ok (opc := (0x88 : UInt8).toNat) (by decide) (by rw [e3]; exact hc3) hx4
    have k4 := countOp_ok hc4
    rw [show Opcode.ofNat (0x88 : UInt8).toNat = .OP_EQUALVERIFY by decide] at hx4
    obtain ⟨y2, y1, r4, e4, q4, f4, g4⟩ := execOp_EQUALVERIFY_ok hx4
    -- CHECKSIG
    rw [evalFrom_step (decodeOne_op 0xac _ (by decide))] at h
    obtain ⟨s5, hx5, h⟩ := bind_ok h
    have hc5 : s4.cond = [] := by rw [g4, k4.2.1, e3]; exact hc3
    obtain ⟨c5, hc5', hx5⟩ := execInstr_op_ok (opc := (0xac : UInt8).toNat) (by decide) hc5 hx5
    have k5 := countOp_ok hc5'
    rw [show Opcode.ofNat (0xac : UInt8).toNat = .OP_CHECKSIG by decide] at hx5
    obtain ⟨k, sg, r5, b, e5, f5⟩ := execOp_CHECKSIG_ok hx5
    -- end of script
    rw [evalFrom_nil] at h
    split at h
    · cases h
    · cases h
      -- thread the stacks
      have hstack0 : st0.stack = key :: r1 := by rw [← e1]; exact k1.1.symm
      have a2 : key :: key :: r1 = x2 :: r2 := by rw [← f1, ← k2.1, e2]
      obtain ⟨hx2, hr2⟩ := List.cons.inj a2
      have a4 : prog :: (cfg.oracle.ripemd160 (cfg.oracle.sha256 x2) :: r2) = y2 :: y1 :: r4 := by
        rw [← e4, k4.1, e3, f2]
      obtain ⟨hy2, t⟩ := List.cons.inj a4
      obtain ⟨hy1, hr4⟩ := List.cons.inj t
      have a5 : key :: r1 = k :: sg :: r5 := by rw [hr2, hr4, ← f4, ← k5.1, e5]
      obtain ⟨_, hr1⟩ := List.cons.inj a5
      refine ⟨key, sg, r5, by rw [hstack0, hr1], ?_, by rw [f5]; rfl⟩
      rw [hx2, hy1, q4, ← hy2]


/-! ### a push-only script leaves items of at most 520 bytes -/

theorem serialize_length_le (v : Int) (h : v.natAbs < 256) : (Model.serialize v).length ≤ 2 := by
  unfold Model.serialize
  split
  · simp
  · have hl : (leBytes v.natAbs).length ≤ 1 := (leBytes_length_le v.natAbs 1).2 (by simpa using h)
    simp only
    split
    · simp
    · split
      · simp only [List.length_append, List.length_cons, List.length_nil]; omega
      · split
        · simp only [List.length_append, List.length_dropLast, List.length_cons, List.length_nil]; omega
        · omega

def smallOk (n : Nat) : Bool :=
  match Spec.smallInt (Opcode.ofNat n) with
  | some v => decide (v.natAbs ≤ 16) && !Spec.disabled (Opcode.ofNat n)
  | none => Opcode.ofNat n == .OP_RESERVED

theorem smallOps_table : (List.range 0x61).all (fun n => decide (n ≤ 0x4e) || smallOk n) = true := by decide

theorem smallOps (n : Nat) (h1 : n < 0x61) (h2 : 0x4e < n) :
    (match Spec.smallInt (Opcode.ofNat n) with
     | some v => v.natAbs ≤ 16 ∧ Spec.disabled (Opcode.ofNat n) = false
     | none => Opcode.ofNat n = .OP_RESERVED) := by
  have := List.all_eq_true.mp smallOps_table n (List.mem_range.mpr h1)
  have hn : ¬ n ≤ 0x4e := by omega
  simp only [decide_eq_false hn, Bool.false_or] at this
  unfold smallOk at this
  split at this
  · simpa using this
  · simpa using this

theorem pushonly_instr_bound {cfg : Spec.Cfg} {i : Spec.Instr} {after : Bytes} {pos : Nat} {st st1 : Spec.St}
    (hop : i.opcode ≤ 0x60) (hcond : st.cond = []) (hb : ∀ x ∈ st.stack, x.length ≤ Spec.maxElementSize)
    (h : Spec.execInstr cfg i after pos st = .ok st1) :
    st1.cond = [] ∧ ∀ x ∈ st1.stack, x.length ≤ Spec.maxElementSize := by
  by_cases hp : i.opcode ≤ 0x4e
  · have hd : i.data.length ≤ Spec.maxElementSize := by
      unfold Spec.execInstr at h
      simp only at h
      split at h
      · cases h
      · rename_i hle; omega
    have := execInstr_push_ok (opc := i.opcode) (data := i.data) hp hcond h
    rw [this]
    refine ⟨hcond, ?_⟩
    intro x hx
    rcases List.mem_cons.1 hx with rfl | hx'
    · exact hd
    · exact hb x hx'
  · obtain ⟨stc, hc, hx⟩ := execInstr_op_ok' (by omega) hcond h
    have k := countOp_ok hc
    have hs := smallOps i.opcode (by omega) (by omega)
    cases hsm : Spec.smallInt (Opcode.ofNat i.opcode) with
    | none =>
      rw [hsm] at hs
      simp only at hs
      rw [hs] at hx
      simp [Spec.execOp, Spec.disabled, Spec.smallInt, Spec.isNopN, Spec.isUnary, Spec.isBinary] at hx
    | some v =>
      rw [hsm] at hs
      simp only at hs
      unfold Spec.execOp at hx
      simp only [hs.2, Bool.false_eq_true, if_false, hsm] at hx
      rw [checkSize_ok hx]
      refine ⟨by rw [k.2.1]; exact hcond, ?_⟩
      intro x hx'
      rcases List.mem_cons.1 hx' with rfl | hx''
      · have := serialize_length_le v (by omega)
        unfold Spec.encodeNum Spec.maxElementSize
        omega
      · rw [k.1] at hx''; exact hb x hx''

theorem pushonly_bound (cfg : Spec.Cfg) : ∀ (l : List (Spec.Instr × Bytes)) (pos : Nat) (st st' : Spec.St),
    (∀ p ∈ l, p.1.opcode ≤ 0x60) → st.cond = [] → (∀ x ∈ st.stack, x.length ≤ Spec.maxElementSize) →
    (Spec.evalInstrs cfg l pos st).2 = .ok st' → ∀ x ∈ st'.stack, x.length ≤ Spec.maxElementSize
  | [], _, st, st', _, _, hb, h => by
    simp only [Spec.evalInstrs] at h
    cases h; exact hb
  | (i, after) :: rest, pos, st, st', hall, hcond, hb, h => by
    simp only [Spec.evalInstrs] at h
    cases hx : Spec.execInstr cfg i after pos st with
    | error e => rw [hx] at h; cases h
    | ok s1 =>
      rw [hx] at h
      simp only at h
      obtain ⟨c1, b1⟩ := pushonly_instr_bound (hall (i, after) (List.mem_cons_self ..)) hcond hb hx
      exact pushonly_bound cfg rest (pos + 1) s1 st' (fun p hp => hall p (List.mem_cons_of_mem _ hp)) c1 b1 h

/-- a push-only script evaluated on the empty stack leaves items of at most 520 bytes -/
theorem pushonly_stack_bound (cfg : Spec.Cfg) (s : Bytes) (st' : Spec.St) (hpo : Spec.isPushOnly s = true)
    (h : (Spec.evalScript cfg s { stack := [] }).result = .ok st') :
    ∀ x ∈ st'.stack, x.length ≤ Spec.maxElementSize := by
  rw [evalScript_result] at h
  split at h
  · cases h
  · unfold evalFrom at h
    simp only at h
    cases hx : (Spec.evalInstrs cfg (Spec.decodePrefix s.length s).1 0 { ({ stack := [] } : Spec.St) with codeFrom := s }).2 with
    | error e => rw [hx] at h; cases h
    | ok s1 =>
      rw [hx] at h
      simp only at h
      split at h
      · cases h
      · rename_i hd
        split at h
        · cases h
        · cases h
          refine pushonly_bound cfg _ 0 _ _ ?_ rfl (by intro x hx'; cases hx') hx
          unfold Spec.isPushOnly Spec.decode Spec.decodeWithRest at hpo
          have hd' : (Spec.decodePrefix s.length s).2 = true := by simpa using hd
          simp only [hd', if_true, Option.map_some, List.all_map, List.all_eq_true] at hpo
          intro p hp
          have := hpo p hp
          simpa using this


/-! ### the key-path script the debugger generates: `<32-byte program> OP_CHECKSIG` under TAPROOT rules -/

theorem ofBool_true : Spec.ofBool true = [1] := rfl

/-- evaluating `<program> OP_CHECKSIG` on the stack holding one signature, under the TAPROOT signature version:
    the BIP340 check of that signature against the program, leaving `true`; a failed check is a script failure -/
theorem keypath_eval (cfg : Spec.Cfg) (hsv : cfg.sigversion = .TAPROOT) (hpre : cfg.pretend = []) (prog sig : Bytes)
    (hp : prog.length = 32) :
    (Spec.evalScript cfg (0x20 :: (prog ++ [0xac])) { stack := [sig] }).result =
      match cfg.oracle.schnorr sig prog .TAPROOT 0xFFFFFFFF with
      | .ok () => .ok { ({ stack := [[1]] } : Spec.St) with codeFrom := 0x20 :: (prog ++ [0xac]) }
      | .error x => .error x := by
  rw [evalScript_result]
  have hnsz : ((cfg.sigversion == .BASE || cfg.sigversion == .WITNESS_V0) &&
      decide ((0x20 :: (prog ++ [0xac])).length > Spec.maxScriptSize)) = false := by
    rw [hsv]; rfl
  simp only [hnsz, Bool.false_eq_true, if_false]
  rw [evalFrom_step (decodeOne_push 0x20 prog [0xac] (by decide) (by rw [hp]; rfl)),
    execInstr_push (opc := (0x20 : UInt8).toNat) (by decide) (by rw [hp]; decide) rfl
      (by have := minimalPush_direct prog (by omega) (by omega); rw [hp] at this; exact this)
      (by simp only [List.length_cons, List.length_nil]; decide)]
  simp only [rOk_bind]
  rw [evalFrom_step (decodeOne_op 0xac [] (by decide)),
    execInstr_op (opc := (0xac : UInt8).toNat) (by decide) rfl (by decide) (by decide)]
  have hcnt : ∀ st : Spec.St, Spec.countOp cfg (0xac : UInt8).toNat st = .ok st := by
    intro st; simp [Spec.countOp, hsv]
  rw [hcnt]
  simp only [rOk_bind, show Opcode.ofNat (0xac : UInt8).toNat = .OP_CHECKSIG by decide]
  simp only [Spec.execOp, Spec.disabled, Spec.smallInt, Spec.isNopN, Spec.isUnary, Spec.isBinary,
    Bool.false_eq_true, if_false, Spec.checkSig, Spec.mockHit, Spec.pairListed, hpre, List.contains_nil, hsv]
  cases hs : cfg.oracle.schnorr sig prog .TAPROOT 0xFFFFFFFF with
  | error e => simp [hs, evalFrom_nil]
  | ok u =>
    cases u
    simp [hs, evalFrom_nil, Spec.checkSize, Spec.maxStackSize, Spec.ofBool]


/-! ### the P2SH wrapper around a witness program: `<redeem>` then `HASH160 <h> EQUAL` -/

/-- a scriptSig that is one direct push -/
theorem push_script_eval (cfg : Spec.Cfg) (data : Bytes) (h2 : 2 ≤ data.length) (h75 : data.length ≤ 75) :
    ∃ st, (Spec.evalScript cfg (UInt8.ofNat data.length :: data) {}).result = .ok st ∧ st.stack = [data] := by
  rw [evalScript_result]
  have hlen : ¬ (UInt8.ofNat data.length :: data).length > Spec.maxScriptSize := by
    simp only [List.length_cons]; unfold Spec.maxScriptSize; omega
  simp only [hlen, decide_false, Bool.and_false, Bool.false_eq_true, if_false]
  have hb : (UInt8.ofNat data.length).toNat = data.length := by
    simp [UInt8.toNat_ofNat']; omega
  have d2 : Spec.decodeOne (UInt8.ofNat data.length :: data) = some (⟨data.length, data⟩, []) := by
    have := decodeOne_push (UInt8.ofNat data.length) data [] (by rw [hb]; omega) hb.symm
    rw [List.append_nil, hb] at this
    exact this
  rw [evalFrom_step d2, execInstr_push (by omega) (by unfold Spec.maxElementSize; omega) rfl (minimalPush_direct data h2 h75)
    (by simp only [List.length_nil]; decide)]
  simp only [rOk_bind, evalFrom_nil]
  exact ⟨_, rfl, rfl⟩

theorem countOp_base (cfg : Spec.Cfg) (hsv : cfg.sigversion = .BASE) (opc : Nat) (hop : 0x60 < opc) (st : Spec.St)
    (hcnt : st.opCount + 1 ≤ Spec.maxOpsPerScript) :
    Spec.countOp cfg opc st = .ok { st with opCount := st.opCount + 1 } := by
  unfold Spec.countOp
  have h1 : ¬ st.opCount + 1 > Spec.maxOpsPerScript := by omega
  simp [hsv, hop, h1]

/-- `HASH160 <h> EQUAL` on a stack holding one item: one boolean, whether the item hashes to `h` -/
theorem p2sh_spk_eval (cfg : Spec.Cfg) (hsv : cfg.sigversion = .BASE) (hh redeem : Bytes) (hl : hh.length = 20) :
    ∃ st, (Spec.evalScript cfg (0xa9 :: 0x14 :: (hh ++ [0x87])) { stack := [redeem] }).result = .ok st ∧
      st.stack = [Spec.ofBool (cfg.oracle.ripemd160 (cfg.oracle.sha256 redeem) == hh)] := by
  rw [evalScript_result]
  have hlen : ¬ (0xa9 :: 0x14 :: (hh ++ [0x87]) : Bytes).length > Spec.maxScriptSize := by
    simp [hl, Spec.maxScriptSize]
  simp only [hlen, decide_false, Bool.and_false, Bool.false_eq_true, if_false]
  -- HASH160
  rw [evalFrom_step (decodeOne_op 0xa9 _ (by decide)),
    execInstr_op (opc := (0xa9 : UInt8).toNat) (by decide) rfl (by decide) (by decide),
    countOp_base cfg hsv _ (by decide) _ (by simp [Spec.maxOpsPerScript])]
  simp only [rOk_bind, show Opcode.ofNat (0xa9 : UInt8).toNat = .OP_HASH160 by decide]
  simp only [Spec.execOp, Spec.disabled, Spec.smallInt, Spec.isNopN, Spec.isUnary, Spec.isBinary, Bool.false_eq_true, if_false]
  have cs1 : ∀ st : Spec.St, st.stack.length + st.alt.length ≤ Spec.maxStackSize → Spec.checkSize st = .ok st := by
    intro st h; unfold Spec.checkSize
    have : ¬ st.stack.length + st.alt.length > Spec.maxStackSize := by omega
    simp [this]
  rw [cs1 _ (by simp [Spec.maxStackSize])]
  simp only [rOk_bind]
  -- <h>
  rw [evalFrom_step (decodeOne_push 0x14 hh [0x87] (by decide) (by rw [hl]; rfl)),
    execInstr_push (opc := (0x14 : UInt8).toNat) (by decide) (by rw [hl]; decide) rfl
      (by have := minimalPush_direct hh (by omega) (by omega); rw [hl] at this; exact this)
      (by simp [Spec.maxStackSize])]
  simp only [rOk_bind]
  -- EQUAL
  rw [evalFrom_step (decodeOne_op 0x87 _ (by decide)),
    execInstr_op (opc := (0x87 : UInt8).toNat) (by decide) rfl (by decide) (by decide),
    countOp_base cfg hsv _ (by decide) _ (by simp [Spec.maxOpsPerScript])]
  simp only [rOk_bind, show Opcode.ofNat (0x87 : UInt8).toNat = .OP_EQUAL by decide]
  simp only [Spec.execOp, Spec.disabled, Spec.smallInt, Spec.isNopN, Spec.isUnary, Spec.isBinary, Bool.false_eq_true, if_false]
  rw [cs1 _ (by simp [Spec.maxStackSize])]
  simp only [rOk_bind, evalFrom_nil]
  exact ⟨_, rfl, rfl⟩

theorem toBool_ofBool (b : Bool) : Spec.toBool (Spec.ofBool b) = b := by
  cases b <;> rfl

end Btcdeb.Proofs.SpecEval
