/-
  `ConvertBits<8,5,true>` and `ConvertBits<5,8,false>`: the digits handed to the output function denote the
  same number as the input digits (shifted by the padding); round trip.
-/
import BtcdebProofs.Lemmas.Numeral
namespace Btcdeb.ConvertBits
open Btcdeb Numeral

theorem emit_lt (tobits acc bits : Nat) (out : List Nat) (h : bits < tobits) :
    Model.convertBitsEmit tobits acc bits out = (bits, out) := by
  unfold Model.convertBitsEmit
  simp [h]

theorem emit_ge (tobits acc bits : Nat) (out : List Nat) (h0 : tobits ≠ 0) (h : tobits ≤ bits) :
    Model.convertBitsEmit tobits acc bits out =
      Model.convertBitsEmit tobits acc (bits - tobits) (out ++ [(acc >>> (bits - tobits)) % 2 ^ tobits]) := by
  rw [Model.convertBitsEmit]
  have : ¬ (tobits = 0 ∨ bits < tobits) := by omega
  simp [this]

/-- invariant of the 8→5 conversion after `n` input bytes with value `V` -/
structure Inv85 (s : Model.ConvState) (n V : Nat) : Prop where
  bits_lt : s.bits < 5
  len : s.out.length * 5 + s.bits = 8 * n
  acc : s.acc = V % 4096
  val : Spec.numeralValue 32 s.out = V / 2 ^ s.bits
  lt : AllLt 32 s.out

theorem or_eq_add (a v : Nat) (hv : v < 256) : (a <<< 8) ||| v = a * 256 + v := by
  rw [Nat.shiftLeft_eq, Nat.mul_comm, ← Nat.two_pow_add_eq_or_of_lt (by omega : v < 2 ^ 8)]

theorem mem_snoc_lt {B : Nat} {out : List Nat} {x : Nat} (h : AllLt B out) (hx : x < B) : AllLt B (out ++ [x]) := by
  intro d hd
  rcases List.mem_append.mp hd with e | e
  · exact h d e
  · simp at e; subst e; exact hx

theorem step85 (s : Model.ConvState) (n V v : Nat) (hv : v < 256) (h : Inv85 s n V) :
    Inv85 (Model.convertBitsStep 8 5 s v) (n + 1) (V * 256 + v) := by
  obtain ⟨h1, h2, h3, h4, h5⟩ := h
  unfold Model.convertBitsStep
  have hacc : ((s.acc <<< 8) ||| v) % 2 ^ (8 + 5 - 1) = (V * 256 + v) % 4096 := by
    rw [or_eq_add _ _ hv, h3]
    show (V % 4096 * 256 + v) % 4096 = _
    omega
  rw [hacc]
  have hb : s.bits = 0 ∨ s.bits = 1 ∨ s.bits = 2 ∨ s.bits = 3 ∨ s.bits = 4 := by omega
  have hm : ∀ x, x % 2 ^ 5 < 32 := fun x => Nat.mod_lt _ (by decide)
  rcases hb with hb | hb | hb | hb | hb <;> rw [hb] at h2 h4 ⊢ <;> simp only [Nat.reduceAdd]
  · rw [emit_ge 5 _ 8 _ (by decide) (by decide), emit_lt 5 _ 3 _ (by decide)]
    refine ⟨by simp, by simp; omega, by simp, ?_, mem_snoc_lt h5 (hm _)⟩
    simp only [numeralValue_append, h4, Nat.shiftRight_eq_div_pow]
    omega
  · rw [emit_ge 5 _ 9 _ (by decide) (by decide), emit_lt 5 _ 4 _ (by decide)]
    refine ⟨by simp, by simp; omega, by simp, ?_, mem_snoc_lt h5 (hm _)⟩
    simp only [numeralValue_append, h4, Nat.shiftRight_eq_div_pow]
    omega
  · rw [emit_ge 5 _ 10 _ (by decide) (by decide), emit_ge 5 _ 5 _ (by decide) (by decide), emit_lt 5 _ 0 _ (by decide)]
    refine ⟨by simp, by simp; omega, by simp, ?_, mem_snoc_lt (mem_snoc_lt h5 (hm _)) (hm _)⟩
    simp only [numeralValue_append, h4, Nat.shiftRight_eq_div_pow]
    omega
  · rw [emit_ge 5 _ 11 _ (by decide) (by decide), emit_ge 5 _ 6 _ (by decide) (by decide), emit_lt 5 _ 1 _ (by decide)]
    refine ⟨by simp, by simp; omega, by simp, ?_, mem_snoc_lt (mem_snoc_lt h5 (hm _)) (hm _)⟩
    simp only [numeralValue_append, h4, Nat.shiftRight_eq_div_pow]
    omega
  · rw [emit_ge 5 _ 12 _ (by decide) (by decide), emit_ge 5 _ 7 _ (by decide) (by decide), emit_lt 5 _ 2 _ (by decide)]
    refine ⟨by simp, by simp; omega, by simp, ?_, mem_snoc_lt (mem_snoc_lt h5 (hm _)) (hm _)⟩
    simp only [numeralValue_append, h4, Nat.shiftRight_eq_div_pow]
    omega

theorem fold85 : ∀ (xs : List Nat) (s : Model.ConvState) (n V : Nat), AllLt 256 xs → Inv85 s n V →
    Inv85 (xs.foldl (Model.convertBitsStep 8 5) s) (n + xs.length) (xs.foldl (fun a x => a * 256 + x) V) := by
  intro xs
  induction xs with
  | nil => intro s n V _ h; exact h
  | cons x xs ih =>
    intro s n V hx h
    simp only [List.foldl_cons, List.length_cons]
    have := ih _ (n + 1) (V * 256 + x) (fun y hy => hx y (by simp [hy])) (step85 s n V x (hx x (by simp)) h)
    have e : n + 1 + xs.length = n + (xs.length + 1) := by omega
    rw [e] at this
    exact this

theorem init85 : Inv85 {} 0 0 := ⟨by decide, by simp, rfl, rfl, by intro d hd; simp at hd⟩

/-- `ConvertBits<8,5,true>`: symbols below 32, as many as needed, denoting the input number shifted to the top -/
theorem convert85 (xs : List Nat) (hx : AllLt 256 xs) :
    let r := (Model.convertBits 8 5 true xs).1
    AllLt 32 r ∧ r.length = (xs.length * 8 + 4) / 5 ∧
    Spec.numeralValue 32 r = Spec.numeralValue 256 xs * 2 ^ (r.length * 5 - xs.length * 8) := by
  have h := fold85 xs {} 0 0 hx init85
  simp only [Nat.zero_add] at h
  obtain ⟨h1, h2, h3, h4, h5⟩ := h
  unfold Model.convertBits
  simp only [↓reduceIte]
  generalize xs.foldl (Model.convertBitsStep 8 5) {} = s at *
  have hV : xs.foldl (fun a x => a * 256 + x) 0 = Spec.numeralValue 256 xs := rfl
  rw [hV] at h3 h4
  generalize Spec.numeralValue 256 xs = V at *
  have hb : s.bits = 0 ∨ s.bits = 1 ∨ s.bits = 2 ∨ s.bits = 3 ∨ s.bits = 4 := by omega
  rcases hb with hb | hb | hb | hb | hb <;> rw [hb] at h2 h4 <;> simp only [hb, bne_self_eq_false, Bool.false_eq_true, ↓reduceIte]
  · refine ⟨h5, by omega, ?_⟩
    have : s.out.length * 5 - xs.length * 8 = 0 := by omega
    rw [this, h4]; simp
  all_goals
    simp only [Nat.reduceBNe, ↓reduceIte, Nat.reduceSub]
    refine ⟨mem_snoc_lt h5 (Nat.mod_lt _ (by decide)), by simp; omega, ?_⟩
    simp only [numeralValue_append, h4, h3, List.length_append, List.length_cons, List.length_nil, Nat.shiftLeft_eq]
  · have : (s.out.length + (0 + 1)) * 5 - xs.length * 8 = 4 := by omega
    rw [this]; omega
  · have : (s.out.length + (0 + 1)) * 5 - xs.length * 8 = 3 := by omega
    rw [this]; omega
  · have : (s.out.length + (0 + 1)) * 5 - xs.length * 8 = 2 := by omega
    rw [this]; omega
  · have : (s.out.length + (0 + 1)) * 5 - xs.length * 8 = 1 := by omega
    rw [this]; omega

-- ---------------------------------------------------------------------------------------------
-- 5 → 8 without padding

structure Inv58 (s : Model.ConvState) (m W : Nat) : Prop where
  bits_lt : s.bits < 8
  len : s.out.length * 8 + s.bits = 5 * m
  acc : s.acc = W % 4096
  val : Spec.numeralValue 256 s.out = W / 2 ^ s.bits
  lt : AllLt 256 s.out

theorem or_eq_add5 (a v : Nat) (hv : v < 32) : (a <<< 5) ||| v = a * 32 + v := by
  rw [Nat.shiftLeft_eq, Nat.mul_comm, ← Nat.two_pow_add_eq_or_of_lt (by omega : v < 2 ^ 5)]

theorem step58 (s : Model.ConvState) (m W v : Nat) (hv : v < 32) (h : Inv58 s m W) :
    Inv58 (Model.convertBitsStep 5 8 s v) (m + 1) (W * 32 + v) := by
  obtain ⟨h1, h2, h3, h4, h5⟩ := h
  unfold Model.convertBitsStep
  have hacc : ((s.acc <<< 5) ||| v) % 2 ^ (5 + 8 - 1) = (W * 32 + v) % 4096 := by
    rw [or_eq_add5 _ _ hv, h3]
    show (W % 4096 * 32 + v) % 4096 = _
    omega
  rw [hacc]
  have hb : s.bits = 0 ∨ s.bits = 1 ∨ s.bits = 2 ∨ s.bits = 3 ∨ s.bits = 4 ∨ s.bits = 5 ∨ s.bits = 6 ∨ s.bits = 7 := by omega
  have hm : ∀ x, x % 2 ^ 8 < 256 := fun x => Nat.mod_lt _ (by decide)
  rcases hb with hb | hb | hb | hb | hb | hb | hb | hb <;> rw [hb] at h2 h4 ⊢ <;> simp only [Nat.reduceAdd]
  · rw [emit_lt 8 _ 5 _ (by decide)]
    exact ⟨by simp, by simp; omega, by simp, by simp only [h4]; omega, h5⟩
  · rw [emit_lt 8 _ 6 _ (by decide)]
    exact ⟨by simp, by simp; omega, by simp, by simp only [h4]; omega, h5⟩
  · rw [emit_lt 8 _ 7 _ (by decide)]
    exact ⟨by simp, by simp; omega, by simp, by simp only [h4]; omega, h5⟩
  · rw [emit_ge 8 _ 8 _ (by decide) (by decide), emit_lt 8 _ 0 _ (by decide)]
    refine ⟨by simp, by simp; omega, by simp, ?_, mem_snoc_lt h5 (hm _)⟩
    simp only [numeralValue_append, h4, Nat.shiftRight_eq_div_pow]
    omega
  · rw [emit_ge 8 _ 9 _ (by decide) (by decide), emit_lt 8 _ 1 _ (by decide)]
    refine ⟨by simp, by simp; omega, by simp, ?_, mem_snoc_lt h5 (hm _)⟩
    simp only [numeralValue_append, h4, Nat.shiftRight_eq_div_pow]
    omega
  · rw [emit_ge 8 _ 10 _ (by decide) (by decide), emit_lt 8 _ 2 _ (by decide)]
    refine ⟨by simp, by simp; omega, by simp, ?_, mem_snoc_lt h5 (hm _)⟩
    simp only [numeralValue_append, h4, Nat.shiftRight_eq_div_pow]
    omega
  · rw [emit_ge 8 _ 11 _ (by decide) (by decide), emit_lt 8 _ 3 _ (by decide)]
    refine ⟨by simp, by simp; omega, by simp, ?_, mem_snoc_lt h5 (hm _)⟩
    simp only [numeralValue_append, h4, Nat.shiftRight_eq_div_pow]
    omega
  · rw [emit_ge 8 _ 12 _ (by decide) (by decide), emit_lt 8 _ 4 _ (by decide)]
    refine ⟨by simp, by simp; omega, by simp, ?_, mem_snoc_lt h5 (hm _)⟩
    simp only [numeralValue_append, h4, Nat.shiftRight_eq_div_pow]
    omega

theorem fold58 : ∀ (xs : List Nat) (s : Model.ConvState) (m W : Nat), AllLt 32 xs → Inv58 s m W →
    Inv58 (xs.foldl (Model.convertBitsStep 5 8) s) (m + xs.length) (xs.foldl (fun a x => a * 32 + x) W) := by
  intro xs
  induction xs with
  | nil => intro s m W _ h; exact h
  | cons x xs ih =>
    intro s m W hx h
    simp only [List.foldl_cons, List.length_cons]
    have := ih _ (m + 1) (W * 32 + x) (fun y hy => hx y (by simp [hy])) (step58 s m W x (hx x (by simp)) h)
    have e : m + 1 + xs.length = m + (xs.length + 1) := by omega
    rw [e] at this
    exact this

theorem init58 : Inv58 {} 0 0 := ⟨by decide, by simp, rfl, rfl, by intro d hd; simp at hd⟩

/-- `ConvertBits<5,8,false>`: the bytes denote the input number without its surplus low bits; success iff there are
    fewer than 5 surplus bits and they are zero -/
theorem convert58 (ys : List Nat) (hy : AllLt 32 ys) :
    let r := Model.convertBits 5 8 false ys
    let b := ys.length * 5 - r.1.length * 8
    AllLt 256 r.1 ∧ r.1.length = ys.length * 5 / 8 ∧
    Spec.numeralValue 256 r.1 = Spec.numeralValue 32 ys / 2 ^ b ∧
    (r.2 = true ↔ (b < 5 ∧ Spec.numeralValue 32 ys % 2 ^ b = 0)) := by
  have h := fold58 ys {} 0 0 hy init58
  simp only [Nat.zero_add] at h
  obtain ⟨h1, h2, h3, h4, h5⟩ := h
  unfold Model.convertBits
  simp only [Bool.false_eq_true, ↓reduceIte]
  generalize ys.foldl (Model.convertBitsStep 5 8) {} = s at *
  have hW : ys.foldl (fun a x => a * 32 + x) 0 = Spec.numeralValue 32 ys := rfl
  rw [hW] at h3 h4
  generalize Spec.numeralValue 32 ys = W at *
  have hbits : ys.length * 5 - s.out.length * 8 = s.bits := by omega
  have hb : s.bits = 0 ∨ s.bits = 1 ∨ s.bits = 2 ∨ s.bits = 3 ∨ s.bits = 4 ∨ s.bits = 5 ∨ s.bits = 6 ∨ s.bits = 7 := by omega
  rcases hb with hb | hb | hb | hb | hb | hb | hb | hb <;> rw [hb] at h2 h4 hbits <;>
    simp only [hb, h3, Nat.shiftLeft_eq, ge_iff_le, Nat.reduceLeDiff, decide_false, decide_true, Bool.false_or, Bool.true_or, Nat.reduceSub] <;>
    split <;> simp only [hbits] <;> refine ⟨h5, by omega, h4, ?_⟩ <;> rename_i hc <;> simp at hc ⊢ <;> omega

-- ---------------------------------------------------------------------------------------------
-- round trip

theorem fixed_unique_le (B : Nat) (hB : 1 ≤ B) : ∀ (ds es : List Nat), ds.length = es.length → AllLt B ds → AllLt B es →
    leVal B ds = leVal B es → ds = es := by
  intro ds
  induction ds with
  | nil => intro es hl _ _ _; cases es with
    | nil => rfl
    | cons _ _ => simp at hl
  | cons d ds ih =>
    intro es hl hd he hv
    cases es with
    | nil => simp at hl
    | cons e es =>
      simp only [leVal] at hv
      have hdl : d < B := hd d (by simp)
      have hel : e < B := he e (by simp)
      have h1 : d = e := by
        have := congrArg (· % B) hv
        simp only [Nat.add_mul_mod_self_left] at this
        rwa [Nat.mod_eq_of_lt hdl, Nat.mod_eq_of_lt hel] at this
      subst h1
      have h2 : leVal B ds = leVal B es := by
        have : B * leVal B ds = B * leVal B es := by omega
        exact Nat.eq_of_mul_eq_mul_left (by omega) this
      rw [ih es (by simpa using hl) (fun x hx => hd x (by simp [hx])) (fun x hx => he x (by simp [hx])) h2]

/-- numerals of the same length with digits below the base and the same value are equal -/
theorem fixed_unique (B : Nat) (hB : 1 ≤ B) (ds es : List Nat) (hl : ds.length = es.length) (hd : AllLt B ds) (he : AllLt B es)
    (hv : Spec.numeralValue B ds = Spec.numeralValue B es) : ds = es := by
  have := fixed_unique_le B hB ds.reverse es.reverse (by simpa using hl) (by intro x hx; exact hd x (by simpa using hx))
    (by intro x hx; exact he x (by simpa using hx)) (by rw [← numeralValue_eq, ← numeralValue_eq, hv])
  simpa using congrArg List.reverse this

/-- `ConvertBits<5,8,false>` undoes `ConvertBits<8,5,true>` -/
theorem roundtrip (xs : List Nat) (hx : AllLt 256 xs) :
    Model.convertBits 5 8 false (Model.convertBits 8 5 true xs).1 = (xs, true) := by
  obtain ⟨a1, a2, a3⟩ := convert85 xs hx
  obtain ⟨b1, b2, b3, b4⟩ := convert58 _ a1
  generalize (Model.convertBits 8 5 true xs).1 = r at *
  generalize Model.convertBits 5 8 false r = o at *
  have hol : o.1.length = xs.length := by omega
  have hp : r.length * 5 - o.1.length * 8 = r.length * 5 - xs.length * 8 := by rw [hol]
  simp only [hp] at b3 b4
  generalize hpe : r.length * 5 - xs.length * 8 = p at *
  have hplt : p < 5 := by omega
  have hval : Spec.numeralValue 256 o.1 = Spec.numeralValue 256 xs := by
    rw [b3, a3, Nat.mul_div_cancel _ (Nat.pow_pos (by decide))]
  have h1 : o.1 = xs := fixed_unique 256 (by decide) _ _ hol b1 hx hval
  have h2 : o.2 = true := b4.mpr ⟨hplt, by rw [a3]; exact Nat.mul_mod_left _ _⟩
  cases o with
  | mk o1 o2 => simp only at h1 h2; rw [h1, h2]

-- ---------------------------------------------------------------------------------------------
-- the model computes the specified regrouping

theorem fixedLE_length (B : Nat) : ∀ (len n : Nat), (Spec.fixedNumeralLE B len n).length = len := by
  intro len
  induction len with
  | zero => intro n; rfl
  | succ len ih => intro n; simp [Spec.fixedNumeralLE, ih]

theorem fixedLE_allLt (B : Nat) (hB : 1 ≤ B) : ∀ (len n : Nat), AllLt B (Spec.fixedNumeralLE B len n) := by
  intro len
  induction len with
  | zero => intro n d hd; simp [Spec.fixedNumeralLE] at hd
  | succ len ih =>
    intro n d hd
    simp only [Spec.fixedNumeralLE, List.mem_cons] at hd
    rcases hd with e | e
    · subst e; exact Nat.mod_lt _ (by omega)
    · exact ih _ d e

theorem fixedLE_val (B : Nat) (_hB : 1 ≤ B) : ∀ (len n : Nat), n < B ^ len → leVal B (Spec.fixedNumeralLE B len n) = n := by
  intro len
  induction len with
  | zero => intro n h; simp at h; simp [Spec.fixedNumeralLE, leVal, h]
  | succ len ih =>
    intro n h
    have hq : n / B < B ^ len := by
      rw [Nat.pow_succ] at h
      exact Nat.div_lt_of_lt_mul (by rw [Nat.mul_comm]; exact h)
    simp only [Spec.fixedNumeralLE, leVal, ih _ hq]
    exact Nat.mod_add_div n B

theorem leVal_lt (B : Nat) (hB : 1 ≤ B) : ∀ (ds : List Nat), AllLt B ds → leVal B ds < B ^ ds.length := by
  intro ds
  induction ds with
  | nil => intro _; simp [leVal]
  | cons d ds ih =>
    intro h
    have h1 := ih (fun x hx => h x (by simp [hx]))
    have h2 : d < B := h d (by simp)
    rw [leVal, List.length_cons, Nat.pow_succ, Nat.mul_comm (B ^ ds.length) B]
    calc d + B * leVal B ds < B + B * leVal B ds := by omega
      _ = B * (leVal B ds + 1) := by rw [Nat.mul_add, Nat.mul_one, Nat.add_comm]
      _ ≤ B * B ^ ds.length := Nat.mul_le_mul_left _ h1

theorem numeralValue_lt (B : Nat) (hB : 1 ≤ B) (ds : List Nat) (h : AllLt B ds) : Spec.numeralValue B ds < B ^ ds.length := by
  rw [numeralValue_eq]
  have := leVal_lt B hB ds.reverse (by intro x hx; exact h x (by simpa using hx))
  simpa using this

/-- a numeral of the right length with digits below the base is the fixed-length numeral of its value -/
theorem eq_fixedNumeral (B : Nat) (hB : 1 ≤ B) (ds : List Nat) (h : AllLt B ds) :
    ds = Spec.fixedNumeral B ds.length (Spec.numeralValue B ds) := by
  apply fixed_unique B hB
  · simp [Spec.fixedNumeral, fixedLE_length]
  · exact h
  · intro d hd; exact fixedLE_allLt B hB _ _ d (by simpa [Spec.fixedNumeral] using hd)
  · unfold Spec.fixedNumeral
    rw [numeralValue_reverse, fixedLE_val B hB _ _ (numeralValue_lt B hB ds h)]

/-- `ConvertBits<8,5,true>` is the specified regrouping with padding -/
theorem convert85_spec (xs : List Nat) (hx : AllLt 256 xs) : (Model.convertBits 8 5 true xs).1 = Spec.regroupPad 8 5 xs := by
  obtain ⟨a1, a2, a3⟩ := convert85 xs hx
  generalize (Model.convertBits 8 5 true xs).1 = r at *
  have := eq_fixedNumeral 32 (by decide) r a1
  rw [this, a3, a2]
  unfold Spec.regroupPad
  simp only []
  have e1 : (xs.length * 8 + 5 - 1) / 5 = (xs.length * 8 + 4) / 5 := by omega
  rw [e1]

/-- `ConvertBits<5,8,false>` is the specified regrouping without padding: it succeeds exactly when that is defined, with its value -/
theorem convert58_spec (ys : List Nat) (hy : AllLt 32 ys) :
    (Model.convertBits 5 8 false ys).2 = (Spec.regroupNoPad 5 8 ys).isSome ∧
    ∀ o, Spec.regroupNoPad 5 8 ys = some o → (Model.convertBits 5 8 false ys).1 = o := by
  obtain ⟨b1, b2, b3, b4⟩ := convert58 ys hy
  generalize Model.convertBits 5 8 false ys = r at *
  unfold Spec.regroupNoPad
  simp only []
  have hb : ys.length * 5 - r.1.length * 8 = ys.length * 5 - ys.length * 5 / 8 * 8 := by rw [b2]
  rw [hb] at b3 b4
  generalize ys.length * 5 - ys.length * 5 / 8 * 8 = rem at *
  have hfix := eq_fixedNumeral 256 (by decide) r.1 b1
  rw [b3, b2] at hfix
  have e8 : (2 : Nat) ^ 8 = 256 := rfl
  have e5 : (2 : Nat) ^ 5 = 32 := rfl
  rw [e8, e5]
  by_cases hc : rem < 5 ∧ Spec.numeralValue 32 ys % 2 ^ rem = 0
  · have hr := b4.mpr hc
    have hcond : (decide (rem ≥ 5) || Spec.numeralValue 32 ys % 2 ^ rem != 0) = false := by
      simp only [Bool.or_eq_false_iff, decide_eq_false_iff_not, bne_eq_false_iff_eq]
      exact ⟨by omega, hc.2⟩
    simp only [hcond, Bool.false_eq_true, ↓reduceIte, Option.isSome_some, hr, Option.some.injEq, true_and]
    intro o ho
    rw [← ho]; exact hfix
  · have hr : r.2 = false := by
      cases hq : r.2 with
      | false => rfl
      | true => exact absurd (b4.mp hq) hc
    have hcond : (decide (rem ≥ 5) || Spec.numeralValue 32 ys % 2 ^ rem != 0) = true := by
      simp only [Bool.or_eq_true, decide_eq_true_eq, bne_iff_ne, ne_eq]
      by_cases h5 : rem ≥ 5
      · exact Or.inl h5
      · exact Or.inr (fun e => hc ⟨by omega, e⟩)
    simp [hcond, hr]

end Btcdeb.ConvertBits
