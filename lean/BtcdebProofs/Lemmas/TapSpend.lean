/-
  Lemmas for the transaction part of C06.
  Model side: `configure_tx_txin` on a single-input spend of a P2TR output (key path, script path), and the signature
  hash `Tap.calcSighash` reports for it, as the BIP341/342 digest.
  Specification side: the P2TR output script, the key path and a `<32-byte key> OP_CHECKSIG` leaf under `Spec.verifyScript`.
-/
import Btcdeb.Model.Tap
import Btcdeb.Spec.Verify
import Btcdeb.Spec.TxOracle
import BtcdebProofs.Properties.Sighash
import BtcdebProofs.Properties.C10Families

namespace Btcdeb.Proofs.TapSpend.M
open Btcdeb Btcdeb.Model Btcdeb.Model.Tap

theorem getOp_op1 (r : Bytes) : getOp (0x51 :: r) = some { opcode := 0x51, data := [], rest := r } := by
  simp [getOp, Op.OP_PUSHDATA4]

theorem getOp_push32 (key : Bytes) (hk : key.length = 32) : getOp (0x20 :: key) = some { opcode := 0x20, data := key, rest := [] } := by
  simp [getOp, Op.OP_PUSHDATA4, Op.OP_PUSHDATA1, hk]
  rw [← hk]; simp

theorem hasValidOps_keypath (key : Bytes) (hk : key.length = 32) : hasValidOps (pushProgram key ++ [UInt8.ofNat Op.OP_CHECKSIG]) = true := by
  have h1 : getOp (pushProgram key ++ [UInt8.ofNat Op.OP_CHECKSIG]) = some { opcode := 0x20, data := key, rest := [0xac] } := by
    simp [pushProgram, getOp, Op.OP_PUSHDATA4, Op.OP_PUSHDATA1, hk, Op.OP_CHECKSIG]
  have h2 : getOp [0xac] = some { opcode := 0xac, data := [], rest := [] } := by
    simp [getOp, Op.OP_PUSHDATA4]
  have h3 : hasValidOps [] = true := by rw [hasValidOps]; simp [getOp]
  rw [hasValidOps]; rw [h1]; simp only
  rw [if_neg (by simp [Gen.MAX_OPCODE, Gen.MAX_SCRIPT_ELEMENT_SIZE, hk])]
  rw [hasValidOps]; rw [h2]; simp only
  rw [if_neg (by simp [Gen.MAX_OPCODE, Gen.MAX_SCRIPT_ELEMENT_SIZE])]
  exact h3

theorem configure_keypath (h : HashCtx) (tc : TapCtx) (tx txin : Tx) (inp : TxIn) (vout : Nat) (spent : TxOut) (key sig : Bytes)
    (sv0 : SigVersion) (hv : tx.vin = [inp]) (hss : inp.scriptSig = []) (hw : inp.witness = [sig])
    (hs : txin.vout[vout]? = some spent) (hspk : spent.scriptPubKey = 0x51 :: 0x20 :: key) (hk : key.length = 32) :
    configureTxTxin h tc tx txin 0 vout sv0 =
      some { sigver := .TAPROOT, script := pushProgram key ++ [UInt8.ofNat Op.OP_CHECKSIG], stack := [sig], amount := spent.value,
             execdata := { annexInit := true, annexPresent := false, annexHash := [] }, hasPreamble := true } := by
  unfold configureTxTxin
  simp only [hv, List.getElem?_cons_zero, hs, hw, hss, hspk]
  simp [getOp_op1, getOp_push32 key hk, hk, Op.OP_0, Op.OP_1, hasValidOps_keypath key hk]

theorem configure_scriptpath (h : HashCtx) (tc : TapCtx) (tx txin : Tx) (inp : TxIn) (vout : Nat) (spent : TxOut)
    (key : Bytes) (pre : List Bytes) (script control : Bytes) (sv0 : SigVersion)
    (hv : tx.vin = [inp]) (hss : inp.scriptSig = []) (hw : inp.witness = pre ++ [script, control])
    (hs : txin.vout[vout]? = some spent) (hspk : spent.scriptPubKey = 0x51 :: 0x20 :: key) (hk : key.length = 32)
    (m : Nat) (hcl : control.length = 33 + 32 * m) (hm : m ≤ 128)
    (hc0 : byteAt control 0 = 0xc0 ∨ byteAt control 0 = 0xc1)
    (hpl : pre.length ≤ 1000) (hpi : ∀ x ∈ pre, x.length ≤ 520) (hvo : hasValidOps script = true) :
    ∃ c, configureTxTxin h tc tx txin 0 vout sv0 = some c ∧ c.sigver = .TAPSCRIPT ∧ c.hasPreamble = false ∧
      c.execdata.annexInit = true ∧ c.execdata.annexPresent = false ∧ c.execdata.tapleafHashInit = true ∧
      c.execdata.tapleafHash = (Tce.init tc control key script).leaf ∧ c.execdata.outputHash = none ∧
      c.script = script ∧ c.stack = pre := by
  have hne : control ≠ [] := by intro h0; subst h0; simp at hcl; omega
  have hann : (byteAt control 0 == Gen.ANNEX_TAG) = false := by
    rcases hc0 with h0 | h0 <;> simp [h0, Gen.ANNEX_TAG]
  have hmask : (byteAt control 0 &&& Gen.TAPROOT_LEAF_MASK != Gen.TAPROOT_LEAF_TAPSCRIPT) = false := by
    rcases hc0 with h0 | h0 <;> rw [h0] <;> decide
  have hsize : (decide (control.length < Gen.TAPROOT_CONTROL_BASE_SIZE) || decide (control.length > Gen.TAPROOT_CONTROL_MAX_SIZE) ||
      (control.length - Gen.TAPROOT_CONTROL_BASE_SIZE) % Gen.TAPROOT_CONTROL_NODE_SIZE != 0) = false := by
    simp [Gen.TAPROOT_CONTROL_BASE_SIZE, Gen.TAPROOT_CONTROL_MAX_SIZE, Gen.TAPROOT_CONTROL_NODE_SIZE, hcl]; omega
  have hany : (pre.any fun i => decide (i.length > Gen.MAX_SCRIPT_ELEMENT_SIZE)) = false := by
    simp [Gen.MAX_SCRIPT_ELEMENT_SIZE]; exact hpi
  unfold configureTxTxin
  simp only [hv, List.getElem?_cons_zero, hs, hw, hss, hspk]
  simp [getOp_op1, getOp_push32 key hk, hk, Op.OP_0, Op.OP_1, hann, hmask, hsize, hany, hvo, Gen.MAX_STACK_SIZE, hpl]

theorem bip341Defined_default (tx : Tx) (nIn : Nat) : Spec.bip341Defined tx nIn 0 :=
  ⟨Or.inl rfl, by intro h; cases h⟩

theorem getD_of_getElem? {α} [Inhabited α] (l : List α) (i : Nat) (x : α) (h : l[i]? = some x) : l.getD i default = x := by
  simp [List.getD, h]

theorem looksTaproot_p2tr (spent : TxOut) (key : Bytes) (hspk : spent.scriptPubKey = 0x51 :: 0x20 :: key) (hk : key.length = 32) :
    looksTaproot spent = true := by
  simp [looksTaproot, hspk, hk, Gen.WITNESS_V1_TAPROOT_SIZE, byteAt, Op.OP_1]

theorem calcSighash_keypath (h : HashCtx) (tc : TapCtx) (cr : SigCrypto) (tx txin : Tx) (inp : TxIn) (vout : Nat) (spent : TxOut)
    (key sig : Bytes) (hv : tx.vin = [inp]) (hss : inp.scriptSig = []) (hw : inp.witness = [sig])
    (hs : txin.vout[vout]? = some spent) (hspk : spent.scriptPubKey = 0x51 :: 0x20 :: key) (hk : key.length = 32) :
    calcSighash h tc cr tx txin 0 vout = .ok (Spec.bip341Digest cr.sha256 tx 0 0 [spent] none none) := by
  unfold calcSighash
  rw [configure_keypath h tc tx txin inp vout spent key sig _ hv hss hw hs hspk hk]
  simp only [getD_of_getElem? _ _ _ hs]
  rw [if_neg (by simp [hv])]
  obtain ⟨d, hd, r1, r2, hso, hcoh⟩ := Btcdeb.Proofs.Sighash.precomputeInit_single_input_ready cr tx inp spent true hv (Or.inl rfl)
  unfold calcSighashTxData
  rw [hd]
  simp only
  obtain ⟨oh, hsig, _⟩ := Btcdeb.Proofs.Sighash.schnorrSighashM_eq_spec cr
    { annexInit := true, annexPresent := false, annexHash := [], codesepPos := 0xFFFFFFFF, codesepPosInit := true }
    tx 0 0 .TAPROOT d .fail none none (by simp [hv]) hcoh r1 r2
    ⟨rfl, rfl, (by intro a ha; cases ha), rfl, Or.inl rfl⟩
  have : (if (SigVersion.TAPROOT == SigVersion.BASE) = true then SigVersion.TAPROOT else SigVersion.TAPROOT) = .TAPROOT := by simp
  simp only [this]
  rw [hsig, if_pos (bip341Defined_default tx 0), hso]

theorem calcSighash_scriptpath (h : HashCtx) (tc : TapCtx) (cr : SigCrypto) (tx txin : Tx) (inp : TxIn) (vout : Nat) (spent : TxOut)
    (key : Bytes) (pre : List Bytes) (script control : Bytes)
    (hv : tx.vin = [inp]) (hss : inp.scriptSig = []) (hw : inp.witness = pre ++ [script, control])
    (hs : txin.vout[vout]? = some spent) (hspk : spent.scriptPubKey = 0x51 :: 0x20 :: key) (hk : key.length = 32)
    (m : Nat) (hcl : control.length = 33 + 32 * m) (hm : m ≤ 128)
    (hc0 : byteAt control 0 = 0xc0 ∨ byteAt control 0 = 0xc1)
    (hpl : pre.length ≤ 1000) (hpi : ∀ x ∈ pre, x.length ≤ 520) (hvo : hasValidOps script = true) :
    calcSighash h tc cr tx txin 0 vout =
      .ok (Spec.bip341Digest cr.sha256 tx 0 0 [spent] none
            (some { leafHash := (Tce.init tc control key script).leaf, codesepPos := 0xFFFFFFFF })) := by
  obtain ⟨c, hc, hsv, hpre, a1, a2, l1, l2, oh0, _, _⟩ :=
    configure_scriptpath h tc tx txin inp vout spent key pre script control
      (if hasWitness tx then .WITNESS_V0 else .BASE) hv hss hw hs hspk hk m hcl hm hc0 hpl hpi hvo
  unfold calcSighash
  rw [hc]
  simp only [getD_of_getElem? _ _ _ hs]
  rw [if_neg (by simp [hv])]
  have hwne : inp.witness ≠ [] := by rw [hw]; simp
  obtain ⟨d, hd, r1, r2, hso, hcoh⟩ := Btcdeb.Proofs.Sighash.precomputeInit_single_input_ready cr tx inp spent c.hasPreamble hv
    (Or.inr ⟨hwne, looksTaproot_p2tr spent key hspk hk⟩)
  unfold calcSighashTxData
  rw [hd]
  simp only
  obtain ⟨oh, hsig, _⟩ := Btcdeb.Proofs.Sighash.schnorrSighashM_eq_spec cr
    { c.execdata with codesepPos := 0xFFFFFFFF, codesepPosInit := true }
    tx 0 0 .TAPSCRIPT d .fail none (some { leafHash := (Tce.init tc control key script).leaf, codesepPos := 0xFFFFFFFF })
    (by simp [hv]) hcoh r1 r2
    ⟨a1, (by simpa using a2), (by intro a ha; cases ha), ⟨rfl, l1, l2, rfl, rfl⟩, Or.inl oh0⟩
  have : (if (c.sigver == SigVersion.BASE) = true then SigVersion.TAPROOT else c.sigver) = .TAPSCRIPT := by simp [hsv]
  simp only [this]
  rw [hsig, if_pos (bip341Defined_default tx 0), hso]


theorem configure_p2tr_facts (h : HashCtx) (tc : TapCtx) (tx txin : Tx) (idx vout : Nat) (sv0 : SigVersion)
    (inp : TxIn) (spent : TxOut) (key : Bytes)
    (hi : tx.vin[idx]? = some inp) (hss : inp.scriptSig = []) (hs : txin.vout[vout]? = some spent)
    (hspk : spent.scriptPubKey = 0x51 :: 0x20 :: key) (hk : key.length = 32) (c : Configured)
    (hc : configureTxTxin h tc tx txin idx vout sv0 = some c) :
    (c.sigver = .BASE ∧ inp.witness = [] ∧ c.hasPreamble = false) ∨
    (c.sigver = .TAPROOT ∧ c.execdata.annexInit = true) ∨
    (c.sigver = .TAPSCRIPT ∧ c.execdata.annexInit = true ∧ c.execdata.tapleafHashInit = true) := by
  unfold configureTxTxin at hc
  simp only [hi, hs, hss, hspk] at hc
  cases hw : inp.witness.getLast? with
  | none =>
    have hwe : inp.witness = [] := List.getLast?_eq_none_iff.mp hw
    simp only [hw] at hc
    split at hc
    · cases hc
    · cases hc; exact Or.inl ⟨rfl, hwe, rfl⟩
  | some wlast =>
    simp [hw, getOp_op1, getOp_push32 key hk, hk, Op.OP_0, Op.OP_1] at hc
    iterate 12 (all_goals (try (split at hc)); all_goals (try (cases hc)))
    all_goals (first | done | exact Or.inr (Or.inl ⟨rfl, rfl⟩) | exact Or.inr (Or.inr ⟨rfl, rfl, rfl⟩))


theorem calcSighash_never_abnormal_p2tr (h : HashCtx) (tc : TapCtx) (cr : SigCrypto) (tx txin : Tx) (idx vout : Nat)
    (inp : TxIn) (spent : TxOut) (key : Bytes)
    (hi : tx.vin[idx]? = some inp) (hss : inp.scriptSig = []) (hs : txin.vout[vout]? = some spent)
    (hspk : spent.scriptPubKey = 0x51 :: 0x20 :: key) (hk : key.length = 32) (k : String) :
    calcSighash h tc cr tx txin idx vout ≠ .error (.step (.abnormal k)) := by
  unfold calcSighash
  cases hcfg : configureTxTxin h tc tx txin idx vout (if hasWitness tx then .WITNESS_V0 else .BASE) with
  | none => simp
  | some c =>
    have facts := configure_p2tr_facts h tc tx txin idx vout _ inp spent key hi hss hs hspk hk c hcfg
    simp only
    by_cases hn : tx.vin.length ≠ 1
    · rw [if_pos hn]; simp
    · rw [if_neg hn]
      have hn1 : tx.vin.length = 1 := by simpa using hn
      obtain ⟨i0, hv⟩ : ∃ i0, tx.vin = [i0] := by
        cases hvv : tx.vin with
        | nil => simp [hvv] at hn1
        | cons a l => cases l with
          | nil => exact ⟨a, rfl⟩
          | cons b l' => simp [hvv] at hn1
      have hidx : idx = 0 ∧ i0 = inp := by
        rw [hv] at hi
        cases idx with
        | zero => simpa using hi
        | succ n => simp at hi
      obtain ⟨rfl, rfl⟩ := hidx
      rw [getD_of_getElem? _ _ _ hs]
      obtain ⟨d, hd⟩ := (Btcdeb.Proofs.Sighash.precomputeInit_ok cr tx [spent] c.hasPreamble).mpr (Or.inr (by simp [hv]))
      obtain ⟨_, f2, _, f4⟩ := Btcdeb.Proofs.Sighash.precomputeInit_flags cr tx [spent] c.hasPreamble d hd
      unfold calcSighashTxData
      rw [hd]
      simp only
      rcases facts with ⟨s1, s2, s3⟩ | ⟨s1, s2⟩ | ⟨s1, s2, s3⟩
      · -- legacy: nothing is ready, `SignatureHashSchnorr` returns false
        have hnr : d.bip341TaprootReady = false := by
          rw [f4, s3, hv]; simp [Btcdeb.Proofs.Sighash.uses341, s2]
        simp [s1, schnorrSighashM, hv, hnr, handleMissingData]
      · simp only [s1]
        unfold schnorrSighashM
        by_cases hr : (d.bip341TaprootReady = false ∨ d.spentOutputsReady = false) <;>
          simp [hv, s2, handleMissingData, hr, Gen.SIGHASH_DEFAULT, Gen.SIGHASH_ALL, Gen.SIGHASH_SINGLE]
      · simp only [s1]
        unfold schnorrSighashM
        by_cases hr : (d.bip341TaprootReady = false ∨ d.spentOutputsReady = false) <;>
          simp [hv, s2, s3, handleMissingData, hr, Gen.SIGHASH_DEFAULT, Gen.SIGHASH_ALL, Gen.SIGHASH_SINGLE]

end Btcdeb.Proofs.TapSpend.M

namespace Btcdeb.Proofs.TapSpend.S
open Btcdeb Btcdeb.Spec
theorem evalScript_empty (cfg : Cfg) (st0 : St) (hc : st0.cond = []) :
    (evalScript cfg [] st0).result = .ok { st0 with codeFrom := [] } := by
  simp [evalScript, decodePrefix, evalInstrs, maxScriptSize, hc]

theorem decodePrefix_succ (fuel : Nat) (b : UInt8) (s : Bytes) :
    decodePrefix (fuel + 1) (b :: s) =
      match decodeOne (b :: s) with
      | none => ([], false)
      | some (i, after) => ((i, after) :: (decodePrefix fuel after).1, (decodePrefix fuel after).2) := by
  rw [decodePrefix]
  · rfl
  · intro h; cases h

theorem decode_p2tr (q : Bytes) (hq : q.length = 32) :
    decodePrefix (0x51 :: 0x20 :: q).length (0x51 :: 0x20 :: q) =
      ([(⟨0x51, []⟩, 0x20 :: q), (⟨0x20, q⟩, [])], true) := by
  have h1 : decodeOne (0x51 :: 0x20 :: q) = some (⟨0x51, []⟩, 0x20 :: q) := by simp [decodeOne]
  have h2 : decodeOne (0x20 :: q) = some (⟨0x20, q⟩, []) := by
    simp [decodeOne, pushLenBytes, hq]
    rw [← hq]; simp
  simp only [List.length_cons, hq]
  rw [decodePrefix_succ, h1]; simp only
  rw [decodePrefix_succ, h2]; simp only
  simp [decodePrefix]

theorem execInstr_push32 (cfg : Cfg) (q after : Bytes) (pos : Nat) (st : St) (hq : q.length = 32) (hx : st.cond.all id = true) :
    execInstr cfg ⟨0x20, q⟩ after pos st = checkSize { st with stack := q :: st.stack } := by
  have hmin : minimalPush 32 q = true := by simp [minimalPush, hq]
  have hop : Opcode.ofNat 0x20 = .PUSHN 0x20 := rfl
  unfold execInstr countOp
  simp [hx, maxElementSize, hq, hmin, hop, disabled]
  all_goals rfl

theorem eval_p2tr (cfg : Cfg) (q : Bytes) (hq : q.length = 32) (hsv : cfg.sigversion = .BASE) :
    (evalScript cfg (0x51 :: 0x20 :: q) {}).result =
      .ok { codeFrom := 0x51 :: 0x20 :: q, stack := [q, encodeNum 1] } := by
  unfold evalScript
  rw [decode_p2tr q hq]
  simp only [hsv, List.length_cons, hq, maxScriptSize]
  simp only [evalInstrs]
  rw [Btcdeb.Proofs.C10.execInstr_one cfg _ _ _ rfl, Btcdeb.Proofs.C10.checkSize_ok _ (by simp)]
  simp only
  rw [execInstr_push32 cfg q _ _ _ hq rfl, Btcdeb.Proofs.C10.checkSize_ok _ (by simp)]
  simp

theorem witnessProgram_p2tr (q : Bytes) (hq : q.length = 32) : witnessProgram (0x51 :: 0x20 :: q) = some (1, q) := by
  simp [witnessProgram, hq]

theorem isP2SH_p2tr (q : Bytes) (hq : q.length = 32) : isP2SH (0x51 :: 0x20 :: q) = false := by
  simp [isP2SH, hq]

theorem keypath_roundtrip (p : Prims) (flags : Nat) (tx : Model.Tx) (spent : Model.TxOut) (q sig : Bytes)
    (hw : hasFlag flags Flag.WITNESS = true) (ht : hasFlag flags Flag.TAPROOT = true)
    (hq : q.length = 32) (hnz : toBool q = true) (hsl : sig.length = 64)
    (hver : p.schnorrVerify q (bip341Digest p.sha256 tx 0 0x00 [spent] none none) sig = true) :
    verifyScript (spendCtx p tx 0 spent.value [spent]) flags [] (0x51 :: 0x20 :: q) [sig] = .ok () := by
  have e1 : runScript (spendCtx p tx 0 spent.value [spent]) flags .BASE none none [] {} = .ok { codeFrom := [] } := by
    unfold runScript; rw [evalScript_empty _ _ rfl]
  have e2 : runScript (spendCtx p tx 0 spent.value [spent]) flags .BASE none none (0x51 :: 0x20 :: q) { stack := [] } =
      .ok { codeFrom := 0x51 :: 0x20 :: q, stack := [q, encodeNum 1] } := by
    unfold runScript; exact eval_p2tr _ q hq rfl
  have e3 : (((spendCtx p tx 0 spent.value [spent]).oracleFor .TAPROOT none none).schnorr sig q .TAPROOT 0xFFFFFFFF) = .ok () := by
    simp [spendCtx, txOracle, schnorrSigValid, hsl, hver, bip341Defined, tapHashTypeValid]
  have hpo : isPushOnly [] = true := by simp [isPushOnly, decode, decodeWithRest, decodePrefix]
  unfold verifyScript
  simp [hpo, e1, e2, evalTrue, hnz, hw, ht, witnessProgram_p2tr q hq, isP2SH_p2tr q hq, verifyWitnessProgram, hq, e3]
  first
    | rfl
    | (show (runScript (spendCtx p tx 0 spent.value [spent]) flags SigVersion.BASE none none (81 :: 32 :: q) { stack := [] } >>= _) = _
       rw [e2]
       simp [bind, Except.bind, hnz, pure, Except.pure])

theorem decode_pkchecksig (k : Bytes) (hk : k.length = 32) :
    decodePrefix (0x20 :: (k ++ [0xac])).length (0x20 :: (k ++ [0xac])) =
      ([(⟨0x20, k⟩, [0xac]), (⟨0xac, []⟩, [])], true) := by
  have h1 : decodeOne (0x20 :: (k ++ [0xac])) = some (⟨0x20, k⟩, [0xac]) := by
    simp [decodeOne, pushLenBytes, hk]
  have h2 : decodeOne [0xac] = some (⟨0xac, []⟩, []) := by simp [decodeOne]
  simp only [List.length_cons, List.length_append, hk, List.length_nil]
  rw [decodePrefix_succ, h1]; simp only
  rw [decodePrefix_succ, h2]; simp only
  simp [decodePrefix]

theorem eval_pkchecksig (cfg : Cfg) (k sig : Bytes) (w : Int) (hk : k.length = 32) (hsv : cfg.sigversion = .TAPSCRIPT)
    (hpre : cfg.pretend = []) (hsig : sig ≠ []) (hwt : 50 ≤ w)
    (hor : cfg.oracle.schnorr sig k .TAPSCRIPT 0xFFFFFFFF = .ok ()) :
    (evalScript cfg (0x20 :: (k ++ [0xac])) { stack := [sig], weightLeft := w, weightInit := true }).result =
      .ok { codeFrom := 0x20 :: (k ++ [0xac]), stack := [[1]], weightLeft := w - 50, weightInit := true } := by
  have hop : Opcode.ofNat 0xac = .OP_CHECKSIG := rfl
  have hne : sig.isEmpty = false := by cases sig <;> simp_all
  unfold evalScript
  rw [decode_pkchecksig k hk]
  simp only [hsv, evalInstrs]
  rw [execInstr_push32 cfg k _ _ _ hk rfl, Btcdeb.Proofs.C10.checkSize_ok _ (by simp)]
  simp only
  have : execInstr cfg ⟨0xac, []⟩ [] 1 { stack := [k, sig], codeFrom := 0x20 :: (k ++ [0xac]), weightLeft := w, weightInit := true } =
      .ok { codeFrom := 0x20 :: (k ++ [0xac]), stack := [[1]], weightLeft := w - 50, weightInit := true } := by
    unfold execInstr countOp
    simp [maxElementSize, hsv, hop, disabled, execOp, smallInt, isNopN, isUnary, isBinary, checkSig, mockHit, pairListed, hpre, hne, hk, hor,
      ofBool]
    have hkne : k ≠ [] := by intro h0; subst h0; simp at hk
    have hw2 : ¬ (w - 50 < 0) := by omega
    simp [bind, Except.bind, pure, Except.pure, hsig, hkne, hk, hw2, hor, checkSize, maxStackSize]
  rw [this]
  simp

theorem ews_pkchecksig (cx : SpendCtx) (flags : Nat) (leaf k sig : Bytes) (w : Int) (hk : k.length = 32) (hsl : sig.length = 64)
    (hwt : 50 ≤ w)
    (hor : (cx.oracleFor .TAPSCRIPT none (some leaf)).schnorr sig k .TAPSCRIPT 0xFFFFFFFF = .ok ()) :
    executeWitnessScript cx flags .TAPSCRIPT none (some leaf) [sig] (0x20 :: (k ++ [0xac])) w = .ok () := by
  have hsne : sig ≠ [] := by intro h0; subst h0; simp at hsl
  have e3 := eval_pkchecksig { flags := flags, sigversion := .TAPSCRIPT, oracle := cx.oracleFor .TAPSCRIPT none (some leaf) }
    k sig w hk rfl rfl hsne hwt hor
  have hdec := decode_pkchecksig k hk
  unfold executeWitnessScript runScript
  rw [hdec]
  simp only [List.reverse_cons, List.reverse_nil, List.nil_append]
  have hfind : List.find? (fun (p : Instr × Bytes) => isOpSuccess p.1.opcode)
      [(⟨0x20, k⟩, [0xac]), (⟨0xac, []⟩, ([] : Bytes))] = none := by simp [isOpSuccess]
  simp only [hfind]
  simp [maxStackSize, maxElementSize, hsl, e3, bind, Except.bind, pure, Except.pure]
  decide

theorem scriptpath_roundtrip (p : Prims) (flags : Nat) (tx : Model.Tx) (spent : Model.TxOut) (q k sig control : Bytes)
    (hw : hasFlag flags Flag.WITNESS = true) (ht : hasFlag flags Flag.TAPROOT = true)
    (hq : q.length = 32) (hnz : toBool q = true) (hk : k.length = 32) (hsl : sig.length = 64)
    (hc0 : (control.headD 0).toNat = 0xc0 ∨ (control.headD 0).toNat = 0xc1)
    (hvalid : bip341Valid p.tap control (0x20 :: (k ++ [0xac])) q = true)
    (hver : p.schnorrVerify k (bip341Digest p.sha256 tx 0 0x00 [spent] none
              (some { leafHash := tapLeafHash p.tap 0xc0 (0x20 :: (k ++ [0xac])), codesepPos := 0xFFFFFFFF })) sig = true) :
    verifyScript (spendCtx p tx 0 spent.value [spent]) flags [] (0x51 :: 0x20 :: q) [sig, 0x20 :: (k ++ [0xac]), control] = .ok () := by
  have e1 : runScript (spendCtx p tx 0 spent.value [spent]) flags .BASE none none [] {} = .ok { codeFrom := [] } := by
    unfold runScript; rw [evalScript_empty _ _ rfl]
  have e2 : runScript (spendCtx p tx 0 spent.value [spent]) flags .BASE none none (0x51 :: 0x20 :: q) { stack := [] } =
      .ok { codeFrom := 0x51 :: 0x20 :: q, stack := [q, encodeNum 1] } := by
    unfold runScript; exact eval_p2tr _ q hq rfl
  have hsz : ¬ ((control.length < 33 ∨ control.length > 33 + 32 * 128) ∨ (control.length - 33) % 32 ≠ 0) := by
    simp only [bip341Valid, Bool.and_eq_true, decide_eq_true_eq, beq_iff_eq] at hvalid
    have := hvalid.1; omega
  obtain ⟨c0, rest, rfl⟩ : ∃ c0 rest, control = c0 :: rest := by
    cases control with
    | nil => simp at hsz
    | cons c0 rest => exact ⟨c0, rest, rfl⟩
  simp only [List.headD_cons] at hc0
  have hc80 : ¬ (c0 = 80) := by intro h; subst h; rcases hc0 with h | h <;> simp at h
  have hleafver : c0.toNat - c0.toNat % 2 = 0xc0 := by rcases hc0 with h | h <;> rw [h]
  have hews := ews_pkchecksig (spendCtx p tx 0 spent.value [spent]) flags (tapLeafHash p.tap 0xc0 (0x20 :: (k ++ [0xac]))) k sig
    ((witnessStackSize [sig, 0x20 :: (k ++ [0xac]), c0 :: rest] : Nat) + 50 : Int) hk hsl (by omega)
    (by simp [spendCtx, txOracle, schnorrSigValid, hsl, hver, bip341Defined, tapHashTypeValid])
  have hwp : verifyWitnessProgram (spendCtx p tx 0 spent.value [spent]) flags [sig, 0x20 :: (k ++ [0xac]), c0 :: rest] 1 q false = .ok () := by
    have htap : (spendCtx p tx 0 spent.value [spent]).tap = p.tap := rfl
    unfold verifyWitnessProgram
    simp only [htap]
    simp [ht, hq, hc80, hvalid, hleafver]
    rw [if_neg (by simp only [List.length_cons] at hsz; omega)]
    exact hews
  have hpo : isPushOnly [] = true := by simp [isPushOnly, decode, decodeWithRest, decodePrefix]
  unfold verifyScript
  simp [hpo, e1, evalTrue, hw, witnessProgram_p2tr q hq, isP2SH_p2tr q hq, hwp]
  first
    | rfl
    | (show (runScript (spendCtx p tx 0 spent.value [spent]) flags SigVersion.BASE none none (81 :: 32 :: q) { stack := [] } >>= _) = _
       rw [e2]
       simp [bind, Except.bind, hnz, pure, Except.pure])


end Btcdeb.Proofs.TapSpend.S
