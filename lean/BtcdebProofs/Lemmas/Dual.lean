/-
  Helper lemmas for the two-column display (property C12, `Btcdeb/Model/Dual.lean`):
  closed forms of `svOps` / `svScripts` / `svPrintScripts`, the width invariant of `Sv`, and the layout
  functions (`fit`, `padLeft`, `padRight`, `dualRows`).
-/
import Btcdeb
import BtcdebProofs.Lemmas.Listing
namespace Btcdeb.Model
open Btcdeb

-- ---------------------------------------------------------------------------------------------
-- svOps

/-- where the iterator stands after the loop `while (script->GetOp(it, …))` -/
def endPos (it : Bytes) : Bytes :=
  match h : getOp it with
  | none => failPos it
  | some g => endPos g.rest
termination_by it.length
decreasing_by exact getOp_rest_lt h

theorem endPos_none {it : Bytes} (h : getOp it = none) : endPos it = failPos it := by
  rw [endPos]; split
  · rfl
  · rename_i g h'; rw [h] at h'; cases h'

theorem endPos_some {it : Bytes} {g : GotOp} (h : getOp it = some g) : endPos it = endPos g.rest := by
  rw [endPos]; split
  · rename_i h'; rw [h] at h'; cases h'
  · rename_i g' h'; rw [h] at h'; cases h'; rfl

theorem svOps_none {sect : Sect} {total : Nat} {it : Bytes} {s : Sv} (h : getOp it = none) :
    svOps sect total it s = (s, failPos it) := by
  rw [svOps]; split
  · rfl
  · rename_i g h'; rw [h] at h'; cases h'

theorem svOps_some {sect : Sect} {total : Nat} {it : Bytes} {s : Sv} {g : GotOp} (h : getOp it = some g) :
    svOps sect total it s =
      svOps sect total g.rest
        { s.add { sect := sect, kind := .op, offset := total - it.length, text := opText g } with begun := true } := by
  rw [svOps]; split
  · rename_i h'; rw [h] at h'; cases h'
  · rename_i g' h'; rw [h] at h'; cases h'; rfl

theorem opLinesFrom_none {sect : Sect} {total : Nat} {it : Bytes} (h : getOp it = none) : opLinesFrom sect total it = [] := by
  simp [opLinesFrom, decodeFrom_none h]

theorem opLinesFrom_some {sect : Sect} {total : Nat} {it : Bytes} {g : GotOp} (h : getOp it = some g) :
    opLinesFrom sect total it =
      { sect := sect, kind := .op, offset := total - it.length, text := opText g } :: opLinesFrom sect total g.rest := by
  simp [opLinesFrom, decodeFrom_some h]

/-- every line has been counted in `lmax` -/
def Sv.Ok (s : Sv) : Prop := ∀ ln ∈ s.l, ln.shown.length ≤ s.lmax

theorem Sv.ok_add {s : Sv} (h : s.Ok) (ln : Line) : (s.add ln).Ok := by
  intro x hx
  simp only [Sv.add, List.mem_append, List.mem_singleton] at hx ⊢
  rcases hx with hx | rfl
  · have := h x hx; omega
  · omega

/-- closed form of the instruction loop -/
theorem svOps_spec (sect : Sect) (total : Nat) : ∀ (n : Nat) (it : Bytes) (s : Sv), it.length ≤ n →
    (svOps sect total it s).1.l = s.l ++ opLinesFrom sect total it ∧
    (svOps sect total it s).1.begun = (s.begun || !(decodeFrom it).isEmpty) ∧
    (svOps sect total it s).1.stale = s.stale ∧
    (svOps sect total it s).2 = endPos it ∧
    s.lmax ≤ (svOps sect total it s).1.lmax ∧
    (s.Ok → (svOps sect total it s).1.Ok) := by
  intro n
  induction n with
  | zero =>
    intro it s hl
    have : it = [] := List.length_eq_zero_iff.mp (by omega)
    subst this
    have hg : getOp ([] : Bytes) = none := rfl
    rw [svOps_none hg, opLinesFrom_none hg, endPos_none hg, decodeFrom_none hg]
    simp
  | succ n ih =>
    intro it s hl
    cases hg : getOp it with
    | none =>
      rw [svOps_none hg, opLinesFrom_none hg, endPos_none hg, decodeFrom_none hg]
      simp
    | some g =>
      have hlt := getOp_rest_lt hg
      rw [svOps_some hg, opLinesFrom_some hg, endPos_some hg, decodeFrom_some hg]
      obtain ⟨h1, h2, h3, h4, h5, h6⟩ := ih g.rest
        { s.add { sect := sect, kind := .op, offset := total - it.length, text := opText g } with begun := true } (by omega)
      refine ⟨?_, ?_, ?_, h4, ?_, ?_⟩
      · rw [h1]; simp [Sv.add]
      · rw [h2]; simp
      · rw [h3]; rfl
      · refine Nat.le_trans ?_ h5
        simp only [Sv.add]; omega
      · intro hok
        apply h6
        have := Sv.ok_add hok { sect := sect, kind := .op, offset := total - it.length, text := opText g }
        intro x hx; exact this x hx

-- ---------------------------------------------------------------------------------------------
-- svScripts

/-- the lines of one entry of `scripts` that is started afresh: its header (unless empty), its instructions -/
def sectLines (p : Sect × Bytes × String) : List Line :=
  (if p.2.2 != "" then [headerLine p.1 p.2.2] else []) ++ opLinesFrom p.1 p.2.1.length p.2.1

/-- once something has been listed every further script is started afresh -/
theorem svScripts_begun : ∀ (scripts : List (Sect × Bytes × String)) (first : Bool) (it : Bytes) (s : Sv), s.begun = true →
    (svScripts scripts first it s).l = s.l ++ scripts.flatMap sectLines ∧
    (svScripts scripts first it s).stale = s.stale ∧
    s.lmax ≤ (svScripts scripts first it s).lmax ∧
    (s.Ok → (svScripts scripts first it s).Ok) := by
  intro scripts
  induction scripts with
  | nil => intro first it s _; simp [svScripts]
  | cons p rest ih =>
    intro first it s hb
    obtain ⟨sect, script, header⟩ := p
    simp only [svScripts, hb, Bool.not_true, Bool.false_and, Bool.false_eq_true, if_false, if_true]
    by_cases hh : (header != "") = true
    · simp only [hh, if_true]
      obtain ⟨h1, h2, h3, h4, h5, h6⟩ := svOps_spec sect script.length script.length script (s.add (headerLine sect header)) (Nat.le_refl _)
      have hb3 : (if (svOps sect script.length script (s.add (headerLine sect header))).2.isEmpty = true then
            { (svOps sect script.length script (s.add (headerLine sect header))).1 with begun := true }
          else (svOps sect script.length script (s.add (headerLine sect header))).1).begun = true := by
        split
        · rfl
        · rw [h2]; simp [Sv.add, hb]
      obtain ⟨i1, i2, i3, i4⟩ := ih false (svOps sect script.length script (s.add (headerLine sect header))).2 _ hb3
      refine ⟨?_, ?_, ?_, ?_⟩
      · rw [i1]
        have : ∀ (c : Bool) (a : Sv), (if c = true then { a with begun := true } else a).l = a.l := by intro c a; split <;> rfl
        rw [this, h1]
        simp [sectLines, hh, Sv.add]
      · rw [i2]
        have : ∀ (c : Bool) (a : Sv), (if c = true then { a with begun := true } else a).stale = a.stale := by intro c a; split <;> rfl
        rw [this, h3]; rfl
      · refine Nat.le_trans ?_ i3
        have : ∀ (c : Bool) (a : Sv), (if c = true then { a with begun := true } else a).lmax = a.lmax := by intro c a; split <;> rfl
        rw [this]
        refine Nat.le_trans ?_ h5
        simp only [Sv.add]; omega
      · intro hok
        apply i4
        have hk := h6 (Sv.ok_add hok _)
        split
        · intro x hx; exact hk x hx
        · exact hk
    · simp only [hh, Bool.false_eq_true, if_false]
      obtain ⟨h1, h2, h3, h4, h5, h6⟩ := svOps_spec sect script.length script.length script s (Nat.le_refl _)
      have hb3 : (if (svOps sect script.length script s).2.isEmpty = true then
            { (svOps sect script.length script s).1 with begun := true }
          else (svOps sect script.length script s).1).begun = true := by
        split
        · rfl
        · rw [h2]; simp [hb]
      obtain ⟨i1, i2, i3, i4⟩ := ih false (svOps sect script.length script s).2 _ hb3
      refine ⟨?_, ?_, ?_, ?_⟩
      · rw [i1]
        have : ∀ (c : Bool) (a : Sv), (if c = true then { a with begun := true } else a).l = a.l := by intro c a; split <;> rfl
        rw [this, h1]
        simp [sectLines, hh]
      · rw [i2]
        have : ∀ (c : Bool) (a : Sv), (if c = true then { a with begun := true } else a).stale = a.stale := by intro c a; split <;> rfl
        rw [this, h3]
      · refine Nat.le_trans ?_ i3
        have : ∀ (c : Bool) (a : Sv), (if c = true then { a with begun := true } else a).lmax = a.lmax := by intro c a; split <;> rfl
        rw [this]
        exact h5
      · intro hok
        apply i4
        have hk := h6 hok
        split
        · intro x hx; exact hk x hx
        · exact hk


-- ---------------------------------------------------------------------------------------------
-- svPrintScripts

/-- the commitment section: its two title lines around the lines of `Description()` still to be executed -/
def tceLines : Option Tce → List Line
  | some t => tapHeader :: t.description.drop t.i ++ [committedHeader]
  | none => []

/-- the state of `svprintscripts` before the loop over the scripts -/
def sv0 (tce : Option Tce) : Sv :=
  match tce with
  | some t => ((t.description.drop t.i).foldl Sv.add (({} : Sv).add tapHeader)).addQuiet committedHeader
  | none => {}

theorem foldl_add_spec : ∀ (ls : List Line) (s : Sv),
    (ls.foldl Sv.add s).l = s.l ++ ls ∧ (ls.foldl Sv.add s).begun = s.begun ∧ (ls.foldl Sv.add s).stale = s.stale ∧
    s.lmax ≤ (ls.foldl Sv.add s).lmax ∧ (s.Ok → (ls.foldl Sv.add s).Ok) := by
  intro ls
  induction ls with
  | nil => intro s; simp
  | cons a rest ih =>
    intro s
    obtain ⟨h1, h2, h3, h4, h5⟩ := ih (s.add a)
    simp only [List.foldl_cons]
    refine ⟨by rw [h1]; simp [Sv.add], by rw [h2]; rfl, by rw [h3]; rfl, ?_, fun hok => h5 (Sv.ok_add hok a)⟩
    refine Nat.le_trans ?_ h4
    simp only [Sv.add]; omega

theorem sv0_spec (tce : Option Tce) :
    (sv0 tce).l = tceLines tce ∧ (sv0 tce).begun = false ∧ (sv0 tce).stale = false ∧ (sv0 tce).Ok := by
  cases tce with
  | none => exact ⟨rfl, rfl, rfl, by intro x hx; cases hx⟩
  | some t =>
    obtain ⟨h1, h2, h3, h4, h5⟩ := foldl_add_spec (t.description.drop t.i) (({} : Sv).add tapHeader)
    refine ⟨?_, ?_, ?_, ?_⟩
    · simp only [sv0, Sv.addQuiet]; rw [h1]; simp [tceLines, Sv.add]
    · simp only [sv0, Sv.addQuiet]; rw [h2]; rfl
    · simp only [sv0, Sv.addQuiet]; rw [h3]; rfl
    · have hok := h5 (Sv.ok_add (s := {}) (by intro x hx; cases hx) tapHeader)
      have h26 : 26 ≤ ((t.description.drop t.i).foldl Sv.add (({} : Sv).add tapHeader)).lmax := by
        refine Nat.le_trans ?_ h4
        have : tapHeader.shown.length = 26 := by rfl
        simp only [Sv.add, this]; omega
      intro x hx
      simp only [sv0, Sv.addQuiet, List.mem_append, List.mem_singleton] at hx ⊢
      rcases hx with hx | rfl
      · exact hok x hx
      · have : committedHeader.shown.length = 24 := by rfl
        omega

theorem svPrintScripts_eq (scripts : List (Sect × Bytes × String)) (it : Bytes) (tce : Option Tce) :
    svPrintScripts scripts it tce = svScripts scripts true it (sv0 tce) := by
  cases tce <;> rfl

theorem svScripts_stale (p : Sect × Bytes × String) (rest : List (Sect × Bytes × String)) (it : Bytes) (s : Sv)
    (hb : s.begun = false) : svScripts (p :: rest) false it s = { s with stale := true } := by
  obtain ⟨a, b, c⟩ := p
  simp [svScripts, hb]

/-- after the first script something has been listed, or the iterator is at the end of the script -/
def startedAt (it : Bytes) : Bool := !(decodeFrom it).isEmpty || (endPos it).isEmpty

/-- closed form of `svprintscripts`: what is listed when the scripts after the first one are started afresh
    (`startedAt`, or there is no further script), and the undefined case otherwise -/
theorem svPrintScripts_spec (p : Sect × Bytes × String) (rest : List (Sect × Bytes × String)) (it : Bytes) (tce : Option Tce) :
    (startedAt it = true ∨ rest = [] →
      (svPrintScripts (p :: rest) it tce).l = tceLines tce ++ opLinesFrom p.1 p.2.1.length it ++ rest.flatMap sectLines ∧
      (svPrintScripts (p :: rest) it tce).stale = false) ∧
    (startedAt it = false → rest ≠ [] → (svPrintScripts (p :: rest) it tce).stale = true) ∧
    (svPrintScripts (p :: rest) it tce).Ok := by
  obtain ⟨sect, script, header⟩ := p
  obtain ⟨z1, z2, z3, z4⟩ := sv0_spec tce
  obtain ⟨h1, h2, h3, h4, h5, h6⟩ := svOps_spec sect script.length it.length it (sv0 tce) (Nat.le_refl _)
  have hstep : svPrintScripts ((sect, script, header) :: rest) it tce =
      svScripts rest false (svOps sect script.length it (sv0 tce)).2
        (if (svOps sect script.length it (sv0 tce)).2.isEmpty = true then { (svOps sect script.length it (sv0 tce)).1 with begun := true }
         else (svOps sect script.length it (sv0 tce)).1) := by
    rw [svPrintScripts_eq]
    simp [svScripts, z2]
  have hl : ∀ (c : Bool) (a : Sv), (if c = true then { a with begun := true } else a).l = a.l := by intro c a; split <;> rfl
  have hs : ∀ (c : Bool) (a : Sv), (if c = true then { a with begun := true } else a).stale = a.stale := by intro c a; split <;> rfl
  have hok : ∀ (c : Bool) (a : Sv), a.Ok → (if c = true then { a with begun := true } else a).Ok := by
    intro c a h; split
    · intro x hx; exact h x hx
    · exact h
  have hbeg : (if (svOps sect script.length it (sv0 tce)).2.isEmpty = true then { (svOps sect script.length it (sv0 tce)).1 with begun := true }
         else (svOps sect script.length it (sv0 tce)).1).begun = startedAt it := by
    unfold startedAt
    rw [h4]
    by_cases he : (endPos it).isEmpty = true
    · simp [he]
    · simp only [he, Bool.false_eq_true, if_false, h2, z2, Bool.false_or, Bool.or_false]
  simp only []
  rw [hstep]
  by_cases hst : startedAt it = true
  · obtain ⟨i1, i2, i3, i4⟩ := svScripts_begun rest false (svOps sect script.length it (sv0 tce)).2 _ (hbeg.trans hst)
    refine ⟨fun _ => ⟨?_, ?_⟩, fun h => (by rw [hst] at h; cases h), i4 (hok _ _ (h6 z4))⟩
    · rw [i1, hl, h1, z1]
    · rw [i2, hs, h3, z3]
  · have hst' : startedAt it = false := by simpa using hst
    cases rest with
    | nil =>
      refine ⟨fun _ => ⟨?_, ?_⟩, fun _ h => absurd rfl h, ?_⟩
      · simp only [svScripts, List.flatMap_nil, List.append_nil]; rw [hl, h1, z1]
      · simp only [svScripts]; rw [hs, h3, z3]
      · simp only [svScripts]; exact hok _ _ (h6 z4)
    | cons q rest' =>
      obtain ⟨s2, sc2, hd2⟩ := q
      have hb0 := hbeg.trans hst'
      refine ⟨fun h => ?_, fun _ _ => ?_, ?_⟩
      · rcases h with h | h
        · rw [hst'] at h; cases h
        · cases h
      · rw [svScripts_stale _ _ _ _ hb0]
      · rw [svScripts_stale _ _ _ _ hb0]
        intro x hx; exact hok _ _ (h6 z4) x hx

-- ---------------------------------------------------------------------------------------------
-- layout

theorem fit_length (cap : Nat) (s : List Char) (h : 3 ≤ cap) : (fit cap s).length ≤ cap := by
  unfold fit; split
  · simp; omega
  · omega

theorem fit_id {cap : Nat} {s : List Char} (h : s.length ≤ cap) : fit cap s = s := by
  unfold fit; rw [if_neg (by omega)]

theorem padRight_length {n : Nat} {s : List Char} (h : s.length ≤ n) : (padRight n s).length = n := by
  simp [padRight]; omega

theorem padLeft_length {n : Nat} {s : List Char} (h : s.length ≤ n) : (padLeft n s).length = n := by
  simp [padLeft]; omega

theorem capOf_le66 (g : Nat) : capOf g ≤ 66 := by unfold capOf; split <;> omega
theorem capOf_le (g : Nat) : capOf g ≤ g := by unfold capOf; split <;> omega
theorem capOf_mono {a b : Nat} (h : a ≤ b) : capOf a ≤ capOf b := by unfold capOf; split <;> split <;> omega
theorem capOf_ge {g n : Nat} (h1 : n ≤ g) (h2 : n ≤ 66) : n ≤ capOf g := by unfold capOf; split <;> omega

theorem maxLen_ge : ∀ (r : List (List Char)) (s : List Char), s ∈ r → s.length ≤ maxLen r := by
  intro r
  induction r with
  | nil => intro s h; cases h
  | cons a rest ih =>
    intro s h
    simp only [maxLen]
    rcases List.mem_cons.mp h with rfl | h'
    · omega
    · have := ih s h'; omega

/-- a text that has been counted in the column width `g` is shown in full when it has at most 66
    characters, otherwise as its first 63 characters and three dots -/
theorem fit_abbrev (g : Nat) (s : List Char) (hs : s.length ≤ g) : fit (capOf g) s = Spec.abbreviated 66 s := by
  unfold Spec.abbreviated
  by_cases h : s.length ≤ 66
  · rw [if_pos h, fit_id (capOf_ge hs h)]
  · rw [if_neg h]
    have hc : capOf g = 66 := by unfold capOf; rw [if_pos (by omega)]
    unfold fit; rw [hc, if_pos (by omega)]

/-- the cut at 1023 characters made by the `buf[1024]` of svprintscripts never shows -/
theorem fit_shown (g : Nat) (l : Line) (hs : l.shown.length ≤ g) : fit (capOf g) l.shown = Spec.abbreviated 66 l.text.toList := by
  rw [fit_abbrev g _ hs]
  unfold Line.shown at hs ⊢
  cases hk : l.kind with
  | op =>
    simp only [hk] at hs ⊢
    by_cases ht : l.text.toList.length ≤ 1023
    · rw [List.take_of_length_le ht]
    · unfold Spec.abbreviated
      have h1 : ¬ (List.take 1023 l.text.toList).length ≤ 66 := by simp; omega
      have h2 : ¬ l.text.toList.length ≤ 66 := by omega
      rw [if_neg h1, if_neg h2, List.take_take]
      simp
  | desc => rfl
  | header => rfl

theorem dualRows_length (lcap rcap : Nat) (l r : List (List Char)) :
    (dualRows lcap rcap l r).length = max l.length r.length := by
  simp [dualRows]

/-- row `i` of the display pairs entry `i` of the left column with entry `i` of the right column -/
theorem dualRows_get (lcap rcap : Nat) (l r : List (List Char)) (i : Nat) (h : i < max l.length r.length) :
    (dualRows lcap rcap l r)[i]? = some (dualRow lcap rcap l[i]? r[i]?) := by
  simp [dualRows, List.getElem?_map, List.getElem?_range h]

/-- the shape of a row: a left cell of exactly `lcap + 1` characters, the separator, and a right cell that is empty
    or has exactly `rcap` characters -/
def RowShape (lcap rcap : Nat) (row : List Char) : Prop :=
  ∃ lc rc, row = lc ++ ['|', ' '] ++ rc ∧ lc.length = lcap + 1 ∧ (rc = [] ∨ rc.length = rcap)

theorem dualRow_shape (lcap rcap : Nat) (hl : 3 ≤ lcap) (hr : 3 ≤ rcap) (l r : Option (List Char)) :
    RowShape lcap rcap (dualRow lcap rcap l r) := by
  refine ⟨_, _, rfl, ?_, ?_⟩
  · apply padRight_length
    cases l with
    | none => simp
    | some s => have := fit_length lcap s hl; simp only; omega
  · cases r with
    | none => exact Or.inl rfl
    | some s => exact Or.inr (padLeft_length (fit_length rcap s hr))

theorem dualRows_shape (lcap rcap : Nat) (hl : 3 ≤ lcap) (hr : 3 ≤ rcap) (l r : List (List Char)) :
    ∀ row ∈ dualRows lcap rcap l r, RowShape lcap rcap row := by
  intro row h
  simp only [dualRows, List.mem_map] at h
  obtain ⟨i, _, rfl⟩ := h
  exact dualRow_shape lcap rcap hl hr _ _

end Btcdeb.Model
