/-
  Helper lemmas for the kerl proofs (Properties/C15Kerl.lean, Properties/C16Kerl.lean):
  memory cells (`rd`, `wr`, `cstrAt`, `realloc`), and the abstract word machine that `kerl_make_argcv_escape` refines.
-/
import Btcdeb.Model.Kerl
import Btcdeb.Spec.Kerl
namespace Btcdeb.Proofs.Kerl
open Btcdeb Btcdeb.Model.Kerl

-- ---------------------------------------------------------------------------------------------
-- memory cells

theorem rd_ok {mem : List UInt8} {i : Nat} (what : String) (h : i < mem.length) : rd mem i what = .ok mem[i] := by
  unfold rd; rw [dif_pos h]; rfl

theorem wr_ok {mem : List UInt8} {i : Nat} (v : UInt8) (what : String) (h : i < mem.length) :
    wr mem i v what = .ok (mem.set i v) := by
  unfold wr; rw [if_pos h]; rfl

/-- writing just behind a prefix -/
theorem set_at_prefix (pre rest : List UInt8) (v : UInt8) (h : rest ≠ []) :
    (pre ++ rest).set pre.length v = (pre ++ [v]) ++ rest.tail := by
  cases rest with
  | nil => exact absurd rfl h
  | cons r rs =>
    rw [List.set_append, if_neg (Nat.lt_irrefl _), Nat.sub_self, List.set_cons_zero]
    simp

theorem wr_at_prefix (pre rest : List UInt8) (v : UInt8) (what : String) (h : rest ≠ []) :
    wr (pre ++ rest) pre.length v what = .ok ((pre ++ [v]) ++ rest.tail) := by
  have hl : pre.length < (pre ++ rest).length := by
    rw [List.length_append]
    have := List.length_pos_iff.mpr h
    omega
  rw [wr_ok v what hl, set_at_prefix pre rest v h]

theorem realloc_length (mem : List UInt8) (n : Nat) : (realloc mem n).length = n := by
  unfold realloc
  rw [List.length_append, List.length_take, List.length_replicate]
  omega

/-- growing keeps the content -/
theorem realloc_prefix (pre rest : List UInt8) (n : Nat) (h : (pre ++ rest).length ≤ n) :
    realloc (pre ++ rest) n = pre ++ (rest ++ List.replicate (n - (pre ++ rest).length) poison) := by
  unfold realloc
  rw [List.take_of_length_le h, List.append_assoc]

theorem malloc_length (n : Nat) : (malloc n).length = n := by
  unfold malloc; exact List.length_replicate

theorem takeWhile_append_nul (s tail : List UInt8) :
    (s ++ 0 :: tail).takeWhile (· != 0) = s.takeWhile (· != 0) := by
  induction s with
  | nil => simp
  | cons c cs ih =>
    simp only [List.cons_append, List.takeWhile_cons]
    split
    · rw [ih]
    · rfl

/-- a string, its terminator, anything behind: the C string is the string up to its first NUL -/
theorem cstrAt_prefix (pre s tail : List UInt8) :
    cstrAt (pre ++ (s ++ 0 :: tail)) pre.length = .ok (s.takeWhile (· != 0)) := by
  unfold cstrAt
  have hd : (pre ++ (s ++ 0 :: tail)).drop pre.length = s ++ 0 :: tail := List.drop_left
  rw [hd]
  have hle : pre.length ≤ (pre ++ (s ++ 0 :: tail)).length := by rw [List.length_append]; omega
  have hc : (s ++ 0 :: tail).contains 0 = true := by
    rw [List.contains_iff_mem]; simp
  rw [if_pos ⟨hle, hc⟩, takeWhile_append_nul]
  rfl

theorem takeWhile_ne0_of_not_mem {s : List UInt8} (h : (0 : UInt8) ∉ s) : s.takeWhile (· != 0) = s := by
  induction s with
  | nil => rfl
  | cons c cs ih =>
    have hc : c ≠ 0 := fun hc => h (by rw [hc]; exact List.mem_cons_self)
    have hcs : (0 : UInt8) ∉ cs := fun hm => h (List.mem_cons_of_mem _ hm)
    rw [List.takeWhile_cons, if_pos (by simpa using hc), ih hcs]

theorem cstrAt_prefix_nulfree (pre s tail : List UInt8) (h : (0 : UInt8) ∉ s) :
    cstrAt (pre ++ (s ++ 0 :: tail)) pre.length = .ok s := by
  rw [cstrAt_prefix, takeWhile_ne0_of_not_mem h]

theorem cstr_ofStr_like (s tail : List UInt8) : cstr (s ++ 0 :: tail) = .ok (s.takeWhile (· != 0)) := by
  have := cstrAt_prefix [] s tail
  simpa [cstr] using this

theorem cstr_ofStr (s : Bytes) (h : (0 : UInt8) ∉ s) : cstr (ofStr s) = .ok s := by
  unfold ofStr
  rw [cstr_ofStr_like, takeWhile_ne0_of_not_mem h]

-- ---------------------------------------------------------------------------------------------
-- the abstract word machine

/-- what `bufiter()` appends for a character -/
def piece (escape ch : UInt8) : Bytes := if ch == escape then [92, ch] else [ch]

/-- the variables of `kerl_make_argcv_escape` without their memory: the arguments so far, the characters of the
    argument being collected, the open quote, the pending backslash -/
structure AState where
  args : List Bytes := []
  cur : Bytes := []
  quot : UInt8 := 0
  esc : Bool := false
deriving Repr, DecidableEq

/-- `strdup(buf)` of the collected characters -/
def cstrOf (b : Bytes) : Bytes := b.takeWhile (· != 0)

def aChar (escape : UInt8) (a : AState) (ch : UInt8) : AState :=
  if a.esc then { a with cur := a.cur ++ piece escape ch, esc := false }
  else if ch == 92 then { a with esc := true }
  else if a.quot != 0 then
    if ch == a.quot then { a with quot := 0 } else { a with cur := a.cur ++ piece escape ch }
  else if ch == 39 || ch == 34 then { a with quot := ch }
  else if ch == 32 then
    if a.cur.length > 0 then { a with args := a.args ++ [cstrOf a.cur], cur := [] } else a
  else { a with cur := a.cur ++ piece escape ch }

def aLine (escape : UInt8) : AState → Bytes → AState
  | a, [] => a
  | a, ch :: rest => aLine escape (aChar escape a ch) rest

def aFinish (a : AState) : List Bytes := if a.cur.length > 0 then a.args ++ [cstrOf a.cur] else a.args

/-- `add_newline` -/
def aAddNl (a : AState) : Bool := a.quot != 0

/-- the `while (1)` loop on the abstract state: result and unread lines; `none` = abort -/
def aLoop (rl : Bool) (escape : UInt8) (a : AState) (line : Bytes) (more : List Bytes) : Option (List Bytes) × List Bytes :=
  let a := aLine escape a line
  if rl && (a.quot != 0 || a.esc) then
    let a := if aAddNl a then { a with cur := a.cur ++ [10] } else a
    match more with
    | [] => (none, [])
    | l :: rest => aLoop rl escape a l rest
  else (some (aFinish a), more)
termination_by more.length

/-- the memory of `s` holds the abstract state `a` -/
structure Rep (s : ArgSt) (a : AState) : Prop where
  buf : ∃ rest, s.buf = a.cur ++ rest
  j : s.j = a.cur.length
  argv : s.argv = a.args
  quot : s.quot = a.quot
  esc : s.esc = a.esc

/-- the capacities are what the code believes -/
structure Caps (s : ArgSt) : Prop where
  alloc : s.buf.length = s.bufcap
  big : 3 ≤ s.bufcap
  argc : s.argv.length ≤ s.cap
  cap : 1 ≤ s.cap

/-- the invariant that holds between two lines of a continued command as well as between two characters: the fill level `j`
    is strictly inside the capacity (the newline of a continuation is written behind its own capacity check) -/
def Room (s : ArgSt) (_a : AState) : Prop := s.j < s.bufcap

theorem bufPut_rep {s : ArgSt} {a : AState} (v : UInt8) (hr : Rep s a) (hc : Caps s) (hj : s.j < s.bufcap) :
    ∃ s', bufPut s v = .ok s' ∧ Rep s' { a with cur := a.cur ++ [v] } ∧ Caps s' ∧ s'.j = s.j + 1 ∧ s'.bufcap = s.bufcap
      ∧ s'.cap = s.cap := by
  obtain ⟨rest, hb⟩ := hr.buf
  have hlen : a.cur.length < (a.cur ++ rest).length := by rw [← hb, hc.alloc, ← hr.j]; exact hj
  have hrest : rest ≠ [] := by
    intro h0; rw [h0, List.append_nil] at hlen; exact Nat.lt_irrefl _ hlen
  refine ⟨{ s with buf := (a.cur ++ [v]) ++ rest.tail, j := s.j + 1 }, ?_, ?_, ?_, rfl, rfl, rfl⟩
  · unfold bufPut
    rw [hb, hr.j, wr_at_prefix a.cur rest v _ hrest]
    rfl
  · exact ⟨⟨rest.tail, rfl⟩, by simp [hr.j], hr.argv, hr.quot, hr.esc⟩
  · refine ⟨?_, hc.big, hc.argc, hc.cap⟩
    show ((a.cur ++ [v]) ++ rest.tail).length = s.bufcap
    rw [← hc.alloc, hb]
    have := List.length_pos_iff.mpr hrest
    simp only [List.length_append, List.length_tail, List.length_cons, List.length_nil]
    omega

theorem bufiter_rep {s : ArgSt} {a : AState} (escape ch : UInt8) (hr : Rep s a) (hc : Caps s) (hj : s.j + 2 < s.bufcap) :
    ∃ s', bufiter escape s ch = .ok s' ∧ Rep s' { a with cur := a.cur ++ piece escape ch } ∧ Caps s' ∧ s'.j ≤ s.j + 2
      ∧ s'.j < s'.bufcap ∧ s'.bufcap = s.bufcap ∧ s'.cap = s.cap := by
  unfold bufiter piece
  by_cases he : (ch == escape) = true
  · rw [if_pos he, if_pos he]
    obtain ⟨s1, h1, r1, c1, j1, b1, k1⟩ := bufPut_rep 92 hr hc (by omega)
    obtain ⟨s2, h2, r2, c2, j2, b2, k2⟩ := bufPut_rep ch r1 c1 (by omega)
    refine ⟨s2, ?_, ?_, c2, by omega, by omega, by omega, by omega⟩
    · rw [h1]; exact h2
    · simpa using r2
  · rw [if_neg he, if_neg he]
    obtain ⟨s1, h1, r1, c1, j1, b1, k1⟩ := bufPut_rep ch hr hc (by omega)
    exact ⟨s1, h1, r1, c1, by omega, by omega, b1, k1⟩

theorem storeArg_rep {s : ArgSt} {a : AState} (hr : Rep s a) (hc : Caps s) (hj : s.j < s.bufcap) (hk : s.argv.length < s.cap) :
    ∃ s', storeArg s = .ok s' ∧ s'.argv = a.args ++ [cstrOf a.cur] ∧ s'.buf.length = s.bufcap ∧ s'.bufcap = s.bufcap
      ∧ s'.cap = s.cap ∧ s'.quot = s.quot ∧ s'.esc = s.esc := by
  obtain ⟨rest, hb⟩ := hr.buf
  have hlen : a.cur.length < (a.cur ++ rest).length := by rw [← hb, hc.alloc, ← hr.j]; exact hj
  have hrest : rest ≠ [] := by
    intro h0; rw [h0, List.append_nil] at hlen; exact Nat.lt_irrefl _ hlen
  have hbuf' : (a.cur ++ [0]) ++ rest.tail = a.cur ++ 0 :: rest.tail := by simp
  refine ⟨{ s with buf := a.cur ++ 0 :: rest.tail, argv := s.argv ++ [cstrOf a.cur] }, ?_, ?_, ?_, rfl, rfl, rfl, rfl⟩
  · unfold storeArg
    rw [hb, hr.j, wr_at_prefix a.cur rest 0 _ hrest, hbuf']
    simp only [bind, Except.bind]
    rw [cstr_ofStr_like a.cur rest.tail]
    simp only [cstrOf]
    rw [if_pos hk]
    rfl
  · show s.argv ++ [cstrOf a.cur] = a.args ++ [cstrOf a.cur]
    rw [hr.argv]
  · show (a.cur ++ 0 :: rest.tail).length = s.bufcap
    rw [← hc.alloc, hb]
    have := List.length_pos_iff.mpr hrest
    simp only [List.length_append, List.length_tail, List.length_cons]
    omega

theorem chkInt_ok {n : Nat} (h : n ≤ intMax) : chkInt n = .ok () := by
  unfold chkInt; rw [if_pos h]; rfl

/-- the growth step at the top of the loop body -/
def grown (s : ArgSt) : ArgSt :=
  if s.bufcap ≤ s.j + 2 then { s with bufcap := s.bufcap * 2, buf := realloc s.buf (s.bufcap * 2) } else s

theorem grown_rep {s : ArgSt} {a : AState} (hr : Rep s a) (hc : Caps s) (hroom : s.j ≤ s.bufcap) :
    Rep (grown s) a ∧ Caps (grown s) ∧ (grown s).j + 2 < (grown s).bufcap ∧ (grown s).j = s.j ∧ (grown s).cap = s.cap := by
  unfold grown
  by_cases hg : s.bufcap ≤ s.j + 2
  · rw [if_pos hg]
    obtain ⟨rest, hb⟩ := hr.buf
    have hlen : (a.cur ++ rest).length ≤ s.bufcap * 2 := by rw [← hb, hc.alloc]; omega
    refine ⟨⟨⟨rest ++ List.replicate (s.bufcap * 2 - (a.cur ++ rest).length) poison, ?_⟩, hr.j, hr.argv, hr.quot, hr.esc⟩,
            ⟨?_, ?_, hc.argc, hc.cap⟩, ?_, rfl, rfl⟩
    · show realloc s.buf (s.bufcap * 2) = _
      rw [hb, realloc_prefix _ _ _ hlen]
    · show (realloc s.buf (s.bufcap * 2)).length = s.bufcap * 2
      exact realloc_length _ _
    · show 3 ≤ s.bufcap * 2
      have := hc.big; omega
    · show s.j + 2 < s.bufcap * 2
      have := hc.big; omega
  · rw [if_neg hg]
    exact ⟨hr, hc, by omega, rfl, rfl⟩

theorem argChar_eq (escape : UInt8) (s : ArgSt) (ch : UInt8) (hint : s.j + 2 ≤ intMax) :
    argChar escape s ch =
      (let s := grown s
       if s.esc then (bufiter escape s ch).bind (fun s => pure { s with esc := false })
       else if ch == 92 then pure { s with esc := true }
       else if s.quot != 0 then
         if ch == s.quot then pure { s with quot := 0 } else bufiter escape s ch
       else if ch == 39 || ch == 34 then pure { s with quot := ch }
       else if ch == 32 then
         if s.j > 0 then
           (storeArg (if s.argv.length == s.cap then { s with cap := s.cap * 2 } else s)).bind (fun s => pure { s with j := 0 })
         else pure s
       else bufiter escape s ch) := by
  unfold argChar grown
  rw [chkInt_ok hint]
  rfl

theorem argChar_rep {s : ArgSt} {a : AState} (escape ch : UInt8) (hr : Rep s a) (hc : Caps s) (hroom : s.j ≤ s.bufcap)
    (hint : s.j + 2 ≤ intMax) :
    ∃ s', argChar escape s ch = .ok s' ∧ Rep s' (aChar escape a ch) ∧ Caps s' ∧ s'.j < s'.bufcap ∧ s'.j ≤ s.j + 2 := by
  rw [argChar_eq escape s ch hint]
  obtain ⟨gr, gc, gj, gjj, gcap⟩ := grown_rep hr hc hroom
  generalize grown s = g at gr gc gj gjj gcap
  obtain ⟨args, cur, quot, esc⟩ := a
  obtain ⟨gargv, gcp, gbuf, gbufcap, gjv, gquot, gesc⟩ := g
  have e1 := gr.quot; have e2 := gr.esc; have e3 := gr.argv; have e4 := gr.j
  simp only at e1 e2 e3 e4 gj gjj gcap
  subst e1 e2 e3
  simp only []
  unfold aChar
  simp only []
  by_cases h1 : gesc = true
  · rw [if_pos h1, if_pos h1]
    obtain ⟨s1, e1, r1, c1, j1, jb, b1, k1⟩ := bufiter_rep escape ch gr gc gj
    refine ⟨{ s1 with esc := false }, ?_, ?_, ?_, jb, by simp only [] at j1 ⊢; omega⟩
    · rw [e1]; rfl
    · exact ⟨r1.buf, r1.j, r1.argv, r1.quot, rfl⟩
    · exact ⟨c1.alloc, c1.big, c1.argc, c1.cap⟩
  rw [if_neg h1, if_neg h1]
  by_cases h2 : (ch == 92) = true
  · rw [if_pos h2, if_pos h2]
    exact ⟨_, rfl, ⟨gr.buf, gr.j, gr.argv, gr.quot, rfl⟩, ⟨gc.alloc, gc.big, gc.argc, gc.cap⟩,
           by simp only []; omega, by simp only []; omega⟩
  rw [if_neg h2, if_neg h2]
  by_cases h3 : (gquot != 0) = true
  · rw [if_pos h3, if_pos h3]
    by_cases h4 : (ch == gquot) = true
    · rw [if_pos h4, if_pos h4]
      exact ⟨_, rfl, ⟨gr.buf, gr.j, gr.argv, rfl, gr.esc⟩, ⟨gc.alloc, gc.big, gc.argc, gc.cap⟩,
             by simp only []; omega, by simp only []; omega⟩
    · rw [if_neg h4, if_neg h4]
      obtain ⟨s1, e1, r1, c1, j1, jb, b1, k1⟩ := bufiter_rep escape ch gr gc gj
      exact ⟨s1, e1, r1, c1, jb, by simp only [] at j1; omega⟩
  rw [if_neg h3, if_neg h3]
  by_cases h5 : (ch == 39 || ch == 34) = true
  · rw [if_pos h5, if_pos h5]
    exact ⟨_, rfl, ⟨gr.buf, gr.j, gr.argv, rfl, gr.esc⟩, ⟨gc.alloc, gc.big, gc.argc, gc.cap⟩,
           by simp only []; omega, by simp only []; omega⟩
  rw [if_neg h5, if_neg h5]
  by_cases h6 : (ch == 32) = true
  · rw [if_pos h6, if_pos h6]
    by_cases h7 : gjv > 0
    · have h7' : cur.length > 0 := by rw [← e4]; exact h7
      rw [if_pos h7, if_pos h7']
      -- the argv growth
      have hg2 : ∃ g2 : ArgSt, (if (gargv.length == gcp) = true then
            ({ argv := gargv, cap := gcp * 2, buf := gbuf, bufcap := gbufcap, j := gjv, quot := gquot, esc := gesc } : ArgSt)
          else { argv := gargv, cap := gcp, buf := gbuf, bufcap := gbufcap, j := gjv, quot := gquot, esc := gesc }) = g2 ∧
          Rep g2 { args := gargv, cur := cur, quot := gquot, esc := gesc } ∧ Caps g2 ∧ g2.j = gjv ∧ g2.bufcap = gbufcap ∧
          g2.argv.length < g2.cap := by
        by_cases hk : (gargv.length == gcp) = true
        · rw [if_pos hk]
          have hk' : gargv.length = gcp := by simpa using hk
          have := gc.cap
          simp only at this
          exact ⟨_, rfl, ⟨gr.buf, gr.j, gr.argv, gr.quot, gr.esc⟩, ⟨gc.alloc, gc.big, by simp only []; omega, by simp only []; omega⟩,
                 rfl, rfl, by simp only []; omega⟩
        · rw [if_neg hk]
          have hk' : gargv.length ≠ gcp := by simpa using hk
          have := gc.argc
          simp only at this
          exact ⟨_, rfl, gr, gc, rfl, rfl, by simp only []; omega⟩
      obtain ⟨g2, eg2, r2, c2, j2, b2, k2⟩ := hg2
      obtain ⟨s3, e3, a3, l3, b3, k3, q3, x3⟩ := storeArg_rep r2 c2 (by omega) k2
      refine ⟨{ s3 with j := 0 }, ?_, ?_, ?_, ?_, by simp only []; omega⟩
      · rw [eg2, e3]; rfl
      · exact ⟨⟨s3.buf, rfl⟩, rfl, a3, by rw [← r2.quot]; exact q3, by rw [← r2.esc]; exact x3⟩
      · have hbig := gc.big
        simp only at hbig
        refine ⟨by simp only []; omega, by simp only []; omega, ?_, ?_⟩
        · show s3.argv.length ≤ s3.cap
          rw [a3, k3, List.length_append]
          have := r2.argv
          simp only at this
          rw [← this]; simp only [List.length_cons, List.length_nil]; omega
        · show 1 ≤ s3.cap
          rw [k3]; exact c2.cap
      · show 0 < s3.bufcap
        have hbig := gc.big
        simp only at hbig
        rw [b3, b2]; omega
    · have h7' : ¬ cur.length > 0 := by rw [← e4]; exact h7
      rw [if_neg h7, if_neg h7']
      exact ⟨_, rfl, gr, gc, by simp only []; omega, by simp only []; omega⟩
  rw [if_neg h6, if_neg h6]
  obtain ⟨s1, e1, r1, c1, j1, jb, b1, k1⟩ := bufiter_rep escape ch gr gc gj
  exact ⟨s1, e1, r1, c1, jb, by simp only [] at j1; omega⟩

theorem argLine_rep (escape : UInt8) : ∀ (line : Bytes) {s : ArgSt} {a : AState}, Rep s a → Caps s → s.j ≤ s.bufcap →
    s.j + 2 * line.length + 2 ≤ intMax →
    ∃ s', argLine escape s line = .ok s' ∧ Rep s' (aLine escape a line) ∧ Caps s' ∧ s'.j ≤ s.j + 2 * line.length ∧
      (line ≠ [] → s'.j < s'.bufcap) ∧ (line = [] → s' = s)
  | [], s, a, hr, hc, _, _ => ⟨s, rfl, hr, hc, by simp, fun h => absurd rfl h, fun _ => rfl⟩
  | ch :: rest, s, a, hr, hc, hroom, hint => by
    have hint1 : s.j + 2 ≤ intMax := by simp only [List.length_cons] at hint; omega
    obtain ⟨s1, e1, r1, c1, j1, jj1⟩ := argChar_rep escape ch hr hc hroom hint1
    have hint2 : s1.j + 2 * rest.length + 2 ≤ intMax := by simp only [List.length_cons] at hint; omega
    obtain ⟨s2, e2, r2, c2, j2, n2, z2⟩ := argLine_rep escape rest r1 c1 (Nat.le_of_lt j1) hint2
    refine ⟨s2, ?_, r2, c2, by simp only [List.length_cons]; omega, ?_, fun h => by cases h⟩
    · show (argChar escape s ch).bind _ = _
      rw [e1]; exact e2
    · intro _
      by_cases hr0 : rest = []
      · rw [z2 hr0]; exact j1
      · exact n2 hr0

/-- the allocation of `more_final` is as large as the code believes -/
def MfWf (m : MoreFinal) : Prop :=
  match m.mem with
  | none => True
  | some mem => mem.length = m.cap ∧ m.pos ≤ m.cap

theorem snprintfAt_ok : ∀ (text : Bytes) (mem : List UInt8) (off size : Nat), text.length + 1 ≤ size →
    off + text.length + 1 ≤ mem.length → ∃ mem', snprintfAt mem off size text = .ok mem' ∧ mem'.length = mem.length
  | [], mem, off, size, hs, hl => by
    have hw := wr_ok (mem := mem) (i := off) 0 "snprintf: terminator" (by simp at hl; omega)
    match size, hs with
    | 1, _ => exact ⟨_, by unfold snprintfAt; exact hw, List.length_set⟩
    | n + 2, _ => exact ⟨_, by unfold snprintfAt; exact hw, List.length_set⟩
  | c :: rest, mem, off, size, hs, hl => by
    simp only [List.length_cons] at hs hl
    match size, hs with
    | n + 2, hs =>
      have hw := wr_ok (mem := mem) (i := off) c "snprintf: character" (by omega)
      obtain ⟨m2, e2, l2⟩ := snprintfAt_ok rest (mem.set off c) (off + 1) (n + 1) (by omega) (by rw [List.length_set]; omega)
      refine ⟨m2, ?_, by rw [l2, List.length_set]⟩
      unfold snprintfAt
      show (wr mem off c "snprintf: character").bind _ = _
      rw [hw]; exact e2

theorem mfInit_ok (m : MoreFinal) (arg : Bytes) (h : MfWf m) :
    ∃ m', mfInit m arg = .ok m' ∧ MfWf m' ∧ m'.mem ≠ none := by
  unfold mfInit
  have key : ∀ (mem : List UInt8) (cap : Nat), mem.length = cap → arg.length + 1 ≤ cap →
      ∃ m', (do let mem ← snprintfAt mem 0 cap arg
                pure ({ mem := some mem, cap := cap, pos := arg.length + 1, lines := 0 } : MoreFinal) : KM MoreFinal) = .ok m' ∧
        MfWf m' ∧ m'.mem ≠ none := by
    intro mem cap hl hc
    obtain ⟨m2, e2, l2⟩ := snprintfAt_ok arg mem 0 cap hc (by omega)
    refine ⟨_, by rw [e2]; rfl, ?_, by simp⟩
    show m2.length = cap ∧ arg.length + 1 ≤ cap
    exact ⟨by rw [l2, hl], hc⟩
  cases hm : m.mem with
  | none => exact key _ _ (malloc_length _) (Nat.le_refl _)
  | some mem =>
    unfold MfWf at h
    rw [hm] at h
    simp only []
    by_cases hc : m.cap < arg.length + 1
    · simp only [if_pos hc]
      exact key _ _ (realloc_length _ _) (Nat.le_refl _)
    · simp only [if_neg hc]
      exact key _ _ h.1 (by omega)

theorem mfAppend_ok (m : MoreFinal) (line : Bytes) (nl : Bool) (h : MfWf m) (hn : m.mem ≠ none) :
    ∃ m', mfAppend m line nl = .ok m' ∧ MfWf m' ∧ m'.mem ≠ none := by
  unfold mfAppend
  cases hm : m.mem with
  | none => exact absurd hm hn
  | some mem =>
    unfold MfWf at h
    rw [hm] at h
    simp only []
    have key : ∀ (mem2 : List UInt8) (cap2 : Nat), mem2.length = cap2 →
        m.pos + line.length + 1 + (if nl = true then 1 else 0) ≤ cap2 →
        ∃ m', (if m.pos > mem2.length then abn "_more_final_append: &more_final[more_final_pos]" else do
                let mem ← snprintfAt mem2 m.pos cap2 ((if nl = true then [10] else []) ++ line)
                pure ({ mem := some mem, cap := cap2, pos := m.pos + ((if nl = true then [10] else []) ++ line).length,
                        lines := m.lines + 1 } : MoreFinal) : KM MoreFinal) = .ok m' ∧ MfWf m' ∧ m'.mem ≠ none := by
      intro mem2 cap2 hl hc
      have htl : ((if nl = true then [10] else []) ++ line : Bytes).length = line.length + (if nl = true then 1 else 0) := by
        cases nl <;> simp <;> omega
      rw [if_neg (by omega)]
      obtain ⟨m2, e2, l2⟩ := snprintfAt_ok ((if nl = true then [10] else []) ++ line) mem2 m.pos cap2 (by omega) (by omega)
      refine ⟨_, by rw [e2]; rfl, ?_, by simp⟩
      show m2.length = cap2 ∧ m.pos + _ ≤ cap2
      exact ⟨by rw [l2, hl], by omega⟩
    by_cases hc : m.cap < m.pos + line.length + 1 + (if nl = true then 1 else 0)
    · simp only [if_pos hc]
      exact key _ _ (realloc_length _ _) (Nat.le_refl _)
    · simp only [if_neg hc]
      exact key _ _ h.1 (by omega)

/-- bound on what the call can append to `buf`: two bytes per character, one newline per line -/
def budget (line : Bytes) (more : List Bytes) : Nat :=
  2 * line.length + 1 + (more.map (fun l => 2 * l.length + 1)).sum

def resOpt : ArgRes → Option (List Bytes)
  | .ok v => some v
  | .abort => none

theorem argFinish_rep {s : ArgSt} {a : AState} (hr : Rep s a) (hc : Caps s) (hj : s.j < s.bufcap) :
    argFinish s = .ok (aFinish a) := by
  unfold argFinish aFinish
  by_cases h : s.j > 0
  · have h' : a.cur.length > 0 := by rw [← hr.j]; exact h
    rw [if_pos h, if_pos h']
    have hg2 : ∃ g2 : ArgSt, (if (s.argv.length == s.cap) = true then { s with cap := s.cap + 1 } else s) = g2 ∧
        Rep g2 a ∧ Caps g2 ∧ g2.j = s.j ∧ g2.bufcap = s.bufcap ∧ g2.argv.length < g2.cap := by
      by_cases hk : (s.argv.length == s.cap) = true
      · rw [if_pos hk]
        have hk' : s.argv.length = s.cap := by simpa using hk
        exact ⟨_, rfl, ⟨hr.buf, hr.j, hr.argv, hr.quot, hr.esc⟩, ⟨hc.alloc, hc.big, by simp only []; omega, by simp only []; omega⟩,
               rfl, rfl, by simp only []; omega⟩
      · rw [if_neg hk]
        have hk' : s.argv.length ≠ s.cap := by simpa using hk
        have := hc.argc
        exact ⟨_, rfl, hr, hc, rfl, rfl, by omega⟩
    obtain ⟨g2, eg2, r2, c2, j2, b2, k2⟩ := hg2
    obtain ⟨s3, e3, a3, _⟩ := storeArg_rep r2 c2 (by omega) k2
    simp only [bind, Except.bind, pure, Except.pure]
    rw [eg2, e3]
    show Except.ok s3.argv = _
    rw [a3]
  · have h' : ¬ a.cur.length > 0 := by rw [← hr.j]; exact h
    rw [if_neg h, if_neg h', hr.argv]
    rfl

/-- the abstract state after the line break of a continuation -/
def aNewline (a : AState) : AState := if aAddNl a then { a with cur := a.cur ++ [10] } else a

theorem contNewline_rep {s : ArgSt} {a : AState} (hr : Rep s a) (hc : Caps s) (hroom : Room s a) (hint : s.j + 2 ≤ intMax) :
    ∃ s', contNewline s = .ok (aAddNl a, s') ∧ Rep s' (aNewline a) ∧ Caps s' ∧ Room s' (aNewline a) ∧ s'.j ≤ s.j + 1
      ∧ s'.quot = s.quot := by
  unfold contNewline aNewline aAddNl
  have hqq : (a.quot != 0) = (s.quot != 0) := by rw [hr.quot]
  rw [hqq]
  by_cases hq : (s.quot != 0) = true
  · rw [if_pos hq, if_pos hq, chkInt_ok hint]
    obtain ⟨gr, gc, gj, gjj, gcap⟩ := grown_rep hr hc (Nat.le_of_lt hroom)
    simp only [bind, Except.bind]
    have hg : (if s.bufcap ≤ s.j + 2 then { s with bufcap := s.bufcap * 2, buf := realloc s.buf (s.bufcap * 2) } else s) = grown s := rfl
    rw [hg]
    obtain ⟨s1, e1, r1, c1, j1, b1, k1⟩ := bufPut_rep 10 gr gc (by omega)
    rw [e1]
    refine ⟨s1, by rw [hq]; rfl, r1, c1, ?_, by omega, ?_⟩
    · show s1.j < s1.bufcap
      omega
    · have h1 := r1.quot
      have h2 := hr.quot
      simp only at h1
      rw [h1, h2]
  · rw [if_neg hq, if_neg hq]
    have hq' : (s.quot != 0) = false := by simpa using hq
    exact ⟨s, by rw [hq']; rfl, hr, hc, hroom, by omega, rfl⟩

theorem budget_cons (line l : Bytes) (rest : List Bytes) :
    budget line (l :: rest) = 2 * line.length + 1 + budget l rest := by
  unfold budget
  simp only [List.map_cons, List.sum_cons]

/-- the whole `while (1)` loop, across continuation lines.  `P` is any property of `more_final` that `_more_final_append`
    keeps (and under which it succeeds). -/
theorem argLoop_rep_gen (P : MoreFinal → Prop) (hstep : ∀ m l b, P m → ∃ m', mfAppend m l b = .ok m' ∧ P m')
    (rl : Bool) (escape : UInt8) : ∀ (more : List Bytes) (line : Bytes) (mf : MoreFinal) (s : ArgSt) (a : AState)
    (prompts : List Char), Rep s a → Caps s → Room s a → P mf →
    s.j + budget line more + 1 ≤ intMax →
    ∃ o, argLoop rl escape mf s line more prompts = .ok o ∧ (resOpt o.res, o.rest) = aLoop rl escape a line more ∧
      P o.mf := by
  intro more
  induction more with
  | nil =>
    intro line mf s a prompts hr hc hroom hmf hint
    have hb : budget line [] = 2 * line.length + 1 := by simp [budget]
    obtain ⟨s1, e1, r1, c1, j1, n1, z1⟩ := argLine_rep escape line hr hc (Nat.le_of_lt hroom) (by omega)
    have hroom1 : Room s1 (aLine escape a line) := by
      by_cases hl : line = []
      · rw [z1 hl]; exact hroom
      · exact n1 hl
    unfold argLoop aLoop
    rw [chkInt_ok (by omega)]
    simp only [bind, Except.bind]
    rw [e1]
    simp only []
    rw [r1.quot, r1.esc]
    by_cases hcont : (rl && ((aLine escape a line).quot != 0 || (aLine escape a line).esc)) = true
    · rw [if_pos hcont, if_pos hcont]
      obtain ⟨s2, e2, r2, c2, m2, j2, q2⟩ := contNewline_rep r1 c1 hroom1 (by omega)
      rw [e2]
      exact ⟨_, rfl, rfl, hmf⟩
    · rw [if_neg hcont, if_neg hcont]
      rw [argFinish_rep r1 c1 hroom1]
      exact ⟨_, rfl, rfl, hmf⟩
  | cons l rest ih =>
    intro line mf s a prompts hr hc hroom hmf hint
    rw [budget_cons] at hint
    obtain ⟨s1, e1, r1, c1, j1, n1, z1⟩ := argLine_rep escape line hr hc (Nat.le_of_lt hroom) (by omega)
    have hroom1 : Room s1 (aLine escape a line) := by
      by_cases hl : line = []
      · rw [z1 hl]; exact hroom
      · exact n1 hl
    unfold argLoop aLoop
    rw [chkInt_ok (by omega)]
    simp only [bind, Except.bind]
    rw [e1]
    simp only []
    rw [r1.quot, r1.esc]
    by_cases hcont : (rl && ((aLine escape a line).quot != 0 || (aLine escape a line).esc)) = true
    · rw [if_pos hcont, if_pos hcont]
      obtain ⟨s2, e2, r2, c2, m2, j2, q2⟩ := contNewline_rep r1 c1 hroom1 (by omega)
      rw [e2]
      simp only []
      obtain ⟨mf2, em, wm⟩ := hstep mf l (aAddNl (aLine escape a line)) hmf
      rw [em]
      simp only []
      obtain ⟨o, eo, ro, wo⟩ := ih l mf2 s2 (aNewline (aLine escape a line)) (prompts ++ [contPrompt s2.quot]) r2 c2 m2
        wm (by omega)
      exact ⟨o, eo, by rw [ro]; rfl, wo⟩
    · rw [if_neg hcont, if_neg hcont]
      rw [argFinish_rep r1 c1 hroom1]
      exact ⟨_, rfl, rfl, hmf⟩

theorem argLoop_rep (rl : Bool) (escape : UInt8) (more : List Bytes) (line : Bytes) (mf : MoreFinal) (s : ArgSt) (a : AState)
    (prompts : List Char) (hr : Rep s a) (hc : Caps s) (hroom : Room s a) (hmf : MfWf mf)
    (hmn : mf.mem ≠ none) (hint : s.j + budget line more + 1 ≤ intMax) :
    ∃ o, argLoop rl escape mf s line more prompts = .ok o ∧ (resOpt o.res, o.rest) = aLoop rl escape a line more ∧
      MfWf o.mf ∧ o.mf.mem ≠ none := by
  obtain ⟨o, e, r, w⟩ := argLoop_rep_gen (fun m => MfWf m ∧ m.mem ≠ none)
    (fun m l b h => by obtain ⟨m', e, w, n⟩ := mfAppend_ok m l b h.1 h.2; exact ⟨m', e, w, n⟩)
    rl escape more line mf s a prompts hr hc hroom ⟨hmf, hmn⟩ hint
  exact ⟨o, e, r, w.1, w.2⟩

/-- the initial state of `kerl_make_argcv_escape` -/
theorem initial_rep : Rep ({} : ArgSt) ({} : AState) ∧ Caps ({} : ArgSt) ∧ Room ({} : ArgSt) ({} : AState) :=
  ⟨⟨⟨malloc 1024, rfl⟩, rfl, rfl, rfl, rfl⟩, ⟨malloc_length 1024, by decide, by decide, by decide⟩, (by decide : (0 : Nat) < 1024)⟩

theorem makeArgcvEscape_rep (rl : Bool) (escape : UInt8) (mf : MoreFinal) (arg : Bytes) (more : List Bytes) (hmf : MfWf mf)
    (hint : budget arg more + 1 ≤ intMax) :
    ∃ o, makeArgcvEscape rl escape mf arg more = .ok o ∧ (resOpt o.res, o.rest) = aLoop rl escape {} arg more ∧
      MfWf o.mf ∧ o.mf.mem ≠ none := by
  unfold makeArgcvEscape
  obtain ⟨mf1, e1, w1, n1⟩ := mfInit_ok mf arg hmf
  simp only [bind, Except.bind]
  rw [e1]
  simp only []
  obtain ⟨hr, hc, hroom⟩ := initial_rep
  exact argLoop_rep rl escape more arg mf1 {} {} [] hr hc hroom w1 n1 (by simpa using hint)

open Btcdeb.Spec.Kerl (Role Lex classify groups wordsOfRoles protect complete logical)

theorem groups_ne_nil (r : List Role) : groups r ≠ [] := by
  induction r with
  | nil => simp [groups]
  | cons x xs ih =>
    cases x with
    | lit c =>
      unfold groups
      split <;> simp
    | sep => simp [groups]
    | mark => simpa [groups] using ih

/-- every group list has a last group -/
theorem groups_snoc_form (r : List Role) : ∃ pre g, groups r = pre ++ [g] := by
  have h := groups_ne_nil r
  exact ⟨(groups r).dropLast, (groups r).getLast h, (List.dropLast_concat_getLast h).symm⟩

theorem groups_snoc_mark : ∀ (r : List Role), groups (r ++ [.mark]) = groups r
  | [] => by simp [groups]
  | .sep :: r => by simp [groups, groups_snoc_mark r]
  | .mark :: r => by simp [groups, groups_snoc_mark r]
  | .lit c :: r => by simp [groups, groups_snoc_mark r]

theorem groups_snoc_sep : ∀ (r : List Role), groups (r ++ [.sep]) = groups r ++ [[]]
  | [] => by simp [groups]
  | .sep :: r => by simp [groups, groups_snoc_sep r]
  | .mark :: r => by simp [groups, groups_snoc_sep r]
  | .lit c :: r => by
    simp only [List.cons_append, groups, groups_snoc_sep r]
    cases h : groups r with
    | nil => exact absurd h (groups_ne_nil r)
    | cons g gs => simp

theorem groups_snoc_lit (c : UInt8) : ∀ (r : List Role) (pre : List Bytes) (g : Bytes), groups r = pre ++ [g] →
    groups (r ++ [.lit c]) = pre ++ [g ++ [c]]
  | [], pre, g, h => by
    simp only [groups] at h
    cases pre with
    | nil => simp only [List.nil_append, List.cons.injEq, and_true] at h; subst h; simp [groups]
    | cons p ps => simp at h
  | .sep :: r, pre, g, h => by
    simp only [groups] at h
    cases pre with
    | nil =>
      simp only [List.nil_append, List.cons.injEq] at h
      exact absurd h.2 (groups_ne_nil r)
    | cons p ps =>
      simp only [List.cons_append, List.cons.injEq] at h
      simp only [List.cons_append, groups, groups_snoc_lit c r ps g h.2, h.1]
  | .mark :: r, pre, g, h => by
    simp only [groups] at h
    simp only [List.cons_append, groups, groups_snoc_lit c r pre g h]
  | .lit d :: r, pre, g, h => by
    obtain ⟨p', g', hr⟩ := groups_snoc_form r
    have ih := groups_snoc_lit c r p' g' hr
    simp only [List.cons_append, groups, ih]
    simp only [groups, hr] at h
    cases p' with
    | nil =>
      simp only [List.nil_append] at h ⊢
      cases pre with
      | nil => simp only [List.nil_append, List.cons.injEq, and_true] at h; subst h; simp
      | cons p ps => simp at h
    | cons q qs =>
      simp only [List.cons_append] at h ⊢
      cases pre with
      | nil => simp at h
      | cons p ps =>
        simp only [List.cons_append, List.cons.injEq] at h
        obtain ⟨h1, h2⟩ := h
        have := List.append_inj' h2 rfl
        simp only [List.cons.injEq, and_true] at this
        rw [← h1, ← this.1, ← this.2]; rfl

theorem piece_eq_protect (e c : UInt8) : piece e c = protect e [c] := by
  simp [piece, protect]

theorem protect_append (e : UInt8) (x y : Bytes) : protect e (x ++ y) = protect e x ++ protect e y := by
  simp [protect, List.flatMap_append]

theorem piece_ne_nil (e c : UInt8) : piece e c ≠ [] := by
  unfold piece; split <;> simp

theorem piece_getLast (e c : UInt8) : (piece e c).getLast? = some c := by
  unfold piece; split <;> simp

theorem protect_eq_nil (e : UInt8) (g : Bytes) : protect e g = [] ↔ g = [] := by
  cases g with
  | nil => simp [protect]
  | cons c cs =>
    simp only [protect, List.flatMap_cons]
    constructor
    · intro h
      have := List.append_eq_nil_iff.mp h
      split at this <;> simp at this
    · intro h; cases h

/-- the machine state `a` is what the roles `acc` describe -/
structure Abs (e : UInt8) (acc : List Role) (a : AState) : Prop where
  ex : ∃ pre g, groups acc = pre ++ [g] ∧ a.cur = protect e g ∧ a.args = (pre.filter (fun g => !g.isEmpty)).map (protect e)
  nul : (0 : UInt8) ∉ a.cur

def lexOf (a : AState) : Lex := { quote := if a.quot == 0 then none else some a.quot, escaped := a.esc }

/-- the role of one character (the body of `classify`) -/
def stepRole (lx : Lex) (c : UInt8) : Role × Lex :=
  if lx.escaped then (.lit c, { lx with escaped := false })
  else if c == 92 then (.mark, { lx with escaped := true })
  else match lx.quote with
    | some q => if c == q then (.mark, { lx with quote := none }) else (.lit c, lx)
    | none =>
      if c == 39 || c == 34 then (.mark, { lx with quote := some c })
      else if c == 32 then (.sep, lx)
      else (.lit c, lx)

theorem classify_cons (lx : Lex) (c : UInt8) (rest : Bytes) :
    classify lx (c :: rest) = ((stepRole lx c).1 :: (classify (stepRole lx c).2 rest).1, (classify (stepRole lx c).2 rest).2) := by
  rfl

theorem abs_lit {e : UInt8} {acc : List Role} {a : AState} (ch : UInt8) (hch : ch ≠ 0) (ha : Abs e acc a) :
    Abs e (acc ++ [.lit ch]) { a with cur := a.cur ++ piece e ch } := by
  obtain ⟨pre, g, hg, hcur, hargs⟩ := ha.ex
  refine ⟨⟨pre, g ++ [ch], groups_snoc_lit ch acc pre g hg, ?_, hargs⟩, ?_⟩
  · show a.cur ++ piece e ch = _
    rw [protect_append, hcur, piece_eq_protect]
  · show (0 : UInt8) ∉ a.cur ++ piece e ch
    intro hm
    rcases List.mem_append.mp hm with h | h
    · exact ha.nul h
    · unfold piece at h
      split at h
      · simp only [List.mem_cons, List.not_mem_nil, or_false] at h
        rcases h with h | h
        · exact absurd h (by decide)
        · exact hch h.symm
      · simp only [List.mem_cons, List.not_mem_nil, or_false] at h
        exact hch h.symm

theorem abs_mark {e : UInt8} {acc : List Role} {a : AState} (q : UInt8) (x : Bool) (ha : Abs e acc a) :
    Abs e (acc ++ [.mark]) { a with quot := q, esc := x } := by
  obtain ⟨pre, g, hg, hcur, hargs⟩ := ha.ex
  exact ⟨⟨pre, g, by rw [groups_snoc_mark]; exact hg, hcur, hargs⟩, ha.nul⟩

theorem aChar_abs {e : UInt8} {acc : List Role} {a : AState} (ch : UInt8) (hch : ch ≠ 0) (ha : Abs e acc a) :
    Abs e (acc ++ [(stepRole (lexOf a) ch).1]) (aChar e a ch) ∧ lexOf (aChar e a ch) = (stepRole (lexOf a) ch).2 := by
  unfold aChar stepRole
  have hesc : (lexOf a).escaped = a.esc := rfl
  rw [hesc]
  by_cases h1 : a.esc = true
  · rw [if_pos h1, if_pos h1]
    refine ⟨?_, ?_⟩
    · have := abs_lit (e := e) ch hch ha
      exact ⟨this.ex, this.nul⟩
    · simp [lexOf]
  rw [if_neg h1, if_neg h1]
  by_cases h2 : (ch == 92) = true
  · rw [if_pos h2, if_pos h2]
    refine ⟨?_, ?_⟩
    · have := abs_mark (e := e) a.quot true ha
      exact ⟨this.ex, this.nul⟩
    · simp [lexOf]
  rw [if_neg h2, if_neg h2]
  by_cases h3 : (a.quot != 0) = true
  · have hq0 : (a.quot == 0) = false := by simpa using h3
    have hq : (lexOf a).quote = some a.quot := by simp [lexOf, hq0]
    rw [if_pos h3, hq]
    simp only []
    by_cases h4 : (ch == a.quot) = true
    · rw [if_pos h4, if_pos h4]
      refine ⟨?_, ?_⟩
      · have := abs_mark (e := e) 0 a.esc ha
        exact ⟨this.ex, this.nul⟩
      · simp [lexOf]
    · rw [if_neg h4, if_neg h4]
      refine ⟨?_, rfl⟩
      have := abs_lit (e := e) ch hch ha
      exact ⟨this.ex, this.nul⟩
  have hq0 : (a.quot == 0) = true := by simpa using h3
  have hq : (lexOf a).quote = none := by simp [lexOf, hq0]
  rw [if_neg h3, hq]
  simp only []
  by_cases h5 : (ch == 39 || ch == 34) = true
  · rw [if_pos h5, if_pos h5]
    refine ⟨?_, ?_⟩
    · have := abs_mark (e := e) ch a.esc ha
      exact ⟨this.ex, this.nul⟩
    · have : (ch == 0) = false := by simpa using hch
      simp [lexOf, this]
  rw [if_neg h5, if_neg h5]
  by_cases h6 : (ch == 32) = true
  · rw [if_pos h6, if_pos h6]
    obtain ⟨pre, g, hg, hcur, hargs⟩ := ha.ex
    by_cases h7 : a.cur.length > 0
    · rw [if_pos h7]
      refine ⟨⟨⟨pre ++ [g], [], by rw [groups_snoc_sep, hg], by simp [protect], ?_⟩, by simp⟩, rfl⟩
      · show a.args ++ [cstrOf a.cur] = _
        have hgne : g ≠ [] := by
          intro h0; rw [h0] at hcur; simp [protect] at hcur; rw [hcur] at h7; simp at h7
        have : cstrOf a.cur = a.cur := takeWhile_ne0_of_not_mem ha.nul
        rw [this, hargs, List.filter_append, List.map_append, hcur]
        cases g with
        | nil => exact absurd rfl hgne
        | cons c cs => simp
    · rw [if_neg h7]
      have hc0 : a.cur = [] := by
        cases hc : a.cur with
        | nil => rfl
        | cons c cs => rw [hc] at h7; simp at h7
      have hg0 : g = [] := (protect_eq_nil e g).mp (by rw [← hcur]; exact hc0)
      refine ⟨⟨⟨pre ++ [g], [], by rw [groups_snoc_sep, hg], by rw [hc0]; simp [protect], ?_⟩, ha.nul⟩, rfl⟩
      · rw [hargs, hg0]; simp
  rw [if_neg h6, if_neg h6]
  refine ⟨?_, rfl⟩
  have := abs_lit (e := e) ch hch ha
  exact ⟨this.ex, this.nul⟩

theorem aLine_abs (e : UInt8) : ∀ (t : Bytes) (acc : List Role) (a : AState), (0 : UInt8) ∉ t → Abs e acc a →
    Abs e (acc ++ (classify (lexOf a) t).1) (aLine e a t) ∧ lexOf (aLine e a t) = (classify (lexOf a) t).2
  | [], acc, a, _, ha => by simpa [classify, aLine] using ha
  | c :: rest, acc, a, hn, ha => by
    have hc : c ≠ 0 := fun h => hn (by rw [h]; exact List.mem_cons_self)
    have hr : (0 : UInt8) ∉ rest := fun h => hn (List.mem_cons_of_mem _ h)
    obtain ⟨h1, h2⟩ := aChar_abs (e := e) c hc ha
    obtain ⟨h3, h4⟩ := aLine_abs e rest _ _ hr h1
    rw [classify_cons]
    simp only [aLine]
    rw [h2] at h3 h4
    refine ⟨?_, h4⟩
    have : acc ++ (stepRole (lexOf a) c).1 :: (classify (stepRole (lexOf a) c).2 rest).1 =
        acc ++ [(stepRole (lexOf a) c).1] ++ (classify (stepRole (lexOf a) c).2 rest).1 := by simp
    rw [this]; exact h3

theorem aFinish_abs {e : UInt8} {acc : List Role} {a : AState} (ha : Abs e acc a) :
    aFinish a = (wordsOfRoles acc).map (protect e) := by
  obtain ⟨pre, g, hg, hcur, hargs⟩ := ha.ex
  unfold aFinish wordsOfRoles
  rw [hg, List.filter_append, List.map_append, ← hargs]
  have hcs : cstrOf a.cur = a.cur := takeWhile_ne0_of_not_mem ha.nul
  by_cases h7 : a.cur.length > 0
  · rw [if_pos h7, hcs]
    have hgne : g ≠ [] := by
      intro h0; rw [h0] at hcur; simp [protect] at hcur; rw [hcur] at h7; simp at h7
    cases g with
    | nil => exact absurd rfl hgne
    | cons c cs => simp [hcur]
  · rw [if_neg h7]
    have hc0 : a.cur = [] := by
      cases hc : a.cur with
      | nil => rfl
      | cons c cs => rw [hc] at h7; simp at h7
    have hg0 : g = [] := (protect_eq_nil e g).mp (by rw [← hcur]; exact hc0)
    rw [hg0]; simp

/-- the outcome the rule describes, in the shape of `aLoop` -/
def specOut (e : UInt8) : Option (List Role × List Bytes) → Option (List Bytes) × List Bytes
  | none => (none, [])
  | some (r, rest) => (some ((wordsOfRoles r).map (protect e)), rest)

theorem abs_empty (e : UInt8) : Abs e [] {} :=
  ⟨⟨[], [], rfl, rfl, rfl⟩, by simp⟩

theorem lexOf_complete (a : AState) : (a.quot != 0 || a.esc) = !complete (lexOf a) := by
  unfold complete lexOf
  by_cases h : (a.quot == 0) = true
  · have : (a.quot != 0) = false := by simpa using h
    simp [h, this]
  · have h' : (a.quot == 0) = false := by simpa using h
    have : (a.quot != 0) = true := by simpa using h
    simp [h', this]

theorem aLoop_single (e : UInt8) (acc : List Role) (a : AState) (line : Bytes) (more : List Bytes) (hn : (0 : UInt8) ∉ line)
    (ha : Abs e acc a) :
    aLoop false e a line more = (some ((wordsOfRoles (acc ++ (classify (lexOf a) line).1)).map (protect e)), more) := by
  unfold aLoop
  simp only [Bool.false_and]
  rw [aFinish_abs (aLine_abs e line acc a hn ha).1]
  rfl

theorem lexOf_quote_isSome (a : AState) : (lexOf a).quote.isSome = (a.quot != 0) := by
  unfold lexOf
  by_cases h : (a.quot == 0) = true
  · have : (a.quot != 0) = false := by simpa using h
    simp [h, this]
  · have h' : (a.quot == 0) = false := by simpa using h
    have : (a.quot != 0) = true := by simpa using h
    simp [h', this]

theorem aLoop_spec (e : UInt8) (he : e ≠ 10) : ∀ (more : List Bytes) (line : Bytes) (acc : List Role) (a : AState),
    (0 : UInt8) ∉ line → (∀ l ∈ more, (0 : UInt8) ∉ l) → Abs e acc a →
    aLoop true e a line more = specOut e (logical (lexOf a) acc line more) := by
  intro more
  induction more with
  | nil =>
    intro line acc a hn _ ha
    obtain ⟨h1, h2⟩ := aLine_abs e line acc a hn ha
    unfold aLoop logical
    simp only [Bool.true_and]
    rw [lexOf_complete, h2]
    by_cases hc : complete (classify (lexOf a) line).2 = true
    · simp only [hc, Bool.not_true]
      rw [aFinish_abs h1]
      rfl
    · have hc' : complete (classify (lexOf a) line).2 = false := by simpa using hc
      simp only [hc', Bool.not_false]
      rfl
  | cons l rest ih =>
    intro line acc a hn hm ha
    obtain ⟨h1, h2⟩ := aLine_abs e line acc a hn ha
    unfold aLoop logical
    simp only [Bool.true_and]
    rw [lexOf_complete, h2]
    by_cases hc : complete (classify (lexOf a) line).2 = true
    · simp only [hc, Bool.not_true]
      rw [aFinish_abs h1]
      rfl
    · have hc' : complete (classify (lexOf a) line).2 = false := by simpa using hc
      simp only [hc', Bool.not_false]
      simp only [if_true, Bool.false_eq_true, if_false]
      -- the newline decision: a quoted stretch is open
      have hadd : aAddNl (aLine e a line) = (classify (lexOf a) line).2.quote.isSome := by
        unfold aAddNl
        rw [← h2, lexOf_quote_isSome]
      rw [← hadd]
      have hl : (0 : UInt8) ∉ l := hm l List.mem_cons_self
      have hrest : ∀ x ∈ rest, (0 : UInt8) ∉ x := fun x hx => hm x (List.mem_cons_of_mem _ hx)
      by_cases hnl : aAddNl (aLine e a line) = true
      · simp only [hnl, if_true]
        have hab : Abs e (acc ++ (classify (lexOf a) line).1 ++ [.lit 10]) { (aLine e a line) with cur := (aLine e a line).cur ++ [10] } := by
          have := abs_lit (e := e) 10 (by decide) h1
          have hp : piece e 10 = [10] := by
            unfold piece
            have : ((10 : UInt8) == e) = false := by
              simp only [beq_eq_false_iff_ne, ne_eq]; exact fun h => he h.symm
            rw [this]; rfl
          rw [hp] at this
          exact this
        have := ih l _ _ hl hrest hab
        rw [this]
        congr 2
      · have hnl' : aAddNl (aLine e a line) = false := by simpa using hnl
        simp only [hnl', Bool.false_eq_true, if_false]
        have := ih l _ _ hl hrest h1
        rw [this, h2]

open Btcdeb.Spec.Kerl (words)

/-- a character that is neither blank-separator, quote nor backslash -/
def plainChar (c : UInt8) : Bool := c != 32 && c != 39 && c != 34 && c != 92

theorem classify_plain : ∀ (w : Bytes), (∀ c ∈ w, plainChar c = true) → classify {} w = (w.map .lit, {})
  | [], _ => rfl
  | c :: rest, h => by
    have hc := h c List.mem_cons_self
    have hr := classify_plain rest (fun x hx => h x (List.mem_cons_of_mem _ hx))
    unfold plainChar at hc
    simp only [Bool.and_eq_true, bne_iff_ne, ne_eq] at hc
    obtain ⟨⟨⟨h32, h39⟩, h34⟩, h92⟩ := hc
    rw [classify_cons]
    have hs : stepRole {} c = (.lit c, {}) := by
      unfold stepRole
      have e1 : (c == 92) = false := by simpa using h92
      have e2 : (c == 39 || c == 34) = false := by simp [h39, h34]
      have e3 : (c == 32) = false := by simpa using h32
      simp [e1, e2, e3]
    rw [hs, hr]
    rfl

theorem classify_append (t2 : Bytes) : ∀ (t1 : Bytes) (lx : Lex),
    classify lx (t1 ++ t2) = ((classify lx t1).1 ++ (classify (classify lx t1).2 t2).1, (classify (classify lx t1).2 t2).2)
  | [], lx => by simp [classify]
  | c :: rest, lx => by
    rw [List.cons_append, classify_cons, classify_append t2 rest, classify_cons]
    simp

theorem groups_lits (w : Bytes) (r : List Role) : groups (w.map .lit ++ r) = (w ++ (groups r).head (groups_ne_nil r)) :: (groups r).tail := by
  induction w with
  | nil =>
    simp only [List.map_nil, List.nil_append]
    first
      | exact (List.cons_head_tail (groups_ne_nil r)).symm
      | exact (List.head_cons_tail _ (groups_ne_nil r)).symm
  | cons c cs ih =>
    simp only [List.map_cons, List.cons_append, groups, ih]

/-- words separated by single spaces -/
def joinWords : List Bytes → Bytes
  | [] => []
  | [w] => w
  | w :: rest => w ++ 32 :: joinWords rest

theorem words_joinWords : ∀ (ws : List Bytes), (∀ w ∈ ws, w ≠ [] ∧ ∀ c ∈ w, plainChar c = true) → words (joinWords ws) = ws := by
  intro ws h
  have key : ∀ (ws : List Bytes), (∀ w ∈ ws, w ≠ [] ∧ ∀ c ∈ w, plainChar c = true) →
      classify {} (joinWords ws) = ((classify {} (joinWords ws)).1, {}) ∧ wordsOfRoles (classify {} (joinWords ws)).1 = ws := by
    intro ws
    induction ws with
    | nil => intro _; exact ⟨rfl, rfl⟩
    | cons w rest ih =>
      intro h
      obtain ⟨hne, hp⟩ := h w List.mem_cons_self
      have hrest := ih (fun x hx => h x (List.mem_cons_of_mem _ hx))
      cases rest with
      | nil =>
        simp only [joinWords]
        rw [classify_plain w hp]
        refine ⟨rfl, ?_⟩
        have := groups_lits w []
        simp only [List.append_nil] at this
        unfold wordsOfRoles
        rw [this]
        cases w with
        | nil => exact absurd rfl hne
        | cons c cs => simp [groups]
      | cons w2 rest2 =>
        simp only [joinWords]
        have hsep : classify {} (32 :: joinWords (w2 :: rest2)) =
            (.sep :: (classify {} (joinWords (w2 :: rest2))).1, (classify {} (joinWords (w2 :: rest2))).2) := by
          rw [classify_cons]
          have : stepRole {} 32 = (.sep, {}) := by decide
          rw [this]
        rw [classify_append, classify_plain w hp, hsep]
        simp only []
        rw [hrest.1]
        refine ⟨rfl, ?_⟩
        unfold wordsOfRoles
        rw [groups_lits]
        simp only [groups, List.head_cons, List.append_nil, List.tail_cons]
        have h2 := hrest.2
        unfold wordsOfRoles at h2
        rw [List.filter_cons, h2]
        cases w with
        | nil => exact absurd rfl hne
        | cons c cs => simp
  exact (key ws h).2

theorem all_takeWhile {α : Type} (p : α → Bool) : ∀ (l : List α), ∀ c ∈ l.takeWhile p, p c = true
  | [], c, h => by simp at h
  | x :: xs, c, h => by
    rw [List.takeWhile_cons] at h
    split at h
    · rcases List.mem_cons.mp h with h | h
      · rw [h]; assumption
      · exact all_takeWhile p xs c h
    · simp at h

theorem dropWhile_head_not {α : Type} (p : α → Bool) (l : List α) : l.dropWhile p = [] ∨ ∃ x xs, l.dropWhile p = x :: xs ∧ p x = false := by
  cases h : l.dropWhile p with
  | nil => exact Or.inl rfl
  | cons x xs =>
    refine Or.inr ⟨x, xs, rfl, ?_⟩
    have := List.head_dropWhile_not p (l := l) (by rw [h]; simp)
    simpa [h] using this

theorem takeWhile_stop {α : Type} (p : α → Bool) (pre : List α) (x : α) (rest : List α) (hp : ∀ c ∈ pre, p c = true) (hx : p x = false) :
    (pre ++ x :: rest).takeWhile p = pre := by
  rw [List.takeWhile_append_of_pos hp, List.takeWhile_cons, if_neg (by simp [hx]), List.append_nil]

theorem isWs_zero : isWs 0 = false := by decide

/-- blanks removed from the end -/
def rtrim (x : Bytes) : Bytes := (x.reverse.dropWhile isWs).reverse

theorem rtrim_decomp (x : Bytes) : ∃ w, x = rtrim x ++ w ∧ (∀ c ∈ w, isWs c = true) ∧
    (rtrim x = [] ∨ ∃ ini l, rtrim x = ini ++ [l] ∧ isWs l = false) := by
  refine ⟨(x.reverse.takeWhile isWs).reverse, ?_, ?_, ?_⟩
  · unfold rtrim
    rw [← List.reverse_append, List.takeWhile_append_dropWhile, List.reverse_reverse]
  · intro c hc
    exact all_takeWhile isWs _ c (List.mem_reverse.mp hc)
  · unfold rtrim
    rcases dropWhile_head_not isWs x.reverse with h | ⟨y, ys, h, hy⟩
    · left; rw [h]; rfl
    · right; exact ⟨ys.reverse, y, by rw [h]; simp, hy⟩

theorem rd_eq {mem : List UInt8} {i : Nat} {v : UInt8} (what : String) (h : mem[i]? = some v) : rd mem i what = .ok v := by
  have hlt : i < mem.length := by
    cases hi : decide (i < mem.length) with
    | true => exact of_decide_eq_true hi
    | false =>
      have : mem.length ≤ i := Nat.le_of_not_lt (of_decide_eq_false hi)
      rw [List.getElem?_eq_none this] at h; cases h
  rw [rd_ok what hlt]
  rw [List.getElem?_eq_getElem hlt] at h
  cases h; rfl

theorem getElem?_at_prefix {α : Type} (pre : List α) (x : α) (rest : List α) : (pre ++ x :: rest)[pre.length]? = some x := by
  rw [List.getElem?_append_right (Nat.le_refl _), Nat.sub_self]; rfl

/-- the loop `while (t > s && whitespace(*t)) t--` over trailing blanks: `P` is the text up to and including the last
    character that is not blank (`l`), `w` the blanks behind it -/
theorem backWs_blanks (pre ini : List UInt8) (l : UInt8) (hl : isWs l = false) : ∀ (n : Nat) (w z : List UInt8), w.length = n →
    (∀ c ∈ w, isWs c = true) →
    backWs ((pre ++ ini) ++ l :: (w ++ z)) pre.length ((pre ++ ini).length + w.length) = .ok (pre ++ ini).length
  | 0, w, z, hw, _ => by
    have : w = [] := List.eq_nil_of_length_eq_zero hw
    subst this
    simp only [List.length_nil, Nat.add_zero, List.nil_append]
    cases hp : (pre ++ ini).length with
    | zero => rfl
    | succ k =>
      unfold backWs
      by_cases hgt : k + 1 > pre.length
      · rw [if_pos hgt]
        have hr := rd_eq "stripwhite: *t" (getElem?_at_prefix (pre ++ ini) l z)
        rw [hp] at hr
        rw [hr]
        show (if isWs l = true then _ else _) = _
        rw [hl]; rfl
      · rw [if_neg hgt]; rfl
  | n + 1, w, z, hw, hall => by
    have hne : w ≠ [] := by intro h; rw [h] at hw; simp at hw
    have hw' : w = w.dropLast ++ [w.getLast hne] := (List.dropLast_concat_getLast hne).symm
    have hx : isWs (w.getLast hne) = true := hall _ (List.getLast_mem hne)
    have hd : w.dropLast.length = n := by rw [List.length_dropLast, hw]; rfl
    have ih := backWs_blanks pre ini l hl n w.dropLast (w.getLast hne :: z) hd
      (fun c hc => hall c (by rw [hw']; exact List.mem_append_left _ hc))
    have hmem : (pre ++ ini) ++ l :: (w ++ z) = ((pre ++ ini) ++ l :: w.dropLast) ++ (w.getLast hne :: z) := by
      conv => lhs; rw [hw']
      simp
    have hmem2 : (pre ++ ini) ++ l :: (w.dropLast ++ w.getLast hne :: z) = ((pre ++ ini) ++ l :: w.dropLast) ++ (w.getLast hne :: z) := by
      simp
    rw [hmem2] at ih
    rw [hmem]
    have e : (pre ++ ini).length + w.length = ((pre ++ ini) ++ l :: w.dropLast).length := by
      simp only [List.length_append, List.length_cons, hw, hd]
    have e2 : ((pre ++ ini) ++ l :: w.dropLast).length = ((pre ++ ini).length + w.dropLast.length) + 1 := by
      simp only [List.length_append, List.length_cons]; omega
    rw [e]
    have hr := rd_eq "stripwhite: *t" (getElem?_at_prefix ((pre ++ ini) ++ l :: w.dropLast) (w.getLast hne) z)
    rw [e2] at hr ⊢
    unfold backWs
    rw [if_pos (by rw [List.length_append]; omega), hr]
    show (if isWs (w.getLast hne) = true then _ else _) = _
    rw [hx, if_pos rfl]
    exact ih

theorem stripwhite_spec (str tail : List UInt8) (hn : (0 : UInt8) ∉ str) :
    ∃ tail', stripwhite (str ++ 0 :: tail) = .ok ((str.takeWhile isWs).length,
        str.takeWhile isWs ++ rtrim (str.dropWhile isWs) ++ 0 :: tail') ∧
      (str.takeWhile isWs ++ rtrim (str.dropWhile isWs) ++ 0 :: tail').length = (str ++ 0 :: tail).length := by
  have hsplit : str = str.takeWhile isWs ++ str.dropWhile isWs := List.takeWhile_append_dropWhile.symm
  generalize hlead : str.takeWhile isWs = lead at hsplit ⊢
  generalize hbody : str.dropWhile isWs = body at hsplit ⊢
  have hleadws : ∀ c ∈ lead, isWs c = true := by rw [← hlead]; exact all_takeWhile isWs str
  have hbn : (0 : UInt8) ∉ body := fun h => hn (by rw [hsplit]; exact List.mem_append_right _ h)
  have hmem : str ++ 0 :: tail = lead ++ (body ++ 0 :: tail) := by rw [hsplit]; simp
  rw [hmem]
  unfold stripwhite
  rcases dropWhile_head_not isWs str with hb | ⟨x, xs, hb, hx⟩
  · -- nothing but blanks
    rw [hbody] at hb
    subst hb
    have htw : (lead ++ ([] ++ 0 :: tail)).takeWhile isWs = lead := takeWhile_stop isWs lead 0 tail hleadws isWs_zero
    simp only [htw]
    rw [if_neg (by simp only [List.length_append, List.length_cons, List.nil_append]; omega)]
    have hr := rd_eq "stripwhite: *s" (getElem?_at_prefix lead 0 tail)
    simp only [List.nil_append] at hr ⊢
    rw [hr]
    refine ⟨tail, ?_, by simp [rtrim]⟩
    simp [rtrim, bind, Except.bind, pure, Except.pure]
  · rw [hbody] at hb
    have htw : (lead ++ (body ++ 0 :: tail)).takeWhile isWs = lead := by
      rw [hb]; exact takeWhile_stop isWs lead x (xs ++ 0 :: tail) hleadws hx
    have hx0 : x ≠ 0 := fun h => hbn (by rw [hb, h]; exact List.mem_cons_self)
    simp only [htw]
    rw [if_neg (by simp only [List.length_append, List.length_cons]; omega)]
    have hr := rd_eq "stripwhite: *s" (getElem?_at_prefix lead x (xs ++ 0 :: tail))
    have hmem2 : lead ++ (body ++ 0 :: tail) = lead ++ x :: (xs ++ 0 :: tail) := by rw [hb]; simp
    rw [hmem2, hr]
    simp only [bind, Except.bind, pure, Except.pure]
    rw [if_neg (by simpa using hx0)]
    rw [← hmem2, cstrAt_prefix_nulfree lead body tail hbn]
    simp only []
    obtain ⟨w, hdec, hw, hcore⟩ := rtrim_decomp body
    rcases hcore with hc0 | ⟨ini, l, hc, hl⟩
    · exfalso
      rw [hc0, List.nil_append] at hdec
      have := hw x (by rw [← hdec, hb]; exact List.mem_cons_self)
      rw [hx] at this; cases this
    · have hbl : body.length = ini.length + 1 + w.length := by
        conv => lhs; rw [hdec, hc]
        simp only [List.length_append, List.length_cons, List.length_nil]
      have hm3 : lead ++ (body ++ 0 :: tail) = (lead ++ ini) ++ l :: (w ++ 0 :: tail) := by
        conv => lhs; rw [hdec, hc]
        simp
      have ht : lead.length + body.length - 1 = (lead ++ ini).length + w.length := by
        rw [hbl, List.length_append]; omega
      rw [ht, hm3, backWs_blanks lead ini l hl w.length w (0 :: tail) rfl hw]
      simp only []
      have hm4 : (lead ++ ini) ++ l :: (w ++ 0 :: tail) = (lead ++ rtrim body) ++ (w ++ 0 :: tail) := by rw [hc]; simp
      have hidx : (lead ++ ini).length + 1 = (lead ++ rtrim body).length := by
        rw [hc]; simp only [List.length_append, List.length_cons, List.length_nil]; omega
      rw [hm4, hidx, wr_at_prefix (lead ++ rtrim body) (w ++ 0 :: tail) 0 _ (by simp)]
      refine ⟨(w ++ 0 :: tail).tail, by simp, ?_⟩
      have : (w ++ 0 :: tail).tail.length + 1 = (w ++ 0 :: tail).length := by
        cases w <;> simp
      have hlen : body.length = (rtrim body).length + w.length := by
        conv => lhs; rw [hdec]
        rw [List.length_append]
      simp only [List.length_append, List.length_cons] at this ⊢
      omega

def notWs (c : UInt8) : Bool := !isWs c

theorem takeWhile_all {α : Type} (p : α → Bool) (l : List α) (h : ∀ c ∈ l, p c = true) : l.takeWhile p = l := by
  have := List.takeWhile_append_of_pos (l₂ := []) h
  simpa using this

/-- the three parts of a line -/
structure Parts (line lead word after : Bytes) : Prop where
  heq : line = lead ++ word ++ after
  hlead : ∀ c ∈ lead, isWs c = true
  hword : ∀ c ∈ word, isWs c = false
  hafter : after = [] ∨ ∃ y ys, after = y :: ys ∧ isWs y = true
  hempty : word = [] → after = []

theorem parts_of (line : Bytes) :
    Parts line (line.takeWhile isWs) ((line.dropWhile isWs).takeWhile notWs) ((line.dropWhile isWs).dropWhile notWs) := by
  refine ⟨?_, all_takeWhile isWs line, ?_, ?_, ?_⟩
  · rw [List.append_assoc, List.takeWhile_append_dropWhile, List.takeWhile_append_dropWhile]
  · intro c hc
    have := all_takeWhile notWs _ c hc
    simpa [notWs] using this
  · rcases dropWhile_head_not notWs (line.dropWhile isWs) with h | ⟨y, ys, h, hy⟩
    · exact Or.inl h
    · exact Or.inr ⟨y, ys, h, by simpa [notWs] using hy⟩
  · intro hw
    rcases dropWhile_head_not isWs line with h | ⟨x, xs, h, hx⟩
    · rw [h]; rfl
    · rw [h] at hw ⊢
      rw [List.takeWhile_cons, if_pos (by simp [notWs, hx])] at hw
      cases hw

theorem parts_takeWhile {line lead word after : Bytes} (h : Parts line lead word after) : line.takeWhile isWs = lead := by
  rw [h.heq, List.append_assoc]
  cases hw : word with
  | nil =>
    rw [h.hempty hw]; simp only [List.append_nil]
    exact takeWhile_all isWs lead h.hlead
  | cons x xs =>
    rw [List.cons_append]
    exact takeWhile_stop isWs lead x (xs ++ after) h.hlead (h.hword x (by rw [hw]; exact List.mem_cons_self))

theorem parts_word {line lead word after : Bytes} (h : Parts line lead word after) :
    (line.drop lead.length).takeWhile (fun c => !isWs c) = word := by
  rw [h.heq, List.append_assoc, List.drop_left]
  have hw : ∀ c ∈ word, (fun c => !isWs c) c = true := fun c hc => by simp [h.hword c hc]
  rcases h.hafter with ha | ⟨y, ys, ha, hy⟩
  · rw [ha, List.append_nil]; exact takeWhile_all _ word hw
  · rw [ha]
    exact takeWhile_stop (fun c => !isWs c) word y ys hw (by simp [hy])

/-- what `execute_line` decides for a line made of `lead`, `word`, `after` -/
def expected (cfg : Config) (lead word after : Bytes) : Dispatch :=
  match findCommand cfg.commands word with
  | some (idx, kind) => .call idx kind (after.dropWhile isWs)
  | none =>
    if cfg.hasFallback then .fallback (lead ++ word ++ (match after with | [] => [] | _ :: ys => 32 :: ys))
    else .noSuch word

theorem rd_in_prefix (L z : List UInt8) (i : Nat) (what : String) (h : i < L.length) : ∃ v, v ∈ L ∧ rd (L ++ z) i what = .ok v := by
  refine ⟨L[i], List.getElem_mem h, ?_⟩
  apply rd_eq
  rw [List.getElem?_append_left h, List.getElem?_eq_getElem h]

theorem mem_length_le_intMax_of {n : Nat} (h : n + 1 ≤ intMax) : n ≤ intMax := by omega

theorem executeLookup_end (cfg : Config) (lead word tail : Bytes) (hl : (0 : UInt8) ∉ lead) (hw : (0 : UInt8) ∉ word)
    (hint : (lead ++ word).length ≤ intMax) :
    executeLookup cfg ((lead ++ word) ++ 0 :: tail) lead.length (lead ++ word).length =
      .ok (expected cfg lead word [], (lead ++ word) ++ 0 :: tail) := by
  unfold executeLookup expected
  have hname : cstrAt ((lead ++ word) ++ 0 :: tail) lead.length = .ok word := by
    rw [List.append_assoc]; exact cstrAt_prefix_nulfree lead word tail hw
  rw [hname]
  simp only [bind, Except.bind]
  cases hf : findCommand cfg.commands word with
  | none =>
    simp only []
    by_cases hfb : cfg.hasFallback = true
    · rw [if_pos hfb, if_pos hfb]
      have hrb : restoreBlank ((lead ++ word) ++ 0 :: tail) (lead ++ word).length = .ok ((lead ++ word) ++ 0 :: tail) := by
        unfold restoreBlank
        by_cases hpos : (lead ++ word).length > 0
        · rw [if_pos hpos]
          obtain ⟨v, hv, hr⟩ := rd_in_prefix (lead ++ word) (0 :: tail) ((lead ++ word).length - 1) "execute_line: line[i-1]" (by omega)
          rw [hr]
          have hv0 : v ≠ 0 := by
            intro h0; rw [h0] at hv
            rcases List.mem_append.mp hv with h | h
            · exact hl h
            · exact hw h
          show (if (v == 0) = true then _ else _) = _
          rw [if_neg (by simpa using hv0)]; rfl
        · rw [if_neg hpos]; rfl
      rw [hrb]
      simp only []
      have hwhole : cstr ((lead ++ word) ++ 0 :: tail) = .ok (lead ++ word) := by
        have := cstrAt_prefix_nulfree [] (lead ++ word) tail (by
          intro h; rcases List.mem_append.mp h with h | h
          · exact hl h
          · exact hw h)
        simpa [cstr] using this
      rw [hwhole]
      simp [pure, Except.pure]
    · rw [if_neg hfb, if_neg hfb]; rfl
  | some p =>
    obtain ⟨idx, kind⟩ := p
    simp only []
    rw [if_neg (by simp only [List.length_append, List.length_cons]; omega)]
    have hd : ((lead ++ word) ++ 0 :: tail).drop (lead ++ word).length = 0 :: tail := List.drop_left
    rw [hd]
    have htw : (0 :: tail).takeWhile isWs = [] := by rw [List.takeWhile_cons, if_neg (by simp [isWs_zero])]
    rw [htw]
    simp only [List.length_nil, Nat.add_zero]
    rw [chkInt_ok hint]
    simp only []
    have harg : cstrAt ((lead ++ word) ++ 0 :: tail) (lead ++ word).length = .ok [] := by
      have := cstrAt_prefix (lead ++ word) [] tail
      simpa using this
    rw [harg]
    rfl

theorem executeLookup_mid (cfg : Config) (lead word ys tail : Bytes) (y : UInt8) (hl : (0 : UInt8) ∉ lead) (hw : (0 : UInt8) ∉ word)
    (hys : (0 : UInt8) ∉ ys) (hy : isWs y = true) (hint : (lead ++ word).length + 1 + ys.length ≤ intMax) :
    ∃ mem', executeLookup cfg ((lead ++ word) ++ 0 :: (ys ++ 0 :: tail)) lead.length ((lead ++ word).length + 1) =
      .ok (expected cfg lead word (y :: ys), mem') := by
  unfold executeLookup expected
  have hname : cstrAt ((lead ++ word) ++ 0 :: (ys ++ 0 :: tail)) lead.length = .ok word := by
    rw [List.append_assoc]; exact cstrAt_prefix_nulfree lead word _ hw
  rw [hname]
  simp only [bind, Except.bind]
  cases hf : findCommand cfg.commands word with
  | none =>
    simp only []
    by_cases hfb : cfg.hasFallback = true
    · rw [if_pos hfb, if_pos hfb]
      have hrb : restoreBlank ((lead ++ word) ++ 0 :: (ys ++ 0 :: tail)) ((lead ++ word).length + 1) =
          .ok ((lead ++ word) ++ 32 :: (ys ++ 0 :: tail)) := by
        unfold restoreBlank
        rw [if_pos (by omega)]
        simp only [Nat.add_sub_cancel]
        rw [rd_eq "execute_line: line[i-1]" (getElem?_at_prefix (lead ++ word) 0 (ys ++ 0 :: tail))]
        simp only [bind, Except.bind]
        rw [if_pos (by decide : ((0 : UInt8) == 0) = true), wr_at_prefix (lead ++ word) (0 :: (ys ++ 0 :: tail)) 32 _ (by simp)]
        simp
      rw [hrb]
      simp only []
      have hwhole : cstr ((lead ++ word) ++ 32 :: (ys ++ 0 :: tail)) = .ok (lead ++ word ++ 32 :: ys) := by
        have hnf : (0 : UInt8) ∉ lead ++ word ++ 32 :: ys := by
          intro h
          simp only [List.mem_append, List.mem_cons] at h
          rcases h with (h | h) | h | h
          · exact hl h
          · exact hw h
          · exact absurd h (by decide)
          · exact hys h
        have := cstrAt_prefix_nulfree [] (lead ++ word ++ 32 :: ys) tail hnf
        simpa [cstr] using this
      rw [hwhole]
      exact ⟨_, rfl⟩
    · rw [if_neg hfb, if_neg hfb]; exact ⟨_, rfl⟩
  | some p =>
    obtain ⟨idx, kind⟩ := p
    simp only []
    rw [if_neg (by simp only [List.length_append, List.length_cons]; omega)]
    have hd : ((lead ++ word) ++ 0 :: (ys ++ 0 :: tail)).drop ((lead ++ word).length + 1) = ys ++ 0 :: tail := by
      have : (lead ++ word) ++ 0 :: (ys ++ 0 :: tail) = ((lead ++ word) ++ [0]) ++ (ys ++ 0 :: tail) := by simp
      rw [this]
      exact List.drop_left' (by simp only [List.length_append, List.length_cons, List.length_nil])
    rw [hd]
    -- the blanks in front of the argument text
    have hsplit : ys = ys.takeWhile isWs ++ ys.dropWhile isWs := List.takeWhile_append_dropWhile.symm
    have htw : (ys ++ 0 :: tail).takeWhile isWs = ys.takeWhile isWs := by
      rcases dropWhile_head_not isWs ys with h | ⟨x, xs, h, hx⟩
      · conv => lhs; rw [hsplit, h, List.append_nil]
        exact takeWhile_stop isWs _ 0 tail (all_takeWhile isWs ys) isWs_zero
      · conv => lhs; rw [hsplit, h, List.append_assoc, List.cons_append]
        exact takeWhile_stop isWs _ x _ (all_takeWhile isWs ys) hx
    rw [htw]
    have hle : (ys.takeWhile isWs).length ≤ ys.length := by
      conv => rhs; rw [hsplit]
      rw [List.length_append]; omega
    rw [chkInt_ok (by omega)]
    simp only []
    have harg : cstrAt ((lead ++ word) ++ 0 :: (ys ++ 0 :: tail)) ((lead ++ word).length + 1 + (ys.takeWhile isWs).length) =
        .ok (ys.dropWhile isWs) := by
      have hm : (lead ++ word) ++ 0 :: (ys ++ 0 :: tail) =
          ((lead ++ word) ++ [0] ++ ys.takeWhile isWs) ++ (ys.dropWhile isWs ++ 0 :: tail) := by
        conv => lhs; rw [hsplit]
        simp only [List.append_assoc, List.cons_append, List.nil_append]
      have hlen : (lead ++ word).length + 1 + (ys.takeWhile isWs).length = ((lead ++ word) ++ [0] ++ ys.takeWhile isWs).length := by
        simp only [List.length_append, List.length_cons, List.length_nil]
      rw [hm, hlen]
      exact cstrAt_prefix_nulfree _ _ _ (fun h => hys (by rw [hsplit]; exact List.mem_append_right _ h))
    rw [harg]
    refine ⟨(lead ++ word) ++ 0 :: (ys ++ 0 :: tail), ?_⟩
    simp only [pure, Except.pure]
    rw [List.dropWhile_cons, if_pos hy]

theorem executeLine_parts (cfg : Config) {line lead word after : Bytes} (hp : Parts line lead word after) (tail : Bytes)
    (hn : (0 : UInt8) ∉ line) (hint : line.length + 1 ≤ intMax) :
    ∃ mem', executeLine cfg (line ++ 0 :: tail) = .ok (expected cfg lead word after, mem') := by
  have hl : (0 : UInt8) ∉ lead := fun h => hn (by rw [hp.heq]; exact List.mem_append_left _ (List.mem_append_left _ h))
  have hw : (0 : UInt8) ∉ word := fun h => hn (by rw [hp.heq]; exact List.mem_append_left _ (List.mem_append_right _ h))
  have ha : (0 : UInt8) ∉ after := fun h => hn (by rw [hp.heq]; exact List.mem_append_right _ h)
  have hlen : line.length = lead.length + word.length + after.length := by
    conv => lhs; rw [hp.heq]
    simp only [List.length_append]
  unfold executeLine
  have hc : cstr (line ++ 0 :: tail) = .ok line := by
    have := cstrAt_prefix_nulfree [] line tail hn
    simpa [cstr] using this
  rw [hc]
  simp only [bind, Except.bind]
  rw [parts_takeWhile hp, parts_word hp]
  rw [chkInt_ok (by omega)]
  simp only []
  have hidx : lead.length + word.length = (lead ++ word).length := by rw [List.length_append]
  rw [hidx]
  rcases hp.hafter with h0 | ⟨y, ys, hys, hy⟩
  · have hm : line ++ 0 :: tail = (lead ++ word) ++ 0 :: tail := by rw [hp.heq, h0, List.append_nil]
    rw [hm, rd_eq "execute_line: line[i]" (getElem?_at_prefix (lead ++ word) 0 tail)]
    simp only []
    rw [if_neg (by decide)]
    rw [h0]
    exact ⟨_, executeLookup_end cfg lead word tail hl hw (by rw [← hidx]; omega)⟩
  · have hm : line ++ 0 :: tail = (lead ++ word) ++ y :: (ys ++ 0 :: tail) := by rw [hp.heq, hys]; simp
    have hy0 : y ≠ 0 := fun h => ha (by rw [hys, h]; exact List.mem_cons_self)
    have hys0 : (0 : UInt8) ∉ ys := fun h => ha (by rw [hys]; exact List.mem_cons_of_mem _ h)
    rw [hm, rd_eq "execute_line: line[i]" (getElem?_at_prefix (lead ++ word) y (ys ++ 0 :: tail))]
    simp only []
    rw [if_pos (by simpa using hy0)]
    rw [wr_at_prefix (lead ++ word) (y :: (ys ++ 0 :: tail)) 0 _ (by simp)]
    simp only [List.tail_cons]
    have hm2 : (lead ++ word ++ [0]) ++ (ys ++ 0 :: tail) = (lead ++ word) ++ 0 :: (ys ++ 0 :: tail) := by simp
    rw [hm2, hys]
    have hlen2 : after.length = ys.length + 1 := by rw [hys]; rfl
    exact executeLookup_mid cfg lead word ys tail y hl hw hys0 hy (by rw [← hidx]; omega)

/-- `execute_line` on a NUL-free line of any length the `int` index can hold -/
theorem executeLine_spec (cfg : Config) (line tail : Bytes) (hn : (0 : UInt8) ∉ line) (hint : line.length + 1 ≤ intMax) :
    ∃ mem', executeLine cfg (line ++ 0 :: tail) =
      .ok (expected cfg (line.takeWhile isWs) ((line.dropWhile isWs).takeWhile notWs) ((line.dropWhile isWs).dropWhile notWs), mem') :=
  executeLine_parts cfg (parts_of line) tail hn hint

theorem needsEscape_eq : needsEscape = Spec.Kerl.special := rfl
theorem escLetter_eq : escLetter = Spec.Kerl.letterOf := rfl

theorem escape_length (s : Bytes) : (Spec.Kerl.escape s).length = s.length + (s.filter needsEscape).length := by
  induction s with
  | nil => rfl
  | cons c cs ih =>
    unfold Spec.Kerl.escape at ih ⊢
    rw [List.flatMap_cons, List.length_append, ih, List.filter_cons, needsEscape_eq]
    by_cases h : Spec.Kerl.special c = true
    · simp only [h, if_true, List.length_cons, List.length_nil]; omega
    · simp only [h, Bool.false_eq_true, if_false, List.length_cons, List.length_nil]; omega

/-- the second loop of `escape` writes the escaped text behind what is already there -/
theorem escapeLoop_spec : ∀ (input : Bytes) (pre rest : List UInt8), (Spec.Kerl.escape input).length ≤ rest.length →
    escapeLoop input (pre ++ rest) pre.length =
      .ok (pre ++ Spec.Kerl.escape input ++ rest.drop (Spec.Kerl.escape input).length, pre.length + (Spec.Kerl.escape input).length)
  | [], pre, rest, _ => by simp [escapeLoop, Spec.Kerl.escape, pure, Except.pure]
  | c :: cs, pre, rest, h => by
    have hcons : Spec.Kerl.escape (c :: cs) = (if Spec.Kerl.special c then [92, Spec.Kerl.letterOf c] else [c]) ++ Spec.Kerl.escape cs := by
      simp [Spec.Kerl.escape]
    unfold escapeLoop
    rw [needsEscape_eq, escLetter_eq]
    by_cases hs : Spec.Kerl.special c = true
    · rw [if_pos hs]
      rw [hcons, if_pos hs] at h ⊢
      simp only [List.length_append, List.length_cons, List.length_nil] at h
      have hr1 : rest ≠ [] := by intro h0; rw [h0] at h; simp at h
      rw [wr_at_prefix pre rest 92 _ hr1]
      simp only [bind, Except.bind]
      have hr2 : rest.tail ≠ [] := by
        intro h0
        have : rest.tail.length = 0 := by rw [h0]; rfl
        rw [List.length_tail] at this; omega
      have e1 : pre.length + 1 = (pre ++ [92]).length := by simp
      rw [e1, wr_at_prefix (pre ++ [92]) rest.tail _ _ hr2]
      simp only []
      have e2 : (pre ++ [92]).length + 1 = (pre ++ [92] ++ [Spec.Kerl.letterOf c]).length := by simp
      have e3 : pre.length + 2 = (pre ++ [92] ++ [Spec.Kerl.letterOf c]).length := by simp
      rw [e3, escapeLoop_spec cs _ rest.tail.tail (by simp only [List.length_tail]; omega)]
      congr 1
      refine Prod.ext ?_ ?_
      · simp only [List.append_assoc, List.cons_append, List.nil_append, List.length_cons]
        congr 4
        simp only [← List.drop_one, List.drop_drop]
        congr 1
        omega
      · simp only [List.length_append, List.length_cons, List.length_nil]; omega
    · rw [if_neg hs]
      rw [hcons, if_neg hs] at h ⊢
      simp only [List.length_append, List.length_cons, List.length_nil] at h
      have hr1 : rest ≠ [] := by intro h0; rw [h0] at h; simp at h
      rw [wr_at_prefix pre rest c _ hr1]
      simp only [bind, Except.bind]
      have e3 : pre.length + 1 = (pre ++ [c]).length := by simp
      rw [e3, escapeLoop_spec cs _ rest.tail (by simp only [List.length_tail]; omega)]
      congr 1
      refine Prod.ext ?_ ?_
      · simp only [List.append_assoc, List.cons_append, List.nil_append, List.length_cons]
        congr 3
        simp only [← List.drop_one, List.drop_drop]
        congr 1
        omega
      · simp only [List.length_append, List.length_cons, List.length_nil]; omega

theorem letterOf_ne_zero (c : UInt8) (h : c ≠ 0) : Spec.Kerl.letterOf c ≠ 0 := by
  unfold Spec.Kerl.letterOf
  split
  · decide
  · split
    · decide
    · split
      · decide
      · split
        · decide
        · exact h

theorem escape_nulfree (s : Bytes) (hn : (0 : UInt8) ∉ s) : (0 : UInt8) ∉ Spec.Kerl.escape s := by
  induction s with
  | nil => simp [Spec.Kerl.escape]
  | cons c cs ih =>
    have hc : c ≠ 0 := fun h => hn (by rw [h]; exact List.mem_cons_self)
    have hcs : (0 : UInt8) ∉ cs := fun h => hn (List.mem_cons_of_mem _ h)
    have hcons : Spec.Kerl.escape (c :: cs) = (if Spec.Kerl.special c then [92, Spec.Kerl.letterOf c] else [c]) ++ Spec.Kerl.escape cs := by
      simp [Spec.Kerl.escape]
    rw [hcons]
    intro hm
    rcases List.mem_append.mp hm with h | h
    · split at h
      · simp only [List.mem_cons, List.not_mem_nil, or_false] at h
        rcases h with h | h
        · exact absurd h (by decide)
        · exact letterOf_ne_zero c hc h.symm
      · simp only [List.mem_cons, List.not_mem_nil, or_false] at h
        exact hc h.symm
    · exact ih hcs h

theorem filter_length_zero_iff (s : Bytes) : ((s.filter needsEscape).length == 0) = !s.any Spec.Kerl.special := by
  rw [needsEscape_eq]
  induction s with
  | nil => rfl
  | cons c cs ih =>
    rw [List.filter_cons, List.any_cons]
    by_cases h : Spec.Kerl.special c = true
    · simp [h]
    · simp only [h, Bool.false_eq_true, if_false, Bool.false_or]; exact ih

/-- `escape`: never outside its buffer; `NULL` exactly when nothing needs escaping, otherwise the escaped text -/
theorem escape_spec (s : Bytes) (hn : (0 : UInt8) ∉ s) (hint : s.length ≤ intMax) :
    escape s = .ok (if s.any Spec.Kerl.special then some (Spec.Kerl.escape s) else none) := by
  unfold escape
  have hle : (s.filter needsEscape).length ≤ s.length := List.length_filter_le _ _
  simp only []
  rw [chkInt_ok (by omega)]
  simp only [bind, Except.bind]
  rw [filter_length_zero_iff]
  by_cases ha : s.any Spec.Kerl.special = true
  · rw [ha]
    simp only [Bool.not_true, Bool.false_eq_true, if_false, if_true]
    have hL := escape_length s
    have hm : malloc (s.length + (s.filter needsEscape).length + 1) = [] ++ malloc (s.length + (s.filter needsEscape).length + 1) := rfl
    have h0 : (0 : Nat) = ([] : List UInt8).length := rfl
    rw [hm, h0, escapeLoop_spec s [] _ (by rw [malloc_length, hL]; omega)]
    simp only [List.nil_append, List.length_nil, Nat.zero_add]
    have hrest : (malloc (s.length + (s.filter needsEscape).length + 1)).drop (Spec.Kerl.escape s).length ≠ [] := by
      intro h
      have := congrArg List.length h
      rw [List.length_drop, malloc_length, hL] at this
      simp at this
    rw [wr_at_prefix (Spec.Kerl.escape s) _ 0 _ hrest]
    simp only []
    have : (Spec.Kerl.escape s ++ [0]) ++ ((malloc (s.length + (s.filter needsEscape).length + 1)).drop (Spec.Kerl.escape s).length).tail =
        Spec.Kerl.escape s ++ 0 :: ((malloc (s.length + (s.filter needsEscape).length + 1)).drop (Spec.Kerl.escape s).length).tail := by simp
    rw [this, cstr_ofStr_like, takeWhile_ne0_of_not_mem (escape_nulfree s hn)]
    rfl
  · have ha' : s.any Spec.Kerl.special = false := by simpa using ha
    rw [ha']
    simp [pure, Except.pure]

theorem unescLetter_eq : unescLetter = Spec.Kerl.codeOf := rfl

theorem take_set_succ (l : List UInt8) (k : Nat) (v : UInt8) (h : k < l.length) : (l.set k v).take (k + 1) = l.take k ++ [v] := by
  rw [List.take_add_one, List.getElem?_set_self h, List.take_set_of_le (Nat.le_refl _)]
  rfl

theorem rd_of_drop {dst : List UInt8} {i : Nat} {c : UInt8} {rest : List UInt8} (what : String) (h : dst.drop i = c :: rest) :
    rd dst i what = .ok c := by
  apply rd_eq
  have := List.getElem?_drop (xs := dst) (i := i) (j := 0)
  rw [h] at this
  simpa using this.symm

theorem rd_of_drop1 {dst : List UInt8} {i : Nat} {c d : UInt8} {rest : List UInt8} (what : String) (h : dst.drop i = c :: d :: rest) :
    rd dst (i + 1) what = .ok d := by
  apply rd_eq
  have := List.getElem?_drop (xs := dst) (i := i) (j := 1)
  rw [h] at this
  simpa using this.symm

theorem drop_succ_of {dst : List UInt8} {i : Nat} {c : UInt8} {rest : List UInt8} (h : dst.drop i = c :: rest) :
    dst.drop (i + 1) = rest := by
  have : dst.drop (i + 1) = (dst.drop i).drop 1 := by rw [List.drop_drop]
  rw [this, h]; rfl

theorem unescape_esc_some {d v : UInt8} (r : Bytes) (h : Spec.Kerl.codeOf d = some v) :
    Spec.Kerl.unescape (92 :: d :: r) = v :: Spec.Kerl.unescape r := by
  simp [Spec.Kerl.unescape, h]

theorem unescape_esc_none {d : UInt8} (r : Bytes) (h : Spec.Kerl.codeOf d = none) :
    Spec.Kerl.unescape (92 :: d :: r) = 92 :: d :: Spec.Kerl.unescape r := by
  simp [Spec.Kerl.unescape, h]

/-- the copying loop of `unescape` in place: `out` is what has been written, `rem` what is still to be read -/
theorem unescLoop_inplace (len : Nat) (src z : List UInt8) : ∀ (fuel : Nat) (rem : Bytes) (dst : List UInt8) (i ptr : Nat),
    rem.length ≤ fuel → dst.drop i = rem ++ z → z ≠ [] → ptr ≤ i → i + rem.length = len →
    ∃ dst' ptr', unescLoop true len fuel src dst i ptr = .ok (dst', ptr') ∧
      dst'.take ptr' = dst.take ptr ++ Spec.Kerl.unescape rem ∧ dst'.length = dst.length ∧ ptr' ≤ len
  | 0, rem, dst, i, ptr, hf, hd, _, hp, hl => by
    have : rem = [] := List.eq_nil_of_length_eq_zero (Nat.le_zero.mp hf)
    subst this
    exact ⟨dst, ptr, rfl, by simp [Spec.Kerl.unescape], rfl, by simp at hl; omega⟩
  | fuel + 1, [], dst, i, ptr, _, hd, _, hp, hl => by
    simp at hl
    refine ⟨dst, ptr, ?_, by simp [Spec.Kerl.unescape], rfl, by omega⟩
    unfold unescLoop
    rw [if_neg (by omega)]; rfl
  | fuel + 1, c :: rem', dst, i, ptr, hf, hd, hz, hp, hl => by
    simp only [List.length_cons] at hf hl
    have hilt : i < dst.length := by
      have := congrArg List.length hd
      rw [List.length_drop] at this
      simp only [List.length_append, List.length_cons] at this
      omega
    have hptr : ptr < dst.length := by omega
    unfold unescLoop
    rw [if_pos (by omega)]
    simp only [if_true, bind, Except.bind]
    rw [rd_of_drop "unescape: input[i]" (by rw [hd]; rfl)]
    simp only []
    by_cases hesc : (decide (i + 1 < len) && c == 92) = true
    · rw [if_pos hesc]
      have h1 : i + 1 < len := by
        have := (Bool.and_eq_true _ _).mp hesc
        exact of_decide_eq_true this.1
      have hc : c = 92 := by
        have := (Bool.and_eq_true _ _).mp hesc
        simpa using this.2
      cases rem' with
      | nil => simp at hl; omega
      | cons d rem'' =>
        simp only [List.length_cons] at hf hl
        rw [rd_of_drop1 "unescape: input[i]" (by rw [hd]; rfl)]
        simp only []
        have hd2 : dst.drop (i + 2) = rem'' ++ z := by
          have := drop_succ_of (drop_succ_of (by rw [hd]; rfl : dst.drop i = c :: (d :: rem'' ++ z)))
          exact this
        have hilt2 : i + 1 < dst.length := by
          have := congrArg List.length hd
          rw [List.length_drop] at this
          simp only [List.length_append, List.length_cons] at this
          omega
        subst hc
        rw [unescLetter_eq]
        cases hcode : Spec.Kerl.codeOf d with
        | some v =>
          simp only []
          rw [wr_ok v _ hptr]
          simp only []
          obtain ⟨dst', ptr', e, t, l, p⟩ := unescLoop_inplace len src z fuel rem'' (dst.set ptr v) (i + 2) (ptr + 1) (by omega)
            (by rw [List.drop_set_of_lt (by omega)]; exact hd2) hz (by omega) (by omega)
          refine ⟨dst', ptr', e, ?_, by rw [l, List.length_set], p⟩
          rw [t, take_set_succ dst ptr v hptr, unescape_esc_some _ hcode]
          simp
        | none =>
          simp only []
          rw [wr_ok 92 _ hptr]
          simp only []
          have hrd : rd (dst.set ptr 92) (i + 1) "unescape: input[i]" = .ok d := by
            apply rd_eq
            rw [List.getElem?_set_ne (by omega)]
            have := List.getElem?_drop (xs := dst) (i := i) (j := 1)
            rw [hd] at this
            simpa using this.symm
          rw [hrd]
          simp only []
          have hptr1 : ptr + 1 < (dst.set ptr 92).length := by rw [List.length_set]; omega
          rw [wr_ok d _ hptr1]
          simp only []
          obtain ⟨dst', ptr', e, t, l, p⟩ := unescLoop_inplace len src z fuel rem'' ((dst.set ptr 92).set (ptr + 1) d) (i + 2) (ptr + 2)
            (by omega) (by rw [List.drop_set_of_lt (by omega), List.drop_set_of_lt (by omega)]; exact hd2) hz (by omega) (by omega)
          refine ⟨dst', ptr', e, ?_, by rw [l, List.length_set, List.length_set], p⟩
          rw [t, take_set_succ _ (ptr + 1) d hptr1, take_set_succ dst ptr 92 hptr, unescape_esc_none _ hcode]
          simp
    · rw [if_neg hesc]
      rw [wr_ok c _ hptr]
      simp only []
      have hd1 : dst.drop (i + 1) = rem' ++ z := drop_succ_of (by rw [hd]; rfl : dst.drop i = c :: (rem' ++ z))
      obtain ⟨dst', ptr', e, t, l, p⟩ := unescLoop_inplace len src z fuel rem' (dst.set ptr c) (i + 1) (ptr + 1) (by omega)
        (by rw [List.drop_set_of_lt (by omega)]; exact hd1) hz (by omega) (by omega)
      refine ⟨dst', ptr', e, ?_, by rw [l, List.length_set], p⟩
      rw [t, take_set_succ dst ptr c hptr]
      have hspec : Spec.Kerl.unescape (c :: rem') = c :: Spec.Kerl.unescape rem' := by
        cases rem' with
        | nil => simp [Spec.Kerl.unescape]
        | cons d rem'' =>
          have hc : (c == 92) = false := by
            cases hb : (c == 92) with
            | false => rfl
            | true =>
              exfalso
              have : i + 1 < len := by simp at hl; omega
              rw [hb, decide_eq_true this] at hesc
              exact hesc rfl
          simp [Spec.Kerl.unescape, hc]
      rw [hspec]
      simp

theorem unescCount_ge : ∀ (l : Bytes) (k : Nat) (e : Bool), k ≤ unescCount l k e
  | [], k, e => Nat.le_refl _
  | c :: rest, k, e => by
    unfold unescCount
    exact Nat.le_trans (Nat.le_add_right _ _) (unescCount_ge rest _ _)

theorem unescCount_pos : ∀ (l : Bytes) (k : Nat), (92 : UInt8) ∈ l → k < unescCount l k false
  | [], k, h => by simp at h
  | c :: rest, k, h => by
    unfold unescCount
    by_cases hc : c = 92
    · subst hc
      have := unescCount_ge rest (k + (if ((92 : UInt8) == 92 && !false) = true then 1 else 0)) (!false && (92 : UInt8) == 92)
      simp only [Bool.not_false, Bool.and_true, beq_self_eq_true, if_true] at this ⊢
      omega
    · have hr : (92 : UInt8) ∈ rest := by
        rcases List.mem_cons.mp h with h | h
        · exact absurd h.symm hc
        · exact h
      have hb : (c == 92) = false := by simpa using hc
      simp only [hb, Bool.false_and, Bool.and_false, Bool.false_eq_true, if_false, Nat.add_zero]
      exact unescCount_pos rest k hr

theorem unescape_no_backslash : ∀ (l : Bytes), (92 : UInt8) ∉ l → Spec.Kerl.unescape l = l
  | [], _ => rfl
  | [c], _ => rfl
  | c :: d :: rest, h => by
    have hc : (c == 92) = false := by
      have : c ≠ 92 := fun hc => h (by rw [hc]; exact List.mem_cons_self)
      simpa using this
    have := unescape_no_backslash (d :: rest) (fun hm => h (List.mem_cons_of_mem _ hm))
    simp [Spec.Kerl.unescape, hc, this]

theorem codeOf_ne_zero {d v : UInt8} (h : Spec.Kerl.codeOf d = some v) : v ≠ 0 := by
  unfold Spec.Kerl.codeOf at h
  repeat' split at h
  all_goals (first | (cases h; decide) | cases h)

theorem unescape_nulfree : ∀ (l : Bytes), (0 : UInt8) ∉ l → (0 : UInt8) ∉ Spec.Kerl.unescape l
  | [], _ => by simp [Spec.Kerl.unescape]
  | [c], h => by simpa [Spec.Kerl.unescape] using h
  | c :: d :: rest, h => by
    have hc0 : c ≠ 0 := fun hc => h (by rw [hc]; exact List.mem_cons_self)
    have hd0 : d ≠ 0 := fun hd => h (by rw [hd]; exact List.mem_cons_of_mem _ List.mem_cons_self)
    have hr : (0 : UInt8) ∉ rest := fun hm => h (List.mem_cons_of_mem _ (List.mem_cons_of_mem _ hm))
    have hdr : (0 : UInt8) ∉ d :: rest := fun hm => h (List.mem_cons_of_mem _ hm)
    have ih1 := unescape_nulfree rest hr
    have ih2 := unescape_nulfree (d :: rest) hdr
    by_cases hc : c = 92
    · subst hc
      cases hcode : Spec.Kerl.codeOf d with
      | some v =>
        rw [unescape_esc_some _ hcode]
        intro hm
        rcases List.mem_cons.mp hm with hm | hm
        · exact codeOf_ne_zero hcode hm.symm
        · exact ih1 hm
      | none =>
        rw [unescape_esc_none _ hcode]
        intro hm
        rcases List.mem_cons.mp hm with hm | hm
        · exact absurd hm (by decide)
        · rcases List.mem_cons.mp hm with hm | hm
          · exact hd0 hm.symm
          · exact ih1 hm
    · have hb : (c == 92) = false := by simpa using hc
      have : Spec.Kerl.unescape (c :: d :: rest) = c :: Spec.Kerl.unescape (d :: rest) := by
        simp [Spec.Kerl.unescape, hb]
      rw [this]
      intro hm
      rcases List.mem_cons.mp hm with hm | hm
      · exact hc0 hm.symm
      · exact ih2 hm

/-- `unescape(buf, 1)`: in place, never outside the string, and the result is the unescaped text -/
theorem unescape_reuse_spec (input tail : Bytes) (hn : (0 : UInt8) ∉ input) (hint : input.length ≤ intMax) :
    ∃ mem', unescape (input ++ 0 :: tail) true = .ok (some (Spec.Kerl.unescape input), mem') := by
  unfold unescape
  have hc : cstr (input ++ 0 :: tail) = .ok input := by
    have := cstrAt_prefix_nulfree [] input tail hn
    simpa [cstr] using this
  rw [hc]
  simp only [bind, Except.bind]
  have hle : ∀ (l : Bytes) (k : Nat) (e : Bool), unescCount l k e ≤ k + l.length := by
    intro l
    induction l with
    | nil => intro k e; simp [unescCount]
    | cons c cs ih =>
      intro k e
      unfold unescCount
      have := ih (k + (if (c == 92 && !e) = true then 1 else 0)) (!e && c == 92)
      simp only [List.length_cons]
      have h2 : (if (c == 92 && !e) = true then 1 else 0) ≤ 1 := by split <;> omega
      omega
  have := hle input 0 false
  rw [chkInt_ok (by omega)]
  simp only []
  by_cases h0 : (unescCount input 0 false == 0) = true
  · rw [if_pos h0]
    have hz : unescCount input 0 false = 0 := by simpa using h0
    have hnb : (92 : UInt8) ∉ input := by
      intro hm
      have := unescCount_pos input 0 hm
      omega
    rw [unescape_no_backslash input hnb]
    exact ⟨_, rfl⟩
  · rw [if_neg h0]
    simp only [if_true]
    obtain ⟨dst', ptr', e, t, l, p⟩ := unescLoop_inplace input.length (input ++ 0 :: tail) (0 :: tail) input.length input
      (input ++ 0 :: tail) 0 0 (Nat.le_refl _) rfl (by simp) (Nat.le_refl _) (by simp)
    rw [e]
    simp only []
    have hptr : ptr' < dst'.length := by rw [l]; simp only [List.length_append, List.length_cons]; omega
    rw [wr_ok 0 _ hptr]
    simp only []
    rw [List.set_eq_take_append_cons_drop, if_pos hptr, t]
    simp only [List.take_zero, List.nil_append]
    rw [cstr_ofStr_like, takeWhile_ne0_of_not_mem (unescape_nulfree input hn)]
    exact ⟨_, rfl⟩

open Btcdeb.Spec.Kerl (special letterOf codeOf)

theorem escape_cons (c : UInt8) (cs : Bytes) :
    Spec.Kerl.escape (c :: cs) = (if special c then [92, letterOf c] else [c]) ++ Spec.Kerl.escape cs := by
  simp [Spec.Kerl.escape]

theorem special_cases {c : UInt8} (h : special c = true) : c = 10 ∨ c = 9 ∨ c = 13 ∨ c = 8 ∨ c = 92 ∨ c = 34 := by
  unfold special at h
  simp only [Bool.or_eq_true, beq_iff_eq] at h
  rcases h with ((((h | h) | h) | h) | h) | h <;> simp [h]

theorem codeOf_letterOf {c : UInt8} (h : special c = true) : codeOf (letterOf c) = some c := by
  rcases special_cases h with h | h | h | h | h | h <;> subst h <;> decide

theorem letterOf_not_sep {c : UInt8} (h : special c = true) : letterOf c ≠ 10 ∧ letterOf c ≠ 9 ∧ letterOf c ≠ 13 ∧ letterOf c ≠ 8 := by
  rcases special_cases h with h | h | h | h | h | h <;> subst h <;> decide

theorem unescape_cons_plain {c : UInt8} (hc : c ≠ 92) (l : Bytes) : Spec.Kerl.unescape (c :: l) = c :: Spec.Kerl.unescape l := by
  have hb : (c == 92) = false := by simpa using hc
  cases l with
  | nil => simp [Spec.Kerl.unescape]
  | cons d r => simp [Spec.Kerl.unescape, hb]

/-- (c) `unescape (escape s) = s`, for every byte string -/
theorem unescape_escape : ∀ (s : Bytes), Spec.Kerl.unescape (Spec.Kerl.escape s) = s
  | [] => rfl
  | c :: cs => by
    rw [escape_cons]
    by_cases h : special c = true
    · rw [if_pos h]
      show Spec.Kerl.unescape (92 :: letterOf c :: Spec.Kerl.escape cs) = _
      rw [unescape_esc_some _ (codeOf_letterOf h), unescape_escape cs]
    · rw [if_neg h]
      have hc : c ≠ 92 := by
        intro hc; rw [hc] at h; exact h (by decide)
      show Spec.Kerl.unescape (c :: Spec.Kerl.escape cs) = _
      rw [unescape_cons_plain hc, unescape_escape cs]

/-- the escaped text contains none of the characters that would break the one-command-per-line history file -/
theorem escape_no_separator : ∀ (s : Bytes) (x : UInt8), x = 10 ∨ x = 9 ∨ x = 13 ∨ x = 8 → x ∉ Spec.Kerl.escape s
  | [], x, _ => by simp [Spec.Kerl.escape]
  | c :: cs, x, hx => by
    rw [escape_cons]
    intro hm
    rcases List.mem_append.mp hm with hm | hm
    · by_cases h : special c = true
      · rw [if_pos h] at hm
        simp only [List.mem_cons, List.not_mem_nil, or_false] at hm
        obtain ⟨h1, h2, h3, h4⟩ := letterOf_not_sep h
        rcases hm with hm | hm
        · rcases hx with hx | hx | hx | hx <;> (rw [hx] at hm; exact absurd hm (by decide))
        · rcases hx with hx | hx | hx | hx <;> (rw [hx] at hm)
          · exact h1 hm.symm
          · exact h2 hm.symm
          · exact h3 hm.symm
          · exact h4 hm.symm
      · rw [if_neg h] at hm
        simp only [List.mem_cons, List.not_mem_nil, or_false] at hm
        apply h
        rw [← hm]
        rcases hx with hx | hx | hx | hx <;> (rw [hx]; decide)
    · exact escape_no_separator cs x hx hm

/-- the position of the first `a`, and the text before it -/
theorem idxOf?_takeWhile (a : UInt8) : ∀ (l : Bytes),
    (∀ p, l.idxOf? a = some p → p < l.length ∧ l.takeWhile (· != a) = l.take p) ∧
    (l.idxOf? a = none → l.takeWhile (· != a) = l)
  | [] => ⟨fun p h => by simp at h, fun _ => rfl⟩
  | x :: xs => by
    obtain ⟨ih1, ih2⟩ := idxOf?_takeWhile a xs
    rw [List.idxOf?_cons]
    by_cases hx : (x == a) = true
    · rw [if_pos hx]
      have hne : (x != a) = false := by simp [bne, hx]
      refine ⟨fun p h => ?_, fun h => by cases h⟩
      cases h
      exact ⟨by simp, by rw [List.takeWhile_cons, if_neg (by simp [hne])]; rfl⟩
    · rw [if_neg hx]
      have hne : (x != a) = true := by simp [bne, hx]
      refine ⟨fun p h => ?_, fun h => ?_⟩
      · cases hq : xs.idxOf? a with
        | none => rw [hq] at h; cases h
        | some q =>
          rw [hq] at h
          simp only [Option.map_some, Option.some.injEq] at h
          subst h
          obtain ⟨h1, h2⟩ := ih1 q hq
          exact ⟨by simp only [List.length_cons]; omega, by rw [List.takeWhile_cons, if_pos hne, h2]; rfl⟩
      · cases hq : xs.idxOf? a with
        | none => rw [List.takeWhile_cons, if_pos hne, ih2 hq]
        | some q => rw [hq] at h; cases h

/-- what `kerl_run` leaves of a line after cutting the comment: the text before the comment character, terminated -/
theorem cutCommentMem_spec (cfg : Config) (line : Bytes) :
    ∃ tail, cutCommentMem cfg line = .ok (Spec.Kerl.cutComment cfg.commentChar line ++ 0 :: tail) := by
  unfold cutCommentMem Spec.Kerl.cutComment
  by_cases hc : (cfg.commentChar != 0) = true
  · have hc0 : (cfg.commentChar == 0) = false := by simpa [bne] using hc
    rw [if_pos hc, hc0]
    simp only [Bool.false_eq_true, if_false]
    obtain ⟨h1, h2⟩ := idxOf?_takeWhile cfg.commentChar line
    cases hq : line.idxOf? cfg.commentChar with
    | none =>
      simp only []
      rw [h2 hq]
      exact ⟨[], rfl⟩
    | some p =>
      simp only []
      obtain ⟨hp, ht⟩ := h1 p hq
      rw [ht]
      unfold ofStr
      rw [wr_ok 0 _ (by rw [List.length_append]; omega), List.set_eq_take_append_cons_drop,
        if_pos (by rw [List.length_append]; omega), List.take_append_of_le_length (by omega)]
      exact ⟨_, rfl⟩
  · have hc0 : (cfg.commentChar == 0) = true := by simpa [bne] using hc
    rw [if_neg hc, hc0]
    simp only [if_true]
    exact ⟨[], rfl⟩

theorem cutComment_sub (c : UInt8) (line : Bytes) : (∀ x ∈ Spec.Kerl.cutComment c line, x ∈ line) ∧
    (Spec.Kerl.cutComment c line).length ≤ line.length := by
  unfold Spec.Kerl.cutComment
  split
  · exact ⟨fun x h => h, Nat.le_refl _⟩
  · exact ⟨fun x h => (List.takeWhile_sublist _).subset h, (List.takeWhile_sublist _).length_le⟩

/-- `snprintf` with room for everything writes the text and a terminator, and nothing else -/
theorem snprintfAt_exact : ∀ (text : Bytes) (pre rest : List UInt8) (size : Nat), text.length + 1 ≤ size →
    text.length + 1 ≤ rest.length →
    snprintfAt (pre ++ rest) pre.length size text = .ok (pre ++ text ++ 0 :: rest.drop (text.length + 1))
  | [], pre, rest, size, hs, hl => by
    have hr : rest ≠ [] := by intro h; rw [h] at hl; simp at hl
    have hw := wr_at_prefix pre rest 0 "snprintf: terminator" hr
    have hres : (pre ++ [0]) ++ rest.tail = pre ++ [] ++ 0 :: rest.drop ([] : Bytes).length.succ := by
      simp [← List.drop_one]
    match size, hs with
    | 1, _ =>
      unfold snprintfAt
      show wr (pre ++ rest) pre.length 0 "snprintf: terminator" = _
      rw [hw, hres]
    | n + 2, _ =>
      unfold snprintfAt
      show wr (pre ++ rest) pre.length 0 "snprintf: terminator" = _
      rw [hw, hres]
  | c :: cs, pre, rest, size, hs, hl => by
    simp only [List.length_cons] at hs hl
    have hr : rest ≠ [] := by intro h; rw [h] at hl; simp at hl
    match size, hs with
    | n + 2, hs =>
      unfold snprintfAt
      show (wr (pre ++ rest) pre.length c "snprintf: character").bind (fun mem => snprintfAt mem (pre.length + 1) (n + 1) cs) = _
      rw [wr_at_prefix pre rest c "snprintf: character" hr]
      simp only [Except.bind]
      have e : pre.length + 1 = (pre ++ [c]).length := by simp
      rw [e, snprintfAt_exact cs (pre ++ [c]) rest.tail (n + 1) (by omega) (by rw [List.length_tail]; omega)]
      have hdrop : rest.tail.drop (cs.length + 1) = rest.drop ((c :: cs).length + 1) := by
        rw [← List.drop_one, List.drop_drop, List.length_cons]
        congr 1
        omega
      rw [hdrop]
      simp

/-- `more_final` holds the argument text `t` of the current command, terminated; what later lines add lies behind it -/
structure MfGood (B : Nat) (m : MoreFinal) : Prop where
  ex : ∃ t rest, m.mem = some (t ++ 0 :: rest) ∧ (t ++ 0 :: rest).length = m.cap ∧ t.length + 1 ≤ m.pos ∧ m.pos ≤ m.cap ∧
        (0 : UInt8) ∉ t ∧ t.length ≤ B

/-- before the first splitting command there is no `more_final` -/
def MfOk (B : Nat) (m : MoreFinal) : Prop := (m.mem = none ∧ m.lines = 0) ∨ MfGood B m

theorem MfOk.wf {B : Nat} {m : MoreFinal} (h : MfOk B m) : MfWf m := by
  unfold MfWf
  rcases h with ⟨h, _⟩ | h
  · rw [h]; trivial
  · obtain ⟨t, rest, hm, hl, _, hp, _, _⟩ := h.ex
    rw [hm]; exact ⟨hl, hp⟩

theorem mfInit_good (B : Nat) (m : MoreFinal) (arg : Bytes) (h : MfWf m) (hn : (0 : UInt8) ∉ arg) (hb : arg.length ≤ B) :
    ∃ m', mfInit m arg = .ok m' ∧ MfGood B m' := by
  unfold mfInit
  have key : ∀ (mem : List UInt8) (cap : Nat), mem.length = cap → arg.length + 1 ≤ cap →
      ∃ m', (do let mem ← snprintfAt mem 0 cap arg
                pure ({ mem := some mem, cap := cap, pos := arg.length + 1, lines := 0 } : MoreFinal) : KM MoreFinal) = .ok m' ∧
        MfGood B m' := by
    intro mem cap hl hc
    have := snprintfAt_exact arg [] mem cap hc (by omega)
    simp only [List.nil_append, List.length_nil] at this
    rw [this]
    refine ⟨_, rfl, ⟨arg, mem.drop (arg.length + 1), rfl, ?_, Nat.le_refl _, hc, hn, hb⟩⟩
    simp only [List.length_append, List.length_cons, List.length_drop]; omega
  cases hm : m.mem with
  | none => exact key _ _ (malloc_length _) (Nat.le_refl _)
  | some mem =>
    unfold MfWf at h
    rw [hm] at h
    simp only []
    by_cases hc : m.cap < arg.length + 1
    · simp only [if_pos hc]
      exact key _ _ (realloc_length _ _) (Nat.le_refl _)
    · simp only [if_neg hc]
      exact key _ _ h.1 (by omega)

theorem mfAppend_good (B : Nat) (m : MoreFinal) (line : Bytes) (nl : Bool) (h : MfGood B m) :
    ∃ m', mfAppend m line nl = .ok m' ∧ MfGood B m' := by
  obtain ⟨t, rest, hm, hl, hp1, hp2, hn, hb⟩ := h.ex
  unfold mfAppend
  rw [hm]
  simp only []
  have htl : ((if nl = true then [10] else []) ++ line : Bytes).length = line.length + (if nl = true then 1 else 0) := by
    cases nl <;> simp <;> omega
  have key : ∀ (rest2 : List UInt8) (cap2 : Nat), (t ++ 0 :: rest2).length = cap2 →
      m.pos + line.length + 1 + (if nl = true then 1 else 0) ≤ cap2 →
      ∃ m', (if m.pos > (t ++ 0 :: rest2).length then abn "_more_final_append: &more_final[more_final_pos]" else do
              let mem ← snprintfAt (t ++ 0 :: rest2) m.pos cap2 ((if nl = true then [10] else []) ++ line)
              pure ({ mem := some mem, cap := cap2, pos := m.pos + ((if nl = true then [10] else []) ++ line).length,
                      lines := m.lines + 1 } : MoreFinal) : KM MoreFinal) = .ok m' ∧ MfGood B m' := by
    intro rest2 cap2 hl2 hc
    rw [if_neg (by omega)]
    -- split the allocation at `pos`
    have hsplit : t ++ 0 :: rest2 = (t ++ 0 :: rest2).take m.pos ++ (t ++ 0 :: rest2).drop m.pos := (List.take_append_drop _ _).symm
    have hlen : ((t ++ 0 :: rest2).take m.pos).length = m.pos := by rw [List.length_take]; omega
    have htake : (t ++ 0 :: rest2).take m.pos = t ++ 0 :: rest2.take (m.pos - t.length - 1) := by
      have : t ++ 0 :: rest2 = (t ++ [0]) ++ rest2 := by simp
      rw [this, List.take_append, List.take_of_length_le (by simp only [List.length_append, List.length_cons, List.length_nil]; omega)]
      simp only [List.length_append, List.length_cons, List.length_nil, List.append_assoc, List.cons_append, List.nil_append]
      congr 3
    have := snprintfAt_exact ((if nl = true then [10] else []) ++ line) ((t ++ 0 :: rest2).take m.pos) ((t ++ 0 :: rest2).drop m.pos) cap2
      (by omega) (by rw [List.length_drop]; omega)
    rw [hlen, ← hsplit] at this
    rw [this]
    refine ⟨_, rfl, ⟨t, rest2.take (m.pos - t.length - 1) ++ ((if nl = true then [10] else []) ++ line) ++
      0 :: ((t ++ 0 :: rest2).drop m.pos).drop (((if nl = true then [10] else []) ++ line).length + 1), ?_, ?_, ?_, ?_, hn, hb⟩⟩
    · show some _ = some _
      rw [htake]; simp
    · have h1 : (rest2.take (m.pos - t.length - 1)).length = m.pos - t.length - 1 := by
        rw [List.length_take]
        simp only [List.length_append, List.length_cons] at hl2
        omega
      simp only [List.length_append, List.length_cons, List.length_drop, h1, htl] at hl2 ⊢
      omega
    · show t.length + 1 ≤ m.pos + _
      omega
    · show m.pos + _ ≤ cap2
      omega
  by_cases hc : m.cap < m.pos + line.length + 1 + (if nl = true then 1 else 0)
  · simp only [if_pos hc]
    have hre : realloc (t ++ 0 :: rest) (m.pos + line.length + 1 + (if nl = true then 1 else 0)) =
        t ++ 0 :: (rest ++ List.replicate (m.pos + line.length + 1 + (if nl = true then 1 else 0) - (t ++ 0 :: rest).length) poison) := by
      have : t ++ 0 :: rest = (t ++ [0]) ++ rest := by simp
      rw [this, realloc_prefix _ _ _ (by rw [← this, hl]; omega)]
      simp
    rw [hre]
    exact key _ _ (by rw [← hre, realloc_length]) (Nat.le_refl _)
  · simp only [if_neg hc]
    exact key _ _ hl (by omega)

theorem MfGood.text {B : Nat} {m : MoreFinal} (h : MfGood B m) : ∃ t, m.text = .ok t ∧ (0 : UInt8) ∉ t ∧ t.length ≤ B := by
  obtain ⟨t, rest, hm, _, _, _, hn, hb⟩ := h.ex
  refine ⟨t, ?_, hn, hb⟩
  unfold MoreFinal.text
  rw [hm]
  simp only []
  rw [cstr_ofStr_like, takeWhile_ne0_of_not_mem hn]

theorem aLoop_rest_suffix (rl : Bool) (e : UInt8) : ∀ (more : List Bytes) (a : AState) (line : Bytes),
    ∃ k, (aLoop rl e a line more).2 = more.drop k := by
  intro more
  induction more with
  | nil =>
    intro a line
    unfold aLoop
    simp only []
    split <;> exact ⟨0, rfl⟩
  | cons l rest ih =>
    intro a line
    unfold aLoop
    simp only []
    split
    · obtain ⟨k, hk⟩ := ih _ l
      exact ⟨k + 1, by rw [hk]; rfl⟩
    · exact ⟨0, rfl⟩

/-- total weight of the lines still to be read: two buffer bytes per character and one newline per line -/
def weight (lines : List Bytes) : Nat := (lines.map (fun l => 2 * l.length + 1)).sum

theorem budget_le (arg : Bytes) (more : List Bytes) : budget arg more = 2 * arg.length + 1 + weight more := rfl

theorem weight_drop_le (lines : List Bytes) (k : Nat) : weight (lines.drop k) ≤ weight lines := by
  induction lines generalizing k with
  | nil => simp [weight]
  | cons l rest ih =>
    cases k with
    | zero => exact Nat.le_refl _
    | succ k =>
      have := ih k
      simp only [weight, List.drop_succ_cons, List.map_cons, List.sum_cons] at this ⊢
      omega

theorem makeArgcv_good (B : Nat) (rl : Bool) (mf : MoreFinal) (arg : Bytes) (more : List Bytes) (hmf : MfOk B mf)
    (hn : (0 : UInt8) ∉ arg) (hb : arg.length ≤ B) (hint : 2 * arg.length + 1 + weight more + 1 ≤ intMax) :
    ∃ o, makeArgcv rl mf arg more = .ok o ∧ MfGood B o.mf ∧ ∃ k, o.rest = more.drop k := by
  unfold makeArgcv makeArgcvEscape
  obtain ⟨mf1, e1, g1⟩ := mfInit_good B mf arg hmf.wf hn hb
  simp only [bind, Except.bind]
  rw [e1]
  simp only []
  obtain ⟨hr, hc, hroom⟩ := initial_rep
  obtain ⟨o, eo, ro, go⟩ := argLoop_rep_gen (MfGood B) (fun m l b h => mfAppend_good B m l b h) rl 0 more arg mf1 {} {} []
    hr hc hroom g1 (by rw [budget_le]; simpa using hint)
  refine ⟨o, eo, go, ?_⟩
  obtain ⟨k, hk⟩ := aLoop_rest_suffix rl 0 more {} arg
  exact ⟨k, by rw [← hk, ← ro]⟩

theorem addHistory_ok (cfg : Config) (st : RunSt) (s : Bytes) (hn : (0 : UInt8) ∉ s)
    (hint : s.length ≤ intMax) : ∃ st', addHistory cfg st s = .ok st' ∧ st'.mf = st.mf ∧ st'.prev = st.prev ∧ st'.skipHistory = st.skipHistory := by
  unfold addHistory
  by_cases hf : cfg.historyFile = true
  · rw [if_pos hf, escape_spec s hn hint]
    simp only [bind, Except.bind]
    by_cases ho : cfg.historyOpenFails = true
    · rw [if_pos ho]
      refine ⟨_, rfl, ?_, ?_, ?_⟩ <;> (split <;> rfl)
    · rw [if_neg ho]
      refine ⟨_, rfl, ?_, ?_, ?_⟩ <;> (split <;> rfl)
  · rw [if_neg hf]
    refine ⟨_, rfl, ?_, ?_, ?_⟩ <;> (split <;> rfl)

/-- a history file that cannot be opened: the command is recorded in readline's own history only, nothing else changes -/
theorem addHistory_unwritable (cfg : Config) (st : RunSt) (s : Bytes) (ho : cfg.historyOpenFails = true) (hn : (0 : UInt8) ∉ s)
    (hint : s.length ≤ intMax) :
    addHistory cfg st s = .ok (if cfg.rl then { st with events := .addHistory s :: st.events } else st) := by
  unfold addHistory
  by_cases hf : cfg.historyFile = true
  · rw [if_pos hf, escape_spec s hn hint]
    simp only [bind, Except.bind]
    rw [if_pos ho]
    rfl
  · rw [if_neg hf]
    rfl

/-- what `kerl_run` keeps between lines -/
structure Inv (B : Nat) (st : RunSt) : Prop where
  mf : MfOk B st.mf
  prev : ∀ p, st.prev = some p → (0 : UInt8) ∉ p ∧ p.length ≤ B

theorem argText_sub (cur : Bytes) : List.Sublist (((cur.dropWhile isWs).dropWhile notWs).dropWhile isWs) cur :=
  ((List.dropWhile_sublist _).trans (List.dropWhile_sublist _)).trans (List.dropWhile_sublist _)

theorem runExecute_safe (B : Nat) (cfg : Config) (st : RunSt) (cur tail : Bytes) (more : List Bytes) (hinv : Inv B st)
    (hn : (0 : UInt8) ∉ cur) (hb : cur.length ≤ B) (hint : 2 * B + 1 + weight more + 1 ≤ intMax) :
    ∃ st' more', runExecute cfg st (cur ++ 0 :: tail) more = .ok (st', more') ∧ Inv B st' ∧ (∃ k, more' = more.drop k) ∧
      st'.skipHistory = st.skipHistory := by
  obtain ⟨mem', he⟩ := executeLine_spec cfg cur tail hn (by omega)
  unfold runExecute
  rw [he]
  simp only [bind, Except.bind]
  unfold expected
  cases hf : findCommand cfg.commands ((cur.dropWhile isWs).takeWhile notWs) with
  | none =>
    simp only []
    by_cases hfb : cfg.hasFallback = true
    · rw [if_pos hfb]
      exact ⟨_, _, rfl, ⟨hinv.mf, hinv.prev⟩, ⟨0, rfl⟩, rfl⟩
    · rw [if_neg hfb]
      exact ⟨_, _, rfl, hinv, ⟨0, rfl⟩, rfl⟩
  | some p =>
    obtain ⟨idx, kind⟩ := p
    simp only []
    cases kind with
    | silent => exact ⟨_, _, rfl, hinv, ⟨0, rfl⟩, rfl⟩
    | plain => exact ⟨_, _, rfl, ⟨hinv.mf, hinv.prev⟩, ⟨0, rfl⟩, rfl⟩
    | splitting =>
      simp only []
      have hsub := argText_sub cur
      obtain ⟨o, eo, go, k, hk⟩ := makeArgcv_good B cfg.rl st.mf _ more hinv.mf (fun h => hn (hsub.subset h))
        (Nat.le_trans hsub.length_le hb) (by have := hsub.length_le; omega)
      rw [eo]
      exact ⟨_, _, rfl, ⟨Or.inr go, hinv.prev⟩, ⟨k, hk⟩, rfl⟩

theorem rtrim_sub (x : Bytes) : List.Sublist (rtrim x) x := by
  unfold rtrim
  have := (List.dropWhile_sublist isWs (l := x.reverse)).reverse
  rwa [List.reverse_reverse] at this

theorem rememberLine_safe (B : Nat) (cfg : Config) (st : RunSt) (txt tail : Bytes) (hinv : Inv B st) (hn : (0 : UInt8) ∉ txt)
    (hb : txt.length ≤ B) :
    ∃ st', rememberLine cfg st (txt ++ 0 :: tail) = .ok st' ∧ Inv B st' ∧ st'.mf = st.mf ∧ st'.skipHistory = st.skipHistory := by
  unfold rememberLine
  by_cases hr : cfg.repeatEmpty = true
  · rw [if_pos hr]
    have hc : cstr (txt ++ 0 :: tail) = .ok txt := by
      have := cstrAt_prefix_nulfree [] txt tail hn
      simpa [cstr] using this
    rw [hc]
    simp only [bind, Except.bind]
    obtain ⟨tail', hs, _⟩ := stripwhite_spec txt [] hn
    unfold ofStr
    rw [hs]
    simp only []
    have hsub : List.Sublist (rtrim (txt.dropWhile isWs)) txt := (rtrim_sub _).trans (List.dropWhile_sublist _)
    have hnf : (0 : UInt8) ∉ rtrim (txt.dropWhile isWs) := fun h => hn (hsub.subset h)
    rw [List.append_assoc, cstrAt_prefix_nulfree _ _ _ hnf]
    refine ⟨_, rfl, ⟨hinv.mf, ?_⟩, rfl, rfl⟩
    intro p hp
    simp only [Option.some.injEq] at hp
    subst hp
    exact ⟨hnf, Nat.le_trans hsub.length_le hb⟩
  · rw [if_neg hr]
    exact ⟨st, rfl, hinv, rfl, rfl⟩

theorem historyAfter_safe (B : Nat) (cfg : Config) (st : RunSt) (cur : Bytes) 
    (hinv : Inv B st) (hn : (0 : UInt8) ∉ cur) (hb : cur.length ≤ B) (hB : B ≤ intMax) :
    ∃ st', historyAfter cfg st cur = .ok st' ∧ Inv B st' := by
  unfold historyAfter
  by_cases hs : (!st.skipHistory) = true
  · rw [if_pos hs]
    by_cases hl : (st.mf.lines != 0) = true
    · rw [if_pos hl]
      rcases hinv.mf with ⟨_, h0⟩ | hg
      · rw [h0] at hl; exact absurd hl (by decide)
      · obtain ⟨t, ht, hnt, hbt⟩ := hg.text
        rw [ht]
        obtain ⟨st', e, h1, h2, _⟩ := addHistory_ok cfg st t hnt (by omega)
        exact ⟨st', e, ⟨by rw [h1]; exact hinv.mf, by rw [h2]; exact hinv.prev⟩⟩
    · rw [if_neg hl]
      obtain ⟨st', e, h1, h2, _⟩ := addHistory_ok cfg st cur hn (by omega)
      exact ⟨st', e, ⟨by rw [h1]; exact hinv.mf, by rw [h2]; exact hinv.prev⟩⟩
  · rw [if_neg hs]
    exact ⟨st, rfl, hinv⟩

theorem runNonEmpty_safe (B : Nat) (cfg : Config) (st : RunSt) (lead core tail : Bytes) (more : List Bytes)
    (hinv : Inv B st) (hn : (0 : UInt8) ∉ lead ++ core) (hb : (lead ++ core).length ≤ B)
    (hint : 2 * B + 1 + weight more + 1 ≤ intMax) :
    ∃ st' more', runNonEmpty cfg st lead.length (lead ++ core ++ 0 :: tail) core more = .ok (st', more') ∧ Inv B st' ∧
      ∃ k, more' = more.drop k := by
  have hnc : (0 : UInt8) ∉ core := fun h => hn (List.mem_append_right _ h)
  have hbc : core.length ≤ B := by rw [List.length_append] at hb; omega
  unfold runNonEmpty
  obtain ⟨st1, e1, i1, m1, s1⟩ := rememberLine_safe B cfg st (lead ++ core) tail hinv hn hb
  rw [e1]
  simp only [bind, Except.bind]
  have hdrop : (lead ++ core ++ 0 :: tail).drop lead.length = core ++ 0 :: tail := by
    rw [List.append_assoc]; exact List.drop_left
  rw [hdrop]
  by_cases hm : cfg.maySkipHistory = true
  · rw [if_pos hm]
    obtain ⟨st2, more2, e2, i2, k2, _⟩ := runExecute_safe B cfg st1 core tail more i1 hnc hbc hint
    rw [e2]
    simp only []
    obtain ⟨st3, e3, i3⟩ := historyAfter_safe B cfg st2 core i2 hnc hbc (by omega)
    rw [e3]
    exact ⟨_, _, rfl, ⟨i3.mf, i3.prev⟩, k2⟩
  · rw [if_neg hm]
    obtain ⟨st2, e2, h1, h2, _⟩ := addHistory_ok cfg st1 core hnc (by omega)
    rw [e2]
    simp only []
    have i2 : Inv B st2 := ⟨by rw [h1]; exact i1.mf, by rw [h2]; exact i1.prev⟩
    obtain ⟨st3, more3, e3, i3, k3, _⟩ := runExecute_safe B cfg st2 core tail more i2 hnc hbc hint
    exact ⟨st3, more3, e3, i3, k3⟩

theorem runLine_safe (B : Nat) (cfg : Config) (st : RunSt) (line : Bytes) (more : List Bytes)
    (hinv : Inv B st) (hn : (0 : UInt8) ∉ line) (hb : line.length ≤ B)
    (hint : 2 * B + 1 + weight more + 1 ≤ intMax) :
    ∃ st' more', runLine cfg st line more = .ok (st', more') ∧ Inv B st' ∧ ∃ k, more' = more.drop k := by
  unfold runLine
  obtain ⟨tail0, hcut⟩ := cutCommentMem_spec cfg line
  obtain ⟨hsubm, hsubl⟩ := cutComment_sub cfg.commentChar line
  generalize Spec.Kerl.cutComment cfg.commentChar line = cut at hcut hsubm hsubl
  have hcn : (0 : UInt8) ∉ cut := fun h => hn (hsubm 0 h)
  rw [hcut]
  simp only [bind, Except.bind]
  obtain ⟨tail', hs, _⟩ := stripwhite_spec cut tail0 hcn
  rw [hs]
  simp only []
  have hsplit : cut = cut.takeWhile isWs ++ cut.dropWhile isWs := List.takeWhile_append_dropWhile.symm
  have hcoresub : List.Sublist (rtrim (cut.dropWhile isWs)) (cut.dropWhile isWs) := rtrim_sub _
  have hnl : (0 : UInt8) ∉ cut.takeWhile isWs ++ rtrim (cut.dropWhile isWs) := by
    intro h
    rcases List.mem_append.mp h with h | h
    · exact hcn ((List.takeWhile_sublist _).subset h)
    · exact hcn ((List.dropWhile_sublist _).subset (hcoresub.subset h))
  have hlen : (cut.takeWhile isWs ++ rtrim (cut.dropWhile isWs)).length ≤ B := by
    have h1 := hcoresub.length_le
    have h2 : cut.length = (cut.takeWhile isWs).length + (cut.dropWhile isWs).length := by
      conv => lhs; rw [hsplit]
      rw [List.length_append]
    rw [List.length_append]; omega
  have hncore : (0 : UInt8) ∉ rtrim (cut.dropWhile isWs) := fun h => hnl (List.mem_append_right _ h)
  rw [List.append_assoc, cstrAt_prefix_nulfree _ _ _ hncore, ← List.append_assoc]
  simp only []
  -- the sensitivity flag does not touch what the invariant speaks about
  have hinv2 : Inv B (if ((cut.takeWhile isWs).length > 0 && cfg.wsSkipHistory) = true then { st with skipHistory := true } else st) := by
    split
    · exact ⟨hinv.mf, hinv.prev⟩
    · exact hinv
  generalize (if ((cut.takeWhile isWs).length > 0 && cfg.wsSkipHistory) = true then { st with skipHistory := true } else st) = st2 at hinv2
  by_cases hne : (!(rtrim (cut.dropWhile isWs)).isEmpty) = true
  · rw [if_pos hne]
    exact runNonEmpty_safe B cfg st2 _ _ tail' more hinv2 hnl hlen hint
  · rw [if_neg hne]
    by_cases hr : cfg.repeatEmpty = true
    · rw [if_pos hr]
      cases hp : st2.prev with
      | none => exact ⟨_, _, rfl, hinv2, ⟨0, rfl⟩⟩
      | some p =>
        simp only []
        obtain ⟨hpn, hpb⟩ := hinv2.prev p hp
        obtain ⟨st3, more3, e3, i3, k3, _⟩ := runExecute_safe B cfg st2 p [] more hinv2 hpn hpb hint
        exact ⟨st3, more3, e3, i3, k3⟩
    · rw [if_neg hr]
      exact ⟨_, _, rfl, hinv2, ⟨0, rfl⟩⟩

theorem runLoop_safe (B : Nat) (cfg : Config) : ∀ (fuel : Nat) (st : RunSt) (lines : List Bytes),
    Inv B st → (∀ l ∈ lines, (0 : UInt8) ∉ l ∧ l.length ≤ B) → 2 * B + 1 + weight lines + 1 ≤ intMax →
    ∃ st', runLoop cfg fuel st lines = .ok st'
  | 0, st, _, _, _, _ => ⟨st, rfl⟩
  | fuel + 1, st, [], _, _, _ => ⟨st, rfl⟩
  | fuel + 1, st, line :: more, hinv, hl, hint => by
    obtain ⟨hn, hb⟩ := hl line List.mem_cons_self
    have hw : weight (line :: more) = 2 * line.length + 1 + weight more := by simp [weight]
    obtain ⟨st1, more1, e1, i1, k, hk⟩ := runLine_safe B cfg st line more hinv hn hb (by omega)
    unfold runLoop
    simp only [bind, Except.bind]
    rw [e1]
    simp only []
    have := weight_drop_le more k
    exact runLoop_safe B cfg fuel st1 more1 i1
      (fun l hl' => hl l (List.mem_cons_of_mem _ (by rw [hk] at hl'; exact List.mem_of_mem_drop hl')))
      (by rw [hk]; omega)

theorem chompEol_sub (s : Bytes) : List.Sublist (chompEol s) s := by
  unfold chompEol
  have := (List.dropWhile_sublist (fun c => c == 10 || c == 13) (l := s.reverse)).reverse
  rwa [List.reverse_reverse] at this

theorem fgets_chunk {n : Nat} {stream chunk rest : Bytes} (h : fgets n stream = some (chunk, rest)) :
    stream = chunk ++ rest ∧ chunk.length ≤ n - 1 ∨ stream = chunk ++ rest ∧ n - 1 = 0 := by
  unfold fgets at h
  split at h
  · cases h
  · simp only [Option.some.injEq, Prod.mk.injEq] at h
    obtain ⟨h1, h2⟩ := h
    left
    refine ⟨by rw [← h1, ← h2, List.take_append_drop], ?_⟩
    rw [← h1, List.length_take]
    split
    · rename_i p hp
      have := (List.idxOf?_eq_some_iff.mp hp).1
      rw [List.length_take] at this
      exact Nat.le_trans (Nat.min_le_left _ _) (Nat.succ_le_of_lt (Nat.lt_of_lt_of_le this (Nat.min_le_left _ _)))
    · rw [List.length_take]; omega

/-- what kerl's own reader delivers: NUL-free lines of at most 10239 bytes, together not longer than the input -/
theorem fallbackLines_props (stream : Bytes) :
    (∀ l ∈ fallbackLines stream, (0 : UInt8) ∉ l ∧ l.length ≤ 10239) ∧
    weight (fallbackLines stream) ≤ 3 * stream.length := by
  induction h : stream.length using Nat.strongRecOn generalizing stream with
  | _ n ih =>
    unfold fallbackLines
    split
    · exact ⟨fun l hl => by simp at hl, by simp [weight]⟩
    · rename_i l rest hfr
      unfold fallbackReadline at hfr
      split at hfr
      · cases hfr
      · rename_i chunk rest' hf
        simp only [Option.some.injEq, Prod.mk.injEq] at hfr
        obtain ⟨hl, hr⟩ := hfr
        subst hr
        have hlt := fgets_rest_lt (by decide : 2 ≤ 10240) hf
        have hch := fgets_chunk hf
        have hsplit : stream = chunk ++ rest' ∧ chunk.length ≤ 10239 := by
          rcases hch with h1 | h1
          · exact h1
          · exact absurd h1.2 (by decide)
        obtain ⟨ih1, ih2⟩ := ih rest'.length (by omega) rest' rfl
        have hsub : List.Sublist l chunk := by
          rw [← hl]; exact (chompEol_sub _).trans (List.takeWhile_sublist _)
        have hn : (0 : UInt8) ∉ l := by
          rw [← hl]
          intro hm
          have hm2 := (chompEol_sub _).subset hm
          have := all_takeWhile (fun (c : UInt8) => c != 0) chunk 0 hm2
          simp at this
        refine ⟨?_, ?_⟩
        · intro x hx
          rcases List.mem_cons.mp hx with hx | hx
          · rw [hx]; exact ⟨hn, Nat.le_trans hsub.length_le hsplit.2⟩
          · exact ih1 x hx
        · have hlen : stream.length = chunk.length + rest'.length := by
            conv => lhs; rw [hsplit.1]
            rw [List.length_append]
          have hcpos : 0 < chunk.length := by omega
          have := hsub.length_le
          simp only [weight, List.map_cons, List.sum_cons] at ih2 ⊢
          omega

/-- `find_command`: the first entry with exactly this name, or none when no entry has it -/
theorem findCommand_spec (name : Bytes) : ∀ (cmds : List (Bytes × CmdKind)),
    (∀ i k, findCommand cmds name = some (i, k) →
      ∃ c, cmds[i]? = some c ∧ c.1 = name ∧ c.2 = k ∧ ∀ j, j < i → ∀ c', cmds[j]? = some c' → c'.1 ≠ name) ∧
    (findCommand cmds name = none → ∀ c ∈ cmds, c.1 ≠ name)
  | [] => ⟨fun i k h => by simp [findCommand] at h, fun _ c hc => by simp at hc⟩
  | x :: xs => by
    obtain ⟨ih1, ih2⟩ := findCommand_spec name xs
    unfold findCommand at ih1 ih2 ⊢
    rw [List.findIdx?_cons]
    by_cases hx : (x.1 == name) = true
    · rw [if_pos hx]
      have hxe : x.1 = name := by simpa using hx
      refine ⟨fun i k h => ?_, fun h => (by simp at h)⟩
      simp only [List.getElem?_cons_zero, Option.map_some, Option.some.injEq, Prod.mk.injEq] at h
      obtain ⟨hi, hk⟩ := h
      subst hi
      exact ⟨x, rfl, hxe, hk, fun j hj => by omega⟩
    · rw [if_neg hx]
      have hxe : x.1 ≠ name := by simpa using hx
      cases hq : xs.findIdx? (fun c => c.1 == name) with
      | none =>
        rw [hq] at ih2
        simp only [Option.map_none]
        refine ⟨fun i k h => (by cases h), fun _ c hc => ?_⟩
        rcases List.mem_cons.mp hc with h | h
        · rw [h]; exact hxe
        · exact ih2 rfl c h
      | some q =>
        rw [hq] at ih1
        simp only [Option.map_some, List.getElem?_cons_succ]
        refine ⟨fun i k h => ?_, fun h => ?_⟩
        · cases hc : xs[q]? with
          | none => rw [hc] at h; cases h
          | some c =>
            rw [hc] at h
            simp only [Option.map_some, Option.some.injEq, Prod.mk.injEq] at h
            obtain ⟨hi, hk⟩ := h
            subst hi
            obtain ⟨c2, h1, h2, h3, h4⟩ := ih1 q k (by simp only []; rw [hc]; simp [hk])
            refine ⟨c2, by simpa using h1, h2, h3, fun j hj c' hc' => ?_⟩
            cases j with
            | zero => simp at hc'; rw [← hc']; exact hxe
            | succ j => exact h4 j (by omega) c' (by simpa using hc')
        · cases hc : xs[q]? with
          | none =>
            exfalso
            have := List.findIdx?_eq_some_iff_getElem.mp hq
            obtain ⟨hlt, _⟩ := this
            rw [List.getElem?_eq_getElem hlt] at hc; cases hc
          | some c => rw [hc] at h; simp at h

theorem fgets_nonempty {n : Nat} {stream chunk rest : Bytes} (hn : 2 ≤ n) (h : fgets n stream = some (chunk, rest)) :
    chunk ≠ [] := by
  intro h0
  have hlt := fgets_rest_lt hn h
  rcases fgets_chunk h with ⟨h1, _⟩ | ⟨h1, _⟩ <;> (rw [h1, h0] at hlt; simp at hlt)

/-- a buffer that holds some bytes and a terminator is a NUL-free string, its terminator, and something behind it -/
theorem cstring_decomp : ∀ (l tail : List UInt8), ∃ T, l ++ 0 :: tail = l.takeWhile (· != 0) ++ 0 :: T ∧
    (0 : UInt8) ∉ l.takeWhile (· != 0) ∧ (l.takeWhile (· != 0)).length ≤ l.length
  | [], tail => ⟨tail, rfl, by simp, Nat.le_refl _⟩
  | c :: cs, tail => by
    by_cases hc : c = 0
    · subst hc
      exact ⟨cs ++ 0 :: tail, by simp, by simp, by simp⟩
    · obtain ⟨T, h1, h2, h3⟩ := cstring_decomp cs tail
      have hb : (c != 0) = true := by simpa using hc
      refine ⟨T, ?_, ?_, ?_⟩
      · rw [List.takeWhile_cons, if_pos hb, List.cons_append, List.cons_append, h1]
      · rw [List.takeWhile_cons, if_pos hb]
        intro hm
        rcases List.mem_cons.mp hm with hm | hm
        · exact hc hm.symm
        · exact h2 hm
      · rw [List.takeWhile_cons, if_pos hb]; simp only [List.length_cons]; omega

/-- `if (len > 0 && buf[len-1] == '\n') buf[len-1] = 0;` stays inside the string, whatever the string is -/
theorem chopNewline_spec (s T : List UInt8) (hn : (0 : UInt8) ∉ s) :
    ∃ s' T', chopNewline (s ++ 0 :: T) = .ok (s' ++ 0 :: T') ∧ (0 : UInt8) ∉ s' ∧ s'.length ≤ s.length := by
  unfold chopNewline
  rw [cstr_ofStr_like, takeWhile_ne0_of_not_mem hn]
  simp only [bind, Except.bind]
  by_cases hpos : s.length > 0
  · rw [if_pos hpos]
    obtain ⟨v, _, hr⟩ := rd_in_prefix s (0 :: T) (s.length - 1) "kerl_set_history_file: buf[len-1]" (by omega)
    rw [hr]
    simp only []
    by_cases hv : (v == 10) = true
    · rw [if_pos hv]
      have hne : s ≠ [] := by intro h; rw [h] at hpos; simp at hpos
      have hdl : s = s.dropLast ++ [s.getLast hne] := (List.dropLast_concat_getLast hne).symm
      have hidx : s.length - 1 = s.dropLast.length := by rw [List.length_dropLast]
      have hmem : s ++ 0 :: T = s.dropLast ++ (s.getLast hne :: 0 :: T) := by
        conv => lhs; rw [hdl]
        simp
      rw [hidx, hmem, wr_at_prefix s.dropLast _ 0 _ (by simp)]
      simp only [List.tail_cons]
      refine ⟨s.dropLast, 0 :: T, by simp, fun h => hn (List.dropLast_subset _ h), by rw [List.length_dropLast]; omega⟩
    · rw [if_neg hv]
      exact ⟨s, T, rfl, hn, Nat.le_refl _⟩
  · rw [if_neg hpos]
    exact ⟨s, T, rfl, hn, Nat.le_refl _⟩

/-- reading a history file — ANY bytes — never leaves `char buf[1024]` -/
theorem historyLoadAux_ok : ∀ (fuel : Nat) (file : Bytes) (acc : List Bytes), ∃ r, historyLoadAux fuel file acc = .ok r
  | 0, _, acc => ⟨_, rfl⟩
  | fuel + 1, file, acc => by
    unfold historyLoadAux
    cases hf : fgets 1024 file with
    | none => exact ⟨_, rfl⟩
    | some p =>
      obtain ⟨chunk, rest⟩ := p
      simp only []
      have hsplit : file = chunk ++ rest ∧ chunk.length ≤ 1023 := by
        rcases fgets_chunk hf with h1 | h1
        · exact h1
        · exact absurd h1.2 (by decide)
      have hbuf : chunk ++ [0] ++ malloc (1024 - (chunk.length + 1)) = chunk ++ 0 :: malloc (1024 - (chunk.length + 1)) := by simp
      obtain ⟨T, hd, hsn, hsl⟩ := cstring_decomp chunk (malloc (1024 - (chunk.length + 1)))
      rw [hbuf, hd]
      obtain ⟨s', T', hc, hn', hl'⟩ := chopNewline_spec _ T hsn
      simp only [bind, Except.bind]
      rw [hc]
      simp only []
      obtain ⟨mem', hu⟩ := unescape_reuse_spec s' T' hn' (by unfold intMax; omega)
      rw [hu]
      exact historyLoadAux_ok fuel rest _

end Btcdeb.Proofs.Kerl
