/-
  Lemmas for C02 (signature opcodes), model side.

  1. Script codes that decode: FindAndDelete of a push pattern keeps a script code decodable (the pattern is one
     complete instruction, so what follows an occurrence is again at an instruction boundary).
  2. What a step asks its checker: `execOpcode` / `step` / `runOps` depend on the `Ctx` only through the queries they
     actually make — ECDSA on script codes derived from `pbegincodehash` by FindAndDelete of signature pushes,
     Schnorr with a 32-byte key and the session's execution data (up to budget and code-separator position),
     `CheckSequence` on non-negative operands.  Two checkers that agree on those queries give the same run
     (`runOps_congr`), provided the script decodes.
-/
import BtcdebProofs.Properties.Sighash
import BtcdebProofs.Refine.Run
namespace Btcdeb.Proofs.SigOps
open Btcdeb Btcdeb.Model Btcdeb.Refine Btcdeb.Proofs.Sighash Btcdeb.Proofs.C13

set_option linter.unusedSimpArgs false
set_option linter.unusedVariables false

/-! ## 1. script codes that decode -/

theorem decodePrefix_succ (fuel : Nat) (s : Bytes) (hs : s ≠ []) :
    Spec.decodePrefix (fuel + 1) s =
      match Spec.decodeOne s with
      | none => ([], false)
      | some (i, after) => ((i, after) :: (Spec.decodePrefix fuel after).1, (Spec.decodePrefix fuel after).2) := by
  cases s with
  | nil => exact absurd rfl hs
  | cons b rest =>
    simp only [Spec.decodePrefix]
    cases Spec.decodeOne (b :: rest) with
    | none => rfl
    | some p => rfl

/-- where an instruction of length `t` starts, the specification decodes one instruction and continues `t` bytes on -/
theorem decodeOne_of_instrLen {s : Bytes} {t : Nat} (h : instrLen s = some t) :
    ∃ i, Spec.decodeOne s = some (i, s.drop t) := by
  cases hg : getOp s with
  | none => rw [(getOp_none_iff s).mp hg] at h; cases h
  | some g =>
    obtain ⟨t', ht', _, _, hrest⟩ := getOp_some hg
    rw [h] at ht'; cases ht'
    have := getOp_decodeOne s
    rw [hg] at this
    simp only [Option.map_some] at this
    exact ⟨⟨g.opcode, g.data⟩, by rw [← this, hrest]⟩

theorem instrLen_of_decodeOne {s : Bytes} {i : Spec.Instr} {after : Bytes} (h : Spec.decodeOne s = some (i, after)) :
    ∃ t, instrLen s = some t ∧ after = s.drop t := by
  have hgo := getOp_decodeOne s
  rw [h] at hgo
  cases hg : getOp s with
  | none => rw [hg] at hgo; cases hgo
  | some g =>
    rw [hg] at hgo
    simp only [Option.map_some, Option.some.injEq, Prod.mk.injEq] at hgo
    obtain ⟨t, ht, _, _, hrest⟩ := getOp_some hg
    exact ⟨t, ht, by rw [← hgo.2, hrest]⟩

theorem parses_drop {s : Bytes} {t : Nat} (hp : Parses s) (h : instrLen s = some t) : Parses (s.drop t) := by
  cases hp with
  | nil => simp [instrLen] at h
  | step h' hp' => rw [h] at h'; cases h'; exact hp'

private theorem decodePrefix_of_parses {s : Bytes} (hp : Parses s) : ∀ fuel, s.length ≤ fuel → (Spec.decodePrefix fuel s).2 = true := by
  induction hp with
  | nil => intro fuel _; cases fuel <;> rfl
  | @step s t ht _ ih =>
    intro fuel hf
    have hb := instrLen_bounds ht
    have hs : s ≠ [] := by intro h; subst h; simp at hb; omega
    obtain ⟨f, rfl⟩ : ∃ f, fuel = f + 1 := ⟨fuel - 1, by omega⟩
    obtain ⟨i, hi⟩ := decodeOne_of_instrLen ht
    rw [decodePrefix_succ f s hs, hi]
    exact ih f (by simp only [List.length_drop]; omega)

/-- a sequence of complete instructions is a script the specification's decoder accepts (converse of `parses_of_decode`) -/
theorem decode_of_parses {s : Bytes} (hp : Parses s) : Spec.decode s ≠ none := by
  unfold Spec.decode Spec.decodeWithRest
  simp [decodePrefix_of_parses hp s.length (Nat.le_refl _)]

theorem parses_iff_decode (s : Bytes) : Parses s ↔ Spec.decode s ≠ none := ⟨decode_of_parses, parses_of_decode⟩

/-- the instruction in front of a script depends only on the instruction's own bytes -/
theorem instrLen_take_append {s : Bytes} {t : Nat} (h : instrLen s = some t) (x : Bytes) :
    instrLen (s.take t ++ x) = some t := by
  cases s with
  | nil => simp [instrLen] at h
  | cons b rest =>
    simp only [instrLen] at h
    by_cases h1 : b.toNat ≤ 0x4e
    · simp only [h1, if_true] at h
      by_cases h2 : rest.length < Spec.pushLenBytes b.toNat
      · simp [h2] at h
      · simp only [h2, if_false] at h
        generalize hlb : Spec.pushLenBytes b.toNat = lb at *
        generalize hn : (if lb = 0 then b.toNat else leValue (List.take lb rest)) = n at *
        by_cases h3 : (b :: rest).length < 1 + lb + n
        · simp only [List.length_cons] at h3; simp at h; omega
        · simp only [h3, if_false, Option.some.injEq] at h
          subst h
          simp only [List.length_cons] at h3
          have e1 : List.take (1 + lb + n) (b :: rest) = b :: List.take (lb + n) rest := by
            rw [show 1 + lb + n = (lb + n) + 1 by omega, List.take_succ_cons]
          rw [e1, List.cons_append]
          simp only [instrLen, h1, if_true, hlb]
          have hl : (List.take (lb + n) rest ++ x).length = lb + n + x.length := by
            simp only [List.length_append, List.length_take]; omega
          have ht : List.take lb (List.take (lb + n) rest ++ x) = List.take lb rest := by
            rw [List.take_append_of_le_length (by simp only [List.length_take]; omega), List.take_take]
            congr 1; omega
          have c1 : ¬ (List.take (lb + n) rest ++ x).length < lb := by omega
          rw [if_neg c1, ht, hn]
          have c2 : ¬ (b :: (List.take (lb + n) rest ++ x)).length < 1 + lb + n := by
            simp only [List.length_cons, hl]; omega
          rw [if_neg c2]
    · simp only [h1, if_false, Option.some.injEq] at h
      subst h
      simp [instrLen, h1]

theorem pushOf_ne_nil (b : Bytes) : Spec.pushOf b ≠ [] := by
  unfold Spec.pushOf; repeat' split
  all_goals simp

theorem pushOf_length_gt (b : Bytes) : b.length < (Spec.pushOf b).length := by
  unfold Spec.pushOf; repeat' split
  all_goals simp [leFixed_length]
  all_goals omega

/-- the push of `b` (below 2^32 bytes) is one instruction -/
theorem instrLen_pushOf (b r : Bytes) (hb : b.length < 2 ^ 32) :
    instrLen (Spec.pushOf b ++ r) = some (Spec.pushOf b).length := by
  unfold Spec.pushOf
  by_cases h1 : b.length < 0x4c
  · have hm : (UInt8.ofNat b.length).toNat = b.length := by
      simp only [UInt8.toNat_ofNat']; omega
    simp only [h1, if_true, List.cons_append, instrLen, hm, Spec.pushLenBytes]
    have : b.length ≤ 0x4e := by omega
    simp [this, h1]; omega
  · by_cases h2 : b.length ≤ 0xff
    · have hm : (UInt8.ofNat b.length).toNat = b.length := by
        simp only [UInt8.toNat_ofNat']; omega
      simp only [h1, h2, if_false, if_true, List.cons_append, instrLen, Spec.pushLenBytes]
      simp [hm]; omega
    · by_cases h3 : b.length ≤ 0xffff
      · simp only [h1, h2, h3, if_false, if_true, List.cons_append, instrLen, Spec.pushLenBytes]
        have hl := leFixed_length 2 b.length
        have hv : leValue (leFixed 2 b.length) = b.length := by
          rw [leValue_leFixed]; exact Nat.mod_eq_of_lt (by simp only [Nat.reducePow]; omega)
        have ht : List.take 2 (leFixed 2 b.length ++ b ++ r) = leFixed 2 b.length := by
          rw [List.append_assoc, List.take_append_of_le_length (by omega), List.take_of_length_le (by omega)]
        simp [ht, hv, hl]; omega
      · simp only [h1, h2, h3, if_false, List.cons_append, instrLen, Spec.pushLenBytes]
        have hl := leFixed_length 4 b.length
        have hv : leValue (leFixed 4 b.length) = b.length := by
          rw [leValue_leFixed]; exact Nat.mod_eq_of_lt (by simp only [Nat.reducePow] at hb ⊢; omega)
        have ht : List.take 4 (leFixed 4 b.length ++ b ++ r) = leFixed 4 b.length := by
          rw [List.append_assoc, List.take_append_of_le_length (by omega), List.take_of_length_le (by omega)]
        simp [ht, hv, hl]; omega

/-- FindAndDelete of a push pattern: the result is again a sequence of complete instructions, and not longer -/
theorem parses_deleteAt (sig : Bytes) : ∀ (fuel : Nat) (s : Bytes), Parses s → s.length < 2 ^ 32 →
    Parses (Spec.deleteAt fuel (Spec.pushOf sig) s).1 ∧ (Spec.deleteAt fuel (Spec.pushOf sig) s).1.length ≤ s.length := by
  intro fuel
  induction fuel with
  | zero => intro s hp _; exact ⟨hp, Nat.le_refl _⟩
  | succ f ih =>
    intro s hp hl
    have hne := pushOf_ne_nil sig
    by_cases hpre : (Spec.pushOf sig).isPrefixOf s = true
    · rw [deleteAt_succ_prefix f _ s hne hpre]
      obtain ⟨r, hr⟩ := List.isPrefixOf_iff_prefix.mp hpre
      have hlen : (Spec.pushOf sig).length ≤ s.length := by rw [← hr]; simp
      have hsig : sig.length < 2 ^ 32 := by have := pushOf_length_gt sig; omega
      have hi : instrLen s = some (Spec.pushOf sig).length := by rw [← hr]; exact instrLen_pushOf sig r hsig
      have hp' := parses_drop hp hi
      have := ih (s.drop (Spec.pushOf sig).length) hp' (by simp only [List.length_drop]; omega)
      exact ⟨this.1, by have h2 := this.2; simp only [List.length_drop] at h2 ⊢; omega⟩
    · have hpre' : (Spec.pushOf sig).isPrefixOf s = false := Bool.eq_false_iff.mpr hpre
      rw [deleteAt_succ_noprefix f _ s hne hpre']
      cases hi : instrLen s with
      | none => exact ⟨hp, Nat.le_refl _⟩
      | some t =>
        simp only
        have hb := instrLen_bounds hi
        have hp' := parses_drop hp hi
        have := ih (s.drop t) hp' (by simp only [List.length_drop]; omega)
        constructor
        · refine Parses.step (instrLen_take_append hi _) ?_
          rw [List.drop_append_of_le_length (by simp only [List.length_take]; omega), List.drop_of_length_le (by simp only [List.length_take]; omega),
            List.nil_append]
          exact this.1
        · have h2 := this.2
          simp only [List.length_drop] at h2
          simp only [List.length_append, List.length_take]; omega

/-- **FindAndDelete keeps script codes decodable.**  For a script code below 2^32 bytes that decodes, the script code
    with every push of `sig` removed decodes (and is not longer). -/
theorem decode_findAndDelete (s sig : Bytes) (hd : Spec.decode s ≠ none) (hl : s.length < 2 ^ 32) :
    Spec.decode (Spec.findAndDelete s (Spec.pushOf sig)).1 ≠ none ∧
      (Spec.findAndDelete s (Spec.pushOf sig)).1.length ≤ s.length := by
  have := parses_deleteAt sig (s.length + 1) s (parses_of_decode hd) hl
  exact ⟨decode_of_parses this.1, this.2⟩

/-! ## 2. what a step asks its checker -/

/-- the fields of `ScriptExecutionData` that no operation changes (everything but the code-separator position and the
    signature budget) -/
abbrev EdStatic := Bool × Bytes × Bool × Bool × Bool × Bytes × Bool × Option Bytes

def edStatic (ed : ExecData) : EdStatic :=
  (ed.tapleafHashInit, ed.tapleafHash, ed.codesepPosInit, ed.annexInit, ed.annexPresent, ed.annexHash, ed.weightInit, ed.outputHash)

/-- two checkers agree on every query that a session with signature version `sv` and static execution data `s0` makes:
    the hash functions, `CheckLowS` and `CheckLockTime` everywhere; `CheckSequence` on non-negative operands (the opcode
    refuses negative ones first); ECDSA on script codes that decode (legacy) or on all script codes (segwit v0);
    Schnorr (tapscript) with a 32-byte key and execution data whose static part is `s0`. -/
structure SameOn (cx cx' : Ctx) (sv : SigVersion) (s0 : EdStatic) : Prop where
  sha256 : cx.sha256 = cx'.sha256
  ripemd160 : cx.ripemd160 = cx'.ripemd160
  sha1 : cx.sha1 = cx'.sha1
  checkLowS : cx.checkLowS = cx'.checkLowS
  checkLockTime : cx.checkLockTime = cx'.checkLockTime
  checkSequence : ∀ n : Int, 0 ≤ n → cx.checkSequence n = cx'.checkSequence n
  ecdsa : ∀ sig key code, (sv = .BASE ∧ Spec.decode code ≠ none) ∨ sv = .WITNESS_V0 →
    cx.checkECDSA sig key code sv = cx'.checkECDSA sig key code sv
  schnorr : ∀ sig key ed, sv = .TAPSCRIPT → key.length = 32 → edStatic ed = s0 →
    cx.checkSchnorr sig key sv ed = cx'.checkSchnorr sig key sv ed

/-- what the queries of a session depend on: it is not a key-path context, in a legacy session the current script code
    decodes (and is below 2^32 bytes), and the static part of the execution data is `s0` -/
structure SigInv (e : SEE) (s0 : EdStatic) : Prop where
  sv : e.sigversion ≠ .TAPROOT
  code : e.sigversion = .BASE → Spec.decode e.pbegincodehash ≠ none ∧ e.pbegincodehash.length < 2 ^ 32
  static : edStatic e.execdata = s0

theorem SameOn.shape {cx cx' : Ctx} {sv : SigVersion} {s0 : EdStatic} (h : SameOn cx cx' sv s0) :
    cx' = { cx with checkSequence := cx'.checkSequence, checkECDSA := cx'.checkECDSA, checkSchnorr := cx'.checkSchnorr } := by
  obtain ⟨a1, a2, a3, a4, a5, a6, a7, a8⟩ := cx
  obtain ⟨b1, b2, b3, b4, b5, b6, b7, b8⟩ := cx'
  obtain ⟨h1, h2, h3, h4, h5, _, _, _⟩ := h
  simp only at h1 h2 h3 h4 h5
  subst h1 h2 h3 h4 h5
  rfl

theorem bind_congr_post {α β} {x : M α} {f g : α → M β} (Q : α → Prop) (hx : Post x Q) (h : ∀ a, Q a → f a = g a) :
    (x >>= f) = (x >>= g) := by
  cases hxa : x with
  | error _ => rfl
  | ok a => exact h a (hx a hxa)

theorem checkSignatureEncoding_congr {cx cx' : Ctx} (h : cx.checkLowS = cx'.checkLowS) (sig : Bytes) (flags : Nat) :
    checkSignatureEncoding cx sig flags = checkSignatureEncoding cx' sig flags := by
  unfold checkSignatureEncoding; rw [h]

theorem evalChecksigPreTapscript_congr {cx cx' : Ctx} {e : SEE} {s0 : EdStatic} (h : SameOn cx cx' e.sigversion s0) (hi : SigInv e s0)
    (hsv : e.sigversion = .BASE ∨ e.sigversion = .WITNESS_V0) (sig key : Bytes) :
    evalChecksigPreTapscript cx e sig key = evalChecksigPreTapscript cx' e sig key := by
  have hq : ∀ code, ((e.sigversion = .BASE ∧ Spec.decode code ≠ none) ∨ e.sigversion = .WITNESS_V0) →
      (do
        checkSignatureEncoding cx sig e.flags
        checkPubKeyEncoding key e.flags e.sigversion
        let ok := cx.checkECDSA sig key code e.sigversion
        if !ok && hasFlag e.flags Flag.NULLFAIL && sig.length != 0 then fail .SIG_NULLFAIL
        pure ok : M Bool) =
      (do
        checkSignatureEncoding cx' sig e.flags
        checkPubKeyEncoding key e.flags e.sigversion
        let ok := cx'.checkECDSA sig key code e.sigversion
        if !ok && hasFlag e.flags Flag.NULLFAIL && sig.length != 0 then fail .SIG_NULLFAIL
        pure ok : M Bool) := by
    intro code hc
    rw [checkSignatureEncoding_congr h.checkLowS, h.ecdsa sig key code hc]
  unfold evalChecksigPreTapscript
  rcases hsv with hb | hw
  · obtain ⟨hd, hl⟩ := hi.code hb
    have hfd := decode_findAndDelete e.pbegincodehash sig hd hl
    rw [← findAndDelete_eq, ← pushData_eq] at hfd
    have hbeq : (e.sigversion == SigVersion.BASE) = true := by rw [hb]; decide
    simp only [hbeq, if_true]
    by_cases hf : (decide ((findAndDelete e.pbegincodehash (pushData sig)).2 > 0) && hasFlag e.flags Flag.CONST_SCRIPTCODE) = true
    · simp only [hf, if_true]; rfl
    · simp only [hf, Bool.false_eq_true, if_false]
      exact hq _ (Or.inl ⟨hb, hfd.1⟩)
  · have : (e.sigversion == SigVersion.BASE) = false := by rw [hw]; decide
    simp only [this, Bool.false_eq_true, if_false]
    exact hq _ (Or.inr hw)

theorem evalChecksigTapscript_congr {cx cx' : Ctx} {e : SEE} {s0 : EdStatic} (h : SameOn cx cx' e.sigversion s0) (hi : SigInv e s0)
    (hsv : e.sigversion = .TAPSCRIPT) (sig key : Bytes) :
    evalChecksigTapscript cx e sig key = evalChecksigTapscript cx' e sig key := by
  unfold evalChecksigTapscript
  by_cases h32 : key.length = 32
  · have hk0 : (key.length == 0) = false := by simp [h32]
    have hk32 : (key.length == 32) = true := by simp [h32]
    simp only [hk0, hk32, Bool.false_eq_true, if_false, if_true]
    cases hs : sig.isEmpty
    · simp only [Bool.not_false, if_true]
      by_cases hwi : e.execdata.weightInit = true
      · simp only [hwi, Bool.not_true, Bool.false_eq_true, if_false]
        by_cases hlt : e.execdata.weightLeft - (Gen.VALIDATION_WEIGHT_PER_SIGOP_PASSED : Int) < 0
        · simp only [hlt, if_true]; rfl
        · simp only [hlt, if_false, pure_bind]
          rw [h.schnorr sig key _ hsv h32 (by rw [← hi.static]; simp [edStatic, hwi])]
      · simp only [hwi, Bool.not_false, if_true]; rfl
    · simp only [Bool.not_true, Bool.false_eq_true, if_false]
  · have hk32 : (key.length == 32) = false := by simp [h32]
    simp only [hk32, Bool.false_eq_true, if_false]

theorem evalChecksig_congr {cx cx' : Ctx} {e : SEE} {s0 : EdStatic} (h : SameOn cx cx' e.sigversion s0) (hi : SigInv e s0)
    (sig key : Bytes) : evalChecksig cx e sig key = evalChecksig cx' e sig key := by
  unfold evalChecksig
  split
  · rfl
  · have hnt := hi.sv
    cases hsv : e.sigversion with
    | BASE => simp only; rw [evalChecksigPreTapscript_congr h hi (Or.inl hsv)]
    | WITNESS_V0 => simp only; rw [evalChecksigPreTapscript_congr h hi (Or.inr hsv)]
    | TAPROOT => exact absurd hsv hnt
    | TAPSCRIPT => simp only; exact evalChecksigTapscript_congr h hi hsv sig key

/-- the matching loop of OP_CHECKMULTISIG asks the checker about one script code only -/
theorem multisigLoop_congr {cx cx' : Ctx} {e : SEE} {s0 : EdStatic} (h : SameOn cx cx' e.sigversion s0) (code : Bytes)
    (hc : (e.sigversion = .BASE ∧ Spec.decode code ≠ none) ∨ e.sigversion = .WITNESS_V0) (st : List Bytes) :
    ∀ (nKeys nSigs isig ikey : Nat),
      multisigLoop cx e code st nSigs nKeys isig ikey = multisigLoop cx' e code st nSigs nKeys isig ikey := by
  intro nKeys
  induction nKeys with
  | zero => intro nSigs isig ikey; cases nSigs <;> rfl
  | succ n ih =>
    intro nSigs isig ikey
    cases nSigs with
    | zero => rfl
    | succ m =>
      simp only [multisigLoop]
      simp only [checkSignatureEncoding_congr h.checkLowS, h.ecdsa _ _ code hc, ih]

-- OP_CHECKMULTISIG: the model branch cut in two (as in Refine/OpsMultisig.lean) -----------------------------

/-- body of the FindAndDelete `for` loop of OP_CHECKMULTISIG -/
private def fadBody (e : SEE) (E : List Bytes) (base : Nat) (k : Nat) (s : Bytes) : M (ForInStep Bytes) := do
  let sig ← top E (base + k)
  if (e.sigversion == SigVersion.BASE) = true then
    if (decide ((findAndDelete s (pushData sig)).snd > 0) && hasFlag e.flags Flag.CONST_SCRIPTCODE) = true then do
      fail ScriptError.SIG_FINDANDDELETE
      pure (ForInStep.yield (findAndDelete s (pushData sig)).fst)
    else pure (ForInStep.yield (findAndDelete s (pushData sig)).fst)
  else pure (ForInStep.yield s)

private def msTail (cx : Ctx) (e : SEE) (verify : Bool) (nKeys nSigs : Nat) : M SEE := do
  let st := e.stack
  let nOpCount := e.nOpCount + nKeys
  let isig := 2 + nKeys + 1
  let i := 2 + nKeys + 1 + nSigs
  let mut scriptCode := e.pbegincodehash
  for k in [0:nSigs] do
    let sig ← top st (isig + k)
    if e.sigversion == .BASE then
      let (sc, found) := findAndDelete scriptCode (pushData sig)
      scriptCode := sc
      if found > 0 && hasFlag e.flags Flag.CONST_SCRIPTCODE then fail .SIG_FINDANDDELETE
  let fSuccess ← multisigLoop cx e scriptCode st nSigs nKeys isig 2
  let sigs := (st.take (st.length - (2 + nKeys))).drop (st.length - (i - 1))
  if !fSuccess && hasFlag e.flags Flag.NULLFAIL && sigs.any (fun s => s.length != 0) then fail .SIG_NULLFAIL
  let st := st.take (st.length - (i - 1))
  if st.length < 1 then fail .INVALID_STACK_OPERATION
  let dummy ← top st 1
  if hasFlag e.flags Flag.NULLDUMMY && dummy.length != 0 then fail .SIG_NULLDUMMY
  let st ← pop st
  if verify then
    if fSuccess then sizeCheck { e with stack := st, nOpCount := nOpCount } else fail .CHECKMULTISIGVERIFY
  else sizeCheck { e with stack := st ++ [if fSuccess then vchTrue else vchFalse], nOpCount := nOpCount }

private def msModel (cx : Ctx) (e : SEE) (verify : Bool) : M SEE := do
  let st := e.stack
  if e.sigversion == .TAPSCRIPT then fail .TAPSCRIPT_CHECKMULTISIG
  if st.length < 1 then fail .INVALID_STACK_OPERATION
  let nKeys := getint (← num (← top st 1) e.requireMinimal)
  if nKeys < 0 || nKeys > (Gen.MAX_PUBKEYS_PER_MULTISIG : Int) then fail .PUBKEY_COUNT
  let nKeys := nKeys.toNat
  let nOpCount := e.nOpCount + nKeys
  if nOpCount > Gen.MAX_OPS_PER_SCRIPT then fail .OP_COUNT
  let i := 2 + nKeys
  if st.length < i then fail .INVALID_STACK_OPERATION
  let nSigs := getint (← num (← top st i) e.requireMinimal)
  if nSigs < 0 || nSigs > (nKeys : Int) then fail .SIG_COUNT
  let nSigs := nSigs.toNat
  let i := i + 1 + nSigs
  if st.length < i then fail .INVALID_STACK_OPERATION
  msTail cx e verify nKeys nSigs

private theorem model_eq1 (cx e fExec pc) : execOpcode cx e .OP_CHECKMULTISIG fExec pc = msModel cx e false := rfl
private theorem model_eq2 (cx e fExec pc) : execOpcode cx e .OP_CHECKMULTISIGVERIFY fExec pc = msModel cx e true := rfl

private def stepVal {β} : ForInStep β → β
  | .yield b => b
  | .done b => b

private theorem forIn_list_post {α β} (body : α → β → M (ForInStep β)) (P : β → Prop)
    (hb : ∀ a b, P b → Post (body a b) (fun r => P (stepVal r))) :
    ∀ (l : List α) (init : β), P init → Post (forIn l init body) P := by
  intro l
  induction l with
  | nil => intro init hi r hr; simp [pure, Except.pure] at hr; cases hr; exact hi
  | cons a l ih =>
    intro init hi r hr
    rw [List.forIn_cons] at hr
    cases hba : body a init with
    | error x => rw [hba] at hr; cases hr
    | ok s =>
      rw [hba] at hr
      have hs := hb a init hi s hba
      cases s with
      | done b => simp [pure, Except.pure] at hr; cases hr; exact hs
      | yield b => exact ih b hs r hr

private theorem fadBody_post (e : SEE) (E : List Bytes) (base k : Nat) (s : Bytes)
    (hs : (e.sigversion = .BASE ∧ Spec.decode s ≠ none ∧ s.length < 2 ^ 32) ∨ e.sigversion = .WITNESS_V0) :
    Post (fadBody e E base k s)
      (fun r => (e.sigversion = .BASE ∧ Spec.decode (stepVal r) ≠ none ∧ (stepVal r).length < 2 ^ 32) ∨ e.sigversion = .WITNESS_V0) := by
  intro r hr
  unfold fadBody at hr
  cases ht : top E (base + k) with
  | error x => rw [ht] at hr; cases hr
  | ok sig =>
    rw [ht] at hr
    simp only [ok_bind] at hr
    rcases hs with ⟨hb, hd, hl⟩ | hw
    · have hbeq : (e.sigversion == SigVersion.BASE) = true := by rw [hb]; decide
      have hfd := decode_findAndDelete s sig hd hl
      rw [← findAndDelete_eq, ← pushData_eq] at hfd
      simp only [hbeq, if_true] at hr
      split at hr
      · cases hr
      · cases hr; exact Or.inl ⟨hb, hfd.1, by have := hfd.2; simp only [stepVal]; omega⟩
    · exact Or.inr hw

private theorem msTail_congr {cx cx' : Ctx} {e : SEE} {s0 : EdStatic} (h : SameOn cx cx' e.sigversion s0) (hi : SigInv e s0)
    (hsv : e.sigversion = .BASE ∨ e.sigversion = .WITNESS_V0) (verify : Bool) (K N : Nat) :
    msTail cx e verify K N = msTail cx' e verify K N := by
  unfold msTail
  simp only [Std.Legacy.Range.forIn_eq_forIn_range', Std.Legacy.Range.size, Nat.sub_zero, Nat.add_sub_cancel, Nat.div_one]
  refine bind_congr_post (x := forIn (List.range' 0 N) e.pbegincodehash (fadBody e e.stack (2 + K + 1)))
    (fun code => (e.sigversion = .BASE ∧ Spec.decode code ≠ none ∧ code.length < 2 ^ 32) ∨ e.sigversion = .WITNESS_V0) ?_ ?_
  · apply forIn_list_post _ _ (fun a b hb => fadBody_post e e.stack _ a b hb)
    rcases hsv with hb | hw
    · exact Or.inl ⟨hb, (hi.code hb).1, (hi.code hb).2⟩
    · exact Or.inr hw
  · intro code hc
    have hc' : (e.sigversion = .BASE ∧ Spec.decode code ≠ none) ∨ e.sigversion = .WITNESS_V0 := by
      rcases hc with ⟨a, b, _⟩ | c
      · exact Or.inl ⟨a, b⟩
      · exact Or.inr c
    simp only [multisigLoop_congr h code hc']

private theorem msModel_congr {cx cx' : Ctx} {e : SEE} {s0 : EdStatic} (h : SameOn cx cx' e.sigversion s0) (hi : SigInv e s0)
    (verify : Bool) : msModel cx e verify = msModel cx' e verify := by
  unfold msModel
  by_cases ht : e.sigversion = .TAPSCRIPT
  · have : (e.sigversion == SigVersion.TAPSCRIPT) = true := by rw [ht]; decide
    simp only [this, if_true]; rfl
  · have hsv : e.sigversion = .BASE ∨ e.sigversion = .WITNESS_V0 := by
      have := hi.sv
      cases hs : e.sigversion <;> simp_all
    simp only [msTail_congr h hi hsv]

/-- **One opcode.**  The `switch (opcode)` gives the same result with two checkers that agree on the queries above. -/
theorem execOpcode_congr {cx cx' : Ctx} {e : SEE} {s0 : EdStatic} (h : SameOn cx cx' e.sigversion s0) (hi : SigInv e s0)
    (op : Opcode) (fExec : Bool) (pc : Bytes) : execOpcode cx e op fExec pc = execOpcode cx' e op fExec pc := by
  by_cases h1 : op = .OP_CHECKSIG
  · subst h1; simp only [execOpcode, evalChecksig_congr h hi]
  by_cases h2 : op = .OP_CHECKSIGVERIFY
  · subst h2; simp only [execOpcode, evalChecksig_congr h hi]
  by_cases h3 : op = .OP_CHECKSIGADD
  · subst h3; simp only [execOpcode, evalChecksig_congr h hi]
  by_cases h4 : op = .OP_CHECKMULTISIG
  · subst h4; rw [model_eq1, model_eq1]; exact msModel_congr h hi false
  by_cases h5 : op = .OP_CHECKMULTISIGVERIFY
  · subst h5; rw [model_eq2, model_eq2]; exact msModel_congr h hi true
  by_cases h6 : op = .OP_CHECKSEQUENCEVERIFY
  · subst h6
    simp only [execOpcode]
    split
    · rfl
    · by_cases hl : e.stack.length < 1
      · simp only [hl, if_true]; rfl
      · simp only [hl, if_false]
        refine bind_congr_post (fun _ => True) (fun _ _ => trivial) (fun _ _ => ?_)
        refine bind_congr_post (fun _ => True) (fun _ _ => trivial) (fun n _ => ?_)
        by_cases hn : n < 0
        · simp only [hn, if_true]; rfl
        · simp only [hn, if_false]
          rw [h.checkSequence n (by omega)]
  rw [h.shape]
  cases op <;> first | rfl | contradiction

/-! ## 3. what a step leaves alone: the script code moves only to the position after an OP_CODESEPARATOR, and the
      static part of the execution data never changes -/

def SigKept (e1 e : SEE) (pc : Bytes) : Prop :=
  (e1.pbegincodehash = e.pbegincodehash ∨ e1.pbegincodehash = pc) ∧ edStatic e1.execdata = edStatic e.execdata

def KeepsSig (m : M SEE) (e : SEE) (pc : Bytes) : Prop := ∀ e', m = .ok e' → SigKept e' e pc

theorem ks_bind {α} (x : M α) (f : α → M SEE) (e : SEE) (pc : Bytes) (h : ∀ a, KeepsSig (f a) e pc) : KeepsSig (x >>= f) e pc := by
  intro e' he
  cases x with
  | error _ => cases he
  | ok a => exact h a e' he
theorem ks_bind_post {α} (x : M α) (f : α → M SEE) (e : SEE) (pc : Bytes) (Q : α → Prop) (hx : Post x Q)
    (h : ∀ a, Q a → KeepsSig (f a) e pc) : KeepsSig (x >>= f) e pc := by
  intro e' he
  cases hxa : x with
  | error _ => rw [hxa] at he; cases he
  | ok a => rw [hxa] at he; exact h a (hx a hxa) e' he
theorem ks_fail (x : ScriptError) (e : SEE) (pc : Bytes) : KeepsSig (fail x) e pc := by intro e' he; cases he
theorem ks_error (x : StepErr) (e : SEE) (pc : Bytes) : KeepsSig (.error x) e pc := by intro e' he; cases he
theorem ks_ite (c : Prop) [Decidable c] (a b : M SEE) (e : SEE) (pc : Bytes) (ha : KeepsSig a e pc) (hb : KeepsSig b e pc) :
    KeepsSig (if c then a else b) e pc := by
  split <;> assumption
theorem ks_sizeCheck (e1 e : SEE) (pc : Bytes) (h : SigKept e1 e pc) : KeepsSig (sizeCheck e1) e pc := by
  intro e' he
  unfold sizeCheck at he
  split at he
  · cases he
  · cases he; exact h
theorem ks_pure (e1 e : SEE) (pc : Bytes) (h : SigKept e1 e pc) : KeepsSig (pure e1) e pc := by
  intro e' he; cases he; exact h

theorem sigKept_same (e1 e : SEE) (pc : Bytes) (h1 : e1.pbegincodehash = e.pbegincodehash) (h2 : edStatic e1.execdata = edStatic e.execdata) :
    SigKept e1 e pc := ⟨Or.inl h1, h2⟩

set_option hygiene false in
macro "ks" : tactic => `(tactic|
  repeat (first
    | (apply ks_fail)
    | (apply ks_error)
    | (apply ks_sizeCheck; first | exact ⟨Or.inl rfl, rfl⟩ | exact ⟨Or.inr rfl, rfl⟩ | (refine ⟨Or.inl rfl, ?_⟩; assumption))
    | (apply ks_pure; first | exact ⟨Or.inl rfl, rfl⟩ | exact ⟨Or.inr rfl, rfl⟩)
    | (apply ks_ite)
    | (apply ks_bind; intro _)
    ))

theorem evalChecksigTapscript_static (cx : Ctx) (e : SEE) (sig key : Bytes) :
    Post (evalChecksigTapscript cx e sig key) (fun r => edStatic r.2 = edStatic e.execdata) := by
  intro r hr
  unfold evalChecksigTapscript at hr
  simp only [bind, Except.bind, pure, Except.pure, fail] at hr
  repeat' (split at hr)
  all_goals (first | (cases hr; done) | (cases hr; rfl))

theorem evalChecksig_static (cx : Ctx) (e : SEE) (sig key : Bytes) :
    Post (evalChecksig cx e sig key) (fun r => edStatic r.2 = edStatic e.execdata) := by
  intro r hr
  unfold evalChecksig at hr
  simp only [bind, Except.bind, pure, Except.pure, fail] at hr
  split at hr
  · cases hr; rfl
  · split at hr
    · repeat' (split at hr)
      all_goals (first | (cases hr; done) | (cases hr; rfl))
    · repeat' (split at hr)
      all_goals (first | (cases hr; done) | (cases hr; rfl))
    · repeat' (split at hr)
      all_goals (first | (cases hr; done) | (cases hr; rfl))
    · exact evalChecksigTapscript_static cx e sig key r hr

theorem stepExtended_ks (e : SEE) (op : Opcode) (pc : Bytes) : KeepsSig (stepExtended e op) e pc := by
  cases op <;> simp only [stepExtended] <;> ks

set_option hygiene false in
macro "ks_sig" : tactic => `(tactic|
  repeat (first
    | (apply ks_fail)
    | (apply ks_error)
    | (apply ks_sizeCheck; first | exact ⟨Or.inl rfl, rfl⟩ | (refine ⟨Or.inl rfl, ?_⟩; assumption))
    | (apply ks_ite)
    | (apply ks_bind_post _ _ _ _ _ (evalChecksig_static _ _ _ _); intro _ _)
    | (apply ks_bind; intro _)
    ))

theorem execOpcode_ks (cx : Ctx) (e : SEE) (op : Opcode) (fExec : Bool) (pc : Bytes) :
    KeepsSig (execOpcode cx e op fExec pc) e pc := by
  cases op
  case OP_CHECKSIG => simp only [execOpcode]; ks_sig
  case OP_CHECKSIGVERIFY => simp only [execOpcode]; ks_sig
  case OP_CHECKSIGADD => simp only [execOpcode]; ks_sig
  all_goals (simp only [execOpcode]; first | exact stepExtended_ks e _ _ | ks)

theorem countOp_keeps (e : SEE) (n : Nat) :
    Post (countOp e n) (fun e1 => e1.pbegincodehash = e.pbegincodehash ∧ e1.execdata = e.execdata) := by
  intro e1 h
  rcases countOp_ok_cases h with rfl | rfl <;> exact ⟨rfl, rfl⟩

/-- a successful `StepScript`: the new position is the one after the decoded instruction; the script code is unchanged
    or starts there; the static part of the execution data is unchanged -/
theorem step_kept (cx : Ctx) (e : SEE) (pc : Bytes) :
    Post (step cx e pc) (fun r => (∃ g, getOp pc = some g ∧ r.2 = g.rest) ∧ SigKept r.1 e r.2) := by
  unfold step
  simp only []
  split
  · exact post_fail _ _
  · rename_i g hg
    refine post_ite _ _ _ _ (post_fail _ _) ?_
    refine post_bind (Q := fun e1 : SEE => e1.pbegincodehash = e.pbegincodehash ∧ e1.execdata = e.execdata) (countOp_keeps e _) ?_
    intro e1 h1
    have conv : ∀ e2 : SEE, SigKept e2 e1 g.rest → SigKept e2 e g.rest := by
      intro e2 h2
      unfold SigKept at h2 ⊢
      rw [← h1.1, ← h1.2]; exact h2
    refine post_ite _ _ _ _ (post_fail _ _) ?_
    refine post_ite _ _ _ _ (post_fail _ _) ?_
    refine post_ite _ _ _ _ ?_ ?_
    · refine post_ite _ _ _ _ (post_fail _ _) ?_
      refine post_bind (Q := fun e2 : SEE => SigKept e2 e g.rest) ?_ ?_
      · exact fun e2 h2 => conv e2 (ks_sizeCheck { e1 with stack := e1.stack ++ [g.data] } e1 g.rest ⟨Or.inl rfl, rfl⟩ e2 h2)
      · intro e2 h2; exact post_pure _ _ ⟨⟨g, hg, rfl⟩, h2⟩
    · refine post_ite _ _ _ _ ?_ ?_
      · refine post_bind (Q := fun e2 : SEE => SigKept e2 e g.rest) ?_ ?_
        · exact fun e2 h2 => conv e2 (execOpcode_ks cx e1 _ _ g.rest e2 h2)
        · intro e2 h2; exact post_pure _ _ ⟨⟨g, hg, rfl⟩, h2⟩
      · refine post_bind (Q := fun e2 : SEE => SigKept e2 e g.rest) ?_ ?_
        · exact fun e2 h2 => conv e2 (ks_sizeCheck _ e1 g.rest ⟨Or.inl rfl, rfl⟩ e2 h2)
        · intro e2 h2; exact post_pure _ _ ⟨⟨g, hg, rfl⟩, h2⟩

/-- **One step.**  `StepScript` gives the same result with two checkers that agree on the queries above. -/
theorem step_congr {cx cx' : Ctx} {e : SEE} {s0 : EdStatic} (h : SameOn cx cx' e.sigversion s0) (hi : SigInv e s0) (pc : Bytes) :
    step cx e pc = step cx' e pc := by
  unfold step
  cases hg : getOp pc with
  | none => rfl
  | some g =>
    simp only []
    split
    · rfl
    · refine bind_congr_post (fun e1 => e1 = e ∨ e1 = { e with nOpCount := e.nOpCount + 1 }) (fun a ha => countOp_ok_cases ha) ?_
      intro e1 he1
      have h1 : SameOn cx cx' e1.sigversion s0 := by rcases he1 with rfl | rfl <;> exact h
      have hi1 : SigInv e1 s0 := by rcases he1 with rfl | rfl <;> exact ⟨hi.sv, hi.code, hi.static⟩
      simp only [execOpcode_congr h1 hi1]

/-- the invariant a session carries from operation to operation -/
structure RunInv (e : IEnv) (s0 : EdStatic) : Prop where
  sig : SigInv e.see s0
  pc : Parses e.pc
  len : e.see.sigversion = .BASE → e.pc.length < 2 ^ 32

theorem step_runInv (cx : Ctx) (e : IEnv) (s0 : EdStatic) (hi : RunInv e s0) (see' : SEE) (pc' : Bytes)
    (h : step cx e.see e.pc = .ok (see', pc')) :
    SigInv see' s0 ∧ Parses pc' ∧ pc'.length < e.pc.length ∧ see'.sigversion = e.see.sigversion := by
  obtain ⟨⟨g, hg, hrest⟩, hk1, hk2⟩ := step_kept cx e.see e.pc _ h
  have hfr := step_frame cx e.see see' e.pc pc' h
  simp only [SEE.frame, Prod.mk.injEq] at hfr
  have hsv : see'.sigversion = e.see.sigversion := hfr.2.2.1
  have hlt : pc'.length < e.pc.length := step_pc cx e.see e.pc _ h
  simp only at hrest hk1 hk2
  obtain ⟨t, ht, _, _, hdrop⟩ := getOp_some hg
  have hp' : Parses pc' := by rw [hrest, hdrop]; exact parses_drop hi.pc ht
  refine ⟨⟨by rw [hsv]; exact hi.sig.sv, ?_, by rw [hk2]; exact hi.sig.static⟩, hp', hlt, hsv⟩
  intro hb
  rw [hsv] at hb
  rcases hk1 with hk | hk
  · rw [hk]; exact hi.sig.code hb
  · rw [hk]; exact ⟨decode_of_parses hp', by have := hi.len hb; omega⟩

/-- **Whole run.**  Stepping through a script that decodes gives the same states and the same outcome with two checkers
    that agree on the queries a session makes. -/
theorem runOps_congr (cx cx' : Ctx) (tc : TapCtx) (s0 : EdStatic) :
    ∀ (fuel : Nat) (e : IEnv), e.tce = none → SameOn cx cx' e.see.sigversion s0 → RunInv e s0 →
      runOps cx tc fuel e = runOps cx' tc fuel e := by
  intro fuel
  induction fuel with
  | zero => intro e _ _ _; rfl
  | succ fuel ih =>
    intro e ht h hi
    by_cases hpc : e.pc.isEmpty = true
    · simp only [runOps, hpc, if_true]
    · have hne : e.pc.isEmpty = false := by simpa using hpc
      simp only [runOps, hne, Bool.false_eq_true, if_false]
      rw [stepSession_op cx tc e ht hne, stepSession_op cx' tc e ht hne, ← step_congr h hi.sig]
      cases hm : step cx e.see e.pc with
      | error x => rfl
      | ok r =>
        obtain ⟨see', pc'⟩ := r
        obtain ⟨h1, h2, h3, h4⟩ := step_runInv cx e s0 hi see' pc' hm
        simp only [ok_bind, pure, Except.pure]
        let e' : IEnv := { e with see := { see' with opcodePos := see'.opcodePos + 1 }, pc := pc',
                                  history := e.snapshot :: e.history, currOpSeq := e.currOpSeq + 1 }
        have hsame : SameOn cx cx' e'.see.sigversion s0 := by
          show SameOn cx cx' see'.sigversion s0; rw [h4]; exact h
        have hinv : RunInv e' s0 :=
          ⟨⟨h1.sv, h1.code, h1.static⟩, h2, fun hb => by
            have hb' : see'.sigversion = .BASE := hb
            have := hi.len (by rw [← h4]; exact hb')
            show pc'.length < _; omega⟩
        have hih := ih e' ht hsame hinv
        show (e' :: (runOps cx tc fuel e').1, (runOps cx tc fuel e').2) = (e' :: (runOps cx' tc fuel e').1, (runOps cx' tc fuel e').2)
        rw [hih]

end Btcdeb.Proofs.SigOps
