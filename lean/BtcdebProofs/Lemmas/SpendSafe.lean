/-
  Start-up of a `--tx` session (`Model.spendSetup`): the only effectful part is the evaluation of the
  `--pretend-valid` fields through the value-expression parser; everything else is pure and ends in a refusal
  or in a session whose environment satisfies the invariants of `Lemmas/SessionSafe.lean` and whose signature
  checker is built for an input index that exists.
-/
import Btcdeb
import BtcdebProofs.Lemmas.SessionSafe
import BtcdebProofs.Lemmas.ValueNoAbn
namespace Btcdeb.Model
open Btcdeb

/-- what `configure_tx_txin` leaves: the execution data is initialised as the signature version it chose requires -/
theorem configureTxTxin_edReady (h : HashCtx) (tc : TapCtx) (tx txin : Tx) (idx vout : Nat) (sv : SigVersion)
    (c : Configured) (hc : configureTxTxin h tc tx txin idx vout sv = some c) : EdReady c.sigver c.execdata := by
  unfold configureTxTxin at hc
  split at hc
  next inp spent hinp hspent =>
    extract_lets wstack scriptSig scriptPubKey amount validationQ at hc
    split at hc
    next hwl =>
      split at hc
      · cases hc
      · cases hc; simp [EdReady]
    next wlast hwl =>
      extract_lets hasAnnex stack ed rest at hc
      generalize hvdef : validationQ = vq at hc
      split at hc
      · cases hc
      next validation =>
        by_cases hvlen : (validation.length != 22 && validation.length != 34) = true
        · rw [if_pos hvlen] at hc; cases hc
        · rw [if_neg hvlen] at hc
          extract_lets wsh at hc
          split at hc
          · cases hc
          next v1 hv1 =>
            split at hc
            · cases hc
            next hop =>
              extract_lets witprogver at hc
              split at hc
              · cases hc
              next v2 hv2 =>
                extract_lets program hashOk validation' at hc
                by_cases hpl : (List.length program != if wsh = true then 32 else 20) = true
                · rw [if_pos hpl] at hc; cases hc
                · rw [if_neg hpl] at hc
                  by_cases hw : (witprogver == 0) = true
                  · rw [if_pos hw] at hc
                    split at hc
                    · cases hc
                    · split at hc
                      split at hc
                      · cases hc
                      · split at hc
                        · cases hc
                        · cases hc; simp [EdReady]
                  · rw [if_neg hw] at hc
                    by_cases h32 : (List.length program != 32) = true
                    · rw [if_pos h32] at hc; cases hc
                    · rw [if_neg h32] at hc
                      by_cases hst : (stack.length == 1) = true
                      · rw [if_pos hst] at hc
                        split at hc
                        · cases hc
                        · cases hc; simp [EdReady, ed]
                      · rw [if_neg hst] at hc
                        split at hc
                        next control leafScript hctl hleaf =>
                          split at hc
                          · cases hc
                          next hgate =>
                            extract_lets tce ed' at hc
                            split at hc
                            · cases hc
                            next hlv =>
                              split at hc
                              · cases hc
                              split at hc
                              · cases hc
                              split at hc
                              · cases hc
                              · cases hc; simp [EdReady, ed, ed']
                        · cases hc
  · cases hc

/-- the `--txin` part of `spendSetup` -/
def spendSel (h : HashCtx) (a : SpendArgs) (tx : Tx) : Except SpendRefusal (Option (Tx × Nat × Nat)) :=
  match a.txinText with
  | none => .ok none
  | some t =>
    match parseTxHex t with
    | none => .error .txin
    | some (txin, _) =>
      match parseInputTransaction h tx txin a.select with
      | none => .error .txin
      | some (i, n) => .ok (some (txin, i, n))

/-- the part of `spendSetup` after the options have been read: pure -/
def spendTail (h : HashCtx) (tc : TapCtx) (cb : CheckerBuilder) (a : SpendArgs) (amts : List Int) (tx : Tx)
    (sel : Option (Tx × Nat × Nat)) (pm : List (Bytes × Bytes)) (pk : List Bytes) : Except SpendRefusal SpendSession :=
  let amounts := padAmounts amts tx.vin.length
  let sigver0 : SigVersion := if hasWitness tx then .WITNESS_V0 else .BASE
  let auto := sel.isSome && a.stackArgs.isEmpty && (a.script.getD []).isEmpty
  let conf? : Except SpendRefusal Configured :=
    match sel, auto with
    | some (txin, i, n), true =>
      match configureTxTxin h tc tx txin i n sigver0 with
      | none => .error .configure
      | some c => .ok c
    | _, _ => .ok { sigver := sigver0, script := a.script.getD [], stack := a.stackArgs, amount := 0 }
  match conf? with
  | .error r => .error r
  | .ok conf =>
    let (nIn, amount) : Nat × Int :=
      match sel with
      | some (_, i, _) => (i, if auto then conf.amount else amounts.getD i 0)
      | none => (0, amounts.getD 0 0)
    let init : Option (List TxOut × Bool) :=
      match sel with
      | some (txin, _, n) => if tx.vin.length == 1 then (txin.vout[n]?).map (fun o => ([o], conf.hasPreamble)) else none
      | none => none
    let cx := cb.build tx nIn amount init
    match setupEnvironment conf.stack conf.script a.flags conf.sigver conf.successor a.allowDisabled conf.execdata conf.tce pm pk with
    | .error e => .error (.env e)
    | .ok env =>
      .ok { env := env, cx := cx, conf := conf,
            txinIndex := match sel with | some (_, i, _) => i | none => -1,
            voutIndex := match sel with | some (_, _, n) => n | none => -1 }


set_option hygiene false in
macro "spend_fin" : tactic => `(tactic|
  (try simp only [Option.isSome_none, Option.isSome_some, Bool.false_and, Bool.true_and, Option.getD_none, Option.getD_some,
      Bool.false_eq_true, if_false, List.isEmpty_nil, Bool.and_true, Bool.and_false, Bool.not_true, Bool.not_false, if_true]
   try dsimp only
   try (cases configureTxTxin h tc tx txin i nn (if hasWitness tx then SigVersion.WITNESS_V0 else SigVersion.BASE) <;> dsimp only)
   repeat (first | rfl | (split <;> rename_i hq <;> (try rw [hq])))))

set_option hygiene false in
macro "spend_script" : tactic => `(tactic|
  (cases a.script with
   | none => cases a.stackArgs.isEmpty <;> spend_fin
   | some s =>
     dsimp only
     by_cases hv : hasValidOps s = true
     · simp only [hv, Option.getD_some]
       cases a.stackArgs.isEmpty <;> by_cases hse : s.isEmpty = true <;> (try simp only [hse]) <;> spend_fin
     · simp only [hv]; spend_fin))

set_option hygiene false in
macro "spend_pretend" : tactic => `(tactic|
  (cases a.pretend with
   | none => dsimp only; spend_script
   | some p =>
     dsimp only
     cases parsePretendValidExpr vcx p with
     | error e => rfl
     | ok v =>
       cases v with
       | none => rfl
       | some r4 => obtain ⟨pm, pk⟩ := r4; dsimp only; spend_script))

/-- `if (!script.HasValidOps())` for an explicitly given script -/
def scriptBad (a : SpendArgs) : Bool :=
  match a.script with
  | some s => !hasValidOps s
  | none => false

/-- `spendSetup`, restructured: the only effectful part is the evaluation of the `--pretend-valid` fields -/
theorem spendSetup_eq (h : HashCtx) (tc : TapCtx) (vcx : VCtx) (cb : CheckerBuilder) (a : SpendArgs) :
    spendSetup h tc vcx cb a =
      match parseTransactionArg a.txText with
      | none => .ok (.error .tx)
      | some (amts, tx, _) =>
        match spendSel h a tx with
        | .error r => .ok (.error r)
        | .ok sel =>
          match (match a.pretend with
                 | none => (.ok (some ([], [])) : VM _)
                 | some p => parsePretendValidExpr vcx p) with
          | .error e => .error e
          | .ok none => .ok (.error .pretend)
          | .ok (some (pm, pk)) =>
            if scriptBad a then .ok (.error .script)
            else .ok (spendTail h tc cb a amts tx sel pm pk) := by
  unfold spendSetup spendSel spendTail scriptBad
  simp only [bind, Except.bind, pure, Except.pure]
  cases parseTransactionArg a.txText with
  | none => rfl
  | some r =>
    obtain ⟨amts, tx, n⟩ := r
    dsimp only
    cases a.txinText with
    | none => dsimp only; spend_pretend
    | some t =>
      dsimp only
      cases parseTxHex t with
      | none => rfl
      | some r2 =>
        obtain ⟨txin, m⟩ := r2
        dsimp only
        cases parseInputTransaction h tx txin a.select with
        | none => rfl
        | some r3 =>
          obtain ⟨i, nn⟩ := r3
          dsimp only
          spend_pretend

/-! ## facts about the pieces -/

theorem parseTransactionArg_vin {text : Bytes} {amts : List Int} {tx : Tx} {n : Nat}
    (h : parseTransactionArg text = some (amts, tx, n)) : 0 < tx.vin.length := by
  unfold parseTransactionArg at h
  simp only at h
  split at h
  · cases h
  · split at h
    · cases h
    · split at h
      · cases h
      · rename_i hne
        simp only [Option.some.injEq, Prod.mk.injEq] at h
        obtain ⟨_, htx, _⟩ := h
        subst htx
        exact List.length_pos_iff.mpr (by simpa using hne)

theorem parseInputTransaction_lt {h : HashCtx} {tx txin : Tx} {select : Int} {i n : Nat}
    (hp : parseInputTransaction h tx txin select = some (i, n)) : i < tx.vin.length ∧ n < txin.vout.length := by
  unfold parseInputTransaction at hp
  simp only at hp
  split at hp
  · cases hp
  · rename_i k m hfound
    split at hp
    · cases hp
    · rename_i hlt
      simp only [Option.some.injEq, Prod.mk.injEq] at hp
      obtain ⟨rfl, rfl⟩ := hp
      refine ⟨?_, by omega⟩
      split at hfound
      · split at hfound
        · cases hfound
        · rename_i inp hinp
          split at hfound
          · cases hfound
          · simp only [Option.some.injEq, Prod.mk.injEq] at hfound
            obtain ⟨rfl, _⟩ := hfound
            exact (List.getElem?_eq_some_iff.mp hinp).1
      · split at hfound
        · cases hfound
        · rename_i k' hk'
          cases hg : tx.vin[k']? with
          | none => simp [hg] at hfound
          | some inp =>
            simp only [hg, Option.map_some, Option.some.injEq, Prod.mk.injEq] at hfound
            obtain ⟨rfl, _⟩ := hfound
            exact (List.getElem?_eq_some_iff.mp hg).1

theorem spendSel_some {h : HashCtx} {a : SpendArgs} {tx txin : Tx} {i n : Nat}
    (hs : spendSel h a tx = .ok (some (txin, i, n))) : i < tx.vin.length ∧ n < txin.vout.length := by
  unfold spendSel at hs
  split at hs
  · cases hs
  · split at hs
    · cases hs
    · split at hs
      · cases hs
      · rename_i hp
        simp only [Except.ok.injEq, Option.some.injEq, Prod.mk.injEq] at hs
        obtain ⟨rfl, rfl, rfl⟩ := hs
        exact parseInputTransaction_lt hp

/-- what a successfully started session satisfies -/
structure SpendSession.Good (cb : CheckerBuilder) (s : SpendSession) : Prop where
  /-- the environment satisfies the session invariants -/
  safe : s.env.Safe
  /-- the checker was built for an input that exists, and `txdata.Init` was given one spent output per input
      (so its `assert(m_spent_outputs.size() == txTo.vin.size())` holds) -/
  checker : ∃ (tx : Tx) (nIn : Nat) (amount : Int) (init : Option (List TxOut × Bool)),
    s.cx = cb.build tx nIn amount init ∧ nIn < tx.vin.length ∧
    ∀ spent force, init = some (spent, force) → spent.length = tx.vin.length

theorem spendTail_good (h : HashCtx) (tc : TapCtx) (cb : CheckerBuilder) (a : SpendArgs) (amts : List Int) (tx : Tx)
    (sel : Option (Tx × Nat × Nat)) (pm : List (Bytes × Bytes)) (pk : List Bytes) (s : SpendSession)
    (hvin : 0 < tx.vin.length) (hsel : ∀ txin i n, sel = some (txin, i, n) → i < tx.vin.length)
    (hs : spendTail h tc cb a amts tx sel pm pk = .ok s) : s.Good cb := by
  unfold spendTail at hs
  simp only at hs
  split at hs
  · cases hs
  · rename_i conf hconf
    split at hs
    · cases hs
    · rename_i env henv
      cases hs
      have hed : EdReady conf.sigver conf.execdata := by
        split at hconf
        · split at hconf
          · cases hconf
          · rename_i hc
            cases hconf
            exact configureTxTxin_edReady h tc tx _ _ _ _ _ hc
        · cases hconf
          refine ⟨fun hh => ?_, fun hh => ?_⟩ <;> (simp only at hh; split at hh <;> cases hh)
      refine ⟨setupEnvironment_safe henv hed, tx, _, _, _, rfl, ?_, ?_⟩
      · cases sel with
        | none => exact hvin
        | some r => obtain ⟨txin, i, n⟩ := r; exact hsel txin i n rfl
      · intro spent force hinit
        cases sel with
        | none => cases hinit
        | some r =>
          obtain ⟨txin, i, n⟩ := r
          simp only at hinit
          split at hinit
          · rename_i h1
            cases ho : txin.vout[n]? with
            | none => simp [ho] at hinit
            | some o =>
              simp only [ho, Option.map_some, Option.some.injEq, Prod.mk.injEq] at hinit
              obtain ⟨rfl, _⟩ := hinit
              have : tx.vin.length = 1 := by simpa using h1
              simp [this]
          · cases hinit

/-! ## the start-up as a whole -/

/-- the ONLY way `spendSetup` ends abnormally is an abnormal outcome of the value-expression evaluator on the
    `--pretend-valid` text -/
theorem spendSetup_abnormal_only_pretend (h : HashCtx) (tc : TapCtx) (vcx : VCtx) (cb : CheckerBuilder) (a : SpendArgs)
    (k : String) (hk : spendSetup h tc vcx cb a = .error (.abnormal k)) :
    ∃ p, a.pretend = some p ∧ parsePretendValidExpr vcx p = .error (.abnormal k) := by
  rw [spendSetup_eq] at hk
  split at hk
  · cases hk
  · split at hk
    · cases hk
    · cases hp : a.pretend with
      | none => simp only [hp] at hk; split at hk <;> cases hk
      | some p =>
        simp only [hp] at hk
        refine ⟨p, rfl, ?_⟩
        cases hpp : parsePretendValidExpr vcx p with
        | error e =>
          simp only [hpp] at hk
          cases hk; rfl
        | ok v =>
          simp only [hpp] at hk
          split at hk
          · rename_i hq; cases hq
          · cases hk
          · split at hk <;> cases hk

/-- a session that `spendSetup` starts is `Good` -/
theorem spendSetup_good (h : HashCtx) (tc : TapCtx) (vcx : VCtx) (cb : CheckerBuilder) (a : SpendArgs) (s : SpendSession)
    (hk : spendSetup h tc vcx cb a = .ok (.ok s)) : s.Good cb := by
  rw [spendSetup_eq] at hk
  split at hk
  · cases hk
  · rename_i amts tx n hpt
    have hvin := parseTransactionArg_vin hpt
    split at hk
    · cases hk
    · rename_i sel hsel
      have hsel' : ∀ txin i n, sel = some (txin, i, n) → i < tx.vin.length := by
        intro txin i n he; subst he; exact (spendSel_some hsel).1
      split at hk
      · cases hk
      · cases hk
      · rename_i pm pk _
        split at hk
        · cases hk
        · simp only [Except.ok.injEq] at hk
          exact spendTail_good h tc cb a amts tx sel pm pk s hvin hsel' hk

/-! ## the `--pretend-valid` evaluator -/

theorem pretendLoop_noabn (vcx : VCtx) : ∀ (fuel : Nat) (text : Bytes) (st : PretendState),
    VNoAbn (pretendLoop vcx fuel text st) := by
  intro fuel
  induction fuel with
  | zero => intro text st k h; simp [pretendLoop, pure, Except.pure] at h
  | succ n ih =>
    intro text st k h
    simp only [pretendLoop] at h
    split at h
    · simp [pure, Except.pure] at h
    · simp only [bind, Except.bind, pure, Except.pure] at h
      split at h
      · cases h
      · cases hv : valueData vcx (pretendField text []).1 with
        | error e =>
          simp only [hv] at h
          cases h
          exact valueData_noabn vcx _ k hv
        | ok s =>
          simp only [hv] at h
          split at h
          · split at h
            · cases h
            · exact ih _ _ k h
          · split at h
            · cases h
            · exact ih _ _ k h

/-- `--pretend-valid=…` never ends abnormally (an `int(…)` overflow in a field is a C++ exception that `main`
    catches: `error parsing --pretend-valid: script number overflow`, exit status 1) -/
theorem parsePretendValidExpr_noabn (vcx : VCtx) (expr : Bytes) : VNoAbn (parsePretendValidExpr vcx expr) := by
  intro k h
  unfold parsePretendValidExpr at h
  simp only [bind, Except.bind, pure, Except.pure] at h
  split at h
  · rename_i e he
    cases h
    exact pretendLoop_noabn vcx _ _ _ k he
  · split at h
    · cases h
    · split at h <;> cases h

/-- `spendSetup` never ends abnormally -/
theorem spendSetup_noabn (h : HashCtx) (tc : TapCtx) (vcx : VCtx) (cb : CheckerBuilder) (a : SpendArgs) :
    VNoAbn (spendSetup h tc vcx cb a) := by
  intro k hk
  obtain ⟨p, _, hp⟩ := spendSetup_abnormal_only_pretend h tc vcx cb a k hk
  exact parsePretendValidExpr_noabn vcx p k hp

end Btcdeb.Model
