/- Helper lemmas for the script-number codec (C18). -/
import Btcdeb.Model.ScriptNum
import Btcdeb.Spec.ScriptNum
import BtcdebProofs.Lemmas.LE
namespace Btcdeb
open Model

theorem hi_iff (b : UInt8) : hi b = true ↔ 128 ≤ b.toNat := by simp [hi]
theorem hi_false_iff (b : UInt8) : hi b = false ↔ b.toNat < 128 := by simp [hi]

theorem lo7_of_hi {b : UInt8} (h : hi b = true) : lo7 b = b.toNat - 128 := by
  have := u8_lt b; have := (hi_iff b).mp h; unfold lo7; omega
theorem lo7_of_not_hi {b : UInt8} (h : hi b = false) : lo7 b = b.toNat := by
  have := (hi_false_iff b).mp h; unfold lo7; omega

theorem toNat_ofNat_add128 {a : UInt8} (h : a.toNat < 128) : (UInt8.ofNat (a.toNat + 128)).toNat = a.toNat + 128 := by
  rw [UInt8.toNat_ofNat']; omega

/-- `set_vch` on a string split at its last byte -/
theorem setVch_snoc (ys : Bytes) (a : UInt8) :
    setVch (ys ++ [a]) =
      if hi a then -(((leValue ys + 256 ^ ys.length * (a.toNat - 128) : Nat)) : Int)
      else ((leValue ys + 256 ^ ys.length * a.toNat : Nat) : Int) := by
  unfold setVch
  simp only [getLast?_snoc, List.length_append, List.length_cons, List.length_nil, Nat.add_sub_cancel, leValue_snoc]
  generalize 256 ^ ys.length = P
  split
  · rename_i h
    have h128 := (hi_iff a).mp h
    have : P * a.toNat = P * (a.toNat - 128) + 128 * P := by
      rw [Nat.mul_comm 128, ← Nat.mul_add]; congr 1; omega
    rw [this]
    generalize P * (a.toNat - 128) = Q
    have h2 : leValue ys + (Q + 128 * P) - 128 * P = leValue ys + Q := by omega
    rw [h2]
  · rfl

theorem numValue_snoc (ys : Bytes) (a : UInt8) :
    Spec.numValue (ys ++ [a]) =
      if hi a then -(((leValue ys + 256 ^ ys.length * lo7 a : Nat)) : Int)
      else ((leValue ys + 256 ^ ys.length * lo7 a : Nat) : Int) := by
  unfold Spec.numValue
  simp

theorem minimalOk_snoc (ys : Bytes) (a : UInt8) :
    minimalOk (ys ++ [a]) =
      if lo7 a == 0 then (match ys.getLast? with | none => false | some p => hi p) else true := by
  unfold minimalOk
  cases h : ys.getLast? <;> simp [h]

end Btcdeb
