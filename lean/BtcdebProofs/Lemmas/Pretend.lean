/-
  Lemmas for C11: the text-splitting functions of the `--pretend-valid` parser (model `pretendField`,
  specification `splitAt`) and the tables built by `pretendInsert` (a set of pairs).
-/
import Btcdeb
set_option linter.unusedSimpArgs false
set_option linter.unusedVariables false
namespace Btcdeb.Proofs.Pretend
open Btcdeb Btcdeb.Model

-- ---------------------------------------------------------------------------------------------
-- splitting

/-- no comma, no colon -/
def NoSep (f : Bytes) : Prop := ∀ c ∈ f, c ≠ 44 ∧ c ≠ 58

theorem pretendField_acc (t acc : Bytes) :
    ∃ f sep rest, pretendField t acc = (acc.reverse ++ f, sep, rest) ∧ NoSep f ∧
      (match sep with
       | none => t = f ∧ rest = []
       | some c => (c = 44 ∨ c = 58) ∧ t = f ++ c :: rest) := by
  induction t generalizing acc with
  | nil => exact ⟨[], none, [], by simp [pretendField], by simp [NoSep], by simp⟩
  | cons c t ih =>
    by_cases hc : c = 44 ∨ c = 58
    · refine ⟨[], some c, t, ?_, by simp [NoSep], hc, by simp⟩
      rcases hc with hc | hc <;> subst hc <;> simp [pretendField]
    · obtain ⟨f, sep, rest, h1, h2, h3⟩ := ih (c :: acc)
      have hc' : (c == 44 || c == 58) = false := by
        simp only [not_or] at hc
        simp [hc.1, hc.2]
      refine ⟨c :: f, sep, rest, ?_, ?_, ?_⟩
      · rw [pretendField]
        simp only [hc', Bool.false_eq_true, if_false, h1]
        simp
      · intro x hx
        rcases List.mem_cons.mp hx with hx | hx
        · subst hx; simp only [not_or] at hc; exact hc
        · exact h2 x hx
      · cases sep with
        | none => simp only at h3 ⊢; exact ⟨by rw [h3.1], h3.2⟩
        | some d => simp only at h3 ⊢; exact ⟨h3.1, by rw [h3.2]; rfl⟩

/-- what `pretendField` returns: the longest separator-free prefix, the separator, the rest -/
theorem pretendField_spec (t : Bytes) :
    ∃ f sep rest, pretendField t [] = (f, sep, rest) ∧ NoSep f ∧
      (match sep with
       | none => t = f ∧ rest = []
       | some c => (c = 44 ∨ c = 58) ∧ t = f ++ c :: rest) := by
  simpa using pretendField_acc t []

theorem splitAt_acc (sep : UInt8) (b cur : Bytes) :
    ∃ h tl, Spec.splitAt sep b [] = h :: tl ∧ Spec.splitAt sep b cur = (cur.reverse ++ h) :: tl := by
  induction b generalizing cur with
  | nil => exact ⟨[], [], by simp [Spec.splitAt], by simp [Spec.splitAt]⟩
  | cons c b ih =>
    by_cases hc : (c == sep) = true
    · exact ⟨[], Spec.splitAt sep b [], by simp [Spec.splitAt, hc], by simp [Spec.splitAt, hc]⟩
    · obtain ⟨h, tl, h1, h2⟩ := ih [c]
      obtain ⟨h', tl', h1', h2'⟩ := ih (c :: cur)
      rw [h1] at h1'
      cases h1'
      refine ⟨c :: h, tl, ?_, ?_⟩
      · simp only [Spec.splitAt, hc, h2]; simp
      · simp only [Spec.splitAt, hc, h2']; simp

theorem splitAt_ne_nil (sep : UInt8) (b cur : Bytes) : Spec.splitAt sep b cur ≠ [] := by
  obtain ⟨h, tl, _, h2⟩ := splitAt_acc sep b cur
  rw [h2]; simp

theorem splitAt_noSep_append (sep : UInt8) (a b cur : Bytes) (ha : ∀ c ∈ a, c ≠ sep) :
    Spec.splitAt sep (a ++ b) cur = Spec.splitAt sep b (a.reverse ++ cur) := by
  induction a generalizing cur with
  | nil => rfl
  | cons c a ih =>
    have hc : (c == sep) = false := by
      have := ha c (by simp)
      simpa using this
    have ih' := ih (c :: cur) (fun x hx => ha x (by simp [hx]))
    simp only [List.cons_append, Spec.splitAt, hc, Bool.false_eq_true, if_false, ih']
    simp

/-- a text without the separator is one item -/
theorem splitAt_noSep (sep : UInt8) (f : Bytes) (hf : ∀ c ∈ f, c ≠ sep) : Spec.splitAt sep f [] = [f] := by
  have := splitAt_noSep_append sep f [] [] hf
  simpa [Spec.splitAt] using this

/-- separator-free text, separator, rest: the first item is that text -/
theorem splitAt_noSep_sep (sep : UInt8) (f rest : Bytes) (hf : ∀ c ∈ f, c ≠ sep) :
    Spec.splitAt sep (f ++ sep :: rest) [] = f :: Spec.splitAt sep rest [] := by
  rw [splitAt_noSep_append sep f _ [] hf]
  simp [Spec.splitAt]

/-- a separator-free prefix joins the first item of the rest -/
theorem splitAt_noSep_prefix (sep : UInt8) (a rest h : Bytes) (tl : List Bytes) (ha : ∀ c ∈ a, c ≠ sep)
    (hr : Spec.splitAt sep rest [] = h :: tl) : Spec.splitAt sep (a ++ rest) [] = (a ++ h) :: tl := by
  rw [splitAt_noSep_append sep a rest [] ha]
  obtain ⟨h', tl', h1, h2⟩ := splitAt_acc sep rest (a.reverse ++ [])
  rw [hr] at h1
  cases h1
  rw [h2]; simp

-- ---------------------------------------------------------------------------------------------
-- the tables

/-- `pretend_valid_pubkeys.insert(key)` -/
def addKey (ks : List Bytes) (k : Bytes) : List Bytes := if ks.contains k then ks else ks ++ [k]

/-- the tables the parser builds from the pair list `ps`, starting from `(m, ks)` -/
def tablesFrom (m : List (Bytes × Bytes)) (ks : List Bytes) (ps : List (Bytes × Bytes)) :
    List (Bytes × Bytes) × List Bytes :=
  (ps.foldl (fun m p => pretendInsert m p.1 p.2) m, ps.foldl (fun ks p => addKey ks p.2) ks)

/-- the tables denoted by a pair list -/
def tablesOf (ps : List (Bytes × Bytes)) : List (Bytes × Bytes) × List Bytes := tablesFrom [] [] ps

theorem contains_addKey (ks : List Bytes) (k key : Bytes) :
    (addKey ks k).contains key = (ks.contains key || k == key) := by
  unfold addKey
  split
  · rename_i h
    by_cases hk : k = key
    · subst hk; simp [List.contains_iff_mem.mp h]
    · have : (k == key) = false := by simpa using hk
      simp [this]
  · by_cases hk : k = key
    · subst hk; simp
    · have h1 : (k == key) = false := by simpa using hk
      have h2 : ¬ key = k := fun h => hk h.symm
      simp [h1, h2]

theorem contains_keys_foldl (ps : List (Bytes × Bytes)) (ks : List Bytes) (key : Bytes) :
    (ps.foldl (fun ks p => addKey ks p.2) ks).contains key = (ks.contains key || ps.any (fun p => p.2 == key)) := by
  induction ps generalizing ks with
  | nil => simp
  | cons p ps ih =>
    rw [List.foldl_cons, ih, contains_addKey, List.any_cons, Bool.or_assoc]

/-- `std::set::insert` followed by `count`: the pairs present afterwards are those present before, and the new one -/
theorem has_insert (m : List (Bytes × Bytes)) (s k sig key : Bytes) :
    pretendHas (pretendInsert m s k) sig key = (pretendHas m sig key || (sig, key) == (s, k)) := by
  unfold pretendInsert pretendHas
  split
  · rename_i h
    by_cases heq : (sig, key) = (s, k)
    · rw [heq, h]; simp
    · have : ((sig, key) == (s, k)) = false := beq_eq_false_iff_ne.mpr heq
      rw [this, Bool.or_false]
  · rw [List.contains_append, List.contains_cons, List.contains_nil, Bool.or_false]

theorem has_foldl (ps m0 : List (Bytes × Bytes)) (sig key : Bytes) :
    pretendHas (ps.foldl (fun m p => pretendInsert m p.1 p.2) m0) sig key =
      (pretendHas m0 sig key || ps.contains (sig, key)) := by
  induction ps generalizing m0 with
  | nil => simp
  | cons p ps ih =>
    rw [List.foldl_cons, ih, has_insert, List.contains_cons, Bool.or_assoc]

/-- `insert` never stores a pair twice -/
theorem nodup_insert (m : List (Bytes × Bytes)) (s k : Bytes) (h : m.Nodup) : (pretendInsert m s k).Nodup := by
  unfold pretendInsert
  split
  · exact h
  · rename_i hc
    rw [List.nodup_append]
    refine ⟨h, by simp, ?_⟩
    intro a ha b hb
    simp only [List.mem_singleton] at hb
    subst hb
    intro hab
    subst hab
    exact hc (List.contains_iff_mem.mpr ha)

theorem nodup_foldl (ps m0 : List (Bytes × Bytes)) (h : m0.Nodup) :
    (ps.foldl (fun m p => pretendInsert m p.1 p.2) m0).Nodup := by
  induction ps generalizing m0 with
  | nil => exact h
  | cons p ps ih => rw [List.foldl_cons]; exact ih _ (nodup_insert m0 p.1 p.2 h)

/-- key table: exactly the keys of the list -/
theorem tablesOf_keys (ps : List (Bytes × Bytes)) (key : Bytes) :
    (tablesOf ps).2.contains key = ps.any (fun p => p.2 == key) := by
  unfold tablesOf tablesFrom
  rw [contains_keys_foldl]; simp

/-- pair table: exactly the listed pairs — for EVERY list (the same signature may be listed for several keys) -/
theorem tablesOf_pair (ps : List (Bytes × Bytes)) (sig key : Bytes) :
    pretendHas (tablesOf ps).1 sig key = ps.contains (sig, key) := by
  unfold tablesOf tablesFrom
  rw [has_foldl]; simp [pretendHas]

/-- pair table: a set (no pair is stored twice, however often it is listed) -/
theorem tablesOf_nodup (ps : List (Bytes × Bytes)) : (tablesOf ps).1.Nodup := by
  unfold tablesOf tablesFrom
  exact nodup_foldl ps [] List.nodup_nil

-- ---------------------------------------------------------------------------------------------
-- the specification, read from left to right

/-- one item `sig:key` (the function `Spec.pretendPairs` maps over the items) -/
def itemPair (eval : Bytes → Option Bytes) (item : Bytes) : Option (Bytes × Bytes) :=
  match Spec.splitAt 58 item [] with
  | [s, k] => do
    if s.isEmpty || k.isEmpty then none     -- a field is a non-empty expression
    let s ← eval s
    let k ← eval k
    pure (s, k)
  | _ => none

/-- one trailing comma (or the empty text) is tolerated -/
def trim (items : List Bytes) : List Bytes := if items.getLast? == some [] then items.dropLast else items

theorem pretendPairs_eq (eval : Bytes → Option Bytes) (text : Bytes) :
    Spec.pretendPairs eval text = (trim (Spec.splitAt 44 text [])).mapM (itemPair eval) := rfl

/-- the specification at a position where a signature field is expected -/
def specA (eval : Bytes → Option Bytes) (t : Bytes) : Option (List (Bytes × Bytes)) :=
  (trim (Spec.splitAt 44 t [])).mapM (itemPair eval)

/-- the rest of an item after `sig:`, then the remaining items -/
def keyThen (eval : Bytes → Option Bytes) (s h : Bytes) (tl : List Bytes) : Option (List (Bytes × Bytes)) :=
  match Spec.splitAt 58 h [] with
  | [k] => if k.isEmpty then none else (eval k).bind (fun kv => ((trim tl).mapM (itemPair eval)).map ((s, kv) :: ·))
  | _ => none

/-- the specification at a position where the key field of signature `s` is expected -/
def specB (eval : Bytes → Option Bytes) (s t : Bytes) : Option (List (Bytes × Bytes)) :=
  match Spec.splitAt 44 t [] with
  | h :: tl => keyThen eval s h tl
  | [] => none

theorem trim_nil : trim [] = [] := rfl
theorem trim_single_nil : trim [[]] = [] := rfl

theorem trim_cons (x : Bytes) (tl : List Bytes) (h : x ≠ [] ∨ tl ≠ []) : trim (x :: tl) = x :: trim tl := by
  cases tl with
  | nil =>
    have hx : x ≠ [] := by rcases h with h | h; exact h; exact absurd rfl h
    have : (some x == some ([] : Bytes)) = false := by
      cases x with
      | nil => exact absurd rfl hx
      | cons a b => rfl
    simp [trim, this]
  | cons y tl =>
    unfold trim
    rw [List.getLast?_cons_cons]
    split <;> simp

private theorem noSep44 {f : Bytes} (h : NoSep f) : ∀ c ∈ f, c ≠ 44 := fun c hc => (h c hc).1
private theorem noSep58 {f : Bytes} (h : NoSep f) : ∀ c ∈ f, c ≠ 58 := fun c hc => (h c hc).2

theorem specA_nil (eval : Bytes → Option Bytes) : specA eval [] = some [] := rfl

theorem specB_nil (eval : Bytes → Option Bytes) (s : Bytes) : specB eval s [] = none := rfl

theorem itemPair_noSep (eval : Bytes → Option Bytes) (f : Bytes) (hf : NoSep f) : itemPair eval f = none := by
  unfold itemPair
  rw [splitAt_noSep 58 f (noSep58 hf)]

theorem specA_end (eval : Bytes → Option Bytes) (f : Bytes) (hf : NoSep f) (hne : f ≠ []) : specA eval f = none := by
  unfold specA
  rw [splitAt_noSep 44 f (noSep44 hf), trim_cons f [] (Or.inl hne), trim_nil]
  simp [itemPair_noSep eval f hf]

theorem specA_comma (eval : Bytes → Option Bytes) (f rest : Bytes) (hf : NoSep f) :
    specA eval (f ++ 44 :: rest) = none := by
  unfold specA
  rw [splitAt_noSep_sep 44 f rest (noSep44 hf), trim_cons f _ (Or.inr (splitAt_ne_nil 44 rest []))]
  simp [itemPair_noSep eval f hf]

theorem itemPair_colon (eval : Bytes → Option Bytes) (f h : Bytes) (hf : NoSep f) :
    itemPair eval (f ++ 58 :: h) =
      match Spec.splitAt 58 h [] with
      | [k] => if f.isEmpty || k.isEmpty then none else (eval f).bind (fun s => (eval k).bind (fun kv => some (s, kv)))
      | _ => none := by
  unfold itemPair
  rw [splitAt_noSep_sep 58 f h (noSep58 hf)]
  rcases hsp : Spec.splitAt 58 h [] with _ | ⟨k, _ | ⟨k2, r⟩⟩
  · rfl
  · simp only []
    cases hb : (f.isEmpty || k.isEmpty) <;> simp [hb] <;> rfl
  · rfl

theorem specA_colon (eval : Bytes → Option Bytes) (f rest : Bytes) (hf : NoSep f) :
    specA eval (f ++ 58 :: rest) = if f.isEmpty then none else (eval f).bind (fun s => specB eval s rest) := by
  obtain ⟨h, tl, h1, _⟩ := splitAt_acc 44 rest []
  have hB : ∀ s, specB eval s rest = keyThen eval s h tl := by
    intro s; unfold specB; rw [h1]
  simp only [hB]
  unfold specA
  have ha : ∀ c ∈ f ++ [58], c ≠ 44 := by
    intro c hc
    rcases List.mem_append.mp hc with hc | hc
    · exact noSep44 hf c hc
    · simp at hc; subst hc; decide
  have hsplit : Spec.splitAt 44 (f ++ 58 :: rest) [] = (f ++ 58 :: h) :: tl := by
    have := splitAt_noSep_prefix 44 (f ++ [58]) rest h tl ha h1
    simpa using this
  rw [hsplit, trim_cons _ tl (Or.inl (by simp)), List.mapM_cons, itemPair_colon eval f h hf]
  unfold keyThen
  generalize (trim tl).mapM (itemPair eval) = R
  rcases hsp : Spec.splitAt 58 h [] with _ | ⟨k, _ | ⟨k2, r⟩⟩
  · exact absurd hsp (splitAt_ne_nil 58 h [])
  · simp only []
    cases hfe : f.isEmpty <;> cases hke : k.isEmpty <;> cases eval f <;> cases eval k <;>
      cases R <;> simp
  · simp only []
    cases hfe : f.isEmpty <;> cases eval f <;> simp

theorem specB_colon (eval : Bytes → Option Bytes) (s f rest : Bytes) (hf : NoSep f) :
    specB eval s (f ++ 58 :: rest) = none := by
  unfold specB
  obtain ⟨h, tl, h1, _⟩ := splitAt_acc 44 rest []
  have ha : ∀ c ∈ f ++ [58], c ≠ 44 := by
    intro c hc
    rcases List.mem_append.mp hc with hc | hc
    · exact noSep44 hf c hc
    · simp at hc; subst hc; decide
  have hsplit : Spec.splitAt 44 (f ++ 58 :: rest) [] = (f ++ 58 :: h) :: tl := by
    have := splitAt_noSep_prefix 44 (f ++ [58]) rest h tl ha h1
    simpa using this
  rw [hsplit]
  simp only []
  unfold keyThen
  rw [splitAt_noSep_sep 58 f h (noSep58 hf)]
  rcases hsp : Spec.splitAt 58 h [] with _ | ⟨k, r⟩
  · exact absurd hsp (splitAt_ne_nil 58 h [])
  · rfl

theorem specB_end (eval : Bytes → Option Bytes) (s f : Bytes) (hf : NoSep f) (hne : f ≠ []) :
    specB eval s f = (eval f).map (fun kv => [(s, kv)]) := by
  unfold specB
  rw [splitAt_noSep 44 f (noSep44 hf)]
  simp only []
  unfold keyThen
  rw [splitAt_noSep 58 f (noSep58 hf)]
  have : f.isEmpty = false := by cases f; exact absurd rfl hne; rfl
  cases he : eval f <;> simp [this, trim_nil, he]

theorem specB_comma (eval : Bytes → Option Bytes) (s f rest : Bytes) (hf : NoSep f) :
    specB eval s (f ++ 44 :: rest) =
      if f.isEmpty then none else (eval f).bind (fun kv => (specA eval rest).map ((s, kv) :: ·)) := by
  unfold specB
  rw [splitAt_noSep_sep 44 f rest (noSep44 hf)]
  simp only []
  unfold keyThen
  rw [splitAt_noSep 58 f (noSep58 hf)]
  rfl

-- ---------------------------------------------------------------------------------------------
-- the model's loop

/-- one turn of the `while (*c)` loop, with the field split made explicit -/
theorem pretendLoop_step (cx : VCtx) (fuel : Nat) (t : Bytes) (st : PretendState) (f : Bytes) (sep : Option UInt8)
    (rest : Bytes) (hne : t ≠ []) (hpf : pretendField t [] = (f, sep, rest)) (hsep : sep = none ∨ sep = some 44 ∨ sep = some 58) :
    pretendLoop cx (fuel + 1) t st =
      if f.isEmpty then .ok none
      else match valueData cx f with
        | .error x => .error x
        | .ok s =>
          if sep = some 58 then
            (if st.gotSig then .ok none else pretendLoop cx fuel rest { st with sig := s, gotSig := true })
          else
            (if st.gotSig then
               pretendLoop cx fuel rest { st with gotSig := false, map := pretendInsert st.map st.sig s,
                                                  keys := addKey st.keys s }
             else .ok none) := by
  rw [pretendLoop]
  have : t.isEmpty = false := by cases t; exact absurd rfl hne; rfl
  simp only [this, Bool.false_eq_true, if_false, hpf]
  cases hfe : f.isEmpty
  · simp only [Bool.false_eq_true, if_false]
    cases hv : valueData cx f with
    | error x => rfl
    | ok s =>
      rcases hsep with h | h | h <;> subst h <;> cases hg : st.gotSig <;> simp [hg, addKey] <;> rfl
  · rfl

/-- the value-expression evaluator both sides use: a thrown error counts as "expression rejected" -/
def ev (cx : VCtx) (t : Bytes) : Option Bytes := (valueData cx t).toOption

theorem ev_ok {cx : VCtx} {t s : Bytes} (h : valueData cx t = .ok s) : ev cx t = some s := by
  unfold ev; rw [h]; rfl
theorem ev_error {cx : VCtx} {t : Bytes} {x : VErr} (h : valueData cx t = .error x) : ev cx t = none := by
  unfold ev; rw [h]; rfl

/-- the loop ends normally, outside a pair, with the tables `tb` -/
def Accepts (r : VM (Option PretendState)) (tb : List (Bytes × Bytes) × List Bytes) : Prop :=
  ∃ st', r = .ok (some st') ∧ st'.gotSig = false ∧ st'.map = tb.1 ∧ st'.keys = tb.2

/-- the loop reports a parse error, or a value expression throws, or the text ends inside a pair
    (which `parsePretendValidExpr` then reports as "missing pubkey after signature") -/
def Rejects (r : VM (Option PretendState)) : Prop :=
  r = .ok none ∨ (∃ x, r = .error x) ∨ (∃ st', r = .ok (some st') ∧ st'.gotSig = true)

def Outcome (o : Option (List (Bytes × Bytes))) (st : PretendState) (r : VM (Option PretendState)) : Prop :=
  match o with
  | some ps => Accepts r (tablesFrom st.map st.keys ps)
  | none => Rejects r

theorem pretendLoop_nil (cx : VCtx) (fuel : Nat) (st : PretendState) : pretendLoop cx fuel [] st = .ok (some st) := by
  cases fuel with
  | zero => rfl
  | succ n => rw [pretendLoop]; rfl

private theorem outcome_nil (cx : VCtx) (fuel : Nat) (st : PretendState) :
    (st.gotSig = false → Outcome (specA (ev cx) []) st (pretendLoop cx fuel [] st)) ∧
    (st.gotSig = true → Outcome (specB (ev cx) st.sig []) st (pretendLoop cx fuel [] st)) := by
  rw [pretendLoop_nil, specA_nil, specB_nil]
  constructor
  · intro hg; exact ⟨st, rfl, hg, rfl, rfl⟩
  · intro hg; exact Or.inr (Or.inr ⟨st, rfl, hg⟩)

/-- the loop computes what the specification says, from either kind of position -/
theorem loop_spec (cx : VCtx) (fuel : Nat) : ∀ (t : Bytes) (st : PretendState), t.length ≤ fuel →
    (st.gotSig = false → Outcome (specA (ev cx) t) st (pretendLoop cx fuel t st)) ∧
    (st.gotSig = true → Outcome (specB (ev cx) st.sig t) st (pretendLoop cx fuel t st)) := by
  induction fuel with
  | zero =>
    intro t st hl
    have : t = [] := List.eq_nil_of_length_eq_zero (by omega)
    subst this
    exact outcome_nil cx 0 st
  | succ fuel ih =>
    intro t st hl
    by_cases hne : t = []
    · subst hne; exact outcome_nil cx _ st
    obtain ⟨f, sep, rest, hpf, hns, hstruct⟩ := pretendField_spec t
    cases sep with
    | none =>
      simp only at hstruct
      obtain ⟨htf, hrest⟩ := hstruct
      subst hrest
      subst htf
      rw [pretendLoop_step cx fuel t st t none [] hne hpf (Or.inl rfl)]
      have hfe : t.isEmpty = false := by cases t; exact absurd rfl hne; rfl
      rw [specA_end _ t hns hne, specB_end _ _ t hns hne]
      simp only [hfe, Bool.false_eq_true, if_false]
      cases hv : valueData cx t with
      | error x =>
        rw [ev_error hv]
        exact ⟨fun _ => Or.inr (Or.inl ⟨x, rfl⟩), fun _ => Or.inr (Or.inl ⟨x, rfl⟩)⟩
      | ok s =>
        rw [ev_ok hv]
        constructor
        · intro hg; simp only [hg]; exact Or.inl rfl
        · intro hg
          simp only [hg, pretendLoop_nil]
          exact ⟨_, rfl, rfl, rfl, rfl⟩
    | some c =>
      simp only at hstruct
      obtain ⟨hc, ht⟩ := hstruct
      have hrl : rest.length ≤ fuel := by
        have : t.length = f.length + (rest.length + 1) := by rw [ht]; simp
        omega
      rcases hc with hc | hc
      · -- comma
        subst hc
        rw [pretendLoop_step cx fuel t st f (some 44) rest hne hpf (Or.inr (Or.inl rfl))]
        rw [ht, specA_comma _ f rest hns, specB_comma _ _ f rest hns]
        cases hfe : f.isEmpty
        · simp only [Bool.false_eq_true, if_false]
          cases hv : valueData cx f with
          | error x =>
            rw [ev_error hv]
            exact ⟨fun _ => Or.inr (Or.inl ⟨x, rfl⟩), fun _ => Or.inr (Or.inl ⟨x, rfl⟩)⟩
          | ok s =>
            rw [ev_ok hv]
            have h58 : ¬ ((some (44 : UInt8)) = some 58) := by decide
            simp only [h58, if_false]
            constructor
            · intro hg; simp only [hg]; exact Or.inl rfl
            · intro hg
              simp only [hg, if_true]
              have := (ih rest { st with gotSig := false, map := pretendInsert st.map st.sig s,
                                         keys := addKey st.keys s } hrl).1 rfl
              simp only [Option.bind_some]
              cases hsp : specA (ev cx) rest with
              | none => rw [hsp] at this; exact this
              | some ps => rw [hsp] at this; exact this
        · simp only [if_true]
          exact ⟨fun _ => Or.inl rfl, fun _ => Or.inl rfl⟩
      · -- colon
        subst hc
        rw [pretendLoop_step cx fuel t st f (some 58) rest hne hpf (Or.inr (Or.inr rfl))]
        rw [ht, specA_colon _ f rest hns, specB_colon _ _ f rest hns]
        cases hfe : f.isEmpty
        · simp only [Bool.false_eq_true, if_false]
          cases hv : valueData cx f with
          | error x =>
            rw [ev_error hv]
            exact ⟨fun _ => Or.inr (Or.inl ⟨x, rfl⟩), fun _ => Or.inr (Or.inl ⟨x, rfl⟩)⟩
          | ok s =>
            rw [ev_ok hv]
            simp only [if_true]
            constructor
            · intro hg
              simp only [hg, Bool.false_eq_true, if_false, Option.bind_some]
              have := (ih rest { st with sig := s, gotSig := true } hrl).2 rfl
              exact this
            · intro hg; simp only [hg, if_true]; exact Or.inl rfl
        · simp only [if_true]
          exact ⟨fun _ => Or.inl rfl, fun _ => Or.inl rfl⟩

theorem pretendField_noSep_sep (f rest acc : Bytes) (c : UInt8) (hf : NoSep f) (hc : c = 44 ∨ c = 58) :
    pretendField (f ++ c :: rest) acc = (acc.reverse ++ f, some c, rest) := by
  induction f generalizing acc with
  | nil =>
    rcases hc with hc | hc <;> subst hc <;> simp [pretendField]
  | cons a f ih =>
    have ha := hf a (by simp)
    have ha' : (a == 44 || a == 58) = false := by simp [ha.1, ha.2]
    rw [List.cons_append, pretendField]
    simp only [ha', Bool.false_eq_true, if_false]
    rw [ih (a :: acc) (fun x hx => hf x (by simp [hx]))]
    simp

end Btcdeb.Proofs.Pretend
