/-
  No operation of the model ends abnormally (assertion failure, trap, undefined behaviour) — except the
  tapscript signature check of a session whose signature budget was never initialised, which
  `configure_tx_txin` always does.  Hoare-style, syntax-directed.
-/
import Btcdeb
namespace Btcdeb.Model
open Btcdeb

/-- `m` does not end in an abnormal outcome -/
def NoAbn {α} (m : M α) : Prop := ∀ k, m ≠ .error (.abnormal k)

theorem noabn_bind {α β} (x : M α) (f : α → M β) (hx : NoAbn x) (hf : ∀ a, NoAbn (f a)) : NoAbn (x >>= f) := by
  intro k h
  cases x with
  | error e => cases e with
    | abnormal k' => exact hx k' rfl
    | script _ => cases h
    | exc _ => cases h
  | ok a => exact hf a k h
theorem noabn_fail {α} (x : ScriptError) : NoAbn (fail x : M α) := by intro k h; cases h
theorem noabn_pure {α} (a : α) : NoAbn (pure a : M α) := by intro k h; cases h
theorem noabn_ok {α} (a : α) : NoAbn (.ok a : M α) := by intro k h; cases h
theorem noabn_ite {α} (c : Prop) [Decidable c] (a b : M α) (ha : NoAbn a) (hb : NoAbn b) : NoAbn (if c then a else b) := by
  split <;> assumption
theorem noabn_top (st : List Bytes) (i : Nat) : NoAbn (top st i) := by
  unfold top; intro k h; split at h
  · cases h
  · split at h <;> cases h
theorem noabn_pop (st : List Bytes) : NoAbn (pop st) := by
  unfold pop; intro k h; split at h <;> cases h
theorem noabn_num (v : Bytes) (rm : Bool) (n : Nat) : NoAbn (num v rm n) := by
  unfold num; intro k h; split at h <;> cases h
theorem noabn_sizeCheck (e : SEE) : NoAbn (sizeCheck e) := by
  unfold sizeCheck; intro k h; split at h <;> cases h
theorem noabn_exc {α} (w : String) : NoAbn (.error (.exc w) : M α) := by intro k h; cases h

set_option hygiene false in
macro "noabn" : tactic => `(tactic|
  repeat (first
    | (apply noabn_fail)
    | (apply noabn_pure)
    | (apply noabn_ok)
    | (apply noabn_top)
    | (apply noabn_pop)
    | (apply noabn_num)
    | (apply noabn_sizeCheck)
    | (apply noabn_exc)
    | (apply noabn_ite)
    | (refine noabn_bind _ _ ?_ (fun _ => ?_))
    | assumption
    ))

theorem noabn_checkSignatureEncoding (cx : Ctx) (sig : Bytes) (flags : Nat) : NoAbn (checkSignatureEncoding cx sig flags) := by
  unfold checkSignatureEncoding; noabn
theorem noabn_checkPubKeyEncoding (key : Bytes) (flags : Nat) (sv : SigVersion) : NoAbn (checkPubKeyEncoding key flags sv) := by
  unfold checkPubKeyEncoding; noabn

theorem stepExtended_noabn (e : SEE) (op : Opcode) (h : isDisabledOpcode op = true) : NoAbn (stepExtended e op) := by
  cases op <;> simp [isDisabledOpcode] at h <;> simp only [stepExtended] <;> noabn
  all_goals (split <;> noabn)

/-- the signature checker never ends abnormally (true of both checkers of the tool: they return or throw) -/
def CheckerNoAbn (cx : Ctx) : Prop := ∀ sig key sv ed, NoAbn (cx.checkSchnorr sig key sv ed)

set_option hygiene false in
macro "noabn2" : tactic => `(tactic|
  repeat' (first
    | (apply noabn_fail)
    | (apply noabn_pure)
    | (apply noabn_ok)
    | (apply noabn_top)
    | (apply noabn_pop)
    | (apply noabn_num)
    | (apply noabn_sizeCheck)
    | (apply noabn_exc)
    | (apply noabn_checkSignatureEncoding)
    | (apply noabn_checkPubKeyEncoding)
    | (apply hcx)
    | (apply noabn_ite)
    | (refine noabn_bind _ _ ?_ (fun _ => ?_))
    | assumption
    ))

theorem evalChecksigPreTapscript_noabn (cx : Ctx) (e : SEE) (sig key : Bytes) : NoAbn (evalChecksigPreTapscript cx e sig key) := by
  unfold evalChecksigPreTapscript
  dsimp only
  noabn2

theorem evalChecksigTapscript_noabn (cx : Ctx) (hcx : CheckerNoAbn cx) (e : SEE) (sig key : Bytes)
    (hw : e.execdata.weightInit = true) : NoAbn (evalChecksigTapscript cx e sig key) := by
  unfold evalChecksigTapscript
  dsimp only
  simp only [hw, Bool.not_true, Bool.false_eq_true, if_false]
  noabn2

theorem evalChecksig_noabn (cx : Ctx) (hcx : CheckerNoAbn cx) (e : SEE) (sig key : Bytes)
    (hw : e.sigversion = .TAPSCRIPT → e.execdata.weightInit = true) : NoAbn (evalChecksig cx e sig key) := by
  unfold evalChecksig
  apply noabn_ite; · noabn
  cases hsv : e.sigversion with
  | TAPROOT =>
    dsimp only
    intro k h
    have := hcx sig key .TAPROOT e.execdata
    cases hr : cx.checkSchnorr sig key SigVersion.TAPROOT e.execdata with
    | ok u => rw [hr] at h; cases h
    | error x =>
      rw [hr] at h
      cases x with
      | abnormal k' => exact this k' hr
      | script _ => cases h
      | exc _ => cases h
  | BASE => dsimp only; apply noabn_bind (hx := evalChecksigPreTapscript_noabn cx e sig key); intro _; noabn
  | WITNESS_V0 => dsimp only; apply noabn_bind (hx := evalChecksigPreTapscript_noabn cx e sig key); intro _; noabn
  | TAPSCRIPT => exact evalChecksigTapscript_noabn cx hcx e sig key (hw hsv)

theorem multisigLoop_noabn (cx : Ctx) (e : SEE) (code : Bytes) (st : List Bytes) :
    ∀ (nKeys nSigs isig ikey : Nat), NoAbn (multisigLoop cx e code st nSigs nKeys isig ikey) := by
  intro nKeys
  induction nKeys with
  | zero => intro nSigs isig ikey; cases nSigs <;> simp only [multisigLoop] <;> noabn
  | succ n ih =>
    intro nSigs isig ikey
    cases nSigs with
    | zero => simp only [multisigLoop]; noabn
    | succ m =>
      simp only [multisigLoop]
      have hih := ih
      noabn2
      all_goals (exact hih _ _ _)

set_option hygiene false in
macro "noabn3" : tactic => `(tactic|
  repeat' (first
    | (with_reducible apply noabn_fail)
    | (with_reducible apply noabn_pure)
    | (with_reducible apply noabn_ok)
    | (with_reducible apply noabn_top)
    | (with_reducible apply noabn_pop)
    | (with_reducible apply noabn_num)
    | (with_reducible apply noabn_sizeCheck)
    | (with_reducible apply noabn_exc)
    | (with_reducible apply evalChecksig_noabn _ hcx _ _ _ hw)
    | (with_reducible apply multisigLoop_noabn)
    | (with_reducible apply noabn_ite)
    | (refine noabn_bind _ _ ?_ (fun _ => ?_))
    | assumption
    ))

theorem noabn_forIn {β} (l : List Nat) (init : β) (f : Nat → β → M (ForInStep β)) (hf : ∀ a b, NoAbn (f a b)) :
    NoAbn (forIn l init f) := by
  induction l generalizing init with
  | nil => simp only [forIn, List.forIn'_nil]; apply noabn_pure
  | cons x xs ih =>
    simp only [List.forIn_cons]
    apply noabn_bind _ _ (hf _ _)
    intro r
    cases r with
    | done b => apply noabn_pure
    | yield b => exact ih b

theorem noabn_forIn_range {β} (n : Nat) (init : β) (f : Nat → β → M (ForInStep β)) (hf : ∀ a b, NoAbn (f a b)) :
    NoAbn (forIn [:n] init f) := by
  rw [Std.Legacy.Range.forIn_eq_forIn_range']
  exact noabn_forIn _ _ _ hf

set_option maxHeartbeats 4000000 in
/-- no opcode of the `switch` ends abnormally -/
theorem execOpcode_noabn (cx : Ctx) (hcx : CheckerNoAbn cx) (e : SEE) (op : Opcode) (fExec : Bool) (pc : Bytes)
    (hw : e.sigversion = .TAPSCRIPT → e.execdata.weightInit = true) : NoAbn (execOpcode cx e op fExec pc) := by
  cases op
  case OP_CHECKMULTISIG =>
    simp only [execOpcode]; noabn3
    all_goals (apply noabn_forIn_range; intro _ _; noabn3)
  case OP_CHECKMULTISIGVERIFY =>
    simp only [execOpcode]; noabn3
    all_goals (apply noabn_forIn_range; intro _ _; noabn3)
  all_goals (simp only [execOpcode]; first | (apply stepExtended_noabn; rfl) | noabn3)

theorem countOp_noabn (e : SEE) (n : Nat) : NoAbn (countOp e n) := by
  unfold countOp; noabn

theorem countOp_keeps {e e1 : SEE} {n : Nat} (h : countOp e n = .ok e1) :
    e1.sigversion = e.sigversion ∧ e1.execdata = e.execdata := by
  unfold countOp at h
  split at h
  · split at h
    · split at h
      · cases h
      · cases h; exact ⟨rfl, rfl⟩
    · cases h; exact ⟨rfl, rfl⟩
  · cases h; exact ⟨rfl, rfl⟩

theorem noabn_bind' {α β} (x : M α) (f : α → M β) (hx : NoAbn x) (hf : ∀ a, x = .ok a → NoAbn (f a)) : NoAbn (x >>= f) := by
  intro k h
  cases hxa : x with
  | error e =>
    rw [hxa] at h
    cases e with
    | abnormal k' => exact hx k' hxa
    | script _ => cases h
    | exc _ => cases h
  | ok a => rw [hxa] at h; exact hf a hxa k h

/-- NO STEP ENDS ABNORMALLY: `StepScript` returns true, returns a script error, or throws a C++ exception
    that the callers catch — it never asserts, traps or runs into undefined behaviour — for every
    script, stack, flag set and signature version, provided the tapscript signature budget was initialised
    (as `configure_tx_txin` does for every tapscript session) -/
theorem step_noabn (cx : Ctx) (hcx : CheckerNoAbn cx) (e : SEE) (pc : Bytes)
    (hw : e.sigversion = .TAPSCRIPT → e.execdata.weightInit = true) : NoAbn (step cx e pc) := by
  unfold step
  simp only []
  split
  · exact noabn_fail _
  · apply noabn_ite; · exact noabn_fail _
    apply noabn_bind' _ _ (countOp_noabn e _)
    intro e1 hc
    have hk := countOp_keeps hc
    have hw1 : e1.sigversion = .TAPSCRIPT → e1.execdata.weightInit = true := by rw [hk.1, hk.2]; exact hw
    apply noabn_ite; · exact noabn_fail _
    apply noabn_ite; · exact noabn_fail _
    apply noabn_ite
    · apply noabn_ite; · exact noabn_fail _
      exact noabn_bind _ _ (noabn_sizeCheck _) (fun _ => noabn_pure _)
    · apply noabn_ite
      · exact noabn_bind _ _ (execOpcode_noabn cx hcx e1 _ _ _ hw1) (fun _ => noabn_pure _)
      · exact noabn_bind _ _ (noabn_sizeCheck _) (fun _ => noabn_pure _)

end Btcdeb.Model
