/-
  Hoare-style postconditions for the model's `M` monad, and the frame lemma: a successful operation
  changes only the per-step state (stack, alt stack, condition stack, code-separator bookkeeping,
  execution data, operation count); script, flags, signature version, mock-signature tables and the
  opcode position are untouched.  Proved syntax-directed over the model's do-blocks.
-/
import Btcdeb
namespace Btcdeb.Model
open Btcdeb

/-- partial-correctness postcondition: whenever `m` succeeds, its result satisfies `P` -/
def Post {α} (m : M α) (P : α → Prop) : Prop := ∀ a, m = .ok a → P a

theorem post_bind {α β} {x : M α} {f : α → M β} {P : β → Prop} (Q : α → Prop)
    (hx : Post x Q) (hf : ∀ a, Q a → Post (f a) P) : Post (x >>= f) P := by
  intro b hb
  cases x with
  | error _ => cases hb
  | ok a => exact hf a (hx a rfl) b hb
theorem post_bind' {α β} {x : M α} {f : α → M β} {P : β → Prop} (hf : ∀ a, Post (f a) P) : Post (x >>= f) P :=
  post_bind (fun _ => True) (fun _ _ => trivial) (fun a _ => hf a)
theorem post_fail {α} (x : ScriptError) (P : α → Prop) : Post (fail x) P := by intro a h; cases h
theorem post_error {α} (x : StepErr) (P : α → Prop) : Post (.error x : M α) P := by intro a h; cases h
theorem post_pure {α} (a : α) (P : α → Prop) (h : P a) : Post (pure a) P := by intro b hb; cases hb; exact h
theorem post_ok {α} (a : α) (P : α → Prop) (h : P a) : Post (.ok a : M α) P := by intro b hb; cases hb; exact h
theorem post_ite {α} (c : Prop) [Decidable c] (a b : M α) (P : α → Prop) (ha : Post a P) (hb : Post b P) :
    Post (if c then a else b) P := by
  split <;> assumption
theorem post_mono {α} {m : M α} {P Q : α → Prop} (h : Post m P) (hpq : ∀ a, P a → Q a) : Post m Q :=
  fun a ha => hpq a (h a ha)

/-- the part of the environment no operation changes -/
def SEE.frame (e : SEE) :=
  (e.script, e.flags, e.sigversion, e.requireMinimal, e.allowDisabled, e.pretendMap, e.pretendKeys, e.opcodePos)

/-- `m`, if it succeeds, leaves the frame of `e` unchanged -/
def Preserves (m : M SEE) (e : SEE) : Prop := ∀ e', m = .ok e' → e'.frame = e.frame

theorem preserves_bind {α} (x : M α) (f : α → M SEE) (e : SEE) (h : ∀ a, Preserves (f a) e) :
    Preserves (x >>= f) e := by
  intro e' he
  cases x with
  | error _ => cases he
  | ok a => exact h a e' he
theorem preserves_fail (x : ScriptError) (e : SEE) : Preserves (fail x) e := by intro e' he; cases he
theorem preserves_error (x : StepErr) (e : SEE) : Preserves (.error x) e := by intro e' he; cases he
theorem preserves_ite (c : Prop) [Decidable c] (a b : M SEE) (e : SEE) (ha : Preserves a e) (hb : Preserves b e) :
    Preserves (if c then a else b) e := by
  split <;> assumption
theorem preserves_sizeCheck (e1 e : SEE) (h : e1.frame = e.frame) : Preserves (sizeCheck e1) e := by
  intro e' he
  unfold sizeCheck at he
  split at he
  · cases he
  · cases he; exact h
theorem preserves_pure (e1 e : SEE) (h : e1.frame = e.frame) : Preserves (pure e1) e := by
  intro e' he; cases he; exact h

set_option hygiene false in
macro "pres" : tactic => `(tactic|
  repeat (first
    | (apply preserves_fail)
    | (apply preserves_error)
    | (apply preserves_sizeCheck; rfl)
    | (apply preserves_pure; rfl)
    | (apply preserves_ite)
    | (apply preserves_bind; intro _)
    ))

theorem stepExtended_preserves (e : SEE) (op : Opcode) : Preserves (stepExtended e op) e := by
  cases op <;> simp only [stepExtended] <;> pres

theorem execOpcode_preserves (cx : Ctx) (e : SEE) (op : Opcode) (fExec : Bool) (pc : Bytes) :
    Preserves (execOpcode cx e op fExec pc) e := by
  cases op <;> simp only [execOpcode] <;> first | exact stepExtended_preserves e _ | pres

theorem countOp_preserves (e : SEE) (opcode : Nat) : Preserves (countOp e opcode) e := by
  unfold countOp; pres

/-- a successful `StepScript` leaves the frame untouched -/
theorem step_preserves (cx : Ctx) (e : SEE) (pc : Bytes) :
    Post (step cx e pc) (fun r => r.1.frame = e.frame) := by
  unfold step
  simp only []
  split
  · exact post_fail _ _
  · refine post_ite _ _ _ _ (post_fail _ _) ?_
    refine post_bind (Q := fun e1 : SEE => e1.frame = e.frame) (countOp_preserves e _) ?_
    intro e1 h1
    refine post_ite _ _ _ _ (post_fail _ _) ?_
    refine post_ite _ _ _ _ (post_fail _ _) ?_
    refine post_ite _ _ _ _ ?_ ?_
    · refine post_ite _ _ _ _ (post_fail _ _) ?_
      refine post_bind (Q := fun e2 : SEE => e2.frame = e.frame) ?_ ?_
      · rw [← h1]; exact preserves_sizeCheck _ e1 rfl
      · intro e2 h2; exact post_pure _ _ h2
    · refine post_ite _ _ _ _ ?_ ?_
      · refine post_bind (Q := fun e2 : SEE => e2.frame = e.frame) ?_ ?_
        · rw [← h1]; exact execOpcode_preserves cx e1 _ _ _
        · intro e2 h2; exact post_pure _ _ h2
      · refine post_bind (Q := fun e2 : SEE => e2.frame = e.frame) ?_ ?_
        · rw [← h1]; exact preserves_sizeCheck _ e1 rfl
        · intro e2 h2; exact post_pure _ _ h2

theorem step_frame (cx : Ctx) (e e' : SEE) (pc pc' : Bytes) (h : step cx e pc = .ok (e', pc')) :
    e'.frame = e.frame := step_preserves cx e pc (e', pc') h

end Btcdeb.Model
