/- Helper lemmas about little-endian byte strings. -/
import Btcdeb.Basic.Bytes
namespace Btcdeb

theorem u8_ofNat_mod (n : Nat) : (UInt8.ofNat (n % 256)).toNat = n % 256 := by
  simp [UInt8.toNat_ofNat']

theorem u8_lt (b : UInt8) : b.toNat < 256 := UInt8.toNat_lt b

theorem u8_ofNat_toNat (b : UInt8) : UInt8.ofNat b.toNat = b := by
  simp

theorem u8_ext {a b : UInt8} (h : a.toNat = b.toNat) : a = b := UInt8.toNat_inj.mp h

@[simp] theorem leValue_nil : leValue [] = 0 := rfl
@[simp] theorem leValue_cons (b : UInt8) (r : Bytes) : leValue (b :: r) = b.toNat + 256 * leValue r := rfl

theorem leValue_append (ys zs : Bytes) :
    leValue (ys ++ zs) = leValue ys + 256 ^ ys.length * leValue zs := by
  induction ys with
  | nil => simp
  | cons y ys ih =>
    simp only [List.cons_append, leValue_cons, ih, List.length_cons, Nat.pow_succ]
    rw [Nat.mul_add, Nat.mul_comm (256 ^ ys.length) 256, Nat.mul_assoc]
    omega

theorem leValue_snoc (ys : Bytes) (a : UInt8) :
    leValue (ys ++ [a]) = leValue ys + 256 ^ ys.length * a.toNat := by
  rw [leValue_append]; simp

theorem leValue_lt (b : Bytes) : leValue b < 256 ^ b.length := by
  induction b with
  | nil => simp
  | cons x xs ih =>
    have := u8_lt x
    simp only [leValue_cons, List.length_cons, Nat.pow_succ]
    omega

theorem leBytes_zero : leBytes 0 = [] := by
  rw [leBytes]; simp

theorem leBytes_pos {n : Nat} (h : n ≠ 0) :
    leBytes n = UInt8.ofNat (n % 256) :: leBytes (n / 256) := by
  rw [leBytes]; simp [h]

theorem leValue_leBytes (n : Nat) : leValue (leBytes n) = n := by
  induction n using Nat.strongRecOn with
  | _ n ih =>
    by_cases h : n = 0
    · subst h; simp [leBytes_zero]
    · rw [leBytes_pos h, leValue_cons, u8_ofNat_mod, ih (n / 256) (by omega)]
      omega

theorem leBytes_eq_nil_iff (n : Nat) : leBytes n = [] ↔ n = 0 := by
  constructor
  · intro h
    by_cases h0 : n = 0
    · exact h0
    · rw [leBytes_pos h0] at h; simp at h
  · intro h; subst h; exact leBytes_zero

/-- the most significant byte produced by the loop is never zero -/
theorem leBytes_last_ne_zero (n : Nat) (ys : Bytes) (a : UInt8) (h : leBytes n = ys ++ [a]) :
    a.toNat ≠ 0 := by
  induction n using Nat.strongRecOn generalizing ys with
  | _ n ih =>
    by_cases h0 : n = 0
    · subst h0; rw [leBytes_zero] at h; simp at h
    · rw [leBytes_pos h0] at h
      cases ys with
      | nil =>
        simp at h
        obtain ⟨h1, h2⟩ := h
        have hz : n / 256 = 0 := (leBytes_eq_nil_iff _).mp h2
        rw [← h1, u8_ofNat_mod]; omega
      | cons y ys =>
        simp at h
        exact ih (n / 256) (by omega) ys h.2

theorem leBytes_leValue_snoc (ys : Bytes) (a : UInt8) (ha : a.toNat ≠ 0) :
    leBytes (leValue (ys ++ [a])) = ys ++ [a] := by
  induction ys with
  | nil =>
    have hlt := u8_lt a
    simp only [List.nil_append, leValue_cons, leValue_nil]
    rw [leBytes_pos (by omega)]
    have h1 : (a.toNat + 256 * 0) % 256 = a.toNat := by omega
    have h2 : (a.toNat + 256 * 0) / 256 = 0 := by omega
    rw [h1, h2, leBytes_zero, u8_ofNat_toNat]
  | cons y ys ih =>
    have hlt := u8_lt y
    simp only [List.cons_append, leValue_cons]
    have hpos : leValue (ys ++ [a]) ≠ 0 := by
      rw [leValue_snoc]
      have : 0 < 256 ^ ys.length * a.toNat := Nat.mul_pos (Nat.pow_pos (by omega)) (by omega)
      omega
    rw [leBytes_pos (by omega)]
    have h1 : (y.toNat + 256 * leValue (ys ++ [a])) % 256 = y.toNat := by omega
    have h2 : (y.toNat + 256 * leValue (ys ++ [a])) / 256 = leValue (ys ++ [a]) := by omega
    rw [h1, h2, ih, u8_ofNat_toNat]

theorem leBytes_length_le (n k : Nat) : (leBytes n).length ≤ k ↔ n < 256 ^ k := by
  induction k generalizing n with
  | zero =>
    simp only [Nat.le_zero_eq, List.length_eq_zero_iff, leBytes_eq_nil_iff, Nat.pow_zero]
    omega
  | succ k ih =>
    by_cases h0 : n = 0
    · subst h0; simp [leBytes_zero, Nat.pow_pos]
    · rw [leBytes_pos h0, List.length_cons, Nat.add_le_add_iff_right, ih, Nat.pow_succ]
      omega

/-- splitting a non-empty list at its last element -/
theorem exists_snoc_of_ne_nil {α} (l : List α) (h : l ≠ []) : ∃ ys a, l = ys ++ [a] := by
  refine ⟨l.dropLast, l.getLast h, ?_⟩
  exact (List.dropLast_concat_getLast h).symm

@[simp] theorem getLast?_snoc {α} (ys : List α) (a : α) : (ys ++ [a]).getLast? = some a := by
  simp

end Btcdeb
