/-
  The transaction signature checker of a `--tx` session (`TransactionSignatureChecker(tx, nIn, amount, txdata,
  MissingDataBehavior::FAIL)`) never ends abnormally on the calls the interpreter makes in a session:
  `SignatureHashSchnorr` asserts the signature version, `in_pos < vin.size()`, `m_annex_init`, and for tapscript
  `m_tapleaf_hash_init` / `m_codeseparator_pos_init`; `HandleMissingData(FAIL)` returns false.
-/
import Btcdeb
import BtcdebProofs.Lemmas.NoAbnormalOn
namespace Btcdeb.Model
open Btcdeb

/-- `SignatureHashSchnorr(..., MissingDataBehavior::FAIL)` does not assert when its preconditions hold -/
theorem schnorrSighashM_noabn (cr : SigCrypto) (ed : ExecData) (tx : Tx) (nIn ht : Nat) (sv : SigVersion)
    (cache : PrecomputedTxData) (hin : nIn < tx.vin.length) (hr : SchnorrReady sv ed) :
    NoAbn (schnorrSighashM cr ed tx nIn ht sv cache .fail) := by
  obtain ⟨hsv, ha, ht'⟩ := hr
  have h2 : ¬ (nIn ≥ tx.vin.length) := by omega
  unfold schnorrSighashM
  rcases hsv with rfl | rfl
  · simp only [ne_eq, not_true_eq_false, false_and, if_false, h2, handleMissingData, ha, Bool.not_true,
      Bool.false_eq_true, show (SigVersion.TAPROOT == SigVersion.TAPSCRIPT) = false from rfl]
    repeat' (first | apply noabn_ok | apply noabn_ite)
  · obtain ⟨hl, hc⟩ := ht' rfl
    simp only [ne_eq, not_true_eq_false, and_false, if_false, h2, handleMissingData, ha, hl, hc, Bool.not_true,
      Bool.false_eq_true, show (SigVersion.TAPSCRIPT == SigVersion.TAPSCRIPT) = true from rfl, if_true]
    repeat' (first | apply noabn_ok | apply noabn_ite)

/-- `CheckSchnorrSignature` of the transaction checker: no abnormal outcome on ready calls -/
theorem checkSchnorrSignatureM_noabn (cr : SigCrypto) (tx : Tx) (nIn : Nat) (txdata : PrecomputedTxData)
    (sig key : Bytes) (sv : SigVersion) (ed : ExecData) (hin : nIn < tx.vin.length) (hr : SchnorrReady sv ed) :
    NoAbn (checkSchnorrSignatureM cr tx nIn txdata .fail sig key sv ed) := by
  have h1 : ¬ (sv ≠ .TAPROOT ∧ sv ≠ .TAPSCRIPT) := by
    rcases hr.1 with h | h <;> simp [h]
  unfold checkSchnorrSignatureM
  simp only [h1, if_false]
  apply noabn_ite; · exact noabn_exc _
  apply noabn_ite; · exact noabn_fail _
  apply noabn_ite; · exact noabn_fail _
  have hs := schnorrSighashM_noabn cr ed tx nIn (if sig.length = 65 then (sig.getLast?.getD 0).toNat else Gen.SIGHASH_DEFAULT)
    sv txdata hin hr
  intro k h
  split at h
  · rename_i e he
    cases h
    exact hs k he
  · cases h
  · repeat' (split at h)
    all_goals (first | cases h | (simp [fail] at h))

/-- THE TRANSACTION CHECKER NEVER ENDS ABNORMALLY on the calls of a session with an existing input index -/
theorem txCheckerWith_noabn (cr : SigCrypto) (base : Ctx) (tx : Tx) (nIn : Nat) (amount : Int) (txdata : PrecomputedTxData)
    (hin : nIn < tx.vin.length) : CheckerNoAbnOn (txCheckerWith cr base tx nIn amount txdata) := by
  intro sig key sv ed hr
  exact checkSchnorrSignatureM_noabn cr tx nIn txdata sig key sv ed hin hr

/-- …and the assertions are real: with a signature version other than TAPROOT / TAPSCRIPT the checker dies -/
theorem txCheckerWith_asserts_sigversion (cr : SigCrypto) (base : Ctx) (tx : Tx) (nIn : Nat) (amount : Int)
    (txdata : PrecomputedTxData) (sig key : Bytes) (ed : ExecData) :
    (txCheckerWith cr base tx nIn amount txdata).checkSchnorr sig key .BASE ed =
      .error (.abnormal "assert(sigversion == TAPROOT || sigversion == TAPSCRIPT)") := by
  simp [txCheckerWith, checkSchnorrSignatureM]

/-- the ECDSA side of the checker, unabridged (`checkECDSASignatureM`; the `Ctx` field is its Boolean answer):
    `SignatureHash` asserts `nIn < vin.size()` and nothing else -/
theorem checkECDSASignatureM_noabn (cr : SigCrypto) (tx : Tx) (nIn : Nat) (amount : Int) (txdata : PrecomputedTxData)
    (sig key code : Bytes) (sv : SigVersion) (hin : nIn < tx.vin.length) :
    NoAbn (checkECDSASignatureM cr tx nIn amount txdata .fail sig key code sv) := by
  intro k h
  unfold checkECDSASignatureM at h
  split at h
  · cases h
  · split at h
    · cases h
    · split at h
      · simp [handleMissingData] at h
      · unfold signatureHash at h
        have h2 : ¬ (nIn ≥ tx.vin.length) := by omega
        simp only [h2, if_false] at h
        split at h
        · rename_i hq; split at hq <;> cases hq
        · cases h

end Btcdeb.Model
