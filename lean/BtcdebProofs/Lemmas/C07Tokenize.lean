/-
  C07, lexical layer, part 1: the index loop of `Value::parse_args(const char*, size_t)` (model `tokenize`,
  `bracketScan`, `skipLine`) against the list recursion `Spec.splitWords`.
-/
import Btcdeb
import BtcdebProofs.Lemmas.LE
namespace Btcdeb.Proofs.C07Lexer
open Btcdeb Btcdeb.Model

def isBlank (c : UInt8) : Bool := c.toNat == 32 || c.toNat == 9 || c.toNat == 10 || c.toNat == 13
def notNl (x : UInt8) : Bool := x.toNat != 10 && x.toNat != 13
def nextDepth (c : UInt8) (d : Nat) : Nat := if c.toNat == 91 then d + 1 else if c.toNat == 93 then d - 1 else d

/-- number of characters up to and including the `]` that brings depth `d` to 0 -/
def closeLen : Bytes → Nat → Option Nat
  | [], _ => none
  | c :: r, d => if nextDepth c d == 0 then some 1 else (closeLen r (nextDepth c d)).map (· + 1)

/-! ### specification side -/

/-- inside a group everything belongs to the word in progress, up to the matching `]` -/
theorem splitWords_nest (rest : Bytes) : ∀ (k d m : Nat) (cur : Bytes) (acc : List Bytes),
    d > 0 → closeLen rest d = some m → k > m →
    Spec.splitWords k rest cur d acc = Spec.splitWords (k - m) (rest.drop m) (cur ++ rest.take m) 0 acc := by
  induction rest with
  | nil => intro k d m cur acc _ h; simp [closeLen] at h
  | cons c r ih =>
    intro k d m cur acc hd hm hk
    obtain ⟨k0, rfl⟩ : ∃ k0, k = k0 + 1 := ⟨k - 1, by omega⟩
    rw [Spec.splitWords]
    have hfold : (if (c.toNat == 91) = true then d + 1 else if (c.toNat == 93) = true then d - 1 else d) = nextDepth c d := rfl
    simp only [hd, if_true, hfold]
    unfold closeLen at hm
    cases h0 : (nextDepth c d == 0)
    case true =>
      simp only [h0, if_true, Option.some.injEq] at hm
      subst hm
      have hz : nextDepth c d = 0 := by simpa using h0
      rw [hz]; simp
    case false =>
      simp only [h0, Bool.false_eq_true, if_false] at hm
      cases hcl : closeLen r (nextDepth c d) with
      | none => rw [hcl] at hm; simp at hm
      | some m' =>
        rw [hcl] at hm; simp at hm; subst hm
        have hd' : nextDepth c d > 0 := by
          have : nextDepth c d ≠ 0 := by simpa using h0
          omega
        rw [ih k0 (nextDepth c d) m' (cur ++ [c]) acc hd' hcl (by omega)]
        have : k0 + 1 - (m' + 1) = k0 - m' := by omega
        rw [this]
        simp

/-- an unclosed group is outside the grammar -/
theorem splitWords_unclosed (rest : Bytes) : ∀ (k d : Nat) (cur : Bytes) (acc : List Bytes),
    d > 0 → closeLen rest d = none → Spec.splitWords k rest cur d acc = none := by
  induction rest with
  | nil =>
    intro k d cur acc hd _
    cases k with
    | zero => rfl
    | succ k =>
      rw [Spec.splitWords]
      have : (d != 0) = true := by simp; omega
      simp [this]
  | cons c r ih =>
    intro k d cur acc hd hm
    cases k with
    | zero => rfl
    | succ k =>
      rw [Spec.splitWords]
      have hfold : (if (c.toNat == 91) = true then d + 1 else if (c.toNat == 93) = true then d - 1 else d) = nextDepth c d := rfl
      simp only [hd, if_true, hfold]
      unfold closeLen at hm
      cases h0 : (nextDepth c d == 0)
      case true => simp [h0] at hm
      case false =>
        simp only [h0, Bool.false_eq_true, if_false, Option.map_eq_none_iff] at hm
        have hd' : nextDepth c d > 0 := by
          have : nextDepth c d ≠ 0 := by simpa using h0
          omega
        exact ih k _ _ _ hd' hm

theorem dropWhile_head {α} (p : α → Bool) : ∀ (l : List α) (c : α) (r : List α), l.dropWhile p = c :: r → p c = false := by
  intro l
  induction l with
  | nil => intro c r h; cases h
  | cons a l ih =>
    intro c r h
    rw [List.dropWhile_cons] at h
    split at h
    · exact ih c r h
    · rename_i hp; injection h with h1 h2; subst h1; simpa using hp

theorem dropWhile_eq_drop {α} (p : α → Bool) (l : List α) : l.dropWhile p = l.drop (l.takeWhile p).length := by
  induction l with
  | nil => rfl
  | cons a l ih =>
    by_cases h : p a = true
    · simp [h, ih]
    · simp [h]

/-! ### model side: indices into the C string -/

/-- `args_string[a..b)` -/
def sl (full : Bytes) (a b : Nat) : Bytes := (full.drop a).take (b - a)

theorem drop_take_cons {full : Bytes} {len j : Nat} {c : UInt8} {r : Bytes}
    (h : (full.take len).drop j = c :: r) :
    j < len ∧ j < full.length ∧ full.getD j 0 = c ∧ (full.take len).drop (j + 1) = r := by
  have hl : j < (full.take len).length := by
    apply Classical.byContradiction; intro hn
    rw [List.drop_eq_nil_of_le (by omega)] at h; cases h
  have hl' := hl
  rw [List.length_take] at hl'
  rw [List.drop_eq_getElem_cons hl] at h
  injection h with h1 h2
  refine ⟨by omega, by omega, ?_, h2⟩
  rw [List.getElem_take] at h1
  rw [List.getD_eq_getElem?_getD, List.getElem?_eq_getElem (by omega)]
  simpa using h1

theorem drop_take_nil {full : Bytes} {len j : Nat} (hlen : len ≤ full.length) (hj : j ≤ len)
    (h : (full.take len).drop j = []) : j = len := by
  have := congrArg List.length h
  simp [List.length_take] at this
  omega

theorem drop_drop_take (full : Bytes) (len j m : Nat) :
    ((full.take len).drop j).drop m = (full.take len).drop (j + m) := by
  rw [List.drop_drop]

theorem cAt_lt (full : Bytes) (j : Nat) (h : j < full.length) : cAt full j = .ok (full.getD j 0) := by
  unfold cAt; simp [h]

theorem sl_self (full : Bytes) (a : Nat) : sl full a a = [] := by simp [sl]

theorem sl_length (full : Bytes) (a b : Nat) (hb : b ≤ full.length) : (sl full a b).length = b - a := by
  simp [sl, List.length_take, List.length_drop]; omega

theorem sl_isEmpty (full : Bytes) (a b : Nat) (hab : a ≤ b) (hb : b ≤ full.length) :
    (sl full a b).isEmpty = (a == b) := by
  have h := sl_length full a b hb
  cases hs : sl full a b with
  | nil => rw [hs] at h; simp at h; have : a = b := by omega
           simp [this]
  | cons x xs => rw [hs] at h; simp at h; have : a ≠ b := by omega
                 simp [this]

theorem sl_snoc (full : Bytes) (a i : Nat) (hai : a ≤ i) (hi : i < full.length) :
    sl full a (i + 1) = sl full a i ++ [full.getD i 0] := by
  unfold sl
  have h1 : i + 1 - a = (i - a) + 1 := by omega
  rw [h1, List.take_add_one]
  congr 1
  rw [List.getElem?_drop]
  have : a + (i - a) = i := by omega
  rw [this, List.getD_eq_getElem?_getD, List.getElem?_eq_getElem hi]
  rfl

theorem sl_body (full : Bytes) (len i n : Nat) (h : i + n ≤ len) :
    sl full i (i + n) = ((full.take len).drop i).take n := by
  unfold sl
  have : i + n - i = n := by omega
  rw [this, List.drop_take, List.take_take]
  congr 1; omega

theorem sl_append (full : Bytes) (a b c : Nat) (hab : a ≤ b) (hbc : b ≤ c) :
    sl full a c = sl full a b ++ sl full b c := by
  unfold sl
  have h1 : c - a = (b - a) + (c - b) := by omega
  rw [h1, List.take_add, List.drop_drop]
  congr 3; omega

theorem bracketScan_close (full : Bytes) (len : Nat) (rest : Bytes) :
    ∀ (j d m f : Nat) (ch : UInt8), (full.take len).drop j = rest → d > 0 → closeLen rest d = some m → f ≥ m →
      bracketScan full len f j d ch = .ok (j + m, 93) ∧ j + m ≤ len ∧ 1 ≤ m ∧ full.getD (j + m - 1) 0 = 93 := by
  induction rest with
  | nil => intro j d m f ch _ _ h; simp [closeLen] at h
  | cons c r ih =>
    intro j d m f ch hj hd hm hf
    obtain ⟨hjl, hjf, hc, hr⟩ := drop_take_cons hj
    unfold closeLen at hm
    have hfold : (if (c.toNat == 91) = true then d + 1 else if (c.toNat == 93) = true then d - 1 else d) = nextDepth c d := rfl
    cases h0 : (nextDepth c d == 0)
    case true =>
      simp only [h0, if_true, Option.some.injEq] at hm
      subst hm
      obtain ⟨f0, rfl⟩ : ∃ f0, f = f0 + 1 := ⟨f - 1, by omega⟩
      have hc93 : c = 93 := by
        unfold nextDepth at h0
        by_cases h91 : (c.toNat == 91) = true
        · simp [h91] at h0
        · by_cases h93 : (c.toNat == 93) = true
          · exact u8_ext (by simpa using h93)
          · simp [h91, h93] at h0; omega
      rw [bracketScan]
      have hcond : (decide (j ≤ len) && decide (d > 0)) = true := by simp; omega
      simp only [hcond, if_true, cAt_lt full j hjf, hc, bind, Except.bind, hfold]
      have hz : nextDepth c d = 0 := by simpa using h0
      rw [hz]
      refine ⟨?_, by omega, by omega, by rw [← hc93]; simpa using hc⟩
      cases f0 with
      | zero => rw [bracketScan, hc93]
      | succ f1 => rw [bracketScan]; simp [hc93]
    case false =>
      simp only [h0, Bool.false_eq_true, if_false] at hm
      cases hcl : closeLen r (nextDepth c d) with
      | none => rw [hcl] at hm; simp at hm
      | some m' =>
        rw [hcl] at hm; simp at hm; subst hm
        obtain ⟨f0, rfl⟩ : ∃ f0, f = f0 + 1 := ⟨f - 1, by omega⟩
        have hd' : nextDepth c d > 0 := by
          have : nextDepth c d ≠ 0 := by simpa using h0
          omega
        rw [bracketScan]
        have hcond : (decide (j ≤ len) && decide (d > 0)) = true := by simp; omega
        simp only [hcond, if_true, cAt_lt full j hjf, hc, bind, Except.bind, hfold]
        have := ih (j + 1) (nextDepth c d) m' f0 c hr hd' hcl (by omega)
        rw [this.1]
        refine ⟨by congr 2; omega, by omega, by omega, ?_⟩
        have h4 := this.2.2.2
        have h3 := this.2.2.1
        have : j + (m' + 1) - 1 = j + 1 + m' - 1 := by omega
        rw [this]; exact h4

theorem skipLine_eq (full : Bytes) (len : Nat) (hlen : len ≤ full.length) (rest : Bytes) :
    ∀ (i f : Nat), (full.take len).drop i = rest → f ≥ (rest.takeWhile notNl).length →
      skipLine full len f i = i + (rest.takeWhile notNl).length := by
  induction rest with
  | nil =>
    intro i f hi _
    cases f with
    | zero => rfl
    | succ f0 =>
      rw [skipLine]
      have hl : ¬ i < len := by
        have := congrArg List.length hi
        simp [List.length_take] at this; omega
      simp [hl]
  | cons c r ih =>
    intro i f hi hf
    obtain ⟨hil, hif, hc, hr⟩ := drop_take_cons hi
    cases hn : notNl c
    case false =>
      simp only [List.takeWhile_cons, hn, Bool.false_eq_true, if_false, List.length_nil, Nat.add_zero]
      cases f with
      | zero => rfl
      | succ f0 =>
        rw [skipLine, hc]
        unfold notNl at hn
        have : (decide (i < len) && c != 10 && c != 13) = false := by
          have h10 : (c != 10) = (c.toNat != 10) := by
            rw [Bool.eq_iff_iff]; simp; constructor
            · intro h h'; exact h (u8_ext h')
            · intro h h'; apply h; rw [h']; rfl
          have h13 : (c != 13) = (c.toNat != 13) := by
            rw [Bool.eq_iff_iff]; simp; constructor
            · intro h h'; exact h (u8_ext h')
            · intro h h'; apply h; rw [h']; rfl
          rw [Bool.and_assoc, h10, h13, hn]; simp
        simp [this]
    case true =>
      simp only [List.takeWhile_cons, hn, if_true, List.length_cons] at hf ⊢
      obtain ⟨f0, rfl⟩ : ∃ f0, f = f0 + 1 := ⟨f - 1, by omega⟩
      rw [skipLine, hc]
      unfold notNl at hn
      have : (decide (i < len) && c != 10 && c != 13) = true := by
        have h10 : (c != 10) = (c.toNat != 10) := by
          rw [Bool.eq_iff_iff]; simp; constructor
          · intro h h'; exact h (u8_ext h')
          · intro h h'; apply h; rw [h']; rfl
        have h13 : (c != 13) = (c.toNat != 13) := by
          rw [Bool.eq_iff_iff]; simp; constructor
          · intro h h'; exact h (u8_ext h')
          · intro h h'; apply h; rw [h']; rfl
        rw [Bool.and_assoc, h10, h13, hn]; simp [hil]
      simp only [this, if_true]
      rw [ih (i + 1) f0 hr (by omega)]
      omega


/-! ### one iteration of the `for` loop -/

/-- the part of the loop body for a character that does not open a group -/
def post (full : Bytes) (len k start : Nat) (acc : List Bytes) (i : Nat) (ch : UInt8) : VM (List Bytes) :=
  if (i == len || isSepChar ch) = true then
    if ch.toNat == 35 then
      tokenize full len k (skipLine full len (len+1) i + 1) (skipLine full len (len+1) i + 1) (if start == i then acc else sl full start i :: acc)
    else tokenize full len k (i+1) (if start == i then start + 1 else i + 1) (if start == i then acc else sl full start i :: acc)
  else tokenize full len k (i+1) start acc

theorem tokenize_plain (full : Bytes) (len k i start : Nat) (acc : List Bytes) (c : UInt8)
    (hi : i ≤ len) (hl : len ≠ 0) (hc : cAt full (if i == len then i - 1 else i) = .ok c) (h91 : (c.toNat == 91) = false) :
    tokenize full len (k+1) i start acc = post full len k start acc i c := by
  rw [tokenize]
  have h1 : ¬ i > len := by omega
  have h2 : (len == 0) = false := by simpa using hl
  simp only [h1, if_false, h2, Bool.false_eq_true, hc, h91, bind, Except.bind, post, sl]
  by_cases hs : (start == i) = true <;> simp [hs]

/-- a `[`: the scan runs to the matching `]` and the loop resumes behind it, in the same word -/
theorem tokenize_bracket (full : Bytes) (len k i start : Nat) (acc : List Bytes) (c : UInt8) (i2 : Nat) (ch : UInt8)
    (hi : i ≤ len) (hl : len ≠ 0) (hc : cAt full (if i == len then i - 1 else i) = .ok c) (h91 : (c.toNat == 91) = true)
    (hb : bracketScan full len (len + 2) (i + 1) 1 c = .ok (i2, ch)) :
    tokenize full len (k+1) i start acc = tokenize full len k i2 start acc := by
  rw [tokenize]
  have h1 : ¬ i > len := by omega
  have h2 : (len == 0) = false := by simpa using hl
  simp only [h1, if_false, h2, Bool.false_eq_true, hc, h91, if_true, hb, bind, Except.bind]

theorem tokenize_past (full : Bytes) (len k i start : Nat) (acc : List Bytes) (hi : i > len) :
    tokenize full len k i start acc = .ok acc.reverse := by
  cases k with
  | zero => rfl
  | succ k => rw [tokenize]; simp [hi]

theorem closeLen_le (r : Bytes) : ∀ (d m : Nat), closeLen r d = some m → m ≤ r.length := by
  induction r with
  | nil => intro d m hm; simp [closeLen] at hm
  | cons x xs ih =>
    intro d m hm
    unfold closeLen at hm
    split at hm
    · simp at hm; subst hm; simp
    · cases hcl : closeLen xs (nextDepth x d) with
      | none => rw [hcl] at hm; simp at hm
      | some m' => rw [hcl] at hm; simp at hm; subst hm; simp; exact ih _ _ hcl

theorem skipLine_ge (full : Bytes) (len : Nat) : ∀ (f i : Nat), skipLine full len f i ≥ i := by
  intro f
  induction f with
  | zero => intro i; exact Nat.le_refl _
  | succ f ih =>
    intro i; rw [skipLine]; split
    · have := ih (i + 1); omega
    · exact Nat.le_refl _

theorem takeWhile_length_le {α} (p : α → Bool) (l : List α) : (l.takeWhile p).length ≤ l.length := by
  induction l with
  | nil => simp
  | cons a l ih => rw [List.takeWhile_cons]; split <;> simp; omega

theorem isBlank_facts {c : UInt8} (h : isBlank c = true) :
    (c.toNat == 91) = false ∧ (c.toNat == 93) = false ∧ (c.toNat == 35) = false ∧ isSepChar c = true ∧
    (c.toNat == 32 || c.toNat == 9 || c.toNat == 10 || c.toNat == 13) = true := by
  unfold isBlank at h
  refine ⟨?_, ?_, ?_, ?_, h⟩
  · simp at h ⊢; omega
  · simp at h ⊢; omega
  · simp at h ⊢; omega
  · unfold isSepChar; simp at h ⊢; omega

theorem notNl_false_blank {c : UInt8} (h : notNl c = false) : isBlank c = true := by
  unfold notNl at h; unfold isBlank; simp at h ⊢
  by_cases h10 : c.toNat = 10
  · simp [h10]
  · simp [h h10]

/-- THE LOOP: from any loop head at bracket depth 0, with `cur` = the characters `start..i` of the word in
    progress: whenever the specification's recursion yields words, the implementation's loop yields the same -/
theorem tokenize_loop (full : Bytes) (len : Nat) (hlen : len ≤ full.length) (hpos : 0 < len) :
    ∀ (n i start k k' : Nat) (acc ws : List Bytes), len - i ≤ n → start ≤ i → i ≤ len → k + i ≥ len + 2 → k' > len - i →
      (i = len → (full.getD (len - 1) 0).toNat ≠ 91) →
      Spec.splitWords k' ((full.take len).drop i) (sl full start i) 0 acc = some ws →
      tokenize full len k i start acc = .ok ws := by
  intro n
  induction n with
  | zero =>
    intro i start k k' acc ws hn hsi hil hk hk' hprev hspec
    have hi : i = len := by omega
    subst hi
    have hnil : (full.take i).drop i = [] := List.drop_eq_nil_of_le (by simp [List.length_take]; omega)
    rw [hnil] at hspec
    obtain ⟨k0, rfl⟩ : ∃ k0, k = k0 + 1 := ⟨k - 1, by omega⟩
    obtain ⟨k'0, rfl⟩ : ∃ k'0, k' = k'0 + 1 := ⟨k' - 1, by omega⟩
    rw [Spec.splitWords] at hspec
    simp only [bne_self_eq_false, Bool.false_eq_true, if_false, Option.some.injEq] at hspec
    subst hspec
    have hcat : cAt full (if (i == i) = true then i - 1 else i) = .ok (full.getD (i - 1) 0) := by
      simp only [beq_self_eq_true, if_true]; exact cAt_lt full _ (by omega)
    have h91 : ((full.getD (i - 1) 0).toNat == 91) = false := by simpa using hprev rfl
    rw [tokenize_plain full i k0 i start acc _ (Nat.le_refl _) (by omega) hcat h91]
    unfold post
    simp only [beq_self_eq_true, Bool.true_or, if_true]
    rw [sl_isEmpty full start i hsi hlen]
    split
    · apply tokenize_past; have := skipLine_ge full i (i + 1) i; omega
    · apply tokenize_past; omega
  | succ n0 ih =>
    intro i start k k' acc ws hn hsi hil hk hk' hprev hspec
    cases hrest : (full.take len).drop i with
    | nil =>
      have hi := drop_take_nil hlen hil hrest
      exact ih i start k k' acc ws (by omega) hsi hil hk hk' hprev hspec
    | cons c r =>
      obtain ⟨hilt, hifl, hc, hr⟩ := drop_take_cons hrest
      rw [hrest] at hspec
      obtain ⟨k0, rfl⟩ : ∃ k0, k = k0 + 1 := ⟨k - 1, by omega⟩
      obtain ⟨k'0, rfl⟩ : ∃ k'0, k' = k'0 + 1 := ⟨k' - 1, by omega⟩
      have hine : (i == len) = false := by simp; omega
      have hcat : cAt full (if (i == len) = true then i - 1 else i) = .ok c := by
        simp only [hine, Bool.false_eq_true, if_false]; rw [cAt_lt full i hifl, hc]
      have hempty := sl_isEmpty full start i hsi (by omega)
      rw [Spec.splitWords] at hspec
      simp only [Nat.lt_irrefl, gt_iff_lt, if_false] at hspec
      cases h91 : (c.toNat == 91)
      case true =>
        -- a group starts here (at the start of a word or inside one) and belongs to the word
        simp only [h91, if_true] at hspec
        cases hcl : closeLen r 1 with
        | none => rw [splitWords_unclosed r k'0 1 _ acc (by decide) hcl] at hspec; cases hspec
        | some m =>
          have hmle : m ≤ r.length := closeLen_le r 1 m hcl
          have hrl : r.length = len - (i + 1) := by
            have h2 := congrArg List.length hr
            simp [List.length_take] at h2; omega
          obtain ⟨hscan, hle, hm1, hlast⟩ := bracketScan_close full len r (i + 1) 1 m (len + 2) c hr (by decide) hcl (by omega)
          rw [tokenize_bracket full len k0 i start acc c (i + 1 + m) 93 hil (by omega) hcat h91 hscan]
          rw [splitWords_nest r k'0 1 m _ acc (by decide) hcl (by omega)] at hspec
          have hword : sl full start i ++ [c] ++ r.take m = sl full start (i + 1 + m) := by
            rw [sl_append full start i (i + 1 + m) hsi (by omega)]
            have := sl_body full len i (1 + m) (by omega)
            rw [show i + (1 + m) = i + 1 + m by omega] at this
            rw [this, hrest]; simp [List.take_succ_cons, Nat.add_comm]
          have hdrop : r.drop m = (full.take len).drop (i + 1 + m) := by
            rw [← hr, List.drop_drop]
          rw [hword, hdrop] at hspec
          exact ih (i + 1 + m) start k0 (k'0 - m) acc ws (by omega) (by omega) hle (by omega) (by omega)
            (by intro he
                have : len - 1 = i + 1 + m - 1 := by omega
                rw [this, hlast]; decide)
            hspec
      case false =>
        simp only [h91, Bool.false_eq_true, if_false] at hspec
        cases h93 : (c.toNat == 93)
        case true => simp [h93] at hspec
        case false =>
          simp only [h93, Bool.false_eq_true, if_false, hempty] at hspec
          rw [tokenize_plain full len k0 i start acc c hil (by omega) hcat h91]
          cases hbl : isBlank c
          case true =>
            -- a blank ends the word in progress
            obtain ⟨_, _, b35, bsep, bbl⟩ := isBlank_facts hbl
            simp only [bbl, if_true] at hspec
            unfold post
            simp only [bsep, Bool.or_true, if_true, b35, Bool.false_eq_true, if_false]
            have hst : (if (start == i) = true then start + 1 else i + 1) = i + 1 := by
              by_cases hs : (start == i) = true
              · have : start = i := by simpa using hs
                simp [this]
              · simp [hs]
            rw [hst]
            refine ih (i + 1) (i + 1) k0 k'0 _ ws (by omega) (Nat.le_refl _) (by omega) (by omega) (by omega)
              (by intro he
                  have : len - 1 = i := by omega
                  rw [this, hc]; simpa using h91) ?_
            rw [sl_self, hr]; exact hspec
          case false =>
            have hbl' : (c.toNat == 32 || c.toNat == 9 || c.toNat == 10 || c.toNat == 13) = false := hbl
            simp only [hbl', Bool.false_eq_true, if_false] at hspec
            cases h35 : (c.toNat == 35)
            case true =>
              -- a comment: skip to the end of the line
              simp only [h35, if_true] at hspec
              have hsepc : isSepChar c = true := by unfold isSepChar; simp [h35]
              unfold post
              simp only [hsepc, Bool.or_true, if_true, h35]
              have hnl : notNl c = true := by
                unfold notNl; have : c.toNat = 35 := by simpa using h35
                simp [this]
              have hskip := skipLine_eq full len hlen (c :: r) i (len + 1) hrest
                (by
                  have h1 : ((c :: r).takeWhile notNl).length ≤ (c :: r).length := takeWhile_length_le _ _
                  have h2 := congrArg List.length hrest
                  simp [List.length_take] at h2 h1 ⊢
                  omega)
              simp only [List.takeWhile_cons, hnl, if_true, List.length_cons] at hskip
              rw [hskip]
              have hpred : (fun x : UInt8 => x.toNat != 10 && x.toNat != 13) = notNl := rfl
              rw [hpred, dropWhile_eq_drop] at hspec
              have htl : (r.takeWhile notNl).length ≤ r.length := takeWhile_length_le _ _
              have hrl : r.length = len - (i + 1) := by
                have h2 := congrArg List.length hr
                simp [List.length_take] at h2; omega
              have hdrop : r.drop (r.takeWhile notNl).length = (full.take len).drop (i + (r.takeWhile notNl).length + 1) := by
                rw [← hr, List.drop_drop]; congr 1; omega
              have hhead : ∀ c2 r3, r.drop (r.takeWhile notNl).length = c2 :: r3 → notNl c2 = false := by
                intro c2 r3 h
                rw [← dropWhile_eq_drop] at h
                exact dropWhile_head notNl r c2 r3 h
              rw [hdrop] at hspec hhead
              generalize hj : i + (r.takeWhile notNl).length + 1 = j at hspec hhead
              have hjle : j ≤ len := by omega
              cases hrest2 : (full.take len).drop j with
              | nil =>
                have hjl := drop_take_nil hlen hjle hrest2
                obtain ⟨k'1, rfl⟩ : ∃ k'1, k'0 = k'1 + 1 := ⟨k'0 - 1, by omega⟩
                rw [hrest2, Spec.splitWords] at hspec
                simp only [bne_self_eq_false, Bool.false_eq_true, if_false, List.isEmpty_nil, if_true,
                  Option.some.injEq] at hspec
                subst hspec
                apply tokenize_past; omega
              | cons c2 r3 =>
                obtain ⟨h2lt, h2fl, hc2, hr2⟩ := drop_take_cons hrest2
                have hblank := notNl_false_blank (hhead c2 r3 hrest2)
                obtain ⟨b91, b93, b35, bsep, bbl⟩ := isBlank_facts hblank
                obtain ⟨k'1, rfl⟩ : ∃ k'1, k'0 = k'1 + 1 := ⟨k'0 - 1, by omega⟩
                rw [hrest2, Spec.splitWords] at hspec
                simp only [Nat.lt_irrefl, gt_iff_lt, if_false, b91, b93, Bool.false_eq_true, bbl, if_true, List.isEmpty_nil] at hspec
                refine ih (j + 1) (j + 1) k0 k'1 _ ws (by omega) (Nat.le_refl _) (by omega) (by omega) (by omega)
                  (by intro he
                      have : len - 1 = j := by omega
                      rw [this, hc2]; simpa using b91) ?_
                rw [sl_self, hr2]; exact hspec
            case false =>
              -- an ordinary character joins the word in progress
              simp only [h35, Bool.false_eq_true, if_false] at hspec
              have hsepc : isSepChar c = false := by
                unfold isSepChar; unfold isBlank at hbl
                simp at h93 h35 hbl ⊢
                omega
              unfold post
              simp only [hine, hsepc, Bool.or_false, Bool.false_eq_true, if_false]
              refine ih (i + 1) start k0 k'0 acc ws (by omega) (by omega) (by omega) (by omega) (by omega)
                (by intro he
                    have : len - 1 = i := by omega
                    rw [this, hc]; simpa using h91) ?_
              rw [sl_snoc full start i hsi hifl, hc, hr]; exact hspec

/-- the tokenizer against the specification on a non-empty bracket body -/
theorem tokenize_eq_splitWords_aux (body tail : Bytes) (hne : body ≠ []) (k' : Nat) (hk' : k' > body.length)
    (ws : List Bytes) (hs : Spec.splitWords k' body [] 0 [] = some ws) :
    tokenize (body ++ tail) body.length (body.length + 2) 0 0 [] = .ok ws := by
  have hpos : 0 < body.length := List.length_pos_iff.mpr hne
  have htake : (body ++ tail).take body.length = body := by simp
  exact tokenize_loop (body ++ tail) body.length (by simp) hpos body.length 0 0 (body.length + 2) k' [] ws
    (by omega) (Nat.le_refl _) (by omega) (by omega) (by omega) (by intro h; omega)
    (by rw [htake, sl_self]; simpa using hs)

/-! ### the words that come out -/

/-- a word that `parse_args(vector)` passes on as it is: not empty, and not the start of a bracket group
    spanning several words -/
def GoodWord (w : Bytes) : Prop := w ≠ [] ∧ ¬ (w.head? = some 91 ∧ Model.bracketBalance w > 0)

def count91 (w : Bytes) : Nat := w.count 91

def balStep (d : Int) (c : UInt8) : Int := if c.toNat == 91 then d + 1 else if c.toNat == 93 then d - 1 else d

theorem bracketBalance_snoc (cur : Bytes) (c : UInt8) :
    Model.bracketBalance (cur ++ [c]) = balStep (Model.bracketBalance cur) c := by
  unfold Model.bracketBalance; rw [List.foldl_append]; rfl

theorem count91_dropWhile (p : UInt8 → Bool) (l : Bytes) : count91 (l.dropWhile p) ≤ count91 l := by
  unfold count91
  exact List.Sublist.count_le _ (List.dropWhile_sublist p)

theorem splitWords_words : ∀ (k : Nat) (t cur : Bytes) (d : Nat) (acc ws : List Bytes),
    Spec.splitWords k t cur d acc = some ws → Model.bracketBalance cur = d →
    ∀ w ∈ ws, w ∈ acc ∨ (GoodWord w ∧ count91 w ≤ count91 cur + count91 t) := by
  intro k
  induction k with
  | zero => intro t cur d acc ws h; simp [Spec.splitWords] at h
  | succ k ih =>
    intro t cur d acc ws h hbal w hw
    have hcurgood : d = 0 → cur.isEmpty = false → GoodWord cur := by
      intro hd0 hne
      refine ⟨by intro h; simp [h] at hne, fun hh => ?_⟩
      rw [hbal, hd0] at hh; exact absurd hh.2 (by decide)
    have hpush : d = 0 → ∀ t' : Bytes, ∀ w, w ∈ (if cur.isEmpty = true then acc else cur :: acc) →
        w ∈ acc ∨ (GoodWord w ∧ count91 w ≤ count91 cur + count91 t') := by
      intro hd0 _ w hw
      cases hce : cur.isEmpty
      · simp only [hce, Bool.false_eq_true, if_false, List.mem_cons] at hw
        rcases hw with rfl | hw
        · exact Or.inr ⟨hcurgood hd0 hce, by omega⟩
        · exact Or.inl hw
      · simp only [hce, if_true] at hw; exact Or.inl hw
    cases t with
    | nil =>
      rw [Spec.splitWords] at h
      by_cases hdz : d = 0
      · subst hdz
        simp only [bne_self_eq_false, Bool.false_eq_true, if_false, Option.some.injEq] at h
        subst h
        exact hpush rfl [] w (by simpa using hw)
      · have : (d != 0) = true := by simpa using hdz
        simp [this] at h
    | cons c r =>
      rw [Spec.splitWords] at h
      have hcnt : count91 (c :: r) = count91 r + (if c.toNat == 91 then 1 else 0) := by
        unfold count91
        rw [List.count_cons]
        congr 1
        by_cases hc : c = 91
        · subst hc; rfl
        · have : ¬ c.toNat = 91 := fun hh => hc (u8_ext hh)
          simp [hc, this]
      have hcnts : count91 (cur ++ [c]) = count91 cur + (if c.toNat == 91 then 1 else 0) := by
        unfold count91
        rw [List.count_append]
        congr 1
        by_cases hc : c = 91
        · subst hc; rfl
        · have : ¬ c.toNat = 91 := fun hh => hc (u8_ext hh)
          simp [hc, this]
      -- the common step: the character joins the word in progress
      have hjoin : ∀ d', Spec.splitWords k r (cur ++ [c]) d' acc = some ws → Model.bracketBalance (cur ++ [c]) = d' →
          w ∈ acc ∨ (GoodWord w ∧ count91 w ≤ count91 cur + count91 (c :: r)) := by
        intro d' h' hb'
        rcases ih r (cur ++ [c]) d' acc ws h' hb' w hw with h1 | ⟨h1, h2⟩
        · exact Or.inl h1
        · exact Or.inr ⟨h1, by rw [hcnts] at h2; rw [hcnt]; omega⟩
      by_cases hdp : d > 0
      · simp only [hdp, if_true] at h
        have hfold : (if (c.toNat == 91) = true then d + 1 else if (c.toNat == 93) = true then d - 1 else d) = nextDepth c d := rfl
        simp only [hfold] at h
        refine hjoin _ h ?_
        rw [bracketBalance_snoc, hbal]; unfold balStep nextDepth
        by_cases h91 : (c.toNat == 91) = true
        · simp [h91]
        · by_cases h93 : (c.toNat == 93) = true
          · simp [h91, h93]; omega
          · simp [h91, h93]
      · have hd0 : d = 0 := by omega
        subst hd0
        simp only [Nat.lt_irrefl, gt_iff_lt, if_false] at h
        cases h91 : (c.toNat == 91)
        case true =>
          simp only [h91, if_true] at h
          refine hjoin 1 h ?_
          rw [bracketBalance_snoc, hbal]; unfold balStep; simp [h91]
        case false =>
          simp only [h91, Bool.false_eq_true, if_false] at h hcnt hcnts
          cases h93 : (c.toNat == 93)
          case true => simp [h93] at h
          case false =>
            simp only [h93, Bool.false_eq_true, if_false] at h
            by_cases hbl : (c.toNat == 32 || c.toNat == 9 || c.toNat == 10 || c.toNat == 13) = true
            · simp only [hbl, if_true] at h
              rcases ih r [] 0 _ ws h rfl w hw with h1 | ⟨h1, h2⟩
              · exact hpush rfl _ w h1
              · exact Or.inr ⟨h1, by rw [hcnt]; simp [count91] at h2 ⊢; omega⟩
            · simp only [hbl, if_false] at h
              by_cases h35 : (c.toNat == 35) = true
              · simp only [h35, if_true] at h
                rcases ih _ [] 0 _ ws h rfl w hw with h1 | ⟨h1, h2⟩
                · exact hpush rfl _ w h1
                · refine Or.inr ⟨h1, ?_⟩
                  have := count91_dropWhile (fun x => x.toNat != 10 && x.toNat != 13) r
                  rw [hcnt]; simp [count91] at h2 this ⊢; omega
              · simp only [h35, if_false] at h
                refine hjoin 0 h ?_
                rw [bracketBalance_snoc, hbal]; unfold balStep; simp [h91, h93]

/-! ### `parse_args(vector)` on words -/

theorem parseArgsListWith_good (mk : Bytes → Nat → VM Value) : ∀ (ws : List Bytes) (accum : Bytes) (acc : List Value),
    (∀ w ∈ ws, GoodWord w) →
    parseArgsListWith mk ws accum 0 acc =
      (ws.mapM (fun w => mk w w.length)).bind (fun xs => .ok (acc.reverse ++ xs)) := by
  intro ws
  induction ws with
  | nil => intro accum acc _; simp [parseArgsListWith, Except.bind, pure, Except.pure]
  | cons v rest ih =>
    intro accum acc hg
    obtain ⟨hne, hnb⟩ := hg v (by simp)
    rw [parseArgsListWith]
    have h1 : ¬ ((0 : Int) > 0) := by decide
    have h2 : v.isEmpty = false := by cases v with | nil => exact absurd rfl hne | cons _ _ => rfl
    have h3 : (v.head? == some 91 && decide (Model.bracketBalance v > 0)) = false := by
      cases hh : (v.head? == some 91 && decide (Model.bracketBalance v > 0))
      · rfl
      · exfalso; apply hnb
        simp only [Bool.and_eq_true, beq_iff_eq, decide_eq_true_eq] at hh
        exact hh
    simp only [h1, if_false, h2, Bool.false_eq_true, h3, List.mapM_cons, bind, Except.bind]
    cases mk v v.length with
    | error e => rfl
    | ok x =>
      simp only
      rw [ih accum (x :: acc) (fun w hw => hg w (by simp [hw]))]
      cases rest.mapM (fun w => mk w w.length) with
      | error e => rfl
      | ok xs => simp [Except.bind, pure, Except.pure]

theorem groupWords_acc : ∀ (ws : List Bytes) (cur : Bytes) (d : Int) (gacc : List Bytes),
    Spec.groupWords ws cur d gacc = gacc.reverse ++ Spec.groupWords ws cur d [] := by
  intro ws
  induction ws with
  | nil => intro cur d gacc; simp [Spec.groupWords]
  | cons w rest ih =>
    intro cur d gacc
    have e : ∀ g, Spec.groupWords (w :: rest) cur d g =
        (if d > 0 then
          if d + Spec.bracketBalance w ≤ 0 then Spec.groupWords rest [] 0 ((cur ++ [32] ++ w) :: g)
          else Spec.groupWords rest (cur ++ [32] ++ w) (d + Spec.bracketBalance w) g
        else if w.isEmpty then Spec.groupWords rest cur d g
        else if w.head? == some 91 && Spec.bracketBalance w > 0 then Spec.groupWords rest w (Spec.bracketBalance w) g
        else Spec.groupWords rest cur d (w :: g)) := fun g => by rw [Spec.groupWords]
    rw [e gacc, e []]
    split
    · split
      · rw [ih _ _ (_ :: gacc), ih _ _ [_]]; simp
      · exact ih _ _ _
    · split
      · exact ih _ _ _
      · split
        · exact ih _ _ _
        · rw [ih _ _ (_ :: gacc), ih _ _ [_]]; simp

theorem parseArgsListWith_group (mk : Bytes → Nat → VM Value) : ∀ (ws : List Bytes) (accum : Bytes) (depth : Int) (acc : List Value),
    parseArgsListWith mk ws accum depth acc =
      ((Spec.groupWords ws accum depth []).mapM (fun w => mk w w.length)).bind (fun xs => .ok (acc.reverse ++ xs)) := by
  intro ws
  induction ws with
  | nil => intro accum depth acc; simp [parseArgsListWith, Spec.groupWords, Except.bind, pure, Except.pure]
  | cons v rest ih =>
    intro accum depth acc
    rw [parseArgsListWith, Spec.groupWords]
    have hbb : Spec.bracketBalance v = Model.bracketBalance v := rfl
    have step : ∀ (u c : Bytes) (d : Int),
        (do let x ← mk u u.length; parseArgsListWith mk rest c d (x :: acc)) =
        ((Spec.groupWords rest c d [u]).mapM (fun w => mk w w.length)).bind (fun xs => .ok (acc.reverse ++ xs)) := by
      intro u c d
      rw [groupWords_acc rest c d [u]]
      simp only [List.reverse_cons, List.reverse_nil, List.nil_append, List.singleton_append, List.mapM_cons, bind, Except.bind]
      cases mk u u.length with
      | error e => rfl
      | ok x =>
        simp only
        rw [ih c d (x :: acc)]
        cases (Spec.groupWords rest c d []).mapM (fun w => mk w w.length) with
        | error e => rfl
        | ok xs => simp [Except.bind, pure, Except.pure]
    simp only [hbb]
    split
    · split
      · exact step _ _ _
      · exact ih _ _ _
    · split
      · exact ih _ _ _
      · split
        · exact ih _ _ _
        · exact step _ _ _

end Btcdeb.Proofs.C07Lexer
