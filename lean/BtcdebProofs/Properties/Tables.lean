/-
  Generated ↔ Spec: every constant and finite table regenerated from /repo's working tree by the
  dumper equals what the specification requires.  These are re-checked on every run, so a changed
  constant, a dropped table row or a moved flag bit breaks a proof obligation immediately.
-/
import Btcdeb.Generated.Tables
import Btcdeb.Spec.Opcode
import Btcdeb.Spec.Types
import Btcdeb.Spec.Limits
namespace Btcdeb.Proofs.Tables
open Btcdeb

theorem max_script_element_size : Gen.MAX_SCRIPT_ELEMENT_SIZE = Spec.maxElementSize := by decide
theorem max_ops_per_script : Gen.MAX_OPS_PER_SCRIPT = Spec.maxOpsPerScript := by decide
theorem max_pubkeys_per_multisig : Gen.MAX_PUBKEYS_PER_MULTISIG = Spec.maxPubkeysPerMultisig := by decide
theorem max_script_size : Gen.MAX_SCRIPT_SIZE = Spec.maxScriptSize := by decide
theorem max_stack_size : Gen.MAX_STACK_SIZE = Spec.maxStackSize := by decide
theorem default_max_num_size : Gen.DEFAULT_MAX_NUM_SIZE = 4 := by decide
theorem locktime_threshold : Gen.LOCKTIME_THRESHOLD = 500000000 := by decide
theorem sequence_constants :
    Gen.SEQUENCE_FINAL = 0xffffffff ∧ Gen.SEQUENCE_LOCKTIME_DISABLE_FLAG = 2 ^ 31 ∧
    Gen.SEQUENCE_LOCKTIME_TYPE_FLAG = 2 ^ 22 ∧ Gen.SEQUENCE_LOCKTIME_MASK = 0xffff := by decide
theorem taproot_constants :
    Gen.TAPROOT_LEAF_MASK = 0xfe ∧ Gen.TAPROOT_LEAF_TAPSCRIPT = 0xc0 ∧ Gen.TAPROOT_CONTROL_BASE_SIZE = 33 ∧
    Gen.TAPROOT_CONTROL_NODE_SIZE = 32 ∧ Gen.TAPROOT_CONTROL_MAX_NODE_COUNT = 128 ∧
    Gen.TAPROOT_CONTROL_MAX_SIZE = 33 + 32 * 128 ∧ Gen.ANNEX_TAG = 0x50 ∧
    Gen.VALIDATION_WEIGHT_PER_SIGOP_PASSED = 50 ∧ Gen.VALIDATION_WEIGHT_OFFSET = 50 ∧
    Gen.WITNESS_V0_KEYHASH_SIZE = 20 ∧ Gen.WITNESS_V0_SCRIPTHASH_SIZE = 32 ∧ Gen.WITNESS_V1_TAPROOT_SIZE = 32 := by decide
theorem sighash_constants :
    Gen.SIGHASH_DEFAULT = 0 ∧ Gen.SIGHASH_ALL = 1 ∧ Gen.SIGHASH_NONE = 2 ∧ Gen.SIGHASH_SINGLE = 3 ∧
    Gen.SIGHASH_ANYONECANPAY = 0x80 ∧ Gen.SIGHASH_OUTPUT_MASK = 3 ∧ Gen.SIGHASH_INPUT_MASK = 0x80 := by decide
theorem sigversion_codes :
    Gen.SIGVERSION_BASE = SigVersion.BASE.code ∧ Gen.SIGVERSION_WITNESS_V0 = SigVersion.WITNESS_V0.code ∧
    Gen.SIGVERSION_TAPROOT = SigVersion.TAPROOT.code ∧ Gen.SIGVERSION_TAPSCRIPT = SigVersion.TAPSCRIPT.code := by decide

/-- the highest opcode `HasValidOps` admits is the highest defined opcode -/
theorem max_opcode : Gen.MAX_OPCODE = Op.OP_CHECKSIGADD := by decide

/-- the enumerators of `opcodetype` are exactly the specification's opcode numbering (names and values) -/
theorem opcode_enum :
    Gen.opcodeEnum.length = Op.table.length + Op.aliases.length ∧
    (Op.table ++ Op.aliases).all (fun p => Gen.opcodeEnum.lookup p.1 == some p.2) = true := by decide +kernel

/-- `Opcode.ofNat`/`toNat` agree with that numbering -/
theorem opcode_ofNat_table :
    (List.range 256).all (fun i => (Opcode.ofNat i).toNat == i) = true ∧
    Op.table.all (fun p => (Opcode.ofNat p.2 matches .UNKNOWN _) == (p.1 == "OP_INVALIDOPCODE")) = true := by decide +kernel

/-- `IsOpSuccess` is BIP342's list, for all 256 byte values -/
theorem op_success_table :
    Gen.opSuccess.length = 256 ∧ (List.range 256).all (fun i => Gen.opSuccess.getD i false == Spec.isOpSuccess i) = true := by
  decide +kernel

/-- `ParseOpCode` accepts every opcode name, with and without the OP_ prefix, and yields its opcode; the one enumerator
    that is no opcode (OP_INVALIDOPCODE, the "none" value of `GetOpCode`) is refused under both spellings, and the table
    has no other rows -/
theorem get_opcode_names :
    ((Op.table ++ Op.aliases).filter (fun p => p.1 != "OP_INVALIDOPCODE")).all (fun p =>
      Gen.opCodeByName.lookup p.1 == some p.2 && Gen.opCodeByName.lookup (String.ofList (p.1.toList.drop 3)) == some p.2) = true ∧
    Gen.opCodeByName.lookup "OP_INVALIDOPCODE" = none ∧ Gen.opCodeByName.lookup "INVALIDOPCODE" = none ∧
    Gen.opCodeByName.length = 2 * ((Op.table ++ Op.aliases).filter (fun p => p.1 != "OP_INVALIDOPCODE")).length := by
  decide +kernel

/-- `ParseOpCode("OP_xNN")` and `ParseOpCode("xNN")` succeed with NN for all 256 values, ff included -/
theorem get_opcode_x :
    Gen.opCodeX.length = 256 ∧ (List.range 256).all (fun i => Gen.opCodeX.getD i (0, 0) == (i, i)) = true := by decide +kernel

/-- the enumerators of `ScriptError` -/
theorem script_error_enum :
    Gen.scriptErrEnum.length = ScriptError.all.length ∧
    ScriptError.all.all (fun e => Gen.scriptErrEnum.lookup e.name == some e.code) = true := by decide +kernel

/-- every `SCRIPT_VERIFY_X` is the single bit the specification numbers X -/
theorem flag_enum :
    (Flag.table.all (fun p => Gen.flagEnum.lookup p.1 == some (2 ^ p.2))) = true ∧
    Gen.flagEnum.lookup "SCRIPT_VERIFY_NONE" = some 0 := by decide +kernel

/-- btcdeb's `svf` table lists exactly the 21 flags, each with its own bit -/
theorem svf_table :
    Gen.svf = Flag.table.map (fun p => (String.ofList (p.1.toList.drop 14), 2 ^ p.2)) ∧ Gen.svfGetFlag = Gen.svf := by decide +kernel

/-- the standard flag set is every flag except SIGPUSHONLY -/
theorem standard_flags :
    Gen.STANDARD_SCRIPT_VERIFY_FLAGS = 2 ^ 21 - 1 - 2 ^ Flag.SIGPUSHONLY := by decide

end Btcdeb.Proofs.Tables
