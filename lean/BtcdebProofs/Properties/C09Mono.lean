/-
  C09 (monotonicity of the verification flags, on the specification `Spec.evalScript`):
  a script that succeeds under a flag set succeeds, with the same trace and final state, under every
  subset of it.  Every flag test of the specification guards an additional failure, tightens number
  decoding (MINIMALDATA), or turns a no-op into a check that leaves the state unchanged (CLTV/CSV).

  Method: `Le x y` ("x succeeds with the same value whenever y does") with structural rules for bind,
  `if` with the same test, a guard that fires more often on the right, and the soft-fork shape
  `if !flag then nop else check`; the tactic `le_step` applies them along the (identical) shape of both sides.
-/
import Btcdeb
namespace Btcdeb.Proofs.C09
open Btcdeb

/-- flag set `a` is contained in flag set `b` -/
def FlagsLe (a b : Nat) : Prop := ∀ k, a.testBit k = true → b.testBit k = true

/-- two configurations that differ only in their flags -/
structure SameBut (a b : Spec.Cfg) : Prop where
  sv : a.sigversion = b.sigversion
  z : a.allowDisabled = b.allowDisabled
  oracle : a.oracle = b.oracle
  pretend : a.pretend = b.pretend

theorem flag_mono {a b : Nat} (h : FlagsLe a b) (k : Nat) : hasFlag a k = true → hasFlag b k = true := h k

theorem flag_mono_false {a b : Nat} (h : FlagsLe a b) (k : Nat) : hasFlag b k = false → hasFlag a k = false := by
  intro hb
  cases ha : hasFlag a k with
  | false => rfl
  | true => rw [flag_mono h k ha] at hb; cases hb

/-- `x` succeeds (with the same value) whenever `y` does -/
structure Le {α : Type} (x y : Spec.R α) : Prop where
  imp : ∀ v, y = .ok v → x = .ok v

theorem Le.refl {α : Type} (x : Spec.R α) : Le x x := ⟨fun _ h => h⟩
theorem Le.error {α : Type} (x : Spec.R α) (e : ScriptError) : Le x (.error e) := ⟨fun _ h => by cases h⟩

theorem bind_ok {α β : Type} {x : Spec.R α} {f : α → Spec.R β} {b : β}
    (h : (x >>= f) = .ok b) : ∃ a, x = .ok a ∧ f a = .ok b := by
  cases x with
  | error e => cases h
  | ok a => exact ⟨a, rfl, h⟩

theorem Le.bind {α β : Type} {x y : Spec.R α} {f g : α → Spec.R β}
    (h1 : Le x y) (h2 : ∀ v, Le (f v) (g v)) : Le (x >>= f) (y >>= g) := by
  constructor
  intro v h
  obtain ⟨a, ha, hb⟩ := bind_ok h
  rw [h1.imp a ha]
  exact (h2 a).imp v hb

/-- same test on both sides -/
theorem Le.ite {α : Type} (c : Prop) [Decidable c] {x y x' y' : Spec.R α}
    (h1 : Le x y) (h2 : Le x' y') : Le (if c then x else x') (if c then y else y') := by
  by_cases hc : c <;> simp [hc, h1, h2]

/-- a guard that fires more often on the right -/
theorem Le.guard {α : Type} (ca cb : Prop) [Decidable ca] [Decidable cb] {e e' : ScriptError} {x' y' : Spec.R α}
    (hc : ca → cb) (h2 : Le x' y') : Le (if ca then .error e else x') (if cb then .error e' else y') := by
  by_cases hb : cb
  · simp only [hb, if_true]; exact Le.error _ _
  · have ha : ¬ ca := fun h => hb (hc h)
    simp only [ha, hb, if_false]; exact h2

theorem numOf_le (rmA rmB : Bool) (h : rmA = true → rmB = true) (k : Nat) (b : Bytes) :
    Le (Spec.numOf rmA k b) (Spec.numOf rmB k b) := by
  unfold Spec.numOf
  apply Le.ite _ (Le.refl _)
  apply Le.guard _ _ _ (Le.refl _)
  intro hc
  cases rmA <;> simp_all

theorem err_bind {α β : Type} (e : ScriptError) (f : α → Spec.R β) : ((Except.error e : Spec.R α) >>= f) = Except.error e := rfl

macro "le_step" : tactic => `(tactic| first
  | with_reducible exact Le.refl _
  | exact Le.error _ _
  | (apply numOf_le; assumption)
  | refine Le.bind ?_ (fun _ => ?_)
  | refine Le.ite _ ?_ ?_
  | (refine Le.guard _ _ ?_ ?_; focus (intro hc; grind))
  | split)

theorem execExtended_le (rmA rmB : Bool) (h : rmA = true → rmB = true) (op : Opcode) (st : Spec.St) :
    Le (Spec.execExtended rmA op st) (Spec.execExtended rmB op st) := by
  unfold Spec.execExtended
  split
  all_goals try simp only [err_bind]
  all_goals repeat' le_step

theorem Le.softfork {α : Type} (ca cb : Bool) {n x y : Spec.R α} (hc : ca = true → cb = true)
    (h1 : Le x y) (h2 : Le n y) : Le (if (!ca) = true then n else x) (if (!cb) = true then n else y) := by
  cases ca <;> cases cb <;> simp_all
  exact Le.refl _

theorem Le.bind_right {α β : Type} {n : Spec.R β} {y : Spec.R α} {g : α → Spec.R β}
    (h : ∀ v, Le n (g v)) : Le n (y >>= g) := by
  constructor
  intro v hv
  obtain ⟨a, _, hb⟩ := bind_ok hv
  exact (h a).imp v hb

theorem Le.ite_right {α : Type} (c : Prop) [Decidable c] {n y y' : Spec.R α}
    (h1 : Le n y) (h2 : Le n y') : Le n (if c then y else y') := by
  by_cases hc : c <;> simp [hc, h1, h2]

macro "le_right" : tactic => `(tactic| repeat' (first
  | with_reducible exact Le.refl _
  | exact Le.error _ _
  | refine Le.bind_right (fun _ => ?_)
  | refine Le.ite_right _ ?_ ?_
  | split))

/-- the two configurations in normal form -/
abbrev mk (f : Nat) (sv : SigVersion) (z : Bool) (o : Spec.SigOracle) (p : List (Bytes × Bytes)) : Spec.Cfg :=
  { flags := f, sigversion := sv, allowDisabled := z, oracle := o, pretend := p }

section
variable {fa fb : Nat} (hf : ∀ k, hasFlag fa k = true → hasFlag fb k = true)
  (sv : SigVersion) (z : Bool) (o : Spec.SigOracle) (p : List (Bytes × Bytes))
include hf

theorem sigEncodingOk_le (sig : Bytes) :
    Le (Spec.sigEncodingOk (mk fa sv z o p) sig) (Spec.sigEncodingOk (mk fb sv z o p) sig) := by
  unfold Spec.sigEncodingOk
  dsimp only
  repeat' le_step

theorem keyEncodingOk_le (key : Bytes) :
    Le (Spec.keyEncodingOk (mk fa sv z o p) key) (Spec.keyEncodingOk (mk fb sv z o p) key) := by
  unfold Spec.keyEncodingOk
  dsimp only
  repeat' le_step

theorem checkSig_le (st : Spec.St) (sig key : Bytes) :
    Le (Spec.checkSig (mk fa sv z o p) st sig key) (Spec.checkSig (mk fb sv z o p) st sig key) := by
  unfold Spec.checkSig Spec.mockHit Spec.pairListed
  dsimp only [mk]
  refine Le.ite _ (Le.refl _) ?_
  cases sv
  all_goals dsimp only
  all_goals try simp only [err_bind]
  all_goals repeat' le_step

theorem matchSigs_le (code : Bytes) (sigs keys : List Bytes) :
    Le (Spec.matchSigs (mk fa sv z o p) code sigs keys) (Spec.matchSigs (mk fb sv z o p) code sigs keys) := by
  induction keys generalizing sigs with
  | nil => cases sigs <;> exact Le.refl _
  | cons key keys ih =>
    cases sigs with
    | nil => exact Le.refl _
    | cons sig sigs =>
      unfold Spec.matchSigs Spec.keyListed Spec.pairListed
      dsimp only [mk]
      repeat (first | exact ih _ | exact sigEncodingOk_le hf sv z o p sig | exact keyEncodingOk_le hf sv z o p key | le_step)

theorem deleteAll_le (sigs : List Bytes) (code : Bytes) :
    Le (Spec.deleteAll (mk fa sv z o p) sigs code) (Spec.deleteAll (mk fb sv z o p) sigs code) := by
  induction sigs generalizing code with
  | nil => exact Le.refl _
  | cons sig sigs ih =>
    unfold Spec.deleteAll
    dsimp only
    refine Le.ite _ ?_ (ih _)
    refine Le.guard _ _ ?_ (ih _)
    intro hc; grind

theorem execMultisig_le (rmA rmB : Bool) (h : rmA = true → rmB = true) (verify : Bool) (st : Spec.St) :
    Le (Spec.execMultisig (mk fa sv z o p) rmA verify st) (Spec.execMultisig (mk fb sv z o p) rmB verify st) := by
  unfold Spec.execMultisig
  dsimp only
  try simp only [err_bind]
  repeat (first | exact deleteAll_le hf sv z o p _ _ | exact matchSigs_le hf sv z o p _ _ _ | le_step)

theorem execOp_le (op : Opcode) (ex : Bool) (after : Bytes) (pos : Nat) (st : Spec.St) :
    Le (Spec.execOp (mk fa sv z o p) op ex after pos st) (Spec.execOp (mk fb sv z o p) op ex after pos st) := by
  unfold Spec.execOp
  dsimp only
  try simp only [err_bind]
  repeat' (first
    | exact execExtended_le _ _ (hf _) _ _
    | exact execMultisig_le hf sv z o p _ _ (hf _) _ _
    | exact checkSig_le hf sv z o p _ _ _
    | exact numOf_le _ _ (hf _) _ _
    | focus (refine Le.softfork _ _ (hf _) ?_ ?_; rotate_left; focus le_right)
    | le_step)

theorem execInstr_le (i : Spec.Instr) (after : Bytes) (pos : Nat) (st : Spec.St) :
    Le (Spec.execInstr (mk fa sv z o p) i after pos st) (Spec.execInstr (mk fb sv z o p) i after pos st) := by
  unfold Spec.execInstr Spec.countOp
  dsimp only
  repeat' (first
    | exact execOp_le hf sv z o p _ _ _ _ _
    | le_step)
end

/-- reduce a statement about two configurations that differ only in their flags to the normal form -/
theorem of_sameBut {P : Spec.Cfg → Spec.Cfg → Prop} (a b : Spec.Cfg) (hs : SameBut a b) (hf : FlagsLe a.flags b.flags)
    (H : ∀ (fa fb : Nat) (sv : SigVersion) (z : Bool) (o : Spec.SigOracle) (p : List (Bytes × Bytes)),
      (∀ k, hasFlag fa k = true → hasFlag fb k = true) → P (mk fa sv z o p) (mk fb sv z o p)) : P a b := by
  obtain ⟨fa, sv, z, o, p⟩ := a
  obtain ⟨fb, sv', z', o', p'⟩ := b
  obtain ⟨h1, h2, h3, h4⟩ := hs
  dsimp only at h1 h2 h3 h4 hf
  subst h1 h2 h3 h4
  exact H fa fb sv z o p (fun k => hf k)

theorem numOf_mono (k : Nat) (b : Bytes) (n : Int) (h : Spec.numOf true k b = .ok n) : Spec.numOf false k b = .ok n :=
  (numOf_le false true (fun _ => rfl) k b).imp n h

theorem sigEncodingOk_mono (a b : Spec.Cfg) (hs : SameBut a b) (hf : FlagsLe a.flags b.flags) (sig : Bytes)
    (h : Spec.sigEncodingOk b sig = .ok ()) : Spec.sigEncodingOk a sig = .ok () :=
  (of_sameBut (P := fun a b => Le (Spec.sigEncodingOk a sig) (Spec.sigEncodingOk b sig)) a b hs hf
    (fun _ _ sv z o p hf => sigEncodingOk_le hf sv z o p sig)).imp _ h

theorem keyEncodingOk_mono (a b : Spec.Cfg) (hs : SameBut a b) (hf : FlagsLe a.flags b.flags) (key : Bytes)
    (h : Spec.keyEncodingOk b key = .ok ()) : Spec.keyEncodingOk a key = .ok () :=
  (of_sameBut (P := fun a b => Le (Spec.keyEncodingOk a key) (Spec.keyEncodingOk b key)) a b hs hf
    (fun _ _ sv z o p hf => keyEncodingOk_le hf sv z o p key)).imp _ h

theorem checkSig_mono (a b : Spec.Cfg) (hs : SameBut a b) (hf : FlagsLe a.flags b.flags) (st : Spec.St) (sig key : Bytes)
    (r : Bool × Spec.St) (h : Spec.checkSig b st sig key = .ok r) : Spec.checkSig a st sig key = .ok r :=
  (of_sameBut (P := fun a b => Le (Spec.checkSig a st sig key) (Spec.checkSig b st sig key)) a b hs hf
    (fun _ _ sv z o p hf => checkSig_le hf sv z o p st sig key)).imp _ h

theorem matchSigs_mono (a b : Spec.Cfg) (hs : SameBut a b) (hf : FlagsLe a.flags b.flags) (code : Bytes)
    (sigs keys : List Bytes) (r : Bool) (h : Spec.matchSigs b code sigs keys = .ok r) :
    Spec.matchSigs a code sigs keys = .ok r :=
  (of_sameBut (P := fun a b => Le (Spec.matchSigs a code sigs keys) (Spec.matchSigs b code sigs keys)) a b hs hf
    (fun _ _ sv z o p hf => matchSigs_le hf sv z o p code sigs keys)).imp _ h

theorem deleteAll_mono (a b : Spec.Cfg) (hs : SameBut a b) (hf : FlagsLe a.flags b.flags) (sigs : List Bytes)
    (code r : Bytes) (h : Spec.deleteAll b sigs code = .ok r) : Spec.deleteAll a sigs code = .ok r :=
  (of_sameBut (P := fun a b => Le (Spec.deleteAll a sigs code) (Spec.deleteAll b sigs code)) a b hs hf
    (fun _ _ sv z o p hf => deleteAll_le hf sv z o p sigs code)).imp _ h

theorem execMultisig_mono (a b : Spec.Cfg) (hs : SameBut a b) (hf : FlagsLe a.flags b.flags)
    (rmA rmB : Bool) (hrm : rmA = true → rmB = true) (verify : Bool) (st st' : Spec.St)
    (h : Spec.execMultisig b rmB verify st = .ok st') : Spec.execMultisig a rmA verify st = .ok st' :=
  (of_sameBut (P := fun a b => Le (Spec.execMultisig a rmA verify st) (Spec.execMultisig b rmB verify st)) a b hs hf
    (fun _ _ sv z o p hf => execMultisig_le hf sv z o p rmA rmB hrm verify st)).imp _ h

theorem execExtended_mono (rmA rmB : Bool) (hrm : rmA = true → rmB = true) (op : Opcode) (st st' : Spec.St)
    (h : Spec.execExtended rmB op st = .ok st') : Spec.execExtended rmA op st = .ok st' :=
  (execExtended_le rmA rmB hrm op st).imp _ h

theorem execOp_mono (a b : Spec.Cfg) (hs : SameBut a b) (hf : FlagsLe a.flags b.flags)
    (op : Opcode) (executing : Bool) (after : Bytes) (pos : Nat) (st st' : Spec.St)
    (h : Spec.execOp b op executing after pos st = .ok st') : Spec.execOp a op executing after pos st = .ok st' :=
  (of_sameBut (P := fun a b => Le (Spec.execOp a op executing after pos st) (Spec.execOp b op executing after pos st))
    a b hs hf (fun _ _ sv z o p hf => execOp_le hf sv z o p op executing after pos st)).imp _ h

theorem execInstr_mono (a b : Spec.Cfg) (hs : SameBut a b) (hf : FlagsLe a.flags b.flags)
    (i : Spec.Instr) (after : Bytes) (pos : Nat) (st st' : Spec.St)
    (h : Spec.execInstr b i after pos st = .ok st') : Spec.execInstr a i after pos st = .ok st' :=
  (of_sameBut (P := fun a b => Le (Spec.execInstr a i after pos st) (Spec.execInstr b i after pos st))
    a b hs hf (fun _ _ sv z o p hf => execInstr_le hf sv z o p i after pos st)).imp _ h

theorem evalInstrs_mono (a b : Spec.Cfg) (hs : SameBut a b) (hf : FlagsLe a.flags b.flags)
    (is : List (Spec.Instr × Bytes)) (pos : Nat) (st st' : Spec.St)
    (h : (Spec.evalInstrs b is pos st).2 = .ok st') : Spec.evalInstrs a is pos st = Spec.evalInstrs b is pos st := by
  induction is generalizing pos st with
  | nil => rfl
  | cons ia rest ih =>
    obtain ⟨i, after⟩ := ia
    unfold Spec.evalInstrs at h ⊢
    cases hb : Spec.execInstr b i after pos st with
    | error e => rw [hb] at h; cases h
    | ok st1 =>
      rw [hb] at h
      rw [execInstr_mono a b hs hf i after pos st st1 hb]
      dsimp only at h ⊢
      rw [ih (pos + 1) st1 h]

/-- C09 (monotonicity, one script): a script that succeeds under the larger flag set succeeds under the
    smaller one, with the same trace and the same final state -/
theorem evalScript_mono (a b : Spec.Cfg) (hs : SameBut a b) (hf : FlagsLe a.flags b.flags)
    (script : Bytes) (st0 st' : Spec.St)
    (h : (Spec.evalScript b script st0).result = .ok st') :
    (Spec.evalScript a script st0).result = .ok st' ∧ (Spec.evalScript a script st0).states = (Spec.evalScript b script st0).states := by
  have key : Spec.evalScript a script st0 = Spec.evalScript b script st0 := by
    unfold Spec.evalScript at h ⊢
    rw [hs.sv]
    split
    · rfl
    · rename_i hg
      rw [if_neg hg] at h
      dsimp only at h ⊢
      cases hb : (Spec.evalInstrs b (Spec.decodePrefix script.length script).1 0 { st0 with codeFrom := script }).2 with
      | error e => rw [hb] at h; cases h
      | ok st1 => rw [evalInstrs_mono a b hs hf _ _ _ st1 hb, hb]
  rw [key]
  exact ⟨h, rfl⟩

end Btcdeb.Proofs.C09
