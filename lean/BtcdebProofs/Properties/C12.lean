/-
  C12 — the script listing and the position marker show exactly what executes next.

  Property theorems (definitions and invariants: BtcdebProofs/Lemmas/Marker.lean, StepCases.lean, Listing.lean).
  Model: `Btcdeb/Model/Listing.lean` (`buildListing` = the construction of `script_lines` in btcdeb.cpp main,
  `markedLine` / `echoLine` = `fn_print` / `fn_step` / `fn_rewind`, `fnStep`), sessions: `Btcdeb/Model/Session.lean`.
  Specification: `Btcdeb/Spec/Listing.lean` (`idealListing` = the decoding of everything that will be executed, in
  execution order; `pending` = the operation the next step performs).

  Results, for EVERY session kind (plain scripts, legacy spends with scriptPubKey and P2SH sections, P2WSH, taproot
  script paths of any length), pushes of any length, any signature checker, and every history of `step` / `rewind`
  commands — including steps that FAIL (a failed step leaves the session as it was):
  * `C12_listing_exact`: the listing the debugger builds is exactly the execution-order decoding;
  * `C12_session` (= `C12_marked_line` over `runCmds`): at every point the marked / echoed line is the operation the
    next step performs, no line is marked when nothing is pending, and `curr_op_seq` is never negative;
  * `C12_marker_histories` / `C12_marker_reach` / `C12_nothing_pending_at_end`: the same at the level of the
    execution-order decoding, for every fresh session.
  Hypotheses that remain (`Fresh`, `hstack`, `htap`) describe what `setup_environment` / `configure_tx_txin` establish;
  one of them (`htap`: a tapscript is not treated as a P2SH scriptPubKey) excludes a combination in which the real
  code still misbehaves (see the check, `F-C12-tapscript-p2sh-pattern-leaf`).
-/
import Btcdeb
import BtcdebProofs.Lemmas.Marker
namespace Btcdeb.Proofs.C12
open Btcdeb Btcdeb.Model

/-- MAIN THEOREM (marker, every history).  For every session, signature checker and history over
    {step, rewind} without a failing step (any length; failing steps: `C12_session`): the line whose number is `curr_op_seq` in the
    execution-order decoding of the session (`Spec.idealListing`) is exactly the operation the next
    `step` performs, and no line has that number when nothing is pending.
    `hpred` (only relevant for a P2SH scriptPubKey): the redeem script announced is the one on top of
    the stack when the scriptPubKey is entered; discharged for every fresh session by `predOk_holds`. -/
theorem C12_marker_histories (cx : Ctx) (tc : TapCtx) (r : Bytes) (e0 : IEnv) (hf : Fresh e0)
    (hpred : ∀ j e, C04.advance cx tc e0 j = some e → PredOk r e)
    (cmds : List C04.Cmd) (e : IEnv) (n : Int) (h : C04.execHist cx tc cmds (e0, 0) = some (e, n)) :
    MarkerInv (Spec.idealListing r e0) e := by
  obtain ⟨hi0, hs0⟩ := fresh_inv e0 hf
  obtain ⟨_, hadv⟩ := C04.C04_rewind_exact cx tc e0 hi0 hs0 cmds e n h
  exact marker_of_inv r e0.successor _ e (inv_advance cx tc r e0 hf hpred _ e hadv) (j_advance cx tc e0 hf _ e hadv)

/-- after the last operation nothing is marked as pending: in the ended state the marker number lies
    behind the last line of the listing -/
theorem C12_nothing_pending_at_end (cx : Ctx) (tc : TapCtx) (r : Bytes) (e0 : IEnv) (hf : Fresh e0)
    (hpred : ∀ j e, C04.advance cx tc e0 j = some e → PredOk r e)
    (cmds : List C04.Cmd) (e : IEnv) (n : Int) (h : C04.execHist cx tc cmds (e0, 0) = some (e, n))
    (hd : e.done = true) :
    (Spec.idealListing r e0).length ≤ (markerIndex e).toNat := by
  have := (C12_marker_histories cx tc r e0 hf hpred cmds e n h).2
  simp only [Spec.pending, hd, if_true] at this
  exact List.getElem?_eq_none_iff.mp this

/-- the states a debugging session can be in: reached from the fresh session by `step` commands that
    succeed and `rewind` commands that are accepted -/
inductive Reach (cx : Ctx) (tc : TapCtx) (e0 : IEnv) : IEnv → Prop
  | init : Reach cx tc e0 e0
  | step {e e' : IEnv} : Reach cx tc e0 e → instStep cx tc e = .ok e' → Reach cx tc e0 e'
  | rewind {e e' : IEnv} : Reach cx tc e0 e → instRewind e = some e' → Reach cx tc e0 e'

theorem reach_hist (cx : Ctx) (tc : TapCtx) (e0 e : IEnv) (h : Reach cx tc e0 e) :
    ∃ cmds n, C04.execHist cx tc cmds (e0, 0) = some (e, n) := by
  induction h with
  | init => exact ⟨[], 0, rfl⟩
  | @step e1 e2 _ hs ih =>
    obtain ⟨cmds, n, hc⟩ := ih
    refine ⟨cmds ++ [.step], n + 1, ?_⟩
    rw [execHist_append, hc]
    unfold instStep at hs
    by_cases hd : e1.done = true
    · simp [hd] at hs
    · simp only [hd, Bool.false_eq_true, if_false] at hs
      simp [C04.execHist, C04.execCmd, hd, hs]
  | rewind _ hr ih =>
    obtain ⟨cmds, n, hc⟩ := ih
    refine ⟨cmds ++ [.rewind], n + -1, ?_⟩
    rw [execHist_append, hc]
    simp [C04.execHist, C04.execCmd, hr]

/-- the same in the form "holds initially and is preserved by `instStep` and `instRewind`":
    every state of a session satisfies the marker property -/
theorem C12_marker_reach (cx : Ctx) (tc : TapCtx) (r : Bytes) (e0 : IEnv) (hf : Fresh e0)
    (hpred : ∀ j e, C04.advance cx tc e0 j = some e → PredOk r e) (e : IEnv) (h : Reach cx tc e0 e) :
    MarkerInv (Spec.idealListing r e0) e := by
  obtain ⟨cmds, n, hc⟩ := reach_hist cx tc e0 e h
  exact C12_marker_histories cx tc r e0 hf hpred cmds e n hc

-- ---------------------------------------------------------------------------------------------
-- failed steps

/-- a failed (or refused) `step` command leaves the session exactly as it was -/
theorem fnStep_failed_id (cx : Ctx) (tc : TapCtx) (e : IEnv) (h : (fnStep cx tc e).2 = false) : (fnStep cx tc e).1 = e := by
  unfold fnStep at h ⊢
  by_cases hd : e.done = true
  · simp [hd]
  · simp only [hd, Bool.false_eq_true, if_false] at h ⊢
    cases hs : stepSession cx tc e with
    | ok e' => simp [hs] at h
    | error x => rfl

/-- a performed `step` command is a successful `instStep` -/
theorem fnStep_ok (cx : Ctx) (tc : TapCtx) (e : IEnv) (h : (fnStep cx tc e).2 = true) : instStep cx tc e = .ok (fnStep cx tc e).1 := by
  unfold fnStep at h ⊢
  unfold instStep
  by_cases hd : e.done = true
  · simp [hd] at h
  · simp only [hd, Bool.false_eq_true, if_false] at h ⊢
    cases hs : stepSession cx tc e with
    | ok e' => rfl
    | error x => simp [hs] at h

/-- one debugger command as the debugger performs it (`fn_step` / `fn_rewind`): a refused or failed
    command changes nothing -/
def fnCmd (cx : Ctx) (tc : TapCtx) (e : IEnv) : C04.Cmd → IEnv
  | .step => (fnStep cx tc e).1
  | .rewind => (instRewind e).getD e

/-- the session after a command history (any commands, failing steps included) -/
def runCmds (cx : Ctx) (tc : TapCtx) : List C04.Cmd → IEnv → IEnv
  | [], e => e
  | c :: cs, e => runCmds cx tc cs (fnCmd cx tc e c)

theorem run_reach (cx : Ctx) (tc : TapCtx) (e0 : IEnv) : ∀ (cmds : List C04.Cmd) (e : IEnv), Reach cx tc e0 e →
    Reach cx tc e0 (runCmds cx tc cmds e) := by
  intro cmds
  induction cmds with
  | nil => intro e h; exact h
  | cons c cs ih =>
    intro e h
    simp only [runCmds]
    apply ih
    cases c with
    | step =>
      simp only [fnCmd]
      cases hb : (fnStep cx tc e).2 with
      | true => exact .step h (fnStep_ok cx tc e hb)
      | false => rw [fnStep_failed_id cx tc e hb]; exact h
    | rewind =>
      simp only [fnCmd]
      cases hr : instRewind e with
      | none => exact h
      | some e' => exact .rewind h hr

-- ---------------------------------------------------------------------------------------------
-- the listing the debugger builds against the execution-order decoding

theorem description_plan (t : Tce) (h : t.i = 0) :
    t.description.map Line.plan = Spec.commitmentPlan t.control t.p t.pathLen t.i := by
  simp [Tce.description, Spec.commitmentPlan, h, List.map_append, branchLine_plan, checkLine_plan, List.range_eq_range',
    Function.comp_def]

/-- LISTING.  For every fresh session the listing the debugger builds is exactly the execution-order
    decoding: commitment steps (one line per step), the script, the scriptPubKey and P2SH sections, every
    instruction by its name or by ALL the bytes it pushes; the redeem script shown for a P2SH scriptPubKey is
    what the last instruction of the scriptSig leaves on the stack.
    `hstack`: a session that starts on a P2SH-pattern script has the redeem script on its stack (otherwise
    the first operation fails and the debugger lists no P2SH section at all);
    `htap`: the commitment environment is fresh, belongs to a tapscript session, and the tapscript is not at
    the same time treated as a P2SH scriptPubKey (EXCLUDED REGION: there the debugger lists no commitment lines). -/
theorem C12_listing_exact (e0 : IEnv) (hf : Fresh e0)
    (hstack : e0.isP2sh = true → e0.p2shStack ≠ [])
    (htap : ∀ t, e0.tce = some t → t.i = 0 ∧ e0.see.sigversion = .TAPSCRIPT ∧ e0.isP2sh = false) :
    (buildListing e0).map Line.plan = Spec.idealListing (lastPayload e0.see.script) e0 := by
  have hcommit : (commitLines e0).map Line.plan = Spec.commitFuture e0.tce := by
    unfold commitLines
    cases htce : e0.tce with
    | none => simp only [Spec.commitFuture]; split <;> rfl
    | some t =>
      obtain ⟨hi, hsv, hp⟩ := htap t htce
      simp [hsv, hp, viaStack, Spec.commitFuture, description_plan t hi]
  have htail : (spkSection e0 ++ p2shSection e0).map Line.plan = Spec.tailFuture (lastPayload e0.see.script) e0 := by
    unfold spkSection p2shSection viaStack viaSucc Spec.tailFuture
    simp only [p2shPattern_eq]
    by_cases hsu : e0.successor.isEmpty = true
    · simp only [hsu, Bool.not_true, Bool.false_and, Bool.or_false, Bool.false_eq_true, if_false, List.nil_append, if_true,
        List.append_nil]
      by_cases hp : e0.isP2sh = true
      · have hne := hstack hp
        have : e0.p2shStack.isEmpty = false := by cases h : e0.p2shStack with | nil => exact absurd h hne | cons a b => rfl
        simp [hp, this, opLines_plan, Line.plan, p2shHeader, headerLine, Spec.handOverP2sh]
      · simp [hp]
    · have hne : e0.successor ≠ [] := by intro h; simp [h] at hsu
      have hp : e0.isP2sh = false := (hf.succ0 hne).2.1
      simp only [hsu, hp, Bool.not_false, Bool.true_and, Bool.false_and, Bool.false_or, Bool.false_eq_true, if_false,
        if_true, List.nil_append, List.map_cons, List.map_append, opLines_plan]
      by_cases hpat : (hasFlag e0.see.flags Flag.P2SH && isPayToScriptHash e0.successor) = true
      · simp [hpat, opLines_plan, Line.plan, p2shHeader, spkHeader, headerLine, Spec.handOverP2sh, Spec.handOverSpk]
      · simp [hpat, Line.plan, spkHeader, headerLine, Spec.handOverSpk]
  unfold buildListing Spec.idealListing Spec.sessionPlan
  rw [List.append_assoc, List.map_append, List.map_append, hcommit, opLines_plan, htail]

-- ---------------------------------------------------------------------------------------------
-- the announced redeem script is the one that is loaded

/-- in every fresh session the redeem script the listing announces for a P2SH scriptPubKey — what the last
    instruction of the scriptSig leaves on the stack — is the item on top of the stack when the scriptPubKey is
    entered after a push-only scriptSig (after any other scriptSig the hand-over to the redeem script fails) -/
theorem predOk_holds (cx : Ctx) (tc : TapCtx) (e0 : IEnv) (hf : Fresh e0) :
    ∀ j e, C04.advance cx tc e0 j = some e → PredOk (lastPayload e0.see.script) e := by
  have hk : ∀ j e, C04.advance cx tc e0 j = some e → K e0.see.script e :=
    advance_induction cx tc e0 _ (fun h => ⟨rfl, (hf.succ0 h).2.2.2.2⟩)
      (fun j ep e hj _ hp hs => k_step cx tc _ _ ep e hp (j_advance cx tc e0 hf j ep hj) hs)
  intro j e hj _ hpc _ hne _ hpo
  have hscr := (hk j e hj hne).1
  rw [hscr] at hpo
  have hdp : PushOnly e0.see.script := isPushOnly_ops _ _ (Nat.le_refl _) hpo
  have hq : ∀ j e, C04.advance cx tc e0 j = some e → Q e :=
    advance_induction cx tc e0 _
      (fun h => ⟨(hf.succ0 h).2.2.2.1, 0, by simp [advanceOps, hf.pcStart], by simp [topAfter, (hf.succ0 h).2.2.1]⟩)
      (fun j ep e hj' _ hp hs => q_step cx tc _ _ hdp ep e hp (hk j ep hj') (j_advance cx tc e0 hf j ep hj') hs)
  obtain ⟨_, k, hadv, htop⟩ := hq j e hj hne
  rw [htop, hscr]
  rw [hpc, hscr] at hadv
  obtain ⟨pre, hdec, hlen⟩ := decodeFrom_advance k _ _ hadv
  have hnil : decodeFrom ([] : Bytes) = [] := decodeFrom_none rfl
  rw [hnil, List.append_nil] at hdec
  unfold topAfter lastPayload
  rw [hdec, List.take_of_length_le (by omega)]
  cases pre.getLast? <;> rfl

-- ---------------------------------------------------------------------------------------------
-- listing and marker of the debugger: full strength

/-- the conclusion of C12 at one point of a session -/
def Holds (e0 e : IEnv) : Prop :=
  (buildListing e0).map Line.plan = Spec.idealListing (lastPayload e0.see.script) e0 ∧
  0 ≤ markerIndex e ∧
  (markedLine (buildListing e0) e).map Line.plan = Spec.pending e ∧
  (e.done = true → markedLine (buildListing e0) e = none)

/-- MAIN THEOREM (listing and marker of the debugger).  For every fresh session and every history over
    {step, rewind} without a failing step:
    (1) the listing the debugger prints is exactly the execution-order decoding of the session;
    (2) `curr_op_seq` is not negative, and the line the debugger marks (and echoes after `step` / `rewind`) is
        the operation the next step performs, no line being marked when nothing is pending;
    (3) in the ended state no line is marked. -/
theorem C12_marked_line (cx : Ctx) (tc : TapCtx) (e0 : IEnv) (hf : Fresh e0)
    (hstack : e0.isP2sh = true → e0.p2shStack ≠ [])
    (htap : ∀ t, e0.tce = some t → t.i = 0 ∧ e0.see.sigversion = .TAPSCRIPT ∧ e0.isP2sh = false)
    (cmds : List C04.Cmd) (e : IEnv) (n : Int) (h : C04.execHist cx tc cmds (e0, 0) = some (e, n)) :
    Holds e0 e := by
  have hL := C12_listing_exact e0 hf hstack htap
  obtain ⟨h0, hm⟩ := C12_marker_histories cx tc _ e0 hf (predOk_holds cx tc e0 hf) cmds e n h
  have hnn : ¬ e.currOpSeq < 0 := by unfold markerIndex at h0; omega
  have hmk : (markedLine (buildListing e0) e).map Line.plan = Spec.pending e := by
    unfold markedLine
    simp only [hnn, if_false]
    rw [← List.getElem?_map, hL]; exact hm
  refine ⟨hL, h0, hmk, ?_⟩
  intro hd
  have : Spec.pending e = none := by simp [Spec.pending, hd]
  rw [this] at hmk
  cases hx : markedLine (buildListing e0) e with
  | none => rfl
  | some l => rw [hx] at hmk; cases hmk

/-- MAIN THEOREM, all command histories: the same at every point of every history of `step` and `rewind`
    commands as the debugger performs them — refused commands and FAILED steps included (they leave the
    session where it was: the same line stays marked, the same operation is pending) -/
theorem C12_session (cx : Ctx) (tc : TapCtx) (e0 : IEnv) (hf : Fresh e0)
    (hstack : e0.isP2sh = true → e0.p2shStack ≠ [])
    (htap : ∀ t, e0.tce = some t → t.i = 0 ∧ e0.see.sigversion = .TAPSCRIPT ∧ e0.isP2sh = false)
    (cmds : List C04.Cmd) : Holds e0 (runCmds cx tc cmds e0) := by
  obtain ⟨cs, n, hc⟩ := reach_hist cx tc e0 _ (run_reach cx tc e0 cmds e0 .init)
  exact C12_marked_line cx tc e0 hf hstack htap cs _ n hc

/-- `pending` is what `step` does: when an instruction is pending and the step succeeds, the step
    executed exactly that instruction (the one the specification decodes at the position) and the new
    position is directly behind it; when a hand-over is pending the step enters the announced script -/
theorem pending_is_next_step (cx : Ctx) (tc : TapCtx) (e e' : IEnv) (htce : e.tce = none) (hnd : e.done = false)
    (hs : stepSession cx tc e = .ok e') :
    (e.pc ≠ [] → ∃ i after, Spec.decodeOne e.pc = some (i, after) ∧ e'.pc = after ∧ e'.see.script = e.see.script ∧
        Spec.pending e = some ⟨false, e.see.script.length - e.pc.length, Spec.instrText i⟩) ∧
    (e.pc = [] → e.isP2sh = true → Spec.pending e = some Spec.handOverP2sh ∧
        e'.see.script = e.p2shStack.getLast?.getD [] ∧ e'.pc = e'.see.script) ∧
    (e.pc = [] → e.isP2sh = false → e.successor ≠ [] → Spec.pending e = some Spec.handOverSpk ∧
        e'.see.script = e.successor ∧ e'.pc = e'.see.script) := by
  cases stepSession_cases cx tc e e' hs with
  | merkle t t' htce' _ _ _ _ _ _ => rw [htce] at htce'; cases htce'
  | tweak t htce' _ _ => rw [htce] at htce'; cases htce'
  | op g see' _ hne hg hst hv =>
    simp only [view, Prod.mk.injEq] at hv
    obtain ⟨hscr, _, hpc, _⟩ := hv
    refine ⟨fun _ => ?_, fun h => absurd h hne, fun h => absurd h hne⟩
    have hdo := Refine.getOp_decodeOne e.pc
    rw [hg] at hdo; simp only [Option.map_some] at hdo
    have hpe : e.pc.isEmpty = false := by cases h : e.pc with | nil => exact absurd h hne | cons a b => rfl
    exact ⟨⟨g.opcode, g.data⟩, g.rest, hdo.symm, hpc, hscr, by simp [Spec.pending, hnd, htce, hpe, ← hdo]⟩
  | p2sh redeem _ hpc0 hp2 hr _ hv =>
    simp only [view, Prod.mk.injEq] at hv
    obtain ⟨hscr, _, hpc, _⟩ := hv
    refine ⟨fun h => absurd hpc0 h, fun _ _ => ?_, fun _ h => (by rw [hp2] at h; cases h)⟩
    exact ⟨by simp [Spec.pending, hnd, htce, hpc0, hp2], by rw [hscr, hr]; rfl, by rw [hpc, hscr]⟩
  | succ _ hpc0 hp2 hne hv =>
    simp only [view, Prod.mk.injEq] at hv
    obtain ⟨hscr, _, hpc, _⟩ := hv
    refine ⟨fun h => absurd hpc0 h, fun _ h => (by rw [hp2] at h; cases h), fun _ _ _ => ?_⟩
    have hse : e.successor.isEmpty = false := by cases h : e.successor with | nil => exact absurd h hne | cons a b => rfl
    exact ⟨by simp [Spec.pending, hnd, htce, hpc0, hp2, hse], hscr, by rw [hpc, hscr]⟩
  | finish _ hpc0 hp2 hsu0 _ =>
    exact ⟨fun h => absurd hpc0 h, fun _ h => (by rw [hp2] at h; cases h), fun _ _ h => absurd hsu0 h⟩

-- ---------------------------------------------------------------------------------------------
-- the hypotheses are what `setup_environment` establishes

/-- sessions produced by `Instance::setup_environment` are fresh, given what the callers guarantee for a
    scriptSig (a script followed by a scriptPubKey: legacy branch of `configure_tx_txin`): it decodes completely
    (`hasValidOps_decodable`), is not itself the P2SH pattern, starts on an empty stack, without commitment phase -/
theorem setup_fresh (stack : List Bytes) (script : Bytes) (flags : Nat) (sv : SigVersion) (succ : Bytes)
    (z : Bool) (ed : ExecData) (tce : Option Tce) (pm : List (Bytes × Bytes)) (pk : List Bytes) (e0 : IEnv)
    (h : setupEnvironment stack script flags sv succ z ed tce pm pk = .ok e0)
    (hsucc : succ ≠ [] → Decodable script ∧ p2shPattern flags script = false ∧ stack = [] ∧ tce = none) : Fresh e0 := by
  unfold setupEnvironment IEnv.init at h
  split at h
  · cases h
  · rename_i e hinit
    split at hinit
    · cases hinit
    · cases hinit
      split at h
      · cases h
      · split at h
        · cases h
        · cases h
          refine ⟨rfl, rfl, ?_, ?_, rfl, ?_⟩
          · intro hd
            simp only [Bool.and_eq_true, List.isEmpty_iff, Option.isNone_iff_eq_none] at hd
            obtain ⟨⟨hs, hsu⟩, ht⟩ := hd
            subst hs
            exact ⟨ht, rfl, by simp [p2shPattern], hsu⟩
          · intro hp
            have hp' : (sv == SigVersion.BASE && p2shPattern flags script) = true := hp
            simp only [Bool.and_eq_true] at hp'
            exact hp'.2
          · intro hne
            obtain ⟨hd, hp, hst, ht⟩ := hsucc hne
            exact ⟨hd, by show (sv == SigVersion.BASE && p2shPattern flags script) = false; rw [hp, Bool.and_false], hst, rfl, ht⟩

-- ---------------------------------------------------------------------------------------------
-- non-vacuity and the findings, on concrete sessions

def exCx : Ctx :=
  { sha256 := id, ripemd160 := fun b => b.take 20, sha1 := id, checkLowS := fun _ => true, checkLockTime := fun _ => false,
    checkSequence := fun _ => false, checkECDSA := fun _ _ _ _ => false, checkSchnorr := fun _ _ _ _ => .ok () }
def exTc : TapCtx := { taggedHash := fun _ b => b.take 32, checkTapTweak := fun _ _ _ _ => true }

/-- the marked line (rendered as `script_lines[curr_op_seq]`) and the pending operation after a history -/
def exMarks (e0 : IEnv) (cmds : List C04.Cmd) : Option (Option String × Option String) :=
  (C04.execHist exCx exTc cmds (e0, 0)).map (fun r =>
    (echoLine (buildListing e0) r.1, (Spec.pending r.1).map (·.text)))

/-- P2SH spend: scriptSig `<07> <redeem = OP_2 OP_ADD ...>`, scriptPubKey `OP_HASH160 <20 bytes> OP_EQUAL`
    (the toy hash of `exCx` makes the redeem script, padded, its own hash) -/
def exRedeem : Bytes := [0x52, 0x93] ++ List.replicate 18 0x61
def exP2sh : Except ScriptError IEnv :=
  setupEnvironment [] ([0x01, 0x07, 0x14] ++ exRedeem) 1 .BASE ([0xa9, 0x14] ++ exRedeem ++ [0x87]) false {} none [] []

def exP2shRes : Option (Nat × List (Option (Option String × Option String))) :=
  match exP2sh with
  | .ok e0 => some ((buildListing e0).length,
      [exMarks e0 [], exMarks e0 [.step, .step], exMarks e0 [.step, .step, .step, .step, .step, .rewind],
       exMarks e0 [.step, .step, .step, .step, .step, .step]])
  | .error _ => none

/-- non-vacuity: the marked line and the pending operation along a P2SH spend, across both hand-overs -/
example : exP2shRes = some (27,
    [some (some "#0000 07", some "07"),
     some (some "<<< scriptPubKey >>>", some "<<< scriptPubKey >>>"),
     some (some "#0004 5293616161616161616161616161616161616161", some "5293616161616161616161616161616161616161"),
     some (some "<<< P2SH script >>>", some "<<< P2SH script >>>")]) := by decide +kernel

/-- … and this session satisfies the hypotheses of `C12_session` that are not structural -/
def exHyp : Bool :=
  match exP2sh with
  | .ok e0 => decide (e0.pc = e0.see.script) && decide (e0.tce = none) && decide (e0.see.stack = []) && e0.see.cond.allTrue &&
      !e0.isP2sh && !e0.sigscriptExecuted
  | .error _ => false
example : exHyp = true := by decide +kernel

/-- the marked / echoed line and the pending operation after a command history with `runCmds` (failing steps allowed) -/
def runMarks (e0 : IEnv) (cmds : List C04.Cmd) : Option String × Option String :=
  let e := runCmds exCx exTc cmds e0
  (echoLine (buildListing e0) e, (Spec.pending e).map (fun l => l.text))

/-- taproot script path, two path nodes, script `OP_1 OP_2`: three commitment lines for three commitment steps;
    the echoed line is the pending operation at every point, nothing is marked at the end -/
def exControl : Bytes := 0xc0 :: List.replicate 32 0x11 ++ List.replicate 32 0x22 ++ List.replicate 32 0x33
def exTap : Except ScriptError IEnv :=
  setupEnvironment [] [0x51, 0x52] 0 .TAPSCRIPT [] false {}
    (some (Tce.init exTc exControl (List.replicate 32 0x44) [0x51, 0x52])) [] []
def exTapRes : Option (Nat × List (Option String × Option String)) :=
  match exTap with
  | .ok e0 => some ((buildListing e0).length, [2, 3, 4, 5, 6].map (fun k => runMarks e0 (List.replicate k .step)))
  | .error _ => none
example : exTapRes = some (5,
    [(some "#0002 CheckTapTweak: 1111111111111111111111111111111111111111111111111111111111111111",
      some "CheckTapTweak: 1111111111111111111111111111111111111111111111111111111111111111"),
     (some "#0003 1", some "1"), (some "#0004 2", some "2"), (none, none), (none, none)]) := by decide +kernel

/-- a failed step (`OP_0 OP_VERIFY OP_5`: the second step fails) leaves the session where it was: repeating it
    fails again, the same line stays marked and is the pending operation, a rewind still works -/
def exFail : Except ScriptError IEnv :=
  setupEnvironment [] [0x00, 0x69, 0x55] 0 .BASE [] false {} none [] []
def exFailRes : Option (List (Option String × Option String) × Bool) :=
  match exFail with
  | .ok e0 => some ([runMarks e0 [.step, .step], runMarks e0 [.step, .step, .step], runMarks e0 [.step, .step, .rewind]],
      decide (runCmds exCx exTc [.step, .step, .step] e0 = runCmds exCx exTc [.step] e0))
  | .error _ => none
example : exFailRes = some ([(some "#0001 OP_VERIFY", some "OP_VERIFY"), (some "#0001 OP_VERIFY", some "OP_VERIFY"),
    (some "#0000 0", some "0")], true) := by decide +kernel

/-- a P2SH spend whose redeem script (the single byte `01`) is pushed by `OP_1`: the P2SH section lists the script
    that is handed over to -/
def exSmall : Except ScriptError IEnv :=
  setupEnvironment [] [0x00, 0x51] 1 .BASE ([0xa9, 0x14] ++ (0x01 :: List.replicate 19 0) ++ [0x87]) false {} none [] []
def exSmallRes : Option (Bytes × Nat) :=
  match exSmall with
  | .ok e0 => some (lastPayload e0.see.script, (buildListing e0).length)
  | .error _ => none
example : exSmallRes = some ([1], 7) := by decide +kernel

end Btcdeb.Proofs.C12
