/-
  C12 — the script listing and the position marker show exactly what executes next.

  Property theorems only (definitions and invariants: BtcdebProofs/Lemmas/Marker.lean, StepCases.lean,
  Listing.lean).  Model: `Btcdeb/Model/Listing.lean` (`buildListing` = the construction of `script_lines`
  in btcdeb.cpp main, `markedLine` / `echoLine` = `fn_print` / `fn_step` / `fn_rewind`), sessions:
  `Btcdeb/Model/Session.lean`.  Specification: `Btcdeb/Spec/Listing.lean` (`idealListing` = the decoding
  of everything that will be executed, in execution order; `pending` = the operation the next step performs).

  Results:
  * `C12_marker_histories` / `C12_marker_reach`: for EVERY session (any script, spend kind, checker) and every
    history of steps and rewinds without a failing step, the line number `curr_op_seq` designates, in the
    execution-order decoding, exactly the operation the next step performs; nothing at the end.
  * `C12_listing_exact`, `C12_marked_line`, `C12_plain`, `C12_legacy_spend`: for sessions without a taproot
    commitment phase whose pushes are at most 514 bytes the listing the debugger builds IS that decoding,
    so the line it marks is the pending operation (plain scripts, P2WSH, legacy spends incl. P2SH).
  * FINDINGS, each with the theorem that delimits it:
    - taproot script path: `Description()` yields m+2 lines for m+1 commitment steps
      (`C12_listing_tapscript`); the marker is right while `curr_op_seq < m` (`C12_marker_tapscript_partial`)
      and lags by exactly one line afterwards (`C12_marker_tapscript_lag`);
    - texts longer than 1029 characters (pushes ≥ 515 bytes) are cut (`C12_long_push_cut`); hypothesis `NoLongPush`;
    - histories containing a FAILED step are outside the theorems: the debugger leaves the position behind
      the failed instruction while the marker stays (`fnStep`, last example).
-/
import Btcdeb
import BtcdebProofs.Lemmas.Marker
namespace Btcdeb.Proofs.C12
open Btcdeb Btcdeb.Model

/-- MAIN THEOREM (marker, every history).  For every session, signature checker and history over
    {step, rewind} in which no step fails (any length): the line whose number is `curr_op_seq` in the
    execution-order decoding of the session (`Spec.idealListing`) is exactly the operation the next
    `step` performs, and no line has that number when nothing is pending.
    `hpred` (only relevant for a P2SH scriptPubKey): the redeem script announced is the one on top of
    the stack when the scriptPubKey is entered; discharged for data-push-only scriptSigs by
    `predOk_of_pushOnly`. -/
theorem C12_marker_histories (cx : Ctx) (tc : TapCtx) (r : Bytes) (e0 : IEnv) (hf : Fresh e0)
    (hpred : ∀ j e, C04.advance cx tc e0 j = some e → PredOk r e)
    (cmds : List C04.Cmd) (e : IEnv) (n : Int) (h : C04.execHist cx tc cmds (e0, 0) = some (e, n)) :
    MarkerInv (Spec.idealListing r e0) e := by
  obtain ⟨hi0, hs0⟩ := fresh_inv e0 hf
  obtain ⟨_, hadv⟩ := C04.C04_rewind_exact cx tc e0 hi0 hs0 cmds e n h
  exact marker_of_inv r e0.successor _ e (inv_advance cx tc r e0 hf hpred _ e hadv) (j_advance cx tc e0 hf _ e hadv)

/-- after the last operation nothing is marked as pending: in the ended state the marker number lies
    behind the last line of the listing -/
theorem C12_nothing_pending_at_end (cx : Ctx) (tc : TapCtx) (r : Bytes) (e0 : IEnv) (hf : Fresh e0)
    (hpred : ∀ j e, C04.advance cx tc e0 j = some e → PredOk r e)
    (cmds : List C04.Cmd) (e : IEnv) (n : Int) (h : C04.execHist cx tc cmds (e0, 0) = some (e, n))
    (hd : e.done = true) :
    (Spec.idealListing r e0).length ≤ (markerIndex e).toNat := by
  have := (C12_marker_histories cx tc r e0 hf hpred cmds e n h).2
  simp only [Spec.pending, hd, if_true] at this
  exact List.getElem?_eq_none_iff.mp this

/-- the states a debugging session can be in: reached from the fresh session by `step` commands that
    succeed and `rewind` commands that are accepted -/
inductive Reach (cx : Ctx) (tc : TapCtx) (e0 : IEnv) : IEnv → Prop
  | init : Reach cx tc e0 e0
  | step {e e' : IEnv} : Reach cx tc e0 e → instStep cx tc e = .ok e' → Reach cx tc e0 e'
  | rewind {e e' : IEnv} : Reach cx tc e0 e → instRewind e = some e' → Reach cx tc e0 e'

theorem reach_hist (cx : Ctx) (tc : TapCtx) (e0 e : IEnv) (h : Reach cx tc e0 e) :
    ∃ cmds n, C04.execHist cx tc cmds (e0, 0) = some (e, n) := by
  induction h with
  | init => exact ⟨[], 0, rfl⟩
  | @step e1 e2 _ hs ih =>
    obtain ⟨cmds, n, hc⟩ := ih
    refine ⟨cmds ++ [.step], n + 1, ?_⟩
    rw [execHist_append, hc]
    unfold instStep at hs
    by_cases hd : e1.done = true
    · simp [hd] at hs
    · simp only [hd, Bool.false_eq_true, if_false] at hs
      simp [C04.execHist, C04.execCmd, hd, hs]
  | rewind _ hr ih =>
    obtain ⟨cmds, n, hc⟩ := ih
    refine ⟨cmds ++ [.rewind], n + -1, ?_⟩
    rw [execHist_append, hc]
    simp [C04.execHist, C04.execCmd, hr]

/-- the same in the form "holds initially and is preserved by `instStep` and `instRewind`":
    every state of a session satisfies the marker property -/
theorem C12_marker_reach (cx : Ctx) (tc : TapCtx) (r : Bytes) (e0 : IEnv) (hf : Fresh e0)
    (hpred : ∀ j e, C04.advance cx tc e0 j = some e → PredOk r e) (e : IEnv) (h : Reach cx tc e0 e) :
    MarkerInv (Spec.idealListing r e0) e := by
  obtain ⟨cmds, n, hc⟩ := reach_hist cx tc e0 e h
  exact C12_marker_histories cx tc r e0 hf hpred cmds e n hc

-- ---------------------------------------------------------------------------------------------
-- the listing the debugger builds against the execution-order decoding

/-- no instruction text is longer than the 1029 characters `snprintf` stores (btcdeb.cpp:344):
    in particular every push is at most 514 bytes (`noLongPush_of_short`) -/
def NoLongPush (e0 : IEnv) : Prop := ∀ l ∈ rawListing e0, l.kind = .op → l.text.toList.length ≤ 1029

theorem buildListing_eq_raw (e0 : IEnv) (h : NoLongPush e0) : buildListing e0 = rawListing e0 :=
  cutAll_id _ 0 h

/-- all pushes of a script are at most 514 bytes -/
def ShortPushes (s : Bytes) : Prop := ∀ p ∈ decodeFrom s, p.2.data.length ≤ 514

/-- sufficient: the scripts of all sections only push items of at most 514 bytes -/
theorem noLongPush_of_short (e0 : IEnv) (h1 : ShortPushes e0.see.script) (h2 : ShortPushes e0.successor)
    (h3 : ShortPushes (lastPayload e0.see.script)) (h4 : ShortPushes (e0.p2shStack.getLast?.getD [])) : NoLongPush e0 := by
  intro l hl hk
  simp only [rawListing, List.mem_append] at hl
  rcases hl with ((hl | hl) | hl) | hl
  · by_cases hsv : (e0.see.sigversion == SigVersion.TAPSCRIPT) = true
    · by_cases hvs : (e0.isP2sh && !e0.p2shStack.isEmpty) = true
      · simp [hsv, hvs] at hl
      · cases htce : e0.tce with
        | none => simp [hsv, hvs, htce] at hl
        | some t =>
          simp only [hsv, hvs, htce, if_true, Bool.false_eq_true, if_false] at hl
          have := description_kind t l hl; rw [this] at hk; cases hk
    · simp [hsv] at hl
  · exact opLines_short _ _ h1 l hl
  · split at hl
    · simp only [List.mem_cons] at hl
      rcases hl with rfl | hl
      · cases hk
      · exact opLines_short _ _ h2 l hl
    · simp at hl
  · split at hl
    · simp only [List.mem_cons] at hl
      rcases hl with rfl | hl
      · cases hk
      · split at hl
        · exact opLines_short _ _ h3 l hl
        · exact opLines_short _ _ h4 l hl
    · simp at hl

/-- LISTING, sessions without a taproot commitment phase (plain scripts, legacy spends with
    scriptPubKey and P2SH sections, P2WSH): before the cut of long texts, the listing the debugger
    builds is exactly the execution-order decoding, where the redeem script shown for a P2SH
    scriptPubKey is the data of the last instruction of the scriptSig.
    `hstack`: a session that starts on a P2SH-pattern script has the redeem script on its stack
    (otherwise the first operation fails and the debugger lists no P2SH section at all). -/
theorem C12_listing_exact (e0 : IEnv) (hf : Fresh e0) (htce : e0.tce = none)
    (hstack : e0.isP2sh = true → e0.p2shStack ≠ []) :
    (rawListing e0).map Line.plan = Spec.idealListing (lastPayload e0.see.script) e0 := by
  unfold rawListing Spec.idealListing Spec.sessionPlan Spec.tailFuture
  simp only [htce, Spec.commitFuture, List.nil_append]
  have hnil : (if e0.see.sigversion == SigVersion.TAPSCRIPT then
      (if (e0.isP2sh && !e0.p2shStack.isEmpty) = true then ([] : List Line)
       else if (e0.see.sigversion == SigVersion.TAPSCRIPT) = true then [] else []) else []) = [] := by
    split <;> (try split) <;> (try split) <;> rfl
  rw [hnil]
  simp only [List.nil_append, List.map_append, opLines_plan, p2shPattern_eq]
  by_cases hsu : e0.successor.isEmpty = true
  · have hs0 : e0.successor = [] := by simpa using hsu
    simp only [hsu, Bool.not_true, Bool.false_and, Bool.or_false, Bool.false_eq_true, if_false, List.map_nil, List.append_nil]
    by_cases hp : e0.isP2sh = true
    · have hne := hstack hp
      have : e0.p2shStack.isEmpty = false := by cases h : e0.p2shStack with | nil => exact absurd h hne | cons a b => rfl
      simp [hp, this, opLines_plan, Line.plan, p2shHeader, headerLine, Spec.handOverP2sh]
    · simp [hp]
  · have hne : e0.successor ≠ [] := by intro h; simp [h] at hsu
    have hp : e0.isP2sh = false := (hf.succ0 hne).2
    simp only [hsu, hp, Bool.not_false, Bool.true_and, Bool.false_and, Bool.false_or, Bool.false_eq_true, if_false,
      if_true, List.nil_append, List.map_cons, opLines_plan]
    by_cases hpat : (hasFlag e0.see.flags Flag.P2SH && isPayToScriptHash e0.successor) = true
    · simp [hpat, opLines_plan, Line.plan, p2shHeader, spkHeader, headerLine, Spec.handOverP2sh, Spec.handOverSpk]
    · simp [hpat, Line.plan, spkHeader, headerLine, Spec.handOverSpk]

-- ---------------------------------------------------------------------------------------------
-- tapscript: the commitment section has one line more than the commitment phase has steps

/-- LISTING, taproot script path (FINDING): the commitment section the debugger lists is
    `Description()`: the `m` Merkle steps, then TWO lines (`Tweak: p`, `CheckTapTweak`) for the ONE
    remaining step.  The listing is the execution-order decoding with the extra line `Tweak: p`
    inserted at position `m`. -/
theorem C12_listing_tapscript (r : Bytes) (e0 : IEnv) (t : Tce) (htce : e0.tce = some t) (hi0 : t.i = 0)
    (hsv : e0.see.sigversion = .TAPSCRIPT) (hp : e0.isP2sh = false) (hsu : e0.successor = []) :
    (rawListing e0).map Line.plan =
      (Spec.idealListing r e0).take t.pathLen ++ (tweakLine t).plan :: (Spec.idealListing r e0).drop t.pathLen := by
  have hraw : (rawListing e0).map Line.plan =
      (List.range' 0 t.pathLen).map (Spec.merkleStep t.control) ++ (tweakLine t).plan :: (Spec.tweakCheck :: Spec.planOf e0.see.script) := by
    simp [rawListing, htce, hsv, hp, hsu, Tce.description, opLines_plan, List.map_append, branchLine_plan, checkLine_plan,
      List.range_eq_range', Function.comp_def]
  have hideal : Spec.idealListing r e0 =
      (List.range' 0 t.pathLen).map (Spec.merkleStep t.control) ++ (Spec.tweakCheck :: Spec.planOf e0.see.script) := by
    simp [Spec.idealListing, Spec.sessionPlan, Spec.commitFuture, Spec.commitmentPlan, Spec.tailFuture, htce, hi0, hp, hsu]
  have hlen : ((List.range' 0 t.pathLen).map (Spec.merkleStep t.control)).length = t.pathLen := by simp
  rw [hraw, hideal, List.take_left' hlen, List.drop_left' hlen]

/-- MARKER, taproot script path, what holds (the `_partial` theorem): while Merkle steps are pending
    (`curr_op_seq < m`) the marked line of the debugger's listing is the operation the next step performs. -/
theorem C12_marker_tapscript_partial (cx : Ctx) (tc : TapCtx) (e0 : IEnv) (t : Tce) (hf : Fresh e0)
    (htce : e0.tce = some t) (hi0 : t.i = 0) (hsv : e0.see.sigversion = .TAPSCRIPT) (hp : e0.isP2sh = false)
    (hsu : e0.successor = []) (hshort : NoLongPush e0)
    (cmds : List C04.Cmd) (e : IEnv) (n : Int) (h : C04.execHist cx tc cmds (e0, 0) = some (e, n))
    (hregion : markerIndex e < t.pathLen) :
    (markedLine (buildListing e0) e).map Line.plan = Spec.pending e := by
  have hpred : ∀ j e, C04.advance cx tc e0 j = some e → PredOk [] e := by
    intro j e' hj _ _ _ hne _
    rcases (j_advance cx tc e0 hf j e' hj).2.2 with h0 | h0
    · exact absurd h0 hne
    · rw [hsu] at h0; exact absurd h0 hne
  obtain ⟨h0, hm⟩ := C12_marker_histories cx tc [] e0 hf hpred cmds e n h
  have hL := C12_listing_tapscript [] e0 t htce hi0 hsv hp hsu
  have hmlen : t.pathLen ≤ (Spec.idealListing [] e0).length := by
    simp [Spec.idealListing, Spec.sessionPlan, Spec.commitFuture, Spec.commitmentPlan, htce, hi0]
  have hidx : (markerIndex e).toNat < t.pathLen := by omega
  have h1 := (insert_getElem (Spec.idealListing [] e0) t.pathLen (tweakLine t).plan hmlen).1 _ hidx
  unfold markedLine
  have hnn : ¬ e.currOpSeq < 0 := by unfold markerIndex at h0; omega
  simp only [hnn, if_false, buildListing_eq_raw e0 hshort]
  rw [← List.getElem?_map, hL]
  unfold markerIndex at h1 hm
  rw [h1, hm]

/-- MARKER, taproot script path, the excluded region (FINDING): from the last commitment step on
    (`m ≤ curr_op_seq`) the operation the next step performs is the line AFTER the marked one — the
    marker lags by exactly one line; in particular in the ended state the last line of the listing is
    still marked although nothing is pending. -/
theorem C12_marker_tapscript_lag (cx : Ctx) (tc : TapCtx) (e0 : IEnv) (t : Tce) (hf : Fresh e0)
    (htce : e0.tce = some t) (hi0 : t.i = 0) (hsv : e0.see.sigversion = .TAPSCRIPT) (hp : e0.isP2sh = false)
    (hsu : e0.successor = []) (hshort : NoLongPush e0)
    (cmds : List C04.Cmd) (e : IEnv) (n : Int) (h : C04.execHist cx tc cmds (e0, 0) = some (e, n))
    (hregion : (t.pathLen : Int) ≤ markerIndex e) :
    ((buildListing e0)[(markerIndex e).toNat + 1]?).map Line.plan = Spec.pending e := by
  have hpred : ∀ j e, C04.advance cx tc e0 j = some e → PredOk [] e := by
    intro j e' hj _ _ _ hne _
    rcases (j_advance cx tc e0 hf j e' hj).2.2 with h0 | h0
    · exact absurd h0 hne
    · rw [hsu] at h0; exact absurd h0 hne
  obtain ⟨h0, hm⟩ := C12_marker_histories cx tc [] e0 hf hpred cmds e n h
  have hL := C12_listing_tapscript [] e0 t htce hi0 hsv hp hsu
  have hmlen : t.pathLen ≤ (Spec.idealListing [] e0).length := by
    simp [Spec.idealListing, Spec.sessionPlan, Spec.commitFuture, Spec.commitmentPlan, htce, hi0]
  have hidx : t.pathLen ≤ (markerIndex e).toNat := by omega
  have h1 := (insert_getElem (Spec.idealListing [] e0) t.pathLen (tweakLine t).plan hmlen).2.2 _ hidx
  rw [buildListing_eq_raw e0 hshort, ← List.getElem?_map, hL, h1, hm]

-- ---------------------------------------------------------------------------------------------
-- sessions without a commitment phase: full strength

/-- MAIN THEOREM (listing and marker of the debugger, sessions without a taproot commitment phase).
    For every such session whose pushes are at most 514 bytes and every history over {step, rewind} in
    which no step fails:
    (1) the listing the debugger prints is exactly the execution-order decoding of the session;
    (2) the line it marks (and echoes after `step` / `rewind`) is the operation the next step performs,
        no line being marked when nothing is pending;
    (3) in the ended state no line is marked. -/
theorem C12_marked_line (cx : Ctx) (tc : TapCtx) (e0 : IEnv) (hf : Fresh e0) (htce : e0.tce = none)
    (hstack : e0.isP2sh = true → e0.p2shStack ≠ []) (hshort : NoLongPush e0)
    (hpred : ∀ j e, C04.advance cx tc e0 j = some e → PredOk (lastPayload e0.see.script) e)
    (cmds : List C04.Cmd) (e : IEnv) (n : Int) (h : C04.execHist cx tc cmds (e0, 0) = some (e, n)) :
    (buildListing e0).map Line.plan = Spec.idealListing (lastPayload e0.see.script) e0 ∧
    (markedLine (buildListing e0) e).map Line.plan = Spec.pending e ∧
    (e.done = true → markedLine (buildListing e0) e = none) := by
  have hL := C12_listing_exact e0 hf htce hstack
  rw [← buildListing_eq_raw e0 hshort] at hL
  obtain ⟨h0, hm⟩ := C12_marker_histories cx tc _ e0 hf hpred cmds e n h
  have hnn : ¬ e.currOpSeq < 0 := by unfold markerIndex at h0; omega
  have hmk : (markedLine (buildListing e0) e).map Line.plan = Spec.pending e := by
    unfold markedLine
    simp only [hnn, if_false]
    rw [← List.getElem?_map, hL]; exact hm
  refine ⟨hL, hmk, ?_⟩
  intro hd
  have : Spec.pending e = none := by simp [Spec.pending, hd]
  rw [this] at hmk
  cases hx : markedLine (buildListing e0) e with
  | none => rfl
  | some l => rw [hx] at hmk; cases hmk

/-- plain scripts (no scriptPubKey follows): no further hypothesis -/
theorem C12_plain (cx : Ctx) (tc : TapCtx) (e0 : IEnv) (hf : Fresh e0) (htce : e0.tce = none) (hsu : e0.successor = [])
    (hstack : e0.isP2sh = true → e0.p2shStack ≠ []) (hshort : NoLongPush e0)
    (cmds : List C04.Cmd) (e : IEnv) (n : Int) (h : C04.execHist cx tc cmds (e0, 0) = some (e, n)) :
    (buildListing e0).map Line.plan = Spec.idealListing (lastPayload e0.see.script) e0 ∧
    (markedLine (buildListing e0) e).map Line.plan = Spec.pending e ∧
    (e.done = true → markedLine (buildListing e0) e = none) := by
  refine C12_marked_line cx tc e0 hf htce hstack hshort ?_ cmds e n h
  intro j e' hj _ _ _ hne _
  rcases (j_advance cx tc e0 hf j e' hj).2.2 with h0 | h0
  · exact absurd h0 hne
  · rw [hsu] at h0; exact absurd h0 hne

/-- `pending` is what `step` does: when an instruction is pending and the step succeeds, the step
    executed exactly that instruction (the one the specification decodes at the position) and the new
    position is directly behind it; when a hand-over is pending the step enters the announced script -/
theorem pending_is_next_step (cx : Ctx) (tc : TapCtx) (e e' : IEnv) (htce : e.tce = none) (hnd : e.done = false)
    (hs : stepSession cx tc e = .ok e') :
    (e.pc ≠ [] → ∃ i after, Spec.decodeOne e.pc = some (i, after) ∧ e'.pc = after ∧ e'.see.script = e.see.script ∧
        Spec.pending e = some ⟨false, e.see.script.length - e.pc.length, Spec.instrText i⟩) ∧
    (e.pc = [] → e.isP2sh = true → Spec.pending e = some Spec.handOverP2sh ∧
        e'.see.script = e.p2shStack.getLast?.getD [] ∧ e'.pc = e'.see.script) ∧
    (e.pc = [] → e.isP2sh = false → e.successor ≠ [] → Spec.pending e = some Spec.handOverSpk ∧
        e'.see.script = e.successor ∧ e'.pc = e'.see.script) := by
  cases stepSession_cases cx tc e e' hs with
  | merkle t t' htce' _ _ _ _ _ => rw [htce] at htce'; cases htce'
  | tweak t htce' _ _ => rw [htce] at htce'; cases htce'
  | op g see' _ hne hg hst hv =>
    simp only [view, Prod.mk.injEq] at hv
    obtain ⟨hscr, _, hpc, _⟩ := hv
    refine ⟨fun _ => ?_, fun h => absurd h hne, fun h => absurd h hne⟩
    have hdo := Refine.getOp_decodeOne e.pc
    rw [hg] at hdo; simp only [Option.map_some] at hdo
    have hpe : e.pc.isEmpty = false := by cases h : e.pc with | nil => exact absurd h hne | cons a b => rfl
    exact ⟨⟨g.opcode, g.data⟩, g.rest, hdo.symm, hpc, hscr, by simp [Spec.pending, hnd, htce, hpe, ← hdo]⟩
  | p2sh redeem _ hpc0 hp2 hr hv =>
    simp only [view, Prod.mk.injEq] at hv
    obtain ⟨hscr, _, hpc, _⟩ := hv
    refine ⟨fun h => absurd hpc0 h, fun _ _ => ?_, fun _ h => (by rw [hp2] at h; cases h)⟩
    exact ⟨by simp [Spec.pending, hnd, htce, hpc0, hp2], by rw [hscr, hr]; rfl, by rw [hpc, hscr]⟩
  | succ _ hpc0 hp2 hne hv =>
    simp only [view, Prod.mk.injEq] at hv
    obtain ⟨hscr, _, hpc, _⟩ := hv
    refine ⟨fun h => absurd hpc0 h, fun _ h => (by rw [hp2] at h; cases h), fun _ _ _ => ?_⟩
    have hse : e.successor.isEmpty = false := by cases h : e.successor with | nil => exact absurd h hne | cons a b => rfl
    exact ⟨by simp [Spec.pending, hnd, htce, hpc0, hp2, hse], hscr, by rw [hpc, hscr]⟩
  | finish _ hpc0 hp2 hsu0 _ =>
    exact ⟨fun h => absurd hpc0 h, fun _ h => (by rw [hp2] at h; cases h), fun _ _ h => absurd hsu0 h⟩

-- ---------------------------------------------------------------------------------------------
-- legacy spends: the announced redeem script is the one that is loaded, for BIP16-style scriptSigs

/-- for a spend whose scriptSig consists of data pushes only (what BIP16 requires of a P2SH spend),
    starting with an empty stack, the redeem script the listing announces — the data of the last
    instruction of the scriptSig — is the item on top of the stack when the scriptPubKey is entered -/
theorem predOk_of_pushOnly (cx : Ctx) (tc : TapCtx) (e0 : IEnv) (hf : Fresh e0) (htce : e0.tce = none)
    (hpush : DataPushOnly e0.see.script) (hstack0 : e0.see.stack = []) (hcond0 : e0.see.cond.allTrue = true) :
    ∀ j e, C04.advance cx tc e0 j = some e → PredOk (lastPayload e0.see.script) e := by
  have hq : ∀ j e, C04.advance cx tc e0 j = some e → Q e0.see.script e :=
    advance_induction cx tc e0 _
      ⟨htce, fun _ => ⟨rfl, hcond0, 0, by simp [advanceOps, hf.pcStart], by simp [topAfter, hstack0]⟩⟩
      (fun j ep e hk _ hp hs => q_step cx tc _ _ hpush ep e hp (j_advance cx tc e0 hf j ep hk) hs)
  intro j e hj _ hpc _ hne _
  obtain ⟨_, hq2⟩ := hq j e hj
  obtain ⟨hscr, _, k, hadv, htop⟩ := hq2 hne
  rw [htop, ← hscr]
  rw [hpc] at hadv
  obtain ⟨pre, hdec, hlen⟩ := decodeFrom_advance k _ _ hadv
  have hnil : decodeFrom ([] : Bytes) = [] := decodeFrom_none rfl
  rw [hnil, List.append_nil] at hdec
  unfold topAfter lastPayload
  rw [hdec, List.take_of_length_le (by omega)]
  cases pre.getLast? <;> rfl

/-- MAIN THEOREM for legacy spends (scriptSig, scriptPubKey and P2SH sections): the conclusion of
    `C12_marked_line` for every spend whose scriptSig consists of data pushes -/
theorem C12_legacy_spend (cx : Ctx) (tc : TapCtx) (e0 : IEnv) (hf : Fresh e0) (htce : e0.tce = none)
    (hpush : DataPushOnly e0.see.script) (hstack0 : e0.see.stack = []) (hcond0 : e0.see.cond.allTrue = true)
    (hshort : NoLongPush e0)
    (cmds : List C04.Cmd) (e : IEnv) (n : Int) (h : C04.execHist cx tc cmds (e0, 0) = some (e, n)) :
    (buildListing e0).map Line.plan = Spec.idealListing (lastPayload e0.see.script) e0 ∧
    (markedLine (buildListing e0) e).map Line.plan = Spec.pending e ∧
    (e.done = true → markedLine (buildListing e0) e = none) := by
  refine C12_marked_line cx tc e0 hf htce ?_ hshort (predOk_of_pushOnly cx tc e0 hf htce hpush hstack0 hcond0) cmds e n h
  -- a push-only script is not the P2SH pattern (which starts with OP_HASH160)
  intro hp
  have hpat := hf.p2sh0 hp
  exfalso
  have hd := p2shPattern_decodable _ _ hpat
  simp only [p2shPattern, Bool.and_eq_true, beq_iff_eq] at hpat
  obtain ⟨⟨⟨⟨_, hlen⟩, h0⟩, _⟩, _⟩ := hpat
  match hs : e0.see.script, hlen, h0 with
  | b0 :: t, _, h0 =>
    have hb0 : b0.toNat = 169 := by simpa [byteAt, Op.OP_HASH160] using h0
    have hg0 : getOp (b0 :: t) = some { opcode := 169, data := [], rest := t } := by
      simp [getOp, hb0, Op.OP_PUSHDATA4]
    have := hpush (e0.see.script.length, { opcode := 169, data := [], rest := t }) (by rw [hs, decodeFrom_some hg0]; simp)
    simp [Op.OP_PUSHDATA4] at this

-- ---------------------------------------------------------------------------------------------
-- the hypotheses are what `setup_environment` establishes

/-- sessions produced by `Instance::setup_environment` are fresh, given what the callers guarantee:
    a taproot script path has a non-empty script, and a scriptSig that is followed by a scriptPubKey
    decodes completely (for every script that went through `parse_script`: `hasValidOps_decodable`)
    and is not itself the P2SH pattern -/
theorem setup_fresh (stack : List Bytes) (script : Bytes) (flags : Nat) (sv : SigVersion) (succ : Bytes)
    (z : Bool) (ed : ExecData) (tce : Option Tce) (pm : List (Bytes × Bytes)) (pk : List Bytes) (e0 : IEnv)
    (h : setupEnvironment stack script flags sv succ z ed tce pm pk = .ok e0)
    (htap : tce.isSome = true → script ≠ [])
    (hsucc : succ ≠ [] → Decodable script ∧ p2shPattern flags script = false) : Fresh e0 := by
  unfold setupEnvironment IEnv.init at h
  split at h
  · cases h
  · rename_i e hinit
    split at hinit
    · cases hinit
    · cases hinit
      split at h
      · cases h
      · split at h
        · cases h
        · cases h
          refine ⟨rfl, rfl, ?_, ?_, ?_⟩
          · intro hd
            simp only [Bool.and_eq_true, List.isEmpty_iff] at hd
            obtain ⟨hs, hsu⟩ := hd
            subst hs
            refine ⟨?_, rfl, by simp [p2shPattern], hsu⟩
            cases tce with
            | none => rfl
            | some t => exact absurd rfl (htap rfl)
          · intro hp; simpa using hp
          · intro hne
            obtain ⟨hd, hp⟩ := hsucc hne
            exact ⟨hd, by simpa using hp⟩

-- ---------------------------------------------------------------------------------------------
-- non-vacuity and the findings, on concrete sessions

def exCx : Ctx :=
  { sha256 := id, ripemd160 := fun b => b.take 20, sha1 := id, checkLowS := fun _ => true, checkLockTime := fun _ => false,
    checkSequence := fun _ => false, checkECDSA := fun _ _ _ _ => false, checkSchnorr := fun _ _ _ _ => .ok () }
def exTc : TapCtx := { taggedHash := fun _ b => b.take 32, checkTapTweak := fun _ _ _ _ => true }

/-- the marked line (rendered as `script_lines[curr_op_seq]`) and the pending operation after a history -/
def exMarks (e0 : IEnv) (cmds : List C04.Cmd) : Option (Option String × Option String) :=
  (C04.execHist exCx exTc cmds (e0, 0)).map (fun r =>
    (echoLine (buildListing e0) r.1, (Spec.pending r.1).map (·.text)))

/-- P2SH spend: scriptSig `<07> <redeem = OP_2 OP_ADD ...>`, scriptPubKey `OP_HASH160 <20 bytes> OP_EQUAL`
    (the toy hash of `exCx` makes the redeem script, padded, its own hash) -/
def exRedeem : Bytes := [0x52, 0x93] ++ List.replicate 18 0x61
def exP2sh : Except ScriptError IEnv :=
  setupEnvironment [] ([0x01, 0x07, 0x14] ++ exRedeem) 1 .BASE ([0xa9, 0x14] ++ exRedeem ++ [0x87]) false {} none [] []

def exP2shRes : Option (Nat × List (Option (Option String × Option String))) :=
  match exP2sh with
  | .ok e0 => some ((buildListing e0).length,
      [exMarks e0 [], exMarks e0 [.step, .step], exMarks e0 [.step, .step, .step, .step, .step, .rewind],
       exMarks e0 [.step, .step, .step, .step, .step, .step]])
  | .error _ => none

/-- non-vacuity: the marked line and the pending operation along a P2SH spend, across both hand-overs -/
example : exP2shRes = some (27,
    [some (some "#0000 07", some "07"),
     some (some "<<< scriptPubKey >>>", some "<<< scriptPubKey >>>"),
     some (some "#0004 5293616161616161616161616161616161616161", some "5293616161616161616161616161616161616161"),
     some (some "<<< P2SH script >>>", some "<<< P2SH script >>>")]) := by decide +kernel

/-- … and this session satisfies the hypotheses of `C12_legacy_spend` -/
def exHyp : Bool :=
  match exP2sh with
  | .ok e0 => decide (e0.pc = e0.see.script) && decide (e0.tce = none) && decide (e0.see.stack = []) && e0.see.cond.allTrue &&
      (decodeFrom e0.see.script).all (fun p => decide (p.2.opcode ≤ Op.OP_PUSHDATA4))
  | .error _ => false
example : exHyp = true := by decide +kernel

/-- FINDING (taproot script path, two path nodes, script `OP_1 OP_2`): the listing has the four
    commitment lines Branch, Branch, Tweak, CheckTapTweak for three commitment steps; from the third
    step on the echoed / marked line is the one BEFORE the pending operation, and at the end `#0005 2`
    stays marked with nothing pending. -/
def exControl : Bytes := 0xc0 :: List.replicate 32 0x11 ++ List.replicate 32 0x22 ++ List.replicate 32 0x33
def exTap : Except ScriptError IEnv :=
  setupEnvironment [] [0x51, 0x52] 0 .TAPSCRIPT [] false {}
    (some (Tce.init exTc exControl (List.replicate 32 0x44) [0x51, 0x52])) [] []
def exTapRes : Option (Nat × List (Option (Option String × Option String))) :=
  match exTap with
  | .ok e0 => some ((buildListing e0).length,
      [exMarks e0 [.step, .step], exMarks e0 [.step, .step, .step], exMarks e0 [.step, .step, .step, .step],
       exMarks e0 [.step, .step, .step, .step, .step], exMarks e0 [.step, .step, .step, .step, .step, .step]])
  | .error _ => none
example : exTapRes = some (6,
    [some (some "#0002 Tweak: 1111111111111111111111111111111111111111111111111111111111111111", some "CheckTapTweak"),
     some (some "#0003 CheckTapTweak", some "1"),
     some (some "#0004 1", some "2"),
     some (some "#0005 2", none),
     some (some "#0005 2", none)]) := by decide +kernel

/-- FINDING (long pushes): an instruction text longer than the limit (1029 characters for the first
    10000 lines: pushes of 515 bytes and more) is cut — the listing does not show the bytes that are pushed -/
theorem C12_long_push_cut (i : Nat) (d : Bytes) (h : cutLimit i < 2 * d.length) :
    (cutText i (toHex d)).toList.length = cutLimit i ∧ cutText i (toHex d) ≠ toHex d := by
  have hl : (cutText i (toHex d)).toList.length = cutLimit i := by
    unfold cutText
    rw [String.toList_ofList, List.length_take, toHex_length]; omega
  refine ⟨hl, ?_⟩
  intro heq
  rw [heq, toHex_length] at hl
  omega
example : cutLimit 0 = 1029 ∧ cutLimit 9999 = 1029 ∧ cutLimit 10000 = 1030 := by decide +kernel

/-- FINDING (step after a failed step): `OP_0 OP_VERIFY OP_5`: the second step fails; the debugger
    still marks `#0001 OP_VERIFY`, but the position has moved on and the next step executes `OP_5`. -/
def exFail : Except ScriptError IEnv :=
  setupEnvironment [] [0x00, 0x69, 0x55] 0 .BASE [] false {} none [] []
def exFailRes : Option (List String) :=
  match exFail with
  | .ok e0 =>
    let e1 := (fnStep exCx exTc e0).1
    let r2 := fnStep exCx exTc e1
    let r3 := fnStep exCx exTc r2.1
    some [toString r2.2, (echoLine (buildListing e0) r2.1).getD "-", ((Spec.pending r2.1).map (fun l => l.text)).getD "-",
          toString r3.2, toString (r3.1.see.stack.map (fun b => b.map UInt8.toNat))]
  | .error _ => none
example : exFailRes = some ["false", "#0001 OP_VERIFY", "5", "true", "[[], [5]]"] := by decide +kernel

end Btcdeb.Proofs.C12
