/-
  C09 (continued) — a modification list is idempotent: applying the same `+NAME,-NAME,…` text to
  its own result changes nothing (each item sets one bit to a constant, so the last mention of a
  flag decides it, whatever the base).  Proved for the model of `svf_parse_flags` on every 32-bit
  base and every text, through `parse_exact_partial`.
  Property theorems only.
-/
import Btcdeb
import BtcdebProofs.Properties.C09Parse
namespace Btcdeb.Proofs.C09Parse
open Btcdeb Btcdeb.Model

/-- one accepted item is accepted on any other word too, and the two results agree on the item's bit
    and otherwise follow their own inputs -/
theorem specStep_transfer (fl fl' : Nat) (item : Bytes) (f : Nat) (hfl : fl < 2 ^ 32) (hfl' : fl' < 2 ^ 32)
    (h : specStep fl item = some f) :
    ∃ f', specStep fl' item = some f' ∧
      ∀ k, f'.testBit k = f.testBit k ∨ (f'.testBit k = fl'.testBit k ∧ f.testBit k = fl.testBit k) := by
  have hacc : ∃ f', specStep fl' item = some f' := by
    unfold specStep at h ⊢
    split at h
    · rename_i name
      cases hb : Spec.flagBit name with
      | none => rw [hb] at h; simp at h
      | some b => exact ⟨_, rfl⟩
    · rename_i name
      cases hb : Spec.flagBit name with
      | none => rw [hb] at h; simp at h
      | some b => exact ⟨_, rfl⟩
    · cases h
  obtain ⟨f', hf'⟩ := hacc
  refine ⟨f', hf', fun k => ?_⟩
  obtain ⟨name, b, hb, hc⟩ := specStep_testBit fl item f hfl h
  obtain ⟨name', b', hb', hc'⟩ := specStep_testBit fl' item f' hfl' hf'
  rcases hc with ⟨hi, hbits⟩ | ⟨hi, hbits⟩ <;> rcases hc' with ⟨hi', hbits'⟩ | ⟨hi', hbits'⟩
  all_goals (rw [hi] at hi')
  all_goals (cases hi')
  all_goals (
    rw [hb] at hb'
    have hbb : b = b' := by injection hb'
    subst hbb
    rw [hbits k, hbits' k]
    by_cases hk : b = k <;> simp [hk])

theorem fold_transfer (items : List Bytes) : ∀ (fl fl' r : Nat), fl < 2 ^ 32 → fl' < 2 ^ 32 →
    items.foldlM specStep fl = some r →
    ∃ r', items.foldlM specStep fl' = some r' ∧
      ∀ k, r'.testBit k = r.testBit k ∨ (r'.testBit k = fl'.testBit k ∧ r.testBit k = fl.testBit k) := by
  induction items with
  | nil =>
    intro fl fl' r _ _ h
    simp at h; subst h
    exact ⟨fl', by simp, fun k => Or.inr ⟨rfl, rfl⟩⟩
  | cons item rest ih =>
    intro fl fl' r hfl hfl' h
    rw [List.foldlM_cons] at h
    cases hs : specStep fl item with
    | none => rw [hs] at h; simp at h
    | some f =>
      rw [hs] at h
      have h : rest.foldlM specStep f = some r := by simpa using h
      obtain ⟨f', hf', hbits⟩ := specStep_transfer fl fl' item f hfl hfl' hs
      have hflt := (applyItem_eq fl item hfl).2 f hs
      have hflt' := (applyItem_eq fl' item hfl').2 f' hf'
      obtain ⟨r', hr', hrb⟩ := ih f f' r hflt hflt' h
      refine ⟨r', by rw [List.foldlM_cons, hf']; simpa using hr', fun k => ?_⟩
      rcases hrb k with h1 | ⟨h1, h2⟩
      · exact Or.inl h1
      · rcases hbits k with h3 | ⟨h3, h4⟩
        · left; rw [h1, h2, h3]
        · right; exact ⟨by rw [h1, h3], by rw [h2, h4]⟩

/-- **C09: a modification list is idempotent.**  If `svf_parse_flags` accepts `text` on a 32-bit base and
    yields `r`, then it accepts `text` on `r` and yields `r` again. -/
theorem parse_idempotent (base : Nat) (text : Bytes) (r : Nat) (hbase : base < 2 ^ 32)
    (h : Model.parseFlags base text = some r) : Model.parseFlags r text = some r := by
  have hr : r < 2 ^ 32 := parse_lt base text r hbase h
  rw [parse_exact_partial base text hbase, modifyFlags_eq] at h
  rw [parse_exact_partial r text hr, modifyFlags_eq]
  by_cases he : text.isEmpty = true
  · simp [he]
  · have he' : text.isEmpty = false := by simpa using he
    simp only [he', Bool.false_eq_true, if_false] at h ⊢
    obtain ⟨r', hr', hb⟩ := fold_transfer _ base r r hbase hr h
    rw [hr']
    congr 1
    apply Nat.eq_of_testBit_eq
    intro k
    rcases hb k with h1 | ⟨h1, _⟩ <;> exact h1

/-- more generally the result depends on the base only through the bits the text does not mention:
    two 32-bit bases give results that agree wherever the results differ from their own bases -/
theorem parse_transfer (base base' : Nat) (text : Bytes) (r : Nat) (hbase : base < 2 ^ 32) (hbase' : base' < 2 ^ 32)
    (h : Model.parseFlags base text = some r) :
    ∃ r', Model.parseFlags base' text = some r' ∧
      ∀ k, r'.testBit k = r.testBit k ∨ (r'.testBit k = base'.testBit k ∧ r.testBit k = base.testBit k) := by
  rw [parse_exact_partial base text hbase, modifyFlags_eq] at h
  rw [parse_exact_partial base' text hbase', modifyFlags_eq]
  by_cases he : text.isEmpty = true
  · simp only [he, if_true, Option.some.injEq] at h ⊢
    subst h
    exact ⟨base', rfl, fun k => Or.inr ⟨rfl, rfl⟩⟩
  · have he' : text.isEmpty = false := by simpa using he
    simp only [he', Bool.false_eq_true, if_false] at h ⊢
    exact fold_transfer _ base base' r hbase hbase' h

-- non-vacuity: `-P2SH` on a base that has P2SH (bit 0) set is accepted, and the result is a fixed point
example : Model.parseFlags 5 [45, 80, 50, 83, 72] = some 4 ∧ Model.parseFlags 4 [45, 80, 50, 83, 72] = some 4 := by
  decide +kernel

end Btcdeb.Proofs.C09Parse
