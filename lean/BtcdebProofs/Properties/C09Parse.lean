/-
  C09 (parser clause): the model of `svf_parse_flags` (btcdeb.cpp) equals the specification of the
  modify-flags option.
  * `parse_exact_partial`  : for every base below 2^32 (every `unsigned int`) and EVERY text, model = specification
  * `parse_exact_general`, `parse_exact_iff`, `parse_differs_beyond_uint32` : the exact set where they differ
    (base of 2^32 or more, accepted text, some `-NAME` item) — outside the C type
  * `nul_rejected` : a 0 byte in the text (not expressible in a C string) is rejected by both
  * `parse_only_restricts_or_extends`, `parse_lt` : only bits of named flags change, the word stays 32 bit
  * `svf_string_exact` : `svf_string` lists exactly the set bits that have names, once each, in table order
-/
import Btcdeb
import BtcdebProofs.Properties.Tables
namespace Btcdeb.Proofs.C09Parse
open Btcdeb Btcdeb.Model

/-! ### bit arithmetic -/

theorem or_eq_add_of_and_eq_zero : ∀ (n a b : Nat), a < 2 ^ n → a &&& b = 0 → a ||| b = a + b := by
  intro n
  induction n with
  | zero => intro a b ha _; have : a = 0 := by simpa using ha
            subst this; simp
  | succ n ih =>
    intro a b ha hab
    have h1 : (a &&& b) / 2 ^ 1 = a / 2 ^ 1 &&& b / 2 ^ 1 := Nat.and_div_two_pow
    have h2 : (a &&& b) % 2 ^ 1 = (a % 2 ^ 1) &&& (b % 2 ^ 1) := Nat.and_mod_two_pow
    have h3 : (a ||| b) / 2 ^ 1 = a / 2 ^ 1 ||| b / 2 ^ 1 := Nat.or_div_two_pow
    have h4 : (a ||| b) % 2 ^ 1 = (a % 2 ^ 1) ||| (b % 2 ^ 1) := Nat.or_mod_two_pow
    simp only [Nat.pow_one] at h1 h2 h3 h4
    rw [hab] at h1 h2
    have ih' := ih (a / 2) (b / 2) (by rw [Nat.pow_succ] at ha; omega) h1.symm
    rw [ih'] at h3
    have h5 : ∀ x y : Nat, x < 2 → y < 2 → 0 = x &&& y → (x ||| y = x + y ∧ x + y ≤ 1) := by
      intro x y hx hy
      have : x = 0 ∨ x = 1 := by omega
      have : y = 0 ∨ y = 1 := by omega
      rcases ‹x = 0 ∨ x = 1› with rfl | rfl <;> rcases ‹y = 0 ∨ y = 1› with rfl | rfl <;> decide
    have h5 := h5 (a % 2) (b % 2) (by omega) (by omega) h2
    rw [h5.1] at h4
    omega


/-- clearing a set bit with the C expression `flags & ~f` (32-bit complement) is subtraction -/
theorem clear_bit (fl b : Nat) (hfl : fl < 2 ^ 32) (hb : b < 32) :
    fl &&& (2 ^ b ^^^ 0xFFFFFFFF) = if fl.testBit b then fl - 2 ^ b else fl := by
  have hy : (fl &&& (2 ^ b ^^^ 0xFFFFFFFF)) &&& (fl &&& 2 ^ b) = 0 := by
    apply Nat.eq_of_testBit_eq; intro i
    simp only [Nat.testBit_and, Nat.testBit_xor, Nat.testBit_two_pow, Nat.zero_testBit]
    have hM : (0xFFFFFFFF : Nat) = 2 ^ 32 - 1 := by decide
    rw [hM, Nat.testBit_two_pow_sub_one]
    by_cases h : b = i
    · subst h; simp [hb]
    · simp [h]
  have hor : (fl &&& (2 ^ b ^^^ 0xFFFFFFFF)) ||| (fl &&& 2 ^ b) = fl := by
    apply Nat.eq_of_testBit_eq; intro i
    simp only [Nat.testBit_and, Nat.testBit_or, Nat.testBit_xor, Nat.testBit_two_pow]
    have : (0xFFFFFFFF : Nat) = 2 ^ 32 - 1 := by decide
    rw [this, Nat.testBit_two_pow_sub_one]
    by_cases h : b = i
    · subst h; simp [hb]
    · simp only [h, decide_false, Bool.false_bne, Bool.and_false, Bool.or_false]
      by_cases hi : i < 32
      · simp [hi]
      · have : fl.testBit i = false := Nat.testBit_lt_two_pow (Nat.lt_of_lt_of_le hfl (Nat.pow_le_pow_right (by decide) (by omega)))
        simp [this]
  have hlt : fl &&& (2 ^ b ^^^ 0xFFFFFFFF) < 2 ^ 32 := Nat.lt_of_le_of_lt Nat.and_le_left hfl
  have hadd := or_eq_add_of_and_eq_zero 32 _ _ hlt hy
  rw [hor] at hadd
  have h2 : fl &&& 2 ^ b = if fl.testBit b then 2 ^ b else 0 := by
    apply Nat.eq_of_testBit_eq; intro i
    cases hb' : fl.testBit b
    · simp only [Bool.false_eq_true, if_false, Nat.testBit_and, Nat.testBit_two_pow, Nat.zero_testBit]
      by_cases h : b = i
      · subst h; simp [hb']
      · simp [h]
    · simp only [if_true, Nat.testBit_and, Nat.testBit_two_pow]
      by_cases h : b = i
      · subst h; simp [hb']
      · simp [h]
  rw [h2] at hadd
  cases hb' : fl.testBit b
  · simp only [hb', Bool.false_eq_true, if_false] at hadd ⊢; omega
  · simp only [hb', if_true] at hadd ⊢; omega

theorem or_bit_lt (fl b : Nat) (hfl : fl < 2 ^ 32) (hb : b < 32) : fl ||| 2 ^ b < 2 ^ 32 :=
  Nat.or_lt_two_pow hfl (Nat.pow_lt_pow_right (by decide) hb)

/-! ### the two name tables -/

private theorem find?_congr' {α} (l : List α) (p q : α → Bool) (h : ∀ x ∈ l, p x = q x) : l.find? p = l.find? q := by
  induction l with
  | nil => rfl
  | cons a l ih =>
    simp only [List.find?_cons, h a (by simp)]
    rw [ih (fun x hx => h x (by simp [hx]))]

private theorem table_prefix : Flag.table.all (fun p => p.1 == "SCRIPT_VERIFY_" ++ String.ofList (p.1.toList.drop 14)) = true := by
  decide +kernel
private theorem table_len : Flag.table.all (fun p => decide (p.1.length ≤ 60) && decide (p.2 < 21)) = true := by decide

/-- `svf_get_flag` (the C++ table) and the specification's name table agree on every string:
    a name is known to one iff it is known to the other, and the value is the flag's own bit -/
theorem svfGetFlag_eq (name : Bytes) :
    svfGetFlag name = match Spec.flagBit name with | some b => 2 ^ b | none => 0 := by
  unfold svfGetFlag Spec.flagBit
  rw [Tables.svf_table.1, List.find?_map]
  have hc : Flag.table.find? ((fun p => p.1 == strOfBytes' name) ∘ (fun p : String × Nat => (String.ofList (p.1.toList.drop 14), 2 ^ p.2)))
      = Flag.table.find? (fun p => p.1 == "SCRIPT_VERIFY_" ++ strOfBytes' name) := by
    apply find?_congr'
    intro p hp
    have h1 := List.all_eq_true.mp table_prefix p hp
    have h1 : p.1 = "SCRIPT_VERIFY_" ++ String.ofList (p.1.toList.drop 14) := by simpa using h1
    generalize String.ofList (p.1.toList.drop 14) = t at h1
    simp only [Function.comp]
    rw [h1, Bool.eq_iff_iff]
    simp [String.append_right_inj]
  rw [hc]
  cases Flag.table.find? (fun p => p.1 == "SCRIPT_VERIFY_" ++ strOfBytes' name) <;> rfl

theorem flagBit_lt (name : Bytes) (b : Nat) (h : Spec.flagBit name = some b) : b < 21 ∧ name.length ≤ 46 := by
  unfold Spec.flagBit at h
  cases hf : Flag.table.find? (fun p => p.1 == "SCRIPT_VERIFY_" ++ strOfBytes' name) with
  | none => rw [hf] at h; cases h
  | some p =>
    rw [hf] at h
    have hb : p.2 = b := by simpa using h
    have hmem := List.mem_of_find?_eq_some hf
    have hp := List.find?_some hf
    have hl := List.all_eq_true.mp table_len p hmem
    simp only [Bool.and_eq_true, decide_eq_true_eq] at hl
    have hp : p.1 = "SCRIPT_VERIFY_" ++ strOfBytes' name := by simpa using hp
    have hlen : p.1.length = 14 + name.length := by
      rw [hp, String.length_append]
      unfold strOfBytes'
      have : "SCRIPT_VERIFY_".length = 14 := by decide
      rw [this, String.length_ofList, List.length_map]
    omega

/-! ### one list item -/

/-- the specification's treatment of one item -/
def specStep (fl : Nat) (item : Bytes) : Option Nat :=
  match item with
  | 43 :: name => (Spec.flagBit name).map (fun b => fl ||| (1 <<< b))
  | 45 :: name => (Spec.flagBit name).map (fun b => if fl.testBit b then fl - (1 <<< b) else fl)
  | _ => none

theorem modifyFlags_eq (flags : Nat) (list : Bytes) :
    Spec.modifyFlags flags list = if list.isEmpty then some flags else (Spec.splitComma list).foldlM specStep flags := rfl

/-- within the 32-bit range of C's `unsigned int` the model's item step IS the specification's -/
theorem applyItem_eq (fl : Nat) (item : Bytes) (hfl : fl < 2 ^ 32) :
    applyItem fl item = specStep fl item ∧ ∀ r, specStep fl item = some r → r < 2 ^ 32 := by
  unfold applyItem specStep
  split
  · rename_i name
    simp only [svfGetFlag_eq]
    cases hb : Spec.flagBit name with
    | none => simp
    | some b =>
      have hlt := (flagBit_lt name b hb).1
      have hne : (2 ^ b == 0) = false := by
        have : 0 < 2 ^ b := Nat.two_pow_pos b
        simp
      simp only [hne, Bool.false_eq_true, if_false, Option.map_some, Nat.one_shiftLeft, true_and]
      intro r hr; cases hr; exact or_bit_lt fl b hfl (by omega)
  · rename_i name
    simp only [svfGetFlag_eq]
    cases hb : Spec.flagBit name with
    | none => simp
    | some b =>
      have hlt := (flagBit_lt name b hb).1
      have hne : (2 ^ b == 0) = false := by
        have : 0 < 2 ^ b := Nat.two_pow_pos b
        simp
      simp only [hne, Bool.false_eq_true, if_false, Option.map_some, Nat.one_shiftLeft]
      rw [clear_bit fl b hfl (by omega)]
      refine ⟨rfl, ?_⟩
      intro r hr; cases hr; split
      · exact Nat.lt_of_le_of_lt (Nat.sub_le _ _) hfl
      · exact hfl
  · simp

/-- an item that does not fit `char buf[128]` (128 characters or more with its sign) names no flag -/
theorem specStep_long (fl : Nat) (item : Bytes) (h : item.length ≥ 48) : specStep fl item = none := by
  unfold specStep
  split
  · rename_i name
    cases hb : Spec.flagBit name with
    | none => rfl
    | some b => have := (flagBit_lt name b hb).2; simp at h; omega
  · rename_i name
    cases hb : Spec.flagBit name with
    | none => rfl
    | some b => have := (flagBit_lt name b hb).2; simp at h; omega
  · rfl

/-! ### the loop -/

theorem splitComma_ne_nil (r : Bytes) : ∃ x xs, Spec.splitComma r = x :: xs := by
  induction r with
  | nil => exact ⟨[], [], rfl⟩
  | cons c r ih =>
    obtain ⟨x, xs, h⟩ := ih
    unfold Spec.splitComma
    by_cases hc : (c.toNat == 44) = true
    · simp only [hc, if_true]; exact ⟨[], _, rfl⟩
    · have hc' : (c.toNat == 44) = false := by simpa using hc
      simp only [hc', Bool.false_eq_true, if_false, h]; exact ⟨_, _, rfl⟩

/-- the item under construction is glued in front of the first item of the remaining text -/
def glue (buf : Bytes) : List Bytes → List Bytes
  | [] => [buf]
  | x :: xs => (buf ++ x) :: xs

theorem go_eq (rest : Bytes) : ∀ (fl : Nat) (buf : Bytes), fl < 2 ^ 32 → buf.length < 128 →
    parseFlagsGo fl rest buf = (glue buf (Spec.splitComma rest)).foldlM specStep fl := by
  induction rest with
  | nil =>
    intro fl buf hfl _
    simp only [parseFlagsGo, Spec.splitComma, glue, List.append_nil, List.foldlM_cons, List.foldlM_nil]
    rw [(applyItem_eq fl buf hfl).1]
    cases specStep fl buf <;> rfl
  | cons c rest ih =>
    intro fl buf hfl hbuf
    obtain ⟨x, xs, hx⟩ := splitComma_ne_nil rest
    unfold parseFlagsGo Spec.splitComma
    by_cases hc : (c.toNat == 44) = true
    · simp only [hc, if_true, glue, List.append_nil, List.foldlM_cons]
      rw [(applyItem_eq fl buf hfl).1]
      cases hs : specStep fl buf with
      | none => rfl
      | some f =>
        have hf := (applyItem_eq fl buf hfl).2 f hs
        show parseFlagsGo f rest [] = _
        rw [ih f [] hf (by decide), hx]
        rfl
    · have hc' : (c.toNat == 44) = false := by simpa using hc
      simp only [hc', Bool.false_eq_true, if_false, hx, glue]
      by_cases hover : buf.length + 1 ≥ 128
      · simp only [hover, if_true, List.foldlM_cons]
        rw [specStep_long fl (buf ++ c :: x) (by simp; omega)]
        rfl
      · simp only [hover, if_false]
        rw [ih fl (buf ++ [c]) hfl (by simp; omega), hx]
        simp [glue]

/-- C09 (parser clause), for every flag word an `unsigned int` can hold and EVERY text: the model of
    `svf_parse_flags` computes exactly the specification of `--modify-flags` — including the empty text,
    empty items, a trailing comma, over-long names (rejected by the buffer bound in the code, by the name
    table in the specification), bytes that are no flag-name characters. -/
theorem parse_exact_partial (base : Nat) (text : Bytes) (hbase : base < 2 ^ 32) :
    Model.parseFlags base text = Spec.modifyFlags base text := by
  rw [modifyFlags_eq]; unfold parseFlags
  by_cases he : text.isEmpty = true
  · simp [he]
  · simp only [he, if_false]
    rw [go_eq text base [] hbase (by decide)]
    obtain ⟨x, xs, hx⟩ := splitComma_ne_nil text
    rw [hx]; rfl

/-- outside that range the equation fails (the model masks with the 32-bit complement, the specification
    works on unbounded naturals): this base is not a value of the C type, so there is nothing to reproduce
    on the implementation -/
theorem parse_differs_beyond_uint32 :
    Model.parseFlags (2 ^ 32) [45, 80, 50, 83, 72] = some 0 ∧
    Spec.modifyFlags (2 ^ 32) [45, 80, 50, 83, 72] = some (2 ^ 32) := by decide +kernel


/-! ### which bits a modification can touch -/

theorem and_two_pow' (fl b : Nat) : fl &&& 2 ^ b = if fl.testBit b then 2 ^ b else 0 := by
  apply Nat.eq_of_testBit_eq; intro i
  cases hb' : fl.testBit b
  · simp only [Bool.false_eq_true, if_false, Nat.testBit_and, Nat.testBit_two_pow, Nat.zero_testBit]
    by_cases h : b = i
    · subst h; simp [hb']
    · simp [h]
  · simp only [if_true, Nat.testBit_and, Nat.testBit_two_pow]
    by_cases h : b = i
    · subst h; simp [hb']
    · simp [h]

/-- bit-level meaning of one accepted item: `+NAME` sets exactly NAME's bit, `-NAME` clears exactly it -/
theorem specStep_testBit (fl : Nat) (item : Bytes) (f : Nat) (hfl : fl < 2 ^ 32) (h : specStep fl item = some f) :
    ∃ name b, Spec.flagBit name = some b ∧
      ((item = 43 :: name ∧ ∀ k, f.testBit k = (fl.testBit k || decide (b = k))) ∨
       (item = 45 :: name ∧ ∀ k, f.testBit k = (fl.testBit k && !decide (b = k)))) := by
  unfold specStep at h
  split at h
  · rename_i name
    cases hb : Spec.flagBit name with
    | none => rw [hb] at h; cases h
    | some b =>
      rw [hb] at h; simp only [Option.map_some, Option.some.injEq, Nat.one_shiftLeft] at h
      refine ⟨name, b, hb, Or.inl ⟨rfl, ?_⟩⟩
      intro k; rw [← h, Nat.testBit_or, Nat.testBit_two_pow]
  · rename_i name
    cases hb : Spec.flagBit name with
    | none => rw [hb] at h; cases h
    | some b =>
      rw [hb] at h; simp only [Option.map_some, Option.some.injEq, Nat.one_shiftLeft] at h
      have hlt := (flagBit_lt name b hb).1
      rw [← clear_bit fl b hfl (by omega)] at h
      refine ⟨name, b, hb, Or.inr ⟨rfl, ?_⟩⟩
      intro k
      have hM : (0xFFFFFFFF : Nat) = 2 ^ 32 - 1 := by decide
      rw [← h, Nat.testBit_and, Nat.testBit_xor, Nat.testBit_two_pow, hM, Nat.testBit_two_pow_sub_one]
      by_cases hk : k < 32
      · by_cases hbk : b = k <;> simp [hk, hbk]
      · have : fl.testBit k = false :=
          Nat.testBit_lt_two_pow (Nat.lt_of_lt_of_le hfl (Nat.pow_le_pow_right (by decide) (by omega)))
        simp [this]
  · cases h

private theorem fold_touch (items : List Bytes) : ∀ (fl r : Nat), fl < 2 ^ 32 → items.foldlM specStep fl = some r →
    ∀ k, r.testBit k ≠ fl.testBit k →
    ∃ item ∈ items, ∃ name, (item = 43 :: name ∨ item = 45 :: name) ∧ Spec.flagBit name = some k := by
  induction items with
  | nil => intro fl r _ h k hk; simp at h; subst h; exact absurd rfl hk
  | cons x xs ih =>
    intro fl r hfl h k hk
    rw [List.foldlM_cons] at h
    cases hs : specStep fl x with
    | none => rw [hs] at h; cases h
    | some f =>
      rw [hs] at h
      have hf : f < 2 ^ 32 := (applyItem_eq fl x hfl).2 f hs
      have h' : xs.foldlM specStep f = some r := h
      by_cases hfk : f.testBit k = fl.testBit k
      · obtain ⟨item, hm, name, h1, h2⟩ := ih f r hf h' k (by rw [hfk]; exact hk)
        exact ⟨item, by simp [hm], name, h1, h2⟩
      · obtain ⟨name, b, hb, hcase⟩ := specStep_testBit fl x f hfl hs
        have hbk : b = k := by
          rcases hcase with ⟨_, hbits⟩ | ⟨_, hbits⟩
          · apply Classical.byContradiction; intro hne; apply hfk; rw [hbits k]; simp [hne]
          · apply Classical.byContradiction; intro hne; apply hfk; rw [hbits k]; simp [hne]
        subst hbk
        refine ⟨x, by simp, name, ?_, hb⟩
        rcases hcase with ⟨h1, _⟩ | ⟨h1, _⟩
        · exact Or.inl h1
        · exact Or.inr h1

/-- C09: an accepted modification changes the flag word only in bits of flags that the text names:
    every bit that differs between the result and the base is the bit of a known flag NAME for which
    `+NAME` or `-NAME` is one of the comma-separated items (hence one of the 21 table bits); all other
    bits — in particular bits 21..31 — pass through unchanged. -/
theorem parse_only_restricts_or_extends (base : Nat) (text : Bytes) (r : Nat) (hbase : base < 2 ^ 32)
    (h : Model.parseFlags base text = some r) (k : Nat) (hk : r.testBit k ≠ base.testBit k) :
    (∃ item ∈ Spec.splitComma text, ∃ name, (item = 43 :: name ∨ item = 45 :: name) ∧ Spec.flagBit name = some k) ∧
    k < 21 ∧ ∃ p ∈ Gen.svf, p.2 = 2 ^ k := by
  rw [parse_exact_partial base text hbase, modifyFlags_eq] at h
  by_cases he : text.isEmpty = true
  · simp only [he, if_true, Option.some.injEq] at h; subst h; exact absurd rfl hk
  · simp only [he, if_false] at h
    obtain ⟨item, hm, name, h1, h2⟩ := fold_touch _ base r hbase h k hk
    refine ⟨⟨item, hm, name, h1, h2⟩, (flagBit_lt name k h2).1, ?_⟩
    have hg := svfGetFlag_eq name
    rw [h2] at hg
    unfold svfGetFlag at hg
    cases hf : Gen.svf.find? (fun p => p.1 == strOfBytes' name) with
    | none => rw [hf] at hg; have : 0 < 2 ^ k := Nat.two_pow_pos k; simp at hg; omega
    | some p => rw [hf] at hg; exact ⟨p, List.mem_of_find?_eq_some hf, hg⟩

/-- and the result stays a 32-bit word -/
theorem parse_lt (base : Nat) (text : Bytes) (r : Nat) (hbase : base < 2 ^ 32)
    (h : Model.parseFlags base text = some r) : r < 2 ^ 32 := by
  apply Classical.byContradiction; intro hge
  obtain ⟨i, hi, hbit⟩ := Nat.exists_ge_and_testBit_of_ge_two_pow (Nat.le_of_not_lt hge)
  have hb : base.testBit i = false :=
    Nat.testBit_lt_two_pow (Nat.lt_of_lt_of_le hbase (Nat.pow_le_pow_right (by decide) hi))
  have := (parse_only_restricts_or_extends base text r hbase h i (by rw [hbit, hb]; decide)).2.1
  omega

/-! ### `svf_string` -/

private theorem owned_all : Gen.svf.foldl (fun acc p => acc ||| p.2) 0 = 2 ^ 21 - 1 := by decide
private theorem names_nodup : (Gen.svf.map (·.1)).Nodup := by decide +kernel

/-- C09 (`svf_string`, the listing behind --default-flags and the verbose "resulting flags"): for a 32-bit
    flag word the listing exists (the C++ `while (flags)` loop ends) iff no bit outside the table is set, and
    then it consists of exactly the names of the set bits: each name once, in table order. -/
theorem svf_string_exact (flags : Nat) (hfl : flags < 2 ^ 32) :
    (svfString flags = none ↔ ∃ k, 21 ≤ k ∧ flags.testBit k = true) ∧
    ∀ names, svfString flags = some names →
      names = (Flag.table.filter (fun p => flags.testBit p.2)).map (fun p => String.ofList (p.1.toList.drop 14)) ∧
      (∀ s, s ∈ names ↔ ∃ k, flags.testBit k = true ∧ (s, 2 ^ k) ∈ Gen.svf) ∧
      names.Nodup ∧ names.Sublist (Gen.svf.map (·.1)) := by
  have hM : (0xFFFFFFFF : Nat) = 2 ^ 32 - 1 := by decide
  have hunowned : (flags &&& ((2 ^ 21 - 1) ^^^ 0xFFFFFFFF) ≠ 0) ↔ ∃ k, 21 ≤ k ∧ flags.testBit k = true := by
    constructor
    · intro hne
      obtain ⟨i, hi⟩ := Nat.exists_testBit_of_ne_zero hne
      rw [Nat.testBit_and, Nat.testBit_xor, hM, Nat.testBit_two_pow_sub_one, Nat.testBit_two_pow_sub_one] at hi
      simp only [Bool.and_eq_true, bne_iff_ne, ne_eq, decide_eq_decide] at hi
      exact ⟨i, by omega, hi.1⟩
    · intro ⟨k, hk, hbit⟩ hz
      have hk32 : k < 32 := by
        apply Classical.byContradiction; intro hge
        have : flags.testBit k = false :=
          Nat.testBit_lt_two_pow (Nat.lt_of_lt_of_le hfl (Nat.pow_le_pow_right (by decide) (by omega)))
        rw [this] at hbit; cases hbit
      have : (flags &&& ((2 ^ 21 - 1) ^^^ 0xFFFFFFFF)).testBit k = true := by
        rw [Nat.testBit_and, Nat.testBit_xor, hM, Nat.testBit_two_pow_sub_one, Nat.testBit_two_pow_sub_one, hbit]
        have h1 : ¬ k < 21 := by omega
        simp [h1, hk32]
      rw [hz] at this; simp at this
  have hpred : ∀ p : String × Nat, (flags &&& 2 ^ p.2 != 0) = flags.testBit p.2 := by
    intro p
    rw [and_two_pow']
    cases flags.testBit p.2
    · simp
    · have : 0 < 2 ^ p.2 := Nat.two_pow_pos _
      simp
  unfold svfString
  simp only [owned_all]
  constructor
  · rw [← hunowned]
    by_cases hz : flags &&& ((2 ^ 21 - 1) ^^^ 0xFFFFFFFF) = 0
    · simp [hz]
    · have : (flags &&& ((2 ^ 21 - 1) ^^^ 0xFFFFFFFF) != 0) = true := by simpa using hz
      simp [this, hz]
  · intro names hn
    cases hz : (flags &&& ((2 ^ 21 - 1) ^^^ 0xFFFFFFFF) != 0)
    case true => rw [hz] at hn; simp at hn
    case false =>
      rw [hz] at hn
      simp only [Bool.false_eq_true, if_false, Option.some.injEq] at hn
      have hnames : names = (Flag.table.filter (fun p => flags.testBit p.2)).map (fun p => String.ofList (p.1.toList.drop 14)) := by
        rw [← hn, Tables.svf_table.1, List.filter_map, List.map_map]
        congr 1
        apply List.filter_congr
        intro p _
        exact hpred (String.ofList (p.1.toList.drop 14), p.2)
      refine ⟨hnames, ?_, ?_, ?_⟩
      · intro s
        rw [← hn, List.mem_map]
        constructor
        · rintro ⟨p, hp, rfl⟩
          rw [List.mem_filter] at hp
          obtain ⟨hp1, hp2⟩ := hp
          have hp1' := hp1
          rw [Tables.svf_table.1, List.mem_map] at hp1'
          obtain ⟨q, _, hq⟩ := hp1'
          refine ⟨q.2, ?_, ?_⟩
          · have := hpred (p.1, q.2)
            rw [← this]; rw [← hq] at hp2; exact hp2
          · rw [← hq] at hp1 ⊢; exact hp1
        · rintro ⟨k, hbit, hmem⟩
          refine ⟨(s, 2 ^ k), ?_, rfl⟩
          rw [List.mem_filter]
          refine ⟨hmem, ?_⟩
          have := hpred (s, k)
          simp only at this ⊢
          rw [this]; exact hbit
      · rw [← hn]
        exact List.Sublist.nodup (List.Sublist.map _ List.filter_sublist) names_nodup
      · rw [← hn]
        exact List.Sublist.map _ List.filter_sublist

/-! ### beyond 32 bits: the exact set on which model and specification differ

The flag word of the C++ is an `unsigned int`; the model and the specification compute on `Nat`. For a base
of 2^32 or more (not a value of the C type — nothing to reproduce on the implementation) the model's `& ~f`
truncates to 32 bits as soon as one `-NAME` item is applied, the specification does not. -/

/-- some item of the list starts with `-` -/
def hasMinus (text : Bytes) : Bool := (Spec.splitComma text).any (fun it => it.head? == some 45)

private theorem sub_mod (fl p : Nat) (hp : p ≤ fl % 2 ^ 32) : (fl - p) % 2 ^ 32 = fl % 2 ^ 32 - p := by
  have h1 := Nat.div_add_mod fl (2 ^ 32)
  have h2 : fl % 2 ^ 32 < 2 ^ 32 := Nat.mod_lt _ (by decide)
  have : fl - p = 2 ^ 32 * (fl / 2 ^ 32) + (fl % 2 ^ 32 - p) := by omega
  rw [this, Nat.mul_add_mod]
  exact Nat.mod_eq_of_lt (by omega)

private theorem sub_div (fl p : Nat) (hp : p ≤ fl % 2 ^ 32) : (fl - p) / 2 ^ 32 = fl / 2 ^ 32 := by
  have h1 := Nat.div_add_mod fl (2 ^ 32)
  have h2 : fl % 2 ^ 32 < 2 ^ 32 := Nat.mod_lt _ (by decide)
  have : fl - p = (fl % 2 ^ 32 - p) + 2 ^ 32 * (fl / 2 ^ 32) := by omega
  rw [this, Nat.add_mul_div_left _ _ (by decide : 0 < 2 ^ 32)]
  rw [Nat.div_eq_of_lt (by omega)]; omega

private theorem testBit_mod (fl b : Nat) (hb : b < 32) : (fl % 2 ^ 32).testBit b = fl.testBit b := by
  rw [Nat.testBit_mod_two_pow]; simp [hb]

private theorem two_pow_le_mod (fl b : Nat) (hb : b < 32) (h : fl.testBit b = true) : 2 ^ b ≤ fl % 2 ^ 32 :=
  Nat.ge_two_pow_of_testBit (by rw [testBit_mod fl b hb]; exact h)

/-- one item, any flag word: the model's step is the specification's, truncated to 32 bits for a `-` item -/
theorem applyItem_general (fl : Nat) (item : Bytes) :
    applyItem fl item = (specStep fl item).map (fun r => if item.head? == some 45 then r % 2 ^ 32 else r) := by
  unfold applyItem specStep
  split
  · rename_i name
    simp only [svfGetFlag_eq]
    cases hb : Spec.flagBit name with
    | none => simp
    | some b =>
      have hne : (2 ^ b == 0) = false := by
        have : 0 < 2 ^ b := Nat.two_pow_pos b
        simp
      simp [hne, Nat.one_shiftLeft]
  · rename_i name
    simp only [svfGetFlag_eq]
    cases hb : Spec.flagBit name with
    | none => simp
    | some b =>
      have hlt := (flagBit_lt name b hb).1
      have hne : (2 ^ b == 0) = false := by
        have : 0 < 2 ^ b := Nat.two_pow_pos b
        simp
      simp only [hne, Bool.false_eq_true, if_false, Option.map_some, Nat.one_shiftLeft, List.head?_cons,
        beq_self_eq_true, if_true, Option.some.injEq]
      have hM : (0xFFFFFFFF : Nat) = 2 ^ 32 - 1 := by decide
      have hX : 2 ^ b ^^^ 0xFFFFFFFF < 2 ^ 32 :=
        Nat.xor_lt_two_pow (Nat.pow_lt_pow_right (by decide) (by omega)) (by decide)
      have h1 : fl &&& (2 ^ b ^^^ 0xFFFFFFFF) = fl % 2 ^ 32 &&& (2 ^ b ^^^ 0xFFFFFFFF) := by
        have := @Nat.and_mod_two_pow fl (2 ^ b ^^^ 0xFFFFFFFF) 32
        rw [Nat.mod_eq_of_lt (Nat.lt_of_le_of_lt Nat.and_le_right hX), Nat.mod_eq_of_lt hX] at this
        exact this
      rw [h1, clear_bit _ b (Nat.mod_lt _ (by decide)) (by omega), testBit_mod fl b (by omega)]
      cases hbit : fl.testBit b
      · simp
      · simp only [if_true]
        exact (sub_mod fl (2 ^ b) (two_pow_le_mod fl b (by omega) hbit)).symm
  · rename_i h1 h2
    simp

/-- the specification's step commutes with truncation to 32 bits … -/
theorem specStep_mod (fl : Nat) (item : Bytes) :
    specStep (fl % 2 ^ 32) item = (specStep fl item).map (· % 2 ^ 32) := by
  unfold specStep
  split
  · rename_i name
    cases hb : Spec.flagBit name with
    | none => rfl
    | some b =>
      have hlt := (flagBit_lt name b hb).1
      simp only [Option.map_some, Nat.one_shiftLeft, Option.some.injEq]
      rw [Nat.or_mod_two_pow, Nat.mod_eq_of_lt (Nat.pow_lt_pow_right (by decide) (by omega) : 2 ^ b < 2 ^ 32)]
  · rename_i name
    cases hb : Spec.flagBit name with
    | none => rfl
    | some b =>
      have hlt := (flagBit_lt name b hb).1
      simp only [Option.map_some, Nat.one_shiftLeft, Option.some.injEq]
      rw [testBit_mod fl b (by omega)]
      cases hbit : fl.testBit b
      · simp
      · simp only [if_true]
        exact (sub_mod fl (2 ^ b) (two_pow_le_mod fl b (by omega) hbit)).symm
  · rfl

/-- … and leaves the part above bit 31 alone -/
theorem specStep_div (fl : Nat) (item : Bytes) (f : Nat) (h : specStep fl item = some f) : f / 2 ^ 32 = fl / 2 ^ 32 := by
  unfold specStep at h
  split at h
  · rename_i name
    cases hb : Spec.flagBit name with
    | none => rw [hb] at h; cases h
    | some b =>
      have hlt := (flagBit_lt name b hb).1
      rw [hb] at h; simp only [Option.map_some, Nat.one_shiftLeft, Option.some.injEq] at h
      rw [← h, Nat.or_div_two_pow, Nat.div_eq_of_lt (Nat.pow_lt_pow_right (by decide) (by omega) : 2 ^ b < 2 ^ 32)]
      simp
  · rename_i name
    cases hb : Spec.flagBit name with
    | none => rw [hb] at h; cases h
    | some b =>
      have hlt := (flagBit_lt name b hb).1
      rw [hb] at h; simp only [Option.map_some, Nat.one_shiftLeft, Option.some.injEq] at h
      cases hbit : fl.testBit b
      · rw [hbit] at h; simp at h; rw [h]
      · rw [hbit] at h; simp only [if_true] at h
        rw [← h]; exact sub_div fl (2 ^ b) (two_pow_le_mod fl b (by omega) hbit)
  · cases h

theorem fold_mod (items : List Bytes) : ∀ fl, items.foldlM specStep (fl % 2 ^ 32) = (items.foldlM specStep fl).map (· % 2 ^ 32) := by
  induction items with
  | nil => intro fl; simp
  | cons x xs ih =>
    intro fl
    rw [List.foldlM_cons, List.foldlM_cons, specStep_mod]
    cases hs : specStep fl x with
    | none => rfl
    | some f => exact ih f

theorem fold_div (items : List Bytes) : ∀ fl r, items.foldlM specStep fl = some r → r / 2 ^ 32 = fl / 2 ^ 32 := by
  induction items with
  | nil => intro fl r h; simp at h; rw [h]
  | cons x xs ih =>
    intro fl r h
    rw [List.foldlM_cons] at h
    cases hs : specStep fl x with
    | none => rw [hs] at h; cases h
    | some f =>
      rw [hs] at h
      rw [ih f r h, specStep_div fl x f hs]

theorem go_general (rest : Bytes) : ∀ (fl : Nat) (buf : Bytes), buf.length < 128 →
    parseFlagsGo fl rest buf =
      ((glue buf (Spec.splitComma rest)).foldlM specStep fl).map
        (fun r => if (glue buf (Spec.splitComma rest)).any (fun it => it.head? == some 45) then r % 2 ^ 32 else r) := by
  induction rest with
  | nil =>
    intro fl buf _
    simp only [parseFlagsGo, Spec.splitComma, glue, List.append_nil, List.foldlM_cons, List.foldlM_nil, List.any_cons,
      List.any_nil, Bool.or_false]
    rw [applyItem_general]
    cases specStep fl buf <;> rfl
  | cons c rest ih =>
    intro fl buf hbuf
    obtain ⟨x, xs, hx⟩ := splitComma_ne_nil rest
    unfold parseFlagsGo Spec.splitComma
    by_cases hc : (c.toNat == 44) = true
    · simp only [hc, if_true, glue, List.append_nil, List.foldlM_cons, List.any_cons]
      rw [applyItem_general]
      cases hs : specStep fl buf with
      | none => rfl
      | some f =>
        simp only [Option.map_some]
        have hih := fun f' => ih f' [] (by decide)
        rw [hx] at hih
        simp only [glue, List.nil_append] at hih
        rw [hx]
        cases hm : (buf.head? == some 45)
        · simp only [Bool.false_eq_true, if_false, Bool.false_or]
          exact hih f
        · simp only [if_true, Bool.true_or]
          rw [hih (f % 2 ^ 32), fold_mod]
          show _ = Option.map _ ((x :: xs).foldlM specStep f)
          cases (x :: xs).foldlM specStep f with
          | none => rfl
          | some r => simp
    · have hc' : (c.toNat == 44) = false := by simpa using hc
      simp only [hc', Bool.false_eq_true, if_false, hx, glue]
      by_cases hover : buf.length + 1 ≥ 128
      · simp only [hover, if_true, List.foldlM_cons]
        rw [specStep_long fl (buf ++ c :: x) (by simp; omega)]
        rfl
      · simp only [hover, if_false]
        rw [ih fl (buf ++ [c]) (by simp; omega), hx]
        simp [glue]

/-- FOR EVERY base and text: what the model computes, in terms of the specification -/
theorem parse_exact_general (base : Nat) (text : Bytes) :
    Model.parseFlags base text =
      (Spec.modifyFlags base text).map (fun r => if hasMinus text then r % 2 ^ 32 else r) := by
  rw [modifyFlags_eq]; unfold parseFlags hasMinus
  by_cases he : text.isEmpty = true
  · have : text = [] := by simpa using he
    subst this; rfl
  · simp only [he, if_false]
    rw [go_general text base [] (by decide)]
    obtain ⟨x, xs, hx⟩ := splitComma_ne_nil text
    rw [hx]; rfl

/-- THE EXACT SET: model and specification agree on (base, text) if and only if the base fits 32 bits, or
    the specification rejects the text, or no item starts with `-`. So within the C type (`unsigned int`) they
    agree on every text (`parse_exact_partial`), and the disagreement region lies entirely outside it. -/
theorem parse_exact_iff (base : Nat) (text : Bytes) :
    Model.parseFlags base text = Spec.modifyFlags base text ↔
      (base < 2 ^ 32 ∨ Spec.modifyFlags base text = none ∨ hasMinus text = false) := by
  constructor
  · intro h
    apply Classical.byContradiction
    intro hn
    have h1 : ¬ base < 2 ^ 32 := fun hh => hn (Or.inl hh)
    have h3 : hasMinus text = true := by
      cases hm : hasMinus text
      · exact absurd (Or.inr (Or.inr hm)) hn
      · rfl
    cases hs : Spec.modifyFlags base text with
    | none => exact hn (Or.inr (Or.inl hs))
    | some r =>
      rw [parse_exact_general, hs] at h
      simp only [h3, if_true, Option.map_some, Option.some.injEq] at h
      -- r keeps the high part of base
      have hne : text.isEmpty = false := by
        cases he : text.isEmpty
        · rfl
        · have : text = [] := by simpa using he
          subst this; simp [hasMinus, Spec.splitComma] at h3
      rw [modifyFlags_eq] at hs
      simp only [hne, Bool.false_eq_true, if_false] at hs
      have hd := fold_div _ base r hs
      have hr : r < 2 ^ 32 := by rw [← h]; exact Nat.mod_lt _ (by decide)
      rw [Nat.div_eq_of_lt hr] at hd
      have : 2 ^ 32 ≤ base := Nat.le_of_not_lt h1
      have := Nat.div_pos this (by decide : 0 < 2 ^ 32)
      omega
  · rintro (h | h | h)
    · exact parse_exact_partial base text h
    · rw [parse_exact_general, h]; rfl
    · rw [parse_exact_general]; simp only [h, Bool.false_eq_true, if_false]
      cases Spec.modifyFlags base text <;> rfl

/-! ### a NUL byte inside the text

`svf_parse_flags` takes a C string, so the implementation sees the text only up to its first NUL byte
(harness: `FLAGS 2b5032534800 58` = `+P2SH\0X` answers like `+P2SH`), whereas model and specification take a byte
list and treat a 0 byte as an ordinary character. On byte lists that are the content of a C string (no 0 byte —
everything `argv` can carry) there is no difference; with a 0 byte both model and specification reject: -/

private theorem table_no_nul : Flag.table.all (fun p => !p.1.toList.contains (Char.ofNat 0)) = true := by decide +kernel

theorem flagBit_nul (name : Bytes) (h0 : (0 : UInt8) ∈ name) : Spec.flagBit name = none := by
  cases hb : Spec.flagBit name with
  | none => rfl
  | some b =>
    exfalso
    unfold Spec.flagBit at hb
    cases hf : Flag.table.find? (fun p => p.1 == "SCRIPT_VERIFY_" ++ strOfBytes' name) with
    | none => rw [hf] at hb; cases hb
    | some p =>
      have hmem := List.mem_of_find?_eq_some hf
      have hp := List.find?_some hf
      have hp : p.1 = "SCRIPT_VERIFY_" ++ strOfBytes' name := by simpa using hp
      have hn := List.all_eq_true.mp table_no_nul p hmem
      have : Char.ofNat 0 ∈ p.1.toList := by
        rw [hp, String.toList_append]
        apply List.mem_append_right
        unfold strOfBytes'
        rw [String.toList_ofList]
        exact List.mem_map.mpr ⟨0, h0, rfl⟩
      simp at hn
      exact hn this

theorem specStep_nul (fl : Nat) (item : Bytes) (h0 : (0 : UInt8) ∈ item) : specStep fl item = none := by
  unfold specStep
  split
  · rename_i name
    have : (0 : UInt8) ∈ name := by
      rcases List.mem_cons.mp h0 with h | h
      · cases h
      · exact h
    rw [flagBit_nul name this]; rfl
  · rename_i name
    have : (0 : UInt8) ∈ name := by
      rcases List.mem_cons.mp h0 with h | h
      · cases h
      · exact h
    rw [flagBit_nul name this]; rfl
  · rfl

theorem splitComma_mem (c : UInt8) (hc : (c.toNat == 44) = false) : ∀ (text : Bytes), c ∈ text →
    ∃ item ∈ Spec.splitComma text, c ∈ item := by
  intro text
  induction text with
  | nil => intro h; cases h
  | cons a r ih =>
    intro h
    obtain ⟨x, xs, hx⟩ := splitComma_ne_nil r
    unfold Spec.splitComma
    cases ha : (a.toNat == 44)
    · simp only [Bool.false_eq_true, if_false, hx]
      rcases List.mem_cons.mp h with rfl | h
      · exact ⟨c :: x, by simp, by simp⟩
      · obtain ⟨item, hi, hci⟩ := ih h
        rw [hx] at hi
        rcases List.mem_cons.mp hi with rfl | hi
        · exact ⟨a :: item, by simp, by simp [hci]⟩
        · exact ⟨item, by simp [hi], hci⟩
    · simp only [if_true]
      rcases List.mem_cons.mp h with rfl | h
      · rw [ha] at hc; cases hc
      · obtain ⟨item, hi, hci⟩ := ih h
        exact ⟨item, by simp [hi], hci⟩

theorem fold_none (items : List Bytes) (item : Bytes) (hm : item ∈ items) (hn : ∀ fl, specStep fl item = none) :
    ∀ fl, items.foldlM specStep fl = none := by
  induction items with
  | nil => cases hm
  | cons x xs ih =>
    intro fl
    rw [List.foldlM_cons]
    rcases List.mem_cons.mp hm with rfl | hm
    · rw [hn fl]; rfl
    · cases specStep fl x with
      | none => rfl
      | some f => exact ih hm f

/-- a text with a NUL byte in it is rejected by the specification and by the model -/
theorem nul_rejected (base : Nat) (text : Bytes) (h0 : (0 : UInt8) ∈ text) :
    Spec.modifyFlags base text = none ∧ Model.parseFlags base text = none := by
  have hs : Spec.modifyFlags base text = none := by
    rw [modifyFlags_eq]
    have hne : text.isEmpty = false := by
      cases text with
      | nil => cases h0
      | cons _ _ => rfl
    simp only [hne, Bool.false_eq_true, if_false]
    obtain ⟨item, hi, hci⟩ := splitComma_mem 0 (by decide) text h0
    exact fold_none _ item hi (fun fl => specStep_nul fl item hci) base
  exact ⟨hs, by rw [parse_exact_general, hs]; rfl⟩

/-- hypotheses are satisfiable, non-trivially: `-P2SH,+SIGPUSHONLY` on the standard set -/
example : Model.parseFlags Gen.STANDARD_SCRIPT_VERIFY_FLAGS
      ([45, 80, 50, 83, 72, 44, 43] ++ [83, 73, 71, 80, 85, 83, 72, 79, 78, 76, 89]) = some (2 ^ 21 - 2) ∧
    Gen.STANDARD_SCRIPT_VERIFY_FLAGS < 2 ^ 32 := by decide +kernel

end Btcdeb.Proofs.C09Parse
