/-
  C13 (continued) — what the txid depends on.  `CTransaction::GetHash()` hashes the
  serialisation made with SERIALIZE_TRANSACTION_NO_WITNESS: witness stacks never reach the
  hash, and for a transaction without witness data the witness-allowed serialisation (the one
  `parse_tx` reads and `wtxid` hashes) is the same string.  All statements are for every
  transaction (no well-formedness needed) and every hash function.
  Property theorems only.
-/
import Btcdeb
import BtcdebProofs.Properties.C13
namespace Btcdeb.Proofs.C13
open Btcdeb Btcdeb.Model

/-- drop every input's witness stack -/
def stripTx (tx : Tx) : Tx := { tx with vin := tx.vin.map strip }

/-- the no-witness serialisation does not read the witness stacks -/
theorem serTx_nowit_strip (tx : Tx) : serTx (stripTx tx) false = serTx tx false := by
  simp [serTx, stripTx, serVector_strip]

/-- **the txid ignores witness data**: two transactions that differ only in their witness
    stacks have the same txid (BIP141) -/
theorem txid_ignores_witness (hash256 : Bytes → Bytes) (tx : Tx) :
    txHash hash256 (stripTx tx) = txHash hash256 tx := by
  simp only [txHash, serTx_nowit_strip]

theorem txid_congr_witness (hash256 : Bytes → Bytes) (tx tx' : Tx) (h : stripTx tx = stripTx tx') :
    txHash hash256 tx = txHash hash256 tx' := by
  rw [← txid_ignores_witness hash256 tx, ← txid_ignores_witness hash256 tx', h]

/-- without witness data both serialisations coincide, so wtxid = txid -/
theorem serTx_wit_eq_of_no_witness (tx : Tx) (h : hasWitness tx = false) :
    serTx tx true = serTx tx false := by
  simp [serTx, h]

theorem wtxid_eq_txid_of_no_witness (hash256 : Bytes → Bytes) (tx : Tx) (h : hasWitness tx = false) :
    hash256 (serTx tx true) = txHash hash256 tx := by
  rw [serTx_wit_eq_of_no_witness tx h, txHash]

/-- a stripped transaction carries no witness -/
theorem hasWitness_stripTx (tx : Tx) : hasWitness (stripTx tx) = false := by
  simp [hasWitness, hasWitnessIns, stripTx, strip]

/-- so the txid of any transaction is the hash of the *parsable* encoding of its stripped form -/
theorem txid_eq_hash_stripped_encoding (hash256 : Bytes → Bytes) (tx : Tx) :
    txHash hash256 tx = hash256 (serTx (stripTx tx) true) := by
  rw [serTx_wit_eq_of_no_witness _ (hasWitness_stripTx tx), serTx_nowit_strip, txHash]

/-- with witness data present the extended serialisation is marked (0x00 0x01 after the
    version) and therefore differs from the legacy one -/
theorem serTx_wit_marker (tx : Tx) (h : hasWitness tx = true) :
    ∃ tail, serTx tx true = leFixed 4 (ofSigned 32 tx.version) ++ [0, 1] ++ tail := by
  refine ⟨serVector serTxIn tx.vin ++ serVector serTxOut tx.vout ++ tx.vin.flatMap serWitness
            ++ leFixed 4 tx.lockTime, ?_⟩
  simp [serTx, h, serVector_nil]

-- non-vacuity: a concrete two-witness-item input whose witness does not reach the hash input
example : serTx ⟨2, [⟨⟨List.replicate 32 7, 1⟩, [], 0xfffffffe, [[1, 2], [3]]⟩], [⟨5000, [0x51]⟩], 0⟩ false
        = serTx ⟨2, [⟨⟨List.replicate 32 7, 1⟩, [], 0xfffffffe, []⟩], [⟨5000, [0x51]⟩], 0⟩ false :=
  serTx_nowit_strip ⟨2, [⟨⟨List.replicate 32 7, 1⟩, [], 0xfffffffe, [[1, 2], [3]]⟩], [⟨5000, [0x51]⟩], 0⟩

end Btcdeb.Proofs.C13
