import Btcdeb
namespace Btcdeb.Proofs.C07
end Btcdeb.Proofs.C07
