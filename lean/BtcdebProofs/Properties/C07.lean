/-
  C07 — btcc assembles every token sequence into the exact minimal encoding.
  Property theorems: what `Value::operator>>` (the only place the assembler emits bytes) produces for each
  kind of value is the specification's minimal push; the minimal push decodes back to one instruction that
  places exactly the given bytes on the stack and satisfies Bitcoin's minimal-push rule.
  The lexical layer (classification of text into values) is tied by correspondence, see DESIGN.md.
-/
import Btcdeb
import BtcdebProofs.Properties.C18
import BtcdebProofs.Refine.Step
namespace Btcdeb.Proofs.C07
open Btcdeb Btcdeb.Model

theorem pushData_eq_lengthPush (b : Bytes) : pushData b = Spec.lengthPush b := rfl

/-- the encodings of the numbers that have a dedicated opcode -/
theorem serialize_small (k : Nat) (hk : k ≤ 16) : serialize (k : Int) = if k = 0 then [] else [UInt8.ofNat k] := by
  by_cases h0 : k = 0
  · subst h0; simp [serialize]
  · simp only [h0, if_false]
    have hm : minimalOk [UInt8.ofNat k] = true := by
      unfold minimalOk lo7
      have : (UInt8.ofNat k).toNat = k := by rw [UInt8.toNat_ofNat']; omega
      simp [this]; omega
    have hv : setVch [UInt8.ofNat k] = (k : Int) := by
      have := setVch_snoc [] (UInt8.ofNat k)
      have hk' : (UInt8.ofNat k).toNat = k := by rw [UInt8.toNat_ofNat']; omega
      have hhi : hi (UInt8.ofNat k) = false := by rw [hi_false_iff, hk']; omega
      simpa [hhi, hk'] using this
    rw [← hv]; exact Proofs.C18.encode_decode _ hm

theorem serialize_neg_one : serialize (-1) = [0x81] := by
  have hm : minimalOk [0x81] = true := by decide
  have hv : setVch [0x81] = -1 := by decide
  rw [← hv]; exact Proofs.C18.encode_decode _ hm

/-- a decimal integer is emitted as the minimal push of its script-number encoding -/
theorem int_emits_minimal (n : Int) : pushInt64 n = Spec.minimalPushOf (serialize n) := by
  unfold pushInt64
  by_cases h1 : n = -1
  · subst h1; rw [serialize_neg_one]; rfl
  · by_cases h2 : 1 ≤ n ∧ n ≤ 16
    · obtain ⟨ha, hb⟩ := h2
      obtain ⟨k, rfl⟩ : ∃ k : Nat, n = (k : Int) := ⟨n.toNat, by omega⟩
      have hk : k ≤ 16 := by omega
      have hk0 : k ≠ 0 := by omega
      rw [serialize_small k hk]
      have hc : (((k : Int) == -1) || (decide ((1 : Int) ≤ k) && decide ((k : Int) ≤ 16))) = true := by
        simp; omega
      simp only [hc, if_true, hk0, if_false]
      have hb' : (UInt8.ofNat k).toNat = k := by rw [UInt8.toNat_ofNat']; omega
      unfold Spec.minimalPushOf
      have hr : 1 ≤ (UInt8.ofNat k).toNat ∧ (UInt8.ofNat k).toNat ≤ 16 := by rw [hb']; omega
      have : ((k : Int) + 80).toNat = 0x50 + k := by omega
      simp only [hb', this]
      have hr' : 1 ≤ k ∧ k ≤ 16 := by omega
      simp [hr']
    · by_cases h0 : n = 0
      · subst h0; simp [serialize, Spec.minimalPushOf]
      · have hc : (n == -1 || (decide (1 ≤ n) && decide (n ≤ 16))) = false := by
          simp [h1]; intro h; exact Classical.byContradiction (fun h' => h2 ⟨h, by omega⟩)
        simp only [hc, Bool.false_eq_true, if_false, beq_iff_eq, h0]
        rw [pushData_eq_lengthPush]
        -- the encoding of n is neither empty nor one of the bytes that have a dedicated opcode
        have hde := Proofs.C18.decode_encode n
        unfold Spec.minimalPushOf
        cases hs : serialize n with
        | nil => rw [hs] at hde; simp [setVch] at hde; exact absurd hde.symm h0
        | cons b rest =>
          cases rest with
          | cons c r => rfl
          | nil =>
            rw [hs] at hde
            have hb : setVch [b] = if hi b then -((b.toNat - 128 : Nat) : Int) else (b.toNat : Int) := by
              have := setVch_snoc [] b
              simpa using this
            rw [hb] at hde
            by_cases hhi : hi b = true
            · simp only [hhi, if_true] at hde
              have h128 := (hi_iff b).mp hhi
              have hlt := u8_lt b
              have hne : ¬ (b.toNat = 0x81) := by intro h; apply h1; rw [← hde, h]; decide
              have hr : ¬ (1 ≤ b.toNat ∧ b.toNat ≤ 16) := by omega
              simp [hr, hne]
            · have hhi' : hi b = false := by simpa using hhi
              simp only [hhi', Bool.false_eq_true, if_false] at hde
              have h128 := (hi_false_iff b).mp hhi'
              have hr : ¬ (1 ≤ b.toNat ∧ b.toNat ≤ 16) := by intro h; apply h2; omega
              have hne : ¬ (b.toNat = 0x81) := by omega
              simp [hr, hne]

/-- a data value (hex literal, compiled sub-script) is emitted as the minimal push of exactly its bytes -/
theorem data_emits_minimal (v : Value) (hv : v.type = .T_DATA) (s : Bytes) :
    v.appendTo s = .ok (s ++ Spec.minimalPushOf v.data) := by
  unfold Value.appendTo
  simp only [hv]
  by_cases hlen : v.data.length < 5
  · simp only [hlen, if_true]
    have h4 : ¬ v.data.length > 4 := by omega
    unfold dataIntValue scriptNum
    simp only [h4, if_false, Bool.false_and, Bool.false_eq_true]
    show (if serialize (setVch v.data) == v.data then Except.ok (s ++ pushInt64 (setVch v.data)) else Except.ok (s ++ pushData v.data)) = _
    by_cases hcanon : serialize (setVch v.data) = v.data
    · simp only [hcanon, beq_self_eq_true, if_true]
      rw [int_emits_minimal, hcanon]
    · have : (serialize (setVch v.data) == v.data) = false := by simpa using hcanon
      simp only [this, Bool.false_eq_true, if_false]
      -- not canonical: the data is not [], not a single byte 1..16 or 0x81 (those are canonical), so the length rule applies
      rw [pushData_eq_lengthPush]
      unfold Spec.minimalPushOf
      cases hd : v.data with
      | nil => rw [hd] at hcanon; exact absurd (by decide) hcanon
      | cons b rest =>
        cases rest with
        | cons c r => rfl
        | nil =>
          rw [hd] at hcanon
          by_cases hr : 1 ≤ b.toNat ∧ b.toNat ≤ 16
          · exfalso; apply hcanon
            have hm : minimalOk [b] = true := by
              unfold minimalOk lo7; simp; omega
            exact Proofs.C18.encode_decode [b] hm
          · by_cases hne : b.toNat = 0x81
            · exfalso; apply hcanon
              have hm : minimalOk [b] = true := by
                unfold minimalOk lo7; simp; omega
              exact Proofs.C18.encode_decode [b] hm
            · simp [hr, hne]
  · simp only [hlen, if_false]
    rw [pushData_eq_lengthPush]
    unfold Spec.minimalPushOf
    cases hd : v.data with
    | nil => rw [hd] at hlen; simp at hlen
    | cons b rest =>
      cases rest with
      | nil => rw [hd] at hlen; simp at hlen
      | cons c r => rfl

/-- an opcode token is emitted as its byte -/
theorem opcode_emits_byte (v : Value) (hv : v.type = .T_OPCODE) (s : Bytes) :
    v.appendTo s = .ok (s ++ [UInt8.ofNat v.opcode]) := by
  unfold Value.appendTo; simp [hv]

/-- the value an instruction places on the stack when executed -/
def pushedBy (i : Spec.Instr) : Option Bytes :=
  if i.opcode ≤ 0x4e then some i.data
  else if i.opcode = 0x4f then some [0x81]
  else if 0x51 ≤ i.opcode ∧ i.opcode ≤ 0x60 then some [UInt8.ofNat (i.opcode - 0x50)]
  else none

theorem leFixed_length (k n : Nat) : (leFixed k n).length = k := by
  induction k generalizing n with
  | zero => rfl
  | succ k ih => simp [leFixed, ih]

theorem leValue_leFixed (k n : Nat) (h : n < 256 ^ k) : leValue (leFixed k n) = n := by
  induction k generalizing n with
  | zero => simp at h; subst h; rfl
  | succ k ih =>
    simp only [leFixed, leValue_cons, u8_ofNat_mod]
    rw [ih (n / 256) (by rw [Nat.pow_succ] at h; omega)]
    omega

/-- Decoding the minimal push yields exactly one instruction, which places exactly the given bytes on
    the stack and satisfies Bitcoin's minimal-push rule (any data length below 2^32) -/
theorem minimal_push_decodes (d rest : Bytes) (hd : d.length < 2 ^ 32) :
    ∃ i, Spec.decodeOne (Spec.minimalPushOf d ++ rest) = some (i, rest) ∧ pushedBy i = some d ∧
      (i.opcode ≤ 0x4e → Spec.minimalPush i.opcode i.data = true) := by
  have lenPush : ∀ (d : Bytes), d.length < 2 ^ 32 → d ≠ [] →
      (∀ b, d = [b] → ¬ (1 ≤ b.toNat ∧ b.toNat ≤ 16) ∧ b.toNat ≠ 0x81) →
      ∃ i, Spec.decodeOne (Spec.lengthPush d ++ rest) = some (i, rest) ∧ pushedBy i = some d ∧
        (i.opcode ≤ 0x4e → Spec.minimalPush i.opcode i.data = true) := by
    intro d hd hne hsingle
    have hpos : 0 < d.length := List.length_pos_iff.mpr hne
    have hmin : ∀ opc, (d.length ≤ 75 → opc = d.length) → (75 < d.length → d.length ≤ 255 → opc = 0x4c) →
        (255 < d.length → d.length ≤ 65535 → opc = 0x4d) → Spec.minimalPush opc d = true := by
      intro opc h1 h2 h3
      unfold Spec.minimalPush
      have h0 : ¬ d.length = 0 := by omega
      simp only [h0, if_false]
      by_cases hl1 : d.length = 1
      · obtain ⟨b, rfl⟩ : ∃ b, d = [b] := by
          cases d with
          | nil => simp at hpos
          | cons b r => cases r with
            | nil => exact ⟨b, rfl⟩
            | cons c r' => simp at hl1
        have := hsingle b rfl
        simp [this.1, this.2]
        have := h1 (by simp); simp at this; exact this
      · simp only [hl1, false_and, if_false]
        by_cases ha : d.length ≤ 75
        · simp [ha, h1 ha]
        · by_cases hb : d.length ≤ 255
          · simp [ha, hb, h2 (by omega) hb]
          · by_cases hc : d.length ≤ 65535
            · simp [ha, hb, hc, h3 (by omega) hc]
            · simp [ha, hb, hc]
    unfold Spec.lengthPush
    by_cases h1 : d.length < 0x4c
    · simp only [h1, if_true, List.cons_append]
      have hb : (UInt8.ofNat d.length).toNat = d.length := by rw [UInt8.toNat_ofNat']; omega
      refine ⟨⟨d.length, d⟩, ?_, ?_, ?_⟩
      · simp only [Spec.decodeOne, hb, Spec.pushLenBytes]
        have : d.length ≤ 78 := by omega
        simp [this, h1]
      · simp [pushedBy]; omega
      · intro _; exact hmin _ (fun _ => rfl) (by omega) (by omega)
    · simp only [h1, if_false]
      by_cases h2 : d.length ≤ 0xff
      · simp only [h2, if_true, List.cons_append]
        have hb : (UInt8.ofNat d.length).toNat = d.length := by rw [UInt8.toNat_ofNat']; omega
        refine ⟨⟨0x4c, d⟩, ?_, ?_, ?_⟩
        · simp [Spec.decodeOne, Spec.pushLenBytes, hb]
        · simp [pushedBy]
        · intro _; exact hmin _ (by omega) (fun _ _ => rfl) (by omega)
      · simp only [h2, if_false]
        by_cases h3 : d.length ≤ 0xffff
        · simp only [h3, if_true, List.cons_append, List.append_assoc]
          have hl := leFixed_length 2 d.length
          have hv := leValue_leFixed 2 d.length (by simp; omega)
          refine ⟨⟨0x4d, d⟩, ?_, ?_, ?_⟩
          · simp only [Spec.decodeOne, Spec.pushLenBytes]
            simp [List.take_append_of_le_length, List.drop_append_of_le_length, hl, hv]
          · simp [pushedBy]
          · intro _; exact hmin _ (by omega) (by omega) (fun _ _ => rfl)
        · simp only [h3, if_false, List.cons_append, List.append_assoc]
          have hl := leFixed_length 4 d.length
          have hv := leValue_leFixed 4 d.length (by simp; omega)
          refine ⟨⟨0x4e, d⟩, ?_, ?_, ?_⟩
          · simp only [Spec.decodeOne, Spec.pushLenBytes]
            simp [List.take_append_of_le_length, List.drop_append_of_le_length, hl, hv]
          · simp [pushedBy]
          · intro _; exact hmin _ (by omega) (by omega) (by omega)
  unfold Spec.minimalPushOf
  cases d with
  | nil =>
    refine ⟨⟨0, []⟩, ?_, ?_, ?_⟩
    · simp [Spec.decodeOne, Spec.pushLenBytes]
    · simp [pushedBy]
    · intro _; simp [Spec.minimalPush]
  | cons b r =>
    cases r with
    | cons c r' =>
      exact lenPush (b :: c :: r') hd (by simp) (by intro x hx; simp at hx)
    | nil =>
      have hlt := u8_lt b
      by_cases h1 : 1 ≤ b.toNat ∧ b.toNat ≤ 16
      · simp only [h1, and_self, if_true]
        have hb : (UInt8.ofNat (0x50 + b.toNat)).toNat = 0x50 + b.toNat := by rw [UInt8.toNat_ofNat']; omega
        refine ⟨⟨0x50 + b.toNat, []⟩, ?_, ?_, ?_⟩
        · simp only [List.cons_append, List.nil_append, Spec.decodeOne, hb]
          have : ¬ (0x50 + b.toNat ≤ 0x4e) := by omega
          simp [this]
        · have h2 : ¬ (0x50 + b.toNat ≤ 0x4e) := by omega
          have h3 : ¬ (0x50 + b.toNat = 0x4f) := by omega
          have h4 : 0x51 ≤ 0x50 + b.toNat ∧ 0x50 + b.toNat ≤ 0x60 := by omega
          simp only [pushedBy, h2, h3, h4, and_self, if_true, if_false]
          have : 0x50 + b.toNat - 0x50 = b.toNat := by omega
          rw [this, u8_ofNat_toNat]
        · intro h; simp only at h; omega
      · simp only [h1, if_false]
        by_cases h2 : b.toNat = 0x81
        · simp only [h2, if_true]
          refine ⟨⟨0x4f, []⟩, ?_, ?_, ?_⟩
          · simp [Spec.decodeOne]
          · have : b = 0x81 := u8_ext (by rw [h2]; decide)
            subst this; simp [pushedBy]
          · intro h; simp only at h; omega
        · simp only [h2, if_false]
          exact lenPush [b] hd (by simp) (by intro x hx; simp at hx; subst hx; exact ⟨h1, h2⟩)

end Btcdeb.Proofs.C07
