/-
  C13 — transaction decoding/encoding is lossless and canonical; the txid is the hash of the specified encoding;
  amounts are converted exactly.

  Model: `Btcdeb/Model/Tx.lean` (mirrors `ReadCompactSize`, vector (de)serialisation, `UnserializeTransaction`,
  `SerializeTransaction`, `GetHash`, `parse_tx`, `ParseFixedPoint`, `Instance::parse_transaction`).
  Spec:  `Btcdeb/Spec/Tx.lean` (`encodeTx`, `WellFormed`, `txidOf`, `amountOf`).

  All theorems are for ALL byte strings / ALL transactions (unbounded numbers and sizes of inputs, outputs, scripts,
  witness items).  Main results (the property theorems proper are at the end of each section):
    compactSize_roundtrip / compactSize_canonical / compactSize_range
    serTx_eq_encodeTx, txid_def
    C13_parse_ser      parseTx b = some (tx, rest) → b = serTx tx true ++ rest
    parseTx_wellFormed parseTx b = some (tx, rest) → Spec.WellFormed tx
    C13_ser_parse      Spec.WellFormed tx → parseTx (serTx tx true ++ rest) = some (tx, rest)
    C13_truncation_rejected_general / C13_truncation_rejected, serTx_injective, C13_bijection
    parseTxHex_sound / parseTxHex_complete   (`parse_tx`, which since the fix commit rejects trailing bytes)
    C13_amount_exact(_val)  Spec.amountOf s = some v → parseFixedPoint s 8 = some v
    C13_amount_sound        parseFixedPoint s 8 = some v, no e/E in s, ≤ 8 characters after the first '.' → Spec.amountOf s = some v
    C13_amount_iff          under the same two side conditions: parseFixedPoint s 8 = Spec.amountOf s
                            (the side conditions are necessary: `ParseFixedPoint` also accepts "1e8" and "1.000000000")
    parseTransactionArg_amounts

  Proof method: one generic lemma shape per reader, `Sound p ser ok` (what `p` accepts is `ser result ++ rest`, and
  the result is `ok`) and `Complete p ser ok` (`p (ser a ++ rest) = some (a, rest)` for `ok a`), proved for
  fixed-width little-endian integers, compact size, byte vectors, vectors of items, outpoints, inputs, outputs,
  witness stacks, then composed along the control flow of `UnserializeTransaction`.

  Remarks on the statements.
  * `C13_ser_parse` needs no "witness stacks not all empty" hypothesis only because `serTx` chooses the extended
    format exactly when some stack is non-empty; the extended format with all stacks empty is REJECTED by the
    parser ("Superfluous witness record"), which is also why `C13_parse_ser` holds (such a stream would otherwise
    re-serialise to the basic format, i.e. to different bytes).
  * `WellFormed` contains `vin = [] → vout = []`, not `vin ≠ []`: the empty transaction `version 00 00 locktime`
    does round-trip (the parser reads the first 00 as the marker and the second as flag 0 = "no optional data").
    A transaction with no inputs and some outputs does NOT: its basic serialisation `version 00 <count ≥ 1> ...` is
    read as marker + non-zero flag.  Example: `serTx ⟨1, [], [⟨0, []⟩], 0⟩ true = 01000000 00 01 0000000000000000 00
    00000000` fails to parse (see `noInputs_counterexample` below).
-/
import Btcdeb.Model.Tx
import Btcdeb.Spec.Tx
import BtcdebProofs.Lemmas.LE
namespace Btcdeb.Proofs.C13
open Btcdeb Btcdeb.Model

/-! ## fixed-width little-endian integers -/

theorem leFixed_length (k n : Nat) : (leFixed k n).length = k := by
  induction k generalizing n with
  | zero => rfl
  | succ k ih => simp [leFixed, ih]

theorem leValue_leFixed (k n : Nat) : leValue (leFixed k n) = n % 256 ^ k := by
  induction k generalizing n with
  | zero => simp [leFixed, Nat.mod_one]
  | succ k ih =>
    simp only [leFixed, leValue_cons, ih, u8_ofNat_mod, Nat.pow_succ]
    rw [Nat.mul_comm (256 ^ k) 256, Nat.mod_mul]

theorem leFixed_leValue (b : Bytes) : leFixed b.length (leValue b) = b := by
  induction b with
  | nil => rfl
  | cons x xs ih =>
    have hx := u8_lt x
    simp only [List.length_cons, leFixed, leValue_cons]
    have h1 : (x.toNat + 256 * leValue xs) % 256 = x.toNat := by omega
    have h2 : (x.toNat + 256 * leValue xs) / 256 = leValue xs := by omega
    rw [h1, h2, ih, u8_ofNat_toNat]

/-! ## the generic lemma shapes -/

/-- whatever `p` accepts is the serialisation of the result followed by the rest, and the result is `ok` -/
def Sound {α : Type} (p : Bytes → Option (α × Bytes)) (ser : α → Bytes) (ok : α → Prop) : Prop :=
  ∀ b a r, p b = some (a, r) → b = ser a ++ r ∧ ok a

/-- the serialisation of an `ok` value, followed by anything, is read back as that value and the rest -/
def Complete {α : Type} (p : Bytes → Option (α × Bytes)) (ser : α → Bytes) (ok : α → Prop) : Prop :=
  ∀ a r, ok a → p (ser a ++ r) = some (a, r)

theorem readBytes_sound (n : Nat) : Sound (readBytes n) id (fun x => x.length = n) := by
  intro b a r h
  unfold readBytes at h
  split at h
  · simp only [Option.some.injEq, Prod.mk.injEq] at h
    obtain ⟨rfl, rfl⟩ := h
    simp only [id, List.take_append_drop, List.length_take, true_and]
    omega
  · simp at h

theorem readBytes_complete (n : Nat) : Complete (readBytes n) id (fun x => x.length = n) := by
  intro a r h
  subst h
  simp [readBytes]

theorem readLE_sound (k : Nat) : Sound (readLE k) (leFixed k) (fun v => v < 256 ^ k) := by
  intro b a r h
  unfold readLE at h
  split at h
  · rename_i x r' hx
    simp only [Option.some.injEq, Prod.mk.injEq] at h
    obtain ⟨rfl, rfl⟩ := h
    obtain ⟨h1, h2⟩ := readBytes_sound k _ _ _ hx
    simp only [id] at h1
    subst h2
    exact ⟨by rw [leFixed_leValue]; exact h1, leValue_lt x⟩
  · simp at h

theorem readLE_complete (k : Nat) : Complete (readLE k) (leFixed k) (fun v => v < 256 ^ k) := by
  intro a r h
  unfold readLE
  have := readBytes_complete k (leFixed k a) r (leFixed_length k a)
  simp only [id] at this
  rw [this]
  simp [leValue_leFixed, Nat.mod_eq_of_lt h]

/-! ## compact size -/

theorem readCompactSize_sound (rc : Bool) :
    Sound (fun b => readCompactSize b rc) compactSize (fun n => n < 2 ^ 64 ∧ (rc = true → n ≤ MAX_SIZE)) := by
  intro b n rest h
  cases b with
  | nil => simp [readCompactSize] at h
  | cons c r =>
    have hc := u8_lt c
    simp only [readCompactSize] at h
    split at h
    next n' r' hres =>
      split at h
      · simp at h
      next hrange =>
        simp only [Option.some.injEq, Prod.mk.injEq] at h
        obtain ⟨rfl, rfl⟩ := h
        have hr : rc = true → n' ≤ MAX_SIZE := by
          intro hrc; subst hrc; simp at hrange; exact hrange
        split at hres
        next h1 =>
          simp only [Option.some.injEq, Prod.mk.injEq] at hres
          obtain ⟨rfl, rfl⟩ := hres
          refine ⟨?_, by omega, hr⟩
          simp [compactSize, h1]
        next h1 =>
          split at hres
          next h2 =>
            split at hres
            next v r2 hle =>
              split at hres
              · simp at hres
              next h3 =>
                simp only [Option.some.injEq, Prod.mk.injEq] at hres
                obtain ⟨rfl, rfl⟩ := hres
                obtain ⟨hb, hv⟩ := readLE_sound 2 _ _ _ hle
                have hc' : c = 253 := u8_ext h2
                refine ⟨?_, by omega, hr⟩
                have : ¬ v < 253 := h3
                have : v ≤ 0xffff := by omega
                simp [compactSize, *]
            · simp at hres
          next h2 =>
            split at hres
            next h4 =>
              split at hres
              next v r2 hle =>
                split at hres
                · simp at hres
                next h3 =>
                  simp only [Option.some.injEq, Prod.mk.injEq] at hres
                  obtain ⟨rfl, rfl⟩ := hres
                  obtain ⟨hb, hv⟩ := readLE_sound 4 _ _ _ hle
                  have hc' : c = 254 := u8_ext h4
                  refine ⟨?_, by omega, hr⟩
                  have : ¬ v < 253 := by omega
                  have : ¬ v ≤ 0xffff := by omega
                  have : v ≤ 0xffffffff := by omega
                  simp [compactSize, *]
              · simp at hres
            next h4 =>
              split at hres
              next v r2 hle =>
                split at hres
                · simp at hres
                next h3 =>
                  simp only [Option.some.injEq, Prod.mk.injEq] at hres
                  obtain ⟨rfl, rfl⟩ := hres
                  obtain ⟨hb, hv⟩ := readLE_sound 8 _ _ _ hle
                  have hc' : c = 255 := u8_ext (by show c.toNat = 255; omega)
                  refine ⟨?_, by omega, hr⟩
                  have : ¬ v < 253 := by omega
                  have : ¬ v ≤ 0xffff := by omega
                  have : ¬ v ≤ 0xffffffff := by omega
                  simp [compactSize, *]
              · simp at hres
    · simp at h

theorem readCompactSize_complete (rc : Bool) :
    Complete (fun b => readCompactSize b rc) compactSize (fun n => n < 2 ^ 64 ∧ (rc = true → n ≤ MAX_SIZE)) := by
  intro n rest ⟨h64, hr⟩
  have hrange : (rc && decide (n > MAX_SIZE)) = false := by
    cases rc with
    | false => rfl
    | true => have := hr rfl; simp; omega
  simp only [compactSize]
  split
  next h1 =>
    have : (UInt8.ofNat n).toNat = n := by simp [UInt8.toNat_ofNat']; omega
    simp [readCompactSize, this, h1, hrange]
  next h1 =>
    split
    next h2 =>
      have := readLE_complete 2 n rest (by omega)
      simp only [List.cons_append, readCompactSize]
      rw [this]
      simp [h1, hrange]
    next h2 =>
      split
      next h3 =>
        have := readLE_complete 4 n rest (by omega)
        simp only [List.cons_append, readCompactSize]
        rw [this]
        have : ¬ n < 65536 := by omega
        simp [this, hrange]
      next h3 =>
        have := readLE_complete 8 n rest (by omega)
        simp only [List.cons_append, readCompactSize]
        rw [this]
        have : ¬ n < 4294967296 := by omega
        simp [this, hrange]

/-- `ReadCompactSize` inverts `WriteCompactSize` on every size the range check admits. -/
theorem compactSize_roundtrip (n : Nat) (h : n ≤ 0x02000000) (rest : Bytes) :
    readCompactSize (compactSize n ++ rest) = some (n, rest) :=
  readCompactSize_complete true n rest ⟨by omega, fun _ => h⟩

/-- the same without the range check, for every 64-bit number -/
theorem compactSize_roundtrip_norange (n : Nat) (h : n < 2 ^ 64) (rest : Bytes) :
    readCompactSize (compactSize n ++ rest) false = some (n, rest) :=
  readCompactSize_complete false n rest ⟨h, fun h => by simp at h⟩

/-- Only canonical encodings are accepted: what `ReadCompactSize` consumed is exactly `WriteCompactSize` of the result
    (with or without range check). -/
theorem compactSize_canonical (b rest : Bytes) (n : Nat) (h : readCompactSize b = some (n, rest)) :
    b = compactSize n ++ rest :=
  (readCompactSize_sound true b n rest h).1

theorem compactSize_canonical_norange (b rest : Bytes) (n : Nat) (h : readCompactSize b false = some (n, rest)) :
    b = compactSize n ++ rest :=
  (readCompactSize_sound false b n rest h).1

/-- the range check: an accepted size is at most `MAX_SIZE` -/
theorem compactSize_range (b rest : Bytes) (n : Nat) (h : readCompactSize b = some (n, rest)) : n ≤ 0x02000000 :=
  (readCompactSize_sound true b n rest h).2.2 rfl

/-! ## byte vectors, vectors of items -/

theorem readVarBytes_sound : Sound readVarBytes serVarBytes (fun x => x.length ≤ MAX_SIZE) := by
  intro b x r h
  unfold readVarBytes at h
  split at h
  next n r1 hcs =>
    obtain ⟨hb, _, hn⟩ := readCompactSize_sound true _ _ _ hcs
    obtain ⟨hr1, hlen⟩ := readBytes_sound n _ _ _ h
    simp only [id] at hr1
    subst hlen
    exact ⟨by rw [hb, hr1]; simp [serVarBytes], hn rfl⟩
  · simp at h

theorem readVarBytes_complete : Complete readVarBytes serVarBytes (fun x => x.length ≤ MAX_SIZE) := by
  intro x r h
  unfold readVarBytes serVarBytes
  have h1 := readCompactSize_complete true x.length (x ++ r) ⟨by simp [MAX_SIZE] at h; omega, fun _ => h⟩
  simp only [List.append_assoc]
  simp only at h1
  rw [h1]
  exact readBytes_complete x.length x r rfl

theorem readN_sound {α : Type} {p : Bytes → Option (α × Bytes)} {ser : α → Bytes} {ok : α → Prop}
    (hp : Sound p ser ok) (n : Nat) :
    Sound (readN p n) (fun as => as.flatMap ser) (fun as => as.length = n ∧ ∀ a ∈ as, ok a) := by
  induction n with
  | zero =>
    intro b as r h
    simp only [readN, Option.some.injEq, Prod.mk.injEq] at h
    obtain ⟨rfl, rfl⟩ := h
    simp
  | succ n ih =>
    intro b as r h
    simp only [readN] at h
    split at h
    next a r1 h1 =>
      split at h
      next as' r2 h2 =>
        simp only [Option.some.injEq, Prod.mk.injEq] at h
        obtain ⟨rfl, rfl⟩ := h
        obtain ⟨hb, hok⟩ := hp _ _ _ h1
        obtain ⟨hr1, hlen, hall⟩ := ih _ _ _ h2
        refine ⟨by rw [hb, hr1]; simp, by simp [hlen], ?_⟩
        intro x hx
        simp only [List.mem_cons] at hx
        rcases hx with rfl | hx
        · exact hok
        · exact hall x hx
      · simp at h
    · simp at h

theorem readN_complete {α : Type} {p : Bytes → Option (α × Bytes)} {ser : α → Bytes} {ok : α → Prop}
    (hp : Complete p ser ok) (as : List α) (r : Bytes) (hall : ∀ a ∈ as, ok a) :
    readN p as.length (as.flatMap ser ++ r) = some (as, r) := by
  induction as with
  | nil => simp [readN]
  | cons a as ih =>
    have h1 := hp a (as.flatMap ser ++ r) (hall a (by simp))
    simp only [List.length_cons, readN, List.flatMap_cons, List.append_assoc]
    rw [h1]
    simp only
    rw [ih (fun x hx => hall x (by simp [hx]))]

theorem readVector_sound {α : Type} {p : Bytes → Option (α × Bytes)} {ser : α → Bytes} {ok : α → Prop}
    (hp : Sound p ser ok) :
    Sound (readVector p) (serVector ser) (fun as => as.length ≤ MAX_SIZE ∧ ∀ a ∈ as, ok a) := by
  intro b as r h
  unfold readVector at h
  split at h
  next n r1 hcs =>
    obtain ⟨hb, _, hn⟩ := readCompactSize_sound true _ _ _ hcs
    obtain ⟨hr1, hlen, hall⟩ := readN_sound hp n _ _ _ h
    subst hlen
    exact ⟨by rw [hb, hr1]; simp [serVector], hn rfl, hall⟩
  · simp at h

theorem readVector_complete {α : Type} {p : Bytes → Option (α × Bytes)} {ser : α → Bytes} {ok : α → Prop}
    (hp : Complete p ser ok) :
    Complete (readVector p) (serVector ser) (fun as => as.length ≤ MAX_SIZE ∧ ∀ a ∈ as, ok a) := by
  intro as r ⟨hlen, hall⟩
  unfold readVector serVector
  have h1 := readCompactSize_complete true as.length (as.flatMap ser ++ r)
    ⟨by simp [MAX_SIZE] at hlen; omega, fun _ => hlen⟩
  simp only [List.append_assoc]
  simp only at h1
  rw [h1]
  exact readN_complete hp as r hall

/-! ## two's complement -/

theorem toSigned32_range (v : Nat) (h : v < 256 ^ 4) :
    -(2 : Int) ^ 31 ≤ toSigned 32 v ∧ toSigned 32 v < (2 : Int) ^ 31 := by
  unfold toSigned; simp only [Nat.reducePow, Nat.reduceSub] at *; split <;> omega

theorem ofSigned_toSigned32 (v : Nat) (h : v < 256 ^ 4) : ofSigned 32 (toSigned 32 v) = v := by
  unfold toSigned ofSigned; simp only [Nat.reducePow, Nat.reduceSub] at *; split <;> omega

theorem toSigned_ofSigned32 (x : Int) (h : -(2 : Int) ^ 31 ≤ x ∧ x < (2 : Int) ^ 31) :
    toSigned 32 (ofSigned 32 x) = x := by
  unfold toSigned ofSigned; simp only [Nat.reducePow, Nat.reduceSub] at *; split <;> omega

theorem ofSigned32_lt (x : Int) : ofSigned 32 x < 256 ^ 4 := by
  unfold ofSigned; simp only [Nat.reducePow]; omega

theorem toSigned64_range (v : Nat) (h : v < 256 ^ 8) :
    -(2 : Int) ^ 63 ≤ toSigned 64 v ∧ toSigned 64 v < (2 : Int) ^ 63 := by
  unfold toSigned; simp only [Nat.reducePow, Nat.reduceSub] at *; split <;> omega

theorem ofSigned_toSigned64 (v : Nat) (h : v < 256 ^ 8) : ofSigned 64 (toSigned 64 v) = v := by
  unfold toSigned ofSigned; simp only [Nat.reducePow, Nat.reduceSub] at *; split <;> omega

theorem toSigned_ofSigned64 (x : Int) (h : -(2 : Int) ^ 63 ≤ x ∧ x < (2 : Int) ^ 63) :
    toSigned 64 (ofSigned 64 x) = x := by
  unfold toSigned ofSigned; simp only [Nat.reducePow, Nat.reduceSub] at *; split <;> omega

theorem ofSigned64_lt (x : Int) : ofSigned 64 x < 256 ^ 8 := by
  unfold ofSigned; simp only [Nat.reducePow]; omega

/-! ## outpoints, inputs, outputs -/

/-- field widths of an input (without its witness stack) -/
def InOk (i : TxIn) : Prop :=
  i.prevout.hash.length = 32 ∧ i.prevout.n < 2 ^ 32 ∧ i.scriptSig.length ≤ MAX_SIZE ∧ i.sequence < 2 ^ 32

/-- field widths of an output -/
def OutOk (o : TxOut) : Prop :=
  (-(2 : Int) ^ 63 ≤ o.value ∧ o.value < (2 : Int) ^ 63) ∧ o.scriptPubKey.length ≤ MAX_SIZE

/-- sizes of a witness stack -/
def WitOk (w : List Bytes) : Prop := w.length ≤ MAX_SIZE ∧ ∀ x ∈ w, x.length ≤ MAX_SIZE

theorem readOutPoint_sound : Sound readOutPoint serOutPoint (fun o => o.hash.length = 32 ∧ o.n < 2 ^ 32) := by
  intro b o r h
  unfold readOutPoint at h
  split at h
  next hs r1 h1 =>
    split at h
    next n r2 h2 =>
      simp only [Option.some.injEq, Prod.mk.injEq] at h
      obtain ⟨rfl, rfl⟩ := h
      obtain ⟨hb, hl⟩ := readBytes_sound 32 _ _ _ h1
      obtain ⟨hr1, hn⟩ := readLE_sound 4 _ _ _ h2
      simp only [id] at hb
      exact ⟨by rw [hb, hr1]; simp [serOutPoint], hl, by simpa using hn⟩
    · simp at h
  · simp at h

theorem readOutPoint_complete : Complete readOutPoint serOutPoint (fun o => o.hash.length = 32 ∧ o.n < 2 ^ 32) := by
  intro o r ⟨hl, hn⟩
  unfold readOutPoint serOutPoint
  have h1 := readBytes_complete 32 o.hash (leFixed 4 o.n ++ r) hl
  have h2 := readLE_complete 4 o.n r (by simpa using hn)
  simp only [id] at h1
  simp only [List.append_assoc]
  rw [h1]
  simp only
  rw [h2]

theorem readTxIn_sound : Sound readTxIn serTxIn (fun i => InOk i ∧ i.witness = []) := by
  intro b i r h
  unfold readTxIn at h
  split at h
  next o r1 h1 =>
    split at h
    next sc r2 h2 =>
      split at h
      next q r3 h3 =>
        simp only [Option.some.injEq, Prod.mk.injEq] at h
        obtain ⟨rfl, rfl⟩ := h
        obtain ⟨hb, hl, hn⟩ := readOutPoint_sound _ _ _ h1
        obtain ⟨hr1, hs⟩ := readVarBytes_sound _ _ _ h2
        obtain ⟨hr2, hq⟩ := readLE_sound 4 _ _ _ h3
        exact ⟨by rw [hb, hr1, hr2]; simp [serTxIn], ⟨hl, hn, hs, by simpa using hq⟩, rfl⟩
      · simp at h
    · simp at h
  · simp at h

theorem readTxIn_complete : Complete readTxIn serTxIn (fun i => InOk i ∧ i.witness = []) := by
  intro i r ⟨⟨hl, hn, hs, hq⟩, hw⟩
  unfold readTxIn serTxIn
  have h1 := readOutPoint_complete i.prevout (serVarBytes i.scriptSig ++ (leFixed 4 i.sequence ++ r)) ⟨hl, hn⟩
  have h2 := readVarBytes_complete i.scriptSig (leFixed 4 i.sequence ++ r) hs
  have h3 := readLE_complete 4 i.sequence r (by simpa using hq)
  simp only [List.append_assoc]
  rw [h1]
  simp only
  rw [h2]
  simp only
  rw [h3]
  cases i
  simp_all

theorem readTxOut_sound : Sound readTxOut serTxOut OutOk := by
  intro b o r h
  unfold readTxOut at h
  split at h
  next v r1 h1 =>
    split at h
    next sc r2 h2 =>
      simp only [Option.some.injEq, Prod.mk.injEq] at h
      obtain ⟨rfl, rfl⟩ := h
      obtain ⟨hb, hv⟩ := readLE_sound 8 _ _ _ h1
      obtain ⟨hr1, hs⟩ := readVarBytes_sound _ _ _ h2
      refine ⟨?_, toSigned64_range v hv, hs⟩
      rw [hb, hr1]
      simp [serTxOut, ofSigned_toSigned64 v hv]
    · simp at h
  · simp at h

theorem readTxOut_complete : Complete readTxOut serTxOut OutOk := by
  intro o r ⟨hv, hs⟩
  unfold readTxOut serTxOut
  have h1 := readLE_complete 8 (ofSigned 64 o.value) (serVarBytes o.scriptPubKey ++ r) (ofSigned64_lt _)
  have h2 := readVarBytes_complete o.scriptPubKey r hs
  simp only [List.append_assoc]
  rw [h1]
  simp only
  rw [h2]
  simp [toSigned_ofSigned64 o.value hv]

/-! ## witness stacks -/

/-- an input as `CTxIn` serialises it: without its witness stack -/
def strip (i : TxIn) : TxIn := { i with witness := [] }

theorem serTxIn_strip (i : TxIn) : serTxIn (strip i) = serTxIn i := rfl

theorem serVector_strip (vin : List TxIn) : serVector serTxIn (vin.map strip) = serVector serTxIn vin := by
  simp [serVector, List.flatMap_map, serTxIn_strip]

theorem strip_of_witness_nil (vin : List TxIn) (h : ∀ i ∈ vin, i.witness = []) : vin.map strip = vin := by
  induction vin with
  | nil => rfl
  | cons i is ih =>
    have hi : strip i = i := by
      have := h i (by simp)
      cases i; simp_all [strip]
    simp [hi, ih (fun x hx => h x (by simp [hx]))]

theorem witStack_sound : Sound (readVector readVarBytes) (serVector serVarBytes) WitOk :=
  readVector_sound readVarBytes_sound

theorem witStack_complete : Complete (readVector readVarBytes) (serVector serVarBytes) WitOk :=
  readVector_complete readVarBytes_complete

theorem readWitnesses_sound (vin0 : List TxIn) (b : Bytes) (vin : List TxIn) (r : Bytes)
    (h : readWitnesses vin0 b = some (vin, r)) :
    b = vin.flatMap serWitness ++ r ∧ vin.map strip = vin0.map strip ∧ ∀ i ∈ vin, WitOk i.witness := by
  induction vin0 generalizing b vin r with
  | nil =>
    simp only [readWitnesses, Option.some.injEq, Prod.mk.injEq] at h
    obtain ⟨rfl, rfl⟩ := h
    simp
  | cons i0 is ih =>
    simp only [readWitnesses] at h
    split at h
    next w r1 h1 =>
      split at h
      next is' r2 h2 =>
        simp only [Option.some.injEq, Prod.mk.injEq] at h
        obtain ⟨rfl, rfl⟩ := h
        obtain ⟨hb, hw⟩ := witStack_sound _ _ _ h1
        obtain ⟨hr1, hmap, hall⟩ := ih _ _ _ h2
        refine ⟨by rw [hb, hr1]; simp [serWitness], by simp [hmap, strip], ?_⟩
        intro x hx
        simp only [List.mem_cons] at hx
        rcases hx with rfl | hx
        · exact hw
        · exact hall x hx
      · simp at h
    · simp at h

theorem readWitnesses_complete (vin vin0 : List TxIn) (r : Bytes)
    (hmap : vin0.map strip = vin.map strip) (hall : ∀ i ∈ vin, WitOk i.witness) :
    readWitnesses vin0 (vin.flatMap serWitness ++ r) = some (vin, r) := by
  induction vin generalizing vin0 with
  | nil =>
    cases vin0 with
    | nil => simp [readWitnesses]
    | cons _ _ => simp at hmap
  | cons i is ih =>
    cases vin0 with
    | nil => simp at hmap
    | cons i0 is0 =>
      simp only [List.map_cons, List.cons.injEq] at hmap
      obtain ⟨hi, his⟩ := hmap
      have h1 := witStack_complete i.witness (is.flatMap serWitness ++ r) (hall i (by simp))
      simp only [readWitnesses, List.flatMap_cons, List.append_assoc, serWitness] at h1 ⊢
      rw [h1]
      simp only
      have h2 := ih is0 his (fun x hx => hall x (by simp [hx]))
      rw [h2]
      cases i; cases i0
      simp_all [strip]

theorem hasWitnessIns_false (vin : List TxIn) (h : ∀ i ∈ vin, i.witness = []) : hasWitnessIns vin = false := by
  simp only [hasWitnessIns, List.any_eq_false]
  intro i hi
  simp [h i hi]

theorem hasWitnessIns_ne_nil (vin : List TxIn) (h : hasWitnessIns vin = true) : vin ≠ [] := by
  intro h0; subst h0; simp [hasWitnessIns] at h

/-! ## the transaction -/

theorem compactSize_zero : compactSize 0 = [0] := by decide

theorem serVector_nil {α : Type} (f : α → Bytes) : serVector f [] = [0] := by
  simp [serVector, compactSize_zero]

/-- what `UnserializeTransaction` has read after the inputs/outputs part: one of three layouts -/
theorem readInsOuts_sound (b : Bytes) (flags : Nat) (vin : List TxIn) (vout : List TxOut) (r : Bytes)
    (h : readInsOuts b = some (flags, vin, vout, r)) :
    (vin.length ≤ MAX_SIZE ∧ (∀ i ∈ vin, InOk i ∧ i.witness = []) ∧ vout.length ≤ MAX_SIZE ∧ (∀ o ∈ vout, OutOk o)) ∧
    ((flags = 0 ∧ vin ≠ [] ∧ b = serVector serTxIn vin ++ serVector serTxOut vout ++ r) ∨
     (flags = 0 ∧ vin = [] ∧ vout = [] ∧ b = [0, 0] ++ r) ∨
     (flags ≠ 0 ∧ flags < 256 ∧
        b = [0, UInt8.ofNat flags] ++ serVector serTxIn vin ++ serVector serTxOut vout ++ r)) := by
  unfold readInsOuts at h
  split at h
  · simp at h
  next vin1 r0 h0 =>
    obtain ⟨hb, hl1, hall1⟩ := readVector_sound readTxIn_sound _ _ _ h0
    split at h
    next hemp =>
      have hv1 : vin1 = [] := by simpa using hemp
      subst hv1
      rw [serVector_nil] at hb
      split at h
      · simp at h
      next fl r1 h1 =>
        obtain ⟨hr0, hfl⟩ := readLE_sound 1 _ _ _ h1
        have hfl' : fl < 256 := by simpa using hfl
        split at h
        next hne =>
          split at h
          · simp at h
          next vin2 r2 h2 =>
            split at h
            · simp at h
            next vout2 r3 h3 =>
              simp only [Option.some.injEq, Prod.mk.injEq] at h
              obtain ⟨rfl, rfl, rfl, rfl⟩ := h
              obtain ⟨hr1, hl2, hall2⟩ := readVector_sound readTxIn_sound _ _ _ h2
              obtain ⟨hr2, hl3, hall3⟩ := readVector_sound readTxOut_sound _ _ _ h3
              refine ⟨⟨hl2, hall2, hl3, hall3⟩, Or.inr (Or.inr ⟨hne, hfl', ?_⟩)⟩
              rw [hb, hr0, hr1, hr2]
              simp [leFixed, Nat.mod_eq_of_lt hfl']
        next hz =>
          simp only [Option.some.injEq, Prod.mk.injEq] at h
          obtain ⟨rfl, rfl, rfl, rfl⟩ := h
          have hz' : fl = 0 := by simpa using hz
          subst hz'
          refine ⟨⟨by simp, by simp, by simp, by simp⟩, Or.inr (Or.inl ⟨rfl, rfl, rfl, ?_⟩)⟩
          rw [hb, hr0]
          simp [leFixed]
    next hne =>
      split at h
      · simp at h
      next vout1 r1 h1 =>
        simp only [Option.some.injEq, Prod.mk.injEq] at h
        obtain ⟨rfl, rfl, rfl, rfl⟩ := h
        obtain ⟨hr0, hl3, hall3⟩ := readVector_sound readTxOut_sound _ _ _ h1
        refine ⟨⟨hl1, hall1, hl3, hall3⟩, Or.inl ⟨rfl, by simpa using hne, ?_⟩⟩
        rw [hb, hr0]
        simp

theorem maxSize_eq : Spec.maxSize = MAX_SIZE := rfl

/-- Soundness of the parser: an accepted stream is the serialisation of the result followed by the unread rest,
    and the result is well formed. -/
theorem parseTx_sound (b rest : Bytes) (tx : Tx) (h : parseTx b = some (tx, rest)) :
    b = serTx tx true ++ rest ∧ Spec.WellFormed tx := by
  unfold parseTx at h
  split at h
  · simp at h
  next ver r0 hver =>
    obtain ⟨hb, hv⟩ := readLE_sound 4 _ _ _ hver
    split at h
    · simp at h
    next flags vin vout r hio =>
      obtain ⟨⟨hl1, hall1, hl2, hall2⟩, hcases⟩ := readInsOuts_sound _ _ _ _ _ hio
      simp only at h
      split at h
      · simp at h
      next flags' vin' r' hwit =>
        split at h
        · simp at h
        next hfl0 =>
          have hfl0' : flags' = 0 := by simpa using hfl0
          subst hfl0'
          split at h
          · simp at h
          next lock r'' hlock =>
            simp only [Option.some.injEq, Prod.mk.injEq] at h
            obtain ⟨rfl, rfl⟩ := h
            obtain ⟨hr', hlk⟩ := readLE_sound 4 _ _ _ hlock
            have hlk' : lock < 2 ^ 32 := by simpa using hlk
            have hverR := toSigned32_range ver hv
            split at hwit
            next hodd =>
              -- extended format with witness stacks
              split at hwit
              · simp at hwit
              next vin2 r2 hrw =>
                split at hwit
                next hhas =>
                  simp only [Option.some.injEq, Prod.mk.injEq] at hwit
                  obtain ⟨hf1, rfl, rfl⟩ := hwit
                  have hflags : flags = 1 := by omega
                  subst hflags
                  obtain ⟨hr, hmap, hwok⟩ := readWitnesses_sound _ _ _ _ hrw
                  have hsv : serVector serTxIn vin2 = serVector serTxIn vin := by
                    rw [← serVector_strip vin2, hmap, serVector_strip]
                  have hlen : vin2.length = vin.length := by
                    have := congrArg List.length hmap; simpa using this
                  rcases hcases with ⟨hf, _⟩ | ⟨hf, _⟩ | ⟨_, _, hr0⟩
                  · simp at hf
                  · simp at hf
                  · constructor
                    · rw [hb, hr0, hr, hr']
                      simp [serTx, hasWitness, hhas, serVector_nil, hsv, ofSigned_toSigned32 ver hv]
                    · refine ⟨hverR, hlk', by rw [maxSize_eq]; show vin2.length ≤ MAX_SIZE; omega,
                        by rw [maxSize_eq]; exact hl2, ?_, ?_, ?_⟩
                      · intro i hi
                        have hs : strip i ∈ vin.map strip := by rw [← hmap]; exact List.mem_map_of_mem hi
                        obtain ⟨i0, hi0, he⟩ := List.mem_map.mp hs
                        obtain ⟨⟨a1, a2, a3, a4⟩, _⟩ := hall1 i0 hi0
                        have e1 : i.prevout = i0.prevout := by
                          have := congrArg TxIn.prevout he; simpa [strip] using this.symm
                        have e2 : i.scriptSig = i0.scriptSig := by
                          have := congrArg TxIn.scriptSig he; simpa [strip] using this.symm
                        have e3 : i.sequence = i0.sequence := by
                          have := congrArg TxIn.sequence he; simpa [strip] using this.symm
                        obtain ⟨w1, w2⟩ := hwok i hi
                        rw [maxSize_eq, e1, e2, e3]
                        exact ⟨a1, a2, a3, a4, w1, w2⟩
                      · intro o ho
                        rw [maxSize_eq]; exact hall2 o ho
                      · intro hnil
                        exact absurd hnil (hasWitnessIns_ne_nil _ hhas)
                · simp at hwit
            next heven =>
              simp only [Option.some.injEq, Prod.mk.injEq] at hwit
              obtain ⟨rfl, rfl, rfl⟩ := hwit
              have hnw : hasWitnessIns vin = false := hasWitnessIns_false vin (fun i hi => (hall1 i hi).2)
              have hwf : ∀ i ∈ vin,
                  i.prevout.hash.length = 32 ∧ i.prevout.n < 2 ^ 32 ∧ i.scriptSig.length ≤ Spec.maxSize ∧
                  i.sequence < 2 ^ 32 ∧ i.witness.length ≤ Spec.maxSize ∧ ∀ w ∈ i.witness, w.length ≤ Spec.maxSize := by
                intro i hi
                obtain ⟨⟨a1, a2, a3, a4⟩, a5⟩ := hall1 i hi
                rw [maxSize_eq, a5]
                exact ⟨a1, a2, a3, a4, by simp, by simp⟩
              rcases hcases with ⟨_, hne, hr0⟩ | ⟨_, hv0, ho0, hr0⟩ | ⟨hf, _⟩
              · constructor
                · rw [hb, hr0, hr']
                  simp [serTx, hasWitness, hnw, ofSigned_toSigned32 ver hv]
                · exact ⟨hverR, hlk', by rw [maxSize_eq]; exact hl1, by rw [maxSize_eq]; exact hl2, hwf,
                    fun o ho => by rw [maxSize_eq]; exact hall2 o ho, fun hnil => absurd hnil hne⟩
              · subst hv0; subst ho0
                constructor
                · rw [hb, hr0, hr']
                  simp [serTx, hasWitness, hnw, serVector_nil, ofSigned_toSigned32 ver hv]
                · exact ⟨hverR, hlk', by simp, by simp, by simp, by simp, fun _ => rfl⟩
              · exact absurd rfl hf

/-- **Decode then encode reproduces the identical bytes** (for every byte string): whatever
    `UnserializeTransaction` accepts is exactly `SerializeTransaction` of its result, followed by the unread rest. -/
theorem C13_parse_ser (b rest : Bytes) (tx : Tx) (h : parseTx b = some (tx, rest)) :
    b = serTx tx true ++ rest :=
  (parseTx_sound b rest tx h).1

/-- every parsed transaction is well formed -/
theorem parseTx_wellFormed (b rest : Bytes) (tx : Tx) (h : parseTx b = some (tx, rest)) : Spec.WellFormed tx :=
  (parseTx_sound b rest tx h).2

/-! ## completeness of the parser -/

theorem strip_strip (vin : List TxIn) : (vin.map strip).map strip = vin.map strip := by
  simp [List.map_map, Function.comp_def, strip]

theorem readIns_complete (vin : List TxIn) (r : Bytes) (hl : vin.length ≤ MAX_SIZE) (hall : ∀ i ∈ vin, InOk i) :
    readVector readTxIn (serVector serTxIn vin ++ r) = some (vin.map strip, r) := by
  rw [← serVector_strip]
  apply readVector_complete readTxIn_complete
  refine ⟨by simpa using hl, ?_⟩
  intro i hi
  obtain ⟨i0, hi0, rfl⟩ := List.mem_map.mp hi
  exact ⟨hall i0 hi0, rfl⟩

theorem readOuts_complete (vout : List TxOut) (r : Bytes) (hl : vout.length ≤ MAX_SIZE) (hall : ∀ o ∈ vout, OutOk o) :
    readVector readTxOut (serVector serTxOut vout ++ r) = some (vout, r) :=
  readVector_complete readTxOut_complete vout r ⟨hl, hall⟩

theorem readLE1 (c : UInt8) (r : Bytes) : readLE 1 (c :: r) = some (c.toNat, r) := by
  simp [readLE, readBytes]

theorem readInsOuts_basic (vin : List TxIn) (vout : List TxOut) (r : Bytes) (hne : vin ≠ [])
    (hl1 : vin.length ≤ MAX_SIZE) (hall1 : ∀ i ∈ vin, InOk i)
    (hl2 : vout.length ≤ MAX_SIZE) (hall2 : ∀ o ∈ vout, OutOk o) :
    readInsOuts (serVector serTxIn vin ++ (serVector serTxOut vout ++ r)) = some (0, vin.map strip, vout, r) := by
  unfold readInsOuts
  rw [readIns_complete vin _ hl1 hall1]
  have : (vin.map strip).isEmpty = false := by cases vin <;> simp_all
  simp only [this]
  rw [readOuts_complete vout r hl2 hall2]
  simp

theorem readInsOuts_empty (r : Bytes) : readInsOuts (0 :: 0 :: r) = some (0, [], [], r) := by
  unfold readInsOuts
  have h := readIns_complete [] (0 :: r) (by simp) (by simp)
  rw [serVector_nil] at h
  simp only [List.cons_append, List.nil_append, List.map_nil] at h
  rw [h]
  simp [readLE1]

theorem readInsOuts_extended (vin : List TxIn) (vout : List TxOut) (r : Bytes)
    (hl1 : vin.length ≤ MAX_SIZE) (hall1 : ∀ i ∈ vin, InOk i)
    (hl2 : vout.length ≤ MAX_SIZE) (hall2 : ∀ o ∈ vout, OutOk o) :
    readInsOuts (0 :: 1 :: (serVector serTxIn vin ++ (serVector serTxOut vout ++ r)))
      = some (1, vin.map strip, vout, r) := by
  unfold readInsOuts
  have h := readIns_complete [] (1 :: (serVector serTxIn vin ++ (serVector serTxOut vout ++ r))) (by simp) (by simp)
  rw [serVector_nil] at h
  simp only [List.cons_append, List.nil_append, List.map_nil] at h
  rw [h]
  simp only [List.isEmpty_nil, if_true, readLE1]
  have : (1 : UInt8).toNat = 1 := rfl
  simp only [this]
  rw [readIns_complete vin _ hl1 hall1]
  simp only
  rw [readOuts_complete vout r hl2 hall2]
  simp

theorem witness_nil_of_hasWitness_false (tx : Tx) (h : hasWitness tx = false) : ∀ i ∈ tx.vin, i.witness = [] := by
  simp only [hasWitness, hasWitnessIns, List.any_eq_false] at h
  intro i hi
  have := h i hi
  simpa using this

/-- **Lossless: encode then decode** gives back the same transaction and leaves the rest of the stream,
    for every well-formed transaction (any number and size of inputs, outputs, witness items up to `MAX_SIZE`). -/
theorem C13_ser_parse (tx : Tx) (h : Spec.WellFormed tx) (rest : Bytes) :
    parseTx (serTx tx true ++ rest) = some (tx, rest) := by
  obtain ⟨hver, hlock, hl1, hl2, hin, hout, hemp⟩ := h
  rw [maxSize_eq] at hl1 hl2
  have hall1 : ∀ i ∈ tx.vin, InOk i := by
    intro i hi
    obtain ⟨a1, a2, a3, a4, _, _⟩ := hin i hi
    exact ⟨a1, a2, by rw [← maxSize_eq]; exact a3, a4⟩
  have hallw : ∀ i ∈ tx.vin, WitOk i.witness := by
    intro i hi
    obtain ⟨_, _, _, _, a5, a6⟩ := hin i hi
    rw [maxSize_eq] at a5 a6
    exact ⟨a5, a6⟩
  have hall2 : ∀ o ∈ tx.vout, OutOk o := by
    intro o ho
    have := hout o ho
    rw [maxSize_eq] at this
    exact this
  have hv := readLE_complete 4 (ofSigned 32 tx.version)
  have hlk := readLE_complete 4 tx.lockTime rest (by simpa using hlock)
  cases tx with
  | mk version vin vout lockTime =>
  simp only at *
  cases hw : hasWitness ⟨version, vin, vout, lockTime⟩ with
  | false =>
    have hnil := witness_nil_of_hasWitness_false _ hw
    simp only at hnil
    have hstrip := strip_of_witness_nil vin hnil
    have hnw : hasWitnessIns vin = false := hw
    by_cases hne : vin = []
    · have hvo := hemp hne
      subst hne; subst hvo
      have e : serTx ⟨version, [], [], lockTime⟩ true ++ rest
          = leFixed 4 (ofSigned 32 version) ++ (0 :: 0 :: (leFixed 4 lockTime ++ rest)) := by
        simp [serTx, hw, serVector_nil]
      rw [e]
      unfold parseTx
      rw [hv _ (ofSigned32_lt _)]
      simp only
      rw [readInsOuts_empty]
      simp only [Nat.zero_mod, Nat.zero_ne_one, if_false]
      rw [hlk]
      simp [toSigned_ofSigned32 version hver]
    · have e : serTx ⟨version, vin, vout, lockTime⟩ true ++ rest
          = leFixed 4 (ofSigned 32 version)
              ++ (serVector serTxIn vin ++ (serVector serTxOut vout ++ (leFixed 4 lockTime ++ rest))) := by
        simp [serTx, hw]
      rw [e]
      unfold parseTx
      rw [hv _ (ofSigned32_lt _)]
      simp only
      rw [readInsOuts_basic vin vout _ hne hl1 hall1 hl2 hall2]
      simp only [Nat.zero_mod, Nat.zero_ne_one, if_false]
      rw [hlk]
      simp [toSigned_ofSigned32 version hver, hstrip]
  | true =>
    have hhas : hasWitnessIns vin = true := hw
    have e : serTx ⟨version, vin, vout, lockTime⟩ true ++ rest
        = leFixed 4 (ofSigned 32 version)
            ++ (0 :: 1 :: (serVector serTxIn vin ++ (serVector serTxOut vout
                ++ (vin.flatMap serWitness ++ (leFixed 4 lockTime ++ rest))))) := by
      simp [serTx, hw, serVector_nil]
    rw [e]
    unfold parseTx
    rw [hv _ (ofSigned32_lt _)]
    simp only
    rw [readInsOuts_extended vin vout _ hl1 hall1 hl2 hall2]
    simp only [Nat.one_mod, if_true]
    rw [readWitnesses_complete vin (vin.map strip) _ (strip_strip vin) hallw]
    simp only [hhas, if_true]
    rw [hlk]
    simp [toSigned_ofSigned32 version hver]

/-! ## the serialiser is the specified encoding -/

theorem varInt_eq (n : Nat) : Spec.varInt n = compactSize n := by
  unfold Spec.varInt compactSize
  simp only [Nat.reducePow]
  have e1 : (n < 65536) = (n ≤ 0xffff) := by simp only [eq_iff_iff]; omega
  have e2 : (n < 4294967296) = (n ≤ 0xffffffff) := by simp only [eq_iff_iff]; omega
  simp only [e1, e2]

theorem twos_eq (bits : Nat) (v : Int) : Spec.twos bits v = ofSigned bits v := by
  simp [Spec.twos, ofSigned, Int.natCast_pow]

theorem encodeBytes_eq : Spec.encodeBytes = serVarBytes := by
  funext x; simp [Spec.encodeBytes, serVarBytes, varInt_eq]

theorem encodeList_eq {α : Type} (f : α → Bytes) (xs : List α) : Spec.encodeList f xs = serVector f xs := by
  simp [Spec.encodeList, serVector, varInt_eq, List.flatMap_def]

theorem encodeIn_eq : Spec.encodeIn = serTxIn := by
  funext i; simp [Spec.encodeIn, serTxIn, serOutPoint, encodeBytes_eq]

theorem encodeOut_eq : Spec.encodeOut = serTxOut := by
  funext o; simp [Spec.encodeOut, serTxOut, encodeBytes_eq, twos_eq]

theorem encodeWitness_eq : Spec.encodeWitness = serWitness := by
  funext i; simp [Spec.encodeWitness, serWitness, encodeBytes_eq, encodeList_eq]

theorem carriesWitness_iff (tx : Tx) : Spec.carriesWitness tx ↔ hasWitness tx = true := by
  simp [Spec.carriesWitness, hasWitness, hasWitnessIns, List.any_eq_true]

/-- `SerializeTransaction` produces exactly the specified encoding, with and without witness data, for every
    transaction value (no size hypotheses). -/
theorem serTx_eq_encodeTx (tx : Tx) (w : Bool) : serTx tx w = Spec.encodeTx tx w := by
  unfold Spec.encodeTx serTx
  simp only [carriesWitness_iff, encodeList_eq, encodeIn_eq, encodeOut_eq, encodeWitness_eq, twos_eq]
  by_cases hw : w = true ∧ hasWitness tx = true
  · obtain ⟨h1, h2⟩ := hw
    simp [h1, h2, serVector_nil, List.flatMap_def]
  · have : (w && hasWitness tx) = false := by
      cases w <;> cases h : hasWitness tx <;> simp_all
    simp [hw, this]

/-- the model's transaction hash is the specified txid: the double SHA-256 of the encoding without witness -/
theorem txid_def (hash256 : Bytes → Bytes) (tx : Tx) : txHash hash256 tx = hash256 (Spec.encodeTx tx false) := by
  rw [txHash, serTx_eq_encodeTx]

theorem txid_eq_txidOf (hash256 : Bytes → Bytes) (tx : Tx) : txHash hash256 tx = Spec.txidOf hash256 tx :=
  txid_def hash256 tx

/-! ## truncation, uniqueness -/

/-- **No proper prefix of the consumed bytes is accepted.**  If `b` parses (leaving `rest` unread), then cutting `b`
    anywhere inside the consumed part makes the parser fail (the C++ throws `std::ios_base::failure`); it never
    yields a different, shorter transaction. -/
theorem C13_truncation_rejected_general (b rest : Bytes) (tx : Tx) (h : parseTx b = some (tx, rest))
    (k : Nat) (hk : k < b.length - rest.length) : parseTx (b.take k) = none := by
  cases hp : parseTx (b.take k) with
  | none => rfl
  | some res =>
    obtain ⟨tx', r⟩ := res
    obtain ⟨hb', hwf⟩ := parseTx_sound _ _ _ hp
    have hb : b = serTx tx' true ++ (r ++ b.drop k) := by
      rw [← List.append_assoc, ← hb', List.take_append_drop]
    have h2 := C13_ser_parse tx' hwf (r ++ b.drop k)
    rw [← hb, h] at h2
    simp only [Option.some.injEq, Prod.mk.injEq] at h2
    have hlen := congrArg List.length h2.2
    simp only [List.length_append, List.length_drop] at hlen
    omega

/-- the statement for a completely consumed stream (the case `parse_tx` accepts) -/
theorem C13_truncation_rejected (b : Bytes) (tx : Tx) (h : parseTx b = some (tx, [])) (k : Nat) (hk : k < b.length) :
    ∀ tx' r, parseTx (b.take k) = some (tx', r) → False := by
  intro tx' r hp
  have := C13_truncation_rejected_general b [] tx h k (by simpa using hk)
  rw [this] at hp
  simp at hp

/-- the encoding determines the transaction (on well-formed transactions) -/
theorem serTx_injective (tx tx' : Tx) (h : Spec.WellFormed tx) (h' : Spec.WellFormed tx')
    (e : serTx tx true = serTx tx' true) : tx = tx' := by
  have h1 := C13_ser_parse tx h []
  have h2 := C13_ser_parse tx' h' []
  rw [e, h2] at h1
  simp only [Option.some.injEq, Prod.mk.injEq] at h1
  exact h1.1.symm

/-- parser and serialiser are mutually inverse bijections between accepted streams and well-formed transactions -/
theorem C13_bijection (b : Bytes) (tx : Tx) :
    parseTx b = some (tx, []) ↔ (Spec.WellFormed tx ∧ b = Spec.encodeTx tx true) := by
  constructor
  · intro h
    obtain ⟨hb, hwf⟩ := parseTx_sound b [] tx h
    exact ⟨hwf, by rw [hb, serTx_eq_encodeTx]; simp⟩
  · rintro ⟨hwf, rfl⟩
    have := C13_ser_parse tx hwf []
    rw [← serTx_eq_encodeTx]
    simpa using this

/-! ## `parse_tx` -/

/-- What `parse_tx` accepts: the text is hex (white space between byte pairs allowed) whose bytes are exactly the
    encoding of the returned, well-formed transaction; in particular nothing is left unread. -/
theorem parseTxHex_sound (text : Bytes) (tx : Tx) (n : Nat) (h : parseTxHex text = some (tx, n)) :
    n = 0 ∧ Spec.WellFormed tx ∧ tryHex (cstr text) = some (Spec.encodeTx tx true) := by
  unfold parseTxHex at h
  split at h
  next tx1 n1 hu =>
    split at h
    next hn =>
      simp only [Option.some.injEq, Prod.mk.injEq] at h
      obtain ⟨rfl, rfl⟩ := h
      subst hn
      unfold unserializeHex at hu
      split at hu
      · simp at hu
      next data hd =>
        split at hu
        · simp at hu
        next tx2 rest hp =>
          simp only [Option.some.injEq, Prod.mk.injEq] at hu
          obtain ⟨rfl, hr⟩ := hu
          have hr' : rest = [] := List.eq_nil_of_length_eq_zero hr
          subst hr'
          obtain ⟨hwf, hb⟩ := (C13_bijection data tx2).mp hp
          exact ⟨rfl, hwf, by rw [hd, hb]⟩
    · simp at h
  · simp at h

/-- and conversely: hex text of the encoding of a well-formed transaction is accepted and yields that transaction -/
theorem parseTxHex_complete (text : Bytes) (tx : Tx) (hwf : Spec.WellFormed tx)
    (h : tryHex (cstr text) = some (Spec.encodeTx tx true)) : parseTxHex text = some (tx, 0) := by
  have hp := (C13_bijection (Spec.encodeTx tx true) tx).mpr ⟨hwf, rfl⟩
  simp [parseTxHex, unserializeHex, h, hp]

/-! ## amounts -/

/-- the digit fold of `Spec.decVal` from an arbitrary start value -/
def decValFrom (acc : Nat) (ds : Bytes) : Nat := ds.foldl (fun a c => a * 10 + (c.toNat - 48)) acc

theorem decVal_eq (ds : Bytes) : Spec.decVal ds = decValFrom 0 ds := by
  unfold Spec.decVal decValFrom; rfl

theorem decValFrom_cons (acc : Nat) (d : UInt8) (ds : Bytes) :
    decValFrom acc (d :: ds) = decValFrom (acc * 10 + (d.toNat - 48)) ds := by
  simp only [decValFrom, List.foldl_cons]

theorem decValFrom_eq (acc : Nat) (ds : Bytes) : decValFrom acc ds = acc * 10 ^ ds.length + decValFrom 0 ds := by
  induction ds generalizing acc with
  | nil => simp [decValFrom]
  | cons d ds ih =>
    rw [decValFrom_cons, ih, decValFrom_cons, ih (0 * 10 + (d.toNat - 48))]
    simp only [List.length_cons, Nat.pow_succ, Nat.zero_mul, Nat.zero_add]
    rw [Nat.add_mul, Nat.add_assoc, Nat.mul_assoc, Nat.mul_comm 10]

theorem decValFrom_ge (acc : Nat) (ds : Bytes) : acc ≤ decValFrom acc ds := by
  rw [decValFrom_eq]
  have : 1 ≤ 10 ^ ds.length := Nat.one_le_pow _ _ (by omega)
  calc acc = acc * 1 := by omega
    _ ≤ acc * 10 ^ ds.length := Nat.mul_le_mul_left _ this
    _ ≤ _ := Nat.le_add_right _ _

theorem ub10 : UPPER_BOUND / 10 = 99999999999999999 := by decide

theorem mulTen_spec (k n : Nat) (h : n * 10 ^ k < 10 ^ 18) :
    mulTen k (n : Int) = some ((n * 10 ^ k : Nat) : Int) := by
  induction k generalizing n with
  | zero => simp [mulTen]
  | succ k ih =>
    have hp : 1 ≤ 10 ^ k := Nat.one_le_pow _ _ (by omega)
    have h1 : n * 10 ≤ n * 10 ^ (k + 1) := by
      rw [Nat.pow_succ]; exact Nat.mul_le_mul_left _ (by omega)
    have hn : ¬ ((n : Int) > UPPER_BOUND / 10) := by rw [ub10]; omega
    have e : n * 10 ^ (k + 1) = (n * 10) * 10 ^ k := by
      rw [Nat.pow_succ, Nat.mul_assoc, Nat.mul_comm 10]
    simp only [mulTen, hn, if_false]
    have := ih (n * 10) (by rw [← e]; exact h)
    rw [e, ← this]
    simp

theorem mantissaDigits_spec (ds rest : Bytes) (hds : ∀ c ∈ ds, isDigit c = true)
    (hrest : rest = [] ∨ ∃ c r, rest = c :: r ∧ isDigit c = false)
    (mn tz cnt : Nat) (hb : decValFrom (mn * 10 ^ tz) ds < 10 ^ 18) :
    ∃ mn' tz' : Nat, mantissaDigits (ds ++ rest) (mn : Int) tz cnt = some ((mn' : Int), tz', cnt + ds.length, rest)
      ∧ mn' * 10 ^ tz' = decValFrom (mn * 10 ^ tz) ds ∧ (mn' = 0 → mn = 0 ∧ tz' = tz + ds.length) := by
  induction ds generalizing mn tz cnt with
  | nil =>
    refine ⟨mn, tz, ?_, rfl, fun h => ⟨h, rfl⟩⟩
    rcases hrest with rfl | ⟨c, r, rfl, hc⟩
    · simp [mantissaDigits]
    · simp [mantissaDigits, hc]
  | cons d ds ih =>
    have hd : isDigit d = true := hds d (by simp)
    have hds' : ∀ c ∈ ds, isDigit c = true := fun c hc => hds c (by simp [hc])
    have hd' : 48 ≤ d.toNat ∧ d.toNat ≤ 57 := by simpa [isDigit] using hd
    rw [decValFrom_cons] at hb
    simp only [List.cons_append, mantissaDigits, hd, if_true]
    by_cases h0 : d.toNat = 48
    · -- a zero digit: one more trailing zero
      have e : mn * 10 ^ tz * 10 + (d.toNat - 48) = mn * 10 ^ (tz + 1) := by
        rw [h0, Nat.pow_succ, Nat.mul_assoc]; simp
      rw [e] at hb
      obtain ⟨mn', tz', h1, h2, h3⟩ := ih hds' mn (tz + 1) (cnt + 1) hb
      refine ⟨mn', tz', ?_, ?_, ?_⟩
      · simp only [processMantissaDigit, h0, if_true]
        rw [h1]; simp; omega
      · rw [decValFrom_cons, e]; exact h2
      · intro hz; obtain ⟨a, b⟩ := h3 hz; exact ⟨a, by simp; omega⟩
    · -- a non-zero digit: the pending zeros and the digit are shifted in
      have hge := decValFrom_ge (mn * 10 ^ tz * 10 + (d.toNat - 48)) ds
      have e : mn * 10 ^ tz * 10 = mn * 10 ^ (tz + 1) := by rw [Nat.pow_succ, Nat.mul_assoc]
      have hm := mulTen_spec (tz + 1) mn (by rw [← e]; omega)
      have hb' : decValFrom ((mn * 10 ^ (tz + 1) + (d.toNat - 48)) * 10 ^ 0) ds < 10 ^ 18 := by
        simpa [e] using hb
      obtain ⟨mn', tz', h1, h2, h3⟩ := ih hds' (mn * 10 ^ (tz + 1) + (d.toNat - 48)) 0 (cnt + 1) hb'
      refine ⟨mn', tz', ?_, ?_, ?_⟩
      · simp only [processMantissaDigit, h0, if_false, hm]
        have ec : ((mn * 10 ^ (tz + 1) : Nat) : Int) + ((d.toNat : Int) - 48)
            = ((mn * 10 ^ (tz + 1) + (d.toNat - 48) : Nat) : Int) := by omega
        rw [ec, h1]; simp; omega
      · rw [decValFrom_cons, h2, e]; simp
      · intro hz; obtain ⟨a, _⟩ := h3 hz; omega

/-- a signed magnitude -/
def sgn (neg : Bool) (n : Nat) : Int := if neg then -(n : Int) else (n : Int)

theorem scaleTen_spec (k n : Nat) (neg : Bool) (h : n * 10 ^ k < 10 ^ 18) :
    scaleTen k (sgn neg n) = some (sgn neg (n * 10 ^ k)) := by
  induction k generalizing n with
  | zero => simp [scaleTen]
  | succ k ih =>
    have hp : 1 ≤ 10 ^ k := Nat.one_le_pow _ _ (by omega)
    have h1 : n * 10 ≤ n * 10 ^ (k + 1) := by
      rw [Nat.pow_succ]; exact Nat.mul_le_mul_left _ (by omega)
    have e : n * 10 ^ (k + 1) = (n * 10) * 10 ^ k := by
      rw [Nat.pow_succ, Nat.mul_assoc, Nat.mul_comm 10]
    have hn : (decide (sgn neg n > UPPER_BOUND / 10) || decide (sgn neg n < -(UPPER_BOUND / 10))) = false := by
      rw [ub10]; cases neg <;> simp [sgn] <;> omega
    have hs : sgn neg n * 10 = sgn neg (n * 10) := by
      cases neg <;> simp [sgn] <;> omega
    simp only [scaleTen, hn]
    rw [hs, e]
    exact ih (n * 10) (by rw [← e]; exact h)

theorem ub_val : UPPER_BOUND = 999999999999999999 := by decide

theorem pfpFinal_spec (neg : Bool) (mn tz fl v : Nat) (hfl : fl ≤ 8)
    (hv : mn * 10 ^ tz * 10 ^ (8 - fl) = v) (hlt : v < 10 ^ 18) (hz : mn = 0 → tz = fl) :
    pfpFinal neg (mn : Int) tz fl 0 false 8 = some (sgn neg v) := by
  have he : mn * 10 ^ (tz + (8 - fl)) = v := by rw [Nat.pow_add, ← Nat.mul_assoc]; exact hv
  have hk : tz + (8 - fl) < 18 := by
    by_cases h0 : mn = 0
    · have := hz h0; omega
    · apply Classical.byContradiction
      intro hge
      have h18 : 10 ^ 18 ≤ 10 ^ (tz + (8 - fl)) := Nat.pow_le_pow_right (by omega) (by omega)
      have : 10 ^ (tz + (8 - fl)) ≤ mn * 10 ^ (tz + (8 - fl)) := Nat.le_mul_of_pos_left _ (by omega)
      omega
  have hsc := scaleTen_spec (tz + (8 - fl)) mn neg (by rw [he]; exact hlt)
  rw [he] at hsc
  have hnat : ((0 : Int) - (fl : Int) + (tz : Int) + ((8 : Nat) : Int)).toNat = tz + (8 - fl) := by omega
  have hm : (if neg = true then -(mn : Int) else (mn : Int)) = sgn neg mn := rfl
  have hfin : (decide (sgn neg v > UPPER_BOUND) || decide (sgn neg v < -UPPER_BOUND)) = false := by
    rw [ub_val]; cases neg <;> simp [sgn] <;> omega
  unfold pfpFinal
  simp only [Bool.false_eq_true, if_false, hm, hnat, hsc, hfin]
  have c1 : ¬ ((0 : Int) - (fl : Int) + (tz : Int) + ((8 : Nat) : Int) < 0) := by omega
  have c2 : ¬ ((0 : Int) - (fl : Int) + (tz : Int) + ((8 : Nat) : Int) ≥ 18) := by omega
  simp only [c1, c2, if_false]

theorem pfpInt_spec (ip rest : Bytes) (h1 : ip ≠ []) (h2 : ∀ c ∈ ip, isDigit c = true)
    (h3 : ip.head? = some 48 → ip.length = 1)
    (hrest : rest = [] ∨ ∃ c r, rest = c :: r ∧ isDigit c = false) (hb : decValFrom 0 ip < 10 ^ 18) :
    ∃ mn tz : Nat, pfpInt (ip ++ rest) = some ((mn : Int), tz, rest) ∧ mn * 10 ^ tz = decValFrom 0 ip
      ∧ (mn = 0 → tz = 0) := by
  cases ip with
  | nil => exact absurd rfl h1
  | cons c r =>
    have hc : 48 ≤ c.toNat ∧ c.toNat ≤ 57 := by simpa [isDigit] using h2 c (by simp)
    by_cases h0 : c.toNat = 48
    · have hc48 : c = 48 := u8_ext h0
      have hr : r = [] := by
        have := h3 (by simp [hc48]); simpa using this
      subst hr
      refine ⟨0, 0, ?_, ?_, fun _ => rfl⟩
      · simp [pfpInt, h0]
      · simp [decValFrom, h0]
    · have hb' : decValFrom (0 * 10 ^ 0) (c :: r) < 10 ^ 18 := by simpa using hb
      obtain ⟨mn, tz, hm, hv, _⟩ := mantissaDigits_spec (c :: r) rest h2 hrest 0 0 0 hb'
      have hne : mn ≠ 0 := by
        intro hz
        rw [hz, decValFrom_cons] at hv
        have := decValFrom_ge (0 * 10 ^ 0 * 10 + (c.toNat - 48)) r
        omega
      refine ⟨mn, tz, ?_, by simpa using hv, fun hz => absurd hz hne⟩
      have hrange : (decide (49 ≤ c.toNat) && decide (c.toNat ≤ 57)) = true := by simp; omega
      simp only [List.cons_append] at hm
      simp only [pfpInt, List.cons_append, h0, if_false, hrange, if_true]
      have : ((0 : Nat) : Int) = 0 := rfl
      rw [this] at hm
      rw [hm]

theorem pfpFrac_spec (mn tz : Nat) (fp : Bytes) (hasDot : Bool) (hdot : hasDot = true → fp ≠ [])
    (hnd : hasDot = false → fp = []) (h5 : ∀ c ∈ fp, isDigit c = true)
    (hb : decValFrom (mn * 10 ^ tz) fp < 10 ^ 18) :
    ∃ mn' tz' : Nat, pfpFrac (mn : Int) tz (if hasDot then 46 :: fp else []) = some ((mn' : Int), tz', fp.length, [])
      ∧ mn' * 10 ^ tz' = decValFrom (mn * 10 ^ tz) fp ∧ (mn' = 0 → mn = 0 ∧ tz' = tz + fp.length) := by
  cases hasDot with
  | false =>
    have := hnd rfl
    subst this
    exact ⟨mn, tz, by simp [pfpFrac], by simp [decValFrom], fun h => ⟨h, rfl⟩⟩
  | true =>
    cases fp with
    | nil => exact absurd rfl (hdot rfl)
    | cons d fr =>
      have hd : isDigit d = true := h5 d (by simp)
      obtain ⟨mn', tz', hm, hv, hz⟩ := mantissaDigits_spec (d :: fr) [] h5 (Or.inl rfl) mn tz 0 hb
      refine ⟨mn', tz', ?_, hv, hz⟩
      simp only [List.append_nil, Nat.zero_add] at hm
      simp [pfpFrac, hd, hm]

theorem pfpSign_spec (neg : Bool) (t : Bytes) (ht : ∀ c r, t = c :: r → c ≠ 45) :
    pfpSign ((if neg then [45] else []) ++ t) = (neg, t) := by
  cases neg with
  | true => simp [pfpSign]
  | false =>
    simp only [Bool.false_eq_true, if_false, List.nil_append]
    unfold pfpSign
    split
    next x => exact absurd rfl (ht 45 x rfl)
    · rfl

theorem pfp_core (neg hasDot : Bool) (ip fp : Bytes) (h1 : ip ≠ []) (h2 : ∀ c ∈ ip, isDigit c = true)
    (h3 : ip.head? = some 48 → ip.length = 1) (hdot : hasDot = true → fp ≠ []) (hnd : hasDot = false → fp = [])
    (h5 : ∀ c ∈ fp, isDigit c = true) (h6 : fp.length ≤ 8)
    (hlt : decValFrom 0 ip * 10 ^ 8 + decValFrom 0 fp * 10 ^ (8 - fp.length) < 10 ^ 18) :
    parseFixedPoint ((if neg then [45] else []) ++ (ip ++ (if hasDot then 46 :: fp else []))) 8
      = some (sgn neg (decValFrom 0 ip * 10 ^ 8 + decValFrom 0 fp * 10 ^ (8 - fp.length))) := by
  have hsign := pfpSign_spec neg (ip ++ (if hasDot then 46 :: fp else [])) (by
    intro c r heq
    cases ip with
    | nil => exact absurd rfl h1
    | cons c' r' =>
      simp only [List.cons_append, List.cons.injEq] at heq
      have : 48 ≤ c'.toNat ∧ c'.toNat ≤ 57 := by simpa [isDigit] using h2 c' (by simp)
      intro h45
      have e : c' = 45 := by rw [heq.1, h45]
      rw [e] at this
      simp at this)
  have hrest : (if hasDot then 46 :: fp else []) = [] ∨
      ∃ c r, (if hasDot then 46 :: fp else []) = c :: r ∧ isDigit c = false := by
    cases hasDot with
    | false => exact Or.inl rfl
    | true => exact Or.inr ⟨46, fp, rfl, by decide⟩
  have hpow : 10 ^ 8 = 10 ^ fp.length * 10 ^ (8 - fp.length) := by
    rw [← Nat.pow_add]; congr 1; omega
  have hp1 : 1 ≤ 10 ^ (8 - fp.length) := Nat.one_le_pow _ _ (by omega)
  have hp2 : 1 ≤ 10 ^ 8 := by omega
  have hipb : decValFrom 0 ip < 10 ^ 18 := by
    have : decValFrom 0 ip ≤ decValFrom 0 ip * 10 ^ 8 := Nat.le_mul_of_pos_right _ (by omega)
    omega
  obtain ⟨mn1, tz1, hint, hv1, hz1⟩ := pfpInt_spec ip _ h1 h2 h3 hrest hipb
  have hT : (decValFrom 0 ip * 10 ^ fp.length + decValFrom 0 fp) * 10 ^ (8 - fp.length)
      = decValFrom 0 ip * 10 ^ 8 + decValFrom 0 fp * 10 ^ (8 - fp.length) := by
    rw [Nat.add_mul, Nat.mul_assoc, ← hpow]
  have hfb : decValFrom (mn1 * 10 ^ tz1) fp < 10 ^ 18 := by
    rw [hv1, decValFrom_eq]
    have : decValFrom 0 ip * 10 ^ fp.length + decValFrom 0 fp
        ≤ (decValFrom 0 ip * 10 ^ fp.length + decValFrom 0 fp) * 10 ^ (8 - fp.length) :=
      Nat.le_mul_of_pos_right _ (by omega)
    omega
  obtain ⟨mn2, tz2, hfrac, hv2, hz2⟩ := pfpFrac_spec mn1 tz1 fp hasDot hdot hnd h5 hfb
  have hfin := pfpFinal_spec neg mn2 tz2 fp.length _ h6
    (by rw [hv2, hv1, decValFrom_eq, hT]) hlt
    (by intro h0; obtain ⟨a, b⟩ := hz2 h0; have := hz1 a; omega)
  unfold parseFixedPoint
  rw [hsign]
  simp only [hint, hfrac]
  simp [pfpExp, hfin]

theorem isDecDigit_eq : Spec.isDecDigit = isDigit := rfl

/-- **Amounts are converted exactly.**  For every string in the grammar of `Spec.amountOf`
    (`[-] (0 | [1-9][0-9]*) [. [0-9]{1,8}]`, value below 10^18 satoshi in magnitude) `ParseFixedPoint(s, 8, &a)` succeeds
    with exactly the specified number of satoshi (no rounding, no truncation, no sign error). -/
theorem C13_amount_exact_val (s : Bytes) (v : Int) (h : Spec.amountOf s = some v) : parseFixedPoint s 8 = some v := by
  unfold Spec.amountOf at h
  simp only at h
  generalize hneg : decide (s.head? = some 45) = neg at h
  generalize hbody : (if neg = true then List.drop 1 s else s) = body at h
  have hs : s = (if neg then [45] else []) ++ body := by
    cases neg with
    | true =>
      have h45 : s.head? = some 45 := by simpa using hneg
      cases s with
      | nil => simp at h45
      | cons c r =>
        simp only [List.head?_cons, Option.some.injEq] at h45
        subst h45
        simpa using hbody
    | false => simpa using hbody
  have hbt : body = List.takeWhile (fun c => c != 46) body ++ List.dropWhile (fun c => c != 46) body :=
    (List.takeWhile_append_dropWhile).symm
  have hhead := List.head?_dropWhile_not (fun c => c != 46) body
  generalize hip : List.takeWhile (fun c => c != 46) body = ip at h hbt
  generalize htail : List.dropWhile (fun c => c != 46) body = tail at h hbt hhead
  split at h
  next hc =>
    obtain ⟨c1, c2, c3, c4, c5, c6⟩ := hc
    split at h
    next hlt =>
      simp only [Option.some.injEq] at h
      subst h
      rw [decVal_eq, decVal_eq] at hlt ⊢
      rw [isDecDigit_eq] at c2 c5
      have htl : tail = (if decide (tail ≠ []) then 46 :: tail.drop 1 else []) := by
        cases tail with
        | nil => simp
        | cons c r =>
          simp only [List.head?_cons] at hhead
          have : c = 46 := by simpa using hhead
          simp [this]
      have hnd : decide (tail ≠ []) = false → tail.drop 1 = [] := by
        intro hf
        have : tail = [] := by simpa using hf
        simp [this]
      have hcore := pfp_core neg (decide (tail ≠ [])) ip (tail.drop 1) c1
        (by simpa using c2) c3 (by simpa using c4) hnd (by simpa using c5) c6 hlt
      rw [← htl, ← hbt, ← hs] at hcore
      exact hcore
    · simp at h
  · simp at h

/-- the same, in the form "on the grammar of the specification the two functions coincide" -/
theorem C13_amount_exact (s : Bytes) : (∃ v, Spec.amountOf s = some v) → parseFixedPoint s 8 = Spec.amountOf s := by
  rintro ⟨v, hv⟩
  rw [hv]
  exact C13_amount_exact_val s v hv

/-! ## amounts: the converse (whatever `ParseFixedPoint` accepts without exponent is the specified value) -/

theorem mulTen_inv (k : Nat) (m x : Int) (h : mulTen k m = some x) : x = m * 10 ^ k := by
  induction k generalizing m with
  | zero => simp [mulTen] at h; simp [h]
  | succ k ih =>
    simp only [mulTen] at h
    split at h
    · simp at h
    · have := ih _ h
      rw [this, Int.pow_succ, Int.mul_assoc, Int.mul_comm 10]

theorem scaleTen_inv (k : Nat) (m x : Int) (h : scaleTen k m = some x) : x = m * 10 ^ k := by
  induction k generalizing m with
  | zero => simp [scaleTen] at h; simp [h]
  | succ k ih =>
    simp only [scaleTen] at h
    split at h
    · simp at h
    · have := ih _ h
      rw [this, Int.pow_succ, Int.mul_assoc, Int.mul_comm 10]

theorem mantissaDigits_inv (s : Bytes) (mn tz cnt : Nat) (m' : Int) (tz' cnt' : Nat) (rest : Bytes)
    (h : mantissaDigits s (mn : Int) tz cnt = some (m', tz', cnt', rest)) :
    ∃ (ds : Bytes) (mn' : Nat), s = ds ++ rest ∧ (∀ c ∈ ds, isDigit c = true)
      ∧ (rest = [] ∨ ∃ c r, rest = c :: r ∧ isDigit c = false)
      ∧ cnt' = cnt + ds.length ∧ m' = (mn' : Int) ∧ mn' * 10 ^ tz' = decValFrom (mn * 10 ^ tz) ds
      ∧ (mn' = 0 → mn = 0 ∧ tz' = tz + ds.length) := by
  induction s generalizing mn tz cnt with
  | nil =>
    simp only [mantissaDigits, Option.some.injEq, Prod.mk.injEq] at h
    obtain ⟨rfl, rfl, rfl, rfl⟩ := h
    exact ⟨[], mn, rfl, by simp, Or.inl rfl, rfl, rfl, by simp [decValFrom], fun h => ⟨h, rfl⟩⟩
  | cons d s ih =>
    simp only [mantissaDigits] at h
    split at h
    next hd =>
      have hd' : 48 ≤ d.toNat ∧ d.toNat ≤ 57 := by simpa [isDigit] using hd
      split at h
      · simp at h
      next m1 tz1 hp =>
        unfold processMantissaDigit at hp
        split at hp
        next h0 =>
          simp only [Option.some.injEq, Prod.mk.injEq] at hp
          obtain ⟨rfl, rfl⟩ := hp
          obtain ⟨ds, mn', e1, e2, e3, e4, e5, e6, e7⟩ := ih mn (tz + 1) (cnt + 1) h
          have e : mn * 10 ^ tz * 10 + (d.toNat - 48) = mn * 10 ^ (tz + 1) := by
            rw [h0, Nat.pow_succ, Nat.mul_assoc]; simp
          refine ⟨d :: ds, mn', by simp [e1], ?_, e3, by simp [e4]; omega, e5, ?_, ?_⟩
          · intro c hc
            simp only [List.mem_cons] at hc
            rcases hc with rfl | hc
            · exact hd
            · exact e2 c hc
          · rw [decValFrom_cons, e]; exact e6
          · intro hz; obtain ⟨a, b⟩ := e7 hz; exact ⟨a, by simp; omega⟩
        next h0 =>
          split at hp
          · simp at hp
          next x hx =>
            simp only [Option.some.injEq, Prod.mk.injEq] at hp
            obtain ⟨rfl, rfl⟩ := hp
            have hxv := mulTen_inv _ _ _ hx
            have ec : x + ((d.toNat : Int) - 48) = ((mn * 10 ^ (tz + 1) + (d.toNat - 48) : Nat) : Int) := by
              rw [hxv]
              have : ((mn * 10 ^ (tz + 1) + (d.toNat - 48) : Nat) : Int)
                  = (mn : Int) * 10 ^ (tz + 1) + ((d.toNat : Int) - 48) := by
                rw [Int.natCast_add, Int.natCast_mul, Int.natCast_pow]; simp; omega
              rw [this]
            rw [ec] at h
            obtain ⟨ds, mn', e1, e2, e3, e4, e5, e6, e7⟩ := ih _ 0 (cnt + 1) h
            have e : mn * 10 ^ tz * 10 = mn * 10 ^ (tz + 1) := by rw [Nat.pow_succ, Nat.mul_assoc]
            refine ⟨d :: ds, mn', by simp [e1], ?_, e3, by simp [e4]; omega, e5, ?_, ?_⟩
            · intro c hc
              simp only [List.mem_cons] at hc
              rcases hc with rfl | hc
              · exact hd
              · exact e2 c hc
            · rw [decValFrom_cons, e6, e]; simp
            · intro hz; obtain ⟨a, _⟩ := e7 hz; omega
    next hd =>
      simp only [Option.some.injEq, Prod.mk.injEq] at h
      obtain ⟨rfl, rfl, rfl, rfl⟩ := h
      exact ⟨[], mn, rfl, by simp, Or.inr ⟨d, s, rfl, by simpa using hd⟩, rfl, rfl, by simp [decValFrom],
        fun h => ⟨h, rfl⟩⟩

theorem pfpInt_inv (s1 : Bytes) (m : Int) (tz : Nat) (s2 : Bytes) (h : pfpInt s1 = some (m, tz, s2)) :
    ∃ (ip : Bytes) (mn : Nat), s1 = ip ++ s2 ∧ ip ≠ [] ∧ (∀ c ∈ ip, isDigit c = true)
      ∧ (ip.head? = some 48 → ip.length = 1) ∧ m = (mn : Int) ∧ mn * 10 ^ tz = decValFrom 0 ip ∧ (mn = 0 → tz = 0) := by
  unfold pfpInt at h
  split at h
  · simp at h
  next c r =>
    split at h
    next h0 =>
      simp only [Option.some.injEq, Prod.mk.injEq] at h
      obtain ⟨rfl, rfl, rfl⟩ := h
      refine ⟨[c], 0, rfl, by simp, ?_, fun _ => rfl, rfl, by simp [decValFrom, h0], fun _ => rfl⟩
      intro x hx
      simp only [List.mem_singleton] at hx
      subst hx
      simp [isDigit, h0]
    next h0 =>
      split at h
      next hr =>
        have hr' : 49 ≤ c.toNat ∧ c.toNat ≤ 57 := by simpa using hr
        split at h
        · simp at h
        next m1 tz1 cnt1 r1 hm =>
          simp only [Option.some.injEq, Prod.mk.injEq] at h
          obtain ⟨rfl, rfl, rfl⟩ := h
          have hm' : mantissaDigits (c :: r) ((0 : Nat) : Int) 0 0 = some (m1, tz1, cnt1, r1) := hm
          obtain ⟨ds, mn, e1, e2, e3, _, e5, e6, _⟩ := mantissaDigits_inv _ _ _ _ _ _ _ _ hm'
          have hcd : isDigit c = true := by simp [isDigit]; omega
          cases ds with
          | nil =>
            simp only [List.nil_append] at e1
            rcases e3 with e3 | ⟨c', r', e3, hnd⟩
            · rw [e3] at e1; simp at e1
            · rw [e3] at e1
              simp only [List.cons.injEq] at e1
              rw [← e1.1, hcd] at hnd
              simp at hnd
          | cons d ds' =>
            simp only [List.cons_append, List.cons.injEq] at e1
            obtain ⟨rfl, e1⟩ := e1
            have hne : mn ≠ 0 := by
              intro hz
              rw [hz, decValFrom_cons] at e6
              have := decValFrom_ge (0 * 10 ^ 0 * 10 + (c.toNat - 48)) ds'
              omega
            refine ⟨c :: ds', mn, by simp [e1], by simp, e2, ?_, e5, by simpa using e6, fun hz => absurd hz hne⟩
            intro h48
            simp only [List.head?_cons, Option.some.injEq] at h48
            rw [h48] at h0
            exact absurd rfl h0
      · simp at h

theorem pfpFrac_inv (mn tz : Nat) (s2 : Bytes) (m2 : Int) (tz2 po : Nat) (s3 : Bytes)
    (h : pfpFrac (mn : Int) tz s2 = some (m2, tz2, po, s3)) :
    (s2 = s3 ∧ s2.head? ≠ some 46 ∧ m2 = (mn : Int) ∧ tz2 = tz ∧ po = 0) ∨
    (∃ (fp : Bytes) (mn2 : Nat), s2 = 46 :: (fp ++ s3) ∧ fp ≠ [] ∧ (∀ c ∈ fp, isDigit c = true) ∧ po = fp.length
      ∧ m2 = (mn2 : Int) ∧ mn2 * 10 ^ tz2 = decValFrom (mn * 10 ^ tz) fp
      ∧ (mn2 = 0 → mn = 0 ∧ tz2 = tz + fp.length)) := by
  unfold pfpFrac at h
  split at h
  next r =>
    split at h
    next d r' =>
      split at h
      next hd =>
        obtain ⟨ds, mn2, e1, e2, e3, e4, e5, e6, e7⟩ := mantissaDigits_inv _ _ _ _ _ _ _ _ h
        refine Or.inr ⟨ds, mn2, by rw [e1], ?_, e2, by simpa using e4, e5, e6, e7⟩
        intro hnil
        subst hnil
        simp only [List.nil_append] at e1
        rcases e3 with e3 | ⟨c', r'', e3, hnd⟩
        · rw [e3] at e1; simp at e1
        · rw [e3] at e1
          simp only [List.cons.injEq] at e1
          rw [← e1.1, hd] at hnd
          simp at hnd
      · simp at h
    · simp at h
  next hne =>
    simp only [Option.some.injEq, Prod.mk.injEq] at h
    obtain ⟨rfl, rfl, rfl, rfl⟩ := h
    refine Or.inl ⟨rfl, ?_, rfl, rfl, rfl⟩
    intro h46
    cases s2 with
    | nil => simp at h46
    | cons c r =>
      simp only [List.head?_cons, Option.some.injEq] at h46
      exact hne r (by rw [h46])

theorem pfpExp_inv (s3 : Bytes) (e : Int) (eneg : Bool) (s4 : Bytes) (h : pfpExp s3 = some (e, eneg, s4))
    (hno : ∀ c ∈ s3, c.toNat ≠ 101 ∧ c.toNat ≠ 69) : e = 0 ∧ eneg = false ∧ s4 = s3 := by
  cases s3 with
  | nil =>
    simp [pfpExp] at h
    obtain ⟨rfl, rfl, rfl⟩ := h
    exact ⟨rfl, rfl, rfl⟩
  | cons c r =>
    have := hno c (by simp)
    simp [pfpExp, this.1, this.2] at h
    obtain ⟨rfl, rfl, rfl⟩ := h
    exact ⟨rfl, rfl, rfl⟩

theorem pfpFinal_inv (neg : Bool) (mn tz fl : Nat) (v : Int) (hfl : fl ≤ 8)
    (h : pfpFinal neg (mn : Int) tz fl 0 false 8 = some v) :
    v = sgn neg (mn * 10 ^ (tz + (8 - fl))) ∧ mn * 10 ^ (tz + (8 - fl)) < 10 ^ 18 := by
  have hnat : ((0 : Int) - (fl : Int) + (tz : Int) + ((8 : Nat) : Int)).toNat = tz + (8 - fl) := by omega
  have hm : (if neg = true then -(mn : Int) else (mn : Int)) = sgn neg mn := rfl
  unfold pfpFinal at h
  simp only [Bool.false_eq_true, if_false, hm, hnat] at h
  split at h
  · simp at h
  · split at h
    · simp at h
    · split at h
      · simp at h
      next m' hs =>
        split at h
        · simp at h
        next hb =>
          simp only [Option.some.injEq] at h
          subst h
          have hv := scaleTen_inv _ _ _ hs
          have hsg : sgn neg mn * 10 ^ (tz + (8 - fl)) = sgn neg (mn * 10 ^ (tz + (8 - fl))) := by
            cases neg <;> simp [sgn, Int.natCast_mul, Int.natCast_pow, Int.neg_mul]
          rw [hsg] at hv
          refine ⟨hv, ?_⟩
          rw [hv, ub_val] at hb
          generalize mn * 10 ^ (tz + (8 - fl)) = N at hb
          cases neg <;> simp [sgn] at hb <;> omega

theorem amountOf_of_parts (neg hasDot : Bool) (ip fp : Bytes) (h1 : ip ≠ []) (h2 : ∀ c ∈ ip, isDigit c = true)
    (h3 : ip.head? = some 48 → ip.length = 1) (hdot : hasDot = true → fp ≠ []) (hnd : hasDot = false → fp = [])
    (h5 : ∀ c ∈ fp, isDigit c = true) (h6 : fp.length ≤ 8) :
    Spec.amountOf ((if neg then [45] else []) ++ (ip ++ (if hasDot then 46 :: fp else [])))
      = if decValFrom 0 ip * 10 ^ 8 + decValFrom 0 fp * 10 ^ (8 - fp.length) < 10 ^ 18
        then some (sgn neg (decValFrom 0 ip * 10 ^ 8 + decValFrom 0 fp * 10 ^ (8 - fp.length))) else none := by
  have hp : ∀ c ∈ ip, (c != 46) = true := by
    intro c hc
    have : 48 ≤ c.toNat ∧ c.toNat ≤ 57 := by simpa [isDigit] using h2 c hc
    have hne : c ≠ 46 := by intro h; rw [h] at this; simp at this
    simpa using hne
  have htw : List.takeWhile (fun c => c != 46) (ip ++ (if hasDot then 46 :: fp else [])) = ip := by
    rw [List.takeWhile_append_of_pos hp]
    cases hasDot <;> simp
  have hdw : List.dropWhile (fun c => c != 46) (ip ++ (if hasDot then 46 :: fp else []))
      = (if hasDot then 46 :: fp else []) := by
    rw [List.dropWhile_append_of_pos hp]
    cases hasDot <;> simp
  have hfp : List.drop 1 (if hasDot then 46 :: fp else []) = fp := by
    cases hasDot with
    | true => simp
    | false => simp [hnd rfl]
  have hneg : decide (((if neg then [45] else []) ++ (ip ++ (if hasDot then 46 :: fp else []))).head? = some 45) = neg := by
    cases neg with
    | true => simp
    | false =>
      cases ip with
      | nil => exact absurd rfl h1
      | cons c r =>
        have : 48 ≤ c.toNat ∧ c.toNat ≤ 57 := by simpa [isDigit] using h2 c (by simp)
        have hne : c ≠ 45 := by intro h; rw [h] at this; simp at this
        simp [hne]
  have hbody : (if neg = true then List.drop 1 ((if neg then [45] else []) ++ (ip ++ (if hasDot then 46 :: fp else [])))
      else ((if neg then [45] else []) ++ (ip ++ (if hasDot then 46 :: fp else [])))) = ip ++ (if hasDot then 46 :: fp else []) := by
    cases neg <;> simp
  have hc4 : (if hasDot then 46 :: fp else []) ≠ [] → fp ≠ [] := by
    cases hasDot with
    | true => intro _; exact hdot rfl
    | false => intro h; simp at h
  have hall1 : ip.all Spec.isDecDigit = true := by rw [isDecDigit_eq]; simpa using h2
  have hall2 : fp.all Spec.isDecDigit = true := by rw [isDecDigit_eq]; simpa using h5
  unfold Spec.amountOf
  simp only [hneg, hbody, htw, hdw, hfp, decVal_eq]
  rw [if_pos ⟨h1, hall1, h3, hc4, hall2, h6⟩]
  rfl

/-- **Whatever `ParseFixedPoint(s, 8, &a)` accepts is the specified value**, for every string without exponent
    marker (`e`/`E`) and with at most 8 characters after its first `.`: no rounding, truncation or wrong sign, and
    nothing outside the grammar of `Spec.amountOf` is accepted (leading zeros, missing digits, `+`, white space,
    magnitudes of 10^18 satoshi or more are rejected). -/
theorem C13_amount_sound (s : Bytes) (v : Int) (h : parseFixedPoint s 8 = some v)
    (hnoexp : ∀ c ∈ s, c.toNat ≠ 101 ∧ c.toNat ≠ 69)
    (hfrac : ((s.dropWhile (fun c => c != 46)).drop 1).length ≤ 8) : Spec.amountOf s = some v := by
  unfold parseFixedPoint at h
  split at h
  · simp at h
  next m tz s2 hint =>
    split at h
    · simp at h
    next m2 tz2 po s3 hfr =>
      split at h
      · simp at h
      next e eneg s4 hexp =>
        split at h
        · simp at h
        next hs4 =>
          have hs4' : s4 = [] := by simpa using hs4
          subst hs4'
          -- the sign
          have hsgn : s = (if (pfpSign s).1 then [45] else []) ++ (pfpSign s).2 := by
            unfold pfpSign; split <;> simp
          generalize (pfpSign s).1 = neg at h hsgn
          generalize (pfpSign s).2 = s1 at hint hsgn
          obtain ⟨ip, mn, e1, i1, i2, i3, rfl, i5, i6⟩ := pfpInt_inv _ _ _ _ hint
          have hsub : ∀ c ∈ s3, c ∈ s := by
            intro c hc
            rw [hsgn, e1]
            rcases pfpFrac_inv _ _ _ _ _ _ _ hfr with ⟨f1, _⟩ | ⟨fp, _, f1, _⟩
            · rw [f1]; simp [hc]
            · rw [f1]; simp [hc]
          obtain ⟨rfl, rfl, hs3⟩ := pfpExp_inv _ _ _ _ hexp (fun c hc => hnoexp c (hsub c hc))
          subst hs3
          rcases pfpFrac_inv _ _ _ _ _ _ _ hfr with ⟨f1, _, rfl, rfl, rfl⟩ | ⟨fp, mn2, f1, f2, f3, rfl, rfl, f6, f7⟩
          · -- no fraction
            subst f1
            have hs : s = (if neg then [45] else []) ++ (ip ++ (if false then 46 :: [] else [])) := by
              rw [hsgn, e1]; simp
            obtain ⟨hv, hlt⟩ := pfpFinal_inv neg mn tz2 0 v (by omega) h
            have hV : mn * 10 ^ (tz2 + (8 - 0)) = decValFrom 0 ip * 10 ^ 8 + decValFrom 0 [] * 10 ^ (8 - ([] : Bytes).length) := by
              rw [Nat.pow_add, ← Nat.mul_assoc, i5]; simp [decValFrom]
            rw [hs, amountOf_of_parts neg false ip [] i1 i2 i3 (by simp) (fun _ => rfl) (by simp) (by simp)]
            rw [← hV, if_pos hlt, hv]
          · -- with fraction
            have hs : s = (if neg then [45] else []) ++ (ip ++ (if true then 46 :: fp else [])) := by
              rw [hsgn, e1, f1]; simp
            have hfl : fp.length ≤ 8 := by
              have hp : ∀ c ∈ (if neg then [45] else []) ++ ip, (c != 46) = true := by
                intro c hc
                simp only [List.mem_append] at hc
                rcases hc with hc | hc
                · cases neg <;> simp at hc; subst hc; decide
                · have : 48 ≤ c.toNat ∧ c.toNat ≤ 57 := by simpa [isDigit] using i2 c hc
                  have hne : c ≠ 46 := by intro h; rw [h] at this; simp at this
                  simpa using hne
              rw [hs, ← List.append_assoc, List.dropWhile_append_of_pos hp] at hfrac
              simpa using hfrac
            obtain ⟨hv, hlt⟩ := pfpFinal_inv neg mn2 tz2 fp.length v hfl h
            have hpow : 10 ^ 8 = 10 ^ fp.length * 10 ^ (8 - fp.length) := by
              rw [← Nat.pow_add]; congr 1; omega
            have hV : mn2 * 10 ^ (tz2 + (8 - fp.length))
                = decValFrom 0 ip * 10 ^ 8 + decValFrom 0 fp * 10 ^ (8 - fp.length) := by
              rw [Nat.pow_add, ← Nat.mul_assoc, f6, i5, decValFrom_eq, Nat.add_mul, Nat.mul_assoc, ← hpow]
            rw [hs, amountOf_of_parts neg true ip fp i1 i2 i3 (fun _ => f2) (by simp) f3 hfl]
            rw [← hV, if_pos hlt, hv]

/-- **On strings without exponent and with at most 8 characters after the first `.`, `ParseFixedPoint(s, 8, ·)` IS
    the specified conversion** (both accept exactly the same strings and give the same number of satoshi). -/
theorem C13_amount_iff (s : Bytes) (hnoexp : ∀ c ∈ s, c.toNat ≠ 101 ∧ c.toNat ≠ 69)
    (hfrac : ((s.dropWhile (fun c => c != 46)).drop 1).length ≤ 8) : parseFixedPoint s 8 = Spec.amountOf s := by
  cases hp : parseFixedPoint s 8 with
  | some v => exact (C13_amount_sound s v hp hnoexp hfrac).symm
  | none =>
    cases ha : Spec.amountOf s with
    | none => rfl
    | some v => rw [C13_amount_exact_val s v ha] at hp; simp at hp

/-- the two side conditions of `C13_amount_iff` are necessary: `ParseFixedPoint` also accepts scientific notation
    ("1e8" = 10^16 satoshi) and superfluous trailing zeros beyond 8 decimals ("1.000000000"), which are outside the
    grammar of `Spec.amountOf` -/
theorem amount_exponent_accepted :
    parseFixedPoint [49, 101, 56] 8 = some 10000000000000000 ∧ Spec.amountOf [49, 101, 56] = none := by decide

theorem amount_nine_decimals_accepted :
    parseFixedPoint [49, 46, 48, 48, 48, 48, 48, 48, 48, 48, 48] 8 = some 100000000
      ∧ Spec.amountOf [49, 46, 48, 48, 48, 48, 48, 48, 48, 48, 48] = none := by decide

/-! ## `Instance::parse_transaction` -/

/-- `parse_transaction` leaves at least one amount per input (missing ones are 0), keeps the amounts given, and the
    transaction it stores satisfies everything `parseTxHex_sound` says. -/
theorem parseTransactionArg_amounts (text : Bytes) (amounts : List Int) (tx : Tx) (n : Nat)
    (h : parseTransactionArg text = some (amounts, tx, n)) :
    n = 0 ∧ Spec.WellFormed tx ∧ tx.vin.length ≤ amounts.length ∧ tx.vin ≠ [] := by
  unfold parseTransactionArg at h
  simp only at h
  split at h
  · simp at h
  next am p hloop =>
    split at h
    · simp at h
    next tx1 n1 hp =>
      by_cases hne : tx1.vin.isEmpty = true
      · simp [hne] at h
      simp only [hne, Bool.false_eq_true, if_false, Option.some.injEq, Prod.mk.injEq] at h
      obtain ⟨rfl, rfl, rfl⟩ := h
      obtain ⟨h0, hwf, _⟩ := parseTxHex_sound p tx1 n1 hp
      refine ⟨h0, hwf, ?_, by intro hnil; rw [hnil] at hne; simp at hne⟩
      simp only [List.length_append, List.length_replicate]
      omega

/-! ## why `WellFormed` excludes "no inputs, some outputs" -/

/-- a transaction with no inputs and one output is not recovered from its own serialisation -/
theorem noInputs_counterexample :
    parseTx (serTx ⟨1, [], [⟨0, []⟩], 0⟩ true) = none := by decide

/-- while the completely empty transaction is -/
theorem empty_tx_roundtrip : parseTx (serTx ⟨1, [], [], 0⟩ true) = some (⟨1, [], [], 0⟩, []) := by decide

/-- the extended format with all witness stacks empty is rejected ("Superfluous witness record"):
    version 2 | 00 01 | 1 input (null outpoint, empty script, sequence 0) | 0 outputs | stack of 0 items | lock time 0 -/
theorem superfluous_witness_rejected :
    parseTx ([2, 0, 0, 0, 0, 1, 1] ++ List.replicate 32 0 ++ [0, 0, 0, 0, 0, 0, 0, 0, 0] ++ [0] ++ [0] ++ [0, 0, 0, 0])
      = none := by decide

end Btcdeb.Proofs.C13
