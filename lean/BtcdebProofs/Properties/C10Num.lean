/-
  C10 (continued) — the numeric-operand limit together with the minimal-encoding requirement: the
  complete three-way verdict of `CScriptNum(vch, fRequireMinimal, nMaxNumSize)` as the interpreter uses
  it (`num`), for every byte string, size limit and minimality setting.  Size is tested first, so an
  over-long operand reports *overflow* even when it is also non-minimal; the round trip shows the
  operand limit is exactly |n| < 2^31 (2^39 for lock-time operands) on what `serialize` produces.
  Property theorems only.
-/
import Btcdeb
import BtcdebProofs.Properties.C10
import BtcdebProofs.Properties.C18Ctor
import BtcdebProofs.Properties.C18Minimal
namespace Btcdeb.Proofs.C10
open Btcdeb Btcdeb.Model

/-- the full verdict: overflow first, then (only when required) minimality, else the value -/
theorem num_verdict (v : Bytes) (rm : Bool) (k : Nat) :
    num v rm k =
      if v.length > k then .error (.exc "script number overflow")
      else if rm = true ∧ minimalOk v = false then .error (.exc "non-minimally encoded script number")
      else .ok (Spec.numValue v) := by
  unfold num scriptNum
  by_cases h1 : v.length > k
  · simp [h1, NumErr.what]
  · cases rm <;> cases hm : minimalOk v <;> simp [h1, hm, NumErr.what, Btcdeb.Proofs.C18.decode_spec]

/-- with minimality required, a within-limit operand is accepted exactly when it is the unique shortest
    encoding of its value -/
theorem num_minimal_iff (v : Bytes) (k : Nat) (hk : v.length ≤ k) :
    (∃ n, num v true k = .ok n) ↔ Spec.Minimal v := by
  rw [num_verdict, ← Btcdeb.Proofs.C18.minimal_iff]
  have : ¬ v.length > k := by omega
  cases hm : minimalOk v <;> simp [this]

/-- what the arithmetic opcodes push is always readable again within the limit it fits:
    `num (serialize n) rm k = n` iff `(serialize n).length ≤ k` -/
theorem num_serialize_iff (n : Int) (rm : Bool) (k : Nat) :
    num (serialize n) rm k = .ok n ↔ (serialize n).length ≤ k := by
  constructor
  · intro h
    rw [num_verdict] at h
    by_cases hl : (serialize n).length > k
    · simp [hl] at h
    · omega
  · intro h
    unfold num
    rw [Btcdeb.Proofs.C18.ctor_serialize n k h rm]

/-- the default operand range, as integers -/
theorem num_default_range (n : Int) (rm : Bool) :
    num (serialize n) rm 4 = .ok n ↔ n.natAbs < 2 ^ 31 := by
  rw [num_serialize_iff, Btcdeb.Proofs.C18.encode_length_le_4_iff]

/-- the lock-time operand range, as integers -/
theorem num_locktime_range (n : Int) (rm : Bool) :
    num (serialize n) rm 5 = .ok n ↔ n.natAbs < 2 ^ 39 := by
  rw [num_serialize_iff, Btcdeb.Proofs.C18.encode_length_le_5_iff]

end Btcdeb.Proofs.C10
